import KyupyVerif.Proofs.NetlistBF
import KyupyVerif.Proofs.BenchText
import KyupyVerif.Proofs.VerilogText
import KyupyVerif.Proofs.VerilogTextConst
import KyupyVerif.Proofs.BenchEnd
import KyupyVerif.Proofs.BenchErr
import KyupyVerif.Proofs.BenchSched
import KyupyVerif.Proofs.VerilogEnd
import KyupyVerif.Proofs.SemL
import KyupyVerif.Proofs.WideGate
/-! # C11 — parsed Verilog and bench netlists simulate as the described netlist

Objects of the theorems: two hand-written models of `kyupy/verilog.py` and `kyupy/bench.py`.

(1) `KV.Netlist` (Model/Netlist.lean) — the transformers *after* lark: the callbacks `range`, `sigsel`, `concat`, `declaration`,
`instantiation` and the passes of `VerilogTransformer.module` (0, 1, ports, 1.5, 2, outputs) over an abstract technology
library (`TL`: pin ↦ index, direction), and `BenchTransformer`.  Theorems quantify over ALL statement lists / port lists / libraries.

(2) `KV.BenchText`, `KV.VerilogText` (Model/BenchText.lean, Model/VerilogText.lean) — the TEXT level: lexer and grammar as lark
(0.12, LALR, contextual lexer) reads the two `GRAMMAR` strings: ignored text (`#`, `//` + newline, `/* */`, `(* *)`, blanks,
`\r\n`, the lone `\r` that is an error), the name patterns with Python's Unicode case folding, escaped identifiers, sized
constants as names, numbers only inside ranges, keywords only where a statement begins (bench: `INPUT = AND(a)` is an error,
`z = INPUT(INPUT)` is not; Verilog: `wire input;` declares a wire, `module` is no statement keyword), `module` as bare prefix at
the top level, and the grammar by recursive descent.  Output: the statement list (1) consumes (`List BStmt`; `VModule` = lark's
tree after the `name` callback, handed on by `toR`).  Theorems quantify over ALL statement lists / module lists and ALL layouts.

* **Theorem** (kernel-checked, this file):
  `range_expand` (`_ascending`, `_descending`, `range_single`, `decl_names_*`, `sigsel_bits`) — `[l:r]` gives `base[l] … base[r]`
  in declared direction, `[k]` the single bit;
  `const_expand` (`_length`, `_get`, `const_one_bit`) — `w'<b|d|h>K` gives exactly `w` one-bit constants, MSB first, the value
  bits of `K` (bits above `w` are cut, missing ones are 0);  `concat_flat`;
  `sig_decls_lookup`, `sig_decls_nonwire_wins`, `sig_decls_wire_last` — which declaration of a name counts;
  `ports_order` — `io_nodes` = port list expanded by each declared range in declared direction;
  `named_pins_map`, `pin_reaches` (`_output`, `_input`) — every named connection is in the netlist as driver / reader line of
  the right pin index, constants through their own `__const<b>__` cell; `readers_exact` — and these are ALL lines that end in
  an instance pin (one per connection, in order);
  `assign_line` — what one assign pair becomes, INCLUDING the case in which the code as it stands drops it
  (`assign_order_matters`: kernel-checked witness that statement order changes the result; finding D23); for the repaired
  pass 1.5 `assign_fix_complete`: nothing is dropped while one side is driven;
  `reader_onebit_fallback`, `onebit_bus_index` — the `name[0]` fall-back and its blind spot `[k:k]`, `k ≠ 0` (finding D24);
  `bench_shape`, `bench_lines`, `bench_io_order`;
  `branchforks_only_forks` — with `branchforks` the netlist differs only by one-input/one-output forks on reader branches;
  **text level**: `bench_text_roundtrip`, `verilog_text_roundtrip` — `parse (print x) = some x` for every statement list /
  module list whose names can be written (decidable `validStmt` / `validModule`); `bench_text_layout_irrelevant`,
  `verilog_text_layout_irrelevant` — the same for EVERY layout of the token stream (any ignorable text in front and behind each
  token: blanks, line breaks, comments of every kind, attributes; decidable `layoutOK`), and for every SPELLING of every token
  (token classes: `bench_text_keyword_class`, `verilog_text_token_classes`, `const_spelling_class`, … — see finding 10(a) below), corollaries
  `bench_text_between_statements`, `bench_text_trailing_comment`; `bench_text_to_netlist`, `verilog_text_to_netlist` — the circuit model (1) builds from model
  (2)'s reading of the printed text is the circuit of the statement list, which puts all theorems of (1) behind the text.
  NOT a theorem: the converse (every accepted text is a layout of a token stream) and anything about rejected texts.
  **`parsed_sem` (connectivity ⇒ function)** — sections `ParsedSem`, `ParsedSemVerilog` at the end of this file.  `Circ.toNet`
  (Model/CircNet.lean) is the canonical dump (`KV.Net`, the object of every simulation theorem of C01/C02/…) of the circuit the
  parser model builds; `benchNet stmts` / `verilogNet cfg tl ports stmts` are the dumps of `bench stmts` / `module …`.
  Statement-level denotations, written without reference to the circuit: `BenchModel` (Model/BenchSem.lean), `VModel`
  (Model/VerilogSem.lean) — an environment `σ : signal name → α` over ANY value domain / op algebra (`prim`, `z`, `neg` as in
  `lineEq`) that satisfies every gate statement / instance, gives ports and state elements their assigned values.
  `bench_net_wf`, `verilog_net_wf` (the dump of EVERY model circuit is `Net.wfB`); `bench_net_ports`, `bench_snodes`,
  `verilog_snodes` (ports and `s_nodes` = statement-level lists); `bench_parsed_sem`, `verilog_parsed_sem` (the labellings of the
  net that satisfy every gate equation `lineEq` of the specification evaluator correspond ONE-TO-ONE to the models `σ`; line `i`
  carries `σ` of the signal `benchSigs[i]` / `vSigs[i]`; relational — no acyclicity hypothesis); `bench_captured`,
  `verilog_captured` (what is captured at an output port `o` is `σ o`, at a flip-flop `q = DFF(d)` / the pin-0 signal `σ d`);
  `bench_checker_sound`, `verilog_checker_sound`; `bench_end_to_end`, `bench_end_to_end4/8`, `verilog_end_to_end(8)` (composition
  with C01/C02: for every topological order that schedules every line there is exactly ONE model and the `LogicSim` result of the
  `SimOps` model is `σ` on every line and at every capture); `bench_text_to_net`, `verilog_text_to_net` (from TEXT, any layout).
  Bench: ALL statement lists that build (`benchOKB`: gate names pairwise different, no kind `__fork__`).  Verilog: the fragment
  `verilogOKB` — declarations, named single-bit pins reading constant bits (`__const<b>_<k>__` cell + fork each) or driven signals,
  `assign` statements of any shape whose bit pairs are in dependency order (alias lines fork → fork, constant sources; both
  pass-1.5 variants), both `branchforks` settings, UNRESOLVED circuit (an instance of kind `K` means what the simulator's kind
  table makes of `K`; for a library of primitives this is the function of the netlist; library substitution is C10
  `resolve_sem`, composed with these theorems in Props/C11Library.lean); NOT covered: multi-bit pin connections, 1-bit bus by base name, floating inputs / undriven outputs, assign pairs
  out of dependency order or onto a driven target (findings D23/D24).
  **ARITY DOMAIN (audit finding 1, known finding D33).**  `lineEq`, `BenchModel` (`gateVal`), `VModel` (`instVal`) read operands /
  pins 0..3 of a gate — exactly as `SimOps` does.  A gate with more than four connected inputs (`z = AND(a,b,c,d,e)`; real ISCAS
  files have 5..9-input gates) means, for model, specification and simulator alike, the 4-input primitive of its first four pins —
  not what the text says.  Therefore: `benchArityB` / `vArityB` / `Net.arityOKB` (at most four operands / input pin indices 0..3 /
  at most four input pin slots per combinational gate) are explicit DOMAIN hypotheses of `bench_parsed_sem`, `bench_end_to_end(4/8)`,
  `bench_end_to_end_closed`, `verilog_parsed_sem`, `verilog_end_to_end(8)` (and of C02 `gate_equations_are_netlist`,
  `sim*_netlist_all_circuits`, C01 `logic_sim_end_to_end_all_circuits`).  For the two-valued bench headline theorems the hypothesis is
  USED: `bench_end_to_end`, `bench_end_to_end_closed` conclude with the N-ARY reading `BenchModelN` (Model/BenchSem.lean `gateFunN`:
  and/nand = ALL operands, or/nor = ANY operand, xor/xnor = parity of ALL operands; at least two operand slots, a missing one reads
  `z`; fixed-arity kinds by their formula), `bench_nary_reading` / `gate_nary_reading`: inside the domain the n-ary reading IS the
  four-operand reading.  In the generic-domain theorems (any `α`, 4/8-valued, Verilog) the hypothesis is not used by the proof: the
  statement is true for every description, the hypothesis marks where it speaks about the function the text describes.
  `bench_end_to_end_as_simulated` is the unrestricted statement (what kyupy computes for every description);
  `wide_gate_not_simulated`: kernel-checked witness that outside the domain the simulation result is NOT the n-ary model
  (`AND5`, a..d = 1, e = 0: simulated 1, described 0).  Harness: `bencharity` / `verilogarity` / `netarity` evaluated on every case
  (tags `parsed-sem:*:benchArityB=` / `vArityB=`; disagreement with the generator's knowledge = broken tie); the generators produce
  5..9-input gates (bench kinds, library PRIM), the oracle's ground truth is n-ary, its class `wide-gate` is known finding D33;
  outside the domain σ is compared with the first-four-operands reading (the model follows the code).
  **Audit finding 10, what was done and what stays restricted.**  (a) TOKEN CLASSES — done.  The layout theorems above quantify over
  the layouts of the CANONICAL token stream (`INPUT`, plain names plain, canonical digits); the token-class theorems quantify over every
  member of each token's SPELLING CLASS, the class being what the real lexer / `name` / `range` / `sigsel` callbacks map to the same value
  (read off the grammar strings; probed against /repo: no spelling of a class builds a different circuit).  Bench: the keyword rules are
  `("INPUT" | "input")`, `("OUTPUT" | "output")` — four case-SENSITIVE literals, one callback: `bench_text_keyword_class` (every interface
  statement in its own spelling, any layout, trailing comment), `bench_text_keyword_class_netlist`, `bench_keyword_class_exact` (`isKw` =
  the four literals), `bench_other_case_rejected` (`Input(a)`: syntax error in every layout).  Verilog: keywords are case-sensitive
  literals WITHOUT `i` flag — one spelling each (`verilog_keyword_one_spelling`; `Input a;` / `MODULE` rejected: examples);
  `VerilogTransformer.name` strips backslash and terminator, so an escaped spelling IS the plain name (`escaped_name_same`; there is no
  `escaped_name_distinct`); `range` takes `int()`: `verilog_text_token_classes` — every name that is no statement keyword plain or
  escaped (sized constants too: `\4'b0011 `), every range number in any digit string of its value (`[03:00]`), any layout
  (`spellsB` / `sameTok`, spelled out by `verilog_token_class_def`; `verilog_text_layout_irrelevant` is the reflexive case).  Sized
  constants are NAMES in the tree; their class is on the model of `sigsel`: `const_spelling_class` (same expansion ⇔ same width and same
  value modulo `2^width` — bases `b d h` in either case, hex-digit case, leading zeros, excess digits; `const_base_letter_case`,
  `const_leading_zeros`), from the tree `verilog_const_spelling_same_circuit` (`sameModule`/`sameConst`, incl. `int(width)` with
  leading zeros and the raise guard), from TEXT `verilog_text_classes_same_circuit`, `verilog_text_classes_to_net`.  The grammar has no
  base `o`, no `_`, no blank inside a constant, no sign letter (rejected: examples).  STILL RESTRICTED: one of the seven statement
  keywords used as a NAME and written PLAIN where no statement begins (`wire input;`, `.input(a)`, `INV_X1 assign (…)`) is accepted by
  `parseVerilog` (concrete examples, correspondence run) but is not a member of `sameTok`'s class (canonical: escaped); the converse
  (every accepted text is a layout of a spelling of a tree) is not a theorem.  Correspondence/oracle: `harness/c11.py: class_stream`
  re-prints every generated statement list with random class members (tags `token-class:*`) — model parser == lark == respelled
  statement list, model circuit == real circuit (tie), real circuit of the respelled text == real circuit of the original text
  (oracle class `token-class`, the text as replay).
  **Audit 2, finding 1 — raise guard.**  `circOfText`'s guard only sets `err`, which `toNet` / `toNNet` ignore: `verilog_text_to_net`,
  `verilog_text_classes_to_net`, C11Library `verilog_text_to_nnet`, `verilog_library_text_end_to_end` now carry `hpos`
  (`m.stmts.any VStmt.hasPos = false`) and `hrok` (`rs.all RStmt.ok = true` — what the driver evaluates next to `verilogOKB`);
  `verilog_text_accepted` / `verilog_text_rejected` say what the guard does; witness text `exBadM` (C11Library) is outside.  Bench has no
  separate guard: `bench` sets `err` itself and `benchOKB` (hypothesis of every semantic bench theorem) IS `err = false`
  (`bench_ok_is_no_error`).
  (b) `circOfText` now contains the transformer's raise guard `RStmt.ok` (zero-width / out-of-base sized
  constants).  (c) `VModel` uses the builder's `assignPairs (sigDecls …)`, `outSig`, `inputNames`, `posNames`: bus-bit order, assign bit
  pairing, selects, concatenations, sized constants and declaration look-up are NOT re-specified inside the denotation; these clauses
  rest on `range_expand` (`rangeList` against the closed forms `l + i` / `l - i`), `const_expand` (against `Nat.testBit` of the parsed
  number), `concat_flat`, `sig_decls_lookup` / `_nonwire_wins` / `_wire_last`, `ports_order` (`io_nodes` = `posNames`), `assign_pairs_expand`
  — each pins its function against an independent closed form, except `posNames` / `expandSigs` themselves, which are DEFINITIONS shared
  by builder and denotation (their reading "port list expanded by declared range in declared direction" is `ports_order_expansion` +
  `decl_names_*`).  (d) `assign_line`, `assign_line_driven_source`, `reader_onebit_fallback`, `assign_order_matters`, `onebit_bus_index`
  are marked as statements about the EARLIER code.  (e) coverage: a Verilog case inside `verilogOKB` whose σ was compared with nothing
  (`linesDrivenB` false: kinds unknown to the simulator) is no longer counted as `parsed-sem:verilog:covered`.
  Hypotheses of the end-to-end theorems `orderOKB` / `forksOKB` / `linesDrivenB` are decidable conditions on (net, order); for
  bench they follow from the description (`bench_sched_hyps`, `bench_end_to_end_closed`: closed description over kinds the prefix
  table knows, a topological order that covers every node), for Verilog they are hypotheses.  For bench `benchOKB` is exactly
  "the parser model does not set `err`" (`bench_ok_is_no_error`); that a Verilog module inside `verilogOKB` builds (model `err`
  false, real parser does not raise) is checked on every generated case by the correspondence run, not proved.
* **Correspondence** (harness/c11.py, differential, not proof): (1) == real `verilog.parse` / `bench.parse` on generated
  texts: node list, line list with all pin numbers, `io_nodes`, connectivity table; both raise or both build on inputs outside
  the subset.  Which variant of pass 1.5 / pass 2 (`Cfg.assignFix`, `Cfg.onebitDecl`) the code under test has is probed.
  (2) == lark on the REAL grammar strings, for every generated text (all renderings), fixed lexer/grammar corner-case texts
  and random small edits of the generated texts (delete / insert / replace / swap / cut / duplicate / truncate / snippets such
  as `//`, `(*`, `\r`, keywords, non-ASCII letters): both accept or both reject (`lark.UnexpectedInput`), lark's parse tree ==
  the model's statement list == the generator's statement list, and circuit(1) built from (2)'s OWN reading of the text == the
  real parsed circuit (or both raise).  What remains trusted at the text level: that lark implements the grammar as the hand
  parser reads it — no longer unexamined, but checked on these texts only.  Outside the modelled domain (answered `unsup`,
  counted, not compared): a name with an apostrophe that is not a sized constant (Python's `int()` accepts more spellings).
  (3) `parsed_sem` tie (`parsed_sem_bench`, `parsed_sem_verilog`): `benchNet` / `verilogNet` (driver `netof`) == `dump_net` of the
  REAL parsed circuit character by character (every generated case that builds, also outside the Verilog fragment); `benchOKB`,
  `benchClosedB`, `verilogOKB` and the hypotheses of the end-to-end theorems (real topological order) evaluated by the driver on
  every case (coverage tags `parsed-sem:*`); for covered cases the model's `σ` (driver `benchsem` / `verilogsem`: evaluator +
  acceptance check `benchModelB` / `vModelB`, sound by theorem) observed at outputs and state elements == the GENERATOR's own
  evaluation of the netlist it rendered (bench; Verilog over the library of primitives `PRIM`) and == the real `LogicSim` on the
  real unresolved circuit (Verilog, every library), on sampled assignments.
* **Oracle** (harness/c11.py): truth table of the parsed + resolved circuit under the real `LogicSim(m=2)` against the
  generator's own evaluation of the netlist it rendered; port order; Verilog vs bench.  This decides violations.
  "Verilog vs bench" ("the same netlist written in either format yields equivalent circuits") is a THEOREM for the two canonical
  renderings `benchOf nl` / `verilogOf nl` of one netlist description `nl` of the common fragment `commonNlB` (combinational and
  sequential kinds): same models, same interface positions, same observations, same 2-valued `LogicSim` results at the interface
  (Props/C11Library.lean section `FormatEquiv`: `bench_verilog_equiv`, `bench_verilog_interface_positions`, `bench_verilog_captures`,
  `bench_verilog_sim_equiv`, `renderings_build`, `bench_verilog_sim_equiv_closed`; tie harness/c11.py `format_eq_hyp`, tags
  `format-eq-hyp:*`); for the REAL renderings of the generator (shuffled, renamed, library pin names, buses, assigns) it stays oracle.
  The step from "right connectivity" to "right Boolean function" (DESIGN `parsed_sem`) is now a theorem for bench and for the
  Verilog fragment above; through `resolve_tlib_cells` it is a theorem for modules of the fragment over certified combinational
  library cells (capstone Props/C11Library.lean: `verilog_parsed_sem_holes`, `verilog_resolved_rel`, `verilog_resolved_datasheet`,
  `verilog_library_end_to_end` — text → parse → resolve → SimOps → LogicSim = the DATASHEET denotation `VModelLib` of the module;
  hypotheses `tlFitsB` / `vArityLibB`: inside them the library pins are read BY NAME, `verilog_library_by_name`;
  tie `harness/c11.py: library_sem`); it stays oracle-only for Verilog modules outside the fragment and for library cells outside
  those hypotheses (sequential / tri-state / tie cells, unconnected pins, substitutions that remove logic). -/
namespace KV.C11
open KV.Netlist

/-! ## ranges and bit names -/
/-- `[l:r]`, `l ≤ r`: `r - l + 1` indices `l, l+1, …, r` in this order -/
theorem range_expand_ascending (l r i : Nat) (h : l ≤ r) (hi : i ≤ r - l) :
    (range l (some r)).length = r - l + 1 ∧ (range l (some r))[i]? = some (l + i) :=
  ⟨rangeList_length_asc h, rangeList_get_asc h hi⟩

/-- `[l:r]`, `l > r`: `l - r + 1` indices `l, l-1, …, r` in this order -/
theorem range_expand_descending (l r i : Nat) (h : r < l) (hi : i ≤ l - r) :
    (range l (some r)).length = l - r + 1 ∧ (range l (some r))[i]? = some (l - i) :=
  ⟨rangeList_length_desc h, rangeList_get_desc h hi⟩

/-- `[k]`: the single index -/
theorem range_single (k : Nat) : range k none = [k] := by simp [range, rangeList]

/-- `range_expand`: a declaration or select `base[l:r]` names `base[i]` for `i` running from `l` to `r` in the DECLARED
direction (both directions in one statement; `i`-th name, 0-based), and `base[k]` names the single bit -/
theorem range_expand (base : String) (l r i : Nat) :
    (l ≤ r → i ≤ r - l → ((range l (some r)).map (bitName base))[i]? = some (bitName base (l + i))) ∧
    (r < l → i ≤ l - r → ((range l (some r)).map (bitName base))[i]? = some (bitName base (l - i))) ∧
    ((range l (some r)).map (bitName base)).length = (if l ≤ r then r - l else l - r) + 1 ∧
    (range l none).map (bitName base) = [bitName base l] := by
  refine ⟨fun h hi => ?_, fun h hi => ?_, ?_, ?_⟩
  · rw [List.getElem?_map, (range_expand_ascending l r i h hi).2]; rfl
  · rw [List.getElem?_map, (range_expand_descending l r i h hi).2]; rfl
  · rw [List.length_map]
    by_cases h : l ≤ r
    · simp [h, (range_expand_ascending l r 0 h (Nat.zero_le _)).1]
    · have h' : r < l := by omega
      simp [h, (range_expand_descending l r 0 h' (Nat.zero_le _)).1]
  · rw [range_single]; rfl

/-- a declaration `kind [l:r] base`: one `SignalDeclaration` whose names are `base[i]` for `i` in range order -/
theorem decl_names_expand (k : DKind) (base : String) (l r : Nat) :
    declaration k (some (l, some r)) [base] = [⟨k, base, some (rangeList l r)⟩] ∧
    (⟨k, base, some (rangeList l r)⟩ : Decl).names = (rangeList l r).map (bitName base) := ⟨rfl, rfl⟩

theorem decl_names_ascending (k : DKind) (base : String) (l r i : Nat) (h : l ≤ r) (hi : i ≤ r - l) :
    ((⟨k, base, some (rangeList l r)⟩ : Decl).names)[i]? = some (bitName base (l + i)) := by
  show ((rangeList l r).map (bitName base))[i]? = _
  rw [List.getElem?_map, rangeList_get_asc h hi]; rfl

theorem decl_names_descending (k : DKind) (base : String) (l r i : Nat) (h : r < l) (hi : i ≤ l - r) :
    ((⟨k, base, some (rangeList l r)⟩ : Decl).names)[i]? = some (bitName base (l - i)) := by
  show ((rangeList l r).map (bitName base))[i]? = _
  rw [List.getElem?_map, rangeList_get_desc h hi]; rfl

/-- a declaration without range names the signal itself -/
theorem decl_names_scalar (k : DKind) (base : String) : (⟨k, base, none⟩ : Decl).names = [base] := rfl

/-- bit and part selects: `name[l:r]` is the list of `name[i]` in range order; `name[k]` is the single string `name[k]` -/
theorem sigsel_bits (n : String) (l : Nat) (r : Option Nat) :
    (sigsel (.bits n l r)).toList = (range l r).map (bitName n) := by
  simp [sigsel, collapse_toList]

theorem sigsel_bit (n : String) (k : Nat) : sigsel (.bits n k none) = .one (bitName n k) := by
  simp [sigsel, range_single, collapse]

example : bitName "data" 12 = "data[12]" := by decide +kernel
example : (sigsel (.bits "a" 3 (some 1))) = .many ["a[3]", "a[2]", "a[1]"] := by decide +kernel
example : (sigsel (.bits "a" 0 (some 2))) = .many ["a[0]", "a[1]", "a[2]"] := by decide +kernel
example : (declaration .input (some (7, some 5)) ["x", "y"]).flatMap Decl.names = ["x[7]", "x[6]", "x[5]", "y[7]", "y[6]", "y[5]"] := by
  decide +kernel

/-! ## sized constants -/
/-- `w'<base>K`: exactly `w` one-bit constants, most significant first: entry `i` is bit `w-1-i` of `K = int(digits, base)` -/
theorem const_expand (w : Nat) (b : Char) (ds : List Char) :
    (sigsel (.const w b ds)).toList =
      (List.range w).map fun i => bitStr ((parseNum (baseOf b) ds).testBit (w - 1 - i)) := by
  simp [sigsel, collapse_toList, constBits, constLoop_eq]

theorem const_expand_length (w : Nat) (b : Char) (ds : List Char) : ((sigsel (.const w b ds)).toList).length = w := by
  rw [const_expand]; simp

theorem const_expand_get (w : Nat) (b : Char) (ds : List Char) (i : Nat) (hi : i < w) :
    ((sigsel (.const w b ds)).toList)[i]? = some (bitStr ((parseNum (baseOf b) ds).testBit (w - 1 - i))) := by
  rw [const_expand, List.getElem?_map, List.getElem?_range hi]; rfl

/-- a 1-bit constant is a single string `1'b0` / `1'b1` (what a pin connection needs) -/
theorem const_one_bit (b : Char) (ds : List Char) :
    sigsel (.const 1 b ds) = .one (bitStr ((parseNum (baseOf b) ds).testBit 0)) := by
  simp only [sigsel, constBits, constLoop, collapse, Nat.testBit_zero]
  by_cases h : parseNum (baseOf b) ds % 2 = 1
  · simp [h]
  · have : (parseNum (baseOf b) ds % 2 == 1) = false := by simp [h]
    simp [h, this]

example : baseOf 'b' = 2 ∧ baseOf 'B' = 2 ∧ baseOf 'd' = 10 ∧ baseOf 'D' = 10 ∧ baseOf 'h' = 16 ∧ baseOf 'H' = 16 := by decide
example : parseNum 2 "1010".toList = 10 ∧ parseNum 10 "10".toList = 10 ∧ parseNum 16 "A".toList = 10 ∧ parseNum 16 "a".toList = 10 := by
  decide +kernel
example : sigsel (.const 4 'b' "1010".toList) = .many ["1'b1", "1'b0", "1'b1", "1'b0"] := by decide +kernel
example : sigsel (.const 4 'd' "10".toList) = .many ["1'b1", "1'b0", "1'b1", "1'b0"] := by decide +kernel
example : sigsel (.const 4 'h' "A".toList) = .many ["1'b1", "1'b0", "1'b1", "1'b0"] := by decide +kernel
example : sigsel (.const 6 'H' "a".toList) = .many ["1'b0", "1'b0", "1'b1", "1'b0", "1'b1", "1'b0"] := by decide +kernel  -- zero-extended
example : sigsel (.const 3 'h' "FA".toList) = .many ["1'b0", "1'b1", "1'b0"] := by decide +kernel                        -- cut to 3 bits
example : sigsel (.const 1 'd' "1".toList) = .one "1'b1" := by decide +kernel

/-! ## concatenations -/
/-- `{a, b, …}`: the bit lists of the items spliced in order, nested concatenations included -/
theorem concat_flat (items : List Sel) : sigsel (.concat items) = .many (items.flatMap fun a => (sigsel a).toList) := by
  simp [sigsel, concatL_eq]

example : sigsel (.concat [.name "x", .concat [.bits "a" 1 (some 0), .const 2 'b' "10".toList], .bits "y" 4 none]) =
    .many ["x", "a[1]", "a[0]", "1'b1", "1'b0", "y[4]"] := by decide +kernel

/-! ## which declaration of a name counts (`sig_decls`) -/
/-- the slot of a name is a register over the declarations of that name in statement order: a wire entry is replaced by
whatever follows, a non-wire entry stays -/
theorem sig_decls_lookup (stmts : List Stmt) (n : String) :
    lookup (sigDecls stmts) n = ((stmts.flatMap declsOf).filter (·.base == n)).foldl regStep none := by
  unfold sigDecls
  rw [lookup_foldl_declPut]; rfl

/-- the first non-wire declaration of a name wins over everything before (wires) and after it -/
theorem sig_decls_nonwire_wins (stmts : List Stmt) (n : String) (pre post : List Decl) (d : Decl)
    (hsplit : (stmts.flatMap declsOf).filter (·.base == n) = pre ++ d :: post)
    (hpre : ∀ e ∈ pre, e.kind = .wire) (hd : d.kind ≠ .wire) :
    lookup (sigDecls stmts) n = some d := by
  rw [sig_decls_lookup, hsplit, List.foldl_append, List.foldl_cons]
  rw [foldl_regStep_wires pre none (fun e h => by cases h) hpre]
  have : regStep (pre.getLast?.or none) d = some d := by
    cases hl : pre.getLast? with
    | none => rfl
    | some e =>
      have : e.kind = .wire := hpre e (List.mem_of_getLast? hl)
      simp [regStep, this]
  rw [this, foldl_regStep_nonwire post d hd]

/-- if a name is only ever declared as wire, the LAST wire declaration counts (e.g. its range) -/
theorem sig_decls_wire_last (stmts : List Stmt) (n : String)
    (h : ∀ e ∈ (stmts.flatMap declsOf).filter (·.base == n), e.kind = .wire) :
    lookup (sigDecls stmts) n = ((stmts.flatMap declsOf).filter (·.base == n)).getLast? := by
  rw [sig_decls_lookup, foldl_regStep_wires _ none (fun e h => by cases h) h]; simp

example : lookup (sigDecls [.decls [⟨.wire, "z", none⟩], .decls [⟨.output, "z", some [1, 0]⟩], .decls [⟨.input, "z", none⟩]]) "z"
    = some ⟨.output, "z", some [1, 0]⟩ := by decide +kernel

/-! ## port order -/
/-- `io_nodes` = the module port list, every port expanded by its declared range in declared direction (`posNames`),
provided every port is declared input/output and no bit name occurs twice. -/
theorem ports_order (cfg : Cfg) (tl : TL) (ports : List String) (stmts : List Stmt)
    (hnd : (posNames (sigDecls stmts) ports).Nodup)
    (hdecl : ∀ p ∈ ports, ∃ d, lookup (sigDecls stmts) p = some d ∧ d.kind ≠ .wire) :
    ioNames (module cfg tl ports stmts) = (posNames (sigDecls stmts) ports).map some := by
  apply ioNames_complete
  · intro p hp
    rw [io_module] at hp
    obtain ⟨d, _, hpd⟩ := List.mem_flatMap.mp hp
    unfold ioOfDecl at hpd
    split at hpd
    · cases hpd
    · obtain ⟨n, _, hpn⟩ := List.mem_flatMap.mp hpd
      unfold ioOfName at hpn
      split at hpn
      · rename_i k hk
        simp only [List.mem_singleton] at hpn
        subst hpn
        exact posOf_sound _ _ _ hk
      · cases hpn
  · intro i hi
    have hget : (posNames (sigDecls stmts) ports)[i]? = some (posNames (sigDecls stmts) ports)[i] := List.getElem?_eq_getElem hi
    refine ⟨(posNames (sigDecls stmts) ports)[i], ?_⟩
    rw [io_module]
    have hmem : (posNames (sigDecls stmts) ports)[i] ∈ posNames (sigDecls stmts) ports := List.getElem_mem hi
    have hmem' : (posNames (sigDecls stmts) ports)[i] ∈ ports.flatMap (fun p => match lookup (sigDecls stmts) p with
        | some d => d.names
        | none => []) := hmem
    obtain ⟨p, hp, hn⟩ := List.mem_flatMap.mp hmem'
    obtain ⟨d, hd, hk⟩ := hdecl p hp
    rw [hd] at hn
    apply List.mem_flatMap.mpr
    refine ⟨d, List.mem_of_find?_eq_some hd, ?_⟩
    unfold ioOfDecl
    have : (d.kind == DKind.wire) = false := by simp [hk]
    simp only [this, Bool.false_eq_true, if_false]
    apply List.mem_flatMap.mpr
    refine ⟨_, hn, ?_⟩
    unfold ioOfName
    rw [posOf_nodup _ hnd i _ hget]
    simp

/-- the position list spelled out: ports in header order, each replaced by the names of its declaration -/
theorem ports_order_expansion (ds : List Decl) (p : String) (rest : List String) (d : Decl) (h : lookup ds p = some d) :
    posNames ds (p :: rest) = d.names ++ posNames ds rest := by
  simp [posNames, h]

/-! ## named pin connections -/
/-- OUTPUT pin: for every instantiation statement in the list and every named connection `.p(s)` whose pin is an output of
the cell, the netlist has the line `(inst, pin_index p) → fork`, where the fork is named `s` — or, when `s` is the base
name of a declared one-element signal, that element (`outSig`) —, and the cell `(type, inst)` exists. -/
theorem pin_reaches_output (cfg : Cfg) (tl : TL) (ports : List String) (stmts : List Stmt) (ty inst p s : String) (idx : Nat)
    (pins : List (String × SelVal)) (hmem : Stmt.inst ty inst pins ∈ stmts) (hp : (p, SelVal.one s) ∈ pins)
    (htl : tl ty p = some (idx, true)) :
    (⟨.cell inst idx, .fork (outSig (sigDecls stmts) s).1, none⟩ : LineM) ∈ (module cfg tl ports stmts).lines ∧
    (module cfg tl ports stmts).isFork (outSig (sigDecls stmts) s).1 = true ∧
    (⟨ty, inst, false⟩ : NodeM) ∈ (module cfg tl ports stmts).nodes := by
  obtain ⟨h1, h2, h3⟩ := pass1_reaches tl (sigDecls stmts) stmts { err := !portsDeclared (sigDecls stmts) ports }
    ty inst p s idx pins hmem hp htl
  have hs : Sub (stmts.foldl (pass1Stmt tl (sigDecls stmts)) { err := !portsDeclared (sigDecls stmts) ports })
      (module cfg tl ports stmts) := (sub_portPass _ _ _).trans (sub_after1_module cfg tl ports stmts)
  exact ⟨hs.lines _ h1, hs.isFork h2, hs.nodes _ h3⟩

/-- the pin dictionary of an instantiation with pairwise different pin names: the connected pins in written order, each with
the value of its `sigsel`; `.P()` contributes nothing -/
theorem named_pins_map (pins : List (String × Option Sel)) (hnd : (pins.map (·.1)).Nodup) :
    instantiation pins = pins.filterMap fun p => p.2.map fun s => (p.1, sigsel s) := by
  unfold instantiation
  suffices h : ∀ m : List (String × SelVal), (∀ p ∈ pins, m.any (·.1 == p.1) = false) →
      pins.foldl pinStep m = m ++ pins.filterMap fun p => p.2.map fun s => (p.1, sigsel s) by
    have := h [] (fun _ _ => rfl); simpa using this
  induction pins with
  | nil => intro m _; simp
  | cons x xs ih =>
    intro m hm
    have hnd' := List.nodup_cons.mp (by simpa using hnd : (x.1 :: xs.map (·.1)).Nodup)
    simp only [List.foldl_cons, List.filterMap_cons]
    cases hx : x.2 with
    | none =>
      have : pinStep m x = m := by unfold pinStep; simp [hx]
      simp only [Option.map_none, this]
      exact ih hnd'.2 m (fun p hp => hm p (List.mem_cons_of_mem _ hp))
    | some sel =>
      have hput : pinStep m x = m ++ [(x.1, sigsel sel)] := by
        unfold pinStep pinPut; simp [hx, hm x List.mem_cons_self]
      simp only [Option.map_some, hput]
      rw [ih hnd'.2]
      · simp
      · intro p hp
        have h1 := hm p (List.mem_cons_of_mem _ hp)
        have h2 : x.1 ≠ p.1 := fun e => hnd'.1 (e ▸ List.mem_map.mpr ⟨p, hp, rfl⟩)
        simp [List.any_append, h1, h2]

/-- which fork an output pin drives -/
theorem outSig_undeclared (ds : List Decl) (s : String) (h : lookup ds s = none) : outSig ds s = (s, false) := by
  simp [outSig, h]
theorem outSig_scalar (ds : List Decl) (s : String) (k : DKind) (h : lookup ds s = some ⟨k, s, none⟩) : outSig ds s = (s, false) := by
  simp [outSig, h, Decl.names]
theorem outSig_onebit (ds : List Decl) (s : String) (k : DKind) (i : Nat) (h : lookup ds s = some ⟨k, s, some [i]⟩) :
    outSig ds s = (bitName s i, false) := by
  simp [outSig, h, Decl.names]

/-- INPUT pin: for every named connection `.p(s)` whose pin is an input of the cell there is a fork `f` with the line
`f → (inst, pin_index p)` — through the branch fork `f~inst/p` when `branchforks` is set —, and `f` is
* for a signal: `s` itself, or `s[0]`, or (repaired pass 2 only) the single name of the declaration of `s`;
* for a constant bit `1'b0`/`1'b1`: a fork `__const<b>_<k>__` of its own, driven by a cell of kind `__const<b>__`. -/
theorem pin_reaches_input (cfg : Cfg) (tl : TL) (ports : List String) (stmts : List Stmt) (ty inst p s : String) (idx : Nat)
    (pins : List (String × SelVal)) (hmem : Stmt.inst ty inst pins ∈ stmts) (hp : (p, SelVal.one s) ∈ pins)
    (htl : tl ty p = some (idx, false)) :
    ∃ f, (⟨.fork f, .cell inst idx, if cfg.bf then some (branchName f inst p) else none⟩ : LineM) ∈ (module cfg tl ports stmts).lines ∧
      (module cfg tl ports stmts).isFork f = true ∧
      (cfg.bf = true → (⟨forkKind, branchName f inst p, true⟩ : NodeM) ∈ (module cfg tl ports stmts).nodes) ∧
      ((isConstBit s = false ∧ (f = s ∨ f = s ++ "[0]" ∨
          (cfg.onebitDecl = true ∧ ∃ d, lookup (sigDecls stmts) s = some d ∧ d.names = [f]))) ∨
       (isConstBit s = true ∧ ∃ k, f = constName s k ∧
          (⟨.cell f 0, .fork f, none⟩ : LineM) ∈ (module cfg tl ports stmts).lines ∧
          (⟨constKind s, f, false⟩ : NodeM) ∈ (module cfg tl ports stmts).nodes)) :=
  (pass2_reaches cfg tl (sigDecls stmts) stmts (afterPass15 cfg tl ports stmts) ty inst p s idx pins hmem hp htl).mono
    (sub_after2_module cfg tl ports stmts)

/-- a signal that is a fork when pass 2 starts (a cell output, an input, an assign target) is read under its own name -/
theorem reader_of_driven (cfg : Cfg) (ds : List Decl) (C : Circ) (s : String) (h : C.isFork s = true) :
    resolveRead cfg ds C s = (s, false) := resolveRead_of_isFork cfg ds C s h

/-- **[about the EARLIER code — `assignFix = false` / `onebitDecl = false` are pass 1.5 / pass 2 before the repairs of findings D23/D24; kept as the record of those findings, not a statement about the code under test after the repairs]** the code as it stands resolves a 1-bit bus named by its base only through the literal index 0 -/
theorem reader_onebit_fallback (ds : List Decl) (C : Circ) (s : String) (h0 : C.isFork s = false) :
    resolveRead {} ds C s = if C.isFork (s ++ "[0]") then (s ++ "[0]", false) else (s, true) := by
  simp [resolveRead, h0]

/-- `pin_reaches`: both directions in one statement — for every named connection `(inst, p, s)` of an instantiation in the
statement list the netlist connects the fork of `s` to `(inst, pin_index p)`: as DRIVER line `(inst, idx) → fork` when `p` is
an output of the cell, as READER line `fork → (inst, idx)` (optionally through the branch fork) when it is an input -/
theorem pin_reaches (cfg : Cfg) (tl : TL) (ports : List String) (stmts : List Stmt) (ty inst p s : String) (idx : Nat) (isOut : Bool)
    (pins : List (String × SelVal)) (hmem : Stmt.inst ty inst pins ∈ stmts) (hp : (p, SelVal.one s) ∈ pins)
    (htl : tl ty p = some (idx, isOut)) :
    (isOut = true → (⟨.cell inst idx, .fork (outSig (sigDecls stmts) s).1, none⟩ : LineM) ∈ (module cfg tl ports stmts).lines) ∧
    (isOut = false → ∃ f, (⟨.fork f, .cell inst idx, if cfg.bf then some (branchName f inst p) else none⟩ : LineM) ∈ (module cfg tl ports stmts).lines ∧
      (module cfg tl ports stmts).isFork f = true ∧
      ((isConstBit s = false ∧ (f = s ∨ f = s ++ "[0]" ∨
          (cfg.onebitDecl = true ∧ ∃ d, lookup (sigDecls stmts) s = some d ∧ d.names = [f]))) ∨
       (isConstBit s = true ∧ ∃ k, f = constName s k ∧
          (⟨.cell f 0, .fork f, none⟩ : LineM) ∈ (module cfg tl ports stmts).lines))) := by
  constructor
  · intro ho; subst ho
    exact (pin_reaches_output cfg tl ports stmts ty inst p s idx pins hmem hp htl).1
  · intro ho; subst ho
    obtain ⟨f, h1, h2, _, h4⟩ := pin_reaches_input cfg tl ports stmts ty inst p s idx pins hmem hp htl
    refine ⟨f, h1, h2, ?_⟩
    rcases h4 with h4 | ⟨hc, k, hk, hl, _⟩
    · exact Or.inl h4
    · exact Or.inr ⟨hc, k, hk, hl⟩

/-! ## assigns -/
/-- **[about the EARLIER code — `assignFix = false` / `onebitDecl = false` are pass 1.5 / pass 2 before the repairs of findings D23/D24; kept as the record of those findings, not a statement about the code under test after the repairs]** One (target, source) bit pair of the assigns (`assignPairs`: both sides expanded through `sig_decls`, zipped), in the
code as it stands (`assignFix = false`).  `C` is the circuit at the moment the pair is visited.
* target already a fork → line `t → s` (the source becomes an alias of the target);
* else source a fork → line `s → t`;
* else source a constant bit → a `__const<b>_<k>__` cell drives the new fork `t`;
* else the pair leaves NO trace (`assignStep C (t, s) = C`): neither side is driven yet. -/
theorem assign_line (cfg : Cfg) (hcfg : cfg.assignFix = false) (tl : TL) (ports : List String) (stmts : List Stmt)
    (pre post : List (String × String)) (t s : String)
    (hsplit : assignPairs (sigDecls stmts) stmts = pre ++ (t, s) :: post) :
    ((pre.foldl assignStep (afterPass1 tl ports stmts)).isFork t = true →
        (⟨.fork t, .fork s, none⟩ : LineM) ∈ (module cfg tl ports stmts).lines) ∧
    ((pre.foldl assignStep (afterPass1 tl ports stmts)).isFork t = false →
      (pre.foldl assignStep (afterPass1 tl ports stmts)).isFork s = true →
        (⟨.fork s, .fork t, none⟩ : LineM) ∈ (module cfg tl ports stmts).lines) ∧
    ((pre.foldl assignStep (afterPass1 tl ports stmts)).isFork t = false →
      (pre.foldl assignStep (afterPass1 tl ports stmts)).isFork s = false → isConstBit s = true →
        (⟨.cell (constName s (pre.foldl assignStep (afterPass1 tl ports stmts)).cc) 0, .fork t, none⟩ : LineM) ∈ (module cfg tl ports stmts).lines ∧
        (⟨constKind s, constName s (pre.foldl assignStep (afterPass1 tl ports stmts)).cc, false⟩ : NodeM) ∈ (module cfg tl ports stmts).nodes) ∧
    ((pre.foldl assignStep (afterPass1 tl ports stmts)).isFork t = false →
      (pre.foldl assignStep (afterPass1 tl ports stmts)).isFork s = false → isConstBit s = false →
        afterPass15 cfg tl ports stmts = post.foldl assignStep (pre.foldl assignStep (afterPass1 tl ports stmts))) := by
  have h15 : afterPass15 cfg tl ports stmts =
      post.foldl assignStep (assignStep (pre.foldl assignStep (afterPass1 tl ports stmts)) (t, s)) := by
    unfold afterPass15 pass15
    simp only [hcfg, Bool.false_eq_true, if_false]
    rw [hsplit, List.foldl_append, List.foldl_cons]
  have hsub : Sub (assignStep (pre.foldl assignStep (afterPass1 tl ports stmts)) (t, s)) (module cfg tl ports stmts) := by
    have := sub_after15_module cfg tl ports stmts
    rw [h15] at this
    exact (sub_foldl _ sub_assignStep post _).trans this
  obtain ⟨s1, s2, s3, s4⟩ := assignStep_spec (pre.foldl assignStep (afterPass1 tl ports stmts)) t s
  refine ⟨fun h => hsub.lines _ (s1 h), fun h1 h2 => hsub.lines _ (s2 h1 h2), fun h1 h2 h3 => ?_, fun h1 h2 h3 => ?_⟩
  · exact ⟨hsub.lines _ (s3 h1 h2 h3).1, hsub.nodes _ (s3 h1 h2 h3).2⟩
  · rw [h15, s4 h1 h2 h3]

/-- **[about the EARLIER code — `assignFix = false` / `onebitDecl = false` are pass 1.5 / pass 2 before the repairs of findings D23/D24; kept as the record of those findings, not a statement about the code under test after the repairs]** corollary in netlist terms: a source that is driven by a cell or is an input (a fork after pass 1) and a target that
nothing has driven so far give the line source → target -/
theorem assign_line_driven_source (cfg : Cfg) (hcfg : cfg.assignFix = false) (tl : TL) (ports : List String) (stmts : List Stmt)
    (pre post : List (String × String)) (t s : String)
    (hsplit : assignPairs (sigDecls stmts) stmts = pre ++ (t, s) :: post)
    (hs : (afterPass1 tl ports stmts).isFork s = true)
    (ht : (pre.foldl assignStep (afterPass1 tl ports stmts)).isFork t = false) :
    (⟨.fork s, .fork t, none⟩ : LineM) ∈ (module cfg tl ports stmts).lines :=
  (assign_line cfg hcfg tl ports stmts pre post t s hsplit).2.1 ht
    ((sub_foldl _ sub_assignStep pre _).isFork hs)

/-- the pairs of one assign statement: declared signals are replaced by their names in declared order, the two sides are
zipped position by position -/
theorem assign_pairs_expand (ds : List Decl) (t s : List String) :
    pairsOf ds (.assign t s) = (expandSigs ds t).zip (expandSigs ds s) := rfl

/-- repaired pass 1.5 (`assignFix = true`): after the pass every pair either has one of its three lines, or still
neither of its sides is a fork and its source is no constant — no assign is dropped because of statement order -/
theorem assign_fix_complete (cfg : Cfg) (hcfg : cfg.assignFix = true) (tl : TL) (ports : List String) (stmts : List Stmt)
    (ts : String × String) (hts : ts ∈ assignPairs (sigDecls stmts) stmts) :
    Linked ts (module cfg tl ports stmts) ∨ handled (afterPass15 cfg tl ports stmts) ts = false := by
  have h15 : afterPass15 cfg tl ports stmts = (assignFix ((assignPairs (sigDecls stmts) stmts).length + 1)
      (afterPass1 tl ports stmts) (assignPairs (sigDecls stmts) stmts)).1 := by
    unfold afterPass15 pass15; simp [hcfg]
  obtain ⟨a, b⟩ := assignFix_spec ((assignPairs (sigDecls stmts) stmts).length + 1) (afterPass1 tl ports stmts)
    (assignPairs (sigDecls stmts) stmts) (Nat.lt_succ_self _)
  rcases b ts hts with h | h
  · right; rw [h15]; exact a ts h
  · left
    have := sub_after15_module cfg tl ports stmts
    rw [h15] at this
    exact h.mono this

/-! ## bench -/
/-- every gate statement `name = kind(d0, d1, …)`: a cell `(kind, name)`, the line cell → same-named fork, and for every
argument position `k` the line `fork d_k → (cell, k)`: drivers in argument order -/
theorem bench_shape (stmts : List BStmt) (name kind : String) (drv : List String) (hmem : BStmt.gate name kind drv ∈ stmts) :
    (⟨kind, name, false⟩ : NodeM) ∈ (bench stmts).nodes ∧
    (⟨.cell name 0, .fork name, none⟩ : LineM) ∈ (bench stmts).lines ∧ (bench stmts).isFork name = true ∧
    ∀ k (hk : k < drv.length), (⟨.fork drv[k], .cell name k, none⟩ : LineM) ∈ (bench stmts).lines ∧ (bench stmts).isFork drv[k] = true := by
  obtain ⟨C, _, h⟩ := foldl_reach benchStmt sub_benchStmt hmem {}
  have hl := lines_benchStmt C (.gate name kind drv)
  refine ⟨h.nodes _ ?_, h.lines _ ?_, h.isFork ?_, fun k hk => ⟨h.lines _ ?_, h.isFork ?_⟩⟩
  · have s1 : Sub ((drv.foldl getOrAddFork C).addCell kind name) (benchStmt C (.gate name kind drv)) :=
      (sub_getOrAddFork _ _).trans ((sub_addLine _ _ _ _).trans (sub_addLines _ _))
    exact s1.nodes _ (by simp)
  · rw [hl]; simp [benchLinesOf]
  · have s1 : Sub (getOrAddFork ((drv.foldl getOrAddFork C).addCell kind name) name) (benchStmt C (.gate name kind drv)) :=
      (sub_addLine _ _ _ _).trans (sub_addLines _ _)
    exact s1.isFork (getOrAddFork_isFork _ _)
  · rw [hl]
    have := mem_driverLines name drv 0 k hk
    simp only [Nat.zero_add] at this
    simp [benchLinesOf, this]
  · have s1 : Sub (drv.foldl getOrAddFork C) (benchStmt C (.gate name kind drv)) :=
      (sub_addCell _ _ _).trans ((sub_getOrAddFork _ _).trans ((sub_addLine _ _ _ _).trans (sub_addLines _ _)))
    exact s1.isFork (foldl_getOrAddFork_isFork drv C _ (List.getElem_mem hk))

/-- the complete line list of a bench circuit: per gate statement, in text order, the line to its fork followed by its
driver lines in argument order — and nothing else -/
theorem bench_lines (stmts : List BStmt) : (bench stmts).lines = stmts.flatMap benchLinesOf := by
  unfold bench
  suffices h : ∀ C : Circ, (stmts.foldl benchStmt C).lines = C.lines ++ stmts.flatMap benchLinesOf by
    have := h {}; simpa using this
  induction stmts with
  | nil => intro C; simp
  | cons s ss ih => intro C; simp only [List.foldl_cons, List.flatMap_cons]; rw [ih, lines_benchStmt]; simp

/-- `io_nodes` of a bench circuit: the names of the INPUT(...)/OUTPUT(...) statements in text order -/
theorem bench_io_order (stmts : List BStmt) : (bench stmts).ioB = stmts.flatMap benchPortsOf := by
  unfold bench
  suffices h : ∀ C : Circ, (stmts.foldl benchStmt C).ioB = C.ioB ++ stmts.flatMap benchPortsOf by
    have := h {}; simpa using this
  induction stmts with
  | nil => intro C; simp
  | cons s ss ih => intro C; simp only [List.foldl_cons, List.flatMap_cons]; rw [ih, ioB_benchStmt]; simp

/-! ## branch forks -/
/-- `branchforks=True` only inserts forks: removing the tagged forks and joining the two lines through each of them
(`stripBranch`) gives exactly the nodes, lines and ports of the circuit built with `branchforks=False`; the inserted forks
are, in order, the `via`s of the reader lines (so each has exactly the one input and the one output line of its `via` line,
see `LineM.flat`), and the circuit without `branchforks` has no `via` at all.
Hypothesis `noTilde`: no name that pass 2 or the output pass looks up contains the separator `~`. -/
theorem branchforks_only_forks (cfg : Cfg) (tl : TL) (ports : List String) (stmts : List Stmt) (hq : noTilde stmts = true) :
    (stripBranch (module { cfg with bf := true } tl ports stmts)).nodes = (module { cfg with bf := false } tl ports stmts).nodes ∧
    (stripBranch (module { cfg with bf := true } tl ports stmts)).lines = (module { cfg with bf := false } tl ports stmts).lines ∧
    ioNames (module { cfg with bf := true } tl ports stmts) = ioNames (module { cfg with bf := false } tl ports stmts) ∧
    ((module { cfg with bf := true } tl ports stmts).nodes.filter (·.branch)).map (·.name) =
      (module { cfg with bf := true } tl ports stmts).lines.filterMap (·.via) ∧
    (∀ l ∈ (module { cfg with bf := false } tl ports stmts).lines, l.via = none) := by
  have h15 : afterPass15 { cfg with bf := true } tl ports stmts = afterPass15 { cfg with bf := false } tl ports stmts := rfl
  have h0 : BR (afterPass15 { cfg with bf := true } tl ports stmts) (afterPass15 { cfg with bf := false } tl ports stmts) := by
    rw [h15]; exact BR.refl_of_nb (nb_afterPass15 _ tl ports stmts)
  unfold noTilde at hq
  simp only [Bool.and_eq_true] at hq
  have h2 := br_pass2 h0 { cfg with bf := true } { cfg with bf := false } rfl rfl rfl tl (sigDecls stmts) stmts
    (List.all_eq_true.mp hq.1)
  have h3 : BR (module { cfg with bf := true } tl ports stmts) (module { cfg with bf := false } tl ports stmts) :=
    br_outPass h2 (sigDecls stmts) (List.all_eq_true.mp hq.2)
  refine ⟨?_, ?_, ?_, h3.vias, ?_⟩
  · simp [stripBranch, h3.nodes]
  · simp [stripBranch, h3.lines]
  · unfold ioNames; rw [h3.io]
  · intro l hl
    rw [h3.lines] at hl
    obtain ⟨l', _, rfl⟩ := List.mem_map.mp hl
    rfl

/-- what a `via` line stands for in the real line list: two lines through the fork, which is their only meeting point -/
theorem via_is_one_in_one_out (d r : Ep) (b : String) :
    (⟨d, r, some b⟩ : LineM).flat = [(d, .fork b), (.fork b, r)] ∧ (⟨d, r, none⟩ : LineM).flat = [(d, r)] := ⟨rfl, rfl⟩

/-! ## exactly one line per reader pin -/
/-- The lines of the netlist that END IN A CELL PIN are, in line order, exactly: one per named connection to an input pin
(`stmtReaders`: statement order, then the order of the pin dictionary), followed by the lines into the output-port cells.
Together with `pin_reaches_input`: when the pairs (instance, pin index) are pairwise different, every input pin that is
connected has exactly ONE incoming line, and no other pin of an instance has any. -/
theorem readers_exact (cfg : Cfg) (tl : TL) (ports : List String) (stmts : List Stmt) :
    ∃ outs, RC (module cfg tl ports stmts) = stmts.flatMap (stmtReaders tl) ++ outs ∧ ∀ x ∈ outs, OutRC (sigDecls stmts) x := by
  obtain ⟨o, h, p⟩ := rc_outPass (sigDecls stmts) (afterPass2 cfg tl ports stmts)
  exact ⟨o, by unfold module; rw [h, rc_afterPass2], p⟩

example : RC (module {} exTL ["z", "a", "e"] exStmts) = [("u1", 1), ("u1", 0), ("u2", 0), ("u3", 0), ("z[0]", 0), ("z[1]", 0)] := by
  decide +kernel

/-! ## non-vacuity: a small module with a bus, a constant, an assign, a 1-bit bus (`exStmts`, `exTL` in Proofs/NetlistBF.lean:
`module m(z, a, e); input [1:0] a; input [0:0] e; output [0:1] z; wire w; wire n; NAND2_X1 u1 (.ZN(w), .A2(a[0]), .A1(a[1]));
INV_X1 u2 (.I(e), .ZN(n)); INV_X1 u3 (.I(1'b1), .ZN(k)); assign z = {w, n}; endmodule`) -/
example : ioNames (module {} exTL ["z", "a", "e"] exStmts) =
    [some "z[0]", some "z[1]", some "a[1]", some "a[0]", some "e[0]"] := by decide +kernel
example : (module {} exTL ["z", "a", "e"] exStmts).err = false ∧ (module { bf := true } exTL ["z", "a", "e"] exStmts).err = false := by
  decide +kernel
example : noTilde exStmts = true := by decide +kernel
example : (posNames (sigDecls exStmts) ["z", "a", "e"]).Nodup ∧
    ∀ p ∈ ["z", "a", "e"], ∃ d, lookup (sigDecls exStmts) p = some d ∧ d.kind ≠ .wire := by decide +kernel
/-- the reader of the 1-bit bus `e` (named by its base) is connected to the fork `e[0]`; the constant gets its own cell -/
example : (⟨.fork "e[0]", .cell "u2" 0, none⟩ : LineM) ∈ (module {} exTL ["z", "a", "e"] exStmts).lines ∧
    (⟨.fork "a[1]", .cell "u1" 0, none⟩ : LineM) ∈ (module {} exTL ["z", "a", "e"] exStmts).lines ∧
    (⟨.fork "a[0]", .cell "u1" 1, none⟩ : LineM) ∈ (module {} exTL ["z", "a", "e"] exStmts).lines ∧
    (⟨.cell "__const1_0__" 0, .fork "__const1_0__", none⟩ : LineM) ∈ (module {} exTL ["z", "a", "e"] exStmts).lines ∧
    (⟨.fork "w", .fork "z[0]", none⟩ : LineM) ∈ (module {} exTL ["z", "a", "e"] exStmts).lines ∧
    (⟨.fork "n", .fork "z[1]", none⟩ : LineM) ∈ (module {} exTL ["z", "a", "e"] exStmts).lines ∧
    (⟨.fork "z[1]", .cell "z[1]" 0, none⟩ : LineM) ∈ (module {} exTL ["z", "a", "e"] exStmts).lines := by decide +kernel
example : (⟨.fork "a[1]", .cell "u1" 0, some "a[1]~u1/A1"⟩ : LineM) ∈ (module { bf := true } exTL ["z", "a", "e"] exStmts).lines ∧
    (⟨forkKind, "a[1]~u1/A1", true⟩ : NodeM) ∈ (module { bf := true } exTL ["z", "a", "e"] exStmts).nodes := by decide +kernel

/-- **[about the EARLIER code — `assignFix = false` / `onebitDecl = false` are pass 1.5 / pass 2 before the repairs of findings D23/D24; kept as the record of those findings, not a statement about the code under test after the repairs]** Statement order matters in the code as it stands: `assign z = b; assign b = a;` leaves `z` without driver (the first
assign is dropped: neither `z` nor `b` is driven when it is visited), `assign b = a; assign z = b;` connects it.  The
repaired pass 1.5 gives the same lines for both orders. -/
theorem assign_order_matters :
    let decls := [Stmt.decls [⟨.input, "a", none⟩], Stmt.decls [⟨.output, "z", none⟩], Stmt.decls [⟨.wire, "b", none⟩]]
    let zb := Stmt.assign ["z"] ["b"]
    let ba := Stmt.assign ["b"] ["a"]
    (⟨.fork "b", .fork "z", none⟩ : LineM) ∈ (module {} exTL ["a", "z"] (decls ++ [ba, zb])).lines ∧
    (⟨.fork "b", .fork "z", none⟩ : LineM) ∉ (module {} exTL ["a", "z"] (decls ++ [zb, ba])).lines ∧
    (module {} exTL ["a", "z"] (decls ++ [zb, ba])).isFork "z" = false ∧
    (⟨.fork "b", .fork "z", none⟩ : LineM) ∈ (module { assignFix := true } exTL ["a", "z"] (decls ++ [zb, ba])).lines ∧
    (⟨.fork "z", .cell "z" 0, none⟩ : LineM) ∈ (module { assignFix := true } exTL ["a", "z"] (decls ++ [zb, ba])).lines := by
  decide +kernel

/-- **[about the EARLIER code — `assignFix = false` / `onebitDecl = false` are pass 1.5 / pass 2 before the repairs of findings D23/D24; kept as the record of those findings, not a statement about the code under test after the repairs]** The 1-bit-bus fall-back of pass 2 tries index 0 only: with `input [3:3] a` a pin `.I(a)` reads a new undriven fork `a`
in the code as it stands, and the fork `a[3]` with the repaired look-up through the declaration. -/
theorem onebit_bus_index :
    let st := [Stmt.decls [⟨.input, "a", some [3]⟩], Stmt.decls [⟨.output, "z", none⟩],
               Stmt.inst "INV_X1" "u" [("I", .one "a"), ("ZN", .one "z")]]
    (⟨.fork "a", .cell "u" 0, none⟩ : LineM) ∈ (module {} exTL ["a", "z"] st).lines ∧
    (⟨.fork "a[3]", .cell "u" 0, none⟩ : LineM) ∉ (module {} exTL ["a", "z"] st).lines ∧
    (⟨.fork "a[3]", .cell "u" 0, none⟩ : LineM) ∈ (module { onebitDecl := true } exTL ["a", "z"] st).lines := by
  decide +kernel

/-- bench: `INPUT(a) INPUT(b) OUTPUT(z) z = NAND(n, a) n = NOT(b)` (`exBench`) -/
example : (bench exBench).ioB = ["a", "b", "z"] ∧ (bench exBench).err = false ∧
    (bench exBench).lines = [⟨.cell "z" 0, .fork "z", none⟩, ⟨.fork "n", .cell "z" 0, none⟩, ⟨.fork "a", .cell "z" 1, none⟩,
                             ⟨.cell "n" 0, .fork "n", none⟩, ⟨.fork "b", .cell "n" 0, none⟩] := by decide +kernel

/-! ## text level (lexer + grammar): bench

`KV.BenchText.parseBench` (Model/BenchText.lean) reads a text the way lark reads it with the grammar of `bench.py` (contextual
keywords, `%ignore` expression, Unicode case folding of `NAME`); `printBench` is the canonical printer. -/
section BenchText
open KV.BenchText

/-- `bench_text_roundtrip`: for ALL statement lists whose names are `NAME`s (`validStmt`: non-empty, only `[-_a-z0-9]` in any
case; an assignment target does not spell one of the four keywords), parsing the printed text gives the statement list back -/
theorem bench_text_roundtrip (stmts : List BStmt) (hv : stmts.all validStmt = true) :
    parseBench (printBench stmts) = some stmts :=
  parse_print stmts (by simpa using hv)

/-- layout independence: print the token stream of the statement list with ANY text `g0` in front and ANY gap behind each
token, as long as every gap is ignorable text (`gapB`: blanks, tabs, form feeds, `\n`, `\r\n`, `#` comments closed by their
`\n`) and no `NAME` is directly followed by a name character (`layoutOK`) — the parser returns the same statement list -/
theorem bench_text_layout_irrelevant (stmts : List BStmt) (hv : stmts.all validStmt = true) (g0 : List Char)
    (l : List (Tok × List Char)) (hl : l.map (·.1) = benchToks stmts) (hg0 : gapB .ws g0 = true) (hlay : layoutOK l = true) :
    parseBench (String.ofList (g0 ++ renderTG l)) = some stmts := by
  simp only [parseBench, String.toList_ofList]
  exact parse_layout stmts (by simpa using hv) g0 l hl hg0 hlay

/-- corollary: anything ignorable (blank lines, comment lines, or nothing at all) in front of the text and between the
statements does not change the result -/
theorem bench_text_between_statements (sg : List (BStmt × List Char)) (hv : (sg.map (·.1)).all validStmt = true)
    (g0 : List Char) (hg0 : gapB .ws g0 = true) (hg : sg.all (fun p => gapB .ws p.2) = true) :
    parseBench (String.ofList (g0 ++ renderTG (benchTGWith sg))) = some (sg.map (·.1)) :=
  bench_text_layout_irrelevant (sg.map (·.1)) hv g0 (benchTGWith sg) (benchTGWith_toks sg) hg0
    (layout_benchWith sg (by simpa using hg))

/-- the only other thing lark ignores: a `#` comment at the very end of the text that is NOT closed by a line break
(`tailOK`) — behind any layout it does not change the result either -/
theorem bench_text_trailing_comment (stmts : List BStmt) (hv : stmts.all validStmt = true) (g0 tail : List Char)
    (l : List (Tok × List Char)) (hl : l.map (·.1) = benchToks stmts) (hg0 : gapB .ws g0 = true) (hlay : layoutOK l = true)
    (ht : tailOK tail = true) : parseBench (String.ofList (g0 ++ (renderTG l ++ tail))) = some stmts := by
  simp only [parseBench, String.toList_ofList]
  exact parse_layout_tail stmts (by simpa using hv) g0 tail l hl hg0 hlay ht

example : tailOK "# last line, no line break".toList = true ∧ tailOK "#a\r".toList = true ∧ tailOK "#a\nINPUT(x)".toList = false := by
  decide +kernel

/-- the hypotheses are satisfiable; the printed text -/
example : [BStmt.intf ["a", "b"], .intf ["z"], .gate "z" "NAND" ["n-1", "a"], .gate "n-1" "not" ["b"], .gate "K" "__const1__" []].all
    validStmt = true := by decide +kernel
example : printBench [.intf ["a", "b"], .intf ["z"], .gate "z" "NAND" ["n-1", "a"], .gate "n-1" "not" ["b"]] =
    "INPUT(a, b)\nINPUT(z)\nz = NAND(n-1, a)\nn-1 = not(b)\n" := by decide +kernel
/-- concrete texts: comments, `\r\n`, no blanks at all, keywords in non-keyword positions -/
example : parseBench "# c17\r\nINPUT(a,b)  OUTPUT ( z )\n\tz=NAND(n-1 , a)#x\nn-1 = not(b)" =
    some [.intf ["a", "b"], .intf ["z"], .gate "z" "NAND" ["n-1", "a"], .gate "n-1" "not" ["b"]] := by decide +kernel
example : parseBench "input()x=INPUT(OUTPUT,input)" = some [.intf [], .gate "x" "INPUT" ["OUTPUT", "input"]] := by decide +kernel
/-- rejected: a keyword as assignment target, a lone `\r`, a missing comma, a name character outside the class -/
example : parseBench "INPUT = AND(a)" = none ∧ parseBench "INPUT(a)\rOUTPUT(z)" = none ∧ parseBench "z = AND(a b)" = none ∧
    parseBench "z = AND(a.b)" = none := by decide +kernel
/-- a layout with gaps of all kinds -/
example : gapB .ws "  # comment\r\n\t\x0c\n".toList = true ∧ gapB .ws "# open comment".toList = false ∧ gapB .ws "\r".toList = false := by
  decide +kernel

/-- text → netlist: the circuit the post-parse model builds from its own reading of the printed text is the circuit of the
statement list — so `bench_shape`, `bench_lines`, `bench_io_order` above speak about circuits built from TEXT -/
theorem bench_text_to_netlist (stmts : List BStmt) (hv : stmts.all validStmt = true) :
    KV.BenchText.circOfText (printBench stmts) = some (bench stmts) := by
  simp only [KV.BenchText.circOfText, bench_text_roundtrip stmts hv, Option.map_some]

/-! ### token classes (audit finding 10(a)): the spellings of the interface keyword

`bench.py`: `input: ("INPUT" | "input") parameters -> interface`, `output: ("OUTPUT" | "output") parameters -> interface` — four
case-SENSITIVE literals (no `i` flag on them; only `NAME` is case-insensitive), one callback.  The class of the statement-leading
keyword token is exactly these four spellings (`isKw`). -/

/-- **every spelling of the keyword, every layout**: each interface statement of the list carries its OWN keyword spelling
(`ks : List (spelling × statement)`, every spelling one of the four literals: `kwsOK`); any layout of that token stream
(`layoutOK`), any ignorable text in front, an unclosed `#` comment behind — the parser returns the statement list -/
theorem bench_text_keyword_class (ks : List (List Char × BStmt)) (hk : kwsOK ks = true)
    (hv : (ks.map (·.2)).all validStmt = true) (g0 tail : List Char) (l : List (Tok × List Char))
    (hl : l.map (·.1) = benchToksK ks) (hg0 : gapB .ws g0 = true) (hlay : layoutOK l = true) (ht : tailOK tail = true) :
    parseBench (String.ofList (g0 ++ (renderTG l ++ tail))) = some (ks.map (·.2)) := by
  simp only [parseBench, String.toList_ofList]
  refine parse_layout_kw ks hk (fun p hp => ?_) g0 tail l hl hg0 hlay ht
  simp only [List.all_map, List.all_eq_true] at hv
  exact hv p hp

/-- … and the circuit built from such a text is the circuit of the statement list (so every `bench_*` theorem below speaks about
texts in all four keyword spellings) -/
theorem bench_text_keyword_class_netlist (ks : List (List Char × BStmt)) (hk : kwsOK ks = true)
    (hv : (ks.map (·.2)).all validStmt = true) (g0 tail : List Char) (l : List (Tok × List Char))
    (hl : l.map (·.1) = benchToksK ks) (hg0 : gapB .ws g0 = true) (hlay : layoutOK l = true) (ht : tailOK tail = true) :
    KV.BenchText.circOfText (String.ofList (g0 ++ (renderTG l ++ tail))) = some (bench (ks.map (·.2))) := by
  simp only [KV.BenchText.circOfText, bench_text_keyword_class ks hk hv g0 tail l hl hg0 hlay ht, Option.map_some]

/-- the class is what the grammar says: the four literals … -/
theorem bench_keyword_class_exact (n : List Char) :
    isKw n = true ↔ n = "INPUT".toList ∨ n = "input".toList ∨ n = "OUTPUT".toList ∨ n = "output".toList := isKw_iff n

/-- … and nothing else: a text whose first two tokens are a NAME that is NOT one of the four literals (`Input`, `OutPut`,
`INput`) and `(` is rejected, whatever follows and in whatever layout (lark: the name is an assignment target, `=` must follow) -/
theorem bench_other_case_rejected (n : List Char) (hn : isKw n = false) (g0 : List Char) (l : List (Tok × List Char))
    (ts : List Tok) (hl : l.map (·.1) = .name n :: .lpar :: ts) (hok : l.all (fun p => tokOK p.1) = true)
    (hg0 : gapB .ws g0 = true) (hlay : layoutOK l = true) : parseBench (String.ofList (g0 ++ renderTG l)) = none := by
  simp only [parseBench, String.toList_ofList]
  apply not_kw_not_interface n hn _ ts
  rw [← hl]
  exact lexes_render l g0 hg0 (by simpa using hok) hlay

/-- the canonical stream is the member of the class with every keyword spelled `INPUT` -/
theorem bench_keyword_class_canonical (stmts : List BStmt) : benchToksK (stmts.map fun st => (kwInput, st)) = benchToks stmts :=
  benchToksK_canon stmts

example : kwsOK [("input".toList, .intf ["a"]), ("OUTPUT".toList, .intf ["z"]), ("output".toList, .intf []), ([], .gate "z" "NOT" ["a"])] = true ∧
    kwsOK [("Input".toList, .intf ["a"])] = false := by decide +kernel
example : parseBench "input(a) OUTPUT(z)\noutput ( ) z = NOT(a) # end" =
    some [.intf ["a"], .intf ["z"], .intf [], .gate "z" "NOT" ["a"]] := by decide +kernel
example : parseBench "Input(a)" = none ∧ parseBench "INPUT(a) OutPut(z)" = none ∧ parseBench "iNPUT (a)" = none := by decide +kernel
example : isKw "Input".toList = false ∧ isKw "OUTput".toList = false ∧ tokOK (.name "Input".toList) = true := by decide +kernel
end BenchText

/-! ## text level (lexer + grammar): structural Verilog

`KV.VerilogText.parseVerilog` (Model/VerilogText.lean) reads a text the way lark reads it with the grammar of `verilog.py`:
contextual lexer (keywords only where a statement begins, `module` as bare prefix at the top level, numbers only inside
ranges), the two `%ignore` terminals (`//` needs its newline, `/* */`, `(* *)`, lone `\r` is an error), escaped identifiers,
sized constants as names, ANSI-less headers, declarations with ranges, named and positional pins, bit/part selects, nested
concatenations, several modules.  The result `VModule` is lark's tree after the `name` callback. -/
section VerilogText
open KV.VerilogText

/-- `verilog_text_roundtrip`: for ALL module lists whose names can be written (`validModule`: every name non-empty and
without tab, blank, `\r`, `\n` — any such string is the name of an escaped identifier —, every declaration names at least
one signal, every concatenation has at least one item), parsing the printed text gives the module list back -/
theorem verilog_text_roundtrip (ms : List VModule) (hv : ms.all validModule = true) :
    parseVerilog (printVerilog ms) = some ms :=
  parse_print ms hv

/-- layout independence: print the token stream of the module list with ANY text `g0` in front and ANY gap behind each
token, as long as the gaps are ignorable text (`gapV`: blanks, tabs, form feeds, `\n`, `\r\n`, closed `/* */` and `(* *)`,
`//` comments closed by `\n`), a word or number is not directly followed by an identifier character, `(` not by `*`, and the
gap behind an escaped identifier starts with its terminator (`layoutOK`) — the parser returns the same module list -/
theorem verilog_text_layout_irrelevant (ms : List VModule) (hv : ms.all validModule = true) (g0 : List Char)
    (l : List (CT × List Char)) (hl : l.map (·.1) = modulesT ms) (hg0 : gapV .ws g0 = true) (hlay : layoutOK l = true) :
    parseVerilog (String.ofList (g0 ++ renderL l)) = some ms := by
  simp only [parseVerilog, String.toList_ofList]
  exact parse_layout ms hv g0 l hl hg0 hlay

/-- text → netlist: for a module whose statements the post-parse model accepts (`toRs`: no name with an apostrophe other
than sized constants), the circuit built from the model's own reading of the printed text is `module` of the transformed
statement list — so `ports_order`, `pin_reaches`, `readers_exact`, `assign_line`, … above speak about circuits built from
TEXT; an instantiation with a positional pin sets `err` (the real `module()` raises), and so does a sized constant `sigsel` raises
on (`RStmt.ok` false: `assign z = 0'b1;` — audit finding 10(b): the guard is now inside `circOfText`) -/
theorem verilog_text_to_netlist (cfg : Cfg) (tl : TL) (m : VModule) (rs : List RStmt) (hv : validModule m = true)
    (hr : toRs m.stmts = some rs) :
    KV.VerilogText.circOfText cfg tl (printVerilog [m]) =
      some ((module cfg tl m.ports (rs.map transform)).failIf (m.stmts.any VStmt.hasPos || !(rs.all RStmt.ok))) := by
  have := verilog_text_roundtrip [m] (by simp [hv])
  simp only [KV.VerilogText.circOfText, this, hr]

/-- **accepted texts** (audit 2, finding 1): the guard inside `circOfText` only SETS `err` — the dumps `toNet` / `toNNet` ignore it.
Under the two hypotheses the driver evaluates on every case (`rs.all RStmt.ok`: no sized constant `sigsel` raises on, i.e. width ≥ 1
and digits below the base; no positional pin — the statement lists the driver receives have none) the guard is off: the circuit of
the text IS `module …` of the transformed statement list, `err` included.  Every text-level theorem below whose conclusion speaks
about the built circuit or its meaning carries these two hypotheses; a text such as `INV_X1 u1(.I(1'b2), .ZN(n));` (real
`verilog.parse`: `ValueError`) is outside. -/
theorem verilog_text_accepted (cfg : Cfg) (tl : TL) (m : VModule) (rs : List RStmt) (hv : validModule m = true)
    (hr : toRs m.stmts = some rs) (hpos : m.stmts.any VStmt.hasPos = false) (hrok : rs.all RStmt.ok = true) :
    KV.VerilogText.circOfText cfg tl (printVerilog [m]) = some (module cfg tl m.ports (rs.map transform)) := by
  rw [verilog_text_to_netlist cfg tl m rs hv hr, hpos, hrok]
  simp [Circ.failIf]

/-- … and conversely the guard: a positional pin or a constant outside `RStmt.ok` sets `err` (the model says: the real parser
raises) -/
theorem verilog_text_rejected (cfg : Cfg) (tl : TL) (m : VModule) (rs : List RStmt) (hv : validModule m = true)
    (hr : toRs m.stmts = some rs) (h : m.stmts.any VStmt.hasPos = true ∨ rs.all RStmt.ok = false) :
    (KV.VerilogText.circOfText cfg tl (printVerilog [m])).map (·.err) = some true := by
  rw [verilog_text_to_netlist cfg tl m rs hv hr]
  rcases h with h | h <;> simp [Circ.failIf, h]

/-- the hypotheses are satisfiable: a module with a bus, escaped identifiers (one spelling a keyword), a sized constant, a
nested concatenation, an unconnected and a positional pin, `tri`, `inout` -/
def exVM : VModule := ⟨"top", ["a", "z.q", "e"],
  [.decl .input (some (3, some 0)) ["a", "b"], .decl .output none ["z.q"], .decl .inout (some (0, none)) ["e"], .decl .tri none ["t"],
   .inst "AND2_X1" "u$1" [.named "A1" (some (.sig "a" (some (1, none)))), .named "A2" (some (.sig "4'b0011" none)), .named "ZN" none],
   .inst "input" "assign" [.pos (.cat [.sig "a" none, .cat [.sig "b" (some (2, some 1))]])],
   .assign (.cat [.sig "z.q" none, .sig "e" none]) (.sig "a" (some (3, some 2)))]⟩

example : [exVM].all validModule = true := by decide +kernel
example : printVerilog [exVM] =
    "module top(a, \\z.q , e);\ninput [3:0] a, b;\noutput \\z.q ;\ninout [0] e;\ntri t;\n" ++
    "AND2_X1 \\u$1 (.A1(a[1]), .A2(4'b0011), .ZN());\n\\input \\assign ({a, {b[2:1]}});\nassign {\\z.q , e} = a[3:2];\nendmodule\n" := by
  decide +kernel
example : parseVerilog (printVerilog [exVM]) = some [exVM] := by decide +kernel
example : (toRs exVM.stmts).isSome = true ∧ exVM.stmts.any VStmt.hasPos = true := by decide +kernel
/-- the guard: a zero-width / out-of-base sized constant builds nothing (the real `verilog.parse` raises) -/
example : (circOfText {} exTL "module m(z); output z; assign z = 0'b1; endmodule").map (·.err) = some true ∧
    (circOfText {} exTL "module m(z); output z; assign z = 1'b2; endmodule").map (·.err) = some true ∧
    (circOfText {} exTL "module m(z); output z; assign z = 1'b1; endmodule").map (·.err) = some false := by decide +kernel

/-- concrete texts: comments of the three kinds, `\r\n`, an attribute between `(` tokens, keywords as plain names, `module`
glued to the name, two modules -/
example : parseVerilog "// netlist\r\nmodule top (a, z);\n  input a; output z; /* wire w; */ wire input;\n  INV_X1 (* keep *) u1 (.A(a), .ZN(z));\nendmodule\n" =
    some [⟨"top", ["a", "z"], [.decl .input none ["a"], .decl .output none ["z"], .decl .wire none ["input"],
      .inst "INV_X1" "u1" [.named "A" (some (.sig "a" none)), .named "ZN" (some (.sig "z" none))]]⟩] := by decide +kernel
example : parseVerilog "modulem();endmodule module module(module);assign module={1'b0};endmodule" =
    some [⟨"m", [], []⟩, ⟨"module", ["module"], [.assign (.sig "module" none) (.cat [.sig "1'b0" none])]⟩] := by decide +kernel
/-- rejected: a `//` comment that is not closed by a newline, a lone `\r`, a number where a name must stand, an empty
concatenation, a keyword as cell type, a missing `;`, an unclosed escaped identifier -/
example : parseVerilog "module m(); endmodule // end" = none ∧ parseVerilog "module m();\rendmodule" = none ∧
    parseVerilog "module m(); assign a = 12; endmodule" = none ∧ parseVerilog "module m(); assign {} = a; endmodule" = none ∧
    parseVerilog "module m(); input u (.A(a)); endmodule" = none ∧ parseVerilog "module m() endmodule" = none ∧
    parseVerilog "module m(); wire \\a" = none := by decide +kernel
/-- sized constants and names with an apostrophe on the way to the post-parse model -/
example : (toSel (.sig "4'hA" none)).map sigsel = some (.many ["1'b1", "1'b0", "1'b1", "1'b0"]) ∧
    (toSel (.sig "012'd7" (some (1, none)))).map sigsel = some (.one "012'd7[1]") ∧
    (toSel (.cat [.sig "x" none, .sig "2'B10" none])).map sigsel = some (.many ["x", "1'b1", "1'b0"]) ∧
    (toSel (.sig "a'b" none)).isNone = true := by decide +kernel

/-! ### token classes (audit finding 10(a)): keywords, escaped identifiers, range numbers, sized constants

What the real lexer / `VerilogTransformer.name` / `.range` / `.sigsel` map to the same value (read off `verilog.py`):
keywords are case-SENSITIVE literals (one spelling each); the `name` callback strips backslash and terminator, so `\abc ` IS
`abc`; `range` takes `int()` of its digit strings; `sigsel` takes `int(width)`, `int(digits, base)` of a sized constant and
keeps `width` bits. -/

/-- **every spelling, every layout**: the text may spell every token of the canonical stream `modulesT ms` by ANY member of
its class (`spellsB`, token by token `sameTok`): a name that is no statement keyword plain or as escaped identifier — also a
sized constant: `\4'b0011 ` —, a range number by any non-empty digit string of the same value (`[03:0]`); literals and keywords
as they are.  Any layout of that token list (`layoutOK`) parses to `ms`. -/
theorem verilog_text_token_classes (ms : List VModule) (hv : ms.all validModule = true) (g0 : List Char)
    (l : List (CT × List Char)) (hl : spellsB (l.map (·.1)) (modulesT ms) = true) (hg0 : gapV .ws g0 = true)
    (hlay : layoutOK l = true) : parseVerilog (String.ofList (g0 ++ renderL l)) = some ms := by
  simp only [parseVerilog, String.toList_ofList]
  exact parse_layout_cls ms hv g0 l hl hg0 hlay

/-- the class relation spelled out: the token itself; a plain word that is no statement keyword as escaped identifier; a
number as another digit string of the same value -/
theorem verilog_token_class_def (a t : Tok) :
    sameTok a t = true ↔ a = t ∨ (∃ w, a = .esc w ∧ t = .word w ∧ kwOf w = none) ∨
      (∃ ds ds', a = .num ds ∧ t = .num ds' ∧ ds ≠ [] ∧ ds.all Char.isDigit = true ∧ numVal ds = numVal ds') := by
  cases a <;> cases t <;> simp [sameTok, Option.isNone_iff_eq_none]
  all_goals grind

/-- the canonical stream is a member of its own class (so `verilog_text_layout_irrelevant` is the special case) -/
theorem verilog_token_class_refl (ts : List CT) : spellsB ts ts = true := spellsB_refl ts

/-- **escaped names are the same names**: the `name` rule gives `\w ` and `w` the same string (the real callback: `s[1:-1] if
s[0] == '\\' else s`) — there is no `escaped_name_distinct` in kyupy -/
theorem escaped_name_same (w : List Char) : tokName (.esc w) = tokName (.word w) := rfl

/-- **keywords have one spelling**: a keyword word, `module` and the one-character literals are spelled by themselves only
(the grammar's literals carry no `i` flag; `Input`, `WIRE` are plain names, `MODULE` at the top level a lexical error) -/
theorem verilog_keyword_one_spelling (a : Tok) :
    (∀ w, (kwOf w).isSome = true → sameTok a (.word w) = true → a = .word w) ∧ (sameTok a .modkw = true → a = .modkw) ∧
    (∀ c, sameTok a (.sym c) = true → a = .sym c) :=
  ⟨fun _ hk h => sameTok_kw (by simpa [Option.isNone_iff_eq_none, Option.isSome_iff_ne_none] using hk) h,
   fun h => sameTok_modkw h, fun _ h => sameTok_sym h⟩

example : kwOf "input".toList = some (.decl .input) ∧ kwOf "Input".toList = none ∧ kwOf "WIRE".toList = none ∧
    kwOf "ENDMODULE".toList = none := by decide +kernel
example : parseVerilog "module m(a); Input a; endmodule" = none ∧ parseVerilog "MODULE m(a); input a; endmodule" = none ∧
    parseVerilog "module m(a); input a; ENDMODULE" = none ∧
    parseVerilog "module m(a); INPUT a(); endmodule" = some [⟨"m", ["a"], [.inst "INPUT" "a" []]⟩] := by decide +kernel

/-- the hypotheses are satisfiable: `module \m (\a );input [03:00] a;INV \4'b01 (.A(\a ));endmodule` spells
`module m(a);input [3:0] a;INV \4'b01 (.A(a));endmodule` -/
def exSpelled : List CT := [(.top, .modkw), (.gen, .esc "m".toList), (.gen, .sym '('), (.gen, .esc "a".toList), (.gen, .sym ')'),
  (.gen, .sym ';'), (.gen, .word "input".toList), (.gen, .sym '['), (.num, .num "03".toList), (.gen, .sym ':'), (.num, .num "00".toList),
  (.gen, .sym ']'), (.gen, .word "a".toList), (.gen, .sym ';'), (.gen, .word "INV".toList), (.gen, .esc "4'b01".toList), (.gen, .sym '('),
  (.gen, .sym '.'), (.gen, .word "A".toList), (.gen, .sym '('), (.gen, .esc "a".toList), (.gen, .sym ')'), (.gen, .sym ')'), (.gen, .sym ';'),
  (.gen, .word "endmodule".toList)]
def exSpelledM : VModule := ⟨"m", ["a"], [.decl .input (some (3, some 0)) ["a"], .inst "INV" "4'b01" [.named "A" (some (.sig "a" none))]]⟩
example : spellsB exSpelled (modulesT [exSpelledM]) = true ∧ [exSpelledM].all validModule = true ∧
    layoutOK (layout exSpelled) = true := by decide +kernel
example : parseVerilog "module \\m (\\a );input [03:00] a;INV \\4'b01 (.A(\\a\t));endmodule" = some [exSpelledM] := by decide +kernel
/-- not in the class: a keyword written escaped is a NAME (a cell type), a different value is a different range -/
example : sameTok (.esc "input".toList) (.word "input".toList) = false ∧ sameTok (.num "04".toList) (.num "3".toList) = false ∧
    sameTok (.num []) (.num "0".toList) = false ∧ sameTok (.word "A".toList) (.word "a".toList) = false := by decide +kernel

/-- **sized constants, model level** (`const_expand` for every spelling): `W'Bdigits` and `W''B'digits'` expand to the same bit
list EXACTLY when the widths are equal and the values agree modulo `2^W` — whatever the base letters (`b d h`, either case: `baseOf`),
the letter case of hex digits, leading zeros, digits beyond the width -/
theorem const_spelling_class (w w' : Nat) (b b' : Char) (ds ds' : List Char) :
    sigsel (.const w b ds) = sigsel (.const w' b' ds') ↔
      w = w' ∧ parseNum (baseOf b) ds % 2 ^ w = parseNum (baseOf b') ds' % 2 ^ w := const_same_iff w w' b b' ds ds'

/-- the base letter is case-insensitive, leading zeros of the digits do not matter -/
theorem const_base_letter_case (w : Nat) (ds : List Char) :
    sigsel (.const w 'B' ds) = sigsel (.const w 'b' ds) ∧ sigsel (.const w 'D' ds) = sigsel (.const w 'd' ds) ∧
    sigsel (.const w 'H' ds) = sigsel (.const w 'h' ds) := const_base_case w ds

theorem const_leading_zeros (w : Nat) (b : Char) (ds : List Char) : sigsel (.const w b ('0' :: ds)) = sigsel (.const w b ds) :=
  const_leading_zero w b ds

/-- **sized constants, from the tree**: two module trees that differ only in the spelling of sized constants in assigns and pin
connections (`sameModule`: names of constants related by `sameConst` — both of the sized-constant shape, same `int(width)`, same
value modulo `2^width`, both inside or both outside the guard of `sigsel`) build the SAME circuit (both outside the modelled
domain, or both with `err`, included) -/
theorem verilog_const_spelling_same_circuit (cfg : Cfg) (tl : TL) (m m' : VModule) (h : sameModule m m' = true) :
    circOfModule cfg tl m = circOfModule cfg tl m' := circOfModule_same cfg tl m m' h

/-- **all classes together, from TEXT**: two texts — any spellings (`spellsB`) and any layouts of two module trees that differ
only in the spelling of sized constants — build the same circuit -/
theorem verilog_text_classes_same_circuit (cfg : Cfg) (tl : TL) (m m' : VModule) (hv : validModule m = true)
    (hv' : validModule m' = true) (h : sameModule m m' = true) (g0 g0' : List Char) (l l' : List (CT × List Char))
    (hl : spellsB (l.map (·.1)) (modulesT [m]) = true) (hl' : spellsB (l'.map (·.1)) (modulesT [m']) = true)
    (hg0 : gapV .ws g0 = true) (hg0' : gapV .ws g0' = true) (hlay : layoutOK l = true) (hlay' : layoutOK l' = true) :
    KV.VerilogText.circOfText cfg tl (String.ofList (g0 ++ renderL l)) =
      KV.VerilogText.circOfText cfg tl (String.ofList (g0' ++ renderL l')) := by
  rw [circOfText_of_parse cfg tl _ m (verilog_text_token_classes [m] (by simp [hv]) g0 l hl hg0 hlay),
    circOfText_of_parse cfg tl _ m' (verilog_text_token_classes [m'] (by simp [hv']) g0' l' hl' hg0' hlay')]
  exact circOfModule_same cfg tl m m' h

example : sameConst "4'b0011" "4'B0011" = true ∧ sameConst "4'b0011" "4'd3" = true ∧ sameConst "4'b0011" "4'H03" = true ∧
    sameConst "4'b0011" "04'b11" = true ∧ sameConst "4'b0011" "4'hF3" = true ∧ sameConst "4'b0011" "4'D19" = true ∧
    sameConst "4'hA" "4'ha" = true ∧ sameConst "4'b0011" "4'b0111" = false ∧ sameConst "4'b0011" "5'b0011" = false ∧
    sameConst "1'b1" "1'b3" = false ∧ sameConst "4'b0011" "abc" = false := by decide +kernel
example : sameModule ⟨"m", ["z"], [.decl .output (some (3, some 0)) ["z"], .assign (.sig "z" none) (.cat [.sig "2'b00" none, .sig "2'h3" none])]⟩
    ⟨"m", ["z"], [.decl .output (some (3, some 0)) ["z"], .assign (.sig "z" none) (.cat [.sig "02'D0" none, .sig "2'B11" none])]⟩ = true := by
  decide +kernel
example : circOfText {} exTL "module m(z); output [3:0] z; assign z = 4'b0011; endmodule" =
    circOfText {} exTL "module \\m (z); output [03:0] \\z ; assign z = 04'H3; endmodule" := by
  rw [circOfText_of_parse {} exTL _ ⟨"m", ["z"], [.decl .output (some (3, some 0)) ["z"], .assign (.sig "z" none) (.sig "4'b0011" none)]⟩
      (by decide +kernel),
    circOfText_of_parse {} exTL _ ⟨"m", ["z"], [.decl .output (some (3, some 0)) ["z"], .assign (.sig "z" none) (.sig "04'H3" none)]⟩
      (by decide +kernel)]
  exact verilog_const_spelling_same_circuit _ _ _ _ (by decide +kernel)
example : (circOfText {} exTL "module m(z); output [3:0] z; assign z = 04'H3; endmodule").map (·.err) = some false := by decide +kernel
/-- what the grammar does NOT have: base `o`, `_` separators, blanks inside the constant, a sign letter — syntax errors -/
example : parseVerilog "module m(z); assign z = 4'o3; endmodule" = none ∧ parseVerilog "module m(z); assign z = 4'b0_011; endmodule" = none ∧
    parseVerilog "module m(z); assign z = 4 'b0011; endmodule" = none ∧ parseVerilog "module m(z); assign z = 4'sb0011; endmodule" = none := by
  decide +kernel
end VerilogText

/-! ## `parsed_sem`, bench: the parsed circuit has the Boolean function the description denotes

`benchNet stmts` (Model/CircNet.lean) is the canonical dump (`KV.Net`: what `dump_net` prints for a real `Circuit`, what every
simulation theorem of C01/C02 speaks about) of the circuit `bench stmts`; `BenchModel stmts z prim a σ` (Model/BenchSem.lean) is
the statement-level denotation, written without reference to the circuit: the environment `σ : signal name → α` satisfies every
gate statement (`σ g = prim P (σ d₀) …`, `P` by longest prefix family and operand count, missing operands read `z`; a `dff` /
`latch` statement: `σ g` = the value assigned to that state element) and gives every other name its assigned value (ports) or `z`.
`NetLabelling net z neg prim a v`: the labelling `v` of the lines satisfies the specification evaluator's gate equation `lineEq`
on every line (`consistentB` as a proposition, `netlabelling_is_consistentB`).  Any value domain `α`, any op algebra. -/
section ParsedSem
open KV KV.Sig

/-- the dump of the parsed circuit is well formed — for EVERY statement list (and every model circuit) -/
theorem bench_net_wf (stmts : List BStmt) : (benchNet stmts).wfB = true := toNet_wf _ _

/-- `benchOKB` is what it says: gate names pairwise different, no kind `__fork__` -/
theorem bench_ok_iff (stmts : List BStmt) (h : benchOKB stmts = true) :
    ((benchGates stmts).map (·.name)).Nodup ∧ ∀ g ∈ benchGates stmts, g.kind ≠ forkKind := by
  obtain ⟨h1, h2⟩ := benchOK_of stmts h
  exact ⟨h1, fun g hg => by simpa using List.all_eq_true.mp h2 g hg⟩

/-- … and it is exactly the condition under which the parser model does not set `err` (the real `bench.parse` raises exactly
when the model sets `err`: exact correspondence) -/
theorem bench_ok_is_no_error (stmts : List BStmt) : (bench stmts).err = !benchOKB stmts := bench_err stmts

/-- the ports of the net are the names of the INPUT/OUTPUT statements in text order, each the fork of that name -/
theorem bench_net_ports (stmts : List BStmt) :
    (benchNet stmts).io = (benchPorts stmts).map (fun s => (bench stmts).nodeIdx (.fork s)) ∧
    benchPorts stmts = stmts.flatMap benchPortsOf ∧
    ∀ s ∈ benchPorts stmts, ∃ h : (bench stmts).nodeIdx (.fork s) < (bench stmts).nodes.length,
      ((bench stmts).nodes[(bench stmts).nodeIdx (.fork s)]).kind = forkKind ∧
      ((bench stmts).nodes[(bench stmts).nodeIdx (.fork s)]).name = s := by
  refine ⟨?_, ?_, ?_⟩
  · show (bench stmts).ioBench = _
    unfold Circ.ioBench; rw [bench_ioB]
  · rw [← bench_ioB, bench_io_order]
  · intro s hs
    exact ⟨bench_resolved_port s hs, resolved_fork_spec _ s (bench_resolved_port s hs)⟩

/-- `s_nodes` of the net: the port forks in text order, then the cells of the flip-flop statements in text order, then the cells
of the latch statements (`benchSNames`); `benchSPos` is the position in this list -/
theorem bench_snodes (stmts : List BStmt) (hok : benchOKB stmts = true) :
    (benchNet stmts).sNodes = (benchSNames stmts).map (bench stmts).nodeIdx ∧
    ∀ e ∈ benchSNames stmts, (benchNet stmts).sPos ((bench stmts).nodeIdx e) = some (benchSPos stmts e) := by
  have hok' := benchOK_of stmts hok
  refine ⟨benchNet_sNodes hok', fun e he => ?_⟩
  obtain ⟨h1, h2⟩ := sNames_resolved hok' e he
  rw [benchNet_sPos hok' e h1 h2]
  simp [he]

/-- **`bench_parsed_sem`**: for every description that builds (`benchOKB`), every value domain, op algebra and assignment:
(1) the net has one line per gate statement and operand (`benchSigs`: the signal each line carries — the line from cell `g` to
fork `g` carries `g`, the line from fork `d` into a gate pin carries `d`);
(2) every model `σ` of the description induces a labelling of the lines consistent with the netlist;
(3) every labelling consistent with the netlist is induced by a model;
(4) two models inducing the same labelling are equal — models and consistent labellings correspond one-to-one.
Relational: no acyclicity hypothesis; a cyclic description has as many models as the net has consistent labellings.
DOMAIN hypothesis `benchArityB` (audit finding 1, known finding D33; not used by the proof): `BenchModel` and `lineEq` read operands
0..3 of a gate statement — inside the domain this is the operator of the family over ALL operands (`bench_nary_reading`), outside it
the statement stays true but speaks about a reading of the text no reader has (`wide_gate_not_simulated`). -/
theorem bench_parsed_sem {α : Type} (stmts : List BStmt) (hok : benchOKB stmts = true) (_har : benchArityB stmts = true) (z : α)
    (neg : α → α) (prim : String → α → α → α → α → α) (a : Nat → α) :
    (benchNet stmts).lines.size = (benchSigs stmts).length ∧
    (∀ σ, BenchModel stmts z prim a σ → NetLabelling (benchNet stmts) z neg prim a (benchLabel stmts σ)) ∧
    (∀ v, NetLabelling (benchNet stmts) z neg prim a v →
      ∃ σ, BenchModel stmts z prim a σ ∧ ∀ i, i < (benchNet stmts).lines.size → v i = benchLabel stmts σ i) ∧
    (∀ σ σ', BenchModel stmts z prim a σ → BenchModel stmts z prim a σ' →
      (∀ i, i < (benchNet stmts).lines.size → benchLabel stmts σ i = benchLabel stmts σ' i) → σ = σ') := by
  have hok' := benchOK_of stmts hok
  refine ⟨by rw [benchNet_lines_size, benchSigs_length], fun σ hm => bench_model_labelling hok' z neg prim a σ hm,
    fun v hv => ⟨_, bench_labelling_model hok' z neg prim a v hv⟩, fun σ σ' h1 h2 h => bench_model_unique hok' z prim a σ σ' h1 h2 h⟩

/-- the label of line `i` under an environment is the value of the signal `benchSigs[i]` -/
theorem bench_label_def {α : Type} (stmts : List BStmt) (σ : String → α) (i : Nat) :
    benchLabel stmts σ i = σ ((benchSigs stmts).getD i "") := rfl

/-- `NetLabelling` is the proposition the oracle's Boolean checker `consistentB` decides (on `benchNet` of a description that builds) -/
theorem netlabelling_is_consistentB {α : Type} [BEq α] [LawfulBEq α] (stmts : List BStmt) (hok : benchOKB stmts = true) (z : α)
    (neg : α → α) (prim : String → α → α → α → α → α) (a : Nat → α) (v : Array α) :
    consistentB (benchNet stmts) z neg prim a v = true ↔ NetLabelling (benchNet stmts) z neg prim a (fun i => v.getD i z) := by
  apply netLabelling_iff_consistentB
  intro l hl
  have hok' := benchOK_of stmts hok
  rw [benchNet_lines_size] at hl
  unfold benchNet
  rw [toNet_nodes_size, toNet_line _ _ l (by rw [bench_flat]; exact hl)]
  have := bench_resolved_driver hok' _ (List.getElem_mem hl)
  simp only [bench_flat]
  exact this

/-- **what is observed**: under the labelling of an environment `σ`, the value captured at `s_nodes` position `j` (the line on
input pin 0 of the `j`-th interface node: what `c_to_s` copies, `evalCapturesG`) is — for an output port `o` (a port some gate
statement defines) `σ o`; for a state element `q = DFF(d, …)` its data operand `σ d`; nothing for assigned ports -/
theorem bench_captured {α : Type} (stmts : List BStmt) (hok : benchOKB stmts = true) (σ : String → α) :
    ((benchNet stmts).sNodes.map fun n => ((benchNet stmts).node n).inPin 0 |>.map (benchLabel stmts σ)) =
      benchCaptures stmts σ :=
  bench_captures (benchOK_of stmts hok) σ

/-- the driver's acceptance check is sound: an accepted table IS a model (this is how the correspondence run evaluates `σ`) -/
theorem bench_checker_sound {α : Type} [BEq α] [LawfulBEq α] (stmts : List BStmt) (z : α) (prim : String → α → α → α → α → α)
    (a : Nat → α) (tab : List (String × α)) (h : benchModelB stmts z prim a tab = true) :
    BenchModel stmts z prim a (envOf stmts z a tab) := benchModelB_sound z prim a tab h

/-- **inside the arity domain the four-operand reading is the n-ary reading**: for a description whose combinational gate
statements have at most four operands, `σ` is a model in the n-ary reading `BenchModelN` (and/nand: ALL operands, or/nor: ANY
operand, xor/xnor: parity of ALL operands, at least two operand slots, a missing one reads `z`; fixed-arity kinds by their formula)
iff it is a model in the reading `BenchModel … prim2` of `bench_parsed_sem` (operands 0..3, primitive by operand count) -/
theorem bench_nary_reading (stmts : List BStmt) (har : benchArityB stmts = true) (z : Bool) (a : Nat → Bool) (σ : String → Bool) :
    BenchModelN stmts z a σ ↔ BenchModel stmts z prim2 a σ := benchModelN_iff stmts har z a σ

/-- per gate statement: at most four operands ⇒ operands 0..3 under the primitive chosen by the operand count = the family's
operator over all operands -/
theorem gate_nary_reading (z : Bool) (kind : String) (drv : List String) (σ : String → Bool) (h : drv.length ≤ 4) :
    gateVal z prim2 kind drv σ = gateFunN z kind.toLower (drv.map σ) := gateVal_eq_nary z kind drv σ h

example : gateFunN false "and" [true, true, true, true, false] = false ∧ gateFunN false "nand" [true, true, true, true, false] = true ∧
    gateFunN false "xor" [true, true, true, true, true, false, false] = true ∧ gateFunN false "nor" [false, false, false, false, true] = false ∧
    gateFunN false "and" [true] = false ∧ gateFunN false "or" [true] = true ∧ gateFunN false "mux21" [false, true, true] = true := by
  decide +kernel

/-- **`bench_end_to_end`** (2-valued; composition with C01/C02 `sim2_all_circuits` / `gate_equations_are_netlist`): for every
description that builds and stays inside the arity domain (`benchArityB`: at most four operands per combinational gate statement —
audit finding 1; outside it the real simulator computes something else, `wide_gate_not_simulated`, known finding D33), every
topological order of its net (`orderOKB`) that schedules every line (`linesDrivenB`; forks are forks: `forksOKB` — three decidable
conditions on net and order, evaluated by the driver on every real circuit and order) and every stimulus `env`: there is exactly ONE
model `σ` of the description IN THE N-ARY READING (`BenchModelN`: every gate statement computes its family's operator over ALL its
operands) under the assignment the stimulus gives to the interface positions, the 2-valued `LogicSim` result (`exec semL2n` of the
rows the `SimOps` model generates) is `σ` of the line's signal on every line, and what is captured at every interface position is
what the description observes: `σ o` at an output port `o`, `σ d` at a flip-flop `q = DFF(d)`.  Existence and uniqueness of the
model are CONCLUSIONS (an order exists only for acyclic nets). -/
theorem bench_end_to_end (stmts : List BStmt) (hok : benchOKB stmts = true) (har : benchArityB stmts = true) (order : List Nat)
    (ho : orderOKB (benchNet stmts) order = true) (hfk : forksOKB (benchNet stmts) order = true)
    (hall : linesDrivenB Gen.kindPrefixes (benchNet stmts) order = true) (env : Nat → Bool) :
    ∃ σ, BenchModelN stmts (env (benchNet stmts).idx.zero) (fun p => env ((benchNet stmts).idx.ppi + p)) σ ∧
      (∀ σ', BenchModelN stmts (env (benchNet stmts).idx.zero) (fun p => env ((benchNet stmts).idx.ppi + p)) σ' → σ' = σ) ∧
      (∀ i, i < (benchNet stmts).lines.size →
        exec semL2n ((genOps Gen.kindPrefixes (benchNet stmts) order false).map OpRow.toOp) env i = benchLabel stmts σ i) ∧
      ((benchNet stmts).sNodes.map fun n => ((benchNet stmts).node n).inPin 0 |>.map
        (exec semL2n ((genOps Gen.kindPrefixes (benchNet stmts) order false).map OpRow.toOp) env)) = benchCaptures stmts σ := by
  obtain ⟨σ, h1, h2, h3, h4⟩ := bench_sim_generic (benchOK_of stmts hok) semL2n specL2 (fun _ h xs => semL2n_eq_spec h xs) (!·) prim2
    semSpec2 order ho hfk hall env
  exact ⟨σ, (bench_nary_reading stmts har _ _ σ).mpr h1, fun σ' h => h2 σ' ((bench_nary_reading stmts har _ _ σ').mp h), h3, h4⟩

/-- the same in the four-operand reading, WITHOUT the arity hypothesis: what the simulator computes for EVERY description that
builds — the statement the audit called "true about a bent specification"; it is the tool of `wide_gate_not_simulated` -/
theorem bench_end_to_end_as_simulated (stmts : List BStmt) (hok : benchOKB stmts = true) (order : List Nat)
    (ho : orderOKB (benchNet stmts) order = true) (hfk : forksOKB (benchNet stmts) order = true)
    (hall : linesDrivenB Gen.kindPrefixes (benchNet stmts) order = true) (env : Nat → Bool) :
    ∃ σ, BenchModel stmts (env (benchNet stmts).idx.zero) prim2 (fun p => env ((benchNet stmts).idx.ppi + p)) σ ∧
      (∀ σ', BenchModel stmts (env (benchNet stmts).idx.zero) prim2 (fun p => env ((benchNet stmts).idx.ppi + p)) σ' → σ' = σ) ∧
      (∀ i, i < (benchNet stmts).lines.size →
        exec semL2n ((genOps Gen.kindPrefixes (benchNet stmts) order false).map OpRow.toOp) env i = benchLabel stmts σ i) ∧
      ((benchNet stmts).sNodes.map fun n => ((benchNet stmts).node n).inPin 0 |>.map
        (exec semL2n ((genOps Gen.kindPrefixes (benchNet stmts) order false).map OpRow.toOp) env)) = benchCaptures stmts σ :=
  bench_sim_generic (benchOK_of stmts hok) semL2n specL2 (fun _ h xs => semL2n_eq_spec h xs) (!·) prim2 semSpec2 order ho hfk hall env

/-- the scheduler's domain hypotheses follow from the DESCRIPTION: for a closed description (`benchClosedB`: every operand is a
port or a gate output, no kind lower-cases to `__fork__`) `forksOKB` holds for EVERY order; if moreover every combinational kind
is known to the simulator's generated prefix table in the arity its operand count selects (`benchKnownB`) and the order covers every
node, every line is scheduled (`linesDrivenB`) -/
theorem bench_sched_hyps (stmts : List BStmt) (hcl : benchClosedB stmts = true) (order : List Nat) :
    forksOKB (benchNet stmts) order = true ∧
    (benchKnownB stmts = true → (∀ n, n < (benchNet stmts).nodes.size → n ∈ order) →
      linesDrivenB Gen.kindPrefixes (benchNet stmts) order = true) :=
  ⟨bench_forksOK (benchClosed_of stmts hcl) order,
   fun hkn hcov => bench_linesDriven (benchClosed_of stmts hcl) hkn order (fun n hn => hcov n (by rw [benchNet_nodes_size]; exact hn))⟩

/-- **`bench_end_to_end_closed`**: `bench_end_to_end` with hypotheses on the description and the order only — a closed
description over known kinds with at most four operands per combinational gate statement (`benchArityB`), a topological order
(`orderOKB`) that covers every node of the net; the model is the one of the N-ARY reading -/
theorem bench_end_to_end_closed (stmts : List BStmt) (hcl : benchClosedB stmts = true) (hkn : benchKnownB stmts = true)
    (har : benchArityB stmts = true)
    (order : List Nat) (ho : orderOKB (benchNet stmts) order = true) (hcov : ∀ n, n < (benchNet stmts).nodes.size → n ∈ order)
    (env : Nat → Bool) :
    ∃ σ, BenchModelN stmts (env (benchNet stmts).idx.zero) (fun p => env ((benchNet stmts).idx.ppi + p)) σ ∧
      (∀ σ', BenchModelN stmts (env (benchNet stmts).idx.zero) (fun p => env ((benchNet stmts).idx.ppi + p)) σ' → σ' = σ) ∧
      (∀ i, i < (benchNet stmts).lines.size →
        exec semL2n ((genOps Gen.kindPrefixes (benchNet stmts) order false).map OpRow.toOp) env i = benchLabel stmts σ i) ∧
      ((benchNet stmts).sNodes.map fun n => ((benchNet stmts).node n).inPin 0 |>.map
        (exec semL2n ((genOps Gen.kindPrefixes (benchNet stmts) order false).map OpRow.toOp) env)) = benchCaptures stmts σ := by
  have hok : benchOKB stmts = true := by
    unfold benchClosedB at hcl
    rw [Bool.and_eq_true] at hcl
    exact hcl.1
  obtain ⟨h1, h2⟩ := bench_sched_hyps stmts hcl order
  exact bench_end_to_end stmts hok har order ho h1 (h2 hkn hcov) env

/-- the same for the 8-valued simulation against the documented algebra (`prim8`; `semL8` = the real dispatch of `c_prop`), in the
four-operand reading `BenchModel` (no n-ary reading is defined over `V3`/`V2`); `benchArityB` is the DOMAIN hypothesis (not used by
the proof) inside which that reading is the one of the text -/
theorem bench_end_to_end8 (stmts : List BStmt) (hok : benchOKB stmts = true) (_har : benchArityB stmts = true) (order : List Nat)
    (ho : orderOKB (benchNet stmts) order = true) (hfk : forksOKB (benchNet stmts) order = true)
    (hall : linesDrivenB Gen.kindPrefixes (benchNet stmts) order = true) (env : Nat → V3) :
    ∃ σ, BenchModel stmts (env (benchNet stmts).idx.zero) prim8 (fun p => env ((benchNet stmts).idx.ppi + p)) σ ∧
      (∀ σ', BenchModel stmts (env (benchNet stmts).idx.zero) prim8 (fun p => env ((benchNet stmts).idx.ppi + p)) σ' → σ' = σ) ∧
      (∀ i, i < (benchNet stmts).lines.size →
        exec semL8 ((genOps Gen.kindPrefixes (benchNet stmts) order false).map OpRow.toOp) env i = benchLabel stmts σ i) ∧
      ((benchNet stmts).sNodes.map fun n => ((benchNet stmts).node n).inPin 0 |>.map
        (exec semL8 ((genOps Gen.kindPrefixes (benchNet stmts) order false).map OpRow.toOp) env)) = benchCaptures stmts σ :=
  bench_sim_generic (benchOK_of stmts hok) semL8 specL8 (fun _ h xs => semL8_eq_spec h xs) specNot prim8 semSpec8 order ho hfk hall env

/-- … and the 4-valued one -/
theorem bench_end_to_end4 (stmts : List BStmt) (hok : benchOKB stmts = true) (_har : benchArityB stmts = true) (order : List Nat)
    (ho : orderOKB (benchNet stmts) order = true) (hfk : forksOKB (benchNet stmts) order = true)
    (hall : linesDrivenB Gen.kindPrefixes (benchNet stmts) order = true) (env : Nat → V2) :
    ∃ σ, BenchModel stmts (env (benchNet stmts).idx.zero) prim4 (fun p => env ((benchNet stmts).idx.ppi + p)) σ ∧
      (∀ σ', BenchModel stmts (env (benchNet stmts).idx.zero) prim4 (fun p => env ((benchNet stmts).idx.ppi + p)) σ' → σ' = σ) ∧
      (∀ i, i < (benchNet stmts).lines.size →
        exec semL4 ((genOps Gen.kindPrefixes (benchNet stmts) order false).map OpRow.toOp) env i = benchLabel stmts σ i) ∧
      ((benchNet stmts).sNodes.map fun n => ((benchNet stmts).node n).inPin 0 |>.map
        (exec semL4 ((genOps Gen.kindPrefixes (benchNet stmts) order false).map OpRow.toOp) env)) = benchCaptures stmts σ :=
  bench_sim_generic (benchOK_of stmts hok) semL4 specL4 (fun _ h xs => semL4_eq_spec h xs) spec4Not prim4 semSpec4 order ho hfk hall env

/-- **from TEXT**: for every statement list with writable names and EVERY layout of its token stream (any ignorable text between
the tokens, `bench_text_layout_irrelevant`), the net of the circuit built from the model's reading of the text is `benchNet stmts`
— so `bench_parsed_sem`, `bench_captured`, `bench_end_to_end` speak about the circuit parsed from that text -/
theorem bench_text_to_net (stmts : List BStmt) (hv : stmts.all KV.BenchText.validStmt = true) (g0 : List Char)
    (l : List (KV.BenchText.Tok × List Char)) (hl : l.map (·.1) = KV.BenchText.benchToks stmts)
    (hg0 : KV.BenchText.gapB .ws g0 = true) (hlay : KV.BenchText.layoutOK l = true) :
    (KV.BenchText.circOfText (String.ofList (g0 ++ KV.BenchText.renderTG l))).map (fun C => C.toNet C.ioBench) =
      some (benchNet stmts) := by
  simp only [KV.BenchText.circOfText, bench_text_layout_irrelevant stmts hv g0 l hl hg0 hlay, Option.map_some]
  rfl

/-! ### non-vacuity: `INPUT(a) INPUT(b) OUTPUT(z)  q = DFF(n)  n = NAND(a, q)  z = XOR(n, b)` -/
def exDff : List BStmt :=
  [.intf ["a"], .intf ["b"], .intf ["z"], .gate "q" "DFF" ["n"], .gate "n" "NAND" ["a", "q"], .gate "z" "XOR" ["n", "b"]]
/-- assignment: `a = 1`, `b = 0`, state of `q` = 1 (positions 0, 1, 3; position 2 is the output port) -/
def exDffA : Nat → Bool := fun p => p == 0 || p == 3

example : KV.BenchText.parseBench "INPUT(a) INPUT(b) OUTPUT(z)\nq = DFF(n)\nn = NAND(a, q)\nz = XOR(n, b)" = some exDff := by decide +kernel
example : exDff.all KV.BenchText.validStmt = true ∧ benchOKB exDff = true ∧ benchClosedB exDff = true ∧ benchKnownB exDff = true ∧
    benchArityB exDff = true := by
  decide +kernel
example : benchSNames exDff = [.fork "a", .fork "b", .fork "z", .cell "q" 0] ∧ benchSigs exDff = ["q", "n", "n", "a", "q", "z", "n", "b"] := by
  decide +kernel
/-- the model: `q = 1` (state), `n = NAND(1, 1) = 0`, `z = XOR(0, 0) = 0`; the checker accepts it; observed: `z = 0`, next state of `q` = `n = 0` -/
example : benchEval exDff false prim2 exDffA = [("q", true), ("n", false), ("z", false)] ∧
    benchModelB exDff false prim2 exDffA (benchEval exDff false prim2 exDffA) = true ∧
    benchCaptures exDff (envOf exDff false exDffA (benchEval exDff false prim2 exDffA)) = [none, none, some false, some false] := by
  decide +kernel
/-- the net (8 nodes: forks a b z n, cell q, fork q, cells n z; 8 lines) and an order satisfying the hypotheses of `bench_end_to_end` -/
example : (benchNet exDff).io = [0, 1, 2] ∧ (benchNet exDff).sNodes = [0, 1, 2, 4] ∧ (benchNet exDff).lines.size = 8 ∧
    orderOKB (benchNet exDff) [0, 1, 4, 5, 6, 3, 7, 2] = true ∧ forksOKB (benchNet exDff) [0, 1, 4, 5, 6, 3, 7, 2] = true ∧
    linesDrivenB Gen.kindPrefixes (benchNet exDff) [0, 1, 4, 5, 6, 3, 7, 2] = true ∧ (benchNet exDff).nodes.size = 8 ∧
    (List.range 8).all (fun n => [0, 1, 4, 5, 6, 3, 7, 2].contains n) = true := by decide +kernel
/-- kind families and arities: the primitive a gate statement means -/
example : specPrimName "nand" false false = some "NAND2" ∧ specPrimName "nand" true false = some "NAND3" ∧
    specPrimName "and" true true = some "AND4" ∧ specPrimName "not" false false = some "INV1" ∧
    specPrimName "buff" false false = some "BUF1" ∧ specPrimName "__const1__" false false = some "INV1" ∧
    prim2 "NAND2" true true false false = false ∧ prim2 "INV1" false false false false = true := by decide +kernel
/-! ### outside the arity domain: `INPUT(a,b,c,d,e) OUTPUT(z) z = AND(a,b,c,d,e)` (known finding D33) -/
def exWide : List BStmt := [.intf ["a", "b", "c", "d", "e"], .intf ["z"], .gate "z" "AND" ["a", "b", "c", "d", "e"]]
/-- stimulus: `a = b = c = d = 1`, `e = 0` (interface positions 0..4 = signals `ppi + 0..4`; everything else 0) -/
def exWideEnv : Nat → Bool := fun x => decide ((benchNet exWide).idx.ppi ≤ x ∧ x < (benchNet exWide).idx.ppi + 4)
def exWideOrder : List Nat := [0, 1, 2, 3, 4, 6, 5]

/-- **`wide_gate_not_simulated`** (kernel-checked witness of audit finding 1, known finding D33): the description
`z = AND(a, b, c, d, e)` is closed, over known kinds, its net and the order satisfy every hypothesis of `bench_end_to_end` EXCEPT the
arity domain — and at `a = b = c = d = 1`, `e = 0` the 2-valued `LogicSim` result on the line into the output fork `z` (line 0 of the
net) is `true`, while every model of the description in the n-ary reading has `z = false`: the simulator computes `AND4(a, b, c, d)`
and ignores `e`.  (The real code does the same: harness/c11.py oracle class `wide-gate`.) -/
theorem wide_gate_not_simulated :
    benchClosedB exWide = true ∧ benchKnownB exWide = true ∧ benchArityB exWide = false ∧
    orderOKB (benchNet exWide) exWideOrder = true ∧ forksOKB (benchNet exWide) exWideOrder = true ∧
    linesDrivenB Gen.kindPrefixes (benchNet exWide) exWideOrder = true ∧ (benchSigs exWide).getD 0 "" = "z" ∧
    exec semL2n ((genOps Gen.kindPrefixes (benchNet exWide) exWideOrder false).map OpRow.toOp) exWideEnv 0 = true ∧
    (∀ σ, BenchModelN exWide (exWideEnv (benchNet exWide).idx.zero) (fun p => exWideEnv ((benchNet exWide).idx.ppi + p)) σ →
      σ "z" = false) := by
  have hcl : benchClosedB exWide = true := by decide +kernel
  have ho : orderOKB (benchNet exWide) exWideOrder = true := by decide +kernel
  have hfk : forksOKB (benchNet exWide) exWideOrder = true := by decide +kernel
  have hall : linesDrivenB Gen.kindPrefixes (benchNet exWide) exWideOrder = true := by decide +kernel
  have hg : (⟨"z", "AND", ["a", "b", "c", "d", "e"]⟩ : BGate) ∈ benchGates exWide := by decide +kernel
  have hfree : ∀ s ∈ ["a", "b", "c", "d", "e"], isGateName exWide s = false := by decide +kernel
  have hz : exWideEnv (benchNet exWide).idx.zero = false := by decide +kernel
  have hvals : ∀ s ∈ ["a", "b", "c", "d"],
      freeVal exWide false (fun p => exWideEnv ((benchNet exWide).idx.ppi + p)) s = true := by decide +kernel
  have hval_e : freeVal exWide false (fun p => exWideEnv ((benchNet exWide).idx.ppi + p)) "e" = false := by decide +kernel
  refine ⟨hcl, by decide +kernel, by decide +kernel, ho, hfk, hall, by decide +kernel, ?_, ?_⟩
  · obtain ⟨σ, hm, _, hl, _⟩ := bench_end_to_end_as_simulated exWide (by decide +kernel) exWideOrder ho hfk hall exWideEnv
    rw [hl 0 (by decide +kernel), bench_label_def]
    have h0 : (benchSigs exWide).getD 0 "" = "z" := by decide +kernel
    rw [h0, hm.1 _ hg, hz]
    have ha := hm.2 "a" (hfree _ (by decide)); have hb := hm.2 "b" (hfree _ (by decide))
    have hc := hm.2 "c" (hfree _ (by decide)); have hd := hm.2 "d" (hfree _ (by decide))
    rw [hz] at ha hb hc hd
    rw [hvals _ (by decide)] at ha hb hc hd
    have : stmtVal exWide false prim2 (fun p => exWideEnv ((benchNet exWide).idx.ppi + p)) ⟨"z", "AND", ["a", "b", "c", "d", "e"]⟩ σ =
        prim2 "AND4" (σ "a") (σ "b") (σ "c") (σ "d") := by
      have hk : isSeqKind "AND" = false := by decide +kernel
      have hp : specPrimName "AND".toLower (decide (2 < 5)) (decide (3 < 5)) = some "AND4" := by decide +kernel
      simp only [stmtVal, hk, Bool.false_eq_true, if_false, gateVal, List.length_cons, List.length_nil, hp]
      rfl
    rw [this, ha, hb, hc, hd]; decide +kernel
  · intro σ hm
    rw [hz] at hm
    have he := hm.2 "e" (hfree _ (by decide))
    rw [hval_e] at he
    rw [hm.1 _ hg]
    have hk : isSeqKind "AND" = false := by decide +kernel
    have hf : specFamily "AND".toLower = some ("and", "AND4", "AND3", "AND2") := by decide +kernel
    simp only [stmtValN, hk, Bool.false_eq_true, if_false, gateFunN, hf, List.map_cons, List.map_nil, he]
    simp [padTwo]
end ParsedSem

/-! ## `parsed_sem`, structural Verilog (fragment `verilogOKB`): the parsed circuit has the function the module denotes

`verilogNet cfg tl ports stmts` is the canonical dump of `module cfg tl ports stmts` — the UNRESOLVED circuit, as `verilog.parse`
returns it before `resolve_tlib_cells`: an instance node of cell type `K` means what the simulator's kind table makes of the name
`K` (prefix family, arity by connected pins; `dff`/`latch` kinds are state elements), pins numbered by the library `tl`.  For a
library whose cells are the simulation primitives this is the function of the netlist; substitution of library cells is property
C10 (`resolve_sem`).  `VModel tl ports stmts z neg prim a σ` (Model/VerilogSem.lean): `σ` gives every instance output what the
instance computes from the signals and constants on its input pins, every input port bit its assigned value, every assign target
the value of its source (`sigVal`: a signal's `σ`, or what a `__const<b>__` cell computes), every undriven name `z`.
Fragment `verilogOKB` (decidable, spelled out in Model/VerilogSem.lean): declarations (any ranges / grouping / order / redundant
wires); instantiations with named single-bit pins known to the library, each input pin a constant bit `1'b0`/`1'b1` (its own
`__const<b>_<k>__` cell and fork, numbered by `const_count`) or a DRIVEN signal under the driver's name; `assign` statements of any
shape (widths, concatenations, selects, sized constants — what counts are the bit pairs) whose pairs are in dependency order: the
target is not yet a fork, the source is a constant bit or already a fork (both variants of pass 1.5, `Cfg.assignFix`); all ports
declared and all port declarations listed; outputs driven under their own name; cell names pairwise different; one line per fork
/ cell pin (`nodupE` of the reader end points); per instance pairwise different input pin indices; BOTH `branchforks` settings.
NOT covered (oracle only): multi-bit pin connections, a 1-bit bus read by its base name, floating inputs, undriven outputs,
assign pairs out of dependency order or onto a driven target (findings D23/D24), positional pins. -/
section ParsedSemVerilog
open KV KV.Sig

/-- the dump of the parsed circuit is well formed — every statement list, library, configuration -/
theorem verilog_net_wf (cfg : Cfg) (tl : TL) (ports : List String) (stmts : List Stmt) : (verilogNet cfg tl ports stmts).wfB = true :=
  toNet_wf _ _

/-- the circuit of a module of the fragment in closed form: its lines are, in creation order, one line per instance output
connection (cell pin → fork of the driven signal), one per input port bit (cell → fork), one per assign pair (source fork →
target fork, or a new constant cell → target fork), per instance input connection the line of its constant cell (if any) and the
line fork → cell pin (with `branchforks` two lines through the fork `stem~inst/pin`), one per output port bit (fork → cell) —
`vFlat`, each with the signal or constant it carries -/
theorem verilog_lines (cfg : Cfg) (tl : TL) (ports : List String) (stmts : List Stmt) (hok : verilogOKB cfg tl ports stmts = true) :
    flatLines (module cfg tl ports stmts) = (vFlat cfg tl (sigDecls stmts) stmts).map (fun l => (l.d, l.r)) ∧
    (verilogNet cfg tl ports stmts).lines.size = (vSigs cfg tl stmts).length := by
  have hok' := vok_of cfg tl ports stmts hok
  refine ⟨module_flat hok', ?_⟩
  rw [verilogNet_lines_size hok']
  simp [vSigs]

/-- ports and `s_nodes` of the net: the port bits in port-list order, each expanded by its declared range in declared direction
(`posNames`, `ports_order`) — the `input`/`output` cells —, then the flip-flop instances in statement order, then the latch
instances; `vSPos` is the position in this list -/
theorem verilog_snodes (cfg : Cfg) (tl : TL) (ports : List String) (stmts : List Stmt) (hok : verilogOKB cfg tl ports stmts = true) :
    (verilogNet cfg tl ports stmts).io = (posNames (sigDecls stmts) ports).map (fun n => (module cfg tl ports stmts).nodeIdx (.cell n 0)) ∧
    (verilogNet cfg tl ports stmts).sNodes = (vSNames ports stmts).map (module cfg tl ports stmts).nodeIdx ∧
    ∀ e ∈ vSNames ports stmts, (verilogNet cfg tl ports stmts).sPos ((module cfg tl ports stmts).nodeIdx e) = some (vSPos ports stmts e) := by
  have hok' := vok_of cfg tl ports stmts hok
  refine ⟨?_, verilogNet_sNodes hok', fun e he => ?_⟩
  · show (module cfg tl ports stmts).ioVerilog = _
    unfold Circ.ioVerilog
    rw [module_ioNames hok', List.map_map]
    rfl
  · obtain ⟨h1, h2⟩ := vSNames_resolved hok' e he
    rw [verilogNet_sPos hok' e h1 h2]
    simp [he]

/-- **`verilog_parsed_sem`**: for every module of the fragment, every value domain, op algebra and assignment:
(1) every model `σ` of the module induces a labelling of the lines consistent with the netlist (line `i` carries `sigVal σ` of
`vSigs[i]`: an instance output line its driven signal, an assign line its source, a reader line — and both halves of a branch,
and the line of a constant cell — the signal or constant read);
(2) every labelling consistent with the netlist is induced by a model; (3) one model per labelling.
DOMAIN hypothesis `vArityB` (audit finding 1, known finding D33; not used by the proof): every connected input pin of a combinational
instance has pin index 0..3 — `instVal` and `lineEq` read these four only, as the real simulator does; an instance of a primitive
kind with a fifth input pin is simulated as the 4-input primitive of pins 0..3. -/
theorem verilog_parsed_sem {α : Type} (cfg : Cfg) (tl : TL) (ports : List String) (stmts : List Stmt)
    (hok : verilogOKB cfg tl ports stmts = true) (_har : vArityB tl stmts = true) (z : α) (neg : α → α) (prim : String → α → α → α → α → α) (a : Nat → α) :
    (∀ σ, VModel tl ports stmts z neg prim a σ →
      NetLabelling (verilogNet cfg tl ports stmts) z neg prim a (vLabel cfg tl stmts z prim σ)) ∧
    (∀ v, NetLabelling (verilogNet cfg tl ports stmts) z neg prim a v →
      ∃ σ, VModel tl ports stmts z neg prim a σ ∧
        ∀ i, i < (verilogNet cfg tl ports stmts).lines.size → v i = vLabel cfg tl stmts z prim σ i) ∧
    (∀ σ σ', VModel tl ports stmts z neg prim a σ → VModel tl ports stmts z neg prim a σ' →
      (∀ i, i < (verilogNet cfg tl ports stmts).lines.size → vLabel cfg tl stmts z prim σ i = vLabel cfg tl stmts z prim σ' i) →
      σ = σ') := by
  have hok' := vok_of cfg tl ports stmts hok
  exact ⟨fun σ hm => v_model_labelling hok' z neg prim a σ hm, fun v hv => v_labelling_model hok' z neg prim a v hv,
    fun σ σ' h1 h2 h => v_model_unique hok' z neg prim a σ σ' h1 h2 h⟩

theorem verilog_label_def {α : Type} (cfg : Cfg) (tl : TL) (stmts : List Stmt) (z : α) (prim : String → α → α → α → α → α)
    (σ : String → α) (i : Nat) :
    vLabel cfg tl stmts z prim σ i = sigVal z prim σ ((vSigs cfg tl stmts).getD i "") := rfl

/-- **what is observed**: under the labelling of `σ`, the value captured at `s_nodes` position `j` is `σ o` at an output port bit
`o`, the value of the signal or constant on input pin index 0 at a state element, nothing at input ports -/
theorem verilog_captured {α : Type} (cfg : Cfg) (tl : TL) (ports : List String) (stmts : List Stmt)
    (hok : verilogOKB cfg tl ports stmts = true) (z : α) (prim : String → α → α → α → α → α) (σ : String → α) :
    ((verilogNet cfg tl ports stmts).sNodes.map fun n =>
        ((verilogNet cfg tl ports stmts).node n).inPin 0 |>.map (vLabel cfg tl stmts z prim σ)) =
      vCaptures tl ports stmts z prim σ :=
  v_captures (vok_of cfg tl ports stmts hok) z prim σ

/-- the driver's acceptance check is sound: an accepted table IS a model -/
theorem verilog_checker_sound {α : Type} [BEq α] [LawfulBEq α] (tl : TL) (ports : List String) (stmts : List Stmt) (z : α)
    (neg : α → α) (prim : String → α → α → α → α → α) (a : Nat → α) (tab : List (String × α))
    (h : vModelB tl ports stmts z neg prim a tab = true) : VModel tl ports stmts z neg prim a (vEnvOf z tab) :=
  vModelB_sound z neg prim a tab h

/-- **`verilog_end_to_end`** (2-valued; composition with C01/C02): for every module of the fragment, every topological order of
its net that schedules every line (`orderOKB`, `forksOKB`, `linesDrivenB`: decidable, evaluated by the driver on every real circuit
and order) and every stimulus: exactly ONE model `σ`, the 2-valued `LogicSim` result is the value of the line's signal on every
line, and what is captured at every interface position is what the module observes.  `vArityB`: domain hypothesis as in
`verilog_parsed_sem` -/
theorem verilog_end_to_end (cfg : Cfg) (tl : TL) (ports : List String) (stmts : List Stmt) (hok : verilogOKB cfg tl ports stmts = true)
    (_har : vArityB tl stmts = true) (order : List Nat) (ho : orderOKB (verilogNet cfg tl ports stmts) order = true)
    (hfk : forksOKB (verilogNet cfg tl ports stmts) order = true)
    (hall : linesDrivenB Gen.kindPrefixes (verilogNet cfg tl ports stmts) order = true) (env : Nat → Bool) :
    ∃ σ, VModel tl ports stmts (env (verilogNet cfg tl ports stmts).idx.zero) (!·) prim2
        (fun p => env ((verilogNet cfg tl ports stmts).idx.ppi + p)) σ ∧
      (∀ σ', VModel tl ports stmts (env (verilogNet cfg tl ports stmts).idx.zero) (!·) prim2
        (fun p => env ((verilogNet cfg tl ports stmts).idx.ppi + p)) σ' → σ' = σ) ∧
      (∀ i, i < (verilogNet cfg tl ports stmts).lines.size →
        exec semL2n ((genOps Gen.kindPrefixes (verilogNet cfg tl ports stmts) order false).map OpRow.toOp) env i =
          vLabel cfg tl stmts (env (verilogNet cfg tl ports stmts).idx.zero) prim2 σ i) ∧
      ((verilogNet cfg tl ports stmts).sNodes.map fun n => ((verilogNet cfg tl ports stmts).node n).inPin 0 |>.map
        (exec semL2n ((genOps Gen.kindPrefixes (verilogNet cfg tl ports stmts) order false).map OpRow.toOp) env)) =
          vCaptures tl ports stmts (env (verilogNet cfg tl ports stmts).idx.zero) prim2 σ :=
  verilog_sim_generic (vok_of cfg tl ports stmts hok) semL2n specL2 (fun _ h xs => semL2n_eq_spec h xs) (!·) prim2 semSpec2
    order ho hfk hall env

/-- the same for the 8-valued simulation against the documented algebra -/
theorem verilog_end_to_end8 (cfg : Cfg) (tl : TL) (ports : List String) (stmts : List Stmt) (hok : verilogOKB cfg tl ports stmts = true)
    (_har : vArityB tl stmts = true) (order : List Nat) (ho : orderOKB (verilogNet cfg tl ports stmts) order = true)
    (hfk : forksOKB (verilogNet cfg tl ports stmts) order = true)
    (hall : linesDrivenB Gen.kindPrefixes (verilogNet cfg tl ports stmts) order = true) (env : Nat → V3) :
    ∃ σ, VModel tl ports stmts (env (verilogNet cfg tl ports stmts).idx.zero) specNot prim8
        (fun p => env ((verilogNet cfg tl ports stmts).idx.ppi + p)) σ ∧
      (∀ σ', VModel tl ports stmts (env (verilogNet cfg tl ports stmts).idx.zero) specNot prim8
        (fun p => env ((verilogNet cfg tl ports stmts).idx.ppi + p)) σ' → σ' = σ) ∧
      (∀ i, i < (verilogNet cfg tl ports stmts).lines.size →
        exec semL8 ((genOps Gen.kindPrefixes (verilogNet cfg tl ports stmts) order false).map OpRow.toOp) env i =
          vLabel cfg tl stmts (env (verilogNet cfg tl ports stmts).idx.zero) prim8 σ i) ∧
      ((verilogNet cfg tl ports stmts).sNodes.map fun n => ((verilogNet cfg tl ports stmts).node n).inPin 0 |>.map
        (exec semL8 ((genOps Gen.kindPrefixes (verilogNet cfg tl ports stmts) order false).map OpRow.toOp) env)) =
          vCaptures tl ports stmts (env (verilogNet cfg tl ports stmts).idx.zero) prim8 σ :=
  verilog_sim_generic (vok_of cfg tl ports stmts hok) semL8 specL8 (fun _ h xs => semL8_eq_spec h xs) specNot prim8 semSpec8
    order ho hfk hall env

/-- **from TEXT**: the net of the circuit built from the model's reading of the printed module text is `verilogNet` of the
transformed statement list — so the theorems above speak about circuits parsed from text (any spelling, any layout:
`verilog_text_classes_to_net`).  `hpos` / `hrok` (audit 2, finding 1): the text is inside the raise guard, i.e. not one the real
parser rejects (`verilog_text_accepted`) -/
theorem verilog_text_to_net (cfg : Cfg) (tl : TL) (m : KV.VerilogText.VModule) (rs : List RStmt)
    (hv : KV.VerilogText.validModule m = true) (hr : KV.VerilogText.toRs m.stmts = some rs)
    (hpos : m.stmts.any KV.VerilogText.VStmt.hasPos = false) (hrok : rs.all RStmt.ok = true) :
    (KV.VerilogText.circOfText cfg tl (KV.VerilogText.printVerilog [m])).map (fun C => C.toNet C.ioVerilog) =
      some (verilogNet cfg tl m.ports (rs.map transform)) := by
  rw [verilog_text_accepted cfg tl m rs hv hr hpos hrok]
  rfl

/-- **from TEXT, every spelling and every layout** (token classes, audit finding 10(a)): for ANY text that spells the token stream
of the module token by token with members of the spelling classes (`spellsB`) in any layout (`layoutOK`), inside the raise guard
(`hpos`, `hrok`): the net of the circuit built from the model's reading of that text is `verilogNet` of the transformed statement
list, and its `err` flag is the one of `module` -/
theorem verilog_text_classes_to_net (cfg : Cfg) (tl : TL) (m : KV.VerilogText.VModule) (rs : List RStmt)
    (hv : KV.VerilogText.validModule m = true) (hr : KV.VerilogText.toRs m.stmts = some rs)
    (hpos : m.stmts.any KV.VerilogText.VStmt.hasPos = false) (hrok : rs.all RStmt.ok = true)
    (g0 : List Char) (l : List (KV.VerilogText.CT × List Char))
    (hl : KV.VerilogText.spellsB (l.map (·.1)) (KV.VerilogText.modulesT [m]) = true)
    (hg0 : KV.VerilogText.gapV .ws g0 = true) (hlay : KV.VerilogText.layoutOK l = true) :
    (KV.VerilogText.circOfText cfg tl (String.ofList (g0 ++ KV.VerilogText.renderL l))).map (fun C => (C.toNet C.ioVerilog, C.err)) =
      some (verilogNet cfg tl m.ports (rs.map transform), (module cfg tl m.ports (rs.map transform)).err) := by
  rw [KV.VerilogText.circOfText_of_parse cfg tl _ m (verilog_text_token_classes [m] (by simp [hv]) g0 l hl hg0 hlay)]
  simp only [KV.VerilogText.circOfModule, hr, hpos, hrok]
  simp [Circ.failIf]
  rfl

/-! ### non-vacuity: `module m(a, z, y); input a; output z, y; wire n; DFF_X1 f (.D(n), .Q(q), .QN(qn));
NAND2_X1 u1 (.A1(a), .A2(1'b1), .ZN(n)); INV_X1 u2 (.I(qn), .ZN(w)); assign z = w; assign y = 1'b0; endmodule` -/
def exTL2 : TL := fun k p =>
  if k == "DFF_X1" then (if p == "D" then some (0, false) else if p == "CK" then some (1, false) else if p == "Q" then some (0, true)
    else if p == "QN" then some (1, true) else none)
  else exTL k p
def exV : List Stmt := [.decls [⟨.input, "a", none⟩], .decls [⟨.output, "z", none⟩, ⟨.output, "y", none⟩], .decls [⟨.wire, "n", none⟩],
  .inst "DFF_X1" "f" [("D", .one "n"), ("Q", .one "q"), ("QN", .one "qn")],
  .inst "NAND2_X1" "u1" [("A1", .one "a"), ("A2", .one "1'b1"), ("ZN", .one "n")],
  .inst "INV_X1" "u2" [("I", .one "qn"), ("ZN", .one "w")],
  .assign ["z"] ["w"], .assign ["y"] ["1'b0"]]
/-- assignment: `a = 1` (position 0), state of `f` = 1 (position 3; positions 1, 2 are the output ports) -/
def exVA : Nat → Bool := fun p => p == 0 || p == 3

example : vArityB exTL2 exV = true := by decide +kernel
example : verilogOKB {} exTL2 ["a", "z", "y"] exV = true ∧ verilogOKB { bf := true } exTL2 ["a", "z", "y"] exV = true ∧
    verilogOKB { assignFix := true } exTL2 ["a", "z", "y"] exV = true ∧ (module {} exTL2 ["a", "z", "y"] exV).err = false := by
  decide +kernel
example : vSNames ["a", "z", "y"] exV = [.cell "a" 0, .cell "z" 0, .cell "y" 0, .cell "f" 0] ∧
    vSigs {} exTL2 exV = ["q", "qn", "n", "w", "a", "w", "1'b0", "n", "a", "1'b1", "1'b1", "qn", "z", "y"] := by decide +kernel
/-- the lines of the two constants: the assign constant gets `__const0_0__`, the pin constant `__const1_1__` with its own fork -/
example : (⟨.cell "__const0_0__" 0, .fork "y", none⟩ : LineM) ∈ (module {} exTL2 ["a", "z", "y"] exV).lines ∧
    (⟨.cell "__const1_1__" 0, .fork "__const1_1__", none⟩ : LineM) ∈ (module {} exTL2 ["a", "z", "y"] exV).lines ∧
    (⟨.fork "__const1_1__", .cell "u1" 1, none⟩ : LineM) ∈ (module {} exTL2 ["a", "z", "y"] exV).lines ∧
    (⟨.fork "w", .fork "z", none⟩ : LineM) ∈ (module {} exTL2 ["a", "z", "y"] exV).lines := by decide +kernel
/-- the model: `q = 1`, `qn = 0`, `n = NAND(1, 1) = 0`, `w = NOT(0) = 1`, `z = w = 1`, `y = 0`; observed: `z = 1`, `y = 0`, next state `n = 0` -/
example : vEval exTL2 ["a", "z", "y"] exV false (!·) prim2 exVA =
      [("a", true), ("q", true), ("qn", false), ("n", false), ("w", true), ("z", true), ("y", false)] ∧
    vModelB exTL2 ["a", "z", "y"] exV false (!·) prim2 exVA (vEval exTL2 ["a", "z", "y"] exV false (!·) prim2 exVA) = true ∧
    vCaptures exTL2 ["a", "z", "y"] exV false prim2 (vEnvOf false (vEval exTL2 ["a", "z", "y"] exV false (!·) prim2 exVA)) =
      [none, some true, some false, some false] := by
  decide +kernel
/-- the net (16 nodes) and an order satisfying the hypotheses of `verilog_end_to_end` -/
example : (verilogNet {} exTL2 ["a", "z", "y"] exV).io = [7, 9, 10] ∧ (verilogNet {} exTL2 ["a", "z", "y"] exV).sNodes = [7, 9, 10, 0] ∧
    orderOKB (verilogNet {} exTL2 ["a", "z", "y"] exV) [7, 8, 0, 1, 2, 14, 15, 3, 4, 5, 6, 11, 12, 13, 9, 10] = true ∧
    forksOKB (verilogNet {} exTL2 ["a", "z", "y"] exV) [7, 8, 0, 1, 2, 14, 15, 3, 4, 5, 6, 11, 12, 13, 9, 10] = true ∧
    linesDrivenB Gen.kindPrefixes (verilogNet {} exTL2 ["a", "z", "y"] exV) [7, 8, 0, 1, 2, 14, 15, 3, 4, 5, 6, 11, 12, 13, 9, 10] = true := by
  decide +kernel
end ParsedSemVerilog

end KV.C11
