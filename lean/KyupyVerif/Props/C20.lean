import KyupyVerif.Proofs.Def
import KyupyVerif.Proofs.DefText
import KyupyVerif.Proofs.DefPartial
/-! # C20 — DEF data is extracted as written, with wildcards and via arrays expanded

**Theorem (this file, for ALL point lists / wires / nets of the model `Model/Def.lean`):**
* `wildcard_prev`, `wildcard_inherits`, `wire_points_resolved`: in the resolved point list of a wire every coordinate is
  the most recent explicit value on its axis (equivalently: an explicit coordinate is kept, a `*` takes the resolved
  value of the previous point); the optional third value is carried unchanged; vias never appear in the list.
* `via_location`: each via entry is placed at the resolved location of the last point before it.
* DOMAIN (audit 2, A-C20-3): the total functions `wirePoints`, `viasD`, `netViasD`, `netWires` seed a `*` in the FIRST point of a
  wire with 0 — the grammar accepts `( * 5 )` there, DEF does not, and the code then puts `None` into the listing or raises
  `TypeError`. The TIED functions are the partial ones (`Wire.wirePoints?`, `Wire.vias?`, `netVias?`, `netWiresR`, `netViasR`,
  Model/Def.lean): defined exactly where the real property returns a listing of integers. Hypothesis `hs : w.startOK = true`
  (decidable: both coordinates of the first point explicit) of `via_location`, `wire_vias`, `via_array_in_wire`,
  `via_plain_in_wire`, `agg_vias`, `wire_points_resolved`, `wire_points_wildcard` puts a theorem inside that domain and its
  conclusion speaks about the partial function; `wire_vias_defined`, `agg_vias` (2nd part), `agg_vias_keys_defined`, `wires_ok_iff`
  cover every other input on which the real property is a listing; `agg_vias_none_iff`, `wires_outcomes` say what else can happen.
  The harness generates first points with `*` (tag `dom-hyp:start-wildcard`) and compares the model's outcome (`!start`) with
  the real one (`None` in the listing / `TypeError`).
* `wires_raises_iff`, `wires_ok_iff`, `wires_listing`, `wires_text_raises_iff`, `vias_ignore_width` (audit 2, finding 5): the
  records carry the RAW width token; `DefNet.wires` raises `ValueError` exactly when a LISTED wire (one with a second point) has
  a token `int()` rejects, otherwise lists `int(token)`; `DefNet.vias` never reads the token.
* `via_array`, `via_array_order`, `via_array_in_wire`: `DO n BY m STEP dx dy` at `p` yields exactly
  `{p + (i·dx, j·dy) : i < n, j < m}`, `n·m` entries, orientation `N`, x-major order, pairwise distinct whenever each
  axis with more than one copy has a non-zero step.
* `wire_vias`: the per-type dictionary built by the loop of `DefWire.vias` is the grouping of the ordered via list by
  type (values, key set, keys distinct).
* `agg_wires`, `agg_wires_asis`, `agg_vias` (+ `_keys`, `_append`): the per-layer / per-type lists of a net are the
  concatenation over its wire segments in order; wires without a second point contribute nothing; identical for
  special nets (`width = some _`) and regular nets (`width = none`).
* `asis_eq_spec`: the code-as-it-is reading (`netWiresAsIs`) coincides with the demanded one (`netWires`) exactly when every
  listed wire has a width and no `*` — i.e. the two observed defects are the only difference between them.

**Correspondence (harness/c20.py, sampled):** the model functions evaluated by the compiled driver equal the OUTCOME of the real
`DefWire.vias`, `DefNet.vias` (`Wire.vias?`, `netViasR`), `DefWire.wire_points`, `DefNet.wires` (`Wire.wirePoints?`, `netWiresR`) on
every generated routing description — exact, including dictionary key order, and including the cases where the real property
raises (`ValueError` of kyupy's own `int(width)`: the request carries the raw token, the harness converts nothing) or lists
`None`. The legacy readings (`netWiresAsIs`, `netWiresRaw`, `Wire.wirePointsRaw`: trees before the wildcard / regular-net
repairs) are still modelled; WHICH reading the tree under test shows is probed once per run on three hand-made nets and every
case is then compared with exactly that one. The oracle compares with ground truth and reports the as-is readings as violations
(classes `regular-net-wires`, `wildcard-in-wires`, `unrouted-net-wires`).
**Oracle (sampled):** every attribute that `def_file.parse` extracts from a generated DEF text equals the generator's AST
(units, die area, rows, tracks, via definitions, components, pins, net pins/options, raw wire entries), and
`wires`/`vias` equal the generator's ground-truth geometry.
**Theorem, text level** (section `text`, model `KV.DefText` in Model/DefText.lean = the whole grammar of `def_file.py` read as
lark reads it: contextual scanner with the per-state terminal order of the real `Lark` object, string terminals `(` `;` `NEW`
`DO` folded into `ID` and re-typed on a whole match, the merged scanner after every point / orientation / `DO` statement,
ORIENTATION with look-ahead, NUMBER / SIGNED_NUMBER / STRING as their expressions; then `DefFile.ok` = the `int()` calls of
`DefTransformer`): `def_text_roundtrip` — `parseDef (printDef f) = some f` for every valid syntax tree; `def_text_roundtrip_tree`
(grammar alone), `def_text_valid_ok`.  `DefFile.netsRouted` hands the wires of ALL wiring statements of every net (`+ COVER | FIXED |
ROUTED | NOSHIELD`, file order — the repaired code, D35) to the routing model above, as `DWire` records with the RAW width
token (total hand-over; `toWire_isSome_iff` says where `int()` of a record would succeed, `wires_text_raises_iff` where the code
actually calls it and raises). `wiring_concat`, `wiring_part`, `wiring_none_lost`, `routed_handover`, `routed_two_statements` are
`simp`/`rfl` unfoldings of the DEFINITION `TNet.wiresT = parts.flatMap …` (audit 2, A-C20-2): they document the model, they do not
carry the repair of audit finding 4. What carries it: the model definition + the sampled tie `defparse` (generated texts with
1–3 wiring statements, `HANDOVER_TEXTS`, `HANDOVER_AUDIT2`: records AND the outcomes of `wires`/`vias` of every net) + oracle class
`wiring-statements`; text-level link for printer texts: `routed_text` (with `def_text_roundtrip`), for other texts the
kernel-checked instances below (two wiring statements, the auditor's width witness, `*` in a first point).
`wiring_last_only_loses` = what the `setattr` of the tree before D35 lost (audit finding 4). `DefWire.kind` is not modelled (attribute oracle only).
**Correspondence, text level (harness/c20.py, sampled):** the model reader (driver `defparse`) against the real lark grammar — parse
tree with ALL tokens kept, every rule and every token text — and the real `def_file.parse` (accept / raise) on generated files,
hand-written corner cases (missing blanks, `(10`, `NEWVIA`, `3;`, escaped strings, comments) and mutated texts; for generated
files also the hand-over: `netsRouted` = the real `DefWire` records of every net (raw width token), `netWiresR` / `netViasR` of them =
the real outcome of `dnet.wires` / `dnet.vias` (tags `tie-hyp:text-net-*`).
**Still trusted:** that lark implements the grammar as the hand-written reader does (LALR tables, `re` semantics) — checked by the
text correspondence, not proved; the transformer's record building (attribute oracle above). -/
namespace KV.C20
open KV.Def

/-! ## wildcards -/

/-- Resolution of a point sequence whose first point is explicit: coordinate `i` on each axis is the value written at the
most recent index `j ≤ i` that is explicit on that axis (every index between `j` and `i` carries `*`).
Holds for every seed location `loc` (the seed is never read because point 0 is explicit). -/
theorem wildcard_prev (loc : Loc) (ps : List RPt) (i : Nat) (hi : i < ps.length)
    (h0x : (ps[0]'(by omega)).x.isSome = true) (h0y : (ps[0]'(by omega)).y.isSome = true) :
    ∃ hr : i < (resolveFrom loc ps).length,
      (∃ j, ∃ hj : j < ps.length, j ≤ i ∧ ps[j].x = some ((resolveFrom loc ps)[i]).1 ∧
          ∀ k, ∀ hk : k < ps.length, j < k → k ≤ i → ps[k].x = none) ∧
      (∃ j, ∃ hj : j < ps.length, j ≤ i ∧ ps[j].y = some ((resolveFrom loc ps)[i]).2 ∧
          ∀ k, ∀ hk : k < ps.length, j < k → k ≤ i → ps[k].y = none) := by
  have hr : i < (resolveFrom loc ps).length := by rw [length_resolveFrom]; exact hi
  refine ⟨hr, ?_, ?_⟩
  · rcases resolve_prev_x loc ps i hi hr with h | ⟨hall, _⟩
    · exact h
    · have := hall 0 (by omega) (by omega); rw [this] at h0x; simp at h0x
  · rcases resolve_prev_y loc ps i hi hr with h | ⟨hall, _⟩
    · exact h
    · have := hall 0 (by omega) (by omega); rw [this] at h0y; simp at h0y

/-- local form ("a `*` inherits the previous point's value"): point `i+1` keeps its explicit coordinates and takes the
resolved coordinates of point `i` where it has `*` -/
theorem wildcard_inherits (loc : Loc) (ps : List RPt) (i : Nat) (h1 : i + 1 < ps.length) :
    ∃ (hr0 : i < (resolveFrom loc ps).length) (hr1 : i + 1 < (resolveFrom loc ps).length),
      ((resolveFrom loc ps)[i + 1]).1 = (ps[i + 1].x).getD ((resolveFrom loc ps)[i]).1 ∧
      ((resolveFrom loc ps)[i + 1]).2 = (ps[i + 1].y).getD ((resolveFrom loc ps)[i]).2 := by
  have hr0 : i < (resolveFrom loc ps).length := by rw [length_resolveFrom]; omega
  have hr1 : i + 1 < (resolveFrom loc ps).length := by rw [length_resolveFrom]; omega
  refine ⟨hr0, hr1, ?_⟩
  rw [resolve_succ loc ps i h1 hr0 hr1]
  exact ⟨rfl, rfl⟩

/-- `wirePoints` (what `DefNet.wires` must list) is the resolution of `wirePointsRaw` (what `DefWire.wire_points` holds):
same length, resolved coordinates, third value unchanged; the list is the first point followed by the later *points*
(via entries skipped), or empty when there is no later point.  Guard (audit 2, A-C20-3): the listing `wirePoints` is what the real
`DefWire.wire_points` returns (`wirePoints?`, the tied function) whenever the first point is explicit; the only other case is a
listed wire whose first point carries `*` — there the real listing starts with a `None` coordinate (`wirePoints? = none`). -/
theorem wire_points_resolved (w : Wire) :
    w.wirePointsRaw = (if (ptsOf w.rest).isEmpty then [] else w.start :: ptsOf w.rest) ∧
    w.wirePoints.length = w.wirePointsRaw.length ∧
    (∀ i, ∀ hi : i < w.wirePointsRaw.length, ∃ (h1 : i < w.wirePoints.length)
        (h2 : i < (resolveFrom (0, 0) w.wirePointsRaw).length),
      w.wirePoints[i] = ⟨((resolveFrom (0, 0) w.wirePointsRaw)[i]).1, ((resolveFrom (0, 0) w.wirePointsRaw)[i]).2,
                          (w.wirePointsRaw[i]).ext⟩) ∧
    (w.startOK = true → w.wirePoints? = some w.wirePoints) ∧
    (w.wirePoints? = none ↔ w.wirePointsRaw.isEmpty = false ∧ w.startOK = false) := by
  have hl : w.wirePoints.length = w.wirePointsRaw.length :=
    length_attachExt _ _ (length_resolveFrom _ _)
  refine ⟨rfl, hl, ?_, ?_, ?_⟩
  rotate_left
  · intro hs
    unfold Wire.wirePoints?
    split
    · rename_i he
      have : w.wirePoints = [] := by
        have h0 : w.wirePoints.length = 0 := by rw [hl]; simpa using he
        exact List.eq_nil_of_length_eq_zero h0
      rw [this]
    · rfl
  · unfold Wire.wirePoints?
    cases w.wirePointsRaw.isEmpty <;> cases w.startOK <;> simp
  intro i hi
  have h2 : i < (resolveFrom (0, 0) w.wirePointsRaw).length := by rw [length_resolveFrom]; exact hi
  exact ⟨by rw [hl]; exact hi, h2, getElem_attachExt _ _ i h2 hi _⟩

/-- the two statements combined, on the wire listing itself: for a wire whose first point is explicit, coordinate `i` of
`wirePoints` is the most recent explicit value on that axis in `wirePointsRaw` -/
theorem wire_points_wildcard (w : Wire) (hs : w.startOK = true) (i : Nat) (hi : i < w.wirePointsRaw.length) :
    ∃ h1 : i < w.wirePoints.length,
      (∃ j, ∃ hj : j < w.wirePointsRaw.length, j ≤ i ∧ (w.wirePointsRaw[j]).x = some (w.wirePoints[i]).x ∧
          ∀ k, ∀ hk : k < w.wirePointsRaw.length, j < k → k ≤ i → (w.wirePointsRaw[k]).x = none) ∧
      (∃ j, ∃ hj : j < w.wirePointsRaw.length, j ≤ i ∧ (w.wirePointsRaw[j]).y = some (w.wirePoints[i]).y ∧
          ∀ k, ∀ hk : k < w.wirePointsRaw.length, j < k → k ≤ i → (w.wirePointsRaw[k]).y = none) ∧
      (w.wirePoints[i]).ext = (w.wirePointsRaw[i]).ext := by
  obtain ⟨_, _, hres, _⟩ := wire_points_resolved w
  obtain ⟨h1, h2, he⟩ := hres i hi
  have h0 : w.wirePointsRaw[0]'(by omega) = w.start := by
    have : w.wirePointsRaw = w.start :: ptsOf w.rest := by
      unfold Wire.wirePointsRaw at hi ⊢
      split
      · rename_i h; simp [h] at hi
      · rfl
    simp [this]
  simp only [Wire.startOK, Bool.and_eq_true] at hs
  obtain ⟨_, hx, hy⟩ := wildcard_prev (0, 0) w.wirePointsRaw i hi (by rw [h0]; exact hs.1) (by rw [h0]; exact hs.2)
  refine ⟨h1, ?_, ?_, ?_⟩
  · rw [he]; exact hx
  · rw [he]; exact hy
  · rw [he]

/-! ## vias -/

/-- resolved location of the last point of `start :: points(pre)` (the list is never empty; the default is not used) -/
def lastLoc (w : Wire) (pre : List Item) : Loc :=
  ((resolveFrom (0, 0) (w.start :: ptsOf pre)).getLast?).getD (0, 0)

theorem lastLoc_eq (w : Wire) (pre : List Item) : lastLoc w pre = endLoc w.loc0 pre := by
  rw [endLoc_eq_last, lastLoc]
  simp only [resolveFrom, Wire.loc0]
  cases resolveFrom (w.start.onto (0, 0)) (ptsOf pre) with
  | nil => simp
  | cons a t => cases hl : (a :: t).getLast? <;> simp_all [List.getLast?_cons_cons]

/-- A via entry `it` that follows the entries `pre` is placed at the resolved location of the last point of
`start :: points(pre)`; everything before and after it is unaffected.  `hs` (first point explicit) is the domain on which the
real `DefWire.vias` is a listing of integers (`Wire.vias?`, the tied function) — then it is `viasD`, the grouping of `viasFlat`. -/
theorem via_location (w : Wire) (hs : w.startOK = true) (pre post : List Item) (it : Item) (hw : w.rest = pre ++ it :: post) :
    w.vias? = some w.viasD ∧ (∀ t, w.viasD.get t = selectKey t w.viasFlat) ∧
    w.viasFlat = viasFlat w.loc0 pre ++ emit (lastLoc w pre) it ++ viasFlat (endLoc (lastLoc w pre) [it]) post := by
  refine ⟨vias?_of_startOK w hs, viasD_get w, ?_⟩
  rw [Wire.viasFlat, hw, viasFlat_append, viasFlat_cons, lastLoc_eq, List.append_assoc]

/-- `DO n BY m STEP dx dy` at `p`: exactly the positions `p + (i·dx, j·dy)`, `i < n`, `j < m`, all with orientation `N`;
`n·m` entries; pairwise distinct when every axis that is repeated has a non-zero step -/
theorem via_array (p : Loc) (n m : Nat) (dx dy : Int) :
    (∀ v, v ∈ arrayAt p n m dx dy ↔
        ∃ i j : Nat, i < n ∧ j < m ∧ v = (p.1 + (i : Int) * dx, p.2 + (j : Int) * dy, "N")) ∧
    (arrayAt p n m dx dy).length = n * m ∧
    ((n ≤ 1 ∨ dx ≠ 0) → (m ≤ 1 ∨ dy ≠ 0) → (arrayAt p n m dx dy).Nodup) :=
  ⟨mem_arrayAt p n m dx dy, length_arrayAt p n m dx dy, nodup_arrayAt p n m dx dy⟩

/-- the order the code produces: x index outer, y index inner -/
theorem via_array_order (p : Loc) (n m : Nat) (dx dy : Int) (i j : Nat) (hi : i < n) (hj : j < m) :
    ∃ h : i * m + j < (arrayAt p n m dx dy).length,
      (arrayAt p n m dx dy)[i * m + j] = (p.1 + (i : Int) * dx, p.2 + (j : Int) * dy, "N") := by
  have h : i * m + j < (arrayAt p n m dx dy).length := by
    rw [length_arrayAt]
    calc i * m + j < i * m + m := by omega
      _ = (i + 1) * m := by rw [Nat.succ_mul]
      _ ≤ n * m := Nat.mul_le_mul_right _ hi
  exact ⟨h, getElem_arrayAt p n m dx dy i j hi hj h⟩

/-- the dictionary returned by `DefWire.vias`: per type the ordered sub-list of the wire's vias, keys = types that occur,
no key twice -/
theorem wire_vias (w : Wire) (hs : w.startOK = true) :
    ∃ d, w.vias? = some d ∧
    (∀ t, d.get t = selectKey t w.viasFlat) ∧
    (∀ t, t ∈ d.keys ↔ ∃ e ∈ w.viasFlat, e.1 = t) ∧
    d.keys.Nodup :=
  ⟨w.viasD, vias?_of_startOK w hs, viasD_get w, mem_viasD_keys w, viasD_keys_nodup w⟩

/-- without the guard: WHEREVER the real `DefWire.vias` is a listing of integers (`vias? = some d`; e.g. a `*` in the first point
that is overwritten before the first via) it is the total model's dictionary, so the three clauses hold of it -/
theorem wire_vias_defined (w : Wire) (d : Dict ViaLoc) (h : w.vias? = some d) :
    d = w.viasD ∧ (∀ t, d.get t = selectKey t w.viasFlat) ∧ d.keys.Nodup := by
  have := vias?_eq_viasD w d h
  subst this
  exact ⟨rfl, viasD_get w, viasD_keys_nodup w⟩

/-- a via array inside a wire: under its type the wire lists what came before, then the `n·m` expanded positions at the
resolved location of the last point, then what comes after -/
theorem via_array_in_wire (w : Wire) (hs : w.startOK = true) (pre post : List Item) (name : String) (n m : Nat) (dx dy : Int)
    (hw : w.rest = pre ++ Item.arr name n m dx dy :: post) :
    ∃ d, w.vias? = some d ∧
    d.get name = selectKey name (viasFlat w.loc0 pre) ++ arrayAt (lastLoc w pre) n m dx dy ++
      selectKey name (viasFlat (lastLoc w pre) post) := by
  refine ⟨w.viasD, vias?_of_startOK w hs, ?_⟩
  rw [viasD_get, (via_location w hs pre post _ hw).2.2, selectKey_append, selectKey_append, selectKey_emit]
  simp [endLoc]

/-- plain vias: `(x, y, orient)` at the current location; no orientation given (special nets) reads `N` -/
theorem via_plain_in_wire (w : Wire) (hs : w.startOK = true) (pre post : List Item) (name : String) (o : Option String)
    (hw : w.rest = pre ++ Item.via name o :: post) :
    ∃ d, w.vias? = some d ∧
    d.get name = selectKey name (viasFlat w.loc0 pre) ++ [((lastLoc w pre).1, (lastLoc w pre).2, orientOf o)] ++
      selectKey name (viasFlat (lastLoc w pre) post) := by
  refine ⟨w.viasD, vias?_of_startOK w hs, ?_⟩
  rw [viasD_get, (via_location w hs pre post _ hw).2.2, selectKey_append, selectKey_append, selectKey_emit]
  simp [endLoc]

/-! ## per-net aggregation -/

/-- `DefNet.wires` (demanded reading): under each layer, the `(width, points)` pairs of the wire segments on that layer that
have at least two points, in segment order -/
theorem agg_wires (ws : List Wire) (layer : String) :
    (netWires ws).get layer =
      ws.flatMap (fun w => if w.layer = layer ∧ ¬ w.wirePoints.isEmpty then [(w.width, w.wirePoints)] else []) := by
  simpa [netWires, netWiresD, Dict.get] using get_foldl_wires Wire.wirePoints ws [] layer

theorem agg_wires_keys (ws : List Wire) :
    (∀ k, k ∈ (netWires ws).keys ↔ ∃ w ∈ ws, w.layer = k ∧ ¬ w.wirePoints.isEmpty) ∧ (netWires ws).keys.Nodup := by
  refine ⟨fun k => ?_, nodup_keys_foldl_wires _ ws [] (by simp [Dict.keys])⟩
  simpa [netWires, netWiresD, Dict.keys] using keys_foldl_wires Wire.wirePoints ws [] k

/-- the same for the code as it is, whenever it does not raise -/
theorem agg_wires_asis (ws : List Wire) (d : Dict (Option Nat × List RPt)) (h : netWiresAsIs (some ws) = .ok d)
    (layer : String) :
    d.get layer =
      ws.flatMap (fun w => if w.layer = layer ∧ ¬ w.wirePointsRaw.isEmpty then [(w.width, w.wirePointsRaw)] else []) := by
  simp only [netWiresAsIs] at h
  split at h
  · cases h
  · cases h
    simpa [netWiresD, Dict.get] using get_foldl_wires Wire.wirePointsRaw ws [] layer

/-- concatenation over segments in order (both for special nets, `width = some _`, and regular nets, `width = none`) -/
theorem agg_wires_append (a b : List Wire) (layer : String) :
    (netWires (a ++ b)).get layer = (netWires a).get layer ++ (netWires b).get layer := by
  simp [agg_wires]

/-- the total model `netViasD` (seed `(0,0)` for a `*` in a first point — NOT the code there, see `agg_vias`): under each via type
the concatenation, in segment order, of what each segment lists under that type -/
theorem agg_vias_total (ws : List Wire) (t : String) :
    (netViasD ws).get t = ws.flatMap (fun w => w.viasD.get t) ∧
    (netViasD ws).get t = ws.flatMap (fun w => selectKey t w.viasFlat) := by
  have h : (netViasD ws).get t = ws.flatMap (fun w => w.viasD.get t) := by
    simpa [netViasD, Dict.get] using get_foldl_vias ws [] t
  refine ⟨h, ?_⟩
  rw [h]; congr 1; funext w; exact viasD_get w t

/-- `DefNet.vias` (the tied partial function `netVias?`): for a net whose wires all start with an explicit point the real property
is a listing of integers, and under each via type it is the concatenation, in segment order, of what each segment lists under
that type.  Second part: WHEREVER the real property is such a listing (`netVias? ws = some d`) the same holds. -/
theorem agg_vias (ws : List Wire) (t : String) :
    ((∀ w ∈ ws, w.startOK = true) → netVias? ws = some (netViasD ws)) ∧
    (∀ d, netVias? ws = some d →
      d.get t = ws.flatMap (fun w => w.viasD.get t) ∧ d.get t = ws.flatMap (fun w => selectKey t w.viasFlat)) := by
  refine ⟨netVias?_of_startOK ws, fun d h => ?_⟩
  rw [netVias?_eq ws d h]
  exact agg_vias_total ws t

/-- where it is not: some wire's own `vias` is not a listing of integers (`None` in a tuple / `TypeError`) -/
theorem agg_vias_none_iff (ws : List Wire) : netVias? ws = none ↔ ∃ w ∈ ws, w.vias? = none := netVias?_eq_none_iff ws

theorem agg_vias_keys (ws : List Wire) :
    (∀ k, k ∈ (netViasD ws).keys ↔ ∃ w ∈ ws, ∃ e ∈ w.viasFlat, e.1 = k) ∧ (netViasD ws).keys.Nodup := by
  refine ⟨fun k => ?_, nodup_keys_foldl_vias ws [] (by simp [Dict.keys])⟩
  have := mem_keys_foldl_vias ws [] k
  simp only [Dict.keys, List.map_nil, List.not_mem_nil, false_or] at this
  rw [netViasD, Dict.keys, this]
  constructor
  · rintro ⟨w, hw, h⟩; exact ⟨w, hw, (mem_viasD_keys w k).1 h⟩
  · rintro ⟨w, hw, h⟩; exact ⟨w, hw, (mem_viasD_keys w k).2 h⟩

theorem agg_vias_append (a b : List Wire) (t : String) :
    (netViasD (a ++ b)).get t = (netViasD a).get t ++ (netViasD b).get t := by
  simp [(agg_vias_total _ t).1]

theorem agg_vias_keys_defined (ws : List Wire) (d : Dict ViaLoc) (h : netVias? ws = some d) :
    (∀ k, k ∈ d.keys ↔ ∃ w ∈ ws, ∃ e ∈ w.viasFlat, e.1 = k) ∧ d.keys.Nodup := by
  rw [netVias?_eq ws d h]; exact agg_vias_keys ws

/-! ## the real properties on the raw `DefWire` records (width token unconverted; audit 2, finding 5)

`netWiresR` / `netViasR` (Model/Def.lean) are the tied functions for `DefNet.wires` / `DefNet.vias`. -/

/-- `DefNet.wires` raises `ValueError` exactly when a LISTED wire (one with a second point) has a width token `int()` rejects:
a bad token on a wire without second point is never converted -/
theorem wires_raises_iff (ws : List DWire) :
    netWiresR ws = .error "value" ↔ ∃ w ∈ ws, w.listed = true ∧ w.widthVal = none := netWiresR_value_iff ws

/-- `DefNet.wires` returns a listing of integers exactly when every listed wire has a width `int()` accepts (or none: regular
net) and an explicit first point; the listing is then the demanded one (`netWires`, to which `agg_wires`, `agg_wires_keys`,
`agg_wires_append`, `wire_points_wildcard` apply) of the converted records; unlisted wires with a bad token simply drop out -/
theorem wires_ok_iff (ws : List DWire) (d : Dict (Option Nat × List Pt3)) :
    netWiresR ws = .ok d ↔
      (∀ w ∈ ws, w.listed = true → w.widthVal.isSome = true ∧ w.geom.startOK = true) ∧
      d = netWires (ws.filterMap DWire.conv) := netWiresR_ok_iff ws d

/-- the only other outcome: it returns, but the listing contains `None` (a listed wire starts with `*`) -/
theorem wires_outcomes (ws : List DWire) :
    (∃ d, netWiresR ws = .ok d) ∨ netWiresR ws = .error "value" ∨ netWiresR ws = .error "start" := by
  unfold netWiresR
  cases h : netWiresGo [] ws with
  | error e => have := netWiresGo_error ws [] e h; subst this; exact Or.inr (Or.inl rfl)
  | ok d => simp only; split <;> simp

/-- the per-layer listing stated on the raw records directly -/
theorem wires_listing (ws : List DWire) (d : Dict (Option Nat × List Pt3)) (h : netWiresR ws = .ok d) (layer : String) :
    d.get layer = ws.flatMap (fun w => if w.layer = layer ∧ w.listed = true
                                        then [(w.widthVal.getD none, w.geom.wirePoints)] else []) :=
  netWiresR_get ws d h layer

/-- `DefNet.vias` never reads the width: replacing the width tokens by anything changes nothing; it is total on nets whose
wires start with an explicit point, whatever the tokens -/
theorem vias_ignore_width (ws : List DWire) (f : DWire → Option String) :
    netViasR (ws.map fun w => { w with width := f w }) = netViasR ws ∧
    ((∀ w ∈ ws, w.geom.startOK = true) → netViasR ws = some (netViasD (ws.map DWire.geom))) := by
  constructor
  · simp only [netViasR, List.map_map]; rfl
  · intro hs
    exact netVias?_of_startOK _ (by simpa using hs)

/-! ## the code as it is vs. the demanded reading -/

def RPt.explicit (p : RPt) : Bool := p.x.isSome && p.y.isSome
def liftPt (p : Pt3) : RPt := ⟨some p.x, some p.y, p.ext⟩

theorem resolve_explicit (loc : Loc) (ps : List RPt) (h : ps.all RPt.explicit = true) :
    (attachExt (resolveFrom loc ps) ps).map liftPt = ps := by
  induction ps generalizing loc with
  | nil => rfl
  | cons p ps ih =>
    simp only [List.all_cons, Bool.and_eq_true] at h
    obtain ⟨hp, hps⟩ := h
    obtain ⟨x, y, e⟩ := p
    simp only [RPt.explicit, Bool.and_eq_true, Option.isSome_iff_exists] at hp
    obtain ⟨⟨vx, rfl⟩, ⟨vy, rfl⟩⟩ := hp
    simp [resolveFrom, attachExt, liftPt, RPt.onto, ih _ hps]

/-- If every wire of a routed net has a width and no `*`, the present code returns exactly the demanded listing. Together
with the definition of `netWiresAsIs` (error `"attr"` without `+ ROUTED`, error `"type"` for a listed wire without width,
`*` left as `none`) this says the observed defects are the only deviations. -/
theorem asis_eq_spec (ws : List Wire)
    (hw : ws.all (fun w => w.width.isSome) = true)
    (hp : ws.all (fun w => w.wirePointsRaw.all RPt.explicit) = true) :
    netWiresAsIs (some ws) =
      .ok ((netWires ws).map fun kv => (kv.1, kv.2.map fun e => (e.1, e.2.map liftPt))) := by
  have hany : ws.any (fun w => !w.wirePointsRaw.isEmpty && w.width.isNone) = false := by
    rw [List.any_eq_false]; intro w hmem
    have := List.all_eq_true.1 hw w hmem
    cases hwd : w.width <;> simp_all
  simp only [netWiresAsIs, hany, Bool.false_eq_true, if_false]
  congr 1
  -- generalise the accumulator of both folds
  suffices H : ∀ (d1 : Dict (Option Nat × List RPt)) (d2 : Dict (Option Nat × List Pt3)),
      d1 = d2.map (fun kv => (kv.1, kv.2.map fun e => (e.1, e.2.map liftPt))) →
      ws.foldl (fun d w => if (Wire.wirePointsRaw w).isEmpty then d else d.push w.layer (w.width, w.wirePointsRaw)) d1 =
        (ws.foldl (fun d w => if (Wire.wirePoints w).isEmpty then d else d.push w.layer (w.width, w.wirePoints)) d2).map
          (fun kv => (kv.1, kv.2.map fun e => (e.1, e.2.map liftPt))) by
    exact H [] [] rfl
  clear hany hw
  induction ws with
  | nil => intro d1 d2 h; simpa using h
  | cons w ws ih =>
    intro d1 d2 h
    simp only [List.all_cons, Bool.and_eq_true] at hp
    simp only [List.foldl_cons]
    apply ih hp.2
    have hlift : w.wirePoints.map liftPt = w.wirePointsRaw := resolve_explicit (0, 0) _ hp.1
    have hemp : w.wirePoints.isEmpty = w.wirePointsRaw.isEmpty := by
      rw [← hlift]; cases w.wirePoints <;> rfl
    rw [hemp]
    split
    · exact h
    · subst h
      rw [← hlift]
      generalize w.layer = k
      generalize w.width = wd
      generalize w.wirePoints = pts
      clear ih hp hlift hemp
      induction d2 with
      | nil => simp [Dict.push]
      | cons e r ihr =>
        obtain ⟨k0, l⟩ := e
        by_cases hk : k0 = k <;> simp [Dict.push, hk, ihr]

/-! ## non-vacuity: concrete objects satisfying the hypotheses / exercising every clause -/

/-- special-net wire `( 10 20 ) ( 100 * ) via1 ( * 300 7 ) via1 DO 2 BY 3 STEP 10 -20 ( * * )` -/
def exWire : Wire :=
  { layer := "metal1", width := some 480, start := ⟨some 10, some 20, none⟩,
    rest := [.pt ⟨some 100, none, none⟩, .via "via1" none, .pt ⟨none, some 300, some 7⟩,
             .arr "via1" 2 3 10 (-20), .pt ⟨none, none, none⟩] }
/-- regular-net wire `( 5 5 ) v2 FS` (no second point: not listed in `wires`, but its via is) -/
def exWire2 : Wire :=
  { layer := "metal2", width := none, start := ⟨some 5, some 5, none⟩, rest := [.via "v2" (some "FS")] }

example : exWire.startOK = true := by decide
example : exWire.wirePointsRaw.length = 4 := by decide
example : exWire.wirePoints = [⟨10, 20, none⟩, ⟨100, 20, none⟩, ⟨100, 300, some 7⟩, ⟨100, 300, none⟩] := by decide
example : exWire.viasD = [("via1", [(100, 20, "N"), (100, 300, "N"), (100, 280, "N"), (100, 260, "N"),
                                    (110, 300, "N"), (110, 280, "N"), (110, 260, "N")])] := by decide +kernel
example : (arrayAt (100, 300) 2 3 10 (-20)).Nodup ∧ (arrayAt (100, 300) 2 3 10 (-20)).length = 6 :=
  ⟨(via_array _ 2 3 10 (-20)).2.2 (Or.inr (by decide)) (Or.inr (by decide)), (via_array _ 2 3 10 (-20)).2.1⟩
/-- the usual one-dimensional array `DO 4 BY 1 STEP 100 0` is covered by the distinctness clause -/
example : (arrayAt (0, 0) 4 1 100 0).Nodup :=
  (via_array _ 4 1 100 0).2.2 (Or.inr (by decide)) (Or.inl (by decide))
/-- … and the hypothesis is needed: a repeated axis with step 0 does produce duplicates -/
example : ¬ (arrayAt (0, 0) 2 1 0 0).Nodup := by decide +kernel
example : exWire.rest = [.pt ⟨some 100, none, none⟩, .via "via1" none, .pt ⟨none, some 300, some 7⟩] ++
    Item.arr "via1" 2 3 10 (-20) :: [.pt ⟨none, none, none⟩] := by decide
example : lastLoc exWire [.pt ⟨some 100, none, none⟩, .via "via1" none, .pt ⟨none, some 300, some 7⟩] = (100, 300) := by
  decide +kernel
example : netWires [exWire, exWire2, { exWire with width := some 100 }] =
    [("metal1", [(some 480, exWire.wirePoints), (some 100, exWire.wirePoints)])] := by decide +kernel
example : netViasD [exWire2, exWire, exWire2] =
    [("v2", [(5, 5, "FS"), (5, 5, "FS")]), ("via1", exWire.viasD.get "via1")] := by decide +kernel
/-- the code as it is: `*` survives as `none`; a listed regular-net wire raises; no `+ ROUTED` raises -/
example : netWiresAsIs (some [exWire]) = .ok [("metal1", [(some 480,
    [⟨some 10, some 20, none⟩, ⟨some 100, none, none⟩, ⟨none, some 300, some 7⟩, ⟨none, none, none⟩])])] := by decide +kernel
example : netWiresAsIs (some [{ exWire with width := none }]) = .error "type" := by decide +kernel
example : netWiresAsIs (some [exWire2]) = .ok [] := by decide +kernel
example : netWiresAsIs none = .error "attr" := by decide
/-- hypotheses of `asis_eq_spec` are satisfiable by a two-segment net -/
def exPlain : Wire :=
  { layer := "m3", width := some 50, start := ⟨some 1, some 1, none⟩, rest := [.pt ⟨some 2, some 2, some 4⟩, .via "v" none] }
example : [exPlain, exPlain].all (fun w => w.width.isSome) = true ∧
    [exPlain, exPlain].all (fun w => w.wirePointsRaw.all RPt.explicit) = true := by decide

/-! ## text level: the grammar of `def_file.py` (Model/DefText.lean) -/
section text
open KV.DefText
set_option synthInstance.maxSize 4096   -- `Decidable` of the nested listing types in the examples (section-local)
set_option synthInstance.maxHeartbeats 200000

/-- Print/parse round trip of the DEF text model: for every syntax tree `f` of the grammar (head comment, VERSION /
DIVIDERCHAR / BUSBITCHARS, DESIGN with UNITS, DIEAREA, ROW, TRACKS, PROPERTYDEFINITIONS, VIAS, NONDEFAULTRULES,
COMPONENTS, PINS, PINPROPERTIES, SPECIALNETS, NETS incl. all wiring forms) whose tokens are tokens of the grammar
(`DefFile.valid`: names without white space that the scanner does not read as something else at their place, unsigned /
signed integers, plain strings, option keywords of their statement, no pin directly after wiring), reading the
canonical text (every token preceded by a blank) gives back exactly `f` — through the scanner with lark's per-state
terminal order and its folding of `(`, `;`, `NEW`, `DO` into `ID`, the reader for the grammar, and the transformer's
raise conditions (`DefFile.ok`). -/
theorem def_text_roundtrip (f : DefFile) (h : f.valid = true) : parseDef (printDef f) = some f := parseDef_print f h

/-- the same at the grammar level alone (what lark's parse tree contains, no transformer) -/
theorem def_text_roundtrip_tree (f : DefFile) (h : f.valid = true) : parseTree (printDefL f) = some f :=
  parseTree_print f h

/-- a valid tree never makes the transformer raise -/
theorem def_text_valid_ok (f : DefFile) (h : f.valid = true) : f.ok = true := DefFile.ok_of_valid f h

private def t (s : String) : Txt := s.toList
private def pt (x y : Option String) (e : Option String := none) : TPoint := ⟨x.map t, y.map t, e.map t⟩

/-- a file with every statement kind: special and regular nets, wildcards, a third point value, a via array with signed
steps, orientations, TAPER / TAPERRULE / STYLE, several wires per statement, a net without parts -/
def exText : DefFile :=
  { head := some (t "# generated"),
    stmts := [.version (t "5.8"), .dividerchar (t "\"/\""), .busbitchars (t "\"[]\""),
      .design (t "top") [
        .units (t "DISTANCE") (t "MICRONS") (t "1000"),
        .diearea [pt (some "0") (some "0"), pt (some "100") (some "200")],
        .row (t "ROW_1") (t "core") (t "0") (t "0") (t "N") ⟨t "10", t "1", t "380", t "0"⟩,
        .tracks (t "X") (t "190") (t "20") (t "380") (t "metal1"),
        .propdef [(t "foo", t "STRING")],
        .vias (t "1") [⟨t "via1_0", [⟨.Viarule, [t "r"]⟩, ⟨.Cutsize, [t "1", t "2"]⟩, ⟨.Layers, [t "a", t "b", t "c"]⟩,
          ⟨.Enclosure, [t "1", t "2", t "3", t "4"]⟩]⟩],
        .nondef (t "1") [(t "rule1", [.hard, .layer (t "m1") (t "10") (t "20"), .via (t "v1")])],
        .comps (t "1") [⟨t "u1", t "NAND2_X1", pt (some "10") (some "20"), t "FS"⟩],
        .pins (t "1") [⟨t "io1", [.word .Net (t "n1"), .flag .Special, .word .Direction (t "INPUT"),
          .layer (t "m1") (pt (some "0") (some "0")) (pt (some "1") (some "1")), .flag .Port,
          .placed (pt (some "5") (some "5")) (t "N")]⟩],
        .pinprop (t "1") [(t "io1", t "foo", t "\"b c\"")],
        .spnets (t "1") [⟨t "VDD", [.pin (t "*") (t "VDD"), .opt .Use (t "POWER"),
            .wiring .Routed [⟨t "metal1", some (t "100"), [(true, t "RING"), (false, t "1")], .none, none, pt (some "0") (some "0"),
               [.via (t "via1_0") none, .arr (t "via1_0") ⟨t "2", t "3", t "+10", t "-20"⟩, .pt (pt none (some "50") (some "7"))]⟩,
              ⟨t "metal2", some (t "5"), [], .none, none, pt (some "1") (some "1"), [.via (t "v2") none]⟩]]⟩],
        .nets (t "2") [⟨t "n1", [.pin (t "u1") (t "A"), .pin (t "PIN") (t "io1"),
            .wiring .Routed [⟨t "metal1", none, [], .taper, some (t "2"), pt (some "0") (some "0"),
               [.pt (pt (some "5") none), .via (t "via1_0") (some (t "FS")), .via (t "v3") none, .via (t "v4") none, .pt (pt none none)]⟩,
              ⟨t "metal2", none, [], .rule (t "r1"), none, pt (some "1") (some "1"), [.via (t "v2") none]⟩],
            .opt .Use (t "SIGNAL"),
            .wiring .Noshield [⟨t "m3", none, [], .none, some (t "0"), pt (some "1") (some "1"), [.via (t "v2") (some (t "N"))]⟩]]⟩,
          ⟨t "n2", []⟩]]] }

example : exText.valid = true := by decide +kernel
example : parseDef (printDef exText) = some exText := def_text_roundtrip exText (by decide +kernel)

/-! ### hand-over to the routing model: every wiring statement of a net, in file order (audit finding 4, repair D35) -/

/-- the wires handed over are those of ALL wiring statements (`+ COVER | FIXED | ROUTED | NOSHIELD`), statement after
statement in file order: the collection distributes over the parts of the net statement … -/
theorem wiring_concat (name : Txt) (p q : List NetPart) :
    TNet.wiresT ⟨name, p ++ q⟩ = TNet.wiresT ⟨name, p⟩ ++ TNet.wiresT ⟨name, q⟩ := by
  simp [TNet.wiresT]

/-- … a wiring statement contributes exactly its wires, pins and options contribute nothing … -/
theorem wiring_part (name : Txt) (k : Kw) (ws : List TWire) (a b v : Txt) (ko : Kw) :
    TNet.wiresT ⟨name, [.wiring k ws]⟩ = ws ∧ TNet.wiresT ⟨name, [.pin a b]⟩ = [] ∧ TNet.wiresT ⟨name, [.opt ko v]⟩ = [] := by
  simp [TNet.wiresT]

/-- … so no wire of any wiring statement is lost: around the statement `+ k ws` the list is (wires before) ++ ws ++ (wires after) -/
theorem wiring_none_lost (name : Txt) (p q : List NetPart) (k : Kw) (ws : List TWire) :
    TNet.wiresT ⟨name, p ++ .wiring k ws :: q⟩ = TNet.wiresT ⟨name, p⟩ ++ ws ++ TNet.wiresT ⟨name, q⟩ := by
  simp [TNet.wiresT]

/-- The hand-over `toWire` is total and carries the RAW width token. `int(width)` of THIS record (`DWire.conv`, `DWire.widthVal`)
succeeds exactly when the token, if any, is plain digits — and then gives `natOf` of it, never a made-up number. Whether the
real code ever evaluates it is a different matter: `DefNet.wires` does so only for LISTED wires (`wires_text_raises_iff`),
`DefNet.vias` never (`vias_ignore_width`). -/
theorem toWire_isSome_iff (sp : Bool) (w : TWire) :
    ((w.toWire sp).conv.isSome = true ↔ ∀ t, w.width = some t → intOK t = true) ∧
    (w.toWire sp).widthVal = (match w.width with
      | none => some none
      | some t => if intOK t then some (some (natOf t)) else none) := by
  refine ⟨?_, toWire_widthVal sp w⟩
  simp only [KV.Def.DWire.conv, Option.isSome_map, toWire_widthVal]
  cases hw : w.width with
  | none => simp
  | some t => by_cases h : intOK t = true <;> simp [h]

/-- text level of `wires_raises_iff`: `DefNet.wires` of a parsed net raises `ValueError` exactly when one of its wires — of any
wiring statement — has a second point AND a width token that is not plain digits -/
theorem wires_text_raises_iff (sp : Bool) (n : TNet) :
    netWiresR (n.routed sp) = .error "value" ↔
      ∃ w ∈ n.wiresT, (w.toWire sp).listed = true ∧ ∃ t, w.width = some t ∧ intOK t = false := by
  rw [wires_raises_iff]
  have key : ∀ w : TWire, (w.toWire sp).widthVal = none ↔ ∃ t, w.width = some t ∧ intOK t = false := by
    intro w
    rw [toWire_widthVal]
    cases hw : w.width with
    | none => simp
    | some t => cases h : intOK t <;> simp
  constructor
  · rintro ⟨dw, hm, hl, hv⟩
    simp only [TNet.routed, List.mem_map] at hm
    obtain ⟨w, hmw, rfl⟩ := hm
    exact ⟨w, hmw, hl, (key w).1 hv⟩
  · rintro ⟨w, hm, hl, ht⟩
    exact ⟨w.toWire sp, by simp only [TNet.routed, List.mem_map]; exact ⟨w, hm, rfl⟩, hl, (key w).2 ht⟩

/-- `dnet.routed` as the routing model receives it (always — no width token can prevent it): one record per wire of every
wiring statement, in order (index-aligned with `wiresT`), each the record of its wire -/
theorem routed_handover (sp : Bool) (n : TNet) :
    (n.routed sp).length = n.wiresT.length ∧
    ∀ i (hi : i < n.wiresT.length), (n.routed sp)[i]? = some ((n.wiresT[i]).toWire sp) := by
  unfold TNet.routed
  refine ⟨by simp, fun i hi => ?_⟩
  simp [List.getElem?_map, List.getElem?_eq_getElem hi]

/-- … hence the per-layer / per-type listings of the net are those of the concatenation (with `agg_wires_append`,
`agg_vias_append`): for two wiring statements the listing of the net is built from the wires of the first followed by the
wires of the second. -/
theorem routed_two_statements (sp : Bool) (name : Txt) (k1 k2 : Kw) (ws1 ws2 : List TWire) :
    TNet.routed sp ⟨name, [.wiring k1 ws1, .wiring k2 ws2]⟩ =
      TNet.routed sp ⟨name, [.wiring k1 ws1]⟩ ++ TNet.routed sp ⟨name, [.wiring k2 ws2]⟩ := by
  simp [TNet.routed, TNet.wiresT]

/-- the text-level link: reading the canonical text of a valid tree hands over exactly the records of the tree — so what
`wiring_*` / `routed_*` say about the tree is said about the parse of its text (`def_text_roundtrip`).  For texts the printer
does not produce the link is the sampled tie `defparse` (and the kernel-checked instances below). -/
theorem routed_text (f : DefFile) (h : f.valid = true) :
    (parseDef (printDef f)).map DefFile.netsRouted = some f.netsRouted := by
  rw [def_text_roundtrip f h]; rfl

/-- the reading of the tree before D35 (`setattr`: last `+ ROUTED` statement only) loses wires: the auditor's witness
(`+ ROUTED m1 .. + ROUTED m2 ..`: the m1 segment is gone) and a `+ FIXED` statement (never listed) -/
theorem wiring_last_only_loses :
    let w1 : TWire := ⟨t "m1", some (t "100"), [], .none, none, pt (some "0") (some "0"), [.pt (pt (some "50") none)]⟩
    let w2 : TWire := ⟨t "m2", some (t "100"), [], .none, none, pt (some "0") (some "0"), [.pt (pt none (some "70"))]⟩
    TNet.wiresTOld ⟨t "VDD", [.wiring .Routed [w1], .wiring .Routed [w2]]⟩ = [w2]
    ∧ TNet.wiresT ⟨t "VDD", [.wiring .Routed [w1], .wiring .Routed [w2]]⟩ = [w1, w2]
    ∧ TNet.wiresTOld ⟨t "VDD", [.wiring .Fixed [w1]]⟩ = []
    ∧ TNet.wiresT ⟨t "VDD", [.wiring .Fixed [w1]]⟩ = [w1] := by decide +kernel

/-- outcome of `DefNet.wires` (type ascription helper for the examples) -/
abbrev WRes := Res (Dict (Option Nat × List Pt3))
def WRes.ok (d : Dict (Option Nat × List Pt3)) : WRes := Res.ok d
def WRes.error (e : String) : WRes := Res.error e

/-- `int("1.5")` raises in `DefNet.wires` (the wire is listed): `ValueError`, no made-up width (the first totalisation gave 105);
`15` is converted -/
example : netWiresR [TWire.toWire true ⟨t "m1", some (t "1.5"), [], .none, none, pt (some "0") (some "0"), [.pt (pt (some "50") none)]⟩]
      = WRes.error "value"
    ∧ netWiresR [TWire.toWire true ⟨t "m1", some (t "15"), [], .none, none, pt (some "0") (some "0"), [.pt (pt (some "50") none)]⟩]
      = WRes.ok [("m1", [(some 15, [⟨0, 0, none⟩, ⟨50, 0, none⟩])])] := by decide +kernel

/-- the auditor's witness (audit 2, finding 5), from the TEXT: the width `1.5` sits on a wire without second point, so the real
`wires` AND `vias` return data (ran the real code: `{'m2': [(7, [(1,1),(2,1)])]}`, `{'v1': [(0,0,'N')], 'v2': [(2,1,'N'),(5,1,'N')]}`)
— the model now says the same (it said `none`) -/
example : (parseDef "DESIGN t ; SPECIALNETS 1 ; - VDD + ROUTED m1 1.5 ( 0 0 ) v1 NEW m2 7 ( 1 1 ) ( 2 * ) v2 DO 2 BY 1 STEP 3 0 ; END SPECIALNETS END DESIGN").map
      (fun f => f.netsRouted.map fun r => (netWiresR r.2.2, netViasR r.2.2))
    = some [(WRes.ok [("m2", [(some 7, [⟨1, 1, none⟩, ⟨2, 1, none⟩])])],
             some [("v1", [(0, 0, "N")]), ("v2", [(2, 1, "N"), (5, 1, "N")])])] := by decide +kernel

/-- two wiring statements in the TEXT (the case of audit finding 4 / D35), read by the text model: both wire lists, in file
order; a `*` in a first point (`( * 5 )`, accepted by the grammar, not DEF): outside the domain of `vias` (`None` in the tuple) -/
example : (parseDef "DESIGN t ; SPECIALNETS 1 ; - VDD + ROUTED m1 100 ( 0 0 ) ( 50 * ) + FIXED m2 100 ( 0 0 ) ( * 70 ) v1 ; END SPECIALNETS END DESIGN").map
      (fun f => f.netsRouted.map fun r => (netWiresR r.2.2, netViasR r.2.2))
    = some [(WRes.ok [("m1", [(some 100, [⟨0, 0, none⟩, ⟨50, 0, none⟩])]), ("m2", [(some 100, [⟨0, 0, none⟩, ⟨0, 70, none⟩])])],
             some [("v1", [(0, 70, "N")])])]
  ∧ (parseDef "DESIGN t ; SPECIALNETS 1 ; - VDD + ROUTED m1 100 ( * 5 ) v1 ; END SPECIALNETS END DESIGN").map
      (fun f => f.netsRouted.map fun r => (netWiresR r.2.2, netViasR r.2.2)) = some [(WRes.ok [], none)]
  ∧ (parseDef "DESIGN t ; SPECIALNETS 1 ; - VDD + ROUTED m1 100 ( * 5 ) ( 7 * ) v1 ; END SPECIALNETS END DESIGN").map
      (fun f => f.netsRouted.map fun r => (netWiresR r.2.2, netViasR r.2.2))
    = some [(WRes.error "start", some [("v1", [(7, 5, "N")])])] :=
  ⟨by decide +kernel, by decide +kernel, by decide +kernel⟩

/-- regular net `n1` of `exText` (`+ ROUTED` with two wires, `+ USE`, `+ NOSHIELD` with one wire): all three wires are
handed over in file order, and what the routing theorems above say about them (`*` resolved, third value carried, vias at
the last point; the via `v2` of the NOSHIELD wire is listed behind that of the ROUTED wire) -/
def exRouted : Option (List DWire) := (exText.netsRouted.find? (·.2.1 == t "n1")).map (·.2.2)
example : exRouted.map (·.map (·.layer)) = some ["metal1", "metal2", "m3"]
    ∧ exRouted.map (fun ws => (ws.headD default).geom.wirePoints.map (fun p => (p.x, p.y))) = some [(0, 0), (5, 0), (5, 0)]
    ∧ exRouted.map netViasR
      = some (some [("via1_0", [(5, 0, "FS")]), ("v3", [(5, 0, "N")]), ("v4", [(5, 0, "N")]), ("v2", [(1, 1, "N"), (1, 1, "N")])]) := by
  decide +kernel

/-- the reader on texts the printer does not produce: no blank before `;` after a NUMBER, a comment, `(10` after a point
is a via name (`(` is folded into `ID`), `NEWVIA` is a name, an orientation needs white space behind it -/
example : parseDef "DESIGN t ; VIAS 1; END VIAS # c\nEND DESIGN" = some ⟨none, [.design (t "t") [.vias (t "1") []]]⟩ := by
  decide +kernel
example : parseDef "DESIGN t ; NETS 1 ; - n + ROUTED m1 ( 0 0 ) (10 NEWVIA N ; END NETS END DESIGN"
    = some ⟨none, [.design (t "t") [.nets (t "1") [⟨t "n", [.wiring .Routed
        [⟨t "m1", none, [], .none, none, pt (some "0") (some "0"), [.via (t "(10") none, .via (t "NEWVIA") (some (t "N"))]⟩]]⟩]]]⟩ := by
  decide +kernel
example : parseDef "DESIGN t ; NETS 1 ; - n + ROUTED m1 ( 0 0 ) v N; END NETS END DESIGN" = none := by decide +kernel
/-- `int("1.5")` raises in the transformer; the grammar accepts the text -/
example : parseDef "DESIGN t ; UNITS DISTANCE MICRONS 1.5 ; END DESIGN" = none
    ∧ (parseTree "DESIGN t ; UNITS DISTANCE MICRONS 1.5 ; END DESIGN".toList).isSome = true := by decide +kernel
end text

end KV.C20
