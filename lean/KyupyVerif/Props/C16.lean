import KyupyVerif.Model.Sig
import KyupyVerif.Model.Callback
import KyupyVerif.Proofs.Consistent
import KyupyVerif.Proofs.AllCircCb
import KyupyVerif.Proofs.AllCircStrip
import KyupyVerif.Proofs.AllCircDemo
/-! # C16 — the fault-injection callback sees and controls every evaluated signal

Model (M, `Model/Callback.lean`): propagation with a callback = `execCb nl`: after every op row the freshly computed value of its
output signal is stored, and — exactly as `LogicSim.c_prop` does (`if o0_idx < len(self.circuit.lines)`) — ONLY when the output
index is a line (`op.out < nl`, `nl = len(circuit.lines)`) it is passed through `cb out value` and the result is what is stored
(the real callback mutates a writable view of the signal's memory in place). Rows of nodes with an unconnected output write the
scratch slot and are not reported. The call log `cbLog nl` has one entry per LINE row, in row order.
**Tie (audit finding 9):** driver command `cblog` (Drv/Callback.lean) runs `cbLogA`/`execCbA` (= `cbLog`/`execCb` by
`cbLogA_eq`/`execCbA_eq`) on the rows of the `SimOps` model of the real circuit; harness/c16.py compares the line sequence AND the
values handed over with the real recorded calls (recording callback and overwriting callback, m = 2, 4, 8, strip on/off) and the
final port values of the overwritten run. The per-op semantics of the callback chains themselves is regenerated from the code
(C01: `sem2c`, C02: m=8 chain with callback).

**Theorem, per program:** `cb_once_in_order` (the logged identities are the outputs of the LINE rows, in order), `cb_identity`,
`cb_identity_sees_plain_values`, `cb_log_entry`, `cb_override`, `cb_force_is_source`, `cb_upstream_unaffected`, `cb_value_sticks`,
`cb_frame` (a callback that rewrites only `x` leaves every signal outside `fanout x ops` — also those scheduled LATER — as in the
plain run) — every op program, any value domain. `cb_force_is_source` and the `…force…` theorems carry the hypothesis `x < nl`
(the forced signal is a line: for any other index the real code never invokes the callback); the harness forces lines only and
evaluates it (tag `force-hyp:line`).
**Theorem, per NETLIST** (part "ALL circuits"): for every well-formed netlist (`Net.wfB`), every topological order
(`orderOKB`), `nl = net.lines.size` and the op program of the `SimOps` model: `callback_all_circuits` — one call per scheduled LINE,
in schedule order, no line twice, the value handed over is the gate function of the FINAL operand values, the result is THE solution of
the gate equations followed by the callback; `callback_force_all_circuits`, `callback_force_spec_all_circuits`,
`callback_force_three_logics` — forcing a line = solving the system in which the equation of that line is replaced by the
constant (2-valued callback path, 4-, 8-valued dispatch against the documented algebra); `callback_upstream_all_circuits` —
everything scheduled before the overridden line is as in the run without callback, the callback sees the plain value there;
`callback_force_frame` — every line outside the fan-out of the overridden line (scheduled earlier OR later) keeps the plain value;
`…_stripped` — the same for the `strip_forks` schedule (fork rows dropped, operands read through the stems; well-orderedness
from `C08.simops_program_facts`; hypotheses `forksOKB`, `readsDrivenB`). All are instances of `callback_wellordered`,
`callback_force_wellordered`, `callback_force_spec_wellordered`, `callback_upstream_wellordered`, `cb_frame`.
**Correspondence (not theorem):** that `LogicSim.c_prop(inject_cb=…)` produces the call log and results of `cbLog`/`execCb`
(driver `cblog`, harness/c16.py) and that `SimOps` produces the rows of the model (C01). -/
namespace KV.C16
open KV KV.Sig

/-- exactly once for every evaluated LINE (rows writing the scratch slot are not reported), in evaluation order, with that
    line's identity -/
theorem cb_once_in_order {α} (nl : Nat) (sem : Op → List α → α) (cb : Nat → α → α) (ops : List Op) (env : Nat → α) :
    (cbLog nl sem cb ops env).map (·.1) = (ops.map (·.out)).filter (· < nl) := by
  induction ops generalizing env with
  | nil => rfl
  | cons op ops ih => by_cases h : op.out < nl <;> simp [cbLog, h, ih]

/-- overwriting is equivalent to simulating the program in which the semantics of the ops writing a line is
    post-composed with the overwrite: every later reader of that signal sees the overwritten value -/
theorem cb_override {α} (nl : Nat) (sem : Op → List α → α) (cb : Nat → α → α) (ops : List Op) (env : Nat → α) :
    execCb nl sem cb ops env = execG (cbSem nl sem cb) ops env := rfl

theorem cbSem_id {α} (nl : Nat) (sem : Op → List α → α) : cbSem nl sem (fun _ v => v) = sem := by
  funext op xs; simp [cbSem]

/-- leaving the values untouched changes nothing -/
theorem cb_identity {α} (nl : Nat) (sem : Op → List α → α) (ops : List Op) (env : Nat → α) :
    execCb nl sem (fun _ v => v) ops env = execG sem ops env := by
  rw [cb_override, cbSem_id]

/-- every program, every callback: the invocation for a line row `op` (there are as many earlier invocations as line rows before
    it) receives the identity of the row's output and the value the row computes from the state left by the rows before it
    (overrides of earlier invocations included) -/
theorem cb_log_entry {α} (nl : Nat) (sem : Op → List α → α) (cb : Nat → α → α) (ops : List Op) (env : Nat → α) :
    ∀ pre op post, ops = pre ++ op :: post → op.out < nl →
      (cbLog nl sem cb ops env)[(pre.filter (·.out < nl)).length]? =
        some (op.out, sem op (op.ins.map (execCb nl sem cb pre env))) := by
  intro pre
  induction pre generalizing ops env with
  | nil => intro op post h hl; subst h; simp [cbLog, execCb, hl]
  | cons p pre ih =>
    intro op post h hl; subst h
    have := ih (ops := pre ++ op :: post) (env := execCbOp nl sem cb env p) op post rfl hl
    by_cases hp : p.out < nl
    · simp only [List.cons_append, cbLog, hp, if_true, List.filter_cons, decide_true, List.length_cons,
        List.getElem?_cons_succ]
      rw [this]; rfl
    · simp only [List.cons_append, cbLog, hp, if_false, List.filter_cons, decide_false, Bool.false_eq_true]
      rw [this]; rfl

/-- … and with the identity callback each invocation sees the value the plain simulation computes -/
theorem cb_identity_sees_plain_values {α} (nl : Nat) (sem : Op → List α → α) (ops : List Op) (env : Nat → α) :
    ∀ pre op post, ops = pre ++ op :: post → op.out < nl →
      (cbLog nl sem (fun _ v => v) ops env)[(pre.filter (·.out < nl)).length]? =
        some (op.out, sem op (op.ins.map (execG sem pre env))) := by
  intro pre op post h hl
  rw [cb_log_entry nl sem _ ops env pre op post h hl, cb_identity]

theorem cbSem_force {α} (nl : Nat) (sem : Op → List α → α) (x : Nat) (hx : x < nl) (c : α) :
    cbSem nl sem (fun s v => if s = x then c else v) = fun op xs => if op.out = x then c else sem op xs := by
  funext op xs
  by_cases h2 : op.out = x
  · have h1 : op.out < nl := h2 ▸ hx
    simp [cbSem, h2, hx]
  · by_cases h1 : op.out < nl <;> simp [cbSem, h1, h2]

/-- forcing LINE `x` to the value `c` is the same as simulating a circuit in which the op driving `x`
    is replaced by a source of `c` (here: an op whose semantics ignores its operands) -/
theorem cb_force_is_source {α} (nl : Nat) (sem : Op → List α → α) (x : Nat) (hx : x < nl) (c : α) (ops : List Op)
    (env : Nat → α) :
    execCb nl sem (fun s v => if s = x then c else v) ops env =
      execG (fun op xs => if op.out = x then c else sem op xs) ops env := by
  rw [cb_override, cbSem_force nl sem x hx]

/-- nothing upstream changes: the ops evaluated before the first op that writes the injected signal compute
    exactly what they compute without a callback -/
theorem cb_upstream_unaffected {α} (nl : Nat) (sem : Op → List α → α) (x : Nat) (f : α → α) (pre : List Op) (env : Nat → α)
    (hpre : ∀ p ∈ pre, p.out ≠ x) :
    execCb nl sem (fun s v => if s = x then f v else v) pre env = execG sem pre env := by
  induction pre generalizing env with
  | nil => rfl
  | cons p pre ih =>
    simp only [execCb, execG, List.foldl_cons]
    have hp : p.out ≠ x := hpre p List.mem_cons_self
    have : execCbOp nl sem (fun s v => if s = x then f v else v) env p = execOpG sem env p := by
      funext j; simp [execCbOp, execOpG, cbSem, hp]
    rw [this]
    exact ih _ (fun q hq => hpre q (List.mem_cons_of_mem _ hq))

/-- every downstream result reflects the overwrite: the injected signal itself carries the overwritten value at
    the end (when no later op rewrites it) -/
theorem cb_value_sticks {α} (nl : Nat) (sem : Op → List α → α) (cb : Nat → α → α) (pre post : List Op) (o : Op) (env : Nat → α)
    (hout : ∀ p ∈ post, p.out ≠ o.out) :
    execCb nl sem cb (pre ++ o :: post) env o.out =
      cbSem nl sem cb o (o.ins.map (execCb nl sem cb pre env)) := by
  have h1 : execCb nl sem cb (pre ++ o :: post) env =
      execCb nl sem cb post (execCbOp nl sem cb (execCb nl sem cb pre env) o) := by
    simp [execCb, List.foldl_append]
  rw [h1]
  have frame : ∀ (l : List Op) (e : Nat → α), (∀ p ∈ l, p.out ≠ o.out) → execCb nl sem cb l e o.out = e o.out := by
    intro l
    induction l with
    | nil => intro e _; rfl
    | cons p l ih =>
      intro e h
      simp only [execCb, List.foldl_cons]
      have := ih (execCbOp nl sem cb e p) (fun q hq => h q (List.mem_cons_of_mem _ hq))
      simp only [execCb] at this
      rw [this]
      have hp := h p List.mem_cons_self
      simp [execCbOp, upd, Ne.symm hp]
  rw [frame post _ hout]
  simp [execCbOp, upd]

/-! ### frame outside the fan-out -/

theorem fanoutStep_mem {t : List Nat} {op : Op} {x : Nat} (h : x ∈ t) : x ∈ fanoutStep t op := by
  unfold fanoutStep; split
  · exact List.mem_cons_of_mem _ h
  · exact h

theorem frame_aux {α} (sem sem' : Op → List α → α) (x : Nat) (hs : ∀ op xs, op.out ≠ x → sem' op xs = sem op xs)
    (ops : List Op) (t : List Nat) (hx : x ∈ t) (e1 e2 : Nat → α) (h : ∀ y, y ∉ t → e1 y = e2 y) :
    ∀ y, y ∉ ops.foldl fanoutStep t → execG sem' ops e1 y = execG sem ops e2 y := by
  induction ops generalizing t e1 e2 with
  | nil => exact h
  | cons op ops ih =>
    simp only [List.foldl_cons, execG]
    apply ih (fanoutStep t op) (fanoutStep_mem hx)
    intro y hy
    unfold fanoutStep at hy
    split at hy
    · rw [List.mem_cons, not_or] at hy
      simp only [execOpG, upd, hy.1, if_false]
      exact h y hy.2
    · rename_i hany
      have hins : ∀ i ∈ op.ins, i ∉ t := by
        intro i hi hit
        apply hany
        rw [List.any_eq_true]
        exact ⟨i, hi, by simpa using hit⟩
      simp only [execOpG, upd]
      split
      · rename_i hyo
        have hox : op.out ≠ x := by
          intro hox; apply hy; rw [hyo, hox]; exact hx
        rw [hs op _ hox]
        congr 1
        apply List.map_congr_left
        intro i hi
        exact h i (hins i hi)
      · exact h y hy

/-- **frame**: a callback that rewrites only signal `x` leaves every signal outside the fan-out of `x` (`fanout x ops`: `x`
    and, in row order, the outputs of rows reading an influenced signal) exactly as in the run without callback — in
    particular signals computed by rows AFTER the row of `x` that do not depend on it. Every program. -/
theorem cb_frame {α} (nl : Nat) (sem : Op → List α → α) (x : Nat) (cb : Nat → α → α) (hcb : ∀ s v, s ≠ x → cb s v = v)
    (ops : List Op) (env : Nat → α) :
    ∀ y, y ∉ fanout x ops → execCb nl sem cb ops env y = execG sem ops env y := by
  intro y hy
  rw [cb_override]
  refine frame_aux sem (cbSem nl sem cb) x ?_ ops [x] (List.mem_singleton.mpr rfl) env env (fun _ _ => rfl) y hy
  intro op xs hox
  unfold cbSem
  split
  · exact hcb _ _ hox
  · rfl

/-! ## every well-ordered program

`WOJ J ops`: no row rewrites the (non-scratch) output of an earlier row or writes an operand of an earlier row, no row
reads the scratch slot or its own output (`Proofs/Solve.lean`). Proved for the program of every netlist below.
`hJ`: no line is the scratch slot. -/

/-- call log and meaning of a callback: (a) one invocation per LINE row, in program order, with the identity of the row's output
    line; (b) no line is passed twice; (c) the value passed for a row is the row's
    function applied to the FINAL values of its operands — overrides made upstream are seen, nothing downstream has
    happened yet; (d) the result of the run is THE solution of the equation system in which every line's equation is followed by
    the callback: it solves it and every solution equals it on every signal except the scratch slot. -/
theorem callback_wellordered {α} (J : Nat → Bool) (nl : Nat) (hJ : ∀ x, x < nl → J x = false) (ops : List Op) (hw : WOJ J ops)
    (sem : Op → List α → α) (cb : Nat → α → α) (env : Nat → α) :
    (cbLog nl sem cb ops env).map (·.1) = (ops.map (·.out)).filter (· < nl) ∧
    ((cbLog nl sem cb ops env).map (·.1)).Nodup ∧
    (∀ (pre post : List Op) (o : Op), ops = pre ++ o :: post → o.out < nl →
      (cbLog nl sem cb ops env)[(pre.filter (·.out < nl)).length]? =
        some (o.out, sem o (o.ins.map (execCb nl sem cb ops env)))) ∧
    SolvesJ J (cbSem nl sem cb) ops env (execCb nl sem cb ops env) ∧
    ∀ val, SolvesJ J (cbSem nl sem cb) ops env val →
      ∀ x, J x = false → val x = execCb nl sem cb ops env x := by
  refine ⟨cb_once_in_order nl sem cb ops env, ?_, ?_, execG_solution J _ ops hw env,
    fun val hs => solution_uniqueJ J _ ops hw env val hs⟩
  · rw [cb_once_in_order]
    have hnd := woj_outs_nodup hw
    have hsub : (ops.map (·.out)).filter (· < nl) = ((ops.map (·.out)).filter (fun x => !J x)).filter (· < nl) := by
      rw [List.filter_filter]
      apply List.filter_congr
      intro x _
      by_cases hx : x < nl <;> simp [hx, hJ]
    rw [hsub]
    exact hnd.filter _
  · intro pre post o hsplit hl
    rw [cb_log_entry nl sem cb ops env pre o post hsplit hl]
    have hw' : WOJ J (pre ++ o :: post) := hsplit ▸ hw
    have hfin := operands_final J (cbSem nl sem cb) pre post o env hw'
    rw [← hsplit] at hfin
    show some (o.out, sem o (o.ins.map (execG (cbSem nl sem cb) pre env))) = _
    rw [hfin]
    rfl

/-- override = source replacement: forcing line `x` to `c` yields THE solution of the system in which the equation of `x` is
    replaced by the constant `c` (all other equations unchanged) -/
theorem callback_force_wellordered {α} (J : Nat → Bool) (nl : Nat) (ops : List Op) (hw : WOJ J ops)
    (sem : Op → List α → α) (x : Nat) (hx : x < nl) (c : α) (env : Nat → α) :
    SolvesJ J (fun op xs => if op.out = x then c else sem op xs) ops env
      (execCb nl sem (fun s v => if s = x then c else v) ops env) ∧
    ∀ val, SolvesJ J (fun op xs => if op.out = x then c else sem op xs) ops env val →
      ∀ y, J y = false → val y = execCb nl sem (fun s v => if s = x then c else v) ops env y := by
  rw [cb_force_is_source nl sem x hx]
  exact ⟨execG_solution J _ ops hw env, fun val hs => solution_uniqueJ J _ ops hw env val hs⟩

/-- the same against the SPECIFIED gate functions, for a dispatch that agrees with the specification on the (known) op
    codes of the program -/
theorem callback_force_spec_wellordered {α} (J : Nat → Bool) (nl : Nat) (ops : List Op) (hw : WOJ J ops) (hk : KnownProg ops)
    (sem spec : Nat → List α → α) (heq : ∀ code, KnownCode code → ∀ xs, sem code xs = spec code xs)
    (x : Nat) (hx : x < nl) (c : α) (env : Nat → α) :
    SolvesJ J (fun op xs => if op.out = x then c else spec op.code xs) ops env
      (execCb nl (fun op => sem op.code) (fun s v => if s = x then c else v) ops env) ∧
    ∀ val, SolvesJ J (fun op xs => if op.out = x then c else spec op.code xs) ops env val →
      ∀ y, J y = false → val y = execCb nl (fun op => sem op.code) (fun s v => if s = x then c else v) ops env y := by
  rw [cb_force_is_source nl _ x hx]
  exact sim_is_spec_solution J _ _ ops hw
    (fun op hop xs => by
      show (if op.out = x then c else sem op.code xs) = (if op.out = x then c else spec op.code xs)
      rw [heq op.code (hk op hop) xs]) env

/-- upstream frame: a callback that rewrites only line `x` (to any function `f` of the computed value) (a) leaves every
    signal whose row stands before the row of `x` — and every signal no row writes — exactly as in the run without callback;
    (b) is handed, at `x`, the value the plain simulation computes for `x`; (c) `x` ends up carrying `f` of that value.
    `pre`/`post` = the rows before / after the row `o` that writes `x`. -/
theorem callback_upstream_wellordered {α} (J : Nat → Bool) (nl : Nat) (ops : List Op) (hw : WOJ J ops)
    (sem : Op → List α → α) (x : Nat) (hx : J x = false) (hxl : x < nl) (f : α → α) (env : Nat → α) (pre post : List Op) (o : Op)
    (hsplit : ops = pre ++ o :: post) (hox : o.out = x) :
    (∀ y, (∀ p ∈ o :: post, p.out ≠ y) →
      execCb nl sem (fun s v => if s = x then f v else v) ops env y = execG sem ops env y) ∧
    (cbLog nl sem (fun s v => if s = x then f v else v) ops env)[(pre.filter (·.out < nl)).length]? =
      some (x, execG sem ops env x) ∧
    execCb nl sem (fun s v => if s = x then f v else v) ops env x = f (execG sem ops env x) := by
  have hw' : WOJ J (pre ++ o :: post) := hsplit ▸ hw
  have hjo : J o.out = false := hox ▸ hx
  have hol : o.out < nl := hox ▸ hxl
  obtain ⟨hpost, hpre⟩ := (woj_at_row hw').2 hjo
  have hprex : ∀ p ∈ pre, p.out ≠ x := hox ▸ hpre
  have hup := cb_upstream_unaffected nl sem x f pre env hprex
  have hplain : execG sem ops env x = sem o (o.ins.map (execG sem pre env)) := by
    have hmem : o ∈ ops := by rw [hsplit]; exact List.mem_append_right _ List.mem_cons_self
    have h1 := execG_solvesJ J sem ops hw env o hmem hjo
    rw [hox] at h1
    rw [h1, operands_final J sem pre post o env hw', ← hsplit]
  refine ⟨?_, ?_, ?_⟩
  · intro y hy
    rw [cb_override, hsplit, execG_before _ pre (o :: post) env y hy, execG_before sem pre (o :: post) env y hy]
    exact congrFun hup y
  · have he := cb_log_entry nl sem (fun s v => if s = x then f v else v) ops env pre o post hsplit hol
    rw [he, hup, hox, hplain]
  · subst hox
    have hs := cb_value_sticks nl sem (fun s v => if s = o.out then f v else v) pre post o env hpost
    rw [hplain, hsplit, hs, hup]
    simp [cbSem, hol]

/-! ## ALL circuits

The statements start from a NETLIST: every well-formed `net` (`Net.wfB`), every topological `order` (`orderOKB`), the op
program `genOps tbl net order false` of the `SimOps` model (equal to the real `ops` by exact correspondence, C01), `nl` = the
number of lines of the netlist; any value domain `α` and op semantics `sem` (all three logics: `callback_force_three_logics`),
any callback. With `strip_forks` (`…_stripped`; domain hypotheses `forksOKB`, `readsDrivenB` as in C06/C08): the schedule without
the fork rows, operands resolved through the stems whose memory the branches share — the stripped branches are not evaluated,
hence not reported. -/

/-- a line is never the scratch slot -/
theorem line_not_scratch (net : Net) : ∀ x, x < net.lines.size → Jt net x = false := by
  intro x hx
  simp only [Jt, Net.idx, beq_eq_false_iff_ne, ne_eq]
  omega

/-- **call log and meaning of a callback, every netlist** (clauses (a)–(d) of `callback_wellordered`): one invocation per
    scheduled line, in schedule order; no line twice; the value handed over is the gate function of the FINAL operand values;
    the run computes THE solution of the netlist's gate equations followed by the callback -/
theorem callback_all_circuits {α} (tbl : List PrefixRow) (net : Net) (order : List Nat) (hwf : net.wfB = true)
    (ho : orderOKB net order = true) (sem : Op → List α → α) (cb : Nat → α → α) (env : Nat → α) :
    let ops := (genOps tbl net order false).map OpRow.toOp
    let nl := net.lines.size
    (cbLog nl sem cb ops env).map (·.1) = (ops.map (·.out)).filter (· < nl) ∧
    ((cbLog nl sem cb ops env).map (·.1)).Nodup ∧
    (∀ (pre post : List Op) (o : Op), ops = pre ++ o :: post → o.out < nl →
      (cbLog nl sem cb ops env)[(pre.filter (·.out < nl)).length]? =
        some (o.out, sem o (o.ins.map (execCb nl sem cb ops env)))) ∧
    SolvesJ (Jt net) (cbSem nl sem cb) ops env (execCb nl sem cb ops env) ∧
    ∀ val, SolvesJ (Jt net) (cbSem nl sem cb) ops env val →
      ∀ x, Jt net x = false → val x = execCb nl sem cb ops env x :=
  callback_wellordered (Jt net) _ (line_not_scratch net) _ (genOps_WOJ tbl net order false hwf ho) sem cb env

/-- … with `strip_forks` -/
theorem callback_all_circuits_stripped {α} (tbl : List PrefixRow) (net : Net) (order : List Nat) (hwf : net.wfB = true)
    (ho : orderOKB net order = true) (hf : forksOKB net order = true) (hr : readsDrivenB tbl net order = true)
    (sem : Op → List α → α) (cb : Nat → α → α) (env : Nat → α) :
    let ops := (genOps tbl net order true).map (fun r => (⟨r.lut, r.out, r.ins.map (viaStem (stemsOf net true))⟩ : Op))
    let nl := net.lines.size
    (cbLog nl sem cb ops env).map (·.1) = (ops.map (·.out)).filter (· < nl) ∧
    ((cbLog nl sem cb ops env).map (·.1)).Nodup ∧
    (∀ (pre post : List Op) (o : Op), ops = pre ++ o :: post → o.out < nl →
      (cbLog nl sem cb ops env)[(pre.filter (·.out < nl)).length]? =
        some (o.out, sem o (o.ins.map (execCb nl sem cb ops env)))) ∧
    SolvesJ (Jt net) (cbSem nl sem cb) ops env (execCb nl sem cb ops env) ∧
    ∀ val, SolvesJ (Jt net) (cbSem nl sem cb) ops env val →
      ∀ x, Jt net x = false → val x = execCb nl sem cb ops env x :=
  callback_wellordered (Jt net) _ (line_not_scratch net) _ (simops_sig_WOJ tbl net order true hwf ho (fun _ => hf) hr) sem cb env

/-- **override = source replacement, on the netlist**: forcing line `x` to `c` makes every line carry its value in THE
    solution of the gate-equation system in which the equation of `x` is replaced by the constant `c` (all other equations
    unchanged) — every netlist, every order, any value domain. -/
theorem callback_force_all_circuits {α} (tbl : List PrefixRow) (net : Net) (order : List Nat) (hwf : net.wfB = true)
    (ho : orderOKB net order = true) (sem : Op → List α → α) (x : Nat) (hx : x < net.lines.size) (c : α) (env : Nat → α) :
    let ops := (genOps tbl net order false).map OpRow.toOp
    let nl := net.lines.size
    SolvesJ (Jt net) (fun op xs => if op.out = x then c else sem op xs) ops env
      (execCb nl sem (fun s v => if s = x then c else v) ops env) ∧
    ∀ val, SolvesJ (Jt net) (fun op xs => if op.out = x then c else sem op xs) ops env val →
      ∀ y, Jt net y = false → val y = execCb nl sem (fun s v => if s = x then c else v) ops env y :=
  callback_force_wellordered (Jt net) _ _ (genOps_WOJ tbl net order false hwf ho) sem x hx c env

/-- the same against the SPECIFIED gate functions, for a dispatch that agrees with the specification on known op codes -/
theorem callback_force_spec_all_circuits {α} (sem spec : Nat → List α → α)
    (heq : ∀ code, KnownCode code → ∀ xs, sem code xs = spec code xs)
    (net : Net) (order : List Nat) (hwf : net.wfB = true) (ho : orderOKB net order = true) (x : Nat)
    (hx : x < net.lines.size) (c : α) (env : Nat → α) :
    let ops := (genOps Gen.kindPrefixes net order false).map OpRow.toOp
    let nl := net.lines.size
    SolvesJ (Jt net) (fun op xs => if op.out = x then c else spec op.code xs) ops env
      (execCb nl (fun op => sem op.code) (fun s v => if s = x then c else v) ops env) ∧
    ∀ val, SolvesJ (Jt net) (fun op xs => if op.out = x then c else spec op.code xs) ops env val →
      ∀ y, Jt net y = false → val y = execCb nl (fun op => sem op.code) (fun s v => if s = x then c else v) ops env y :=
  callback_force_spec_wellordered (Jt net) _ _ (genOps_WOJ Gen.kindPrefixes net order false hwf ho)
    (genOps_known net order false) sem spec heq x hx c env

/-- … with `strip_forks` -/
theorem callback_force_spec_all_circuits_stripped {α} (sem spec : Nat → List α → α)
    (heq : ∀ code, KnownCode code → ∀ xs, sem code xs = spec code xs)
    (net : Net) (order : List Nat) (hwf : net.wfB = true) (ho : orderOKB net order = true)
    (hf : forksOKB net order = true) (hr : readsDrivenB Gen.kindPrefixes net order = true) (x : Nat)
    (hx : x < net.lines.size) (c : α) (env : Nat → α) :
    let ops := (genOps Gen.kindPrefixes net order true).map
      (fun r => (⟨r.lut, r.out, r.ins.map (viaStem (stemsOf net true))⟩ : Op))
    let nl := net.lines.size
    SolvesJ (Jt net) (fun op xs => if op.out = x then c else spec op.code xs) ops env
      (execCb nl (fun op => sem op.code) (fun s v => if s = x then c else v) ops env) ∧
    ∀ val, SolvesJ (Jt net) (fun op xs => if op.out = x then c else spec op.code xs) ops env val →
      ∀ y, Jt net y = false → val y = execCb nl (fun op => sem op.code) (fun s v => if s = x then c else v) ops env y :=
  callback_force_spec_wellordered (Jt net) _ _ (simops_sig_WOJ Gen.kindPrefixes net order true hwf ho (fun _ => hf) hr)
    (genOps_known_map net order true _ (fun _ => rfl)) sem spec heq x hx c env

/-- **in all three logics** (real dispatch chains: 2-valued callback path `sem2c`, 4-valued, 8-valued): forcing a line makes
    the run compute the solution of the documented gate equations with the equation of that line replaced by the constant -/
theorem callback_force_three_logics (net : Net) (order : List Nat) (hwf : net.wfB = true)
    (ho : orderOKB net order = true) (x : Nat) (hx : x < net.lines.size) :
    let ops := (genOps Gen.kindPrefixes net order false).map OpRow.toOp
    let nl := net.lines.size
    (∀ (c : Bool) (env val : Nat → Bool),
      SolvesJ (Jt net) (fun op xs => if op.out = x then c else specL2 op.code xs) ops env val →
      ∀ y, Jt net y = false → execCb nl (fun op => semL2c op.code) (fun s v => if s = x then c else v) ops env y = val y) ∧
    (∀ (c : V2) (env val : Nat → V2),
      SolvesJ (Jt net) (fun op xs => if op.out = x then c else specL4 op.code xs) ops env val →
      ∀ y, Jt net y = false → execCb nl (fun op => semL4 op.code) (fun s v => if s = x then c else v) ops env y = val y) ∧
    (∀ (c : V3) (env val : Nat → V3),
      SolvesJ (Jt net) (fun op xs => if op.out = x then c else specL8 op.code xs) ops env val →
      ∀ y, Jt net y = false → execCb nl (fun op => semL8 op.code) (fun s v => if s = x then c else v) ops env y = val y) :=
  ⟨fun c env val hs y hy => ((callback_force_spec_all_circuits semL2c specL2 (fun _ h xs => semL2c_eq_spec h xs)
      net order hwf ho x hx c env).2 val hs y hy).symm,
   fun c env val hs y hy => ((callback_force_spec_all_circuits semL4 specL4 (fun _ h xs => semL4_eq_spec h xs)
      net order hwf ho x hx c env).2 val hs y hy).symm,
   fun c env val hs y hy => ((callback_force_spec_all_circuits semL8 specL8 (fun _ h xs => semL8_eq_spec h xs)
      net order hwf ho x hx c env).2 val hs y hy).symm⟩

/-- **upstream frame, on the netlist** (clauses (a)–(c) of `callback_upstream_wellordered`): everything scheduled before the
    row of the overridden line `x` is as in the run without callback; the callback is handed the plain value at `x`; `x` ends
    up carrying `f` of it -/
theorem callback_upstream_all_circuits {α} (tbl : List PrefixRow) (net : Net) (order : List Nat) (hwf : net.wfB = true)
    (ho : orderOKB net order = true) (sem : Op → List α → α) (x : Nat) (hx : x < net.lines.size) (f : α → α)
    (env : Nat → α) (pre post : List Op) (o : Op)
    (hsplit : (genOps tbl net order false).map OpRow.toOp = pre ++ o :: post) (hox : o.out = x) :
    let ops := (genOps tbl net order false).map OpRow.toOp
    let nl := net.lines.size
    let cb : Nat → α → α := fun s v => if s = x then f v else v
    (∀ y, (∀ p ∈ o :: post, p.out ≠ y) → execCb nl sem cb ops env y = execG sem ops env y) ∧
    (cbLog nl sem cb ops env)[(pre.filter (·.out < nl)).length]? = some (x, execG sem ops env x) ∧
    execCb nl sem cb ops env x = f (execG sem ops env x) :=
  callback_upstream_wellordered (Jt net) _ _ (genOps_WOJ tbl net order false hwf ho) sem x (line_not_scratch net x hx) hx f env
    pre post o hsplit hox

/-- … with `strip_forks` -/
theorem callback_upstream_all_circuits_stripped {α} (tbl : List PrefixRow) (net : Net) (order : List Nat)
    (hwf : net.wfB = true) (ho : orderOKB net order = true) (hf : forksOKB net order = true)
    (hr : readsDrivenB tbl net order = true) (sem : Op → List α → α) (x : Nat) (hx : x < net.lines.size) (f : α → α)
    (env : Nat → α) (pre post : List Op) (o : Op)
    (hsplit : (genOps tbl net order true).map (fun r => (⟨r.lut, r.out, r.ins.map (viaStem (stemsOf net true))⟩ : Op))
      = pre ++ o :: post) (hox : o.out = x) :
    let ops := (genOps tbl net order true).map (fun r => (⟨r.lut, r.out, r.ins.map (viaStem (stemsOf net true))⟩ : Op))
    let nl := net.lines.size
    let cb : Nat → α → α := fun s v => if s = x then f v else v
    (∀ y, (∀ p ∈ o :: post, p.out ≠ y) → execCb nl sem cb ops env y = execG sem ops env y) ∧
    (cbLog nl sem cb ops env)[(pre.filter (·.out < nl)).length]? = some (x, execG sem ops env x) ∧
    execCb nl sem cb ops env x = f (execG sem ops env x) :=
  callback_upstream_wellordered (Jt net) _ _ (simops_sig_WOJ tbl net order true hwf ho (fun _ => hf) hr) sem x
    (line_not_scratch net x hx) hx f env pre post o hsplit hox

/-- **frame outside the fan-out, on the netlist** (`cb_frame`; no hypothesis on net or order needed): a callback that rewrites
    only line `x` leaves every signal that is not in the fan-out of `x` over the scheduled rows — scheduled before OR AFTER the
    row of `x` — exactly as in the run without callback; both schedules (`strip_forks` off: rows as emitted; on: operands
    through the stems). -/
theorem callback_force_frame {α} (tbl : List PrefixRow) (net : Net) (order : List Nat)
    (sem : Op → List α → α) (x : Nat) (f : α → α) (env : Nat → α) :
    let nl := net.lines.size
    let cb : Nat → α → α := fun s v => if s = x then f v else v
    (let ops := (genOps tbl net order false).map OpRow.toOp
     ∀ y, y ∉ fanout x ops → execCb nl sem cb ops env y = execG sem ops env y) ∧
    (let ops := (genOps tbl net order true).map (fun r => (⟨r.lut, r.out, r.ins.map (viaStem (stemsOf net true))⟩ : Op))
     ∀ y, y ∉ fanout x ops → execCb nl sem cb ops env y = execG sem ops env y) :=
  ⟨cb_frame _ sem x _ (fun s v hs => by simp [hs]) _ env, cb_frame _ sem x _ (fun s v hs => by simp [hs]) _ env⟩

/-! ### non-vacuity of the all-circuits statements: `demoNet` (AND2 of lines 2, 3 on line 4, INV1 on line 5; `C01.demoNet`),
2-valued callback path, `a` = 1 (slot 9), `b` = 0 (slot 10), callback forcing the AND output (line 4) to 1 -/
def demoEnv : Nat → Bool := fun l => l == 9
def demoCb : Nat → Bool → Bool := fun s v => if s = 4 then true else v
abbrev demoOps : List Op := (genOps Gen.kindPrefixes Demo.demoNet Demo.demoOrder false).map OpRow.toOp

/-- the hypotheses of `callback_all_circuits` hold; its clauses on this instance: the lines in schedule order, each once;
    at line 4 the callback is handed the computed 0, at line 5 the inverter of the FORCED 1 -/
example := callback_all_circuits Gen.kindPrefixes Demo.demoNet Demo.demoOrder Demo.demo_hyps.1 Demo.demo_hyps.2.1
  (fun op => semL2c op.code) demoCb demoEnv
example : cbLog 6 (fun op => semL2c op.code) demoCb demoOps
    demoEnv = [(0, true), (1, false), (2, true), (3, false), (4, false), (5, false)] := by decide +kernel
example : Demo.demoNet.lines.size = 6 := by decide +kernel

/-- a row writing the scratch slot (index ≥ `nl`) is evaluated but not reported and not passed through the callback -/
example : cbLog 2 (fun _ xs => !(xs.getD 0 false)) (fun _ _ => true) [⟨0, 0, [5]⟩, ⟨0, 3, [0]⟩, ⟨0, 1, [3]⟩] (fun _ => false) =
    [(0, true), (1, true)] ∧
    execCb 2 (fun _ xs => !(xs.getD 0 false)) (fun _ _ => true) [⟨0, 0, [5]⟩, ⟨0, 3, [0]⟩, ⟨0, 1, [3]⟩] (fun _ => false) 3 = false := by
  decide

/-- `callback_force_three_logics` applies; forcing flips the inverter output: 1 without, 0 with the callback -/
example := callback_force_three_logics Demo.demoNet Demo.demoOrder Demo.demo_hyps.1 Demo.demo_hyps.2.1 4 (by decide +kernel)
example : execG (fun op => semL2c op.code) demoOps demoEnv 5 = true ∧
    execCb 6 (fun op => semL2c op.code) demoCb demoOps demoEnv 5 = false := by
  decide +kernel

/-- `callback_upstream_all_circuits` applies to the row of line 4 (four rows before it, one after it) -/
example := callback_upstream_all_circuits Gen.kindPrefixes Demo.demoNet Demo.demoOrder Demo.demo_hyps.1 Demo.demo_hyps.2.1
  (fun op => semL2c op.code) 4 (by decide +kernel) (fun _ => true) demoEnv
  [⟨43690, 0, [9, 6, 6, 6]⟩, ⟨43690, 1, [10, 6, 6, 6]⟩, ⟨43690, 2, [0, 6, 6, 6]⟩, ⟨43690, 3, [1, 6, 6, 6]⟩]
  [⟨21845, 5, [4, 6, 6, 6]⟩] ⟨34952, 4, [2, 3, 6, 6]⟩ (by rw [Demo.demo_ops.1]; rfl) rfl

/-- `callback_force_frame` on this instance: the fan-out of line 2 is {2, 4, 5}; line 3 is scheduled AFTER line 2 and outside
    it, so it keeps its plain value whatever the callback does to line 2 -/
example := (callback_force_frame Gen.kindPrefixes Demo.demoNet Demo.demoOrder (fun op => semL2c op.code) 2 (fun v => !v) demoEnv).1
example : fanout 2 demoOps = [5, 4, 2] ∧ 3 ∉ fanout 2 demoOps ∧
    (demoOps.map (·.out)).idxOf 2 < (demoOps.map (·.out)).idxOf 3 := by decide +kernel

/-! … and with `strip_forks`: `forkNet` (`C06.forkNet`; two-branch fork, chained fork), `a` = 1 (slot 12), `b` = 1 (slot 13), the AND
output (line 6) forced to 0. The stripped schedule has four rows; the branches 1, 3, 5 are read through their stems 0, 0, 4. -/
def forkEnv : Nat → Bool := fun l => l == 12 || l == 13
def forkCb : Nat → Bool → Bool := fun s v => if s = 6 then false else v

example := callback_all_circuits_stripped Gen.kindPrefixes Demo.forkNet Demo.forkOrder Demo.fork_hyps.1 Demo.fork_hyps.2.1
  Demo.fork_hyps.2.2.1 Demo.fork_hyps.2.2.2 (fun op => semL2c op.code) forkCb forkEnv
/-- four calls (lines 0, 4, 6, 7 — no branch is reported); the OR (line 7) still computes 1 from the stem of branch 3 -/
example : cbLog Demo.forkNet.lines.size (fun op => semL2c op.code) forkCb ((genOps Gen.kindPrefixes Demo.forkNet Demo.forkOrder true).map
      (fun r => (⟨r.lut, r.out, r.ins.map (viaStem (stemsOf Demo.forkNet true))⟩ : Op))) forkEnv =
    [(0, true), (4, true), (6, true), (7, true)] := by decide +kernel
example := callback_force_spec_all_circuits_stripped semL8 specL8 (fun _ h xs => semL8_eq_spec h xs) Demo.forkNet Demo.forkOrder
  Demo.fork_hyps.1 Demo.fork_hyps.2.1 Demo.fork_hyps.2.2.1 Demo.fork_hyps.2.2.2 6 (by decide +kernel) V3.zero
theorem fork_stripped_rows : (genOps Gen.kindPrefixes Demo.forkNet Demo.forkOrder true).map
      (fun r => (⟨r.lut, r.out, r.ins.map (viaStem (stemsOf Demo.forkNet true))⟩ : Op)) =
    [⟨0xAAAA, 0, [12, 9, 9, 9]⟩, ⟨0xAAAA, 4, [13, 9, 9, 9]⟩] ++ ⟨0x8888, 6, [0, 4, 9, 9]⟩ :: [⟨0xEEEE, 7, [0, 6, 9, 9]⟩] := by
  have hst : stemsOf Demo.forkNet true = #[none, some 0, some 0, some 0, none, some 4, none, none, some 7, none, none, none,
      none, none, none, none, none, none] := by decide +kernel
  rw [Demo.fork_ops.2.1, hst]
  rfl
example := callback_upstream_all_circuits_stripped Gen.kindPrefixes Demo.forkNet Demo.forkOrder Demo.fork_hyps.1
  Demo.fork_hyps.2.1 Demo.fork_hyps.2.2.1 Demo.fork_hyps.2.2.2 (fun op => semL2c op.code) 6 (by decide +kernel) (fun _ => false)
  forkEnv _ _ _ fork_stripped_rows rfl

/-- non-vacuity: forcing the AND output (signal 10) to true flips the downstream inverter -/
example : execCb 12 (fun op xs => if op.code = 0 then (xs.getD 0 false && xs.getD 1 false) else !(xs.getD 0 false))
    (fun s v => if s = 10 then true else v) [⟨0, 10, [0, 1]⟩, ⟨1, 11, [10]⟩] (fun _ => false) 11 = false := by decide

end KV.C16
