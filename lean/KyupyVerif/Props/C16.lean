import KyupyVerif.Model.Sig
import KyupyVerif.Proofs.Consistent
/-! # C16 — the fault-injection callback sees and controls every evaluated signal

Model (M): propagation with a callback = `execCb`: after every op the freshly computed value of its output
signal is passed through `cb out value` and the result is what is stored (the real callback mutates a writable
view of the signal's memory in place). The call log is one entry per op, in op order. Tied to the code by
correspondence of the real call log and results in all three logics (harness/c16.py); the per-op semantics of
the callback chains themselves is regenerated from the code (C01: `sem2c`, C02: m=8 chain with callback). -/
namespace KV.C16
open KV KV.Sig

def execCbOp {α} (sem : Op → List α → α) (cb : Nat → α → α) (env : Nat → α) (op : Op) : Nat → α :=
  upd env op.out (cb op.out (sem op (op.ins.map env)))

def execCb {α} (sem : Op → List α → α) (cb : Nat → α → α) (ops : List Op) (env : Nat → α) : Nat → α :=
  ops.foldl (execCbOp sem cb) env

/-- the sequence of callback invocations: (signal, freshly computed value) -/
def cbLog {α} (sem : Op → List α → α) (cb : Nat → α → α) : List Op → (Nat → α) → List (Nat × α)
  | [], _ => []
  | op :: ops, env => (op.out, sem op (op.ins.map env)) :: cbLog sem cb ops (execCbOp sem cb env op)

/-- exactly once for every evaluated signal, in evaluation order, with that signal's identity -/
theorem cb_once_in_order {α} (sem : Op → List α → α) (cb : Nat → α → α) (ops : List Op) (env : Nat → α) :
    (cbLog sem cb ops env).map (·.1) = ops.map (·.out) := by
  induction ops generalizing env with
  | nil => rfl
  | cons op ops ih => simp [cbLog, ih]

/-- leaving the values untouched changes nothing -/
theorem cb_identity {α} (sem : Op → List α → α) (ops : List Op) (env : Nat → α) :
    execCb sem (fun _ v => v) ops env = execG sem ops env := rfl

/-- … and with the identity callback each invocation sees the value the plain simulation computes -/
theorem cb_identity_sees_plain_values {α} (sem : Op → List α → α) (ops : List Op) (env : Nat → α) :
    ∀ pre op post, ops = pre ++ op :: post →
      (cbLog sem (fun _ v => v) ops env)[pre.length]? = some (op.out, sem op (op.ins.map (execG sem pre env))) := by
  intro pre
  induction pre generalizing ops env with
  | nil => intro op post h; subst h; simp [cbLog, execG]
  | cons p pre ih =>
    intro op post h; subst h
    simp only [List.cons_append, cbLog, List.length_cons, List.getElem?_cons_succ]
    have := ih (ops := pre ++ op :: post) (env := execCbOp sem (fun _ v => v) env p) op post rfl
    rw [this]
    rfl

/-- overwriting is equivalent to simulating the program in which the semantics of the ops writing a signal is
    post-composed with the overwrite: every later reader of that signal sees the overwritten value -/
theorem cb_override {α} (sem : Op → List α → α) (cb : Nat → α → α) (ops : List Op) (env : Nat → α) :
    execCb sem cb ops env = execG (fun op xs => cb op.out (sem op xs)) ops env := rfl

/-- forcing signal `x` to the value `c` is the same as simulating a circuit in which the op driving `x`
    is replaced by a source of `c` (here: an op whose semantics ignores its operands) -/
theorem cb_force_is_source {α} (sem : Op → List α → α) (x : Nat) (c : α) (ops : List Op) (env : Nat → α) :
    execCb sem (fun s v => if s = x then c else v) ops env =
      execG (fun op xs => if op.out = x then c else sem op xs) ops env := by
  rw [cb_override]

/-- nothing upstream changes: the ops evaluated before the first op that writes the injected signal compute
    exactly what they compute without a callback -/
theorem cb_upstream_unaffected {α} (sem : Op → List α → α) (x : Nat) (f : α → α) (pre post : List Op) (env : Nat → α)
    (hpre : ∀ p ∈ pre, p.out ≠ x) :
    execCb sem (fun s v => if s = x then f v else v) pre env = execG sem pre env := by
  induction pre generalizing env with
  | nil => rfl
  | cons p pre ih =>
    simp only [execCb, execG, List.foldl_cons]
    have hp : p.out ≠ x := hpre p List.mem_cons_self
    have : execCbOp sem (fun s v => if s = x then f v else v) env p = execOpG sem env p := by
      funext j; simp [execCbOp, execOpG, hp]
    rw [this]
    exact ih _ (fun q hq => hpre q (List.mem_cons_of_mem _ hq))

/-- every downstream result reflects the overwrite: the injected signal itself carries the overwritten value at
    the end (when no later op rewrites it) -/
theorem cb_value_sticks {α} (sem : Op → List α → α) (cb : Nat → α → α) (pre post : List Op) (o : Op) (env : Nat → α)
    (hout : ∀ p ∈ post, p.out ≠ o.out) :
    execCb sem cb (pre ++ o :: post) env o.out =
      cb o.out (sem o (o.ins.map (execCb sem cb pre env))) := by
  have h1 : execCb sem cb (pre ++ o :: post) env = execCb sem cb post (execCbOp sem cb (execCb sem cb pre env) o) := by
    simp [execCb, List.foldl_append]
  rw [h1]
  have frame : ∀ (l : List Op) (e : Nat → α), (∀ p ∈ l, p.out ≠ o.out) → execCb sem cb l e o.out = e o.out := by
    intro l
    induction l with
    | nil => intro e _; rfl
    | cons p l ih =>
      intro e h
      simp only [execCb, List.foldl_cons]
      have := ih (execCbOp sem cb e p) (fun q hq => h q (List.mem_cons_of_mem _ hq))
      simp only [execCb] at this
      rw [this]
      have hp := h p List.mem_cons_self
      simp [execCbOp, upd, Ne.symm hp]
  rw [frame post _ hout]
  simp [execCbOp, upd]

/-- non-vacuity: forcing the AND output (signal 10) to true flips the downstream inverter -/
example : execCb (fun op xs => if op.code = 0 then (xs.getD 0 false && xs.getD 1 false) else !(xs.getD 0 false))
    (fun s v => if s = 10 then true else v) [⟨0, 10, [0, 1]⟩, ⟨1, 11, [10]⟩] (fun _ => false) 11 = false := by decide

end KV.C16
