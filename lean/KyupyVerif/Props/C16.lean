import KyupyVerif.Model.Sig
import KyupyVerif.Proofs.Consistent
import KyupyVerif.Proofs.AllCircCb
import KyupyVerif.Proofs.AllCircStrip
import KyupyVerif.Proofs.AllCircDemo
/-! # C16 — the fault-injection callback sees and controls every evaluated signal

Model (M): propagation with a callback = `execCb`: after every op the freshly computed value of its output
signal is passed through `cb out value` and the result is what is stored (the real callback mutates a writable
view of the signal's memory in place). The call log is one entry per op, in op order. Tied to the code by
correspondence of the real call log and results in all three logics (harness/c16.py); the per-op semantics of
the callback chains themselves is regenerated from the code (C01: `sem2c`, C02: m=8 chain with callback).

**Theorem, per program:** `cb_once_in_order`, `cb_identity`, `cb_identity_sees_plain_values`, `cb_log_entry`, `cb_override`,
`cb_force_is_source`, `cb_upstream_unaffected`, `cb_value_sticks` (every op program, any value domain).
**Theorem, per NETLIST** (part "ALL circuits"): for every well-formed netlist (`Net.wfB`), every topological order
(`orderOKB`) and the op program of the `SimOps` model: `callback_all_circuits` — one call per scheduled line, in schedule
order, no line twice, the value handed over is the gate function of the FINAL operand values, the result is THE solution of
the gate equations followed by the callback; `callback_force_all_circuits`, `callback_force_spec_all_circuits`,
`callback_force_three_logics` — forcing a line = solving the system in which the equation of that line is replaced by the
constant (2-valued callback path, 4-, 8-valued dispatch against the documented algebra); `callback_upstream_all_circuits` —
everything scheduled before the overridden line is as in the run without callback, the callback sees the plain value there;
`…_stripped` — the same for the `strip_forks` schedule (fork rows dropped, operands read through the stems; well-orderedness
from `C08.simops_program_facts`; hypotheses `forksOKB`, `readsDrivenB`). All are instances of `callback_wellordered`,
`callback_force_wellordered`, `callback_force_spec_wellordered`, `callback_upstream_wellordered` (every well-ordered program).
**Correspondence (not theorem):** that `LogicSim.c_prop(inject_cb=…)` invokes the callback once after every row with the row's
output line (call sites, harness/c16.py) and that `SimOps` produces the rows of the model (C01). -/
namespace KV.C16
open KV KV.Sig

def execCbOp {α} (sem : Op → List α → α) (cb : Nat → α → α) (env : Nat → α) (op : Op) : Nat → α :=
  upd env op.out (cb op.out (sem op (op.ins.map env)))

def execCb {α} (sem : Op → List α → α) (cb : Nat → α → α) (ops : List Op) (env : Nat → α) : Nat → α :=
  ops.foldl (execCbOp sem cb) env

/-- the sequence of callback invocations: (signal, freshly computed value) -/
def cbLog {α} (sem : Op → List α → α) (cb : Nat → α → α) : List Op → (Nat → α) → List (Nat × α)
  | [], _ => []
  | op :: ops, env => (op.out, sem op (op.ins.map env)) :: cbLog sem cb ops (execCbOp sem cb env op)

/-- exactly once for every evaluated signal, in evaluation order, with that signal's identity -/
theorem cb_once_in_order {α} (sem : Op → List α → α) (cb : Nat → α → α) (ops : List Op) (env : Nat → α) :
    (cbLog sem cb ops env).map (·.1) = ops.map (·.out) := by
  induction ops generalizing env with
  | nil => rfl
  | cons op ops ih => simp [cbLog, ih]

/-- leaving the values untouched changes nothing -/
theorem cb_identity {α} (sem : Op → List α → α) (ops : List Op) (env : Nat → α) :
    execCb sem (fun _ v => v) ops env = execG sem ops env := rfl

/-- … and with the identity callback each invocation sees the value the plain simulation computes -/
theorem cb_identity_sees_plain_values {α} (sem : Op → List α → α) (ops : List Op) (env : Nat → α) :
    ∀ pre op post, ops = pre ++ op :: post →
      (cbLog sem (fun _ v => v) ops env)[pre.length]? = some (op.out, sem op (op.ins.map (execG sem pre env))) := by
  intro pre
  induction pre generalizing ops env with
  | nil => intro op post h; subst h; simp [cbLog, execG]
  | cons p pre ih =>
    intro op post h; subst h
    simp only [List.cons_append, cbLog, List.length_cons, List.getElem?_cons_succ]
    have := ih (ops := pre ++ op :: post) (env := execCbOp sem (fun _ v => v) env p) op post rfl
    rw [this]
    rfl

/-- overwriting is equivalent to simulating the program in which the semantics of the ops writing a signal is
    post-composed with the overwrite: every later reader of that signal sees the overwritten value -/
theorem cb_override {α} (sem : Op → List α → α) (cb : Nat → α → α) (ops : List Op) (env : Nat → α) :
    execCb sem cb ops env = execG (fun op xs => cb op.out (sem op xs)) ops env := rfl

/-- forcing signal `x` to the value `c` is the same as simulating a circuit in which the op driving `x`
    is replaced by a source of `c` (here: an op whose semantics ignores its operands) -/
theorem cb_force_is_source {α} (sem : Op → List α → α) (x : Nat) (c : α) (ops : List Op) (env : Nat → α) :
    execCb sem (fun s v => if s = x then c else v) ops env =
      execG (fun op xs => if op.out = x then c else sem op xs) ops env := by
  rw [cb_override]

/-- nothing upstream changes: the ops evaluated before the first op that writes the injected signal compute
    exactly what they compute without a callback -/
theorem cb_upstream_unaffected {α} (sem : Op → List α → α) (x : Nat) (f : α → α) (pre post : List Op) (env : Nat → α)
    (hpre : ∀ p ∈ pre, p.out ≠ x) :
    execCb sem (fun s v => if s = x then f v else v) pre env = execG sem pre env := by
  induction pre generalizing env with
  | nil => rfl
  | cons p pre ih =>
    simp only [execCb, execG, List.foldl_cons]
    have hp : p.out ≠ x := hpre p List.mem_cons_self
    have : execCbOp sem (fun s v => if s = x then f v else v) env p = execOpG sem env p := by
      funext j; simp [execCbOp, execOpG, hp]
    rw [this]
    exact ih _ (fun q hq => hpre q (List.mem_cons_of_mem _ hq))

/-- every downstream result reflects the overwrite: the injected signal itself carries the overwritten value at
    the end (when no later op rewrites it) -/
theorem cb_value_sticks {α} (sem : Op → List α → α) (cb : Nat → α → α) (pre post : List Op) (o : Op) (env : Nat → α)
    (hout : ∀ p ∈ post, p.out ≠ o.out) :
    execCb sem cb (pre ++ o :: post) env o.out =
      cb o.out (sem o (o.ins.map (execCb sem cb pre env))) := by
  have h1 : execCb sem cb (pre ++ o :: post) env = execCb sem cb post (execCbOp sem cb (execCb sem cb pre env) o) := by
    simp [execCb, List.foldl_append]
  rw [h1]
  have frame : ∀ (l : List Op) (e : Nat → α), (∀ p ∈ l, p.out ≠ o.out) → execCb sem cb l e o.out = e o.out := by
    intro l
    induction l with
    | nil => intro e _; rfl
    | cons p l ih =>
      intro e h
      simp only [execCb, List.foldl_cons]
      have := ih (execCbOp sem cb e p) (fun q hq => h q (List.mem_cons_of_mem _ hq))
      simp only [execCb] at this
      rw [this]
      have hp := h p List.mem_cons_self
      simp [execCbOp, upd, Ne.symm hp]
  rw [frame post _ hout]
  simp [execCbOp, upd]

/-- every program, every callback: the `k`-th invocation receives the identity of the `k`-th row's output and the value the
    row computes from the state left by the rows before it (overrides of earlier invocations included) -/
theorem cb_log_entry {α} (sem : Op → List α → α) (cb : Nat → α → α) (ops : List Op) (env : Nat → α) :
    ∀ pre op post, ops = pre ++ op :: post →
      (cbLog sem cb ops env)[pre.length]? = some (op.out, sem op (op.ins.map (execCb sem cb pre env))) := by
  intro pre
  induction pre generalizing ops env with
  | nil => intro op post h; subst h; simp [cbLog, execCb]
  | cons p pre ih =>
    intro op post h; subst h
    simp only [List.cons_append, cbLog, List.length_cons, List.getElem?_cons_succ]
    have := ih (ops := pre ++ op :: post) (env := execCbOp sem cb env p) op post rfl
    rw [this]
    rfl

/-! ## every well-ordered program

`WOJ J ops`: no row rewrites the (non-scratch) output of an earlier row or writes an operand of an earlier row, no row
reads the scratch slot or its own output (`Proofs/Solve.lean`). Proved for the program of every netlist below. -/

/-- call log and meaning of a callback: (a) one invocation per row, in program order, with the identity of the row's output
    signal; (b) no signal is passed twice (only the scratch slot can repeat); (c) the value passed for a row is the row's
    function applied to the FINAL values of its operands — overrides made upstream are seen, nothing downstream has
    happened yet; (d) the result of the run is THE solution of the equation system in which every equation is followed by the
    callback: it solves it and every solution equals it on every signal except the scratch slot. -/
theorem callback_wellordered {α} (J : Nat → Bool) (ops : List Op) (hw : WOJ J ops)
    (sem : Op → List α → α) (cb : Nat → α → α) (env : Nat → α) :
    (cbLog sem cb ops env).map (·.1) = ops.map (·.out) ∧
    (((cbLog sem cb ops env).map (·.1)).filter (fun x => !J x)).Nodup ∧
    (∀ (k : Nat) (o : Op), ops[k]? = some o →
      (cbLog sem cb ops env)[k]? = some (o.out, sem o (o.ins.map (execCb sem cb ops env)))) ∧
    SolvesJ J (fun op xs => cb op.out (sem op xs)) ops env (execCb sem cb ops env) ∧
    ∀ val, SolvesJ J (fun op xs => cb op.out (sem op xs)) ops env val →
      ∀ x, J x = false → val x = execCb sem cb ops env x := by
  refine ⟨cb_once_in_order sem cb ops env, ?_, ?_, execG_solution J _ ops hw env,
    fun val hs => solution_uniqueJ J _ ops hw env val hs⟩
  · rw [cb_once_in_order]; exact woj_outs_nodup hw
  · intro k o hk
    obtain ⟨hsplit, hlen⟩ := getElem?_split hk
    have he := cb_log_entry sem cb ops env _ o _ hsplit
    rw [hlen] at he
    rw [he]
    have hw' : WOJ J (ops.take k ++ o :: ops.drop (k + 1)) := hsplit ▸ hw
    have hfin := operands_final J (fun op xs => cb op.out (sem op xs)) (ops.take k) (ops.drop (k + 1)) o env hw'
    rw [← hsplit] at hfin
    show some (o.out, sem o (o.ins.map (execG (fun op xs => cb op.out (sem op xs)) (ops.take k) env))) = _
    rw [hfin]
    rfl

/-- override = source replacement: forcing signal `x` to `c` yields THE solution of the system in which the equation of `x` is
    replaced by the constant `c` (all other equations unchanged) -/
theorem callback_force_wellordered {α} (J : Nat → Bool) (ops : List Op) (hw : WOJ J ops)
    (sem : Op → List α → α) (x : Nat) (c : α) (env : Nat → α) :
    SolvesJ J (fun op xs => if op.out = x then c else sem op xs) ops env
      (execCb sem (fun s v => if s = x then c else v) ops env) ∧
    ∀ val, SolvesJ J (fun op xs => if op.out = x then c else sem op xs) ops env val →
      ∀ y, J y = false → val y = execCb sem (fun s v => if s = x then c else v) ops env y := by
  rw [cb_force_is_source]
  exact ⟨execG_solution J _ ops hw env, fun val hs => solution_uniqueJ J _ ops hw env val hs⟩

/-- the same against the SPECIFIED gate functions, for a dispatch that agrees with the specification on the (known) op
    codes of the program -/
theorem callback_force_spec_wellordered {α} (J : Nat → Bool) (ops : List Op) (hw : WOJ J ops) (hk : KnownProg ops)
    (sem spec : Nat → List α → α) (heq : ∀ code, KnownCode code → ∀ xs, sem code xs = spec code xs)
    (x : Nat) (c : α) (env : Nat → α) :
    SolvesJ J (fun op xs => if op.out = x then c else spec op.code xs) ops env
      (execCb (fun op => sem op.code) (fun s v => if s = x then c else v) ops env) ∧
    ∀ val, SolvesJ J (fun op xs => if op.out = x then c else spec op.code xs) ops env val →
      ∀ y, J y = false → val y = execCb (fun op => sem op.code) (fun s v => if s = x then c else v) ops env y := by
  rw [cb_force_is_source]
  exact sim_is_spec_solution J _ _ ops hw
    (fun op hop xs => by
      show (if op.out = x then c else sem op.code xs) = (if op.out = x then c else spec op.code xs)
      rw [heq op.code (hk op hop) xs]) env

/-- upstream frame: a callback that rewrites only signal `x` (to any function `f` of the computed value) (a) leaves every
    signal whose row stands before the row of `x` — and every signal no row writes — exactly as in the run without callback;
    (b) is handed, at `x`, the value the plain simulation computes for `x`; (c) `x` ends up carrying `f` of that value.
    `pre`/`post` = the rows before / after the row `o` that writes `x`. -/
theorem callback_upstream_wellordered {α} (J : Nat → Bool) (ops : List Op) (hw : WOJ J ops)
    (sem : Op → List α → α) (x : Nat) (hx : J x = false) (f : α → α) (env : Nat → α) (pre post : List Op) (o : Op)
    (hsplit : ops = pre ++ o :: post) (hox : o.out = x) :
    (∀ y, (∀ p ∈ o :: post, p.out ≠ y) →
      execCb sem (fun s v => if s = x then f v else v) ops env y = execG sem ops env y) ∧
    (cbLog sem (fun s v => if s = x then f v else v) ops env)[pre.length]? = some (x, execG sem ops env x) ∧
    execCb sem (fun s v => if s = x then f v else v) ops env x = f (execG sem ops env x) := by
  have hw' : WOJ J (pre ++ o :: post) := hsplit ▸ hw
  have hjo : J o.out = false := hox ▸ hx
  obtain ⟨hpost, hpre⟩ := (woj_at_row hw').2 hjo
  have hprex : ∀ p ∈ pre, p.out ≠ x := hox ▸ hpre
  have hup := cb_upstream_unaffected sem x f pre post env hprex
  have hplain : execG sem ops env x = sem o (o.ins.map (execG sem pre env)) := by
    have hmem : o ∈ ops := by rw [hsplit]; exact List.mem_append_right _ List.mem_cons_self
    have h1 := execG_solvesJ J sem ops hw env o hmem hjo
    rw [hox] at h1
    rw [h1, operands_final J sem pre post o env hw', ← hsplit]
  refine ⟨?_, ?_, ?_⟩
  · intro y hy
    show execG (fun op xs => (fun s v => if s = x then f v else v) op.out (sem op xs)) ops env y = execG sem ops env y
    rw [hsplit, execG_before _ pre (o :: post) env y hy, execG_before sem pre (o :: post) env y hy]
    exact congrFun hup y
  · have he := cb_log_entry sem (fun s v => if s = x then f v else v) ops env pre o post hsplit
    rw [he, hup, hox, hplain]
  · subst hox
    have hs := cb_value_sticks sem (fun s v => if s = o.out then f v else v) pre post o env hpost
    rw [hplain, hsplit, hs, hup]
    show (if o.out = o.out then f _ else _) = _
    rw [if_pos rfl]

/-! ## ALL circuits

The statements start from a NETLIST: every well-formed `net` (`Net.wfB`), every topological `order` (`orderOKB`), the op
program `genOps tbl net order false` of the `SimOps` model (equal to the real `ops` by exact correspondence, C01); any value
domain `α` and op semantics `sem` (all three logics: `callback_force_three_logics`), any callback. With `strip_forks`
(`…_stripped`; domain hypotheses `forksOKB`, `readsDrivenB` as in C06/C08): the schedule without the fork rows, operands
resolved through the stems whose memory the branches share — the stripped branches are not evaluated, hence not reported. -/

/-- **call log and meaning of a callback, every netlist** (clauses (a)–(d) of `callback_wellordered`): one invocation per
    scheduled line, in schedule order; no line twice; the value handed over is the gate function of the FINAL operand values;
    the run computes THE solution of the netlist's gate equations followed by the callback -/
theorem callback_all_circuits {α} (tbl : List PrefixRow) (net : Net) (order : List Nat) (hwf : net.wfB = true)
    (ho : orderOKB net order = true) (sem : Op → List α → α) (cb : Nat → α → α) (env : Nat → α) :
    let ops := (genOps tbl net order false).map OpRow.toOp
    (cbLog sem cb ops env).map (·.1) = ops.map (·.out) ∧
    (((cbLog sem cb ops env).map (·.1)).filter (fun x => !Jt net x)).Nodup ∧
    (∀ (k : Nat) (o : Op), ops[k]? = some o →
      (cbLog sem cb ops env)[k]? = some (o.out, sem o (o.ins.map (execCb sem cb ops env)))) ∧
    SolvesJ (Jt net) (fun op xs => cb op.out (sem op xs)) ops env (execCb sem cb ops env) ∧
    ∀ val, SolvesJ (Jt net) (fun op xs => cb op.out (sem op xs)) ops env val →
      ∀ x, Jt net x = false → val x = execCb sem cb ops env x :=
  callback_wellordered (Jt net) _ (genOps_WOJ tbl net order false hwf ho) sem cb env

/-- … with `strip_forks` -/
theorem callback_all_circuits_stripped {α} (tbl : List PrefixRow) (net : Net) (order : List Nat) (hwf : net.wfB = true)
    (ho : orderOKB net order = true) (hf : forksOKB net order = true) (hr : readsDrivenB tbl net order = true)
    (sem : Op → List α → α) (cb : Nat → α → α) (env : Nat → α) :
    let ops := (genOps tbl net order true).map (fun r => (⟨r.lut, r.out, r.ins.map (viaStem (stemsOf net true))⟩ : Op))
    (cbLog sem cb ops env).map (·.1) = ops.map (·.out) ∧
    (((cbLog sem cb ops env).map (·.1)).filter (fun x => !Jt net x)).Nodup ∧
    (∀ (k : Nat) (o : Op), ops[k]? = some o →
      (cbLog sem cb ops env)[k]? = some (o.out, sem o (o.ins.map (execCb sem cb ops env)))) ∧
    SolvesJ (Jt net) (fun op xs => cb op.out (sem op xs)) ops env (execCb sem cb ops env) ∧
    ∀ val, SolvesJ (Jt net) (fun op xs => cb op.out (sem op xs)) ops env val →
      ∀ x, Jt net x = false → val x = execCb sem cb ops env x :=
  callback_wellordered (Jt net) _ (simops_sig_WOJ tbl net order true hwf ho (fun _ => hf) hr) sem cb env

/-- **override = source replacement, on the netlist**: forcing line `x` to `c` makes every line carry its value in THE
    solution of the gate-equation system in which the equation of `x` is replaced by the constant `c` (all other equations
    unchanged) — every netlist, every order, any value domain. -/
theorem callback_force_all_circuits {α} (tbl : List PrefixRow) (net : Net) (order : List Nat) (hwf : net.wfB = true)
    (ho : orderOKB net order = true) (sem : Op → List α → α) (x : Nat) (c : α) (env : Nat → α) :
    let ops := (genOps tbl net order false).map OpRow.toOp
    SolvesJ (Jt net) (fun op xs => if op.out = x then c else sem op xs) ops env
      (execCb sem (fun s v => if s = x then c else v) ops env) ∧
    ∀ val, SolvesJ (Jt net) (fun op xs => if op.out = x then c else sem op xs) ops env val →
      ∀ y, Jt net y = false → val y = execCb sem (fun s v => if s = x then c else v) ops env y :=
  callback_force_wellordered (Jt net) _ (genOps_WOJ tbl net order false hwf ho) sem x c env

/-- the same against the SPECIFIED gate functions, for a dispatch that agrees with the specification on known op codes -/
theorem callback_force_spec_all_circuits {α} (sem spec : Nat → List α → α)
    (heq : ∀ code, KnownCode code → ∀ xs, sem code xs = spec code xs)
    (net : Net) (order : List Nat) (hwf : net.wfB = true) (ho : orderOKB net order = true) (x : Nat) (c : α)
    (env : Nat → α) :
    let ops := (genOps Gen.kindPrefixes net order false).map OpRow.toOp
    SolvesJ (Jt net) (fun op xs => if op.out = x then c else spec op.code xs) ops env
      (execCb (fun op => sem op.code) (fun s v => if s = x then c else v) ops env) ∧
    ∀ val, SolvesJ (Jt net) (fun op xs => if op.out = x then c else spec op.code xs) ops env val →
      ∀ y, Jt net y = false → val y = execCb (fun op => sem op.code) (fun s v => if s = x then c else v) ops env y :=
  callback_force_spec_wellordered (Jt net) _ (genOps_WOJ Gen.kindPrefixes net order false hwf ho)
    (genOps_known net order false) sem spec heq x c env

/-- … with `strip_forks` -/
theorem callback_force_spec_all_circuits_stripped {α} (sem spec : Nat → List α → α)
    (heq : ∀ code, KnownCode code → ∀ xs, sem code xs = spec code xs)
    (net : Net) (order : List Nat) (hwf : net.wfB = true) (ho : orderOKB net order = true)
    (hf : forksOKB net order = true) (hr : readsDrivenB Gen.kindPrefixes net order = true) (x : Nat) (c : α)
    (env : Nat → α) :
    let ops := (genOps Gen.kindPrefixes net order true).map
      (fun r => (⟨r.lut, r.out, r.ins.map (viaStem (stemsOf net true))⟩ : Op))
    SolvesJ (Jt net) (fun op xs => if op.out = x then c else spec op.code xs) ops env
      (execCb (fun op => sem op.code) (fun s v => if s = x then c else v) ops env) ∧
    ∀ val, SolvesJ (Jt net) (fun op xs => if op.out = x then c else spec op.code xs) ops env val →
      ∀ y, Jt net y = false → val y = execCb (fun op => sem op.code) (fun s v => if s = x then c else v) ops env y :=
  callback_force_spec_wellordered (Jt net) _ (simops_sig_WOJ Gen.kindPrefixes net order true hwf ho (fun _ => hf) hr)
    (genOps_known_map net order true _ (fun _ => rfl)) sem spec heq x c env

/-- **in all three logics** (real dispatch chains: 2-valued callback path `sem2c`, 4-valued, 8-valued): forcing a line makes
    the run compute the solution of the documented gate equations with the equation of that line replaced by the constant -/
theorem callback_force_three_logics (net : Net) (order : List Nat) (hwf : net.wfB = true)
    (ho : orderOKB net order = true) (x : Nat) :
    let ops := (genOps Gen.kindPrefixes net order false).map OpRow.toOp
    (∀ (c : Bool) (env val : Nat → Bool),
      SolvesJ (Jt net) (fun op xs => if op.out = x then c else specL2 op.code xs) ops env val →
      ∀ y, Jt net y = false → execCb (fun op => semL2c op.code) (fun s v => if s = x then c else v) ops env y = val y) ∧
    (∀ (c : V2) (env val : Nat → V2),
      SolvesJ (Jt net) (fun op xs => if op.out = x then c else specL4 op.code xs) ops env val →
      ∀ y, Jt net y = false → execCb (fun op => semL4 op.code) (fun s v => if s = x then c else v) ops env y = val y) ∧
    (∀ (c : V3) (env val : Nat → V3),
      SolvesJ (Jt net) (fun op xs => if op.out = x then c else specL8 op.code xs) ops env val →
      ∀ y, Jt net y = false → execCb (fun op => semL8 op.code) (fun s v => if s = x then c else v) ops env y = val y) :=
  ⟨fun c env val hs y hy => ((callback_force_spec_all_circuits semL2c specL2 (fun _ h xs => semL2c_eq_spec h xs)
      net order hwf ho x c env).2 val hs y hy).symm,
   fun c env val hs y hy => ((callback_force_spec_all_circuits semL4 specL4 (fun _ h xs => semL4_eq_spec h xs)
      net order hwf ho x c env).2 val hs y hy).symm,
   fun c env val hs y hy => ((callback_force_spec_all_circuits semL8 specL8 (fun _ h xs => semL8_eq_spec h xs)
      net order hwf ho x c env).2 val hs y hy).symm⟩

/-- **upstream frame, on the netlist** (clauses (a)–(c) of `callback_upstream_wellordered`): everything scheduled before the
    row of the overridden line `x` is as in the run without callback; the callback is handed the plain value at `x`; `x` ends
    up carrying `f` of it -/
theorem callback_upstream_all_circuits {α} (tbl : List PrefixRow) (net : Net) (order : List Nat) (hwf : net.wfB = true)
    (ho : orderOKB net order = true) (sem : Op → List α → α) (x : Nat) (hx : Jt net x = false) (f : α → α)
    (env : Nat → α) (pre post : List Op) (o : Op)
    (hsplit : (genOps tbl net order false).map OpRow.toOp = pre ++ o :: post) (hox : o.out = x) :
    let ops := (genOps tbl net order false).map OpRow.toOp
    let cb : Nat → α → α := fun s v => if s = x then f v else v
    (∀ y, (∀ p ∈ o :: post, p.out ≠ y) → execCb sem cb ops env y = execG sem ops env y) ∧
    (cbLog sem cb ops env)[pre.length]? = some (x, execG sem ops env x) ∧
    execCb sem cb ops env x = f (execG sem ops env x) :=
  callback_upstream_wellordered (Jt net) _ (genOps_WOJ tbl net order false hwf ho) sem x hx f env pre post o hsplit hox

/-- … with `strip_forks` -/
theorem callback_upstream_all_circuits_stripped {α} (tbl : List PrefixRow) (net : Net) (order : List Nat)
    (hwf : net.wfB = true) (ho : orderOKB net order = true) (hf : forksOKB net order = true)
    (hr : readsDrivenB tbl net order = true) (sem : Op → List α → α) (x : Nat) (hx : Jt net x = false) (f : α → α)
    (env : Nat → α) (pre post : List Op) (o : Op)
    (hsplit : (genOps tbl net order true).map (fun r => (⟨r.lut, r.out, r.ins.map (viaStem (stemsOf net true))⟩ : Op))
      = pre ++ o :: post) (hox : o.out = x) :
    let ops := (genOps tbl net order true).map (fun r => (⟨r.lut, r.out, r.ins.map (viaStem (stemsOf net true))⟩ : Op))
    let cb : Nat → α → α := fun s v => if s = x then f v else v
    (∀ y, (∀ p ∈ o :: post, p.out ≠ y) → execCb sem cb ops env y = execG sem ops env y) ∧
    (cbLog sem cb ops env)[pre.length]? = some (x, execG sem ops env x) ∧
    execCb sem cb ops env x = f (execG sem ops env x) :=
  callback_upstream_wellordered (Jt net) _ (simops_sig_WOJ tbl net order true hwf ho (fun _ => hf) hr) sem x hx f env
    pre post o hsplit hox

/-! ### non-vacuity of the all-circuits statements: `demoNet` (AND2 of lines 2, 3 on line 4, INV1 on line 5; `C01.demoNet`),
2-valued callback path, `a` = 1 (slot 9), `b` = 0 (slot 10), callback forcing the AND output (line 4) to 1 -/
def demoEnv : Nat → Bool := fun l => l == 9
def demoCb : Nat → Bool → Bool := fun s v => if s = 4 then true else v

/-- the hypotheses of `callback_all_circuits` hold; its clauses on this instance: the lines in schedule order, each once;
    at line 4 the callback is handed the computed 0, at line 5 the inverter of the FORCED 1 -/
example := callback_all_circuits Gen.kindPrefixes Demo.demoNet Demo.demoOrder Demo.demo_hyps.1 Demo.demo_hyps.2.1
  (fun op => semL2c op.code) demoCb demoEnv
example : cbLog (fun op => semL2c op.code) demoCb ((genOps Gen.kindPrefixes Demo.demoNet Demo.demoOrder false).map OpRow.toOp)
    demoEnv = [(0, true), (1, false), (2, true), (3, false), (4, false), (5, false)] := by decide +kernel

/-- `callback_force_three_logics` applies; forcing flips the inverter output: 1 without, 0 with the callback -/
example := callback_force_three_logics Demo.demoNet Demo.demoOrder Demo.demo_hyps.1 Demo.demo_hyps.2.1 4
example : execG (fun op => semL2c op.code) ((genOps Gen.kindPrefixes Demo.demoNet Demo.demoOrder false).map OpRow.toOp) demoEnv 5 = true ∧
    execCb (fun op => semL2c op.code) demoCb ((genOps Gen.kindPrefixes Demo.demoNet Demo.demoOrder false).map OpRow.toOp) demoEnv 5 = false := by
  decide +kernel

/-- `callback_upstream_all_circuits` applies to the row of line 4 (four rows before it, one after it) -/
example := callback_upstream_all_circuits Gen.kindPrefixes Demo.demoNet Demo.demoOrder Demo.demo_hyps.1 Demo.demo_hyps.2.1
  (fun op => semL2c op.code) 4 (by decide +kernel) (fun _ => true) demoEnv
  [⟨43690, 0, [9, 6, 6, 6]⟩, ⟨43690, 1, [10, 6, 6, 6]⟩, ⟨43690, 2, [0, 6, 6, 6]⟩, ⟨43690, 3, [1, 6, 6, 6]⟩]
  [⟨21845, 5, [4, 6, 6, 6]⟩] ⟨34952, 4, [2, 3, 6, 6]⟩ (by rw [Demo.demo_ops.1]; rfl) rfl

/-! … and with `strip_forks`: `forkNet` (`C06.forkNet`; two-branch fork, chained fork), `a` = 1 (slot 12), `b` = 1 (slot 13), the AND
output (line 6) forced to 0. The stripped schedule has four rows; the branches 1, 3, 5 are read through their stems 0, 0, 4. -/
def forkEnv : Nat → Bool := fun l => l == 12 || l == 13
def forkCb : Nat → Bool → Bool := fun s v => if s = 6 then false else v

example := callback_all_circuits_stripped Gen.kindPrefixes Demo.forkNet Demo.forkOrder Demo.fork_hyps.1 Demo.fork_hyps.2.1
  Demo.fork_hyps.2.2.1 Demo.fork_hyps.2.2.2 (fun op => semL2c op.code) forkCb forkEnv
/-- four calls (lines 0, 4, 6, 7 — no branch is reported); the OR (line 7) still computes 1 from the stem of branch 3 -/
example : cbLog (fun op => semL2c op.code) forkCb ((genOps Gen.kindPrefixes Demo.forkNet Demo.forkOrder true).map
      (fun r => (⟨r.lut, r.out, r.ins.map (viaStem (stemsOf Demo.forkNet true))⟩ : Op))) forkEnv =
    [(0, true), (4, true), (6, true), (7, true)] := by decide +kernel
example := callback_force_spec_all_circuits_stripped semL8 specL8 (fun _ h xs => semL8_eq_spec h xs) Demo.forkNet Demo.forkOrder
  Demo.fork_hyps.1 Demo.fork_hyps.2.1 Demo.fork_hyps.2.2.1 Demo.fork_hyps.2.2.2 6 V3.zero
theorem fork_stripped_rows : (genOps Gen.kindPrefixes Demo.forkNet Demo.forkOrder true).map
      (fun r => (⟨r.lut, r.out, r.ins.map (viaStem (stemsOf Demo.forkNet true))⟩ : Op)) =
    [⟨0xAAAA, 0, [12, 9, 9, 9]⟩, ⟨0xAAAA, 4, [13, 9, 9, 9]⟩] ++ ⟨0x8888, 6, [0, 4, 9, 9]⟩ :: [⟨0xEEEE, 7, [0, 6, 9, 9]⟩] := by
  have hst : stemsOf Demo.forkNet true = #[none, some 0, some 0, some 0, none, some 4, none, none, some 7, none, none, none,
      none, none, none, none, none, none] := by decide +kernel
  rw [Demo.fork_ops.2.1, hst]
  rfl
example := callback_upstream_all_circuits_stripped Gen.kindPrefixes Demo.forkNet Demo.forkOrder Demo.fork_hyps.1
  Demo.fork_hyps.2.1 Demo.fork_hyps.2.2.1 Demo.fork_hyps.2.2.2 (fun op => semL2c op.code) 6 (by decide +kernel) (fun _ => false)
  forkEnv _ _ _ fork_stripped_rows rfl

/-- non-vacuity: forcing the AND output (signal 10) to true flips the downstream inverter -/
example : execCb (fun op xs => if op.code = 0 then (xs.getD 0 false && xs.getD 1 false) else !(xs.getD 0 false))
    (fun s v => if s = 10 then true else v) [⟨0, 10, [0, 1]⟩, ⟨1, 11, [10]⟩] (fun _ => false) 11 = false := by decide

end KV.C16
