import KyupyVerif.Proofs.WaveCircuit
import KyupyVerif.Proofs.WaveMono
import KyupyVerif.Proofs.WaveMember
import KyupyVerif.Proofs.WaveAffine
import KyupyVerif.Proofs.WaveMemCirc
import KyupyVerif.Proofs.WaveMemDemo
import KyupyVerif.Proofs.Capture
/-! # C04 — transitions stay inside the static-timing window and move rigidly with inputs

Model: `Wave.waveEval` / `Wave.simWave` (transcription of `_wave_eval`, tied by the correspondence of C03).
Proved here for every op program: (1) the static-timing window, (2) strict monotonicity for polarity-
independent delays, (3) rigid motion under `t ↦ k·t + s` (shift, positive-integer scaling incl. powers of two).

**Memory level** (last section): the same three statements for what the REAL memory layout holds in the region of
every output slot after a propagation (`sta_window_mem`, `mono_timestamps_mem`, `rigid_motion_mem`: any map the certificate
`MapIn.check` accepts, `c_caps_min ≥ 4`, any implementation of the evaluator calls honouring `Wave.WaveStep`, any
level-respecting order — see the header of Props/C03.lean), incl. the captured earliest-arrival / latest-stabilisation
entries `s[4]`, `s[5]`; `wave_timing_all_circuits`: for the tables of the `SimOps` model of every circuit (certificate =
theorem `C08.simops_map_accepted`). -/
namespace KV.C04
open KV KV.Sig KV.Wave

/-! ## (1) static-timing window -/

/-- arrival window of a signal: `none` = no finite transition possible -/
abbrev Win := Option (Int × Int)

def Win.hull : Win → Win → Win
  | none, b => b
  | a, none => a
  | some (l1, h1), some (l2, h2) => some (Min.min l1 l2, Max.max h1 h2)

def Win.shift (w : Win) (dlo dhi : Int) : Win := w.map fun (l, h) => (l + dlo, h + dhi)

/-- every finite entry of the waveform lies in the window -/
def Within (w : Wv) (win : Win) : Prop :=
  ∀ t, T.fin t ∈ w.ents → ∃ l h, win = some (l, h) ∧ l ≤ t ∧ t ≤ h

def dmin (cfg : WCfg) (op : Op) (i : Nat) : Int :=
  Min.min (Min.min (opDelays cfg op i false false) (opDelays cfg op i false true))
          (Min.min (opDelays cfg op i true false) (opDelays cfg op i true true))
def dmax (cfg : WCfg) (op : Op) (i : Nat) : Int :=
  Max.max (Max.max (opDelays cfg op i false false) (opDelays cfg op i false true))
          (Max.max (opDelays cfg op i true false) (opDelays cfg op i true true))

/-- static timing analysis of one op: hull of the operand windows moved by the smallest / largest of the four
    delay entries of that operand's line -/
def staSem (cfg : WCfg) (op : Op) (wins : List Win) : Win :=
  Win.hull (Win.hull ((wins.getD 0 none).shift (dmin cfg op 0) (dmax cfg op 0)) ((wins.getD 1 none).shift (dmin cfg op 1) (dmax cfg op 1)))
           (Win.hull ((wins.getD 2 none).shift (dmin cfg op 2) (dmax cfg op 2)) ((wins.getD 3 none).shift (dmin cfg op 3) (dmax cfg op 3)))

theorem dmin_le (cfg : WCfg) (op : Op) (i : Nat) (p q : Bool) : dmin cfg op i ≤ opDelays cfg op i p q := by
  unfold dmin; cases p <;> cases q <;> omega
theorem le_dmax (cfg : WCfg) (op : Op) (i : Nat) (p q : Bool) : opDelays cfg op i p q ≤ dmax cfg op i := by
  unfold dmax; cases p <;> cases q <;> omega

theorem hull_left {a b : Win} {t : Int} (h : ∃ l h, a = some (l, h) ∧ l ≤ t ∧ t ≤ h) :
    ∃ l h, Win.hull a b = some (l, h) ∧ l ≤ t ∧ t ≤ h := by
  obtain ⟨l, hh, rfl, h1, h2⟩ := h
  cases b with
  | none => exact ⟨l, hh, rfl, h1, h2⟩
  | some p => obtain ⟨l2, h2'⟩ := p; exact ⟨_, _, rfl, by omega, by omega⟩
theorem hull_right {a b : Win} {t : Int} (h : ∃ l h, b = some (l, h) ∧ l ≤ t ∧ t ≤ h) :
    ∃ l h, Win.hull a b = some (l, h) ∧ l ≤ t ∧ t ≤ h := by
  obtain ⟨l, hh, rfl, h1, h2⟩ := h
  cases a with
  | none => exact ⟨l, hh, rfl, h1, h2⟩
  | some p => obtain ⟨l1, h1'⟩ := p; exact ⟨_, _, rfl, by omega, by omega⟩

def WRel (w : Wv) (win : Win) : Prop := w.ok ∧ Within w win

/-- gate level: every transition the evaluator emits is an operand transition plus one of that line's four
    delay entries, hence inside the op's static-timing window -/
theorem gate_window (cfg : WCfg) (op : Op) (hd : ∀ l p q, 0 ≤ cfg.delay l p q) (hc : 4 ≤ cfg.cap op.out)
    (xs : List Wv) (wins : List Win) (hxy : All2 WRel xs wins) : WRel (waveSem cfg op xs) (staSem cfg op wins) := by
  have hx : ∀ x ∈ xs, x.ok := hxy.forall_left (fun _ _ h => h.1)
  refine ⟨waveSem_ok cfg op xs hd hc hx, ?_⟩
  have hs := slot_ok hx
  let E := envOf cfg op xs hd hc hs
  intro t ht
  have hents : (waveSem cfg op xs).ents = (run E.lut E.D E.terms E.zcap (totalLen fun i => (slot xs i).ents)
      (init E.lut fun i => (slot xs i).ents)).z.reverse := rfl
  rw [hents, List.mem_reverse] at ht
  have hmem := run_member E (fun i => (slot xs i).ents) (totalLen fun i => (slot xs i).ents) (init E.lut fun i => (slot xs i).ents)
    (by intro i; simp [init]) (by
      intro x hx'; simp only [init] at hx'
      cases hl : (E.lut % 2 == 1) <;> simp [hl] at hx'
      exact Or.inl hx') _ ht
  rcases hmem with h | ⟨i, e, p, q, he, hxe⟩
  · cases h
  · -- e is a finite entry of operand i
    cases e with
    | fin te =>
      simp only [T.add, T.fin.injEq] at hxe
      have hw : WRel (slot xs i) (wins.getD i.val none) := hxy.getD i.val Wv.empty none ⟨Wv.empty_ok, by intro t h; simp [Wv.empty] at h⟩
      obtain ⟨l, h, hwin, h1, h2⟩ := hw.2 te he
      have hD : E.D i p q = opDelays cfg op i.val p q := rfl
      have key : ∃ l' h', (wins.getD i.val none).shift (dmin cfg op i.val) (dmax cfg op i.val) = some (l', h') ∧ l' ≤ t ∧ t ≤ h' := by
        refine ⟨l + dmin cfg op i.val, h + dmax cfg op i.val, by rw [hwin]; rfl, ?_, ?_⟩
        · have := dmin_le cfg op i.val p q; rw [hxe, hD]; omega
        · have := le_dmax cfg op i.val p q; rw [hxe, hD]; omega
      unfold staSem
      have : i = 0 ∨ i = 1 ∨ i = 2 ∨ i = 3 := by omega
      rcases this with rfl | rfl | rfl | rfl
      · exact hull_left (hull_left key)
      · exact hull_left (hull_right key)
      · exact hull_right (hull_left key)
      · exact hull_right (hull_right key)
    | tmin => simp [T.add] at hxe
    | tmax => simp [T.add] at hxe
    | tovl => simp [T.add] at hxe

/-- **every program, delays ≥ 0**: no transition appears on any signal earlier than the earliest or later than
    the latest arrival that static timing analysis (`staSem` propagated through the same program) permits
    for the windows of the input transitions -/
theorem sta_window (cfg : WCfg) (ops : List Op) (hg : cfg.Good ops) (env : Nat → Wv) (win : Nat → Win)
    (h : ∀ l, WRel (env l) (win l)) (l : Nat) :
    Within (simWave cfg ops env l) (execG (staSem cfg) ops win l) :=
  (execG_rel_on WRel (waveSem cfg) (staSem cfg) ops
    (fun op hop xs ws hxy => gate_window cfg op hg.delay_nonneg (hg.cap_ge op hop) xs ws hxy) env win h l).2

/-! ## (2) strictly increasing timestamps for polarity-independent delays -/

def PolIndep (cfg : WCfg) : Prop := ∀ l p q, cfg.delay l p q = cfg.delay l false false

def MonoOk (w : Wv) : Prop := w.ok ∧ Incr w.ents

theorem incr_reverse_of_desc {z : List T} (h : Desc z) : Incr z.reverse := by
  unfold Incr Desc at *
  rw [List.pairwise_reverse]
  exact h

theorem gate_mono (cfg : WCfg) (hpol : PolIndep cfg) (op : Op) (hd : ∀ l p q, 0 ≤ cfg.delay l p q) (hc : 4 ≤ cfg.cap op.out)
    (xs : List Wv) (hx : ∀ x ∈ xs, MonoOk x) : MonoOk (waveSem cfg op xs) := by
  have hxo : ∀ x ∈ xs, x.ok := fun x h => (hx x h).1
  refine ⟨waveSem_ok cfg op xs hd hc hxo, ?_⟩
  have hs := slot_ok hxo
  let E := envOf cfg op xs hd hc hs
  have hinc : ∀ i, Incr ((fun i => (slot xs i).ents) i) := by
    intro i
    show Incr (slot xs i).ents
    unfold slot
    rw [List.getD_eq_getElem?_getD]
    cases hx' : xs[i.val]? with
    | none => simp [Wv.empty, Incr]
    | some x => exact (hx x (List.mem_of_getElem? hx')).2
  have hp : PolInd E (fun i => cfg.delay (op.ins.getD (4 + i.val) (op.ins.getD i.val 0)) false false) :=
    ⟨fun i p q => by show opDelays cfg op i.val p q = _; unfold opDelays; exact hpol _ p q⟩
  exact incr_reverse_of_desc (mono_polind E _ hp _ (fun i => (hs i).1) hinc)

/-- **every program**: when no line's delay depends on transition polarity, the timestamps inside every
    waveform are strictly increasing (given strictly increasing input waveforms) -/
theorem mono_timestamps (cfg : WCfg) (hpol : PolIndep cfg) (ops : List Op) (hg : cfg.Good ops) (env : Nat → Wv)
    (h : ∀ l, MonoOk (env l)) (l : Nat) : Incr (simWave cfg ops env l).ents :=
  (execG_inv_on MonoOk (waveSem cfg) ops
    (fun op hop xs hx => gate_mono cfg hpol op hg.delay_nonneg (hg.cap_ge op hop) xs hx) env h l).2

/-- with polarity-DEPENDENT delays the stack may be non-monotone (51, 44, 57): consistent with the property, which
    claims monotonicity only for polarity-independent delays. AND2, operand 0 rises at 19, operand 1 toggles at
    33, 34, 39; delays of line 0 `[[0,0],[0,18]]`, of line 1 `[[18,18],[4,10]]`. -/
example : (waveEval 0x8888 (fun i p q => if i = 0 then (if p && q then 18 else 0) else if i = 1 then (if !p then 18 else if q then 10 else 4) else 0)
    (fun i => if i = 0 then [T.fin 19] else if i = 1 then [T.fin 33, T.fin 34, T.fin 39] else []) (fun _ => T.tmax) 16).1
    = [T.fin 51, T.fin 44, T.fin 57] := by decide +kernel

/-! ## (3) rigid motion: shifting all input transitions by `s` shifts every transition by `s`; scaling all times
and delays by a positive integer factor `k` (in particular a power of two) scales every transition by `k` -/

def MoveRel (k s : Int) (w w' : Wv) : Prop := w.term.isTerm = true ∧ w' = w.aff k s

theorem gate_moves (k s : Int) (hk : 0 < k) (cfg : WCfg) (op : Op) (hd : ∀ l p q, 0 ≤ cfg.delay l p q) (hc : 4 ≤ cfg.cap op.out)
    (xs xs' : List Wv) (hok : ∀ x ∈ xs, x.ok) (hxy : All2 (MoveRel k s) xs xs') :
    MoveRel k s (waveSem cfg op xs) (waveSem ⟨fun l p q => k * cfg.delay l p q, cfg.cap⟩ op xs') := by
  have hxs' : xs' = xs.map (Wv.aff k s) := by
    induction hxy with
    | nil => rfl
    | cons h _ ih =>
      rw [List.map_cons, ← h.2, ih (fun x hx => hok x (List.mem_cons_of_mem _ hx))]
  refine ⟨(waveSem_ok cfg op xs hd hc hok).2, ?_⟩
  rw [hxs']
  exact waveSem_aff k s hk cfg op xs (fun i => (slot_ok hok i).2)

/-- **every program**: rigid motion of all input waveforms (times `t ↦ k·t + s`, delays `d ↦ k·d`, `k > 0`)
    moves every waveform on every signal rigidly. `k = 1`: shift by any amount `s`; `s = 0`: scaling. -/
theorem rigid_motion (k s : Int) (hk : 0 < k) (cfg : WCfg) (ops : List Op) (hg : cfg.Good ops) (env : Nat → Wv)
    (henv : ∀ l, (env l).ok) (l : Nat) :
    simWave ⟨fun l p q => k * cfg.delay l p q, cfg.cap⟩ ops (fun x => (env x).aff k s) l = (simWave cfg ops env l).aff k s := by
  -- carry well-formedness of the reference run along
  have key := execG_rel_on (fun (w : Wv) (w' : Wv) => w.ok ∧ w' = w.aff k s) (waveSem cfg)
    (waveSem ⟨fun l p q => k * cfg.delay l p q, cfg.cap⟩) ops ?_ env (fun x => (env x).aff k s) (fun x => ⟨henv x, rfl⟩) l
  · exact key.2
  · intro op hop xs xs' hxy
    have hok : ∀ x ∈ xs, x.ok := hxy.forall_left (fun _ _ h => h.1)
    refine ⟨waveSem_ok cfg op xs hg.delay_nonneg (hg.cap_ge op hop) hok, ?_⟩
    have h2 : All2 (MoveRel k s) xs xs' := by
      clear hok
      induction hxy with
      | nil => exact .nil
      | cons h _ ih => exact .cons ⟨h.1.2, h.2⟩ ih
    exact (gate_moves k s hk cfg op hg.delay_nonneg (hg.cap_ge op hop) xs xs' hok h2).2

theorem shift_invariance (s : Int) (cfg : WCfg) (ops : List Op) (hg : cfg.Good ops) (env : Nat → Wv)
    (henv : ∀ l, (env l).ok) (l : Nat) :
    simWave cfg ops (fun x => (env x).aff 1 s) l = (simWave cfg ops env l).aff 1 s := by
  have := rigid_motion 1 s (by decide) cfg ops hg env henv l
  simpa using this

theorem T.aff_aff (p q : Int) (t : T) : (t.aff p 0).aff q 0 = t.aff (q * p) 0 := by
  cases t <;> simp [T.aff, Int.mul_assoc]

theorem Wv.aff_aff (p q : Int) (w : Wv) : (w.aff p 0).aff q 0 = w.aff (q * p) 0 := by
  simp [Wv.aff, T.aff_aff, List.map_map, Function.comp_def]

/-- **rational scaling** (every program): two runs whose input times and delays are the multiples `p·` and `q·` of a common
    base (`p, q > 0`) — i.e. one is the other scaled by the rational `p/q`; for coprime `p, q` such a base exists whenever
    both runs have integer tick times — have results in the same ratio: `q · result_p = p · result_q` on every signal.
    In particular scaling by 1/2 (`p = 1, q = 2`): halving all times and delays halves every transition time. -/
theorem rational_scaling (p q : Int) (hp : 0 < p) (hq : 0 < q) (cfg : WCfg) (ops : List Op) (hg : cfg.Good ops) (env : Nat → Wv)
    (henv : ∀ l, (env l).ok) (l : Nat) :
    (simWave ⟨fun l a b => p * cfg.delay l a b, cfg.cap⟩ ops (fun x => (env x).aff p 0) l).aff q 0 =
    (simWave ⟨fun l a b => q * cfg.delay l a b, cfg.cap⟩ ops (fun x => (env x).aff q 0) l).aff p 0 := by
  rw [rigid_motion p 0 hp cfg ops hg env henv l, rigid_motion q 0 hq cfg ops hg env henv l, Wv.aff_aff, Wv.aff_aff, Int.mul_comm]

/-- the scaled result is determined: scaling is injective on waveforms, so the run on the base grid is THE waveform whose
    `k`-fold is the run on the `k`-fold grid ("dividing by k") -/
theorem scale_down_unique (k : Int) (hk : 0 < k) (cfg : WCfg) (ops : List Op) (hg : cfg.Good ops) (env : Nat → Wv)
    (henv : ∀ l, (env l).ok) (l : Nat) (w : Wv)
    (h : w.aff k 0 = simWave ⟨fun l a b => k * cfg.delay l a b, cfg.cap⟩ ops (fun x => (env x).aff k 0) l) :
    w = simWave cfg ops env l := by
  rw [rigid_motion k 0 hk cfg ops hg env henv l] at h
  have hinj : ∀ a b : Wv, a.aff k 0 = b.aff k 0 → a = b := by
    intro a b hab
    cases a with | mk ae at_ => cases b with | mk be bt =>
    simp only [Wv.aff, Wv.mk.injEq] at hab
    have hmap : ∀ (x y : List T), x.map (T.aff k 0) = y.map (T.aff k 0) → x = y := by
      intro x
      induction x with
      | nil => intro y hy; cases y with | nil => rfl | cons _ _ => simp at hy
      | cons a x ih =>
        intro y hy
        cases y with
        | nil => simp at hy
        | cons b y =>
          simp only [List.map_cons, List.cons.injEq] at hy
          rw [T.aff_inj k 0 hk a b hy.1, ih y hy.2]
    have h1 : ae = be := hmap _ _ hab.1
    have h2 : at_ = bt := T.aff_inj k 0 hk _ _ hab.2
    rw [h1, h2]
  exact hinj _ _ h

/-- non-vacuity (scaling by 1/2 and by 3/2): the NAND example on the grids 1, 2 and 3 -/
example :
    (waveSem ⟨fun _ _ _ => 2, fun _ => 4⟩ ⟨0x7777, 7, [0, 1, 9, 9]⟩ [(⟨[T.tmin], T.tmax⟩ : Wv), (⟨[T.fin 6], T.tmax⟩ : Wv), Wv.empty, Wv.empty])
      = (waveSem ⟨fun _ _ _ => 1, fun _ => 4⟩ ⟨0x7777, 7, [0, 1, 9, 9]⟩ [(⟨[T.tmin], T.tmax⟩ : Wv), (⟨[T.fin 3], T.tmax⟩ : Wv), Wv.empty, Wv.empty]).aff 2 0 ∧
    (waveSem ⟨fun _ _ _ => 3, fun _ => 4⟩ ⟨0x7777, 7, [0, 1, 9, 9]⟩ [(⟨[T.tmin], T.tmax⟩ : Wv), (⟨[T.fin 9], T.tmax⟩ : Wv), Wv.empty, Wv.empty]).aff 2 0
      = (waveSem ⟨fun _ _ _ => 2, fun _ => 4⟩ ⟨0x7777, 7, [0, 1, 9, 9]⟩ [(⟨[T.tmin], T.tmax⟩ : Wv), (⟨[T.fin 6], T.tmax⟩ : Wv), Wv.empty, Wv.empty]).aff 3 0 := by
  decide +kernel

/-- non-vacuity: shifting the NAND example of C03 by 7 -/
example : (waveSem ⟨fun _ _ _ => 1, fun _ => 4⟩ ⟨0x7777, 7, [0, 1, 9, 9]⟩
    [(⟨[T.tmin], T.tmax⟩ : Wv).aff 1 7, (⟨[T.fin 3], T.tmax⟩ : Wv).aff 1 7, Wv.empty, Wv.empty])
    = (⟨[T.tmin, T.fin 4], T.tmax⟩ : Wv).aff 1 7 := by decide +kernel

/-! ## memory level: the three statements for the region of every output slot of the real memory layout -/
open KV.MapSound

/-- an extremal finite entry of a well-formed waveform inside a window lies in the window -/
theorem port_entry_in_window {w : Wv} {win : Win} (hok : w.ok) (hw : Within w win) {e : T}
    (he : e ∈ w.ents.filter (· ≠ T.tmin)) : ∃ t lo hi, e = T.fin t ∧ win = some (lo, hi) ∧ lo ≤ t ∧ t ≤ hi := by
  obtain ⟨hm, hne⟩ := List.mem_filter.1 he
  have hne : e ≠ T.tmin := by simpa using hne
  rcases hok.1.2 e hm with h | h
  · exact absurd h hne
  · cases e with
    | fin t =>
      obtain ⟨lo, hi, h1, h2, h3⟩ := hw t hm
      exact ⟨t, lo, hi, rfl, h1, h2, h3⟩
    | tmin => simp [T.isFin] at h
    | tmax => simp [T.isFin] at h
    | tovl => simp [T.isFin] at h

/-- **(1m) static-timing window on memory.** Accepted map, `c_caps_min ≥ 4`, delays ≥ 0; `win l` a window for the input
    waveform of every signal `l` of the stimulus. After ANY propagation the waveform found in the region of output slot `j`
    has all its transitions inside the window static timing analysis computes for the captured signal, and the captured
    earliest arrival `s[4]` / latest stabilisation `s[5]` are the "none" sentinels or lie in that window. -/
theorem sta_window_mem (p : MapIn) (hc : p.check = none) (h4 : 4 ≤ p.capsMin) (delay : Nat → Bool → Bool → Int)
    (hd : ∀ l a b, 0 ≤ delay l a b) (m0 m' : Int → T) (env0 : Nat → Wv) (win : Nat → Win)
    (hst : Stimulus p m0 env0) (hpr : Propagated p delay m0 m') (hw : ∀ l, WRel (env0 l) (win l))
    (j s : Nat) (hjs : (j, s) ∈ p.ppoSrcs) (time : T) :
    let w := rdWave (p.loc j) (p.cap j) m'
    let sta := execG (staSem (wcfg p delay)) (waveProg p) win s
    Within w sta ∧
    ((captureWv w time).eat = T.tmax ∨
      ∃ t lo hi, (captureWv w time).eat = T.fin t ∧ sta = some (lo, hi) ∧ lo ≤ t ∧ t ≤ hi) ∧
    ((captureWv w time).lst = T.tmin ∨
      ∃ t lo hi, (captureWv w time).lst = T.fin t ∧ sta = some (lo, hi) ∧ lo ≤ t ∧ t ≤ hi) := by
  intro w sta
  have hg := wcfg_good p hc h4 delay hd
  have key : WRel w sta := by
    show WRel (rdWave _ _ m') _
    rw [propagated_eq_sim p hc delay m0 m' env0 hst hpr j s hjs]
    exact execG_rel_on WRel (waveSem (wcfg p delay)) (staSem (wcfg p delay)) (waveProg p)
      (fun op hop xs ws hxy => gate_window (wcfg p delay) op hg.delay_nonneg (hg.cap_ge op hop) xs ws hxy) env0 win hw s
  refine ⟨key.2, ?_, ?_⟩
  · rw [capture_spec]
    show specEat w = _ ∨ _
    unfold specEat
    rcases foldl_min_mem (w.ents.filter (· ≠ T.tmin)) T.tmax with h | h
    · exact Or.inl h
    · exact Or.inr (port_entry_in_window key.1 key.2 h)
  · rw [capture_spec]
    show specLst w = _ ∨ _
    unfold specLst
    rcases foldl_max_mem (w.ents.filter (· ≠ T.tmin)) T.tmin with h | h
    · exact Or.inl h
    · exact Or.inr (port_entry_in_window key.1 key.2 h)

/-- **(2m) strictly increasing timestamps on memory**: polarity-independent delays, strictly increasing well-formed input
    waveforms ⇒ the waveform in the region of every output slot is strictly increasing -/
theorem mono_timestamps_mem (p : MapIn) (hc : p.check = none) (h4 : 4 ≤ p.capsMin) (delay : Nat → Bool → Bool → Int)
    (hd : ∀ l a b, 0 ≤ delay l a b) (hpol : ∀ l a b, delay l a b = delay l false false) (m0 m' : Int → T)
    (env0 : Nat → Wv) (hst : Stimulus p m0 env0) (hpr : Propagated p delay m0 m') (hm : ∀ l, MonoOk (env0 l))
    (j s : Nat) (hjs : (j, s) ∈ p.ppoSrcs) : Incr (rdWave (p.loc j) (p.cap j) m').ents := by
  rw [propagated_eq_sim p hc delay m0 m' env0 hst hpr j s hjs]
  exact mono_timestamps (wcfg p delay) hpol (waveProg p) (wcfg_good p hc h4 delay hd) env0 hm s

/-- **(3m) rigid motion on memory**: two propagations on the same map — any implementations, any level-respecting
    orders — the second with all input waveforms moved by `t ↦ k·t + s` and all delays scaled by `k > 0`: the waveform in
    the region of every output slot of the second memory is the moved waveform of the first -/
theorem rigid_motion_mem (k s : Int) (hk : 0 < k) (p : MapIn) (hc : p.check = none) (h4 : 4 ≤ p.capsMin)
    (delay : Nat → Bool → Bool → Int) (hd : ∀ l a b, 0 ≤ delay l a b) (m0 m1 m0' m1' : Int → T) (env0 : Nat → Wv)
    (henv : ∀ l, (env0 l).ok) (hst : Stimulus p m0 env0) (hpr : Propagated p delay m0 m1)
    (hst' : Stimulus p m0' (fun x => (env0 x).aff k s))
    (hpr' : Propagated p (fun l a b => k * delay l a b) m0' m1')
    (j c : Nat) (hjc : (j, c) ∈ p.ppoSrcs) :
    rdWave (p.loc j) (p.cap j) m1' = (rdWave (p.loc j) (p.cap j) m1).aff k s := by
  rw [propagated_eq_sim p hc delay m0 m1 env0 hst hpr j c hjc,
    propagated_eq_sim p hc _ m0' m1' _ hst' hpr' j c hjc]
  exact rigid_motion k s hk (wcfg p delay) (waveProg p) (wcfg_good p hc h4 delay hd) env0 henv c

/-- **all circuits**: (1m)–(3m) for the map record the `SimOps` model builds for ANY well-formed netlist, topological order,
    `strip_forks` / `c_reuse` setting, capacity vector and `c_caps_min ≥ 4` — the certificate hypothesis is discharged by
    `C08.simops_map_accepted` -/
theorem wave_timing_all_circuits (tbl : List PrefixRow) (net : Net) (order : List Nat) (strip : Bool)
    (capsIn : Nat → Nat) (capsMin : Nat) (reuse : Bool) (p : MapIn)
    (hp : p = simopsMap tbl net order strip capsIn capsMin reuse)
    (hwf : net.wfB = true) (ho : orderOKB net order = true) (hf : strip = true → forksOKB net order = true)
    (hr : readsDrivenB tbl net order = true) (h4 : 4 ≤ capsMin)
    (delay : Nat → Bool → Bool → Int) (hd : ∀ l a b, 0 ≤ delay l a b) (m0 m1 : Int → T) (env0 : Nat → Wv)
    (hst : Stimulus p m0 env0) (hpr : Propagated p delay m0 m1) (j c : Nat) (hjc : (j, c) ∈ p.ppoSrcs) :
    (∀ win : Nat → Win, (∀ l, WRel (env0 l) (win l)) →
      Within (rdWave (p.loc j) (p.cap j) m1) (execG (staSem (wcfg p delay)) (waveProg p) win c)) ∧
    ((∀ l a b, delay l a b = delay l false false) → (∀ l, MonoOk (env0 l)) →
      Incr (rdWave (p.loc j) (p.cap j) m1).ents) ∧
    (∀ (k s : Int) (m0' m1' : Int → T), 0 < k → (∀ l, (env0 l).ok) → Stimulus p m0' (fun x => (env0 x).aff k s) →
      Propagated p (fun l a b => k * delay l a b) m0' m1' →
      rdWave (p.loc j) (p.cap j) m1' = (rdWave (p.loc j) (p.cap j) m1).aff k s) := by
  have hc : p.check = none := by
    rw [hp]; exact simopsMap_accepted tbl net order strip capsIn capsMin reuse hwf ho hf hr (by omega)
  have h4' : 4 ≤ p.capsMin := by rw [hp]; exact h4
  refine ⟨fun win hw => (sta_window_mem p hc h4' delay hd m0 m1 env0 win hst hpr hw j c hjc T.tmax).1,
    fun hpol hm => mono_timestamps_mem p hc h4' delay hd hpol m0 m1 env0 hst hpr hm j c hjc,
    fun k s m0' m1' hk henv hst' hpr' =>
      rigid_motion_mem k s hk p hc h4' delay hd m0 m1 m0' m1' env0 henv hst hpr hst' hpr' j c hjc⟩

/-! ### non-vacuity of the memory-level statements: `Wave.memDemo` (strip + reuse; `a` rises at 5, `b` constant 1) -/

/-- (1m): with the window `[5, 5]` on input `a` and none elsewhere, static timing analysis gives `[8, 8]` for the captured
    line, and the output region of the real layout holds transitions only there -/
example (junk : Int → Nat → Wv → (Int → T) → Int → T) :
    Within (rdWave 20 4 (memRun memDemo (waveRW junk) (waveRow (wcfg memDemo memDemoDelay) memDemo)
      (schedOps memDemo [1, 0, 2, 3]) memDemoM0)) (some (8, 8)) := by
  have hw : ∀ l, WRel (inputEnv memDemo memDemoM0 l) (if l = 9 then some (5, 5) else none) := by
    apply memDemo_env_cases (fun l w => WRel w (if l = 9 then some (5, 5) else none))
    · refine ⟨by simp only [Wv.ok, WfRem]; decide +kernel, ?_⟩
      intro t ht
      simp only [List.mem_singleton, T.fin.injEq] at ht
      exact ⟨5, 5, rfl, by omega, by omega⟩
    · refine ⟨by simp only [Wv.ok, WfRem]; decide +kernel, ?_⟩
      intro t ht; simp at ht
    · intro l _ _
      exact ⟨Wv.empty_ok, fun t ht => by simp [Wv.empty] at ht⟩
  have key := (sta_window_mem memDemo memDemo_check (by decide) memDemoDelay memDemoDelay_nonneg memDemoM0 _
    (inputEnv memDemo memDemoM0) _ (stimulus_inputEnv _ _) (memDemo_propagated junk) hw 14 5 (by decide +kernel) T.tmax).1
  have hloc : memDemo.loc 14 = 20 ∧ memDemo.cap 14 = 4 := by decide +kernel
  have hsta : execG (staSem (wcfg memDemo memDemoDelay)) (waveProg memDemo) (fun l => if l = 9 then some (5, 5) else none) 5
      = some (8, 8) := by decide +kernel
  rw [hloc.1, hloc.2, hsta] at key
  exact key

/-- (2m), (3m): the hypotheses hold for the demo (delays are polarity independent, the input waveforms increasing; the
    moved run starts from the moved memory, `stimulus_aff`) -/
example (junk : Int → Nat → Wv → (Int → T) → Int → T) (k s : Int) (hk : 0 < k) (m1' : Int → T)
    (hpr' : Propagated memDemo (fun l a b => k * memDemoDelay l a b) (fun a => (memDemoM0 a).aff k s) m1') :
    Incr (rdWave 20 4 (memRun memDemo (waveRW junk) (waveRow (wcfg memDemo memDemoDelay) memDemo)
      (schedOps memDemo [1, 0, 2, 3]) memDemoM0)).ents ∧
    rdWave 20 4 m1' = ⟨[T.tmin, T.fin (k * 8 + s)], T.tmax⟩ := by
  have hloc : memDemo.loc 14 = 20 ∧ memDemo.cap 14 = 4 := by decide +kernel
  have hm : ∀ l, MonoOk (inputEnv memDemo memDemoM0 l) := by
    apply memDemo_env_cases (fun _ w => MonoOk w)
    · exact ⟨by simp only [Wv.ok, WfRem]; decide +kernel, by simp [Incr]⟩
    · exact ⟨by simp only [Wv.ok, WfRem]; decide +kernel, by simp [Incr]⟩
    · intro l _ _; exact ⟨Wv.empty_ok, by simp [Incr, Wv.empty]⟩
  have h2 := mono_timestamps_mem memDemo memDemo_check (by decide) memDemoDelay memDemoDelay_nonneg (fun _ _ _ => rfl)
    memDemoM0 _ (inputEnv memDemo memDemoM0) (stimulus_inputEnv _ _) (memDemo_propagated junk) hm 14 5 (by decide +kernel)
  have h3 := rigid_motion_mem k s hk memDemo memDemo_check (by decide) memDemoDelay memDemoDelay_nonneg memDemoM0 _ _ m1'
    (inputEnv memDemo memDemoM0) (inputEnv_ok _ _ memDemo_inputs) (stimulus_inputEnv _ _) (memDemo_propagated junk)
    (stimulus_aff k s _ _ _ (stimulus_inputEnv _ _)) hpr' 14 5 (by decide +kernel)
  have h1 := propagated_eq_sim memDemo memDemo_check memDemoDelay memDemoM0 _ _ (stimulus_inputEnv _ _)
    (memDemo_propagated junk) 14 5 (by decide +kernel)
  rw [hloc.1, hloc.2] at h2 h3 h1
  refine ⟨h2, ?_⟩
  rw [h3, h1, memDemo_sim]
  rfl

end KV.C04
