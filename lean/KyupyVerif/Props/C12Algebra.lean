import KyupyVerif.Props.C12
/-! # C12 — the operators form one algebra: operand order and grouping are irrelevant

`Props/C12.lean` shows that every k-operand form (k = 1..4) of the recorded real operators equals the
documented algebra `spec*` applied to the operand list.  This file adds what makes "any number of
operands" one notion instead of four unrelated tables:

* `spec*_perm` — for operand lists of ANY length the documented algebra does not depend on the operand
  order (proved by list-permutation induction, no bound);
* `bp8_*_comm`, `bp8_*_assoc`, `bp8_*3_nested`, `bp8_*4_nested` — the recorded real `bp8v_*` expressions
  with 3 and 4 operands equal the nested 2-operand forms, and the 2-operand forms are commutative and
  associative, on all eight values (complete enumeration in the kernel, `decide +kernel`, lifted by the
  `*_spec` theorems; no sampling);
* `spec*_cons`, `bp8_*_fold` — for operand lists of ANY length the documented algebra is the right fold of the recorded
  REAL 2-operand expression (induction over the list; the code's 1..4-operand forms are instances: `bp8_*4_is_fold`).

A change to `logic.py` that makes one arity disagree with the others (a 3-operand form that is not the fold
of the 2-operand one) breaks `*_nested` even when each arity for itself still had a plausible table. -/
namespace KV.C12
open KV KV.Gen

/-! ## the documented algebra is order-independent for lists of any length -/
theorem foldl_xor_perm (f : V3 → Bool) {xs ys : List V3} (h : xs.Perm ys) (acc : Bool) :
    xs.foldl (fun a v => a ^^ f v) acc = ys.foldl (fun a v => a ^^ f v) acc := by
  induction h generalizing acc with
  | nil => rfl
  | cons x _ ih => simp only [List.foldl_cons]; exact ih _
  | swap x y l =>
    simp only [List.foldl_cons]
    have : ((acc ^^ f y) ^^ f x) = ((acc ^^ f x) ^^ f y) := by
      cases acc <;> cases f x <;> cases f y <;> rfl
    rw [this]
  | trans _ _ ih1 ih2 => exact (ih1 acc).trans (ih2 acc)

theorem specAnd_perm {xs ys : List V3} (h : xs.Perm ys) : specAnd xs = specAnd ys := by
  simp only [specAnd, h.any_eq, h.all_eq]
theorem specOr_perm {xs ys : List V3} (h : xs.Perm ys) : specOr xs = specOr ys := by
  simp only [specOr, h.any_eq]
theorem specXor_perm {xs ys : List V3} (h : xs.Perm ys) : specXor xs = specXor ys := by
  simp only [specXor, h.any_eq, foldl_xor_perm (·.p0) h, foldl_xor_perm (·.p1) h]

/-! ## grouping: k-operand forms are folds of the 2-operand form (all eight values) -/
def all3 (p : V3 → V3 → V3 → Bool) : Bool := V3.all.all fun a => V3.all.all fun b => V3.all.all fun c => p a b c
def all4 (p : V3 → V3 → V3 → V3 → Bool) : Bool :=
  V3.all.all fun a => V3.all.all fun b => V3.all.all fun c => V3.all.all fun d => p a b c d
theorem all3_sound {p} (h : all3 p = true) (a b c : V3) : p a b c = true := by
  simp only [all3, List.all_eq_true] at h
  exact h a (V3.all_complete a) b (V3.all_complete b) c (V3.all_complete c)
theorem all4_sound {p} (h : all4 p = true) (a b c d : V3) : p a b c d = true := by
  simp only [all4, List.all_eq_true] at h
  exact h a (V3.all_complete a) b (V3.all_complete b) c (V3.all_complete c) d (V3.all_complete d)

theorem specAnd3_nested (a b c : V3) : specAnd [a, b, c] = specAnd [specAnd [a, b], c] := by
  simpa using all3_sound (p := fun a b c => specAnd [a, b, c] == specAnd [specAnd [a, b], c]) (by decide +kernel) a b c
theorem specOr3_nested (a b c : V3) : specOr [a, b, c] = specOr [specOr [a, b], c] := by
  simpa using all3_sound (p := fun a b c => specOr [a, b, c] == specOr [specOr [a, b], c]) (by decide +kernel) a b c
theorem specXor3_nested (a b c : V3) : specXor [a, b, c] = specXor [specXor [a, b], c] := by
  simpa using all3_sound (p := fun a b c => specXor [a, b, c] == specXor [specXor [a, b], c]) (by decide +kernel) a b c
theorem specAnd4_nested (a b c d : V3) : specAnd [a, b, c, d] = specAnd [specAnd [a, b], specAnd [c, d]] := by
  simpa using all4_sound (p := fun a b c d => specAnd [a, b, c, d] == specAnd [specAnd [a, b], specAnd [c, d]])
    (by decide +kernel) a b c d
theorem specOr4_nested (a b c d : V3) : specOr [a, b, c, d] = specOr [specOr [a, b], specOr [c, d]] := by
  simpa using all4_sound (p := fun a b c d => specOr [a, b, c, d] == specOr [specOr [a, b], specOr [c, d]])
    (by decide +kernel) a b c d
theorem specXor4_nested (a b c d : V3) : specXor [a, b, c, d] = specXor [specXor [a, b], specXor [c, d]] := by
  simpa using all4_sound (p := fun a b c d => specXor [a, b, c, d] == specXor [specXor [a, b], specXor [c, d]])
    (by decide +kernel) a b c d

/-! ## the recorded real bit-parallel operators: commutative, associative, k-ary = nested binary -/
theorem bp8_and_comm (a b : V3) : (bp8v_and2 (.ofV3 a) (.ofV3 b)).toV3 = (bp8v_and2 (.ofV3 b) (.ofV3 a)).toV3 := by
  rw [bp8_and2_spec, bp8_and2_spec]; exact specAnd_perm (List.Perm.swap b a [])
theorem bp8_or_comm (a b : V3) : (bp8v_or2 (.ofV3 a) (.ofV3 b)).toV3 = (bp8v_or2 (.ofV3 b) (.ofV3 a)).toV3 := by
  rw [bp8_or2_spec, bp8_or2_spec]; exact specOr_perm (List.Perm.swap b a [])
theorem bp8_xor_comm (a b : V3) : (bp8v_xor2 (.ofV3 a) (.ofV3 b)).toV3 = (bp8v_xor2 (.ofV3 b) (.ofV3 a)).toV3 := by
  rw [bp8_xor2_spec, bp8_xor2_spec]; exact specXor_perm (List.Perm.swap b a [])

/-- feeding a result back as an operand: `ofV3 (toV3 r) = r` by `rfl`, so nesting is expressible -/
theorem bp8_and3_nested (a b c : V3) :
    (bp8v_and3 (.ofV3 a) (.ofV3 b) (.ofV3 c)).toV3 = (bp8v_and2 (bp8v_and2 (.ofV3 a) (.ofV3 b)) (.ofV3 c)).toV3 := by
  have h := bp8_and2_spec (bp8v_and2 (.ofV3 a) (.ofV3 b)).toV3 c
  rw [P3.ofV3_toV3] at h; rw [h, bp8_and2_spec, bp8_and3_spec, specAnd3_nested]
theorem bp8_or3_nested (a b c : V3) :
    (bp8v_or3 (.ofV3 a) (.ofV3 b) (.ofV3 c)).toV3 = (bp8v_or2 (bp8v_or2 (.ofV3 a) (.ofV3 b)) (.ofV3 c)).toV3 := by
  have h := bp8_or2_spec (bp8v_or2 (.ofV3 a) (.ofV3 b)).toV3 c
  rw [P3.ofV3_toV3] at h; rw [h, bp8_or2_spec, bp8_or3_spec, specOr3_nested]
theorem bp8_xor3_nested (a b c : V3) :
    (bp8v_xor3 (.ofV3 a) (.ofV3 b) (.ofV3 c)).toV3 = (bp8v_xor2 (bp8v_xor2 (.ofV3 a) (.ofV3 b)) (.ofV3 c)).toV3 := by
  have h := bp8_xor2_spec (bp8v_xor2 (.ofV3 a) (.ofV3 b)).toV3 c
  rw [P3.ofV3_toV3] at h; rw [h, bp8_xor2_spec, bp8_xor3_spec, specXor3_nested]

theorem bp8_and4_nested (a b c d : V3) :
    (bp8v_and4 (.ofV3 a) (.ofV3 b) (.ofV3 c) (.ofV3 d)).toV3 =
      (bp8v_and2 (bp8v_and2 (.ofV3 a) (.ofV3 b)) (bp8v_and2 (.ofV3 c) (.ofV3 d))).toV3 := by
  have h := bp8_and2_spec (bp8v_and2 (.ofV3 a) (.ofV3 b)).toV3 (bp8v_and2 (.ofV3 c) (.ofV3 d)).toV3
  rw [P3.ofV3_toV3, P3.ofV3_toV3] at h
  rw [h, bp8_and2_spec, bp8_and2_spec, bp8_and4_spec, specAnd4_nested]
theorem bp8_or4_nested (a b c d : V3) :
    (bp8v_or4 (.ofV3 a) (.ofV3 b) (.ofV3 c) (.ofV3 d)).toV3 =
      (bp8v_or2 (bp8v_or2 (.ofV3 a) (.ofV3 b)) (bp8v_or2 (.ofV3 c) (.ofV3 d))).toV3 := by
  have h := bp8_or2_spec (bp8v_or2 (.ofV3 a) (.ofV3 b)).toV3 (bp8v_or2 (.ofV3 c) (.ofV3 d)).toV3
  rw [P3.ofV3_toV3, P3.ofV3_toV3] at h
  rw [h, bp8_or2_spec, bp8_or2_spec, bp8_or4_spec, specOr4_nested]
theorem bp8_xor4_nested (a b c d : V3) :
    (bp8v_xor4 (.ofV3 a) (.ofV3 b) (.ofV3 c) (.ofV3 d)).toV3 =
      (bp8v_xor2 (bp8v_xor2 (.ofV3 a) (.ofV3 b)) (bp8v_xor2 (.ofV3 c) (.ofV3 d))).toV3 := by
  have h := bp8_xor2_spec (bp8v_xor2 (.ofV3 a) (.ofV3 b)).toV3 (bp8v_xor2 (.ofV3 c) (.ofV3 d)).toV3
  rw [P3.ofV3_toV3, P3.ofV3_toV3] at h
  rw [h, bp8_xor2_spec, bp8_xor2_spec, bp8_xor4_spec, specXor4_nested]

/-- associativity of the real 2-operand AND (via the 3-operand form and order independence) -/
theorem bp8_and_assoc (a b c : V3) :
    (bp8v_and2 (bp8v_and2 (.ofV3 a) (.ofV3 b)) (.ofV3 c)).toV3 =
      (bp8v_and2 (.ofV3 a) (bp8v_and2 (.ofV3 b) (.ofV3 c))).toV3 := by
  have h1 := bp8_and2_spec (bp8v_and2 (.ofV3 a) (.ofV3 b)).toV3 c
  have h2 := bp8_and2_spec a (bp8v_and2 (.ofV3 b) (.ofV3 c)).toV3
  rw [P3.ofV3_toV3] at h1 h2
  rw [h1, h2, bp8_and2_spec, bp8_and2_spec, ← specAnd3_nested,
    specAnd_perm (List.Perm.swap (specAnd [b, c]) a []), ← specAnd3_nested]
  exact specAnd_perm (List.perm_append_comm (l₁ := [a]) (l₂ := [b, c]))
theorem bp8_or_assoc (a b c : V3) :
    (bp8v_or2 (bp8v_or2 (.ofV3 a) (.ofV3 b)) (.ofV3 c)).toV3 =
      (bp8v_or2 (.ofV3 a) (bp8v_or2 (.ofV3 b) (.ofV3 c))).toV3 := by
  have h1 := bp8_or2_spec (bp8v_or2 (.ofV3 a) (.ofV3 b)).toV3 c
  have h2 := bp8_or2_spec a (bp8v_or2 (.ofV3 b) (.ofV3 c)).toV3
  rw [P3.ofV3_toV3] at h1 h2
  rw [h1, h2, bp8_or2_spec, bp8_or2_spec, ← specOr3_nested,
    specOr_perm (List.Perm.swap (specOr [b, c]) a []), ← specOr3_nested]
  exact specOr_perm (List.perm_append_comm (l₁ := [a]) (l₂ := [b, c]))
theorem bp8_xor_assoc (a b c : V3) :
    (bp8v_xor2 (bp8v_xor2 (.ofV3 a) (.ofV3 b)) (.ofV3 c)).toV3 =
      (bp8v_xor2 (.ofV3 a) (bp8v_xor2 (.ofV3 b) (.ofV3 c))).toV3 := by
  have h1 := bp8_xor2_spec (bp8v_xor2 (.ofV3 a) (.ofV3 b)).toV3 c
  have h2 := bp8_xor2_spec a (bp8v_xor2 (.ofV3 b) (.ofV3 c)).toV3
  rw [P3.ofV3_toV3] at h1 h2
  rw [h1, h2, bp8_xor2_spec, bp8_xor2_spec, ← specXor3_nested,
    specXor_perm (List.Perm.swap (specXor [b, c]) a []), ← specXor3_nested]
  exact specXor_perm (List.perm_append_comm (l₁ := [a]) (l₂ := [b, c]))

/-! ## any number of operands: the documented algebra is the fold of the 2-operand operator

`spec*_cons` (lists of ANY length, induction): putting one more operand in front equals the 2-operand operator applied to
that operand and the result for the rest.  With `bp8_*2_spec` this gives `bp8_*_fold`: for every operand list the documented
algebra equals the right fold of the recorded REAL 2-operand bit-parallel expression — so the 1..4-operand forms of the code
(`bp8_*k_spec`) are instances of one unbounded family, not four tables. -/
theorem and_key (xs : List V3) (h0 : xs.any V3.isZero = false) (hu : xs.any V3.unk = false) :
    ((xs.all (·.p0) || xs.any (·.p2)) = true) ∧ ((xs.all (·.p1) || xs.any (·.p2)) = true) ∧
    (((xs.all (·.p0) ^^ xs.all (·.p1)) && !xs.any (·.p2)) = false) := by
  induction xs with
  | nil => simp
  | cons x xs ih =>
    simp only [List.any_cons, Bool.or_eq_false_iff] at h0 hu
    obtain ⟨i1, i2, i3⟩ := ih h0.2 hu.2
    rcases x with ⟨a, b, c⟩
    have hz := h0.1; have hk := hu.1
    simp only [V3.isZero, V3.unk] at hz hk
    simp only [List.all_cons, List.any_cons]
    revert i1 i2 i3 hz hk
    cases a <;> cases b <;> cases c <;> cases xs.all (·.p0) <;> cases xs.all (·.p1) <;> cases xs.any (·.p2) <;> simp

theorem specAnd_cons (x : V3) (xs : List V3) : specAnd (x :: xs) = specAnd [x, specAnd xs] := by
  by_cases h0 : xs.any V3.isZero = true
  · have : specAnd xs = V3.zero := by simp [specAnd, h0]
    rw [this]; simp [specAnd, h0, V3.isZero, V3.zero]
  · have h0' : xs.any V3.isZero = false := by simpa using h0
    by_cases hu : xs.any V3.unk = true
    · have : specAnd xs = V3.unknown := by simp [specAnd, h0', hu]
      rw [this]; rcases x with ⟨a, b, c⟩
      simp only [specAnd, List.any_cons, h0', hu, List.any_nil, V3.isZero, V3.unk, V3.unknown, V3.zero]
      cases a <;> cases b <;> cases c <;> simp
    · have hu' : xs.any V3.unk = false := by simpa using hu
      obtain ⟨i1, i2, i3⟩ := and_key xs h0' hu'
      have e : specAnd xs = ⟨xs.all (·.p0), xs.all (·.p1), xs.any (·.p2)⟩ := by simp [specAnd, h0', hu']
      rw [e]; rcases x with ⟨a, b, c⟩
      simp only [specAnd, List.any_cons, List.all_cons, h0', hu', List.any_nil, List.all_nil, V3.isZero, V3.unk, V3.unknown, V3.zero]
      revert i1 i2 i3
      cases a <;> cases b <;> cases c <;> cases xs.all (·.p0) <;> cases xs.all (·.p1) <;> cases xs.any (·.p2) <;> simp

theorem or_key (xs : List V3) (h1 : xs.any V3.isOne = false) (hu : xs.any V3.unk = false) :
    ((xs.any (·.p0) && xs.any (·.p1) && !xs.any (·.p2)) = false) ∧
    (((xs.any (·.p0) ^^ xs.any (·.p1)) && !xs.any (·.p2)) = false) := by
  induction xs with
  | nil => simp
  | cons x xs ih =>
    simp only [List.any_cons, Bool.or_eq_false_iff] at h1 hu
    obtain ⟨i1, i2⟩ := ih h1.2 hu.2
    rcases x with ⟨a, b, c⟩
    have hz := h1.1; have hk := hu.1
    simp only [V3.isOne, V3.unk] at hz hk
    simp only [List.any_cons]
    revert i1 i2 hz hk
    cases a <;> cases b <;> cases c <;> cases xs.any (·.p0) <;> cases xs.any (·.p1) <;> cases xs.any (·.p2) <;> simp

theorem specOr_cons (x : V3) (xs : List V3) : specOr (x :: xs) = specOr [x, specOr xs] := by
  by_cases h0 : xs.any V3.isOne = true
  · have : specOr xs = V3.one := by simp [specOr, h0]
    rw [this]; simp [specOr, h0, V3.isOne, V3.one]
  · have h0' : xs.any V3.isOne = false := by simpa using h0
    by_cases hu : xs.any V3.unk = true
    · have : specOr xs = V3.unknown := by simp [specOr, h0', hu]
      rw [this]; rcases x with ⟨a, b, c⟩
      simp only [specOr, List.any_cons, h0', hu, List.any_nil, V3.isOne, V3.unk, V3.unknown, V3.one]
      cases a <;> cases b <;> cases c <;> simp
    · have hu' : xs.any V3.unk = false := by simpa using hu
      obtain ⟨i1, i2⟩ := or_key xs h0' hu'
      have e : specOr xs = ⟨xs.any (·.p0), xs.any (·.p1), xs.any (·.p2)⟩ := by simp [specOr, h0', hu']
      rw [e]; rcases x with ⟨a, b, c⟩
      simp only [specOr, List.any_cons, h0', hu', List.any_nil, V3.isOne, V3.unk, V3.unknown, V3.one]
      revert i1 i2
      cases a <;> cases b <;> cases c <;> cases xs.any (·.p0) <;> cases xs.any (·.p1) <;> cases xs.any (·.p2) <;> simp

theorem foldl_xor_acc (f : V3 → Bool) (xs : List V3) (acc : Bool) :
    xs.foldl (fun a v => a ^^ f v) acc = (acc ^^ xs.foldl (fun a v => a ^^ f v) false) := by
  induction xs generalizing acc with
  | nil => simp
  | cons x xs ih => simp only [List.foldl_cons]; rw [ih (acc ^^ f x), ih (false ^^ f x)]; cases acc <;> cases f x <;> simp

theorem xor_key (xs : List V3) (hu : xs.any V3.unk = false) :
    (((xs.foldl (fun a v => a ^^ v.p0) false ^^ xs.foldl (fun a v => a ^^ v.p1) false) && !xs.any (·.p2)) = false) := by
  induction xs with
  | nil => simp
  | cons x xs ih =>
    simp only [List.any_cons, Bool.or_eq_false_iff] at hu
    have i1 := ih hu.2
    rcases x with ⟨a, b, c⟩
    have hk := hu.1
    simp only [V3.unk] at hk
    simp only [List.any_cons, List.foldl_cons]
    rw [foldl_xor_acc (·.p0) xs, foldl_xor_acc (·.p1) xs]
    revert i1 hk
    cases a <;> cases b <;> cases c <;> cases xs.foldl (fun a v => a ^^ v.p0) false <;>
      cases xs.foldl (fun a v => a ^^ v.p1) false <;> cases xs.any (·.p2) <;> simp

theorem specXor_cons (x : V3) (xs : List V3) : specXor (x :: xs) = specXor [x, specXor xs] := by
  by_cases hu : xs.any V3.unk = true
  · have : specXor xs = V3.unknown := by simp [specXor, hu]
    rw [this]; rcases x with ⟨a, b, c⟩
    simp only [specXor, List.any_cons, hu, List.any_nil, V3.unk, V3.unknown]
    cases a <;> cases b <;> cases c <;> simp
  · have hu' : xs.any V3.unk = false := by simpa using hu
    have i1 := xor_key xs hu'
    have e : specXor xs = ⟨xs.foldl (fun a v => a ^^ v.p0) false, xs.foldl (fun a v => a ^^ v.p1) false, xs.any (·.p2)⟩ := by
      simp [specXor, hu']
    rw [e]; rcases x with ⟨a, b, c⟩
    simp only [specXor, List.any_cons, hu', List.any_nil, List.foldl_cons, List.foldl_nil, V3.unk, V3.unknown]
    rw [foldl_xor_acc (·.p0) xs, foldl_xor_acc (·.p1) xs]
    revert i1
    cases a <;> cases b <;> cases c <;> cases xs.foldl (fun a v => a ^^ v.p0) false <;>
      cases xs.foldl (fun a v => a ^^ v.p1) false <;> cases xs.any (·.p2) <;> simp

theorem bp8_and_fold (xs : List V3) :
    specAnd xs = xs.foldr (fun x acc => (bp8v_and2 (.ofV3 x) (.ofV3 acc)).toV3) V3.one := by
  induction xs with
  | nil => rfl
  | cons x xs ih => rw [specAnd_cons, List.foldr_cons, ← ih, bp8_and2_spec]
theorem bp8_or_fold (xs : List V3) :
    specOr xs = xs.foldr (fun x acc => (bp8v_or2 (.ofV3 x) (.ofV3 acc)).toV3) V3.zero := by
  induction xs with
  | nil => rfl
  | cons x xs ih => rw [specOr_cons, List.foldr_cons, ← ih, bp8_or2_spec]
theorem bp8_xor_fold (xs : List V3) :
    specXor xs = xs.foldr (fun x acc => (bp8v_xor2 (.ofV3 x) (.ofV3 acc)).toV3) V3.zero := by
  induction xs with
  | nil => rfl
  | cons x xs ih => rw [specXor_cons, List.foldr_cons, ← ih, bp8_xor2_spec]

/-- the real 4-operand expression is the fold of the real 2-operand one (instance of `bp8_and_fold`) -/
theorem bp8_and4_is_fold (a b c d : V3) :
    (bp8v_and4 (.ofV3 a) (.ofV3 b) (.ofV3 c) (.ofV3 d)).toV3 =
      [a, b, c, d].foldr (fun x acc => (bp8v_and2 (.ofV3 x) (.ofV3 acc)).toV3) V3.one := by
  rw [bp8_and4_spec, bp8_and_fold]
theorem bp8_or4_is_fold (a b c d : V3) :
    (bp8v_or4 (.ofV3 a) (.ofV3 b) (.ofV3 c) (.ofV3 d)).toV3 =
      [a, b, c, d].foldr (fun x acc => (bp8v_or2 (.ofV3 x) (.ofV3 acc)).toV3) V3.zero := by
  rw [bp8_or4_spec, bp8_or_fold]
theorem bp8_xor4_is_fold (a b c d : V3) :
    (bp8v_xor4 (.ofV3 a) (.ofV3 b) (.ofV3 c) (.ofV3 d)).toV3 =
      [a, b, c, d].foldr (fun x acc => (bp8v_xor2 (.ofV3 x) (.ofV3 acc)).toV3) V3.zero := by
  rw [bp8_xor4_spec, bp8_xor_fold]

/-- non-vacuity: a five-operand list (longer than any form the code offers) -/
example : specXor [V3.one, ⟨true, false, true⟩, V3.zero, V3.one, ⟨false, true, true⟩] = ⟨true, true, true⟩ := by decide

/-! ## the same for the 4-valued storage format (`bp4v_*`) -/
theorem any_p2_toV3 (xs : List V2) : (xs.map V2.toV3).any (·.p2) = false := by
  induction xs with
  | nil => rfl
  | cons x xs ih => simp [List.any_cons, V2.toV3, ih]

theorem toV3_ofV3_of_p2 (r : V3) (h : r.p2 = false) : (V2.ofV3 r).toV3 = r := by
  rcases r with ⟨a, b, c⟩; simp only at h; subst h; rfl

theorem specAnd_p2_toV3 (xs : List V2) : (specAnd (xs.map V2.toV3)).p2 = false := by
  unfold specAnd; split
  · rfl
  · split
    · rfl
    · exact any_p2_toV3 xs
theorem specOr_p2_toV3 (xs : List V2) : (specOr (xs.map V2.toV3)).p2 = false := by
  unfold specOr; split
  · rfl
  · split
    · rfl
    · exact any_p2_toV3 xs
theorem specXor_p2_toV3 (xs : List V2) : (specXor (xs.map V2.toV3)).p2 = false := by
  unfold specXor; split
  · rfl
  · exact any_p2_toV3 xs

theorem spec4And_cons (x : V2) (xs : List V2) : spec4And (x :: xs) = spec4And [x, spec4And xs] := by
  simp only [spec4And, List.map_cons, List.map_nil]
  rw [toV3_ofV3_of_p2 _ (specAnd_p2_toV3 xs), ← specAnd_cons]
theorem spec4Or_cons (x : V2) (xs : List V2) : spec4Or (x :: xs) = spec4Or [x, spec4Or xs] := by
  simp only [spec4Or, List.map_cons, List.map_nil]
  rw [toV3_ofV3_of_p2 _ (specOr_p2_toV3 xs), ← specOr_cons]
theorem spec4Xor_cons (x : V2) (xs : List V2) : spec4Xor (x :: xs) = spec4Xor [x, spec4Xor xs] := by
  simp only [spec4Xor, List.map_cons, List.map_nil]
  rw [toV3_ofV3_of_p2 _ (specXor_p2_toV3 xs), ← specXor_cons]

/-- 4-valued storage: for operand lists of ANY length the 4-valued algebra is the right fold of the recorded REAL
    2-operand `bp4v_*` expression -/
theorem bp4_and_fold (xs : List V2) :
    spec4And xs = xs.foldr (fun x acc => (bp4v_and2 (.ofV2 x) (.ofV2 acc)).toV2) ⟨true, true⟩ := by
  induction xs with
  | nil => rfl
  | cons x xs ih => rw [spec4And_cons, List.foldr_cons, ← ih, bp4_and2_spec]
theorem bp4_or_fold (xs : List V2) :
    spec4Or xs = xs.foldr (fun x acc => (bp4v_or2 (.ofV2 x) (.ofV2 acc)).toV2) ⟨false, false⟩ := by
  induction xs with
  | nil => rfl
  | cons x xs ih => rw [spec4Or_cons, List.foldr_cons, ← ih, bp4_or2_spec]
theorem bp4_xor_fold (xs : List V2) :
    spec4Xor xs = xs.foldr (fun x acc => (bp4v_xor2 (.ofV2 x) (.ofV2 acc)).toV2) ⟨false, false⟩ := by
  induction xs with
  | nil => rfl
  | cons x xs ih => rw [spec4Xor_cons, List.foldr_cons, ← ih, bp4_xor2_spec]
theorem bp4_or4_is_fold (a b c d : V2) :
    (bp4v_or4 (.ofV2 a) (.ofV2 b) (.ofV2 c) (.ofV2 d)).toV2 =
      [a, b, c, d].foldr (fun x acc => (bp4v_or2 (.ofV2 x) (.ofV2 acc)).toV2) ⟨false, false⟩ := by
  rw [bp4_or4_spec, bp4_or_fold]
theorem bp4_and4_is_fold (a b c d : V2) :
    (bp4v_and4 (.ofV2 a) (.ofV2 b) (.ofV2 c) (.ofV2 d)).toV2 =
      [a, b, c, d].foldr (fun x acc => (bp4v_and2 (.ofV2 x) (.ofV2 acc)).toV2) ⟨true, true⟩ := by
  rw [bp4_and4_spec, bp4_and_fold]
theorem bp4_xor4_is_fold (a b c d : V2) :
    (bp4v_xor4 (.ofV2 a) (.ofV2 b) (.ofV2 c) (.ofV2 d)).toV2 =
      [a, b, c, d].foldr (fun x acc => (bp4v_xor2 (.ofV2 x) (.ofV2 acc)).toV2) ⟨false, false⟩ := by
  rw [bp4_xor4_spec, bp4_xor_fold]

/-! ## the same for the array storage format (complete tables of the real `_mv_*`), and agreement of the formats for any length -/
theorem ofCode_code (v : V3) : V3.ofCode v.code = v := by
  rcases v with ⟨a, b, c⟩; cases a <;> cases b <;> cases c <;> decide

/-- array storage format: one application of the complete table of the real 2-operand array operator -/
def mvBin (t : Nat) (x acc : V3) : V3 := V3.ofCode (tab t (x.code + 8 * acc.code))

theorem mv_and_fold (xs : List V3) : specAnd xs = xs.foldr (mvBin mv_and2) V3.one := by
  induction xs with
  | nil => rfl
  | cons x xs ih => rw [specAnd_cons, List.foldr_cons, ← ih, mvBin, mv_and2_spec, ofCode_code]
theorem mv_or_fold (xs : List V3) : specOr xs = xs.foldr (mvBin mv_or2) V3.zero := by
  induction xs with
  | nil => rfl
  | cons x xs ih => rw [specOr_cons, List.foldr_cons, ← ih, mvBin, mv_or2_spec, ofCode_code]
theorem mv_xor_fold (xs : List V3) : specXor xs = xs.foldr (mvBin mv_xor2) V3.zero := by
  induction xs with
  | nil => rfl
  | cons x xs ih => rw [specXor_cons, List.foldr_cons, ← ih, mvBin, mv_xor2_spec, ofCode_code]

/-- both storage formats, any number of operands: folding the real array table and folding the real bit-parallel
    expression give the same value -/
theorem formats_agree_fold_and (xs : List V3) :
    xs.foldr (mvBin mv_and2) V3.one = xs.foldr (fun x acc => (bp8v_and2 (.ofV3 x) (.ofV3 acc)).toV3) V3.one := by
  rw [← mv_and_fold, ← bp8_and_fold]
theorem formats_agree_fold_or (xs : List V3) :
    xs.foldr (mvBin mv_or2) V3.zero = xs.foldr (fun x acc => (bp8v_or2 (.ofV3 x) (.ofV3 acc)).toV3) V3.zero := by
  rw [← mv_or_fold, ← bp8_or_fold]
theorem formats_agree_fold_xor (xs : List V3) :
    xs.foldr (mvBin mv_xor2) V3.zero = xs.foldr (fun x acc => (bp8v_xor2 (.ofV3 x) (.ofV3 acc)).toV3) V3.zero := by
  rw [← mv_xor_fold, ← bp8_xor_fold]

/-! ## De Morgan duality for any number of operands -/
/-- De Morgan for operand lists of ANY length (the 1..4-operand statements of `Props/C12.lean` are instances) -/
theorem de_morgan_and_any (xs : List V3) : specNot (specAnd xs) = specOr (xs.map specNot) := by
  induction xs with
  | nil => rfl
  | cons x xs ih => rw [specAnd_cons, de_morgan_and2, ih, List.map_cons, ← specOr_cons]
theorem de_morgan_or_any (xs : List V3) : specNot (specOr xs) = specAnd (xs.map specNot) := by
  induction xs with
  | nil => rfl
  | cons x xs ih => rw [specOr_cons, de_morgan_or2, ih, List.map_cons, ← specAnd_cons]

/-- non-vacuity / sanity: RISE and FALL give a positive pulse under AND in either order and grouping -/
example : specAnd [⟨true, false, true⟩, ⟨false, true, true⟩, V3.one] = ⟨false, false, true⟩ := by decide

end KV.C12
