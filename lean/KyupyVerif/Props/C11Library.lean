import KyupyVerif.Props.C11
import KyupyVerif.Props.C10Datasheet
import KyupyVerif.Proofs.VerilogLib5
import KyupyVerif.Proofs.VerilogLib6
import KyupyVerif.Proofs.VerilogLibFit
import KyupyVerif.Proofs.FormatEquiv
import KyupyVerif.Proofs.FormatEquiv2
import KyupyVerif.Proofs.FormatEquiv3
import KyupyVerif.Proofs.FormatEquiv4
import KyupyVerif.Proofs.FormatEquiv5
/-! # C11 (capstone) — structural Verilog over a CELL LIBRARY: text → parse → `resolve_tlib_cells` → `SimOps` → `LogicSim`
computes the DATASHEET denotation of the module

Composition of C11 (`verilog_text_to_netlist`, `verilog_parsed_sem`), C10 (`resolve_sem`, `resolve_datasheet_sem`), C19 (the
generated library tables: `family functions on the real SimOps programs`, through `implMatches_iff_datasheet`) and C01/C02
(`sim_is_the_labelling` = `logic_all_circuits` + `solves_iff_consistent`).

Objects.  `verilogNNet cfg tl ports stmts` (Model/VerilogLib.lean) — the canonical dump WITH node names of the circuit the parser
model builds (`verilogNet` + names): the object the model `Transform.resolveCells lib` of `resolve_tlib_cells` works on.
`VModelLib isLib row tl ports stmts a σ` — the **datasheet denotation** of the module, written without any circuit: `σ` gives
every output `(idx, f)` of an instance of a library cell type `T` the value `(DS.datasheet (DS.classify (DS.baseName T)) pins)[idx]`
of the values `σ` gives the signals / constants on the instance's input pins `0 … n-1` (the hand-written data-book reading of the
cell NAME, Model/Datasheet.lean; `pins` = pin names of the table row `row T`); every other instance (a simulation primitive or a
state element by its kind name), input port bits, assign pairs and undriven names are read as in `VModel` (C11).

* **Theorem** (kernel-checked, this file):
  - `verilog_parsed_sem_holes` — **(a) the hole-set version of `verilog_parsed_sem`**: for ANY set `HI` of instances and the set
    `S` of their nodes, the labellings of `verilogNet …` that satisfy the gate equation of every line not driven by a node in `S`
    correspond one-to-one to the environments satisfying every equation of the module except those of the instances in `HI`
    (`VModelOff`).  `verilog_parsed_sem` is the case `HI = ∅` (its proof was generalised, not repeated:
    Proofs/VerilogSem.lean `v_model_circ_off`, `v_circ_model_off`; Proofs/CircLabel.lean `circ_*_off`).
    `verilog_parsed_sem_lib` — the same in the vocabulary of C10: `ConsOff (verilogNNet …) (library-cell nodes)` with the assignment
    per node ⇔ `VModelOff (library instances)`.
  - `verilog_resolved_rel` — **(b)** composition with `C10.resolve_sem`: the consistent labellings of the RESOLVED circuit are
    exactly (restriction / extension, same values on the original lines, same assignment on the original nodes) the labellings
    of environments `σ` that satisfy the module outside the library instances and give every library instance the RELATIONAL
    meaning `ImplMatches` of its implementation circuit.  Any value domain / op algebra.
    `verilog_resolved_rel_general` — **(b')** the same composed with `C10.resolve_sem_general` (hypothesis `resolveGenOKB`: substitutions
    that remove lines, instances and dangling logic — ignored input pins, cells without designated cell), along the index maps `ρ`.
  - `verilog_resolved_datasheet` — **(c)** the datasheet step (2-valued): with the certificate `InstCert` of
    `C10.resolve_datasheet_sem` for every library-cell node, "relational meaning of the implementation" becomes the module-level
    equation of `VModelLib` (`Proofs/VerilogLib3.lean: cellDatasheet_iff_module` — pins by NAME of the signal connected).
  - `verilog_library_end_to_end` — **(d)** composition with C01/C02: for every topological order of the RESOLVED circuit that
    schedules every line and every stimulus (constant slot 0): there is exactly ONE datasheet model `σ` of the module under the
    assignment the stimulus holds; the 2-valued `LogicSim` result of the `SimOps` model on the resolved circuit is `σ` of the line's
    signal on EVERY line of the parsed circuit (all of them survive the resolution with their index), and what is captured at
    every interface node (output port bit, data pin of a flip-flop / latch that is a primitive state element) is what the module
    observes (`vCaptures`).  `verilog_library_text_end_to_end` — the same for the circuit built from the model's reading of the
    printed module TEXT (`verilog_text_to_nnet`; any layout by `verilog_text_layout_irrelevant`).
  - `verilog_library_by_name` / `verilog_library_end_to_end_by_name` — **(e) library pins BY NAME** (audit-2 finding 8): `VModelLib`
    reads the pins of a library instance by INDEX under the pin table `tl`, its data-book function is written over the pin NAMES of
    the table row; inside `tlFitsB` (below) `VModelLib` IS `VModelLibN` (Model/VerilogLibFit.lean), the denotation in which input `k`
    of the data-book function is the signal connected to the pin NAMED `(row ty).inNames[k]` and the output NAMED
    `(row ty).outNames[k]` drives the signal connected to it — no `tl` in the reading of library pins
    (Proofs/VerilogLibFit.lean `vModelLib_iff_byName`); (d) restated with `VModelLibN`.  The crossed pin table of the audit witness
    (`exTLx`: every other hypothesis true, index reading `b1 ∨ (a ∧ b2)`) has `tlFitsB = false` (kernel-checked example).
  - `vArityLib_of_vArity` — `vArityB` (C11) implies the arity domain `vArityLibB` of the capstone.
  - `bench_verilog_equiv_partial` — "either format", the gate clause: the primitive-library instance rendering a bench gate statement
    drives its name and computes the same value.  `bench_verilog_equiv`, `bench_verilog_interface_positions`, `bench_verilog_captures`,
    `bench_verilog_sim_equiv` (section `FormatEquiv` at the END of this file, with its own header) — the NETLIST-level statement: the
    bench and the Verilog rendering of one netlist description of the common fragment `commonNlB` have the same models, the same
    interface positions, the same observations, and (both renderings building, both circuits scheduled) the same 2-valued `LogicSim`
    results at the interface.
  - non-vacuity (section `Example`): NANGATE `AOI21_X1` feeding `INV_X1` (real implementation dumps, rows of the generated tables),
    and the same with a flip-flop `DFF` as PRIMITIVE state element in a feedback loop: every hypothesis by `decide +kernel`, the
    theorem applied (from the text; line value resp. captured values = those of the datasheet model the evaluator computes).
  - `verilog_lib_checker_sound` — the driver's acceptance check `vModelLibB` accepts only datasheet models;
    `verilog_lib_certs_sound` — the driver's Boolean certificate check `certsB` implies the hypothesis `InstCert` of every library-cell node.
* **Hypotheses that remain** (all decidable; evaluated by the driver on every generated case, harness/c11.py `library_sem`):
  `verilogOKB` (the fragment of `verilog_parsed_sem`); `libCleanB` (no library cell is called `input` / `output` / `__fork__` /
  `__const0__` / `__const1__`, no library instance has a kind name containing `dff` / `latch`); `NNet.wf` of the parsed dump;
  `resolveOKB` (every substitution along the loop of `resolve_tlib_cells` removes nothing — as `C10.resolve_sem`; an instance with
  an unconnected output whose logic dangles is outside); the result `h'` of the model of `resolve_tlib_cells`; `InstCert` for every
  library-cell node (listed combinational family, implementation acyclic and described by its row of the generated C19 tables,
  ALL input pins connected); `h'.net.sNodes = (verilogNet …).sNodes` (the resolved circuit has the same interface nodes in the
  same order: no implementation adds a state element); `orderOKB` / `forksOKB` / `linesDrivenB` of the resolved circuit and the
  real topological order; the constant slot of the stimulus holds 0;
  `tlFitsB (libHas lib) row tl stmts` (audit-2 finding 8; last but one hypothesis of (d) and of the text version): for every library
  instance the pin table `tl` maps the `k`-th input name of its table row to `(k, input)`, the `k`-th output name to `(k, output)`, and
  every pin the instance connects is a name of the row — (d) is TRUE without it (the proof does not use it), but only with it is
  `VModelLib` the reading by pin name (e); `vArityLibB (libHas lib) tl stmts` (known finding D33; last hypothesis; a DOMAIN
  hypothesis, not used by the proof): every instance that is neither a library cell nor a state element — i.e. stays a simulation
  primitive — has its connected input pins at indices 0..3; without it a primitive `AND5` next to certified cells is read (by model
  and simulator alike) as the AND of its first four pins (example `exS5`).  Library instances are exempt (`AOI222` has six pins:
  their meaning is the data-book function over all pins, realised by the certified implementation circuit).
  NOT covered: sequential library cells (`DFF_X1` … as LIBRARY cells: a flip-flop is covered only as a primitive state element, i.e.
  when its kind is not in `lib`), cells outside the listed families (tri-state, ties, decoders, …), unconnected input pins of
  library instances, Verilog outside `verilogOKB`.
* **Correspondence** (harness/c11.py `library_sem`, differential): per generated Verilog case over the built-in libraries that falls
  inside the hypotheses (counted, tags `library-sem:*`): the model's `σ` (driver `verilogsemlib`: evaluator `vEvalLib`, accepted by
  `vModelLibB`, sound by `verilog_lib_checker_sound`) observed at output ports and state elements == the REAL `LogicSim(m=2)` on the
  REAL parsed + resolved circuit on sampled rows; the model's resolved dump == the real resolved dump.  Mismatch = broken tie.
  `tlFitsB` and `vArityLibB` are flags 10 and 11 of the driver answer, `tlFitsB` evaluated on the REAL pin table
  `tlib.cells[kind][1]` the harness sends against the generated table row (tags `library-sem:tlFits=*`, `library-sem:vArityLib=*`;
  `library-sem:tlExact=*`: the real table has exactly as many entries as the row has pins); a case inside the fragment whose
  library instances are all certified but with `tlFitsB` or `tlExactB` false = broken tie (`library_sem: pin table`).
  What remains trusted: `describesB` (the dump handed to the model is the implementation whose `SimOps` rows were dumped into the
  tables — evaluated per cell, C10 stream `ds-cert`), the correspondence of `resolveCells` / the parser model with the real code. -/
namespace KV.C11
open KV KV.Netlist KV.Transform KV.TL KV.DS KV.Sig

/-- **from TEXT**: the dump with names of the circuit built from the model's reading of the printed module text is `verilogNNet` of
the transformed statement list — for texts inside the raise guard (`hpos`, `hrok`: `verilog_text_accepted`) -/
theorem verilog_text_to_nnet (cfg : Cfg) (tl : TL) (m : KV.VerilogText.VModule) (rs : List RStmt)
    (hv : KV.VerilogText.validModule m = true) (hr : KV.VerilogText.toRs m.stmts = some rs)
    (hpos : m.stmts.any KV.VerilogText.VStmt.hasPos = false) (hrok : rs.all RStmt.ok = true) :
    (KV.VerilogText.circOfText cfg tl (KV.VerilogText.printVerilog [m])).map (fun C => C.toNNet C.ioVerilog) =
      some (verilogNNet cfg tl m.ports (rs.map transform)) := by
  rw [verilog_text_accepted cfg tl m rs hv hr hpos hrok]
  rfl

/-- **(a) hole-set `verilog_parsed_sem`**: `HI` any set of instances, `S` the set of their nodes: consistent outside `S` ⇔ model
outside `HI`; (1) soundness, (2) completeness, (3) one environment per labelling -/
theorem verilog_parsed_sem_holes {α : Type} (cfg : Cfg) (tl : TL) (ports : List String) (stmts : List Stmt)
    (hok : verilogOKB cfg tl ports stmts = true) (HI : VInst → Prop) (S : Nat → Prop)
    (hS : ∀ n, S n ↔ ∃ i ∈ vInsts stmts, HI i ∧ n = (module cfg tl ports stmts).nodeIdx (.cell i.name 0))
    (z : α) (neg : α → α) (prim : String → α → α → α → α → α) (a : Nat → α) :
    (∀ σ, VModelOff HI tl ports stmts z neg prim a σ →
      NetLabellingOff (verilogNet cfg tl ports stmts) S z neg prim a (vLabel cfg tl stmts z prim σ)) ∧
    (∀ v, NetLabellingOff (verilogNet cfg tl ports stmts) S z neg prim a v →
      ∃ σ, VModelOff HI tl ports stmts z neg prim a σ ∧
        ∀ i, i < (verilogNet cfg tl ports stmts).lines.size → v i = vLabel cfg tl stmts z prim σ i) ∧
    (∀ σ σ', VModelOff HI tl ports stmts z neg prim a σ → VModelOff HI tl ports stmts z neg prim a σ' →
      (∀ i, i < (verilogNet cfg tl ports stmts).lines.size → vLabel cfg tl stmts z prim σ i = vLabel cfg tl stmts z prim σ' i) →
      σ = σ') :=
  verilog_parsed_sem_holes_main (vok_of cfg tl ports stmts hok) HI S hS z neg prim a

/-- `verilog_parsed_sem` is the case without holes -/
theorem verilog_parsed_sem_no_holes {α : Type} (tl : TL) (ports : List String) (stmts : List Stmt) (net : Net) (z : α) (neg : α → α)
    (prim : String → α → α → α → α → α) (a : Nat → α) (σ : String → α) (v : Nat → α) :
    (VModelOff (fun _ => False) tl ports stmts z neg prim a σ ↔ VModel tl ports stmts z neg prim a σ) ∧
    (NetLabellingOff net (fun _ => False) z neg prim a v ↔ NetLabelling net z neg prim a v) :=
  ⟨(vModel_iff_off z neg prim a σ).symm, netLabellingOff_false net z neg prim a v⟩

/-- **(a) in the vocabulary of C10**: labellings of the parsed circuit consistent outside the library-cell nodes (`ConsOff`,
assignment per node) ⇔ environments that satisfy the module outside the library instances -/
theorem verilog_parsed_sem_lib {α : Type} (cfg : Cfg) (tl : TL) (ports : List String) (stmts : List Stmt)
    (hok : verilogOKB cfg tl ports stmts = true) (lib : Lib) (hcl : libCleanB lib stmts = true)
    (z : α) (neg : α → α) (prim : String → α → α → α → α → α) :
    (∀ (a : Nat → α) (σ : String → α), VModelOff (isLibInst lib) tl ports stmts z neg prim a σ →
      ConsOff (verilogNNet cfg tl ports stmts) (libHole lib (verilogNNet cfg tl ports stmts)) z neg prim
        (fun n => a ((verilogNet cfg tl ports stmts).sNodes.idxOf n)) (vLabel cfg tl stmts z prim σ)) ∧
    (∀ an v : Nat → α,
      ConsOff (verilogNNet cfg tl ports stmts) (libHole lib (verilogNNet cfg tl ports stmts)) z neg prim an v →
      ∃ σ, VModelOff (isLibInst lib) tl ports stmts z neg prim (fun p => an ((verilogNet cfg tl ports stmts).sNodes.getD p 0)) σ ∧
        ∀ i, i < (verilogNet cfg tl ports stmts).lines.size → v i = vLabel cfg tl stmts z prim σ i) :=
  ⟨fun a σ hm => verilog_model_consOff (vok_of cfg tl ports stmts hok) lib z neg prim a σ hm,
   fun an v hc => verilog_consOff_model (vok_of cfg tl ports stmts hok) lib (libClean_of hcl) z neg prim an v hc⟩

/-- **(b) resolved labellings ↔ module environments with RELATIONAL cell meanings** (any value domain): the result of
`resolve_tlib_cells` is well-formed, keeps ports, lines and the nodes that are no library cells; (1) every consistent labelling of it
is, on the original lines, the labelling of an environment `σ` that satisfies the module outside the library instances and gives
every library instance the relational meaning of its implementation (`LibRel`); (2) conversely every such `σ` extends to a
consistent labelling of the result -/
theorem verilog_resolved_rel {α : Type} (cfg : Cfg) (tl : TL) (ports : List String) (stmts : List Stmt)
    (hok : verilogOKB cfg tl ports stmts = true) (lib : Lib) (hcl : libCleanB lib stmts = true) (h' : NNet)
    (hw : (verilogNNet cfg tl ports stmts).wf = true)
    (hrok : resolveOKB lib (verilogNNet cfg tl ports stmts).keys (verilogNNet cfg tl ports stmts) = true)
    (he : resolveCells lib (verilogNNet cfg tl ports stmts) = some h') (z : α) (neg : α → α) (prim : String → α → α → α → α → α) :
    h'.wf = true ∧ h'.net.io = (verilogNet cfg tl ports stmts).io ∧
    (verilogNet cfg tl ports stmts).lines.size ≤ h'.net.lines.size ∧
    (∀ d, d < (verilogNet cfg tl ports stmts).nodes.size → (lib.find ((verilogNet cfg tl ports stmts).node d).kind).isSome = false →
      h'.net.node d = (verilogNet cfg tl ports stmts).node d) ∧
    (∀ an' v' : Nat → α, ConsOff h' (fun _ => False) z neg prim an' v' →
      ∃ σ, VModelOff (isLibInst lib) tl ports stmts z neg prim (fun p => an' ((verilogNet cfg tl ports stmts).sNodes.getD p 0)) σ ∧
        (∀ l, l < (verilogNet cfg tl ports stmts).lines.size → v' l = vLabel cfg tl stmts z prim σ l) ∧
        LibRel cfg tl ports stmts lib z neg prim σ) ∧
    (∀ (a : Nat → α) (σ : String → α), VModelOff (isLibInst lib) tl ports stmts z neg prim a σ →
      LibRel cfg tl ports stmts lib z neg prim σ →
      ∃ an' v', ConsOff h' (fun _ => False) z neg prim an' v' ∧
        (∀ l, l < (verilogNet cfg tl ports stmts).lines.size → v' l = vLabel cfg tl stmts z prim σ l) ∧
        (∀ d, d < (verilogNet cfg tl ports stmts).nodes.size → (lib.find ((verilogNet cfg tl ports stmts).node d).kind).isSome = false →
          an' d = a ((verilogNet cfg tl ports stmts).sNodes.idxOf d))) :=
  KV.Netlist.verilog_resolved_rel (vok_of cfg tl ports stmts hok) lib (libClean_of hcl) h' hw hrok he z neg prim

/-- **(b') the same through substitutions that REMOVE lines, instances and dangling logic** (composition with
`C10.resolve_sem_general`, hypothesis `resolveGenOKB` ⊇ `resolveOKB`: library cells that ignore a connected input pin — tri-state
buffers as `TechLib` reads them —, cells without designated cell — fillers, antennas —, unconnected outputs with dangling logic;
parsed dump well-formed up to trailing `None`s): index maps `ρ` from the resolved circuit to the parsed one (node `j` / line `l'` of the
result IS node `ρ.node j` / line `ρ.line l'` of the parsed circuit when that is an index of the parsed circuit; ports in order);
(1) every consistent labelling of the result is, along `ρ`, the labelling of an environment of the WHOLE module (removed lines
included) that satisfies the module outside the library instances and gives every library instance the relational meaning of its
implementation with its original pins; (2) conversely -/
theorem verilog_resolved_rel_general {α : Type} (cfg : Cfg) (tl : TL) (ports : List String) (stmts : List Stmt)
    (hok : verilogOKB cfg tl ports stmts = true) (lib : Lib) (hcl : libCleanB lib stmts = true) (h' : NNet)
    (hw : (verilogNNet cfg tl ports stmts).wfNoTrail = true)
    (hrok : resolveGenOKB lib (verilogNNet cfg tl ports stmts).keys (verilogNNet cfg tl ports stmts) = true)
    (he : resolveCells lib (verilogNNet cfg tl ports stmts) = some h') (z : α) (neg : α → α) (prim : String → α → α → α → α → α) :
    h'.wfNoTrail = true ∧ ∃ ρ : Ren, h'.net.io.map ρ.node = (verilogNet cfg tl ports stmts).io ∧
    (∀ an' v' : Nat → α, ConsOff h' (fun _ => False) z neg prim an' v' →
      ∃ (an : Nat → α) (σ : String → α),
        VModelOff (isLibInst lib) tl ports stmts z neg prim (fun p => an ((verilogNet cfg tl ports stmts).sNodes.getD p 0)) σ ∧
        LibRel cfg tl ports stmts lib z neg prim σ ∧
        (∀ l', l' < h'.net.lines.size → ρ.line l' < (verilogNet cfg tl ports stmts).lines.size →
          v' l' = vLabel cfg tl stmts z prim σ (ρ.line l')) ∧
        (∀ j, j < h'.net.nodes.size → ρ.node j < (verilogNet cfg tl ports stmts).nodes.size → an (ρ.node j) = an' j)) ∧
    (∀ (a : Nat → α) (σ : String → α), VModelOff (isLibInst lib) tl ports stmts z neg prim a σ →
      LibRel cfg tl ports stmts lib z neg prim σ →
      ∃ an' v', ConsOff h' (fun _ => False) z neg prim an' v' ∧
        (∀ l', l' < h'.net.lines.size → ρ.line l' < (verilogNet cfg tl ports stmts).lines.size →
          v' l' = vLabel cfg tl stmts z prim σ (ρ.line l')) ∧
        (∀ j, j < h'.net.nodes.size → ρ.node j < (verilogNet cfg tl ports stmts).nodes.size →
          an' j = a ((verilogNet cfg tl ports stmts).sNodes.idxOf (ρ.node j)))) :=
  KV.Netlist.verilog_resolved_rel_general (vok_of cfg tl ports stmts hok) lib (libClean_of hcl) h' hw hrok he z neg prim

/-- hypotheses of `verilog_resolved_rel_general` are satisfiable where `verilog_resolved_rel` does not apply (`resolveOKB` false):
`module t(a, en, y); input a, en; output y; TBUF u(.A(a), .EN(en), .Z(y)); ANTENNA ant(.A(en)); endmodule` over the library of the
C10 examples (`exTbuf` ignores its enable pin, `exAnt` has no output: the instance is removed); the result has 7 of the 8 nodes and
5 of the 7 lines -/
def exTLg : TL := fun k p =>
  if k == "TBUF" then (if p == "A" then some (0, false) else if p == "EN" then some (1, false) else if p == "Z" then some (0, true) else none)
  else if k == "ANTENNA" then (if p == "A" then some (0, false) else none)
  else none
def exGS : List Stmt := [.decls [⟨.input, "a", none⟩, ⟨.input, "en", none⟩], .decls [⟨.output, "y", none⟩],
  .inst "TBUF" "u" [("A", .one "a"), ("EN", .one "en"), ("Z", .one "y")],
  .inst "ANTENNA" "ant" [("A", .one "en")]]
def exLibG : Lib := [("TBUF", KV.C10.exTbuf), ("ANTENNA", KV.C10.exAnt)]
example : verilogOKB {} exTLg ["a", "en", "y"] exGS = true ∧ libCleanB exLibG exGS = true ∧
    (verilogNNet {} exTLg ["a", "en", "y"] exGS).wfNoTrail = true ∧
    resolveGenOKB exLibG (verilogNNet {} exTLg ["a", "en", "y"] exGS).keys
      (verilogNNet {} exTLg ["a", "en", "y"] exGS) = true ∧
    resolveOKB exLibG (verilogNNet {} exTLg ["a", "en", "y"] exGS).keys
      (verilogNNet {} exTLg ["a", "en", "y"] exGS) = false ∧
    (verilogNNet {} exTLg ["a", "en", "y"] exGS).net.nodes.size = 8 ∧ (verilogNNet {} exTLg ["a", "en", "y"] exGS).net.lines.size = 7 ∧
    (resolveCells exLibG (verilogNNet {} exTLg ["a", "en", "y"] exGS)).map
      (fun r => (r.kindNames, r.net.lines.size)) =
      some ([("BUF1", "u"), ("__fork__", "y"), ("output", "y"), ("input", "a"), ("__fork__", "a"), ("input", "en"), ("__fork__", "en")], 5) := by
  decide +kernel

/-- **(c) resolved labellings ↔ DATASHEET models of the module** (2-valued; every library-cell node certified) -/
theorem verilog_resolved_datasheet (cfg : Cfg) (tl : TL) (ports : List String) (stmts : List Stmt)
    (hok : verilogOKB cfg tl ports stmts = true) (lib : Lib) (hcl : libCleanB lib stmts = true) (h' : NNet)
    (hw : (verilogNNet cfg tl ports stmts).wf = true)
    (hrok : resolveOKB lib (verilogNNet cfg tl ports stmts).keys (verilogNNet cfg tl ports stmts) = true)
    (he : resolveCells lib (verilogNNet cfg tl ports stmts) = some h') (row : String → Cell) (ord : String → List Nat)
    (hcert : ∀ c, c < (verilogNNet cfg tl ports stmts).net.nodes.size →
      (lib.find ((verilogNNet cfg tl ports stmts).net.node c).kind).isSome = true → InstCert lib row ord (verilogNNet cfg tl ports stmts) c) :
    h'.wf = true ∧ h'.net.io = (verilogNet cfg tl ports stmts).io ∧
    (verilogNet cfg tl ports stmts).lines.size ≤ h'.net.lines.size ∧
    (∀ d, d < (verilogNet cfg tl ports stmts).nodes.size → (lib.find ((verilogNet cfg tl ports stmts).node d).kind).isSome = false →
      h'.net.node d = (verilogNet cfg tl ports stmts).node d) ∧
    (∀ an' v' : Nat → Bool, ConsOff h' (fun _ => False) false (!·) prim2 an' v' →
      ∃ σ, VModelLib (libHas lib) row tl ports stmts (fun p => an' ((verilogNet cfg tl ports stmts).sNodes.getD p 0)) σ ∧
        (∀ l, l < (verilogNet cfg tl ports stmts).lines.size → v' l = vLabel cfg tl stmts false prim2 σ l)) ∧
    (∀ (a : Nat → Bool) (σ : String → Bool), VModelLib (libHas lib) row tl ports stmts a σ →
      ∃ an' v', ConsOff h' (fun _ => False) false (!·) prim2 an' v' ∧
        (∀ l, l < (verilogNet cfg tl ports stmts).lines.size → v' l = vLabel cfg tl stmts false prim2 σ l) ∧
        (∀ d, d < (verilogNet cfg tl ports stmts).nodes.size → (lib.find ((verilogNet cfg tl ports stmts).node d).kind).isSome = false →
          an' d = a ((verilogNet cfg tl ports stmts).sNodes.idxOf d))) :=
  KV.Netlist.verilog_resolved_datasheet (vok_of cfg tl ports stmts hok) lib (libClean_of hcl) h' hw hrok he row ord hcert

/-- **(d) `verilog_library_end_to_end`**: parse → `resolve_tlib_cells` → `SimOps` → 2-valued `LogicSim` = the datasheet denotation
of the module.  For every module of the fragment over a library whose instances are certified, the result `h'` of the resolution,
every topological order of `h'` that schedules every line and every stimulus: exactly ONE datasheet model `σ` under the assignment
the stimulus holds at the interface positions; the simulation result on every line of the parsed circuit is `σ` of the line's
signal; what is captured at every interface node is what the module observes. -/
theorem verilog_library_end_to_end (cfg : Cfg) (tl : TL) (ports : List String) (stmts : List Stmt)
    (hok : verilogOKB cfg tl ports stmts = true) (lib : Lib) (hcl : libCleanB lib stmts = true) (h' : NNet)
    (hw : (verilogNNet cfg tl ports stmts).wf = true)
    (hrok : resolveOKB lib (verilogNNet cfg tl ports stmts).keys (verilogNNet cfg tl ports stmts) = true)
    (he : resolveCells lib (verilogNNet cfg tl ports stmts) = some h') (row : String → Cell) (ord : String → List Nat)
    (hcert : ∀ c, c < (verilogNNet cfg tl ports stmts).net.nodes.size →
      (lib.find ((verilogNNet cfg tl ports stmts).net.node c).kind).isSome = true → InstCert lib row ord (verilogNNet cfg tl ports stmts) c)
    (hsn : h'.net.sNodes = (verilogNet cfg tl ports stmts).sNodes)
    (order : List Nat) (ho : orderOKB h'.net order = true) (hfk : forksOKB h'.net order = true)
    (hall : linesDrivenB Gen.kindPrefixes h'.net order = true) (env : Nat → Bool) (hz : env h'.net.idx.zero = false)
    (_htl : tlFitsB (libHas lib) row tl stmts = true) (_har : vArityLibB (libHas lib) tl stmts = true) :
    ∃ σ, VModelLib (libHas lib) row tl ports stmts (fun p => env (h'.net.idx.ppi + p)) σ ∧
      (∀ σ', VModelLib (libHas lib) row tl ports stmts (fun p => env (h'.net.idx.ppi + p)) σ' → σ' = σ) ∧
      (∀ i, i < (verilogNet cfg tl ports stmts).lines.size →
        exec semL2n ((genOps Gen.kindPrefixes h'.net order false).map OpRow.toOp) env i = vLabel cfg tl stmts false prim2 σ i) ∧
      ((verilogNet cfg tl ports stmts).sNodes.map fun n => (h'.net.node n).inPin 0 |>.map
        (exec semL2n ((genOps Gen.kindPrefixes h'.net order false).map OpRow.toOp) env)) =
          vCaptures tl ports stmts false prim2 σ :=
  verilog_library_sim (vok_of cfg tl ports stmts hok) lib (libClean_of hcl) h' hw hrok he row ord hcert hsn order ho hfk hall env hz

/-- **from TEXT**: `nn` the dump of the circuit built from the model's reading of the printed module text, `h'` its resolution.
`hpos` / `hsok` (audit 2, finding 1): the text is inside the raise guard of `circOfText` — no positional pin, no sized constant
`sigsel` raises on (`RStmt.ok`; the driver evaluates `verilogOKB && rs.all RStmt.ok` per case) — so the theorem does not speak
about texts the real parser rejects (example `exBadM` below) -/
theorem verilog_library_text_end_to_end (cfg : Cfg) (tl : TL) (m : KV.VerilogText.VModule) (rs : List RStmt)
    (hv : KV.VerilogText.validModule m = true) (hr : KV.VerilogText.toRs m.stmts = some rs)
    (hpos : m.stmts.any KV.VerilogText.VStmt.hasPos = false) (hsok : rs.all RStmt.ok = true)
    (hok : verilogOKB cfg tl m.ports (rs.map transform) = true) (lib : Lib) (hcl : libCleanB lib (rs.map transform) = true)
    (nn h' : NNet)
    (hnn : (KV.VerilogText.circOfText cfg tl (KV.VerilogText.printVerilog [m])).map (fun C => C.toNNet C.ioVerilog) = some nn)
    (hw : nn.wf = true) (hrok : resolveOKB lib nn.keys nn = true) (he : resolveCells lib nn = some h')
    (row : String → Cell) (ord : String → List Nat)
    (hcert : ∀ c, c < nn.net.nodes.size → (lib.find (nn.net.node c).kind).isSome = true → InstCert lib row ord nn c)
    (hsn : h'.net.sNodes = nn.net.sNodes)
    (order : List Nat) (ho : orderOKB h'.net order = true) (hfk : forksOKB h'.net order = true)
    (hall : linesDrivenB Gen.kindPrefixes h'.net order = true) (env : Nat → Bool) (hz : env h'.net.idx.zero = false)
    (htl : tlFitsB (libHas lib) row tl (rs.map transform) = true) (har : vArityLibB (libHas lib) tl (rs.map transform) = true) :
    ∃ σ, VModelLib (libHas lib) row tl m.ports (rs.map transform) (fun p => env (h'.net.idx.ppi + p)) σ ∧
      (∀ σ', VModelLib (libHas lib) row tl m.ports (rs.map transform) (fun p => env (h'.net.idx.ppi + p)) σ' → σ' = σ) ∧
      (∀ i, i < nn.net.lines.size →
        exec semL2n ((genOps Gen.kindPrefixes h'.net order false).map OpRow.toOp) env i =
          vLabel cfg tl (rs.map transform) false prim2 σ i) ∧
      (nn.net.sNodes.map fun n => (h'.net.node n).inPin 0 |>.map
        (exec semL2n ((genOps Gen.kindPrefixes h'.net order false).map OpRow.toOp) env)) =
          vCaptures tl m.ports (rs.map transform) false prim2 σ := by
  rw [verilog_text_to_nnet cfg tl m rs hv hr hpos hsok] at hnn
  cases hnn
  exact verilog_library_end_to_end cfg tl m.ports (rs.map transform) hok lib hcl h' hw hrok he row ord hcert hsn order ho hfk hall env hz
    htl har

/-- **library pins BY NAME** (audit-2 finding 8): inside `tlFitsB` — the pin table numbers the pins of every library instance as
the table row `row ty` lists them (inputs and outputs, in the row's order), and the instance connects only pins of the row — the
datasheet denotation `VModelLib` (pins by INDEX under `tl`) IS the denotation `VModelLibN` in which input `k` of the data-book
function is the signal connected to the pin NAMED `(row ty).inNames[k]` and the output NAMED `(row ty).outNames[k]` drives the
signal connected to it (Model/VerilogLibFit.lean; no `tl` in the reading of library pins) -/
theorem verilog_library_by_name (lib : Lib) (row : String → Cell) (tl : TL) (ports : List String) (stmts : List Stmt)
    (htl : tlFitsB (libHas lib) row tl stmts = true) (a : Nat → Bool) (σ : String → Bool) :
    VModelLib (libHas lib) row tl ports stmts a σ ↔ VModelLibN (libHas lib) row tl ports stmts a σ :=
  vModelLib_iff_byName (libHas lib) row tl ports stmts htl a σ

/-- **(d) with the library pins read BY NAME**: the capstone with the denotation `VModelLibN` (here `tlFitsB` is used) -/
theorem verilog_library_end_to_end_by_name (cfg : Cfg) (tl : TL) (ports : List String) (stmts : List Stmt)
    (hok : verilogOKB cfg tl ports stmts = true) (lib : Lib) (hcl : libCleanB lib stmts = true) (h' : NNet)
    (hw : (verilogNNet cfg tl ports stmts).wf = true)
    (hrok : resolveOKB lib (verilogNNet cfg tl ports stmts).keys (verilogNNet cfg tl ports stmts) = true)
    (he : resolveCells lib (verilogNNet cfg tl ports stmts) = some h') (row : String → Cell) (ord : String → List Nat)
    (hcert : ∀ c, c < (verilogNNet cfg tl ports stmts).net.nodes.size →
      (lib.find ((verilogNNet cfg tl ports stmts).net.node c).kind).isSome = true → InstCert lib row ord (verilogNNet cfg tl ports stmts) c)
    (hsn : h'.net.sNodes = (verilogNet cfg tl ports stmts).sNodes)
    (order : List Nat) (ho : orderOKB h'.net order = true) (hfk : forksOKB h'.net order = true)
    (hall : linesDrivenB Gen.kindPrefixes h'.net order = true) (env : Nat → Bool) (hz : env h'.net.idx.zero = false)
    (htl : tlFitsB (libHas lib) row tl stmts = true) (har : vArityLibB (libHas lib) tl stmts = true) :
    ∃ σ, VModelLibN (libHas lib) row tl ports stmts (fun p => env (h'.net.idx.ppi + p)) σ ∧
      (∀ σ', VModelLibN (libHas lib) row tl ports stmts (fun p => env (h'.net.idx.ppi + p)) σ' → σ' = σ) ∧
      (∀ i, i < (verilogNet cfg tl ports stmts).lines.size →
        exec semL2n ((genOps Gen.kindPrefixes h'.net order false).map OpRow.toOp) env i = vLabel cfg tl stmts false prim2 σ i) ∧
      ((verilogNet cfg tl ports stmts).sNodes.map fun n => (h'.net.node n).inPin 0 |>.map
        (exec semL2n ((genOps Gen.kindPrefixes h'.net order false).map OpRow.toOp) env)) =
          vCaptures tl ports stmts false prim2 σ := by
  obtain ⟨σ, hm, hu, hl, hc⟩ := verilog_library_end_to_end cfg tl ports stmts hok lib hcl h' hw hrok he row ord hcert hsn order ho hfk
    hall env hz htl har
  exact ⟨σ, (verilog_library_by_name lib row tl ports stmts htl _ σ).mp hm,
    fun σ' hm' => hu σ' ((verilog_library_by_name lib row tl ports stmts htl _ σ').mpr hm'), hl, hc⟩

/-- the arity domain of C11 (`vArityB`: every combinational instance) implies the one of the capstone (`vArityLibB`: library
instances exempt) -/
theorem vArityLib_of_vArity (isLib : String → Bool) (tl : TL) (stmts : List Stmt) (h : vArityB tl stmts = true) :
    vArityLibB isLib tl stmts = true := by
  simp only [vArityB, vArityLibB, List.all_eq_true, Bool.or_eq_true] at h ⊢
  intro i hi
  rcases h i hi with h1 | h1
  · exact Or.inl (Or.inr h1)
  · exact Or.inr (by simpa using h1)

/-! ### "the same netlist written in either format" — the gate clause (audit-2 B-C11-4)

[The netlist-level statement sketched here IS NOW PROVED, for the description type `Nl` with ports in ANY direction order: theorem
`bench_verilog_equiv` in section `FormatEquiv` at the end of this file (Proofs/FormatEquiv2.lean); the text below is kept as the
record of what `bench_verilog_equiv_partial` covers on its own.]
FULL STATEMENT (as planned when only the gate clause was proved):
  for a netlist description `nl` (input names `pis`, output names `pos`, gates `name = K(drv…)` with an instance name each) in the
  common fragment `nlOKB nl` (decidable: names pairwise different, no name a constant literal or an instance name, every operand
  and every output an input or a gate name, at most four operands, kinds of the primitive library) and its two renderings
  `benchOf nl : List BStmt`, `verilogOf nl : List Stmt` (single-bit declarations, one `instOfGate` per gate, pin table `primTL`):
    `theorem bench_verilog_equiv : ∀ a σ, BenchModel (benchOf nl) z prim a σ ↔ VModel primTL (nl.pis ++ nl.pos) (verilogOf nl) z neg prim a σ`
  — with `bench_parsed_sem` / `verilog_parsed_sem`: both circuits have the same consistent labellings on the named signals.
PROVED (`bench_verilog_equiv_partial`): the gate clause — the instance that renders a combinational bench statement drives exactly
the signal `name` (output connection list `[(0, name)]`) and the value `VModel` requires on it (`instVal`) is the value `BenchModel`
requires (`gateVal`), any value domain.  MISSING: the bookkeeping around it — `sigDecls` / `inputNames` / `posNames` of the
single-bit declarations, equality of the interface positions (`vSPos` of port cells vs `benchSPos` of port forks, state elements),
the clause for names without driver, state elements (`isSeqKind`). -/
theorem bench_verilog_equiv_partial {α : Type} (z : α) (neg : α → α) (prim : String → α → α → α → α → α) (a : Nat → α) (pos : Nat)
    (ds : List Decl) (K inst name : String) (drv : List String) (hlen : drv.length ≤ 4) (hseq : KV.Netlist.isSeqKind K = false)
    (hc : ∀ d ∈ drv, isConstLit d = false) (σ : String → α) :
    outConn primTL ds (instOfGate K inst name drv) = [(0, (outSig ds name).1)] ∧
    instVal primTL z neg prim a pos (instOfGate K inst name drv) 0 σ = gateVal z prim K drv σ :=
  ⟨outConn_instOfGate ds K inst name drv hlen, gate_format_equiv z neg prim a pos K inst name drv hlen hseq hc σ⟩

/-- the hypotheses hold for `n = NAND(a, b, c)`: the instance is `NAND g(.o(n), .i0(a), .i1(b), .i2(c))` -/
example : (instOfGate "NAND" "g" "n" ["a", "b", "c"]).pins = [("o", .one "n"), ("i0", .one "a"), ("i1", .one "b"), ("i2", .one "c")] ∧
    KV.Netlist.isSeqKind "NAND" = false ∧ (["a", "b", "c"].all fun d => !isConstLit d) = true := by decide +kernel

/-- the driver's acceptance check is sound: an accepted table IS a datasheet model -/
theorem verilog_lib_checker_sound (isLib : String → Bool) (row : String → Cell) (tl : TL) (ports : List String) (stmts : List Stmt)
    (a : Nat → Bool) (tab : List (String × Bool)) (h : vModelLibB isLib row tl ports stmts a tab = true) :
    VModelLib isLib row tl ports stmts a (vEnvOf false tab) :=
  vModelLibB_sound isLib row a tab h

/-- the driver's Boolean certificate check (`certsB`, Drv/VerilogLib.lean: `InstCert` clause by clause for every library-cell node,
the table row looked up in the generated C19 tables by library index and cell name) implies the certificate hypothesis -/
theorem verilog_lib_certs_sound (lib : Lib) (libIdx : Nat) (ord : String → List Nat) (nn : NNet)
    (h : KV.Drv.VerilogLib.certsB lib (KV.Drv.VerilogLib.rowOf libIdx) ord nn = true) :
    ∀ c, c < nn.net.nodes.size → (lib.find (nn.net.node c).kind).isSome = true →
      InstCert lib (fun k => (KV.Drv.VerilogLib.rowOf libIdx k).getD KV.Drv.VerilogLib.emptyCell) ord nn c :=
  KV.Drv.VerilogLib.certsB_sound lib _ ord nn (fun k cr hk => KV.Drv.VerilogLib.rowOf_mem libIdx k cr hk) h

/-! ## non-vacuity: NANGATE `AOI21_X1` feeding `INV_X1`

`module top(a, b1, b2, y); input a, b1, b2; output y; wire n; AOI21_X1 u1(.A(a), .B1(b1), .B2(b2), .ZN(n)); INV_X1 u2(.I(n), .ZN(y));
endmodule` — `nAoi` / `nInv` are the canonical dumps of the REAL implementation circuits `NANGATE.cells['AOI21_X1'][0]` (`ZN =
AOI21(B1, B2, A)`) and `NANGATE.cells['INV_X1'][0]`, `exOrdN` their real topological orders, `exRowN` their rows of the generated C19
tables (chunk 1 row 6, chunk 2 row 2), `exTLn` the pin table `TechLib.pin_index` / `pin_is_output`. -/
section Example
open KV.VerilogText

def exTLn : TL := fun k p =>
  if k == "AOI21_X1" then (if p == "A" then some (0, false) else if p == "B1" then some (1, false) else if p == "B2" then some (2, false)
    else if p == "ZN" then some (0, true) else none)
  else if k == "INV_X1" then (if p == "I" then some (0, false) else if p == "ZN" then some (0, true) else none)
  else none

def exLM : VModule := ⟨"top", ["a", "b1", "b2", "y"],
  [.decl .input none ["a", "b1", "b2"], .decl .output none ["y"], .decl .wire none ["n"],
   .inst "AOI21_X1" "u1" [.named "A" (some (.sig "a" none)), .named "B1" (some (.sig "b1" none)), .named "B2" (some (.sig "b2" none)),
     .named "ZN" (some (.sig "n" none))],
   .inst "INV_X1" "u2" [.named "I" (some (.sig "n" none)), .named "ZN" (some (.sig "y" none))]]⟩
/-- the statement list the post-parse model receives -/
def exLRs : List RStmt := (toRs exLM.stmts).getD []
def exLS : List Stmt := exLRs.map transform

def nAoi : NNet :=
  { net := { nodes := #[⟨"__fork__", [], [some 3]⟩, ⟨"__fork__", [], [some 1]⟩, ⟨"__fork__", [], [some 2]⟩,
                        ⟨"__fork__", [some 0], []⟩, ⟨"AOI21", [some 1, some 2, some 3], [some 0]⟩],
             lines := #[⟨4, 0, 3, 0⟩, ⟨1, 0, 4, 0⟩, ⟨2, 0, 4, 1⟩, ⟨0, 0, 4, 2⟩], io := [0, 1, 2, 3] },
    names := #["A", "B1", "B2", "ZN", "ZN"] }
def nInv : NNet :=
  { net := { nodes := #[⟨"__fork__", [], [some 1]⟩, ⟨"__fork__", [some 0], []⟩, ⟨"INV1", [some 1], [some 0]⟩],
             lines := #[⟨2, 0, 1, 0⟩, ⟨0, 0, 2, 0⟩], io := [0, 1] },
    names := #["I", "ZN", "ZN"] }
def exLibN : Lib := [("AOI21_X1", nAoi), ("INV_X1", nInv)]
def exRowN (k : String) : Cell := if k == "AOI21_X1" then Gen.techChunk1[6]'(by decide) else Gen.techChunk2[2]'(by decide)
def exOrdN (k : String) : List Nat := if k == "AOI21_X1" then [0, 1, 2, 4, 3] else [0, 2, 1]
/-- the parsed circuit with names (11 nodes: `u1`, fork `n`, `u2`, fork `y`, the three input cells with their forks, the output cell) -/
def exNN : NNet := verilogNNet {} exTLn exLM.ports exLS
/-- its resolution by the model of `resolve_tlib_cells` -/
def exH : NNet := (resolveCells exLibN exNN).getD default
def exOrder : List Nat := [4, 5, 6, 7, 8, 9, 0, 1, 2, 3, 10]

example : printVerilog [exLM] =
    "module top(a, b1, b2, y);\ninput a, b1, b2;\noutput y;\nwire n;\nAOI21_X1 u1(.A(a), .B1(b1), .B2(b2), .ZN(n));\nINV_X1 u2(.I(n), .ZN(y));\nendmodule\n" := by
  decide +kernel
example : (exRowN "AOI21_X1").tmpl = c!"AOI21_X{1,2,4}" ∧ (exRowN "AOI21_X1").inNames = [c!"A", c!"B1", c!"B2"] ∧
    (exRowN "AOI21_X1").outNames = [c!"ZN"] ∧ (exRowN "INV_X1").inNames = [c!"I"] ∧ (exRowN "INV_X1").outNames = [c!"ZN"] := by
  decide +kernel

theorem exLM_valid : validModule exLM = true := by decide +kernel
theorem exLM_rs : toRs exLM.stmts = some exLRs := by
  have h : (toRs exLM.stmts).isSome = true := by decide +kernel
  unfold exLRs
  cases h' : toRs exLM.stmts with
  | none => rw [h'] at h; cases h
  | some rs => rfl
theorem exLS_ok : verilogOKB {} exTLn exLM.ports exLS = true := by decide +kernel
theorem exLib_clean : libCleanB exLibN exLS = true := by decide +kernel
theorem exNN_wf : exNN.wf = true := by decide +kernel
theorem exNN_rok : resolveOKB exLibN exNN.keys exNN = true := by decide +kernel
theorem exH_eq : resolveCells exLibN exNN = some exH := by
  have h : (resolveCells exLibN exNN).isSome = true := by decide +kernel
  unfold exH
  cases h' : resolveCells exLibN exNN with
  | none => rw [h'] at h; cases h
  | some r => rfl

/-- the parsed and the resolved circuit: kinds, names, `s_nodes`; the three scheduling hypotheses for the resolved circuit -/
example : exNN.kindNames = [("AOI21_X1", "u1"), ("__fork__", "n"), ("INV_X1", "u2"), ("__fork__", "y"), ("input", "a"), ("__fork__", "a"),
      ("input", "b1"), ("__fork__", "b1"), ("input", "b2"), ("__fork__", "b2"), ("output", "y")] ∧
    exH.kindNames = [("AOI21", "u1"), ("__fork__", "n"), ("INV1", "u2"), ("__fork__", "y"), ("input", "a"), ("__fork__", "a"),
      ("input", "b1"), ("__fork__", "b1"), ("input", "b2"), ("__fork__", "b2"), ("output", "y")] ∧
    (exH.net.node 0).ins = [some 6, some 7, some 5] ∧ exNN.net.sNodes = [4, 6, 8, 10] := by decide +kernel
theorem exH_sn : exH.net.sNodes = (verilogNet {} exTLn exLM.ports exLS).sNodes := by decide +kernel
theorem exH_sched : orderOKB exH.net exOrder = true ∧ forksOKB exH.net exOrder = true ∧
    linesDrivenB Gen.kindPrefixes exH.net exOrder = true := by decide +kernel

theorem exRow_mem (k : String) : exRowN k ∈ Tech.cells := by
  unfold exRowN
  split
  · exact List.mem_flatten.mpr ⟨Gen.techChunk1, by rw [Tech.chunks_eq]; simp, List.getElem_mem _⟩
  · exact List.mem_flatten.mpr ⟨Gen.techChunk2, by rw [Tech.chunks_eq]; simp, List.getElem_mem _⟩

/-- the certificates of the two instance nodes (0 = `u1`, 2 = `u2`): every clause by kernel evaluation -/
theorem exCert0 : InstCert exLibN exRowN exOrdN exNN 0 :=
  ⟨nAoi, ⟨[0, 1, 2], [3], [0], some 4⟩, by decide +kernel, by decide +kernel, by decide +kernel, by decide +kernel,
    by decide +kernel, by decide +kernel, by decide +kernel, by decide +kernel, exRow_mem _, by decide +kernel, by decide +kernel⟩
theorem exCert2 : InstCert exLibN exRowN exOrdN exNN 2 :=
  ⟨nInv, ⟨[0], [1], [0], some 2⟩, by decide +kernel, by decide +kernel, by decide +kernel, by decide +kernel,
    by decide +kernel, by decide +kernel, by decide +kernel, by decide +kernel, exRow_mem _, by decide +kernel, by decide +kernel⟩

theorem exCerts : ∀ c, c < exNN.net.nodes.size → (exLibN.find (exNN.net.node c).kind).isSome = true →
    InstCert exLibN exRowN exOrdN exNN c := by
  intro c hc hs
  have h11 : c < 11 := by
    have : exNN.net.nodes.size = 11 := by decide +kernel
    omega
  rcases (by omega : c = 0 ∨ c = 1 ∨ c = 2 ∨ c = 3 ∨ c = 4 ∨ c = 5 ∨ c = 6 ∨ c = 7 ∨ c = 8 ∨ c = 9 ∨ c = 10) with
    rfl | rfl | rfl | rfl | rfl | rfl | rfl | rfl | rfl | rfl | rfl
  · exact exCert0
  · exact absurd hs (by decide +kernel)
  · exact exCert2
  · exact absurd hs (by decide +kernel)
  · exact absurd hs (by decide +kernel)
  · exact absurd hs (by decide +kernel)
  · exact absurd hs (by decide +kernel)
  · exact absurd hs (by decide +kernel)
  · exact absurd hs (by decide +kernel)
  · exact absurd hs (by decide +kernel)
  · exact absurd hs (by decide +kernel)

/-- the pin table `exTLn` numbers the pins of `u1`, `u2` as their table rows list them; no primitive instance at all -/
theorem exTl_fits : tlFitsB (libHas exLibN) exRowN exTLn exLS = true := by decide +kernel
theorem exL_arity : vArityLibB (libHas exLibN) exTLn exLS = true := by decide +kernel

/-- **the witness of audit-2 finding 8 is outside**: the pin table with `A` and `B1` of `AOI21_X1` CROSSED (a `TechLib` that numbers
pins wrongly) keeps every other hypothesis of the capstone that mentions `tl` (fragment, well-formedness, `resolveOKB`, the
certificates) and makes the index reading `y = b1 ∨ (a ∧ b2)` — `tlFitsB` is false for it -/
def exTLx : TL := fun k p =>
  if k == "AOI21_X1" then (if p == "A" then some (1, false) else if p == "B1" then some (0, false) else if p == "B2" then some (2, false)
    else if p == "ZN" then some (0, true) else none)
  else exTLn k p
example : verilogOKB {} exTLx exLM.ports exLS = true ∧ (verilogNNet {} exTLx exLM.ports exLS).wf = true ∧
    resolveOKB exLibN (verilogNNet {} exTLx exLM.ports exLS).keys (verilogNNet {} exTLx exLM.ports exLS) = true ∧
    KV.Drv.VerilogLib.certsB exLibN (fun k => some (exRowN k)) exOrdN (verilogNNet {} exTLx exLM.ports exLS) = true ∧
    (List.range 8).map (fun r => lookupA (vEvalLib (libHas exLibN) exRowN exTLx exLM.ports exLS (fun p => (r >>> p) % 2 == 1)) "y") =
      [some false, some false, some true, some true, some false, some true, some true, some true] ∧
    tlFitsB (libHas exLibN) exRowN exTLx exLS = false := by decide +kernel

/-- the reading BY NAME of the instance `u1` does not look at any pin table: the values on the pins named `A`, `B1`, `B2` -/
example (σ : String → Bool) : libInValsN (exRowN "AOI21_X1") σ ⟨"AOI21_X1", "u1", [("A", .one "a"), ("B1", .one "b1"), ("B2", .one "b2"),
    ("ZN", .one "n")]⟩ = [σ "a", σ "b1", σ "b2"] := by
  have h : (exRowN "AOI21_X1").inNames = [c!"A", c!"B1", c!"B2"] := by decide +kernel
  simp [libInValsN, h, pinSigN, sigVal, isConstLit]

/-- **a wide primitive next to certified cells is outside** (known finding D33): `AND5 g(.A1(a), .A2(b1), .A3(b2), .A4(a), .A5(b1),
.Z(n))` as a simulation primitive (kind not in the library) is read by `instVal` as the AND of its first four pins — `vArityLibB` is false -/
def exTL5 : TL := fun k p =>
  if k == "AND5" then (if p == "A1" then some (0, false) else if p == "A2" then some (1, false) else if p == "A3" then some (2, false)
    else if p == "A4" then some (3, false) else if p == "A5" then some (4, false) else if p == "Z" then some (0, true) else none)
  else exTLn k p
def exS5 : List Stmt := [.decls [⟨.input, "a", none⟩, ⟨.input, "b1", none⟩, ⟨.input, "b2", none⟩], .decls [⟨.output, "y", none⟩],
  .decls [⟨.wire, "n", none⟩],
  .inst "AND5" "g" [("A1", .one "a"), ("A2", .one "b1"), ("A3", .one "b2"), ("A4", .one "a"), ("A5", .one "b1"), ("Z", .one "n")],
  .inst "INV_X1" "u2" [("I", .one "n"), ("ZN", .one "y")]]
example : verilogOKB {} exTL5 ["a", "b1", "b2", "y"] exS5 = true ∧ libCleanB exLibN exS5 = true ∧
    tlFitsB (libHas exLibN) exRowN exTL5 exS5 = true ∧ vArityLibB (libHas exLibN) exTL5 exS5 = false := by decide +kernel

/-- the stimulus `a = 0, b1 = 1, b2 = 1` (interface positions 0, 1, 2; position 3 is the output port `y`) -/
def exEnv : Nat → Bool := fun x => x == exH.net.idx.ppi + 1 || x == exH.net.idx.ppi + 2

/-- the datasheet model of the module under that assignment, computed by the evaluator and accepted by the checker:
`n = AOI21(a; b1, b2) = ¬(a ∨ b1 ∧ b2) = 0`, `y = ¬n = 1` -/
theorem exModel : vEvalLib (libHas exLibN) exRowN exTLn exLM.ports exLS (fun p => exEnv (exH.net.idx.ppi + p)) =
      [("a", false), ("b1", true), ("b2", true), ("n", false), ("y", true)] ∧
    vModelLibB (libHas exLibN) exRowN exTLn exLM.ports exLS (fun p => exEnv (exH.net.idx.ppi + p))
      [("a", false), ("b1", true), ("b2", true), ("n", false), ("y", true)] = true := by decide +kernel

/-- **the theorem applied, from TEXT**: the `LogicSim` result of the resolved circuit on the line into the output port `y` (line 9 of
the parsed circuit, carrying the signal `y`) is the value the datasheet model gives `y` -/
example : exec semL2n ((genOps Gen.kindPrefixes exH.net exOrder false).map OpRow.toOp) exEnv 9 = true := by
  have hnn : (circOfText {} exTLn (printVerilog [exLM])).map (fun C => C.toNNet C.ioVerilog) = some exNN :=
    verilog_text_to_nnet {} exTLn exLM exLRs exLM_valid exLM_rs (by decide +kernel) (by decide +kernel)
  obtain ⟨σ, _, huniq, hlines, _⟩ := verilog_library_text_end_to_end {} exTLn exLM exLRs exLM_valid exLM_rs
    (by decide +kernel) (by decide +kernel) exLS_ok exLibN exLib_clean
    exNN exH hnn exNN_wf exNN_rok exH_eq exRowN exOrdN exCerts exH_sn exOrder exH_sched.1 exH_sched.2.1 exH_sched.2.2 exEnv
    (by decide +kernel) exTl_fits exL_arity
  have hσ := huniq _ (verilog_lib_checker_sound _ _ _ _ _ _ _ exModel.2)
  rw [hlines 9 (by decide +kernel), ← hσ]
  decide +kernel

/-! ### the raise guard (audit 2, finding 1): a text the real parser REJECTS is outside the text-level theorems

`module top(a, y); input a; output y; wire n; INV_X1 u1(.I(1'b2), .ZN(n)); INV_X1 u2(.I(n), .ZN(y)); endmodule` — the real
`verilog.parse` raises `ValueError: invalid literal for int() with base 2: '2'`.  Every OTHER hypothesis of
`verilog_library_text_end_to_end` holds for it (`verilogOKB` included — the witness of the audit); the hypothesis `hsok`
(`rs.all RStmt.ok`, evaluated by the driver on every case: `okv := verilogOKB … && rs.all RStmt.ok`) does not, and the model's own
reading of the text has `err = true`. -/
def exBadM : KV.VerilogText.VModule := ⟨"top", ["a", "y"],
  [.decl .input none ["a"], .decl .output none ["y"], .decl .wire none ["n"],
   .inst "INV_X1" "u1" [.named "I" (some (.sig "1'b2" none)), .named "ZN" (some (.sig "n" none))],
   .inst "INV_X1" "u2" [.named "I" (some (.sig "n" none)), .named "ZN" (some (.sig "y" none))]]⟩

example : KV.VerilogText.validModule exBadM = true ∧ exBadM.stmts.any KV.VerilogText.VStmt.hasPos = false ∧
    (KV.VerilogText.toRs exBadM.stmts).map (fun rs => (rs.all RStmt.ok, verilogOKB {} exTLn exBadM.ports (rs.map transform))) =
      some (false, true) ∧
    (KV.VerilogText.circOfText {} exTLn (KV.VerilogText.printVerilog [exBadM])).map (·.err) = some true := by decide +kernel

/-- **the by-name capstone applied**: the unique model of the module with the pins of `u1`, `u2` read BY NAME exists and gives the
output `y` the simulated value of line 9 under the stimulus (`a = 0, b1 = b2 = 1`: `y = 1`) -/
example : ∃ σ, VModelLibN (libHas exLibN) exRowN exTLn exLM.ports exLS (fun p => exEnv (exH.net.idx.ppi + p)) σ ∧
    vLabel {} exTLn exLS false prim2 σ 9 = true := by
  obtain ⟨σ, hm, _, hlines, _⟩ := verilog_library_end_to_end_by_name {} exTLn exLM.ports exLS exLS_ok exLibN exLib_clean exH exNN_wf exNN_rok
    exH_eq exRowN exOrdN exCerts exH_sn exOrder exH_sched.1 exH_sched.2.1 exH_sched.2.2 exEnv (by decide +kernel) exTl_fits exL_arity
  refine ⟨σ, hm, ?_⟩
  rw [← hlines 9 (by decide +kernel)]
  decide +kernel

/-- … and the same value by evaluating the program directly (independent of the theorem) -/
example : exec semL2n ((genOps Gen.kindPrefixes exH.net exOrder false).map OpRow.toOp) exEnv 9 = true := by decide +kernel

/-- the function of the module on all eight rows `(a, b1, b2)`: `y = a ∨ (b1 ∧ b2)` -/
example : (List.range 8).map (fun r => lookupA (vEvalLib (libHas exLibN) exRowN exTLn exLM.ports exLS (fun p => (r >>> p) % 2 == 1)) "y") =
    [some false, some true, some false, some true, some false, some true, some true, some true] := by decide +kernel

/-! ### … with a flip-flop as PRIMITIVE state element (kind `DFF`, not a cell of the library)

`module top(a, b, y); input a, b; output y; wire d, q; AOI21_X1 u1(.A(a), .B1(b), .B2(q), .ZN(d)); DFF f(.D(d), .Q(q));
INV_X1 u2(.I(q), .ZN(y)); endmodule` — interface positions: `a`, `b`, `y`, then the flip-flop `f`. -/
def exTLf : TL := fun k p =>
  if k == "DFF" then (if p == "D" then some (0, false) else if p == "CLK" then some (1, false) else if p == "Q" then some (0, true)
    else if p == "QN" then some (1, true) else none)
  else exTLn k p
def exFM : VModule := ⟨"top", ["a", "b", "y"],
  [.decl .input none ["a", "b"], .decl .output none ["y"], .decl .wire none ["d", "q"],
   .inst "AOI21_X1" "u1" [.named "A" (some (.sig "a" none)), .named "B1" (some (.sig "b" none)), .named "B2" (some (.sig "q" none)),
     .named "ZN" (some (.sig "d" none))],
   .inst "DFF" "f" [.named "D" (some (.sig "d" none)), .named "Q" (some (.sig "q" none))],
   .inst "INV_X1" "u2" [.named "I" (some (.sig "q" none)), .named "ZN" (some (.sig "y" none))]]⟩
def exFRs : List RStmt := (toRs exFM.stmts).getD []
def exFS : List Stmt := exFRs.map transform
def exFNN : NNet := verilogNNet {} exTLf exFM.ports exFS
def exFH : NNet := (resolveCells exLibN exFNN).getD default
def exFOrder : List Nat := [6, 7, 8, 9, 2, 3, 0, 1, 4, 5, 10]
/-- stimulus: `a = 0`, `b = 1`, state of `f` = 1 -/
def exFEnv : Nat → Bool := fun x => x == exFH.net.idx.ppi + 1 || x == exFH.net.idx.ppi + 3

theorem exFM_rs : toRs exFM.stmts = some exFRs := by
  have h : (toRs exFM.stmts).isSome = true := by decide +kernel
  unfold exFRs
  cases h' : toRs exFM.stmts with
  | none => rw [h'] at h; cases h
  | some rs => rfl
theorem exFH_eq : resolveCells exLibN exFNN = some exFH := by
  have h : (resolveCells exLibN exFNN).isSome = true := by decide +kernel
  unfold exFH
  cases h' : resolveCells exLibN exFNN with
  | none => rw [h'] at h; cases h
  | some r => rfl
theorem exFCerts : ∀ c, c < exFNN.net.nodes.size → (exLibN.find (exFNN.net.node c).kind).isSome = true →
    InstCert exLibN exRowN exOrdN exFNN c := by
  intro c hc hs
  have h11 : c < 11 := by
    have : exFNN.net.nodes.size = 11 := by decide +kernel
    omega
  rcases (by omega : c = 0 ∨ c = 1 ∨ c = 2 ∨ c = 3 ∨ c = 4 ∨ c = 5 ∨ c = 6 ∨ c = 7 ∨ c = 8 ∨ c = 9 ∨ c = 10) with
    rfl | rfl | rfl | rfl | rfl | rfl | rfl | rfl | rfl | rfl | rfl
  · exact ⟨nAoi, ⟨[0, 1, 2], [3], [0], some 4⟩, by decide +kernel, by decide +kernel, by decide +kernel, by decide +kernel,
      by decide +kernel, by decide +kernel, by decide +kernel, by decide +kernel, exRow_mem _, by decide +kernel, by decide +kernel⟩
  · exact absurd hs (by decide +kernel)
  · exact absurd hs (by decide +kernel)
  · exact absurd hs (by decide +kernel)
  · exact ⟨nInv, ⟨[0], [1], [0], some 2⟩, by decide +kernel, by decide +kernel, by decide +kernel, by decide +kernel,
      by decide +kernel, by decide +kernel, by decide +kernel, by decide +kernel, exRow_mem _, by decide +kernel, by decide +kernel⟩
  · exact absurd hs (by decide +kernel)
  · exact absurd hs (by decide +kernel)
  · exact absurd hs (by decide +kernel)
  · exact absurd hs (by decide +kernel)
  · exact absurd hs (by decide +kernel)
  · exact absurd hs (by decide +kernel)

/-- the flip-flop stays a state element of the resolved circuit (`s_nodes` = the three ports, then node 2 = `f`); the datasheet
model under the stimulus: `q = 1` (state), `d = AOI21(a; b, q) = 0`, `y = ¬q = 0` -/
example : exFH.kindNames = [("AOI21", "u1"), ("__fork__", "d"), ("DFF", "f"), ("__fork__", "q"), ("INV1", "u2"), ("__fork__", "y"),
      ("input", "a"), ("__fork__", "a"), ("input", "b"), ("__fork__", "b"), ("output", "y")] ∧ exFH.net.sNodes = [6, 8, 10, 2] ∧
    vEvalLib (libHas exLibN) exRowN exTLf exFM.ports exFS (fun p => exFEnv (exFH.net.idx.ppi + p)) =
      [("a", false), ("b", true), ("q", true), ("y", false), ("d", false)] := by decide +kernel

/-- **the theorem applied**: what the `LogicSim` model of the resolved circuit captures at the interface nodes — nothing at the input
ports, `y = 0` at the output port, the next state `d = 0` at the data pin of the flip-flop — is what the datasheet model observes -/
example : ((verilogNet {} exTLf exFM.ports exFS).sNodes.map fun n => (exFH.net.node n).inPin 0 |>.map
      (exec semL2n ((genOps Gen.kindPrefixes exFH.net exFOrder false).map OpRow.toOp) exFEnv)) =
    [none, none, some false, some false] := by
  have hm : vModelLibB (libHas exLibN) exRowN exTLf exFM.ports exFS (fun p => exFEnv (exFH.net.idx.ppi + p))
      [("a", false), ("b", true), ("q", true), ("y", false), ("d", false)] = true := by decide +kernel
  obtain ⟨σ, _, huniq, _, hcap⟩ := verilog_library_end_to_end {} exTLf exFM.ports exFS (by decide +kernel) exLibN (by decide +kernel)
    exFH (by decide +kernel) (by decide +kernel) exFH_eq exRowN exOrdN exFCerts (by decide +kernel) exFOrder (by decide +kernel)
    (by decide +kernel) (by decide +kernel) exFEnv (by decide +kernel) (by decide +kernel) (by decide +kernel)
  have hσ := huniq _ (verilog_lib_checker_sound _ _ _ _ _ _ _ hm)
  rw [hcap, ← hσ]
  decide +kernel

end Example

/-! ## "the same netlist written in either format yields equivalent circuits" — NETLIST level (Proofs/FormatEquiv2.lean)

One netlist description `nl : Nl` (ports `(is output, name)` in port-list order; gates `name = kind(drv…)` with a Verilog instance name
each, in statement order), its two renderings
  `benchOf nl : List BStmt`   — `INPUT(n)` / `OUTPUT(n)` per port in port-list order, then `name = kind(drv…)` per gate,
  `verilogOf nl : List Stmt`  — one single-bit `input n;` / `output n;` per port, then `kind inst(.o(name), .i0(d0), …)` per gate over the
                                pin table `primTL` of the primitive library (port list `nl.portNames`),
and the decidable common fragment `commonNlB nl`: port names pairwise different; gate names pairwise different; instance names pairwise
different and no port name; no input port is a gate name; every output port is a gate name; every gate has at most four operands and
no operand is a constant literal.  Combinational AND sequential kinds (`DFF`, latches: state elements by kind name) are inside.

* **Theorem**: `bench_verilog_equiv` (the statement the comment above `bench_verilog_equiv_partial` called missing) — the two
  statement-level denotations are THE SAME predicate on environments: `BenchModel (benchOf nl) z prim a σ ↔ VModel primTL nl.portNames
  (verilogOf nl) z neg prim a σ`, any value domain, any assignment, every environment — which covers the `sigDecls` / `inputNames` /
  `posNames` bookkeeping, the clause for names without driver, and state elements;
  `bench_verilog_interface_positions` — a port has the same `s_nodes` position in both (its index in the port list: `benchSPos` of its
  fork = `vSPos` of its cell), a gate (state element) too (ports, then flip-flops, then latches in statement order: `benchSPos` of the
  cell named by the SIGNAL = `vSPos` of the cell named by the INSTANCE);
  `bench_verilog_captures` — what is observed per interface position is the same list (`benchCaptures` = `vCaptures`);
  `bench_verilog_sim_equiv` — composition with `bench_end_to_end_as_simulated` / `verilog_end_to_end` (C11 ∘ C01/C02): when both
  renderings build (`benchOKB`, `verilogOKB`: decidable, about the two statement lists) and each parsed circuit has a schedule, for two
  stimuli that agree on the constant slot and on the `nl.nPos` interface positions there is ONE environment `σ` that is the unique
  model of both renderings, the 2-valued `LogicSim` result on every line of EITHER circuit is `σ` of the line's signal, and the two
  lists of captured values (output ports, data pins of state elements, in `s_nodes` order) are EQUAL — the truth tables the oracle
  `format-equivalence` compares.
  `bench_verilog_sim_equiv8` — the same equality of captured lists for the 8-valued simulation (`semL8`, `prim8`);
  `renderings_build` — for a CLOSED description (`closedNlB`: `commonNlB`, no kind is `__fork__`, every operand is a gate name or an
  input port, no gate name / input port looks like a constant bit `1'b…`) both renderings BUILD: `benchOKB (benchOf nl)`, and without
  branch forks (`cfg.bf = false`, the default of `verilog.parse`) `verilogOKB cfg primTL nl.portNames (verilogOf nl)`
  (Proofs/FormatEquiv3.lean: closed form of the reader end points of `vFlat`, pairwise different); `bench_verilog_sim_equiv_closed` —
  the simulation statement with hypotheses on the description and the two schedules only;
  `bench_verilog_equiv_layouts` — statement order and grouping do not matter: any bench statement list with the same `benchGates` /
  `benchPorts` and any module body with the same `sigDecls` / `vInsts` / assign pairs have the same models and observations.
  `renderings_build_branchforks` — with `closedBfNlB` (= `closedNlB` and the branch-fork names `stem~inst/pin`, one per input
  connection, are pairwise different and no gate name / input port; Proofs/FormatEquiv4.lean) `verilogOKB` holds for EVERY parser
  configuration, `branchforks=True` included; a name containing `~` can be outside (kernel-checked example).
  `bench_verilog_texts_to_nets`, `bench_verilog_text_sim_equiv` — FROM TEXT: `printBench (benchOf nl)` and `printVerilog [nlModule name nl]`
  (Proofs/FormatEquiv5.lean: the text-level module whose statements become `verilogOf nl`) are the two texts of the description; the
  circuits built from the model's reading of them have the two nets above, hence — closed description, any parser configuration,
  schedules — the same captured `LogicSim` results (any layout / spelling of the texts by the C11 layout and token-class theorems).
* **Hypotheses that remain**: `commonNlB` resp. `closedNlB` / `closedBfNlB` (all about the description only); at text level writable names
  (`validStmt`, `validModule`) and no apostrophe in a signal name (`noAposB`); the scheduling
  hypotheses of the two end-to-end theorems (`orderOKB`, `forksOKB`, `linesDrivenB` for each parsed circuit and its order).
* **Correspondence / oracle**: the renderings `benchOf` / `verilogOf` are CANONICAL (one statement per port, ports first; pin names
  `o`, `i0`…`i3`); the harness renders the same netlist with shuffled statements, grouped interface statements, renamed signals, kind
  synonyms, real library pin names, assigns, constants and buses — that those texts parse to circuits with the same tables stays with
  the oracle `format-equivalence` (harness/c11.py `run_netlist`); `BenchModel` depends on a description only through `benchGates` and
  `benchPorts`, so statement interleaving is irrelevant on the bench side by definition. -/
section FormatEquiv

/-- **`bench_verilog_equiv`**: the bench rendering and the Verilog rendering of one netlist description of the common fragment have
the same models — for every value domain / op algebra, assignment `a` of the interface positions and environment `σ` -/
theorem bench_verilog_equiv {α : Type} (nl : Nl) (hc : commonNlB nl = true) (z : α) (neg : α → α) (prim : String → α → α → α → α → α)
    (a : Nat → α) (σ : String → α) :
    BenchModel (benchOf nl) z prim a σ ↔ VModel primTL nl.portNames (verilogOf nl) z neg prim a σ :=
  bench_verilog_models_equiv nl (commonNl_of nl hc) z neg prim a σ

/-- **interface positions are the same**: a port `n` sits at its port-list index in both `s_nodes` orders; the state element of gate
`g` sits after the ports at its index among flip-flops-then-latches, in the bench circuit under the SIGNAL name, in the Verilog
circuit under the INSTANCE name -/
theorem bench_verilog_interface_positions (nl : Nl) (hc : commonNlB nl = true) :
    (∀ n ∈ nl.portNames, benchSPos (benchOf nl) (.fork n) = nl.portNames.idxOf n ∧
      vSPos nl.portNames (verilogOf nl) (.cell n 0) = nl.portNames.idxOf n) ∧
    (∀ g ∈ nl.gates, benchSPos (benchOf nl) (.cell g.name 0) = nl.ports.length + nl.seqGates.idxOf g ∧
      vSPos nl.portNames (verilogOf nl) (.cell g.inst 0) = nl.ports.length + nl.seqGates.idxOf g) :=
  ⟨fun n hn => nl_spos_port nl (commonNl_of nl hc).ports n hn, fun g hg => nl_spos_gate nl (commonNl_of nl hc) g hg⟩

/-- **what is observed is the same**: the list of observed values per interface position (an output port shows its signal, a state
element its first operand, nothing at input ports) of the two renderings -/
theorem bench_verilog_captures {α : Type} (nl : Nl) (hc : commonNlB nl = true) (z : α) (prim : String → α → α → α → α → α)
    (σ : String → α) :
    benchCaptures (benchOf nl) σ = vCaptures primTL nl.portNames (verilogOf nl) z prim σ :=
  bench_verilog_captures_equiv nl (commonNl_of nl hc) z prim σ

/-- the bench rendering builds when no kind is the literal `__fork__`; the Verilog rendering is inside the arity domain `vArityB` -/
theorem bench_rendering_builds (nl : Nl) (hc : commonNlB nl = true) (hk : (nl.gates.all fun g => g.kind != forkKind) = true) :
    benchOKB (benchOf nl) = true ∧ vArityB primTL (verilogOf nl) = true :=
  ⟨benchOK_benchOf nl (commonNl_of nl hc) (fun g hg => by simpa using (List.all_eq_true.mp hk) g hg), vArity_verilogOf nl⟩

/-- **`bench_verilog_sim_equiv`** (2-valued; composition with C11 `bench_end_to_end_as_simulated` / `verilog_end_to_end`, i.e. with
C01/C02): the circuits parsed from the two renderings compute the same function.  For stimuli `envB` / `envV` of the two simulators
that agree on the constant slot and on the interface positions: ONE environment `σ` is the unique model of both renderings, every
line of either circuit carries `σ` of its signal, and the captured lists are equal. -/
theorem bench_verilog_sim_equiv (cfg : Cfg) (nl : Nl) (hc : commonNlB nl = true)
    (hbok : benchOKB (benchOf nl) = true) (hvok : verilogOKB cfg primTL nl.portNames (verilogOf nl) = true)
    (orderB orderV : List Nat)
    (hoB : orderOKB (benchNet (benchOf nl)) orderB = true) (hfB : forksOKB (benchNet (benchOf nl)) orderB = true)
    (hlB : linesDrivenB Gen.kindPrefixes (benchNet (benchOf nl)) orderB = true)
    (hoV : orderOKB (verilogNet cfg primTL nl.portNames (verilogOf nl)) orderV = true)
    (hfV : forksOKB (verilogNet cfg primTL nl.portNames (verilogOf nl)) orderV = true)
    (hlV : linesDrivenB Gen.kindPrefixes (verilogNet cfg primTL nl.portNames (verilogOf nl)) orderV = true)
    (envB envV : Nat → Bool)
    (hz : envB (benchNet (benchOf nl)).idx.zero = envV (verilogNet cfg primTL nl.portNames (verilogOf nl)).idx.zero)
    (hst : ∀ p, p < nl.nPos →
      envB ((benchNet (benchOf nl)).idx.ppi + p) = envV ((verilogNet cfg primTL nl.portNames (verilogOf nl)).idx.ppi + p)) :
    ∃ σ, BenchModel (benchOf nl) (envB (benchNet (benchOf nl)).idx.zero) prim2 (fun p => envB ((benchNet (benchOf nl)).idx.ppi + p)) σ ∧
      VModel primTL nl.portNames (verilogOf nl) (envV (verilogNet cfg primTL nl.portNames (verilogOf nl)).idx.zero) (!·) prim2
        (fun p => envV ((verilogNet cfg primTL nl.portNames (verilogOf nl)).idx.ppi + p)) σ ∧
      (∀ σ', BenchModel (benchOf nl) (envB (benchNet (benchOf nl)).idx.zero) prim2
        (fun p => envB ((benchNet (benchOf nl)).idx.ppi + p)) σ' → σ' = σ) ∧
      (∀ i, i < (benchNet (benchOf nl)).lines.size →
        exec semL2n ((genOps Gen.kindPrefixes (benchNet (benchOf nl)) orderB false).map OpRow.toOp) envB i =
          benchLabel (benchOf nl) σ i) ∧
      (∀ i, i < (verilogNet cfg primTL nl.portNames (verilogOf nl)).lines.size →
        exec semL2n ((genOps Gen.kindPrefixes (verilogNet cfg primTL nl.portNames (verilogOf nl)) orderV false).map OpRow.toOp) envV i =
          vLabel cfg primTL (verilogOf nl) (envV (verilogNet cfg primTL nl.portNames (verilogOf nl)).idx.zero) prim2 σ i) ∧
      ((benchNet (benchOf nl)).sNodes.map fun n => ((benchNet (benchOf nl)).node n).inPin 0 |>.map
        (exec semL2n ((genOps Gen.kindPrefixes (benchNet (benchOf nl)) orderB false).map OpRow.toOp) envB)) =
      ((verilogNet cfg primTL nl.portNames (verilogOf nl)).sNodes.map fun n =>
        ((verilogNet cfg primTL nl.portNames (verilogOf nl)).node n).inPin 0 |>.map
          (exec semL2n ((genOps Gen.kindPrefixes (verilogNet cfg primTL nl.portNames (verilogOf nl)) orderV false).map OpRow.toOp) envV)) := by
  have hcn := commonNl_of nl hc
  obtain ⟨σB, hmB, huB, hlineB, hcapB⟩ := bench_end_to_end_as_simulated (benchOf nl) hbok orderB hoB hfB hlB envB
  obtain ⟨σV, hmV, _, hlineV, hcapV⟩ := verilog_end_to_end cfg primTL nl.portNames (verilogOf nl) hvok (vArity_verilogOf nl) orderV
    hoV hfV hlV envV
  have hmV' : BenchModel (benchOf nl) (envB (benchNet (benchOf nl)).idx.zero) prim2
      (fun p => envB ((benchNet (benchOf nl)).idx.ppi + p)) σV := by
    rw [hz]
    exact benchModel_benchOf_congr nl hcn _ prim2 _ _ (fun p hp => (hst p hp).symm) σV
      ((bench_verilog_models_equiv nl hcn _ (!·) prim2 _ σV).mpr hmV)
  have he : σV = σB := huB σV hmV'
  subst he
  refine ⟨σV, hmB, hmV, huB, hlineB, hlineV, ?_⟩
  rw [hcapB, hcapV]
  exact bench_verilog_captures_equiv nl hcn _ prim2 σV

/-- non-vacuity: ports `a` (in), `y` (out), `b` (in); `n = NAND(a, b)`, `q = DFF(n)`, `y = XOR(q, a, b)` — a flip-flop between two
combinational gates, a three-operand gate, the output in the middle of the port list -/
def exNl : Nl := ⟨[(false, "a"), (true, "y"), (false, "b")],
  [⟨"n", "NAND", "g1", ["a", "b"]⟩, ⟨"q", "DFF", "f", ["n"]⟩, ⟨"y", "XOR", "g2", ["q", "a", "b"]⟩]⟩
def exNlOrdB : List Nat := [0, 2, 5, 6, 3, 4, 7, 1]
def exNlOrdV : List Nat := [6, 7, 9, 10, 2, 3, 0, 1, 4, 5, 8]

/-- the two renderings -/
example : benchOf exNl = [.intf ["a"], .intf ["y"], .intf ["b"], .gate "n" "NAND" ["a", "b"], .gate "q" "DFF" ["n"],
      .gate "y" "XOR" ["q", "a", "b"]] ∧
    verilogOf exNl = [.decls [⟨.input, "a", none⟩], .decls [⟨.output, "y", none⟩], .decls [⟨.input, "b", none⟩],
      .inst "NAND" "g1" [("o", .one "n"), ("i0", .one "a"), ("i1", .one "b")],
      .inst "DFF" "f" [("o", .one "q"), ("i0", .one "n")],
      .inst "XOR" "g2" [("o", .one "y"), ("i0", .one "q"), ("i1", .one "a"), ("i2", .one "b")]] ∧ exNl.nPos = 4 := by
  refine ⟨rfl, rfl, ?_⟩
  decide +kernel

/-- every hypothesis of `bench_verilog_equiv` and `bench_verilog_sim_equiv` holds for it (kernel evaluation): the fragment, both
renderings build, both parsed circuits (8 resp. 11 nodes) are scheduled by the given orders -/
theorem exNl_hyps : commonNlB exNl = true ∧ benchOKB (benchOf exNl) = true ∧
    verilogOKB {} primTL exNl.portNames (verilogOf exNl) = true ∧
    orderOKB (benchNet (benchOf exNl)) exNlOrdB = true ∧ forksOKB (benchNet (benchOf exNl)) exNlOrdB = true ∧
    linesDrivenB Gen.kindPrefixes (benchNet (benchOf exNl)) exNlOrdB = true ∧
    orderOKB (verilogNet {} primTL exNl.portNames (verilogOf exNl)) exNlOrdV = true ∧
    forksOKB (verilogNet {} primTL exNl.portNames (verilogOf exNl)) exNlOrdV = true ∧
    linesDrivenB Gen.kindPrefixes (verilogNet {} primTL exNl.portNames (verilogOf exNl)) exNlOrdV = true ∧
    (benchNet (benchOf exNl)).sNodes = [0, 1, 2, 5] ∧ (verilogNet {} primTL exNl.portNames (verilogOf exNl)).sNodes = [6, 8, 9, 2] ∧
    ((benchNet (benchOf exNl)).idx.zero, (benchNet (benchOf exNl)).idx.ppi) = (9, 12) ∧
    ((verilogNet {} primTL exNl.portNames (verilogOf exNl)).idx.zero,
      (verilogNet {} primTL exNl.portNames (verilogOf exNl)).idx.ppi) = (12, 15) := by decide +kernel

/-- **the theorem applied**: stimulus `a = 1`, `b = 0`, state of the flip-flop `1` given to both simulators (bench positions at
slots `12 + p`, Verilog positions at `15 + p`): the two captured lists (ports `a`, `y`, `b`, then the data pin of the flip-flop) are equal -/
example : ((benchNet (benchOf exNl)).sNodes.map fun n => ((benchNet (benchOf exNl)).node n).inPin 0 |>.map
      (exec semL2n ((genOps Gen.kindPrefixes (benchNet (benchOf exNl)) exNlOrdB false).map OpRow.toOp)
        (fun x => x == 12 || x == 15))) =
    ((verilogNet {} primTL exNl.portNames (verilogOf exNl)).sNodes.map fun n =>
      ((verilogNet {} primTL exNl.portNames (verilogOf exNl)).node n).inPin 0 |>.map
        (exec semL2n ((genOps Gen.kindPrefixes (verilogNet {} primTL exNl.portNames (verilogOf exNl)) exNlOrdV false).map OpRow.toOp)
          (fun x => x == 15 || x == 18))) := by
  obtain ⟨h1, h2, h3, h4, h5, h6, h7, h8, h9, _, _, hiB, hiV⟩ := exNl_hyps
  have hzB : (benchNet (benchOf exNl)).idx.zero = 9 := congrArg Prod.fst hiB
  have hpB : (benchNet (benchOf exNl)).idx.ppi = 12 := congrArg Prod.snd hiB
  have hzV : (verilogNet {} primTL exNl.portNames (verilogOf exNl)).idx.zero = 12 := congrArg Prod.fst hiV
  have hpV : (verilogNet {} primTL exNl.portNames (verilogOf exNl)).idx.ppi = 15 := congrArg Prod.snd hiV
  obtain ⟨_, _, _, _, _, _, hcap⟩ := bench_verilog_sim_equiv {} exNl h1 h2 h3 exNlOrdB exNlOrdV h4 h5 h6 h7 h8 h9
    (fun x => x == 12 || x == 15) (fun x => x == 15 || x == 18) (by rw [hzB, hzV]; rfl)
    (by
      intro p hp
      rw [hpB, hpV]
      have : exNl.nPos = 4 := by decide +kernel
      rw [this] at hp
      rcases (by omega : p = 0 ∨ p = 1 ∨ p = 2 ∨ p = 3) with rfl | rfl | rfl | rfl <;> rfl)
  exact hcap

/-- **both renderings of a CLOSED description build** (`closedNlB`: `commonNlB`, no kind is the literal `__fork__`, every operand is a
gate name or an input port, no gate name / input port looks like a constant bit `1'b…` — decidable, about the description only):
`benchOKB` of the bench rendering, and — without branch forks, the default of `verilog.parse` — the fragment `verilogOKB` of the
Verilog rendering; both arity domains -/
theorem renderings_build (cfg : Cfg) (hbf : cfg.bf = false) (nl : Nl) (h : closedNlB nl = true) :
    commonNlB nl = true ∧ benchOKB (benchOf nl) = true ∧ benchArityB (benchOf nl) = true ∧
    verilogOKB cfg primTL nl.portNames (verilogOf nl) = true ∧ vArityB primTL (verilogOf nl) = true :=
  ⟨(closedNl_of nl h).1, benchOK_benchOf nl (commonNl_of nl (closedNl_of nl h).1) (closedNl_of nl h).2.kinds,
    benchArity_benchOf nl (commonNl_of nl (closedNl_of nl h).1),
    verilogOK_verilogOf cfg hbf nl (commonNl_of nl (closedNl_of nl h).1) (closedNl_of nl h).2, vArity_verilogOf nl⟩

/-- **`bench_verilog_sim_equiv_closed`**: `bench_verilog_sim_equiv` with hypotheses on the DESCRIPTION and the two schedules only -/
theorem bench_verilog_sim_equiv_closed (cfg : Cfg) (hbf : cfg.bf = false) (nl : Nl) (hcl : closedNlB nl = true)
    (orderB orderV : List Nat)
    (hoB : orderOKB (benchNet (benchOf nl)) orderB = true) (hfB : forksOKB (benchNet (benchOf nl)) orderB = true)
    (hlB : linesDrivenB Gen.kindPrefixes (benchNet (benchOf nl)) orderB = true)
    (hoV : orderOKB (verilogNet cfg primTL nl.portNames (verilogOf nl)) orderV = true)
    (hfV : forksOKB (verilogNet cfg primTL nl.portNames (verilogOf nl)) orderV = true)
    (hlV : linesDrivenB Gen.kindPrefixes (verilogNet cfg primTL nl.portNames (verilogOf nl)) orderV = true)
    (envB envV : Nat → Bool)
    (hz : envB (benchNet (benchOf nl)).idx.zero = envV (verilogNet cfg primTL nl.portNames (verilogOf nl)).idx.zero)
    (hst : ∀ p, p < nl.nPos →
      envB ((benchNet (benchOf nl)).idx.ppi + p) = envV ((verilogNet cfg primTL nl.portNames (verilogOf nl)).idx.ppi + p)) :
    ((benchNet (benchOf nl)).sNodes.map fun n => ((benchNet (benchOf nl)).node n).inPin 0 |>.map
        (exec semL2n ((genOps Gen.kindPrefixes (benchNet (benchOf nl)) orderB false).map OpRow.toOp) envB)) =
      ((verilogNet cfg primTL nl.portNames (verilogOf nl)).sNodes.map fun n =>
        ((verilogNet cfg primTL nl.portNames (verilogOf nl)).node n).inPin 0 |>.map
          (exec semL2n ((genOps Gen.kindPrefixes (verilogNet cfg primTL nl.portNames (verilogOf nl)) orderV false).map OpRow.toOp) envV)) := by
  obtain ⟨h1, h2, _, h3, _⟩ := renderings_build cfg hbf nl hcl
  obtain ⟨_, _, _, _, _, _, hcap⟩ := bench_verilog_sim_equiv cfg nl h1 h2 h3 orderB orderV hoB hfB hlB hoV hfV hlV envB envV hz hst
  exact hcap

/-- the example description is closed -/
example : closedNlB exNl = true := by decide +kernel

/-- **any statement layout with the same tables**: a bench description `bs` with the gate statements and interface names of
`benchOf nl` in the same order (interface statements grouped / interleaved with the gates anywhere — what `benchGates`, `benchPorts`
see) and a module body `vs` with the declarations table, the instances in order and no assign pairs of `verilogOf nl` (declarations
split over several statements, statements interleaved, `other` items) have the same models and the same observations -/
theorem bench_verilog_equiv_layouts {α : Type} (nl : Nl) (hc : commonNlB nl = true) (bs : List BStmt) (vs : List Stmt)
    (hbg : benchGates bs = benchGates (benchOf nl)) (hbp : benchPorts bs = benchPorts (benchOf nl))
    (hvd : sigDecls vs = sigDecls (verilogOf nl)) (hvi : vInsts vs = vInsts (verilogOf nl))
    (hva : ∀ ds, assignPairs ds vs = assignPairs ds (verilogOf nl))
    (z : α) (neg : α → α) (prim : String → α → α → α → α → α) (a : Nat → α) (σ : String → α) :
    (BenchModel bs z prim a σ ↔ VModel primTL nl.portNames vs z neg prim a σ) ∧
    benchCaptures bs σ = vCaptures primTL nl.portNames vs z prim σ := by
  obtain ⟨h1, _, h3⟩ := benchModel_congr_stmts (benchOf nl) bs hbg hbp z prim a σ
  obtain ⟨h4, _, h6⟩ := vModel_congr_stmts primTL nl.portNames (verilogOf nl) vs hvd hvi hva z neg prim a σ
  exact ⟨h1.trans ((bench_verilog_equiv nl hc z neg prim a σ).trans h4.symm),
    h3.trans ((bench_verilog_captures nl hc z prim σ).trans h6.symm)⟩

/-- the hypotheses hold for a shuffled bench text with grouped interface statements (`n = NAND(a, b)`, `INPUT(a)`, `q = DFF(n)`,
`OUTPUT(y)`, `INPUT(b)` … in any interleaving that keeps the two orders) and a module body with split declarations -/
example : benchGates [.gate "n" "NAND" ["a", "b"], .intf ["a", "y"], .gate "q" "DFF" ["n"], .gate "y" "XOR" ["q", "a", "b"], .intf ["b"]] =
      benchGates (benchOf exNl) ∧
    benchPorts [.gate "n" "NAND" ["a", "b"], .intf ["a", "y"], .gate "q" "DFF" ["n"], .gate "y" "XOR" ["q", "a", "b"], .intf ["b"]] =
      benchPorts (benchOf exNl) ∧
    sigDecls [.decls [⟨.input, "a", none⟩], .inst "NAND" "g1" [("o", .one "n"), ("i0", .one "a"), ("i1", .one "b")], .other,
        .decls [⟨.output, "y", none⟩, ⟨.input, "b", none⟩], .inst "DFF" "f" [("o", .one "q"), ("i0", .one "n")],
        .inst "XOR" "g2" [("o", .one "y"), ("i0", .one "q"), ("i1", .one "a"), ("i2", .one "b")]] = sigDecls (verilogOf exNl) := by
  decide +kernel

/-- **`bench_verilog_sim_equiv8`**: the same for the 8-valued simulation (`semL8` = the real dispatch of `c_prop`, documented algebra
`prim8`): the two captured lists are equal for stimuli that agree on the constant slot and the interface positions -/
theorem bench_verilog_sim_equiv8 (cfg : Cfg) (nl : Nl) (hc : commonNlB nl = true)
    (hbok : benchOKB (benchOf nl) = true) (hvok : verilogOKB cfg primTL nl.portNames (verilogOf nl) = true)
    (orderB orderV : List Nat)
    (hoB : orderOKB (benchNet (benchOf nl)) orderB = true) (hfB : forksOKB (benchNet (benchOf nl)) orderB = true)
    (hlB : linesDrivenB Gen.kindPrefixes (benchNet (benchOf nl)) orderB = true)
    (hoV : orderOKB (verilogNet cfg primTL nl.portNames (verilogOf nl)) orderV = true)
    (hfV : forksOKB (verilogNet cfg primTL nl.portNames (verilogOf nl)) orderV = true)
    (hlV : linesDrivenB Gen.kindPrefixes (verilogNet cfg primTL nl.portNames (verilogOf nl)) orderV = true)
    (envB envV : Nat → V3)
    (hz : envB (benchNet (benchOf nl)).idx.zero = envV (verilogNet cfg primTL nl.portNames (verilogOf nl)).idx.zero)
    (hst : ∀ p, p < nl.nPos →
      envB ((benchNet (benchOf nl)).idx.ppi + p) = envV ((verilogNet cfg primTL nl.portNames (verilogOf nl)).idx.ppi + p)) :
    ((benchNet (benchOf nl)).sNodes.map fun n => ((benchNet (benchOf nl)).node n).inPin 0 |>.map
        (exec semL8 ((genOps Gen.kindPrefixes (benchNet (benchOf nl)) orderB false).map OpRow.toOp) envB)) =
      ((verilogNet cfg primTL nl.portNames (verilogOf nl)).sNodes.map fun n =>
        ((verilogNet cfg primTL nl.portNames (verilogOf nl)).node n).inPin 0 |>.map
          (exec semL8 ((genOps Gen.kindPrefixes (verilogNet cfg primTL nl.portNames (verilogOf nl)) orderV false).map OpRow.toOp) envV)) := by
  have hcn := commonNl_of nl hc
  obtain ⟨σB, _, huB, _, hcapB⟩ := bench_end_to_end8 (benchOf nl) hbok (benchArity_benchOf nl hcn) orderB hoB hfB hlB envB
  obtain ⟨σV, hmV, _, _, hcapV⟩ := verilog_end_to_end8 cfg primTL nl.portNames (verilogOf nl) hvok (vArity_verilogOf nl) orderV
    hoV hfV hlV envV
  have hmV' : BenchModel (benchOf nl) (envB (benchNet (benchOf nl)).idx.zero) prim8
      (fun p => envB ((benchNet (benchOf nl)).idx.ppi + p)) σV := by
    rw [hz]
    exact benchModel_benchOf_congr nl hcn _ prim8 _ _ (fun p hp => (hst p hp).symm) σV
      ((bench_verilog_models_equiv nl hcn _ specNot prim8 _ σV).mpr hmV)
  have he : σV = σB := huB σV hmV'
  subst he
  rw [hcapB, hcapV]
  exact bench_verilog_captures_equiv nl hcn _ prim8 σV

/-- **… with branch forks too**: `closedBfNlB` = `closedNlB` and the branch-fork names `stem~inst/pin` the reader pass makes
(`nl.branchNames`: one per input connection) are pairwise different and no gate name / input port — then the Verilog rendering is
inside the fragment for EVERY parser configuration, `branchforks=True` included -/
theorem renderings_build_branchforks (cfg : Cfg) (nl : Nl) (h : closedBfNlB nl = true) :
    verilogOKB cfg primTL nl.portNames (verilogOf nl) = true :=
  verilogOK_verilogOf_any cfg nl h

/-- the example description has fresh branch-fork names: `a~g1/i0`, `b~g1/i1`, `n~f/i0`, `q~g2/i0`, `a~g2/i1`, `b~g2/i2` -/
example : closedBfNlB exNl = true ∧ exNl.branchNames = ["a~g1/i0", "b~g1/i1", "n~f/i0", "q~g2/i0", "a~g2/i1", "b~g2/i2"] := by
  decide +kernel

/-- a description whose signal names contain `~` can be outside: the gate name `a~g/i0` IS the branch-fork name of pin `i0` of `g` -/
example : closedNlB ⟨[(false, "a"), (true, "y")], [⟨"a~g/i0", "BUF", "g", ["a"]⟩, ⟨"y", "NOT", "h", ["a~g/i0"]⟩]⟩ = true ∧
    closedBfNlB ⟨[(false, "a"), (true, "y")], [⟨"a~g/i0", "BUF", "g", ["a"]⟩, ⟨"y", "NOT", "h", ["a~g/i0"]⟩]⟩ = false ∧
    verilogOKB { bf := true } primTL ["a", "y"]
      (verilogOf ⟨[(false, "a"), (true, "y")], [⟨"a~g/i0", "BUF", "g", ["a"]⟩, ⟨"y", "NOT", "h", ["a~g/i0"]⟩]⟩) = false := by
  decide +kernel

/-! ### from TEXT: the two renderings as printed texts

`KV.BenchText.printBench (benchOf nl)` and `KV.VerilogText.printVerilog [nlModule name nl]` (Proofs/FormatEquiv5.lean: the module of
the text level whose statements `toRs` / `transform` turn into `verilogOf nl`) are the two TEXTS of the description; the model's
reading of each text builds the circuit whose net the theorems above speak about. -/

/-- **text → net, both formats**: for a description with writable names (`validStmt` / `validModule`: decidable) and no apostrophe in
a signal name (`noAposB`), the circuit built from the model's reading of the printed bench text has the net `benchNet (benchOf nl)`, the
one built from the printed Verilog module the net `verilogNet cfg primTL nl.portNames (verilogOf nl)` -/
theorem bench_verilog_texts_to_nets (cfg : Cfg) (mname : String) (nl : Nl)
    (hvb : (benchOf nl).all KV.BenchText.validStmt = true) (hvm : KV.VerilogText.validModule (nlModule mname nl) = true)
    (hap : noAposB nl = true) :
    (KV.BenchText.circOfText (KV.BenchText.printBench (benchOf nl))).map (fun C => C.toNet C.ioBench) =
      some (benchNet (benchOf nl)) ∧
    (KV.VerilogText.circOfText cfg primTL (KV.VerilogText.printVerilog [nlModule mname nl])).map (fun C => C.toNet C.ioVerilog) =
      some (verilogNet cfg primTL nl.portNames (verilogOf nl)) := by
  constructor
  · rw [bench_text_to_netlist (benchOf nl) hvb]; rfl
  · have := verilog_text_to_net cfg primTL (nlModule mname nl) (nlRs nl) hvm (toRs_nlModule mname nl hap) (hasPos_nlModule mname nl)
      (ok_nlRs nl)
    rw [transform_nlRs] at this
    exact this

/-- **`bench_verilog_text_sim_equiv`** — "the same netlist written in either format yields equivalent circuits", from the TEXTS: `nl` a
closed description with fresh branch-fork names (`closedBfNlB`; any parser configuration `cfg`), `nB` / `nV` the nets of the circuits
built from the model's reading of the printed bench text resp. the printed Verilog module, each with a schedule; two stimuli that
agree on the constant slot and the interface positions: the 2-valued `LogicSim` results captured at the interface nodes (ports, state
elements, in `s_nodes` order) are the same list -/
theorem bench_verilog_text_sim_equiv (cfg : Cfg) (mname : String) (nl : Nl) (hcl : closedBfNlB nl = true)
    (hvb : (benchOf nl).all KV.BenchText.validStmt = true) (hvm : KV.VerilogText.validModule (nlModule mname nl) = true)
    (hap : noAposB nl = true) (nB nV : Net)
    (hnB : (KV.BenchText.circOfText (KV.BenchText.printBench (benchOf nl))).map (fun C => C.toNet C.ioBench) = some nB)
    (hnV : (KV.VerilogText.circOfText cfg primTL (KV.VerilogText.printVerilog [nlModule mname nl])).map
      (fun C => C.toNet C.ioVerilog) = some nV)
    (orderB orderV : List Nat)
    (hoB : orderOKB nB orderB = true) (hfB : forksOKB nB orderB = true) (hlB : linesDrivenB Gen.kindPrefixes nB orderB = true)
    (hoV : orderOKB nV orderV = true) (hfV : forksOKB nV orderV = true) (hlV : linesDrivenB Gen.kindPrefixes nV orderV = true)
    (envB envV : Nat → Bool) (hz : envB nB.idx.zero = envV nV.idx.zero)
    (hst : ∀ p, p < nl.nPos → envB (nB.idx.ppi + p) = envV (nV.idx.ppi + p)) :
    (nB.sNodes.map fun n => (nB.node n).inPin 0 |>.map
        (exec semL2n ((genOps Gen.kindPrefixes nB orderB false).map OpRow.toOp) envB)) =
      (nV.sNodes.map fun n => (nV.node n).inPin 0 |>.map
        (exec semL2n ((genOps Gen.kindPrefixes nV orderV false).map OpRow.toOp) envV)) := by
  obtain ⟨h1, h2⟩ := bench_verilog_texts_to_nets cfg mname nl hvb hvm hap
  rw [h1] at hnB
  rw [h2] at hnV
  cases hnB
  cases hnV
  have hc : closedNlB nl = true := by
    rw [closedBfNlB, Bool.and_eq_true] at hcl; exact hcl.1
  obtain ⟨hcm, hcc⟩ := closedNl_of nl hc
  obtain ⟨_, _, _, _, _, _, hcap⟩ := bench_verilog_sim_equiv cfg nl hcm (benchOK_benchOf nl (commonNl_of nl hcm) hcc.kinds)
    (renderings_build_branchforks cfg nl hcl) orderB orderV hoB hfB hlB hoV hfV hlV envB envV hz hst
  exact hcap

/-- the two texts of the example description; every text-level hypothesis holds -/
example : KV.BenchText.printBench (benchOf exNl) = "INPUT(a)\nINPUT(y)\nINPUT(b)\nn = NAND(a, b)\nq = DFF(n)\ny = XOR(q, a, b)\n" ∧
    KV.VerilogText.printVerilog [nlModule "top" exNl] =
      "module top(a, y, b);\ninput a;\noutput y;\ninput b;\nNAND g1(.o(n), .i0(a), .i1(b));\nDFF f(.o(q), .i0(n));\nXOR g2(.o(y), .i0(q), .i1(a), .i2(b));\nendmodule\n" ∧
    (benchOf exNl).all KV.BenchText.validStmt = true ∧ KV.VerilogText.validModule (nlModule "top" exNl) = true ∧
    noAposB exNl = true := by decide +kernel

end FormatEquiv


/-! ### a primitive gate NEXT TO certified library cells (third audit, item 2)

On every case the harness can reach the real reader rejects kinds outside the library it is given, so `vArityLibB` never inspects a primitive
there. This kernel-checked instance does: `AOI21_X1 → AND2 (primitive, pin table `pTL`) → INV_X1`; every hypothesis of
`verilog_library_text_end_to_end` (incl. `hpos`, `RStmt.ok`, `tlFitsB`, `vArityLibB`) holds by `decide +kernel`, the theorem is applied, and the
by-name model agrees (`pFull`). Written by the auditor as a positive witness. -/
section PrimitiveWitness
open KV KV.Netlist KV.Transform KV.TL KV.DS KV.Sig KV.VerilogText

def pTL : TL := fun k p =>
  if k == "AND2" then (if p == "A1" then some (0, false) else if p == "A2" then some (1, false) else if p == "Z" then some (0, true) else none)
  else exTLn k p

def pM : VModule := ⟨"top", ["a", "b1", "b2", "c", "y"],
  [.decl .input none ["a", "b1", "b2", "c"], .decl .output none ["y"], .decl .wire none ["n", "m"],
   .inst "AOI21_X1" "u1" [.named "A" (some (.sig "a" none)), .named "B1" (some (.sig "b1" none)), .named "B2" (some (.sig "b2" none)),
     .named "ZN" (some (.sig "n" none))],
   .inst "AND2" "g" [.named "A1" (some (.sig "n" none)), .named "A2" (some (.sig "c" none)), .named "Z" (some (.sig "m" none))],
   .inst "INV_X1" "u2" [.named "I" (some (.sig "m" none)), .named "ZN" (some (.sig "y" none))]]⟩
def pRs : List RStmt := (toRs pM.stmts).getD []
def pS : List Stmt := pRs.map transform
def pNN : NNet := verilogNNet {} pTL pM.ports pS
def pH : NNet := (resolveCells exLibN pNN).getD default
def pOrder : List Nat := [6,7,8,9,10,11,12,13,0,1,2,3,4,5,14]
-- stimulus a=0,b1=0,b2=1,c=1  -> n = ¬(0 ∨ 0) = 1, m = 1 ∧ 1 = 1, y = 0
def pEnv : Nat → Bool := fun x => x == pH.net.idx.ppi + 2 || x == pH.net.idx.ppi + 3

theorem pM_rs : toRs pM.stmts = some pRs := by
  have h : (toRs pM.stmts).isSome = true := by decide +kernel
  unfold pRs
  cases h' : toRs pM.stmts with
  | none => rw [h'] at h; cases h
  | some rs => rfl
theorem pH_eq : resolveCells exLibN pNN = some pH := by
  have h : (resolveCells exLibN pNN).isSome = true := by decide +kernel
  unfold pH
  cases h' : resolveCells exLibN pNN with
  | none => rw [h'] at h; cases h
  | some r => rfl

theorem pCerts : ∀ c, c < pNN.net.nodes.size → (exLibN.find (pNN.net.node c).kind).isSome = true →
    InstCert exLibN exRowN exOrdN pNN c := by
  intro c hc hs
  have h15 : c < 15 := by
    have : pNN.net.nodes.size = 15 := by decide +kernel
    omega
  rcases (by omega : c = 0 ∨ c = 1 ∨ c = 2 ∨ c = 3 ∨ c = 4 ∨ c = 5 ∨ c = 6 ∨ c = 7 ∨ c = 8 ∨ c = 9 ∨ c = 10 ∨ c = 11 ∨ c = 12 ∨ c = 13 ∨ c = 14) with
    rfl | rfl | rfl | rfl | rfl | rfl | rfl | rfl | rfl | rfl | rfl | rfl | rfl | rfl | rfl
  · exact ⟨nAoi, ⟨[0, 1, 2], [3], [0], some 4⟩, by decide +kernel, by decide +kernel, by decide +kernel, by decide +kernel,
      by decide +kernel, by decide +kernel, by decide +kernel, by decide +kernel, exRow_mem _, by decide +kernel, by decide +kernel⟩
  · exact absurd hs (by decide +kernel)
  · exact absurd hs (by decide +kernel)
  · exact absurd hs (by decide +kernel)
  · exact ⟨nInv, ⟨[0], [1], [0], some 2⟩, by decide +kernel, by decide +kernel, by decide +kernel, by decide +kernel,
      by decide +kernel, by decide +kernel, by decide +kernel, by decide +kernel, exRow_mem _, by decide +kernel, by decide +kernel⟩
  all_goals exact absurd hs (by decide +kernel)

-- every hypothesis incl. the new ones (hpos, RStmt.ok, tlFitsB, vArityLibB with a primitive combinational gate actually inspected)
theorem pFull : ∃ σ, VModelLib (libHas exLibN) exRowN pTL pM.ports pS (fun p => pEnv (pH.net.idx.ppi + p)) σ ∧
    VModelLibN (libHas exLibN) exRowN pTL pM.ports pS (fun p => pEnv (pH.net.idx.ppi + p)) σ ∧
    (∀ i, i < pNN.net.lines.size →
      exec semL2n ((genOps Gen.kindPrefixes pH.net pOrder false).map OpRow.toOp) pEnv i = vLabel {} pTL pS false prim2 σ i) := by
  have hnn : (circOfText {} pTL (printVerilog [pM])).map (fun C => C.toNNet C.ioVerilog) = some pNN :=
    verilog_text_to_nnet {} pTL pM pRs (by decide +kernel) pM_rs (by decide +kernel) (by decide +kernel)
  have htl : tlFitsB (libHas exLibN) exRowN pTL pS = true := by decide +kernel
  obtain ⟨σ, hm, _, hlines, _⟩ := verilog_library_text_end_to_end {} pTL pM pRs (by decide +kernel) pM_rs
    (by decide +kernel) (by decide +kernel) (by decide +kernel) exLibN (by decide +kernel)
    pNN pH hnn (by decide +kernel) (by decide +kernel) pH_eq exRowN exOrdN pCerts (by decide +kernel) pOrder
    (by decide +kernel) (by decide +kernel) (by decide +kernel) pEnv
    (by decide +kernel) htl (by decide +kernel)
  exact ⟨σ, hm, (verilog_library_by_name exLibN exRowN pTL pM.ports pS htl _ σ).mp hm, hlines⟩

-- the primitive gate is really looked at by vArityLibB: its inConn is non-empty
example : (vInsts pS).map (fun (i : VInst) => (i.ty, libHas exLibN i.ty, KV.Netlist.isSeqKind i.ty, (inConn pTL i).map (·.2.1))) =
  [("AOI21_X1", true, false, [0,1,2]), ("AND2", false, false, [0,1]), ("INV_X1", true, false, [0])] := by decide +kernel
-- direct evaluation, line into output port y
end PrimitiveWitness

end KV.C11
