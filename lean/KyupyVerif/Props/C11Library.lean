import KyupyVerif.Props.C11
import KyupyVerif.Props.C10Datasheet
import KyupyVerif.Proofs.VerilogLib5
/-! # C11 (capstone) — structural Verilog over a CELL LIBRARY: text → parse → `resolve_tlib_cells` → `SimOps` → `LogicSim`
computes the DATASHEET denotation of the module

Composition of C11 (`verilog_text_to_netlist`, `verilog_parsed_sem`), C10 (`resolve_sem`, `resolve_datasheet_sem`), C19 (the
generated library tables: `family functions on the real SimOps programs`, through `implMatches_iff_datasheet`) and C01/C02
(`sim_is_the_labelling` = `logic_all_circuits` + `solves_iff_consistent`).

Objects.  `verilogNNet cfg tl ports stmts` (Model/VerilogLib.lean) — the canonical dump WITH node names of the circuit the parser
model builds (`verilogNet` + names): the object the model `Transform.resolveCells lib` of `resolve_tlib_cells` works on.
`VModelLib isLib row tl ports stmts a σ` — the **datasheet denotation** of the module, written without any circuit: `σ` gives
every output `(idx, f)` of an instance of a library cell type `T` the value `(DS.datasheet (DS.classify (DS.baseName T)) pins)[idx]`
of the values `σ` gives the signals / constants on the instance's input pins `0 … n-1` (the hand-written data-book reading of the
cell NAME, Model/Datasheet.lean; `pins` = pin names of the table row `row T`); every other instance (a simulation primitive or a
state element by its kind name), input port bits, assign pairs and undriven names are read as in `VModel` (C11).

* **Theorem** (kernel-checked, this file):
  - `verilog_parsed_sem_holes` — **(a) the hole-set version of `verilog_parsed_sem`**: for ANY set `HI` of instances and the set
    `S` of their nodes, the labellings of `verilogNet …` that satisfy the gate equation of every line not driven by a node in `S`
    correspond one-to-one to the environments satisfying every equation of the module except those of the instances in `HI`
    (`VModelOff`).  `verilog_parsed_sem` is the case `HI = ∅` (its proof was generalised, not repeated:
    Proofs/VerilogSem.lean `v_model_circ_off`, `v_circ_model_off`; Proofs/CircLabel.lean `circ_*_off`).
    `verilog_parsed_sem_lib` — the same in the vocabulary of C10: `ConsOff (verilogNNet …) (library-cell nodes)` with the assignment
    per node ⇔ `VModelOff (library instances)`.
  - `verilog_resolved_rel` — **(b)** composition with `C10.resolve_sem`: the consistent labellings of the RESOLVED circuit are
    exactly (restriction / extension, same values on the original lines, same assignment on the original nodes) the labellings
    of environments `σ` that satisfy the module outside the library instances and give every library instance the RELATIONAL
    meaning `ImplMatches` of its implementation circuit.  Any value domain / op algebra.
  - `verilog_resolved_datasheet` — **(c)** the datasheet step (2-valued): with the certificate `InstCert` of
    `C10.resolve_datasheet_sem` for every library-cell node, "relational meaning of the implementation" becomes the module-level
    equation of `VModelLib` (`Proofs/VerilogLib3.lean: cellDatasheet_iff_module` — pins by NAME of the signal connected).
  - `verilog_library_end_to_end` — **(d)** composition with C01/C02: for every topological order of the RESOLVED circuit that
    schedules every line and every stimulus (constant slot 0): there is exactly ONE datasheet model `σ` of the module under the
    assignment the stimulus holds; the 2-valued `LogicSim` result of the `SimOps` model on the resolved circuit is `σ` of the line's
    signal on EVERY line of the parsed circuit (all of them survive the resolution with their index), and what is captured at
    every interface node (output port bit, data pin of a flip-flop / latch that is a primitive state element) is what the module
    observes (`vCaptures`).  `verilog_library_text_end_to_end` — the same for the circuit built from the model's reading of the
    printed module TEXT (`verilog_text_to_nnet`; any layout by `verilog_text_layout_irrelevant`).
  - `verilog_lib_checker_sound` — the driver's acceptance check `vModelLibB` accepts only datasheet models.
* **Hypotheses that remain** (all decidable; evaluated by the driver on every generated case, harness/c11.py `library_sem`):
  `verilogOKB` (the fragment of `verilog_parsed_sem`); `libCleanB` (no library cell is called `input` / `output` / `__fork__` /
  `__const0__` / `__const1__`, no library instance has a kind name containing `dff` / `latch`); `NNet.wf` of the parsed dump;
  `resolveOKB` (every substitution along the loop of `resolve_tlib_cells` removes nothing — as `C10.resolve_sem`; an instance with
  an unconnected output whose logic dangles is outside); the result `h'` of the model of `resolve_tlib_cells`; `InstCert` for every
  library-cell node (listed combinational family, implementation acyclic and described by its row of the generated C19 tables,
  ALL input pins connected); `h'.net.sNodes = (verilogNet …).sNodes` (the resolved circuit has the same interface nodes in the
  same order: no implementation adds a state element); `orderOKB` / `forksOKB` / `linesDrivenB` of the resolved circuit and the
  real topological order; the constant slot of the stimulus holds 0.
  NOT covered: sequential library cells (`DFF_X1` … as LIBRARY cells: a flip-flop is covered only as a primitive state element, i.e.
  when its kind is not in `lib`), cells outside the listed families (tri-state, ties, decoders, …), unconnected input pins of
  library instances, Verilog outside `verilogOKB`.
* **Correspondence** (harness/c11.py `library_sem`, differential): per generated Verilog case over the built-in libraries that falls
  inside the hypotheses (counted, tags `library-sem:*`): the model's `σ` (driver `verilogsemlib`: evaluator `vEvalLib`, accepted by
  `vModelLibB`, sound by `verilog_lib_checker_sound`) observed at output ports and state elements == the REAL `LogicSim(m=2)` on the
  REAL parsed + resolved circuit on sampled rows; the model's resolved dump == the real resolved dump.  Mismatch = broken tie.
  What remains trusted: `describesB` (the dump handed to the model is the implementation whose `SimOps` rows were dumped into the
  tables — evaluated per cell, C10 stream `ds-cert`), the correspondence of `resolveCells` / the parser model with the real code. -/
namespace KV.C11
open KV KV.Netlist KV.Transform KV.TL KV.DS KV.Sig

/-- **from TEXT**: the dump with names of the circuit built from the model's reading of the printed module text is `verilogNNet` of
the transformed statement list -/
theorem verilog_text_to_nnet (cfg : Cfg) (tl : TL) (m : KV.VerilogText.VModule) (rs : List RStmt)
    (hv : KV.VerilogText.validModule m = true) (hr : KV.VerilogText.toRs m.stmts = some rs) :
    (KV.VerilogText.circOfText cfg tl (KV.VerilogText.printVerilog [m])).map (fun C => C.toNNet C.ioVerilog) =
      some (verilogNNet cfg tl m.ports (rs.map transform)) := by
  rw [verilog_text_to_netlist cfg tl m rs hv hr]
  rfl

/-- **(a) hole-set `verilog_parsed_sem`**: `HI` any set of instances, `S` the set of their nodes: consistent outside `S` ⇔ model
outside `HI`; (1) soundness, (2) completeness, (3) one environment per labelling -/
theorem verilog_parsed_sem_holes {α : Type} (cfg : Cfg) (tl : TL) (ports : List String) (stmts : List Stmt)
    (hok : verilogOKB cfg tl ports stmts = true) (HI : VInst → Prop) (S : Nat → Prop)
    (hS : ∀ n, S n ↔ ∃ i ∈ vInsts stmts, HI i ∧ n = (module cfg tl ports stmts).nodeIdx (.cell i.name 0))
    (z : α) (neg : α → α) (prim : String → α → α → α → α → α) (a : Nat → α) :
    (∀ σ, VModelOff HI tl ports stmts z neg prim a σ →
      NetLabellingOff (verilogNet cfg tl ports stmts) S z neg prim a (vLabel cfg tl stmts z prim σ)) ∧
    (∀ v, NetLabellingOff (verilogNet cfg tl ports stmts) S z neg prim a v →
      ∃ σ, VModelOff HI tl ports stmts z neg prim a σ ∧
        ∀ i, i < (verilogNet cfg tl ports stmts).lines.size → v i = vLabel cfg tl stmts z prim σ i) ∧
    (∀ σ σ', VModelOff HI tl ports stmts z neg prim a σ → VModelOff HI tl ports stmts z neg prim a σ' →
      (∀ i, i < (verilogNet cfg tl ports stmts).lines.size → vLabel cfg tl stmts z prim σ i = vLabel cfg tl stmts z prim σ' i) →
      σ = σ') :=
  verilog_parsed_sem_holes_main (vok_of cfg tl ports stmts hok) HI S hS z neg prim a

/-- `verilog_parsed_sem` is the case without holes -/
theorem verilog_parsed_sem_no_holes {α : Type} (tl : TL) (ports : List String) (stmts : List Stmt) (net : Net) (z : α) (neg : α → α)
    (prim : String → α → α → α → α → α) (a : Nat → α) (σ : String → α) (v : Nat → α) :
    (VModelOff (fun _ => False) tl ports stmts z neg prim a σ ↔ VModel tl ports stmts z neg prim a σ) ∧
    (NetLabellingOff net (fun _ => False) z neg prim a v ↔ NetLabelling net z neg prim a v) :=
  ⟨(vModel_iff_off z neg prim a σ).symm, netLabellingOff_false net z neg prim a v⟩

/-- **(a) in the vocabulary of C10**: labellings of the parsed circuit consistent outside the library-cell nodes (`ConsOff`,
assignment per node) ⇔ environments that satisfy the module outside the library instances -/
theorem verilog_parsed_sem_lib {α : Type} (cfg : Cfg) (tl : TL) (ports : List String) (stmts : List Stmt)
    (hok : verilogOKB cfg tl ports stmts = true) (lib : Lib) (hcl : libCleanB lib stmts = true)
    (z : α) (neg : α → α) (prim : String → α → α → α → α → α) :
    (∀ (a : Nat → α) (σ : String → α), VModelOff (isLibInst lib) tl ports stmts z neg prim a σ →
      ConsOff (verilogNNet cfg tl ports stmts) (libHole lib (verilogNNet cfg tl ports stmts)) z neg prim
        (fun n => a ((verilogNet cfg tl ports stmts).sNodes.idxOf n)) (vLabel cfg tl stmts z prim σ)) ∧
    (∀ an v : Nat → α,
      ConsOff (verilogNNet cfg tl ports stmts) (libHole lib (verilogNNet cfg tl ports stmts)) z neg prim an v →
      ∃ σ, VModelOff (isLibInst lib) tl ports stmts z neg prim (fun p => an ((verilogNet cfg tl ports stmts).sNodes.getD p 0)) σ ∧
        ∀ i, i < (verilogNet cfg tl ports stmts).lines.size → v i = vLabel cfg tl stmts z prim σ i) :=
  ⟨fun a σ hm => verilog_model_consOff (vok_of cfg tl ports stmts hok) lib z neg prim a σ hm,
   fun an v hc => verilog_consOff_model (vok_of cfg tl ports stmts hok) lib (libClean_of hcl) z neg prim an v hc⟩

/-- **(b) resolved labellings ↔ module environments with RELATIONAL cell meanings** (any value domain): the result of
`resolve_tlib_cells` is well-formed, keeps ports, lines and the nodes that are no library cells; (1) every consistent labelling of it
is, on the original lines, the labelling of an environment `σ` that satisfies the module outside the library instances and gives
every library instance the relational meaning of its implementation (`LibRel`); (2) conversely every such `σ` extends to a
consistent labelling of the result -/
theorem verilog_resolved_rel {α : Type} (cfg : Cfg) (tl : TL) (ports : List String) (stmts : List Stmt)
    (hok : verilogOKB cfg tl ports stmts = true) (lib : Lib) (hcl : libCleanB lib stmts = true) (h' : NNet)
    (hw : (verilogNNet cfg tl ports stmts).wf = true)
    (hrok : resolveOKB lib (verilogNNet cfg tl ports stmts).keys (verilogNNet cfg tl ports stmts) = true)
    (he : resolveCells lib (verilogNNet cfg tl ports stmts) = some h') (z : α) (neg : α → α) (prim : String → α → α → α → α → α) :
    h'.wf = true ∧ h'.net.io = (verilogNet cfg tl ports stmts).io ∧
    (verilogNet cfg tl ports stmts).lines.size ≤ h'.net.lines.size ∧
    (∀ d, d < (verilogNet cfg tl ports stmts).nodes.size → (lib.find ((verilogNet cfg tl ports stmts).node d).kind).isSome = false →
      h'.net.node d = (verilogNet cfg tl ports stmts).node d) ∧
    (∀ an' v' : Nat → α, ConsOff h' (fun _ => False) z neg prim an' v' →
      ∃ σ, VModelOff (isLibInst lib) tl ports stmts z neg prim (fun p => an' ((verilogNet cfg tl ports stmts).sNodes.getD p 0)) σ ∧
        (∀ l, l < (verilogNet cfg tl ports stmts).lines.size → v' l = vLabel cfg tl stmts z prim σ l) ∧
        LibRel cfg tl ports stmts lib z neg prim σ) ∧
    (∀ (a : Nat → α) (σ : String → α), VModelOff (isLibInst lib) tl ports stmts z neg prim a σ →
      LibRel cfg tl ports stmts lib z neg prim σ →
      ∃ an' v', ConsOff h' (fun _ => False) z neg prim an' v' ∧
        (∀ l, l < (verilogNet cfg tl ports stmts).lines.size → v' l = vLabel cfg tl stmts z prim σ l) ∧
        (∀ d, d < (verilogNet cfg tl ports stmts).nodes.size → (lib.find ((verilogNet cfg tl ports stmts).node d).kind).isSome = false →
          an' d = a ((verilogNet cfg tl ports stmts).sNodes.idxOf d))) :=
  KV.Netlist.verilog_resolved_rel (vok_of cfg tl ports stmts hok) lib (libClean_of hcl) h' hw hrok he z neg prim

/-- **(c) resolved labellings ↔ DATASHEET models of the module** (2-valued; every library-cell node certified) -/
theorem verilog_resolved_datasheet (cfg : Cfg) (tl : TL) (ports : List String) (stmts : List Stmt)
    (hok : verilogOKB cfg tl ports stmts = true) (lib : Lib) (hcl : libCleanB lib stmts = true) (h' : NNet)
    (hw : (verilogNNet cfg tl ports stmts).wf = true)
    (hrok : resolveOKB lib (verilogNNet cfg tl ports stmts).keys (verilogNNet cfg tl ports stmts) = true)
    (he : resolveCells lib (verilogNNet cfg tl ports stmts) = some h') (row : String → Cell) (ord : String → List Nat)
    (hcert : ∀ c, c < (verilogNNet cfg tl ports stmts).net.nodes.size →
      (lib.find ((verilogNNet cfg tl ports stmts).net.node c).kind).isSome = true → InstCert lib row ord (verilogNNet cfg tl ports stmts) c) :
    h'.wf = true ∧ h'.net.io = (verilogNet cfg tl ports stmts).io ∧
    (verilogNet cfg tl ports stmts).lines.size ≤ h'.net.lines.size ∧
    (∀ d, d < (verilogNet cfg tl ports stmts).nodes.size → (lib.find ((verilogNet cfg tl ports stmts).node d).kind).isSome = false →
      h'.net.node d = (verilogNet cfg tl ports stmts).node d) ∧
    (∀ an' v' : Nat → Bool, ConsOff h' (fun _ => False) false (!·) prim2 an' v' →
      ∃ σ, VModelLib (libHas lib) row tl ports stmts (fun p => an' ((verilogNet cfg tl ports stmts).sNodes.getD p 0)) σ ∧
        (∀ l, l < (verilogNet cfg tl ports stmts).lines.size → v' l = vLabel cfg tl stmts false prim2 σ l)) ∧
    (∀ (a : Nat → Bool) (σ : String → Bool), VModelLib (libHas lib) row tl ports stmts a σ →
      ∃ an' v', ConsOff h' (fun _ => False) false (!·) prim2 an' v' ∧
        (∀ l, l < (verilogNet cfg tl ports stmts).lines.size → v' l = vLabel cfg tl stmts false prim2 σ l) ∧
        (∀ d, d < (verilogNet cfg tl ports stmts).nodes.size → (lib.find ((verilogNet cfg tl ports stmts).node d).kind).isSome = false →
          an' d = a ((verilogNet cfg tl ports stmts).sNodes.idxOf d))) :=
  KV.Netlist.verilog_resolved_datasheet (vok_of cfg tl ports stmts hok) lib (libClean_of hcl) h' hw hrok he row ord hcert

/-- **(d) `verilog_library_end_to_end`**: parse → `resolve_tlib_cells` → `SimOps` → 2-valued `LogicSim` = the datasheet denotation
of the module.  For every module of the fragment over a library whose instances are certified, the result `h'` of the resolution,
every topological order of `h'` that schedules every line and every stimulus: exactly ONE datasheet model `σ` under the assignment
the stimulus holds at the interface positions; the simulation result on every line of the parsed circuit is `σ` of the line's
signal; what is captured at every interface node is what the module observes. -/
theorem verilog_library_end_to_end (cfg : Cfg) (tl : TL) (ports : List String) (stmts : List Stmt)
    (hok : verilogOKB cfg tl ports stmts = true) (lib : Lib) (hcl : libCleanB lib stmts = true) (h' : NNet)
    (hw : (verilogNNet cfg tl ports stmts).wf = true)
    (hrok : resolveOKB lib (verilogNNet cfg tl ports stmts).keys (verilogNNet cfg tl ports stmts) = true)
    (he : resolveCells lib (verilogNNet cfg tl ports stmts) = some h') (row : String → Cell) (ord : String → List Nat)
    (hcert : ∀ c, c < (verilogNNet cfg tl ports stmts).net.nodes.size →
      (lib.find ((verilogNNet cfg tl ports stmts).net.node c).kind).isSome = true → InstCert lib row ord (verilogNNet cfg tl ports stmts) c)
    (hsn : h'.net.sNodes = (verilogNet cfg tl ports stmts).sNodes)
    (order : List Nat) (ho : orderOKB h'.net order = true) (hfk : forksOKB h'.net order = true)
    (hall : linesDrivenB Gen.kindPrefixes h'.net order = true) (env : Nat → Bool) (hz : env h'.net.idx.zero = false) :
    ∃ σ, VModelLib (libHas lib) row tl ports stmts (fun p => env (h'.net.idx.ppi + p)) σ ∧
      (∀ σ', VModelLib (libHas lib) row tl ports stmts (fun p => env (h'.net.idx.ppi + p)) σ' → σ' = σ) ∧
      (∀ i, i < (verilogNet cfg tl ports stmts).lines.size →
        exec semL2n ((genOps Gen.kindPrefixes h'.net order false).map OpRow.toOp) env i = vLabel cfg tl stmts false prim2 σ i) ∧
      ((verilogNet cfg tl ports stmts).sNodes.map fun n => (h'.net.node n).inPin 0 |>.map
        (exec semL2n ((genOps Gen.kindPrefixes h'.net order false).map OpRow.toOp) env)) =
          vCaptures tl ports stmts false prim2 σ :=
  verilog_library_sim (vok_of cfg tl ports stmts hok) lib (libClean_of hcl) h' hw hrok he row ord hcert hsn order ho hfk hall env hz

/-- **from TEXT**: `nn` the dump of the circuit built from the model's reading of the printed module text, `h'` its resolution -/
theorem verilog_library_text_end_to_end (cfg : Cfg) (tl : TL) (m : KV.VerilogText.VModule) (rs : List RStmt)
    (hv : KV.VerilogText.validModule m = true) (hr : KV.VerilogText.toRs m.stmts = some rs)
    (hok : verilogOKB cfg tl m.ports (rs.map transform) = true) (lib : Lib) (hcl : libCleanB lib (rs.map transform) = true)
    (nn h' : NNet)
    (hnn : (KV.VerilogText.circOfText cfg tl (KV.VerilogText.printVerilog [m])).map (fun C => C.toNNet C.ioVerilog) = some nn)
    (hw : nn.wf = true) (hrok : resolveOKB lib nn.keys nn = true) (he : resolveCells lib nn = some h')
    (row : String → Cell) (ord : String → List Nat)
    (hcert : ∀ c, c < nn.net.nodes.size → (lib.find (nn.net.node c).kind).isSome = true → InstCert lib row ord nn c)
    (hsn : h'.net.sNodes = nn.net.sNodes)
    (order : List Nat) (ho : orderOKB h'.net order = true) (hfk : forksOKB h'.net order = true)
    (hall : linesDrivenB Gen.kindPrefixes h'.net order = true) (env : Nat → Bool) (hz : env h'.net.idx.zero = false) :
    ∃ σ, VModelLib (libHas lib) row tl m.ports (rs.map transform) (fun p => env (h'.net.idx.ppi + p)) σ ∧
      (∀ σ', VModelLib (libHas lib) row tl m.ports (rs.map transform) (fun p => env (h'.net.idx.ppi + p)) σ' → σ' = σ) ∧
      (∀ i, i < nn.net.lines.size →
        exec semL2n ((genOps Gen.kindPrefixes h'.net order false).map OpRow.toOp) env i =
          vLabel cfg tl (rs.map transform) false prim2 σ i) ∧
      (nn.net.sNodes.map fun n => (h'.net.node n).inPin 0 |>.map
        (exec semL2n ((genOps Gen.kindPrefixes h'.net order false).map OpRow.toOp) env)) =
          vCaptures tl m.ports (rs.map transform) false prim2 σ := by
  rw [verilog_text_to_nnet cfg tl m rs hv hr] at hnn
  cases hnn
  exact verilog_library_end_to_end cfg tl m.ports (rs.map transform) hok lib hcl h' hw hrok he row ord hcert hsn order ho hfk hall env hz

/-- the driver's acceptance check is sound: an accepted table IS a datasheet model -/
theorem verilog_lib_checker_sound (isLib : String → Bool) (row : String → Cell) (tl : TL) (ports : List String) (stmts : List Stmt)
    (a : Nat → Bool) (tab : List (String × Bool)) (h : vModelLibB isLib row tl ports stmts a tab = true) :
    VModelLib isLib row tl ports stmts a (vEnvOf false tab) :=
  vModelLibB_sound isLib row a tab h

end KV.C11
