import KyupyVerif.Proofs.SubstSome4
import KyupyVerif.Proofs.ResolveSome
import KyupyVerif.Proofs.SubstKeys
import KyupyVerif.Proofs.ResolveStatic
import KyupyVerif.Props.C10
import KyupyVerif.Gen.TechImpl
import KyupyVerif.Proofs.TechImplChk0
import KyupyVerif.Proofs.TechImplChk1
import KyupyVerif.Proofs.TechImplChk2
import KyupyVerif.Proofs.TechImplChk3
import KyupyVerif.Proofs.TechImplChk4
import KyupyVerif.Proofs.TechImplChk5
import KyupyVerif.Proofs.TechImplChk6
import KyupyVerif.Proofs.TechImplChk7
/-! # C10 — resolving succeeds (audit finding 6): progress theorems and the sweep over the built-in libraries

`substitute_sem_general` / `resolve_sem_general` (Props/C10.lean) take the success of the model (`… = some h'`) as a hypothesis.  This
module proves the success itself.

* **Theorem** `substitute_isSome` — `substitute h c m` (model of `Circuit.substitute`) returns a circuit whenever (all decidable)
  the host is well-formed up to trailing `None`s with gap-free forks (`wfNoTrail`, `forksDenseB`), the implementation is well-formed
  with `implGenOKB` (ports distinct, no port a flip-flop/latch, driven ports read inside are forks) and `targetsOKB` (every `node_map[…]`
  look-up of the two connecting loops hits: no `KeyError`), the cell is a node that is neither port nor fork and has no more pins than
  the implementation has ports (`arityOKB`: the two `assert`s), no ignored pin is driven by the cell itself (`noSelfIgnB`) and the names
  of the added nodes are fresh (`addFreshB`: otherwise `Node(...)` raises).  Unconnected input and output pins, ignored pins
  (`Line.remove()` in the connecting loop), implementations without designated cell (`node.remove()`), removal of dangling logic are
  all covered: `Line.remove()` never meets a `None` entry in a fork (`HostOK`, Proofs/SubstSome2.lean), and the fuel
  `dangling.length + lines.size + 1` of the model's `remove_dangling_nodes` suffices (`remove_dangling_isSome`,
  Proofs/DanglingSome.lean: every iteration pops one entry, or pops one, removes `k` lines and pushes `k` entries).
* **Theorem** `library_impls_ok` (kernel sweep, `decide +kernel` per chunk, Proofs/TechImplChk0-7.lean over the GENERATED dumps
  Gen/TechImpl0-7.lean of all 263 distinct implementation circuits of GSC180 / NANGATE / NANGATE_ZN / SAED32 / SAED90): every
  implementation satisfies `implSomeOKB` = `wf` ∧ `implGenOKB` ∧ `targetsOKB` ∧ gap-free forks ∧ "added nodes have different keys".
  `library_cell_resolves` — hence for EVERY built-in implementation and EVERY host / instance satisfying the host-side conditions
  (also instances with unconnected pins) `substitute` succeeds.
* `resolve_step_isSome` — one iteration of `resolve_tlib_cells`.
* `resolveGenOKB_unfold` (formerly `resolve_isSome_of_genOK`; the old name is kept as a deprecated alias) is NOT a success theorem:
  `resolveGenOKB` is DEFINED by running `substitute` along the loop and answering `false` on `none`, so "`resolveGenOKB = true` →
  `resolveCells … = some _`" only unfolds its hypothesis (audit 2, finding 6 / B-C10-1).  It is bookkeeping: `resolve_sem_general` need not
  list the success separately.
* **Theorem** `substitute_preserves_inv` (audit 2, finding 6: one-step preservation) — under `substSomeHypB` the call succeeds AND its
  result satisfies the two circuit-wide clauses of `substSomeHypB` again: `wfNoTrail` and `forksDenseB` (gap-free forks: the copied
  forks are made dense by the loop after the connecting loops, `Line.remove()` squeezes the fork it leaves, `remove_dangling_nodes`
  keeps that: Proofs/SubstSome5.lean `removeDangling_fd`, `substitute_inv`).
* **Theorem** `resolve_run_isSome` / `resolve_cells_isSome` — a WHOLE `resolve_tlib_cells` run returns a circuit (and the result is again
  `wfNoTrail` with gap-free forks), for ANY number of library instances, by induction over the key list with the invariant
  `wfNoTrail ∧ forksDenseB` carried by `substitute_preserves_inv`.  Hypotheses (all decidable, Model/ResolveHyp.lean): on the
  ORIGINAL circuit `wfNoTrail`, `forksDenseB`; on the library `libOKB` (every implementation satisfies `implSomeOKB`; for the
  built-in libraries `library_impls_ok`); per instance `resolveInstB` = the per-instance clauses `instHypB` (the cell is no port and no
  fork, `noSelfIgnB`, `addFreshB`, `arityOKB`) ON THE CIRCUIT AS IT IS WHEN THE SUBSTITUTION OF THAT INSTANCE STARTS.  `resolveInstB`
  does NOT contain the success of `substitute` (`none ⇒ true`), so the theorem is not an unfolding; the per-instance clauses are
  evaluated along the model's run here — `resolve_isSome_static` (below) derives them from the original circuit.  Evaluated per generated resolve case by harness/c10.py
  (driver `resolveok`, fields 8-14; tags `runSome-hyp:*`; inside the hypotheses a raise of the real code is a broken tie).
  `resolve_two_instances_isSome`: the theorem applied to a host with TWO instances of cells FROM THE GENERATED TABLE (NANGATE `TBUF_X1`,
  which ignores its connected `EN` pin; `ANTENNA`, which has no output and no designated cell: the instance is removed, indices move).
* **Correspondence**: that the generated dumps ARE the library objects (gen/dump_techlib.py: `render_nnet` = `circ.dump_net`), and the
  hypotheses evaluated per case by harness/c10.py (driver commands `substsome`, tags `isSome-hyp:*`; `resolveok`, tags `runSome-hyp:*`):
  a real use inside the hypotheses on which the real code raises is a broken tie.
* **Theorem** `substitute_kindNames_subset` / `substitute_keys_subset` (transport lemma (3) of the list below, Proofs/SubstKeys.lean): under
  `substSomeHypB` every node of the result carries the (kind, name) of a host node, or (kind of the designated cell, name of the
  instance), or of an added node: `h'.keys ⊆ h.keys ∪ {re-kinded instance} ∪ addedKeys`.  Used by the whole-run induction of `resolve_isSome_static` (next item).
* **Theorem** `resolve_isSome_static` / `resolveInstB_of_resolveStaticB` (audit 2, finding 6, open part — now closed; section "fully
  static whole-run theorem" at the end, Proofs/ResolveStatic.lean, Proofs/SubstTwin.lean, Proofs/DanglingLens.lean, Proofs/SubstLens.lean):
  a WHOLE `resolve_tlib_cells` run returns a circuit (again `wfNoTrail` with gap-free forks) under hypotheses on the ORIGINAL circuit and
  the library ONLY: `wfNoTrail`, `forksDenseB`, `libOKB`, and `resolveStaticB` (Model/ResolveStatic.lean; never runs `substitute`) =
  every library instance of the original circuit is neither port nor fork, satisfies `noSelfIgnB` (no ignored input pin driven by the
  instance itself) and `arityOKB` (no more pins than ports), and the list "keys of the original nodes ++ keys of all nodes that all
  substitutions will add (`instAdded`: `<instance>~<internal name>`)" has no duplicate (fresh w.r.t. the original circuit, different
  inside one instance and between instances).  Proof: `resolveStaticB` ⇒ `resolveInstB` by induction over the key list with the
  invariant "every original node whose key is still to come is present with the same kind, name, port status, pin-list LENGTHS and no
  new self-driven input pin (`NSim`); every key of the current circuit is an original key or was added by an instance already
  processed".  The one-step transport lemmas that were missing are theorems now: `substitute_host_frame` (`StepFrame`) — (1) pin-list
  lengths of surviving host nodes (`substitute_lenFrame`: `Line.remove()` inside the list is `List.set`, `Node.remove()` renumbers;
  through `substituteCore` — `connectIns_some` / `core_some` now export `LS` — and through `remove_dangling_nodes`,
  `removeDangling_twin`), (2) a line driven by a surviving host node was driven by it before (`SubstG.lineDrvHost` + `hostDrv`),
  (3) `substitute_keys_subset`, (4) names of surviving host nodes (`SubstG.hostNode`) and of the copies (`substitute_kindNames_subset`).
  Evaluated per generated resolve case by harness/c10.py (driver `resolveok` field 15, tags `runSome-static-hyp:*`): the built-in
  libraries × generated circuits must be inside (broken tie otherwise), and inside the static hypothesis `resolveInstB`, the model's and
  the real code's success must hold.
-/
namespace KV.C10
open KV KV.Transform

/-- `remove_dangling_nodes` (model `removeDangling`) returns a circuit: no `Line.remove()` raises and the fuel suffices -/
theorem remove_dangling_isSome (fuel : Nat) (nn : NNet) (own : List Nat) (stack : List (Option Nat))
    (hw : nn.wfNoTrail = true) (hf : forksDenseB nn.net = true)
    (ho : own.all (fun x => decide (x < nn.net.nodes.size)) = true) (hfuel : stack.length + nn.net.lines.size < fuel) :
    (removeDangling fuel nn own stack).isSome = true := by
  obtain ⟨nn', e⟩ := removeDangling_some fuel nn own stack (WFm.of_wfNoTrail hw) (FD_of_forksDenseB hf)
    (fun x hx => by simpa using List.all_eq_true.mp ho x hx) hfuel
  rw [e]; rfl

/-- **`substitute` returns a circuit** under the decidable hypotheses `substSomeHypB` (spelled out in the header) -/
theorem substitute_isSome (h m : NNet) (c : Nat) (hyp : substSomeHypB h c m = true) : (substitute h c m).isSome = true := by
  simp only [substSomeHypB, Bool.and_eq_true, decide_eq_true_eq, Bool.not_eq_true'] at hyp
  obtain ⟨⟨⟨⟨⟨⟨⟨⟨⟨⟨h1, h2⟩, h3⟩, h4⟩, h5⟩, h6⟩, h7⟩, h8⟩, h9⟩, h10⟩, h11⟩ := hyp
  obtain ⟨h', e⟩ := substitute_some h m c (WFm.of_wfNoTrail h1) (FD_of_forksDenseB h2) (WF.of_wf h3) h4 (by simpa using h5) h6 h7 h8 h9 h10
    (fun sh hs => by
      simp only [arityOKB, hs, Bool.and_eq_true, decide_eq_true_eq] at h11
      exact h11)
  rw [e]; rfl

/-- every implementation circuit of the five built-in libraries (263 distinct circuits, generated dumps) satisfies `implSomeOKB` -/
theorem library_impls_ok : (Gen.techImplChunks.all fun ch => ch.all fun e => implSomeOKB e.2.2) = true := by
  simp only [Gen.techImplChunks, List.all_cons, List.all_nil, Bool.and_true, techImplChunk0_ok, techImplChunk1_ok, techImplChunk2_ok,
    techImplChunk3_ok, techImplChunk4_ok, techImplChunk5_ok, techImplChunk6_ok, techImplChunk7_ok, Bool.and_self]

/-- the number of implementation circuits swept -/
theorem library_impls_count : (Gen.techImplChunks.map List.length).sum = 263 := by decide +kernel

/-- **resolving succeeds for every cell of every built-in library**, also for instances with unconnected pins: for every
    implementation `m` in the generated tables and every host / instance that satisfies the host-side conditions (host well-formed up
    to trailing `None`s with gap-free forks; the cell a node, neither port nor fork, with no more pins than `m` has ports; no ignored
    pin driven by the cell itself; fresh names) `substitute` returns a circuit -/
theorem library_cell_resolves (h : NNet) (c : Nat) (ch : List (Nat × String × NNet)) (e : Nat × String × NNet)
    (hch : ch ∈ Gen.techImplChunks) (he : e ∈ ch)
    (hw : h.wfNoTrail = true) (hf : forksDenseB h.net = true) (hc : c < h.net.nodes.size) (hio : h.net.io.contains c = false)
    (hcf : (h.net.node c).isFork = false) (hns : noSelfIgnB h c e.2.2 = true) (hfr : addFreshB h c e.2.2 = true)
    (har : arityOKB h c e.2.2 = true) : (substitute h c e.2.2).isSome = true := by
  have hm := List.all_eq_true.mp (List.all_eq_true.mp library_impls_ok ch hch) e he
  simp only [implSomeOKB, Bool.and_eq_true] at hm
  apply substitute_isSome
  simp only [substSomeHypB, Bool.and_eq_true, decide_eq_true_eq, Bool.not_eq_true']
  exact ⟨⟨⟨⟨⟨⟨⟨⟨⟨⟨hw, hf⟩, hm.1.1.1.1⟩, hc⟩, hio⟩, hcf⟩, hm.1.1.1.2⟩, hm.1.1.2⟩, hns⟩, hfr⟩, har⟩

/-- one iteration of `resolve_tlib_cells` returns a circuit when the node found under the key is no library cell or satisfies the
    hypotheses of `substitute_isSome` with its implementation -/
theorem resolve_step_isSome (lib : Lib) (cur : NNet) (key : String × Bool)
    (hyp : ∀ impl, cur.lookup key < cur.net.nodes.size → lib.find (cur.net.node (cur.lookup key)).kind = some impl →
      substSomeHypB cur (cur.lookup key) impl = true) : (resolveStep lib cur key).isSome = true := by
  unfold resolveStep
  dsimp only
  split
  · rename_i hlt
    split
    · rename_i impl hf
      exact substitute_isSome cur impl _ (hyp impl hlt hf)
    · rfl
  · rfl

/-- UNFOLDING LEMMA, not a success theorem: `resolveGenOKB` (hypothesis of `resolve_sem_general`) is defined by running `substitute`
    along the loop (`false` on `none`), so it contains the success of every step by definition -/
theorem resolveGenOKB_unfold (lib : Lib) : ∀ (keys : List (String × Bool)) (cur : NNet), resolveGenOKB lib keys cur = true →
    (keys.foldlM (resolveStep lib) cur).isSome = true
  | [], _, _ => rfl
  | key :: rest, cur, hok => by
    have step : ∃ nxt, resolveStep lib cur key = some nxt ∧ resolveGenOKB lib rest nxt = true := by
      unfold resolveGenOKB at hok
      unfold resolveStep
      dsimp only at hok ⊢
      split at hok
      · rename_i hlt
        rw [if_pos hlt]
        split at hok
        · rename_i impl hf
          simp only [Bool.and_eq_true] at hok
          have h2 := hok.2
          rw [hf]
          dsimp only
          split at h2
          · rename_i nxt hs
            exact ⟨nxt, hs, h2⟩
          · exact absurd h2 (by simp)
        · rename_i hf
          rw [hf]
          exact ⟨cur, rfl, hok⟩
      · rename_i hlt
        rw [if_neg hlt]
        exact ⟨cur, rfl, hok⟩
    obtain ⟨nxt, h1, h2⟩ := step
    simp only [List.foldlM_cons, Option.bind_eq_bind, h1, Option.bind_some]
    exact resolveGenOKB_unfold lib rest nxt h2

/-- old name of `resolveGenOKB_unfold` (a tautology by the definition of `resolveGenOKB`; kept for references in older documents) -/
@[deprecated resolveGenOKB_unfold (since := "2026-09-30")]
abbrev resolve_isSome_of_genOK := @resolveGenOKB_unfold

/-! ## whole run (audit 2, finding 6) -/
/-- **one substitution preserves the circuit-wide hypotheses of the next one**: under `substSomeHypB` the call succeeds and the result
    is again well-formed up to trailing `None`s with gap-free forks (the first two clauses of `substSomeHypB`) -/
theorem substitute_preserves_inv (h m : NNet) (c : Nat) (hyp : substSomeHypB h c m = true) :
    ∃ h', substitute h c m = some h' ∧ h'.wfNoTrail = true ∧ forksDenseB h'.net = true := substitute_some_inv h m c hyp

/-- **a whole `resolve_tlib_cells` run returns a circuit**, for any number of library instances: the original circuit is well-formed up
    to trailing `None`s with gap-free forks, every implementation of the library satisfies `implSomeOKB` (`libOKB`), and every library
    instance satisfies the per-instance clauses `instHypB` (no port, no fork, `noSelfIgnB`, `addFreshB`, `arityOKB`) on the circuit as it
    is when its substitution starts (`resolveInstB`, which does NOT contain the success of any `substitute`).  The result satisfies
    the two invariants again. -/
theorem resolve_run_isSome (lib : Lib) (keys : List (String × Bool)) (cur : NNet) (hl : libOKB lib = true)
    (hw : cur.wfNoTrail = true) (hf : forksDenseB cur.net = true) (hi : resolveInstB lib keys cur = true) :
    ∃ h', keys.foldlM (resolveStep lib) cur = some h' ∧ h'.wfNoTrail = true ∧ forksDenseB h'.net = true :=
  resolve_run_some lib hl keys cur hw hf hi

/-- … for `resolveCells` (the loop over the snapshot of all nodes) -/
theorem resolve_cells_isSome (lib : Lib) (h : NNet) (hl : libOKB lib = true) (hw : h.wfNoTrail = true)
    (hf : forksDenseB h.net = true) (hi : resolveInstB lib h.keys h = true) : (resolveCells lib h).isSome = true := by
  obtain ⟨h', e, _⟩ := resolve_run_some lib hl h.keys h hw hf hi
  unfold resolveCells
  rw [e]; rfl

/-- a library whose implementations all come from the generated table satisfies `libOKB` -/
theorem libOKB_of_table (lib : Lib)
    (hmem : ∀ e ∈ lib, ∃ ch ∈ Gen.techImplChunks, ∃ t ∈ ch, t.2.2 = e.2) : libOKB lib = true := by
  simp only [libOKB, List.all_eq_true]
  intro e he
  obtain ⟨ch, hch, t, ht, heq⟩ := hmem e he
  rw [← heq]
  exact List.all_eq_true.mp (List.all_eq_true.mp library_impls_ok ch hch) t ht

/-- two cells FROM THE GENERATED TABLE: NANGATE `TBUF_X1` (ignores its `EN` pin) and `ANTENNA` (no output, no designated cell) -/
def exTabTbuf : Nat × String × NNet := Gen.techImplChunk1[30]'(by decide)
def exTabAnt : Nat × String × NNet := Gen.techImplChunk6[9]'(by decide)
def exLib2 : Lib := [("TBUF_X1", exTabTbuf.2.2), ("ANTENNA", exTabAnt.2.2)]
/-- host with TWO library instances: `u = TBUF_X1(A = a, EN = en)`, `v = ANTENNA(A = a)` behind the fork of `a`; `z = u` -/
def exHost2 : NNet :=
  { net := { nodes := #[⟨"input", [], [some 0]⟩, ⟨"input", [], [some 1]⟩, ⟨"__fork__", [some 0], [some 2, some 3]⟩,
                        ⟨"TBUF_X1", [some 2, some 1], [some 4]⟩, ⟨"ANTENNA", [some 3], []⟩, ⟨"output", [some 4], []⟩],
             lines := #[⟨0, 0, 2, 0⟩, ⟨1, 0, 3, 1⟩, ⟨2, 0, 3, 0⟩, ⟨2, 1, 4, 0⟩, ⟨3, 0, 5, 0⟩], io := [0, 1, 5] },
    names := #["a", "en", "a", "u", "v", "z"] }

/-- **two library instances in one circuit**: `resolve_cells_isSome` applied to `exHost2` with the two table cells -/
theorem resolve_two_instances_isSome : (resolveCells exLib2 exHost2).isSome = true :=
  resolve_cells_isSome exLib2 exHost2
    (libOKB_of_table exLib2 (by
      intro e he
      simp only [exLib2, List.mem_cons, List.not_mem_nil, or_false] at he
      rcases he with rfl | rfl
      · exact ⟨Gen.techImplChunk1, by simp [Gen.techImplChunks], exTabTbuf, List.getElem_mem _, rfl⟩
      · exact ⟨Gen.techImplChunk6, by simp [Gen.techImplChunks], exTabAnt, List.getElem_mem _, rfl⟩))
    (by decide +kernel) (by decide +kernel) (by decide +kernel)

/-- **transport lemma (3), key freshness**: under `substSomeHypB` every node of the result of `substitute` carries the (kind, name) of
    a node of the host, or (kind of the designated cell, name of the instance), or the (kind, name) of an added node (`addedKN`) -/
theorem substitute_kindNames_subset (h m h' : NNet) (c : Nat) (hyp : substSomeHypB h c m = true) (he : substitute h c m = some h') :
    ∃ sh, implShape m = some sh ∧ ∀ kn ∈ h'.kindNames, kn ∈ h.kindNames ∨
      (∃ dn, sh.des = some dn ∧ kn = ((m.net.node dn).kind, h.names.getD c "")) ∨ kn ∈ addedKN m (h.names.getD c "") sh.des := by
  simp only [substSomeHypB, Bool.and_eq_true, decide_eq_true_eq, Bool.not_eq_true'] at hyp
  obtain ⟨⟨⟨⟨⟨⟨⟨⟨⟨⟨h1, h2⟩, h3⟩, h4⟩, h5⟩, h6⟩, h7⟩, h8⟩, h9⟩, h10⟩, h11⟩ := hyp
  exact substitute_kindNames_mem h m h' c (WFm.of_wfNoTrail h1) (FD_of_forksDenseB h2) (WF.of_wf h3) h4 (by simpa using h5) h6 h7 h8 h9 h10
    (fun sh hs => by
      simp only [arityOKB, hs, Bool.and_eq_true, decide_eq_true_eq] at h11
      exact h11) he

/-- … hence the KEY set of the result is contained in host keys ∪ {key of the re-kinded instance} ∪ `addedKeys` -/
theorem substitute_keys_subset (h m h' : NNet) (c : Nat) (hyp : substSomeHypB h c m = true) (he : substitute h c m = some h') :
    ∃ sh, implShape m = some sh ∧ ∀ k ∈ h'.keys, k ∈ h.keys ∨
      (∃ dn, sh.des = some dn ∧ k = keyOfKN ((m.net.node dn).kind, h.names.getD c "")) ∨ k ∈ addedKeys m (h.names.getD c "") sh.des := by
  obtain ⟨sh, hs, hk⟩ := substitute_kindNames_subset h m h' c hyp he
  refine ⟨sh, hs, ?_⟩
  intro k hkm
  rw [keys_eq_kindNames, List.mem_map] at hkm
  obtain ⟨kn, hkn, rfl⟩ := hkm
  rcases hk kn hkn with h1 | ⟨dn, hd, rfl⟩ | h1
  · exact Or.inl (by rw [keys_eq_kindNames]; exact List.mem_map_of_mem h1)
  · exact Or.inr (Or.inl ⟨dn, hd, rfl⟩)
  · exact Or.inr (Or.inr (List.mem_map_of_mem h1))

/-- hypotheses of `substitute_keys_subset` on the first substitution of `exHost2` (the table cell `TBUF_X1` at node 3) -/
example : substSomeHypB exHost2 3 exTabTbuf.2.2 = true ∧ (substitute exHost2 3 exTabTbuf.2.2).isSome = true ∧
    (implShape exTabTbuf.2.2).map (fun sh => addedKeys exTabTbuf.2.2 "u" sh.des) = some [] := by decide +kernel

/-! ## non-vacuity -/
/-- the objects of `resolve_two_instances_isSome`: the table entries are the named cells, the second substitution runs on a circuit
    changed by the first (line 1 removed, fork `a` squeezed after the antenna is gone), both `resolveGenOKB`-style success and the
    result: `u` became a `BUF1`, `v` is gone, 3 lines -/
example : (exTabTbuf.2.1, exTabAnt.2.1) = ("TBUF_X1", "ANTENNA") ∧ libOKB exLib2 = true ∧ exHost2.wfNoTrail = true ∧
    forksDenseB exHost2.net = true ∧ resolveInstB exLib2 exHost2.keys exHost2 = true ∧
    (resolveCells exLib2 exHost2).map (fun r => (r.wfNoTrail, forksDenseB r.net, r.kindNames, r.net.lines.size)) =
      some (true, true, [("input", "a"), ("input", "en"), ("__fork__", "a"), ("BUF1", "u"), ("output", "z")], 3) := by decide +kernel
/-- `resolveInstB` fails where the real code raises in the SECOND substitution: the name `v~…` is not needed here, so take an arity
    violation — `ANTENNA` instance with two input pins -/
example : resolveInstB exLib2 exHost2.keys
    { exHost2 with net := { exHost2.net with nodes := exHost2.net.nodes.modify 4 fun n => { n with ins := [some 3, none] } } } = false := by
  decide +kernel

/-- hypotheses of `substitute_isSome` on a use with an IGNORED connected pin (`TBUF`-style cell of Props/C10.lean), on a cell
    WITHOUT designated cell (antenna) and on a use with an UNCONNECTED output whose logic dangles -/
example : substSomeHypB exTbufHost 2 exTbuf = true ∧ substSomeHypB exAntHost 2 exAnt = true ∧
    substSomeHypB exHostU 2 exImpl = true ∧ substSomeHypB exHostFF 2 exImplFZ = true ∧
    -- … and they fail where the real code raises: a name clash, too many pins
    addFreshB { exHost with names := #["a", "b", "u", "z", "ff", "u~T", "a"] } 2 exImpl = false ∧
    arityOKB exHost 2 exAnt = false := by decide +kernel

/-- hypotheses of `remove_dangling_isSome`: an inverter without reader behind a fork; it is removed with its input line, the fork is
    squeezed (`Line.remove()` on a fork) -/
example : let nn : NNet := { net := { nodes := #[⟨"input", [], [some 0]⟩, ⟨"__fork__", [some 0], [some 1, some 2]⟩, ⟨"INV1", [some 1], []⟩,
                                                   ⟨"output", [some 2], []⟩],
                                      lines := #[⟨0, 0, 1, 0⟩, ⟨1, 0, 2, 0⟩, ⟨1, 1, 3, 0⟩], io := [0, 3] }, names := #["a", "a", "g", "z"] }
    nn.wfNoTrail = true ∧ forksDenseB nn.net = true ∧
    (removeDangling 5 nn [2] [some 2]).map (fun r => (r.net.nodes.size, r.net.lines.size, (r.net.node 1).outs)) = some (3, 2, [some 1]) := by
  decide +kernel

/-- the first GSC180 implementations of the generated table are the hypotheses' objects: a library cell from the table, instantiated in
    `exFeedHost` (cell 1, one input, one output) -/
example : Gen.techImplChunk0.head?.map (fun e => e.2.1) = some "BUFX1" ∧
    Gen.techImplChunk0.head?.map (fun e => substSomeHypB exFeedHost 1 e.2.2) = some true ∧
    (Gen.techImplChunk0.head?.bind fun e => (substitute exFeedHost 1 e.2.2).map (·.kindNames)) =
      some [("input", "i"), ("BUF1", "u"), ("output", "o")] := by decide +kernel

/-! ## fully static whole-run theorem (audit 2, finding 6, open part) -/
/-- **one substitution keeps every host node other than the cell**: under `substSomeHypB` every node `d ≠ c` of the host is found in
    the result (at `j'`) with the same kind, name and port status, the same number of input pin slots, the same number of output pin
    slots unless it is a fork (`Line.remove()` squeezes forks), and an input pin of `j'` that is driven by `j'` itself was driven by
    `d` itself before (the new driver of a line formerly driven by the cell is never another host node) -/
theorem substitute_host_frame (h m h' : NNet) (c : Nat) (hyp : substSomeHypB h c m = true) (he : substitute h c m = some h') :
    ∀ d, d < h.net.nodes.size → d ≠ c → ∃ j', j' < h'.net.nodes.size ∧
      (h'.net.node j').kind = (h.net.node d).kind ∧ h'.names.getD j' "" = h.names.getD d "" ∧
      h'.net.io.contains j' = h.net.io.contains d ∧ (h'.net.node j').ins.length = (h.net.node d).ins.length ∧
      ((h.net.node d).isFork = false → (h'.net.node j').outs.length = (h.net.node d).outs.length) ∧
      (∀ p l', (h'.net.node j').ins.getD p none = some l' → (h'.net.line l').driver = j' →
        ∃ l, (h.net.node d).ins.getD p none = some l ∧ (h.net.line l).driver = d) := by
  intro d hd hdc
  obtain ⟨j', hj', s⟩ := substitute_stepFrame h m h' c hyp he d hd hdc
  exact ⟨j', hj', s.kind, s.name, s.io, s.insLen, s.outsLen, s.self⟩

/-- **the static hypothesis implies the per-instance clauses along the run**: `resolveStaticB` (original circuit only) ⇒ `resolveInstB`
    (clauses on the circuit as it is when each substitution starts) -/
theorem resolveInstB_of_resolveStaticB (lib : Lib) (h : NNet) (hl : libOKB lib = true) (hw : h.wfNoTrail = true)
    (hf : forksDenseB h.net = true) (hst : resolveStaticB lib h = true) : resolveInstB lib h.keys h = true :=
  resolveInstB_of_static lib h hl hw hf hst

/-- **a whole `resolve_tlib_cells` run returns a circuit — hypotheses on the ORIGINAL circuit and the library only**: the circuit is
    well-formed up to trailing `None`s with gap-free forks, every implementation satisfies `implSomeOKB` (`libOKB`; built-in libraries:
    `library_impls_ok`), every library instance is neither port nor fork, has no ignored input pin driven by itself, has no more pins
    than its implementation has ports, and the keys of the original nodes together with the keys of all nodes all substitutions add
    (`<instance>~<internal name>`) are pairwise different (`resolveStaticB`).  The result satisfies the two invariants again. -/
theorem resolve_isSome_static (lib : Lib) (h : NNet) (hl : libOKB lib = true) (hw : h.wfNoTrail = true)
    (hf : forksDenseB h.net = true) (hst : resolveStaticB lib h = true) :
    ∃ h', resolveCells lib h = some h' ∧ h'.wfNoTrail = true ∧ forksDenseB h'.net = true :=
  resolve_run_some lib hl h.keys h hw hf (resolveInstB_of_static lib h hl hw hf hst)

/-- two instances `u`, `v` of a cell WITH internal nodes (`exImpl` of Props/C10.lean: 2 forks + NAND2 + OR2 are added per instance, the
    instance becomes the `INV1`), the output of `u` feeding `v` -/
def exLib3 : Lib := [("AOCELL", exImpl)]
def exHost3 : NNet :=
  { net := { nodes := #[⟨"input", [], [some 0]⟩, ⟨"input", [], [some 1]⟩, ⟨"input", [], [some 2]⟩,
                        ⟨"AOCELL", [some 0, some 1], [some 3, some 4]⟩, ⟨"AOCELL", [some 4, some 2], [some 5, some 6]⟩,
                        ⟨"output", [some 3], []⟩, ⟨"output", [some 5], []⟩, ⟨"output", [some 6], []⟩],
             lines := #[⟨0, 0, 3, 0⟩, ⟨1, 0, 3, 1⟩, ⟨2, 0, 4, 1⟩, ⟨3, 0, 5, 0⟩, ⟨3, 1, 4, 0⟩, ⟨4, 0, 6, 0⟩, ⟨4, 1, 7, 0⟩],
             io := [0, 1, 2, 5, 6, 7] },
    names := #["a", "b", "c", "u", "v", "z", "y", "q"] }

/-- hypotheses of `resolve_isSome_static` on `exHost3` (two instances, 4 added nodes each) and on `exHost2` (table cells `TBUF_X1`,
    which ignores a connected pin, and `ANTENNA`, which is removed); the added keys; the result -/
example : libOKB exLib3 = true ∧ exHost3.wfNoTrail = true ∧ forksDenseB exHost3.net = true ∧ resolveStaticB exLib3 exHost3 = true ∧
    instAdded exLib3 exHost3 3 = [("u~A", true), ("u~X", true), ("u~T", false), ("u~Y", false)] ∧
    instAdded exLib3 exHost3 4 = [("v~A", true), ("v~X", true), ("v~T", false), ("v~Y", false)] ∧
    resolveStaticB exLib2 exHost2 = true ∧
    (resolveCells exLib3 exHost3).map (fun r => (r.wfNoTrail, r.net.nodes.size, r.net.lines.size)) = some (true, 16, 17) := by
  decide +kernel
/-- `resolveStaticB` fails where the real code raises: a node of the original circuit carries the name of a node the first
    substitution adds (`u~T`); two instances with the same name (their added nodes clash; already `wfNoTrail` fails); an instance
    with more input pins than the implementation has ports -/
example : resolveStaticB exLib3 { exHost3 with names := #["a", "b", "c", "u", "v", "z", "y", "u~T"] } = false ∧
    resolveStaticB exLib3 { exHost3 with names := #["a", "b", "c", "u", "u", "z", "y", "q"] } = false ∧
    resolveStaticB exLib2
      { exHost2 with net := { exHost2.net with nodes := exHost2.net.nodes.modify 4 fun n => { n with ins := [some 3, none] } } } = false := by
  decide +kernel
/-- … and on an instance whose output drives its own IGNORED input pin (`TBUF_X1` ignores `EN`; the real code calls `Line.remove()` on a
    line it still holds in `node_out_lines`): the circuit is well-formed with gap-free forks, `instStaticB` fails at `noSelfIgnB` -/
example : let h : NNet := { net := { nodes := #[⟨"input", [], [some 0]⟩, ⟨"TBUF_X1", [some 0, some 1], [some 1]⟩],
                                     lines := #[⟨0, 0, 1, 0⟩, ⟨1, 0, 1, 1⟩], io := [0] }, names := #["a", "u"] }
    h.wfNoTrail = true ∧ forksDenseB h.net = true ∧ instStaticB exLib2 h 1 = false ∧ resolveStaticB exLib2 h = false := by
  decide +kernel

end KV.C10
