import KyupyVerif.Proofs.SemL
import KyupyVerif.Proofs.Consistent
import KyupyVerif.Model.SimOps
import KyupyVerif.Proofs.Solve
import KyupyVerif.Proofs.GenOpsWO
import KyupyVerif.Proofs.StripLinkMem
import KyupyVerif.Proofs.MemMapAccept
import KyupyVerif.Gen.Tables
import KyupyVerif.Proofs.CycleNet
import KyupyVerif.Proofs.CycleMem
import KyupyVerif.Proofs.CycleRel
import KyupyVerif.Proofs.CycleStrip
import KyupyVerif.Proofs.NextStateSpec
import KyupyVerif.Proofs.CycleSpec
import KyupyVerif.Proofs.CycleZeroCap
/-! # C01 — 2-valued logic simulation computes the netlist's Boolean function

Generated from the working tree: `Gen.sem2n` (what `logic_sim._prop_cpu` computes for an op code),
`Gen.sem2p` (`LogicSim.c_prop()` at m=2), `Gen.sem2c` (the `inject_cb` chain), `Gen.prims`
(`sim.names`), `Gen.kindPrefixes` (`sim.kind_prefixes`, in dictionary order).
Hand model tied by exact correspondence: `genOps`, `levelise`, `memMap` (Model/SimOps.lean); the state handling around
`c_prop` — `s_to_c`, `c_to_s`, `s_ppo_to_ppi`, `cycle(k)` and the index tables `pi/po/ppio/pippi/poppo_s_locs` — is
Model/Cycle.lean (`Cycle.tabsOf`, `sToC`, `cToS`, `ppoToPpi`, `cycle1`, `cycleK`; array form `cycleKA` run by the driver).
Memory level for ALL circuits: `logic_sim_end_to_end_all_circuits` (the map certificate is the theorem `C08.simops_map_accepted`).
Specification: `formula`, `specPrimName`, `evalLine` (Model/Prim.lean, Model/Net.lean).
ARITY DOMAIN (audit finding 1, known finding D33): specification (`lineEq`, `evalAll`) and simulator read input pins 0..3 of a gate; a
gate with more connected inputs (bench `z = AND(a,b,c,d,e)`) is simulated as the 4-input primitive of its first four pins.  The
theorems hold for every netlist; they say "the netlist's Boolean function" only inside `Net.arityOKB` (explicit in
`logic_sim_end_to_end_all_circuits`); the harness evaluates `arityOKB` per case and its wide-gate oracle (n-ary ground truth in
Python) reports D33.

What is THEOREM for the sequential statement ("`cycle(k)` iterates the next-state function k times, primary-input rows of
`s[0]` untouched"), for every well-formed netlist, every topological order, every value domain / op semantics (so also with
a pure injection callback folded into `sem`, C16), every `merge` (m = 2, 4: copy; m = 8: transition builder), every k:
* (6) `cycle_step` — one cycle stores at `s[1][p]` the value ANY solution of the gate equations gives the captured line
  (constant slot for a state element with open data pin, nothing for a port without data pin), keeps port rows of `s[0]`,
  sets state rows of `s[0]` to `merge old s[1][p]`; `cycle_zero_slot`;
* (7) `cycle_iter` — `s[0]` after `cycle(k)` = `N^k s[0]`, `N = Cycle.nextState` (defined by THE solution: (7') `nextState_unique`),
  port rows constant, `s[1]` = capture of the labelling of `N^(k-1) s[0]`; memory left by earlier cycles is irrelevant;
* (7s) `nextState_is_spec` — ONE step, 2-valued njit path `semL2n`, `strip = false`, copy merge, hypotheses `forksOKB`, `linesDrivenB`
  (generalised by (11)): `N` is the INDEPENDENT specification `KV.nextStateFrom` (ports keep, a state element takes the value of
  its data line under any labelling the specification's `consistentB` accepts, an open data pin takes constant 0), `nextState_eq_from`
  (the driver's `eval2` next state is that function of the `evalAll` labelling);
* (11) **k cycles against the INDEPENDENT specification** (audit-2 finding 7; `KV.nextStateFrom` / `nextStateFromM`, Model/Net.lean,
  Proofs/CycleSpec.lean — no op rows, memory or index tables): `accepted_labelling_exists` (for every assignment the specification's
  check `consistentB` accepts the labelling the model computes — so an accepted labelling EXISTS; it is unique on the lines,
  `consistentB_unique`), `cycle_iter_spec` (2-valued), `cycle_iter_spec_m4`, `cycle_iter_spec_m8`, general form `cycle_iter_spec_any`
  (any value domain, any merge, `strip_forks` on or off): `s[0]` after `cycle(k)` = the k-fold iterate of
  `a ↦ nextStateFrom net z (v a) a` for ANY labelling family `v` accepted at the iterates `0 … k-1`; `cycle_spec_run` +
  `spec_step_total_functional` (relation form without a family: the specification's step is total and functional, the simulator's
  `s[0]` rows follow it, every sequence that follows it ends in `s[0]` after `cycle(k)`); `cycle_iter_iterState` (= the driver's
  executable `KV.iterState`, what the oracle compares the real `s[0]` with, under the flag `KV.iterAccepted` = `consistentB` on
  `evalAll` at EVERY iterate — returned by the driver's `eval2`, lanes with the flag off are skipped by the harness);
  `cycle_iter_spec_lanes` (lane k of the bit-parallel loop); `cycle_memory_is_spec` (the loop ON MEMORY for the `SimOps` model tables).
  HYPOTHESES, all explicit and decidable: `Net.wfB`, `orderOKB`, `forksOKB`, `linesDrivenB Gen.kindPrefixes` (every line is written by
  a row: known cell kinds; evaluated per case — `netspeccert`, tags `cycle-netspec-hyp:*`, `oracle-netspec-hyp:*`), for
  `strip = true` also `capDriversB`; `z` is the content of the constant slot (0 on every real memory: `cycle_zero_slot`).
  The general form takes the op semantics through `heq` (agrees with the documented LUT semantics on known codes: theorems
  `semL2n/2p/2c/4/8_eq_spec` for the five generated dispatchers) and `SemSpec` (`semSpec2/4/8`).
* (7'') `cycle_array_form` — the driver's array form = the model;
* (8) `cycle_on_memory`, (8') `cycle_end_to_end` — the loop ON MEMORY (`s_to_c` writes rows `c_locs[ppi_offset+p]`, real op rows on
  memory, `c_to_s` reads rows `c_locs[ppo_offset+p]`; any allocator, `c_reuse`, `strip_forks`) = the signal-level loop, under the
  accepted map certificate (C08) and the decidable table condition `zeroCapB`; (8z) `zeroCap_simopsMap` — `zeroCapB` is a THEOREM for
  the tables the `SimOps` model builds, (8e) `cycle_on_memory_all_circuits` — (8) for ALL circuits without per-instance certificate
  (`strip_forks` on or off, any capacity vector, with or without `c_reuse`; hypotheses `wfB`, `orderOKB`, `readsDrivenB`, `forksOKB`
  when stripping);
* (9) `cycle_lanes` — lane k of the bit-parallel loop = the one-lane loop on lane k, any batch size, any k;
* (10) `cycle_strip_irrelevant` — `s` after `cycle(k)` does not depend on `strip_forks` (hypotheses `forksOKB`, `capDriversB`).
CORRESPONDENCE (harness/c01.py `cycle_tie`, every generated sequential case, m = 2, 4, 8, {strip_forks} x {c_reuse}, both
`c_prop` code paths, k = 0..5, random `s[0]`, `s[1]` in all planes, all lanes): `pippi/poppo/ppio_s_locs` and
`pippi/poppo_c_locs` of the real `LogicSim` = the model's tables; `s[0]`, `s[1]` after the real `cycle(k)` = `cycleKA k`;
certificates `zeroCapB` (real `c_locs`), `capDriversB`, `forksOKB`, `wfB`, `orderOKB` (real order) per case.
Still ORACLE / correspondence only: that the REAL tables equal the model tables `simopsMap` (exact correspondence, C08) — for real
tables the certificate and `zeroCapB` are evaluated per case; the m = 4 / m = 8 `cycle(k)` of the real code against a specification
(`cycle_iter_spec_m4/_m8` are theorems about the model; the real 4- and 8-valued loop is tied to the model by `cycle_tie` only, the
k-cycle ORACLE `eval2` is 2-valued);
(a state element without output pin list has no (P)PI slot: `pippi_s_locs` skips it since fix 7a998c8 — before, `s_to_c` stored
through `c_locs = -1` into the last memory row; the model follows the repaired table, `Cycle.ppiUsedS`, so (8) needs no side condition on it);
the bit-plane packing of `s` is outside THIS model (one value per lane and position = the first mdim planes); it is modelled and
tied byte by byte, all planes, in C15Sim (`datapath_tie`). -/
namespace KV.C01
open KV KV.Sig

/-- (1) every primitive, each of the three 2-valued code paths, all 16 input rows:
    the dispatched code = the bit of its sixteen-bit constant = the documented formula -/
theorem op2_njit {name : String} {code : Nat} (h : (name, code) ∈ Gen.prims) (a b c d : Bool) :
    Gen.sem2n code a b c d = lutBit4 code a b c d ∧ formula name a b c d = some (Gen.sem2n code a b c d) :=
  sem2_eq sem2n_all h a b c d
theorem op2_plain {name : String} {code : Nat} (h : (name, code) ∈ Gen.prims) (a b c d : Bool) :
    Gen.sem2p code a b c d = lutBit4 code a b c d ∧ formula name a b c d = some (Gen.sem2p code a b c d) :=
  sem2_eq sem2p_all h a b c d
theorem op2_callback {name : String} {code : Nat} (h : (name, code) ∈ Gen.prims) (a b c d : Bool) :
    Gen.sem2c code a b c d = lutBit4 code a b c d ∧ formula name a b c d = some (Gen.sem2c code a b c d) :=
  sem2_eq sem2c_all h a b c d

/-- the primitives of `sim.names` are exactly the 33 documented ones -/
theorem prims_are_the_documented_ones :
    (Gen.prims.map (·.1)).all (primNames.contains ·) = true ∧ primNames.all ((Gen.prims.map (·.1)).contains ·) = true :=
  prims_names

/-- (2) every program: the three code paths compute the same signals, namely the LUT semantics -/
theorem sim2_paths (ops : List Op) (hk : KnownProg ops) (env : Nat → Bool) (l : Nat) :
    exec semL2n ops env l = exec specL2 ops env l ∧ exec semL2p ops env l = exec specL2 ops env l ∧
    exec semL2c ops env l = exec specL2 ops env l := by
  have eqrel : ∀ (s : Nat → List Bool → Bool), (∀ code, KnownCode code → ∀ xs, s code xs = specL2 code xs) →
      exec s ops env l = exec specL2 ops env l := by
    intro s hs
    apply exec_rel_on (fun a b => a = b) s specL2 ops _ env env (fun _ => rfl)
    intro op hop xs ys hxy
    have : xs = ys := by
      induction hxy with
      | nil => rfl
      | cons h _ ih => rw [h, ih]
    rw [this]; exact hs _ (hk op hop) ys
  exact ⟨eqrel _ (fun _ h xs => semL2n_eq_spec h xs), eqrel _ (fun _ h xs => semL2p_eq_spec h xs),
         eqrel _ (fun _ h xs => semL2c_eq_spec h xs)⟩

/-- (3) selection of the primitive for a node kind: on the vocabulary below (every primitive name in both
    spellings, the prefixes themselves, typical library cell names) × all pin-connection flags, the first
    match over the **generated, ordered** `kind_prefixes` is the specified family member. -/
def vocab : List String := [
  "and", "and2", "and3", "and4", "nand", "nand2", "nand3", "nand4", "or", "or2", "or3", "or4", "nor", "nor2", "nor3", "nor4",
  "xor", "xor2", "xor3", "xor4", "xnor", "xnor2", "xnor3", "xnor4", "not", "not1", "inv", "inv1", "buf", "buf1",
  "ao21", "aoi21", "oa21", "oai21", "ao22", "aoi22", "oa22", "oai22", "ao211", "aoi211", "oa211", "oai211", "mux21",
  "ao21x1", "ao211x1", "aoi211x2", "oa211x1", "oai211x4", "ao22x1", "aoi22x1", "oa22x2", "oai22x1", "oa21x1", "oai21x2", "aoi21x1",
  "isolorx1", "ibuffx2", "nbuffx2", "delln1x2", "tieh", "tiel", "__const0__", "__const1__", "__const0_3__",
  "and2x1", "nand4x0", "nor2_x1", "xnor3x1", "inv_x4", "invx8", "buf_x1", "bufx3", "mux21x1", "or4x2", "xor2x1",
  "dff", "latch", "__fork__", "input", "output", "sdffx1", "fa_x1", "unknowncell", "a", ""]

def codeOf (name : String) : Option Nat := (Gen.prims.find? (·.1 == name)).map (·.2)

theorem select_vocab : ∀ k ∈ vocab, ∀ c2 ∈ bools, ∀ c3 ∈ bools,
    selectPrim Gen.kindPrefixes k c2 c3 = (specPrimName k c2 c3).bind codeOf := by decide +kernel

/-- every code the prefix table can select is a known primitive -/
theorem prefix_codes_known : ∀ r ∈ Gen.kindPrefixes, ∀ c ∈ [r.p4, r.p3, r.p2], (Gen.prims.map (·.2)).contains c = true := by
  decide +kernel

/-- (4) the op equation: in a program `pre ++ o :: post` in which no later op overwrites `o`'s output or
    operands and `o` does not read its own output, the final value of `o.out` is the primitive applied to
    the final operand values — the netlist equation of that gate holds in the result. -/
theorem sim2_equation (pre post : List Op) (o : Op) (env : Nat → Bool)
    (hout : ∀ p ∈ post, p.out ≠ o.out) (hins : ∀ x ∈ o.ins, x ≠ o.out ∧ ∀ p ∈ post, p.out ≠ x) :
    exec semL2n (pre ++ o :: post) env o.out =
      semL2n o.code (o.ins.map (exec semL2n (pre ++ o :: post) env)) :=
  exec_equation semL2n pre post o env hout hins

/-- (4') the whole result: for a program in which no operand is written at or after its use and no signal has two
    writers (`WellOrdered`; decided by the Boolean certificate `wellOrderedB`, proved sound, evaluated on the REAL ops
    of every generated circuit; it holds for every topological order, C17), the simulation result is THE solution
    of the netlist's equation system — every gate equation holds, inputs / state slots / the constant-0 slot are
    untouched, and any other labelling with these properties is equal to it. Any value domain (2-, 4-, 8-valued,
    waveforms). -/
theorem sim_is_the_solution {α} (sem : Op → List α → α) (ops : List Op) (hc : wellOrderedB ops = true) (env : Nat → α) :
    Solves sem ops env (execG sem ops env) ∧ ∀ val, Solves sem ops env val → ∀ x, val x = execG sem ops env x :=
  ⟨⟨fun x hx => execG_inputs sem ops env x hx, execG_solves sem ops (wellOrderedB_sound ops hc) env⟩,
   fun val hs => solution_unique sem ops (wellOrderedB_sound ops hc) env val hs⟩

example : wellOrderedB [⟨34952, 10, [0, 1, 9, 9]⟩, ⟨21845, 11, [10, 9, 9, 9]⟩, ⟨61166, 12, [10, 11, 9, 9]⟩] = true := by decide

/-- (4'') **ALL circuits**: for every netlist whose pin tables and line records refer to each other (`Net.wfB`) and
    every topological order of its nodes (`orderOKB`: no node twice, every driver of a connected input of a
    non-source node strictly earlier — what `Circuit.topological_order` yields, C17), the op program `SimOps` generates
    (model `genOps`, equal to the real `ops` by exact correspondence) computes THE solution of the netlist's gate
    equations: every op equation holds in the result, inputs / state slots / the constant-0 slot keep their values,
    and any labelling with these properties agrees with the result on every signal except the scratch slot.
    Any value domain and op semantics (2-, 4-, 8-valued logic; waveforms with per-line delays). Both certificates are
    evaluated by the driver on the REAL circuit and the REAL order of every generated case. -/
theorem all_circuits_solution {α} (tbl : List PrefixRow) (net : Net) (order : List Nat)
    (hwf : net.wfB = true) (ho : orderOKB net order = true) (sem : Op → List α → α) (env : Nat → α) :
    let ops := (genOps tbl net order false).map OpRow.toOp
    SolvesJ (Jt net) sem ops env (execG sem ops env) ∧
    ∀ val, SolvesJ (Jt net) sem ops env val → ∀ x, Jt net x = false → val x = execG sem ops env x := by
  intro ops
  have hw := genOps_WOJ tbl net order false hwf ho
  exact ⟨execG_solution (Jt net) sem ops hw env, fun val hs => solution_uniqueJ (Jt net) sem ops hw env val hs⟩

/-- non-vacuity: a two-input AND with an inverter behind it (input cells, forks, output cell), in its natural order -/
def demoNet : Net :=
  { nodes := #[⟨"input", [], [some 0]⟩, ⟨"__fork__", [some 0], [some 2]⟩, ⟨"input", [], [some 1]⟩, ⟨"__fork__", [some 1], [some 3]⟩,
               ⟨"AND2", [some 2, some 3], [some 4]⟩, ⟨"INV1", [some 4], [some 5]⟩, ⟨"output", [some 5], []⟩],
    lines := #[⟨0, 0, 1, 0⟩, ⟨2, 0, 3, 0⟩, ⟨1, 0, 4, 0⟩, ⟨3, 0, 4, 1⟩, ⟨4, 0, 5, 0⟩, ⟨5, 0, 6, 0⟩],
    io := [0, 2, 6] }
example : demoNet.wfB = true ∧ orderOKB demoNet [0, 2, 1, 3, 4, 5, 6] = true := by decide +kernel

/-- (4''') **end to end, on memory**: for every well-formed netlist and topological order, if the tables of the real
    simulator (`ops` = the generated program, `level_starts`, `c_locs`, `c_caps`; any allocator, with or without memory
    re-use) pass the map certificate — it is evaluated on the real tables of every generated case, C08 — then after the
    op rows have run ON MEMORY the row of every output slot `j` holds the value that ANY solution `val` of the netlist's
    gate equations assigns to the captured signal `s`. Any value domain / op semantics `f` (2-, 4-, 8-valued, bit-parallel).
    Composition of `all_circuits_solution` (the program computes the unique solution) with `C08.map_certificate_sound_logic`
    (memory-level execution = signal-level execution). -/
theorem logic_sim_end_to_end {α} [Inhabited α] (tbl : List PrefixRow) (p : MapIn) (order : List Nat)
    (hwf : p.net.wfB = true) (ho : orderOKB p.net order = true) (hs : p.strip = false)
    (hops : p.ops = genOps tbl p.net order false) (hc : p.check = none) (hpos : 0 < p.capsMin)
    (f : Nat → List α → α) (m0 : Int → α) (env0 : Nat → α)
    (h0 : ∀ x ∈ p.tracked, (∀ o ∈ p.ops, o.out ≠ x) → m0 (p.loc x) = env0 x)
    (val : Nat → α)
    (hval : SolvesJ (Jt p.net) (fun op => f op.code) ((genOps tbl p.net order false).map OpRow.toOp) env0 val) :
    ∀ j s, (j, s) ∈ p.ppoSrcs →
      MapSound.memRun p (MapSound.rowRW α) (fun o => f o.lut) p.ops m0 (p.loc j) = val s := by
  intro j s hjs
  rw [MapSound.check_sound_rows p hc hpos f m0 env0 h0 j s hjs]
  have hmap : p.ops.map (MapSound.sigOp p) = (genOps tbl p.net order false).map OpRow.toOp := by
    rw [hops]
    apply List.map_congr_left
    intro r _
    exact sigOp_unstripped p hs r
  rw [hmap, exec_eq_execG]
  have hg := MapSound.good_of_check p hc
  have hnj := hg.trNJ s (hg.ppo j s hjs).2.2
  have hJ : Jt p.net s = false := by
    simp only [MapIn.isJunk, Bool.or_eq_false_iff, beq_eq_false_iff_ne] at hnj
    simp only [Jt, beq_eq_false_iff_ne]
    exact hnj.1
  exact ((all_circuits_solution tbl p.net order hwf ho (fun op => f op.code) env0).2 val hval s hJ).symm

/-- non-vacuity of (4'''): the REAL tables of `SimOps(c_reuse=True)` for `demoNet` (location 5 is used by line 0, then by
    line 4, then by the output slot) satisfy every hypothesis; the rows are the generated program -/
def demoMap : MapIn :=
  { net := demoNet, strip := false,
    ops := [⟨43690, 0, 9, 6, 6, 6⟩, ⟨43690, 1, 10, 6, 6, 6⟩, ⟨43690, 2, 0, 6, 6, 6⟩, ⟨43690, 3, 1, 6, 6, 6⟩,
            ⟨34952, 4, 2, 3, 6, 6⟩, ⟨21845, 5, 4, 6, 6, 6⟩],
    starts := [0, 2, 4, 5], locs := #[5, 6, 7, 8, 5, 6, 0, 1, 2, 3, 4, -1, -1, -1, 6],
    caps := #[1, 1, 1, 1, 1, 1, 1, 1, 1, 1, 1, 0, 0, 0, 1], cLen := 9, capsMin := 1 }
example : demoMap.ops = genOps Gen.kindPrefixes demoMap.net [0, 2, 1, 3, 4, 5, 6] false ∧ demoMap.check = none ∧
    demoMap.ppoSrcs = [(14, 5)] := by decide +kernel

/-- (4e) **end to end on memory, ALL circuits, no per-instance certificate**: `logic_sim_end_to_end` for the tables the
    `SimOps` model builds (`simopsMap`: `genOps`, `levelise`, `memMap` with the first-fit allocator, any capacity vector,
    with or without `c_reuse`; equal to the real tables by exact correspondence) — the hypothesis "the map certificate
    accepts" is discharged by `C08.simops_map_accepted` (`simopsMap_accepted`). Remaining hypotheses are the domain
    predicates `Net.wfB`, `orderOKB`, `readsDrivenB` (every read or captured line is written by a row: known cell kinds),
    evaluated by the driver on the real circuit and order — and `Net.arityOKB` (audit finding 1, known finding D33: at most four
    input pin slots per gate; not used by the proof): the op rows `genOps` generates read pins 0..3 of a node, so only inside this
    domain are "the netlist's gate equations" (`hval`) the equations of the gates as drawn; a gate with more input pins is simulated
    as the 4-input primitive of its first four pins (`C11.wide_gate_not_simulated`; harness/c01.py oracle class `wide-gate`). -/
theorem logic_sim_end_to_end_all_circuits {α} [Inhabited α] (tbl : List PrefixRow) (net : Net) (order : List Nat)
    (capsIn : Nat → Nat) (capsMin : Nat) (reuse : Bool)
    (hwf : net.wfB = true) (ho : orderOKB net order = true) (hr : readsDrivenB tbl net order = true) (hpos : 0 < capsMin)
    (_har : net.arityOKB = true)
    (f : Nat → List α → α) (m0 : Int → α) (env0 : Nat → α)
    (h0 : ∀ x ∈ (simopsMap tbl net order false capsIn capsMin reuse).tracked,
      (∀ o ∈ (simopsMap tbl net order false capsIn capsMin reuse).ops, o.out ≠ x) →
        m0 ((simopsMap tbl net order false capsIn capsMin reuse).loc x) = env0 x)
    (val : Nat → α)
    (hval : SolvesJ (Jt net) (fun op => f op.code) ((genOps tbl net order false).map OpRow.toOp) env0 val) :
    let p := simopsMap tbl net order false capsIn capsMin reuse
    ∀ j s, (j, s) ∈ p.ppoSrcs →
      MapSound.memRun p (MapSound.rowRW α) (fun o => f o.lut) p.ops m0 (p.loc j) = val s :=
  logic_sim_end_to_end tbl (simopsMap tbl net order false capsIn capsMin reuse) order hwf ho rfl rfl
    (simopsMap_accepted tbl net order false capsIn capsMin reuse hwf ho (fun h => Bool.noConfusion h) hr hpos) hpos
    f m0 env0 h0 val hval

/-- non-vacuity of (4e): `demoNet` satisfies the hypotheses and the model's tables are the real tables `demoMap` -/
example : demoNet.arityOKB = true := by decide +kernel
example : readsDrivenB Gen.kindPrefixes demoNet [0, 2, 1, 3, 4, 5, 6] = true ∧
    (simopsMap Gen.kindPrefixes demoNet [0, 2, 1, 3, 4, 5, 6] false (fun _ => 1) 1 true).locs = demoMap.locs ∧
    (simopsMap Gen.kindPrefixes demoNet [0, 2, 1, 3, 4, 5, 6] false (fun _ => 1) 1 true).cLen = demoMap.cLen := by
  decide +kernel


/-! ### the sequential part: `s_to_c`, `c_to_s`, `s_ppo_to_ppi`, `cycle(k)`

Model `Cycle.cycle1 / Cycle.cycleK` (Model/Cycle.lean, signal level: memory = environment over the `c_locs` index space),
tied to `LogicSim.cycle` by exact correspondence of the index tables and of `s[0]`, `s[1]` (harness/c01.py `cycle_tie`,
m = 2, 4, 8). `sem` is any op semantics over any value domain `α` (one lane of `s[·, p, :mdim]`), `merge` what
`s_ppo_to_ppi` makes of (old assignment, captured value): `Cycle.mergeCopy` for m = 2, 4; the transition builder for m = 8. -/
open KV.Cycle in
/-- (6) **one clock cycle.** For every well-formed netlist and topological order: let `val` be ANY labelling that solves the
    gate equations under the assignment `s[0]` (i.e. `val (ppi_offset + p) = s[0][p]` for every position with a (P)PI slot,
    every op equation holds; it is unique by `all_circuits_solution`). After `s_to_c; c_prop; c_to_s; s_ppo_to_ppi`:
    (a) `s[1][p] = val l` for every position whose data pin 0 carries line `l` (ports and state elements);
    (b) a flip-flop / latch with open data pin captures the constant slot; (c) a port without data pin keeps `s[1][p]`;
    (d) `s[0][p]` of every port is unchanged; (e) `s[0][p]` of every state element is `merge old s[1][p]`. -/
theorem cycle_step {α} (tbl : List PrefixRow) (net : Net) (order : List Nat)
    (hwf : net.wfB = true) (ho : orderOKB net order = true) (sem : Op → List α → α) (merge : α → α → α) (d : α)
    (st : St α) (h0 : st.s.s0.length = net.sNodes.length) (h1 : st.s.s1.length = net.sNodes.length)
    (val : Nat → α)
    (hval : SolvesJ (Jt net) sem ((genOps tbl net order false).map OpRow.toOp) (sToC (tabsOf net false) d st.s.s0 st.env) val) :
    let r := cycle1 sem (sigOps tbl net order false) (tabsOf net false) merge d st
    (∀ p l, p < net.sNodes.length → (sNodeAt net p).inPin 0 = some l → r.s.s1[p]? = some (val l)) ∧
    (∀ p, net.io.length ≤ p → p < net.sNodes.length → (sNodeAt net p).inPin 0 = none → r.s.s1[p]? = some (val net.idx.zero)) ∧
    (∀ p, p < net.io.length → (sNodeAt net p).inPin 0 = none → r.s.s1[p]? = st.s.s1[p]?) ∧
    (∀ p, p < net.io.length → r.s.s0[p]? = st.s.s0[p]?) ∧
    (∀ p, net.io.length ≤ p → p < net.sNodes.length → r.s.s0[p]? = some (merge (st.s.s0.getD p d) (r.s.s1.getD p d))) := by
  intro r
  have hr : r.s = stepS sem (sigOps tbl net order false) net false merge d st.env st.s := cycle1_s _ _ _ _ _ _ _ h0 h1
  have hsol := sol_eq_val tbl net order hwf ho sem _ val hval
  have hcap : ∀ p, solOf sem (sigOps tbl net order false) (tabsOf net false) d st.env st.s.s0 (capSig net false p)
      = val (capSig net false p) := fun p => hsol _ (capSig_notJunk net hwf p)
  have hpo : ∀ p, p < net.sNodes.length → (net.io.length ≤ p ∨ ((sNodeAt net p).inPin 0).isSome = true) →
      r.s.s1[p]? = some (val (capSig net false p)) := by
    intro p hp hc
    rw [hr]
    show (captureRow net false _ st.s.s1)[p]? = _
    rw [captureRow_at net false _ _ p (by omega) (isPoppo_of net p hp hc), hcap]
  refine ⟨?_, ?_, ?_, ?_, ?_⟩
  · intro p l hp hl
    rw [hpo p hp (Or.inr (by rw [hl]; rfl)), capSig_false, hl]
  · intro p hio hp hl
    rw [hpo p hp (Or.inl hio), capSig_false, hl]
  · intro p hp hl
    rw [hr]
    exact captureRow_skip net false _ _ p (by unfold isPoppo; simp [hp, hl])
  · intro p hp
    rw [hr]
    exact nextRow_port net false merge _ _ p hp
  · intro p hio hp
    have h1p := hpo p hp (Or.inl hio)
    have : r.s.s1.getD p d = val (capSig net false p) := by rw [List.getD_eq_getElem?_getD, h1p]; rfl
    rw [this, hr]
    show (nextRow net false merge _ st.s.s0)[p]? = _
    rw [nextRow_state net false merge d _ _ p hio (by omega), hcap]

open KV.Cycle in
/-- the constant-0 slot is an input of the equation system: every solution reads there what the memory held before -/
theorem cycle_zero_slot {α} (tbl : List PrefixRow) (net : Net) (order : List Nat)
    (hwf : net.wfB = true) (ho : orderOKB net order = true) (sem : Op → List α → α) (d : α) (a : List α) (env val : Nat → α)
    (hval : SolvesJ (Jt net) sem ((genOps tbl net order false).map OpRow.toOp) (sToC (tabsOf net false) d a env) val) :
    val net.idx.zero = env net.idx.zero := by
  obtain ⟨hz, ht, hp⟩ := idx_vals net
  have hj : Jt net net.idx.zero = false := by simp only [Jt, beq_eq_false_iff_ne]; omega
  have hlt := orderOK_lt ho
  rw [hval.1 _ hj (fun o ho' => genOps_out_ne_zero tbl net order hwf hlt o ho'), sToC_apply, if_neg]
  intro hm
  obtain ⟨px, hpx, he⟩ := List.mem_map.1 hm
  have := pippi_sig net false px hpx
  omega

open KV.Cycle in
/-- (7) **`cycle(k)` iterates the next-state function k times, primary-input rows untouched.** For every well-formed netlist,
    topological order, value domain, `k`: with `N a := nextRow (the labelling computed under assignment a) a`
    (`Cycle.nextState`: ports keep their value, state element `p` gets `merge a[p] (value of its captured signal)`),
    (a) `s[0]` after `cycle(k)` is `N^k s[0]`; (b) the rows of the ports are the initial ones; (c) after `k = j + 1` cycles `s[1]`
    is the capture of the labelling of assignment `N^j s[0]` written over the initial `s[1]`. The memory contents left by earlier
    cycles do not matter: the labelling is taken with the memory `st.env` of before the call, only its never-written signals
    (the constant slot) are read (`Cycle.solOf_agree`). By (7') the labelling is THE solution of the gate equations. -/
theorem cycle_iter {α} (tbl : List PrefixRow) (net : Net) (order : List Nat)
    (hwf : net.wfB = true) (ho : orderOKB net order = true) (sem : Op → List α → α) (merge : α → α → α) (d : α)
    (st : St α) (h0 : st.s.s0.length = net.sNodes.length) (h1 : st.s.s1.length = net.sNodes.length) (k : Nat) :
    let ops := sigOps tbl net order false
    let N := Cycle.nextState sem ops net false merge d st.env
    let r := cycleK sem ops (tabsOf net false) merge d k st
    r.s.s0 = iter N k st.s.s0 ∧
    (∀ p, p < net.io.length → r.s.s0[p]? = st.s.s0[p]?) ∧
    (∀ j, k = j + 1 → r.s.s1 = captureRow net false (solOf sem ops (tabsOf net false) d st.env (iter N j st.s.s0)) st.s.s1) := by
  intro ops N r
  have hw : WOJ (Jt net) ops := by
    show WOJ (Jt net) (sigOps tbl net order false)
    rw [sigOps_false]; exact genOps_WOJ tbl net order false hwf ho
  have hr : r.s = iter (stepS sem ops net false merge d st.env) k st.s :=
    cycleK_s (Jt net) sem ops hw net false (capSig_notJunk net hwf) merge d st.env k st h0 h1 (Agree.refl _ _ _)
  have hs0 : r.s.s0 = iter N k st.s.s0 := by rw [hr]; exact iter_stepS_s0 _ _ _ _ _ _ _ _ _
  refine ⟨hs0, ?_, ?_⟩
  · intro p hp
    rw [hs0]; exact iter_nextState_port _ _ _ _ _ _ _ _ _ p hp
  · intro j hj
    subst hj
    rw [hr]; exact iter_stepS_s1 _ _ _ _ _ _ _ _ _

open KV.Cycle in
/-- (7') the next-state function is defined by THE solution: for any labelling `val` that solves the gate equations under the
    assignment `a`, `nextState a = nextRow val a` -/
theorem nextState_unique {α} (tbl : List PrefixRow) (net : Net) (order : List Nat)
    (hwf : net.wfB = true) (ho : orderOKB net order = true) (sem : Op → List α → α) (merge : α → α → α) (d : α)
    (env : Nat → α) (a : List α) (val : Nat → α)
    (hval : SolvesJ (Jt net) sem ((genOps tbl net order false).map OpRow.toOp) (sToC (tabsOf net false) d a env) val) :
    Cycle.nextState sem (sigOps tbl net order false) net false merge d env a = nextRow net false merge val a :=
  nextRow_congr net false merge _ _ a fun p => sol_eq_val tbl net order hwf ho sem _ val hval _ (capSig_notJunk net hwf p)

open KV.Cycle in
/-- (7s) **`nextState_is_spec`: the next-state function of `cycle_iter` IS the independent specification** (audit item C01).
`KV.nextStateFrom net z v a` (Model/Net.lean, written without reference to op rows, memory or index tables): ports keep their value, a
state element takes what the labelling `v` of the lines gives its data line, a state element with OPEN data pin takes the constant
`z` (constant 0 — the documented reading of an unconnected pin; the code since the D9 repair copies the constant-0 slot; the earlier
version of the specification kept the old value, which the code never did).  For every well-formed netlist, every topological order
that schedules every line (`forksOKB`, `linesDrivenB`: decidable, evaluated per case), every memory `env` and assignment `a`: with `e0`
the memory after `s_to_c` and `v` ANY labelling that the specification's acceptance check `consistentB` (gate-by-gate equations
`lineEq` over the documented formulas `prim2`) accepts for the assignment in the (P)PI slots of `e0`, the simulator's next assignment
(2-valued `c_prop` — the njit path `semL2n`; the other two paths compute the same signals, `sim2_paths` — `c_to_s`, `s_ppo_to_ppi`) is
`nextStateFrom`.  The constant `z` is the content of the constant slot (`cycle_zero_slot`: 0 on every real memory). -/
theorem nextState_is_spec (net : Net) (order : List Nat) (hwf : net.wfB = true) (ho : orderOKB net order = true)
    (hfk : forksOKB net order = true) (hall : linesDrivenB Gen.kindPrefixes net order = true)
    (d : Bool) (env : Nat → Bool) (a : List Bool) (v : Array Bool)
    (hc : consistentB net (sToC (tabsOf net false) d a env net.idx.zero) (!·) prim2
            (fun p => sToC (tabsOf net false) d a env (net.idx.ppi + p)) v = true) :
    Cycle.nextState (fun op => semL2n op.code) (sigOps Gen.kindPrefixes net order false) net false mergeCopy d env a =
      nextStateFrom net (sToC (tabsOf net false) d a env net.idx.zero) v a :=
  nextState_is_spec_main net order hwf ho hfk hall d env a v hc

/-- the driver's executable next-state function (`eval2`, the oracle's expected values for `cycle(k)`) is `nextStateFrom` of the
labelling its evaluator `evalAll` returns — which it submits to `consistentB` on every request (answer flag `!`) -/
theorem nextState_eq_from (net : Net) (a : Nat → Bool) (j : Nat) (hj : j < net.sNodes.length) :
    KV.nextState net a j =
      (nextStateFrom net false (evalAll net false (!·) prim2 a) ((List.range net.sNodes.length).map a)).getD j false :=
  nextState_eq_from_main net a j hj

/-- non-vacuity: `q = DFF(open)`, `z = NOT(q)` observed at an output port, input `a` unused: from state 1 the next state is 0 -/
def openNet : Net :=
  { nodes := #[⟨"input", [], [some 0]⟩, ⟨"__fork__", [some 0], []⟩, ⟨"DFF", [], [some 1]⟩, ⟨"__fork__", [some 1], [some 2]⟩,
               ⟨"INV1", [some 2], [some 3]⟩, ⟨"output", [some 3], []⟩],
    lines := #[⟨0, 0, 1, 0⟩, ⟨2, 0, 3, 0⟩, ⟨3, 0, 4, 0⟩, ⟨4, 0, 5, 0⟩],
    io := [0, 5] }
example : openNet.wfB = true ∧ orderOKB openNet [0, 2, 1, 3, 4, 5] = true ∧ forksOKB openNet [0, 2, 1, 3, 4, 5] = true ∧
    linesDrivenB Gen.kindPrefixes openNet [0, 2, 1, 3, 4, 5] = true ∧ openNet.sNodes = [0, 5, 2] ∧ openNet.arityOKB = true := by
  decide +kernel
example : consistentB openNet false (!·) prim2 (fun p => p == 2) (evalAll openNet false (!·) prim2 (fun p => p == 2)) = true ∧
    nextStateFrom openNet false (evalAll openNet false (!·) prim2 (fun p => p == 2)) [false, false, true] = [false, false, false] := by
  decide +kernel

open KV.Cycle in
/-- the theorem itself instantiated (audit 2, C-F2: the example above only evaluates the specification): the simulator model's next
    state of `openNet` from `[0, 0, 1]` is `[0, 0, 0]`, obtained THROUGH `nextState_is_spec` with `evalAll` as the accepted labelling -/
example :
    Cycle.nextState (fun op => semL2n op.code) (sigOps Gen.kindPrefixes openNet [0, 2, 1, 3, 4, 5] false) openNet false mergeCopy
      false (fun _ => false) [false, false, true] = [false, false, false] := by
  rw [nextState_is_spec openNet [0, 2, 1, 3, 4, 5] (by decide +kernel) (by decide +kernel) (by decide +kernel) (by decide +kernel)
    false (fun _ => false) [false, false, true] (evalAll openNet false (!·) prim2 (fun p => p == 2)) (by decide +kernel)]
  decide +kernel

open KV.Cycle in
/-- (7'') the form the correspondence runs evaluate: the compiled driver runs `cycleKA` (memory as an array of `c_locs_len`
    entries); it leaves the same `s` (and memory) as `cycleK`, for every well-formed netlist, order, `strip_forks` setting -/
theorem cycle_array_form {α} (tbl : List PrefixRow) (net : Net) (order : List Nat) (strip : Bool)
    (hwf : net.wfB = true) (ho : orderOKB net order = true) (sem : Op → List α → α) (merge : α → α → α) (d : α)
    (k : Nat) (st : StA α) (hn : st.env.size = net.idx.len) :
    toSt d (cycleKA sem (sigOps tbl net order strip) (tabsOf net strip) merge d k st) =
      cycleK sem (sigOps tbl net order strip) (tabsOf net strip) merge d k (toSt d st) :=
  cycleKA_eq sem _ _ merge d net.idx.len (sigOps_out tbl net order strip hwf (orderOK_lt ho)) (pippi_lt net strip) k st hn

open KV.Cycle in
/-- (8) **`cycle(k)` on memory = `cycle(k)` on signals.** `Cycle.cycleKM` (Proofs/CycleMem.lean) is the loop with `s_to_c` writing the
    rows `c_locs[ppi_offset + p]`, the real op rows running on memory (one row per signal, any allocator, with or without
    `c_reuse` / `strip_forks`), `c_to_s` reading the rows `c_locs[ppo_offset + p]`. If the real tables pass the map certificate
    (C08, evaluated on every generated case) and the (P)PO slot of a state element with open data pin is the row of the
    constant slot (`zeroCapB`, the D9 repair read off the table), then for every k, every
    initial memory `m0` and every signal environment `env0` that agrees with it on the constant slot, the `s` array after k
    cycles on memory is the `s` array of the signal-level model — to which (6), (7) apply. -/
theorem cycle_on_memory {α} [Inhabited α] (tbl : List PrefixRow) (p : MapIn) (order : List Nat)
    (hops : p.ops = genOps tbl p.net order p.strip) (hc : p.check = none) (hpos : 0 < p.capsMin)
    (hzc : zeroCapB p = true)
    (f : Nat → List α → α) (merge : α → α → α) (d : α) (k : Nat) (m0 : Int → α) (env0 : Nat → α) (s : S α)
    (hz : m0 (p.loc p.ix.zero) = env0 p.ix.zero) :
    (cycleKM p f (tabsOf p.net p.strip) merge d k ⟨m0, s⟩).s =
      (cycleK (fun op => f op.code) (sigOps tbl p.net order p.strip) (tabsOf p.net p.strip) merge d k ⟨env0, s⟩).s := by
  have hmap : p.ops.map (MapSound.sigOp p) = sigOps tbl p.net order p.strip := by
    rw [hops]; rfl
  rw [← hmap]
  exact cycleKM_eq p hc hpos hzc f merge d k m0 env0 s hz

open KV.Cycle in
/-- (8') **end to end, sequential**: (7) for the loop ON MEMORY — for every well-formed netlist, topological order, accepted
    certificate: `s[0]` after `cycle(k)` on memory is the k-fold next-state iterate, port rows untouched, `s[1]` the capture of
    the labelling of the previous assignment. -/
theorem cycle_end_to_end {α} [Inhabited α] (tbl : List PrefixRow) (p : MapIn) (order : List Nat)
    (hwf : p.net.wfB = true) (ho : orderOKB p.net order = true) (hs : p.strip = false)
    (hops : p.ops = genOps tbl p.net order false) (hc : p.check = none) (hpos : 0 < p.capsMin)
    (hzc : zeroCapB p = true)
    (f : Nat → List α → α) (merge : α → α → α) (d : α) (k : Nat) (m0 : Int → α) (env0 : Nat → α) (s : S α)
    (hz : m0 (p.loc p.ix.zero) = env0 p.ix.zero)
    (h0 : s.s0.length = p.net.sNodes.length) (h1 : s.s1.length = p.net.sNodes.length) :
    let ops := sigOps tbl p.net order false
    let N := Cycle.nextState (fun op => f op.code) ops p.net false merge d env0
    let r := cycleKM p f (tabsOf p.net false) merge d k ⟨m0, s⟩
    r.s.s0 = iter N k s.s0 ∧
    (∀ q, q < p.net.io.length → r.s.s0[q]? = s.s0[q]?) ∧
    (∀ j, k = j + 1 → r.s.s1 = captureRow p.net false
        (solOf (fun op => f op.code) ops (tabsOf p.net false) d env0 (iter N j s.s0)) s.s1) := by
  intro ops N r
  have hm := cycle_on_memory tbl p order (by rw [hs]; exact hops) hc hpos hzc f merge d k m0 env0 s hz
  rw [hs] at hm
  have hi := cycle_iter tbl p.net order hwf ho (fun op => f op.code) merge d ⟨env0, s⟩ h0 h1 k
  show (cycleKM p f (tabsOf p.net false) merge d k ⟨m0, s⟩).s.s0 = _ ∧ _
  rw [hm]
  exact hi

/-- non-vacuity of (6), (7): a toggle flip-flop with enable (`q' = q XOR en`; ports `en`, `out = q`), natural order.
    With `en = 1` the state has period 2; the port row stays as assigned; the output port captures the OLD state. -/
def demoSeq : Net :=
  { nodes := #[⟨"input", [], [some 0]⟩, ⟨"__fork__", [some 0], [some 1]⟩, ⟨"DFF", [some 5], [some 2]⟩,
               ⟨"__fork__", [some 2], [some 3, some 6]⟩, ⟨"XOR2", [some 1, some 3], [some 4]⟩, ⟨"__fork__", [some 4], [some 5]⟩,
               ⟨"output", [some 6], []⟩],
    lines := #[⟨0, 0, 1, 0⟩, ⟨1, 0, 4, 0⟩, ⟨2, 0, 3, 0⟩, ⟨3, 0, 4, 1⟩, ⟨4, 0, 5, 0⟩, ⟨5, 0, 2, 0⟩, ⟨3, 1, 6, 0⟩],
    io := [0, 6] }
def demoSt (en q : Bool) : Cycle.St Bool := ⟨fun _ => false, ⟨[en, false, q], [false, false, false]⟩⟩
def demoRun (k : Nat) (en q : Bool) : Cycle.S Bool :=
  (Cycle.cycleK (fun op => semL2n op.code) (Cycle.sigOps Gen.kindPrefixes demoSeq [0, 1, 2, 3, 4, 5, 6] false)
    (Cycle.tabsOf demoSeq false) Cycle.mergeCopy false k (demoSt en q)).s
example : demoSeq.wfB = true ∧ orderOKB demoSeq [0, 1, 2, 3, 4, 5, 6] = true ∧ demoSeq.sNodes = [0, 6, 2] ∧
    (demoSt true false).s.s0.length = demoSeq.sNodes.length ∧ (demoSt true false).s.s1.length = demoSeq.sNodes.length := by
  decide +kernel
example : Cycle.tabsOf demoSeq false =
    { ppi := 10, ppo := 13, pippi := [(0, 10), (2, 12)], poppo := [(1, 6), (2, 5)], ppio := [2] } := by decide +kernel
example : (demoRun 1 true false).s0 = [true, false, true] ∧ (demoRun 1 true false).s1 = [false, false, true] ∧
    (demoRun 2 true false).s0 = [true, false, false] ∧ (demoRun 2 true false).s1 = [false, true, false] ∧
    (demoRun 5 true false).s0 = [true, false, true] ∧ (demoRun 3 false true).s0 = [false, false, true] := by decide +kernel

/-- non-vacuity of (6b): a flip-flop with OPEN data pin observed at a port — it captures the constant slot (the D9 repair) -/
def demoOpen : Net :=
  { nodes := #[⟨"DFF", [], [some 0]⟩, ⟨"__fork__", [some 0], [some 1]⟩, ⟨"output", [some 1], []⟩],
    lines := #[⟨0, 0, 1, 0⟩, ⟨1, 0, 2, 0⟩], io := [2] }
def demoOpenRun (k : Nat) : Cycle.S Bool :=
  (Cycle.cycleK (fun op => semL2n op.code) (Cycle.sigOps Gen.kindPrefixes demoOpen [0, 1, 2] false)
    (Cycle.tabsOf demoOpen false) Cycle.mergeCopy false k ⟨fun _ => false, ⟨[false, true], [false, false]⟩⟩).s
example : demoOpen.wfB = true ∧ orderOKB demoOpen [0, 1, 2] = true ∧ demoOpen.sNodes = [2, 0] ∧
    Cycle.tabsOf demoOpen false = { ppi := 5, ppo := 7, pippi := [(1, 6)], poppo := [(0, 1), (1, 2)], ppio := [1] } ∧
    (demoOpenRun 1).s1 = [true, false] ∧ (demoOpenRun 1).s0 = [false, false] ∧ (demoOpenRun 2).s1 = [false, false] := by
  decide +kernel

/-- a flip-flop WITHOUT output pin list has no (P)PI slot: `s_to_c` skips it (`pippi` lists position 0 only), `c_to_s` and
    `s_ppo_to_ppi` still capture and move its state (the table after fix 7a998c8 of sim.py) -/
def demoNoOut : Net :=
  { nodes := #[⟨"input", [], [some 0]⟩, ⟨"__fork__", [some 0], [some 1]⟩, ⟨"DFF", [some 1], []⟩],
    lines := #[⟨0, 0, 1, 0⟩, ⟨1, 0, 2, 0⟩], io := [0] }
example : demoNoOut.wfB = true ∧ orderOKB demoNoOut [0, 1, 2] = true ∧ demoNoOut.sNodes = [0, 2] ∧
    Cycle.tabsOf demoNoOut false = { ppi := 5, ppo := 7, pippi := [(0, 5)], poppo := [(1, 1)], ppio := [1] } ∧
    (Cycle.cycleK (fun op => semL2n op.code) (Cycle.sigOps Gen.kindPrefixes demoNoOut [0, 1, 2] false)
      (Cycle.tabsOf demoNoOut false) Cycle.mergeCopy false 1 ⟨fun _ => false, ⟨[true, false], [false, false]⟩⟩).s.s0 = [true, true] := by
  decide +kernel

/-- non-vacuity of (8), (8'): the REAL tables of `LogicSim(c_reuse=True)` for `demoSeq` and the REAL `topological_order()` -/
def demoSeqMap : MapIn :=
  { net := demoSeq, strip := false,
    ops := [⟨43690, 0, 10, 7, 7, 7⟩, ⟨43690, 2, 12, 7, 7, 7⟩, ⟨43690, 1, 0, 7, 7, 7⟩, ⟨43690, 3, 2, 7, 7, 7⟩,
            ⟨43690, 6, 2, 7, 7, 7⟩, ⟨26214, 4, 1, 3, 7, 7⟩, ⟨43690, 5, 4, 7, 7, 7⟩],
    starts := [0, 2, 5, 6], locs := #[5, 7, 6, 8, 5, 6, 9, 0, 1, 2, 3, -1, 4, -1, 9, 6],
    caps := #[1, 1, 1, 1, 1, 1, 1, 1, 1, 1, 1, 0, 1, 0, 1, 1], cLen := 10, capsMin := 1 }
example : demoSeqMap.ops = genOps Gen.kindPrefixes demoSeq [0, 2, 1, 3, 4, 6, 5] false ∧ demoSeqMap.check = none ∧
    orderOKB demoSeq [0, 2, 1, 3, 4, 6, 5] = true ∧ Cycle.zeroCapB demoSeqMap = true := by
  decide +kernel

open KV.Cycle in
/-- (10) **`cycle(k)` does not depend on `strip_forks`** (C06 through the clock loop). For every well-formed netlist, topological
    order that respects the fork conventions (`forksOKB`, C06) and contains the driver of every captured line (`capDriversB`;
    `topological_order()` lists every node), any value domain and code-indexed op semantics in which `BUF1` returns its first
    operand (the generated 2-, 4-, 8-valued dispatchers: C06 `buf1_first_operand`), any `merge`, any `k`: the stripped simulator
    (rows without forks, operands and captures resolved to the stems) and the un-stripped one leave the same `s[0]`, `s[1]`.
    The two memories differ on the branch signals; both hypotheses are evaluated on every generated circuit. -/
theorem cycle_strip_irrelevant {α} (tbl : List PrefixRow) (net : Net) (order : List Nat)
    (hwf : net.wfB = true) (ho : orderOKB net order = true) (hf : forksOKB net order = true)
    (hcov : capDriversB net order = true)
    (f : Nat → List α → α) (dflt : α) (hbuf : ∀ xs, f BUF1 xs = xs.getD 0 dflt) (merge : α → α → α) (d : α)
    (k : Nat) (st : St α) (h0 : st.s.s0.length = net.sNodes.length) (h1 : st.s.s1.length = net.sNodes.length) :
    (cycleK (fun op => f op.code) (sigOps tbl net order true) (tabsOf net true) merge d k st).s =
      (cycleK (fun op => f op.code) (sigOps tbl net order false) (tabsOf net false) merge d k st).s :=
  cycleK_strip tbl hwf ho hf hcov f dflt hbuf merge d k st st rfl h0 h1 (Agree.refl _ _ _)

example : forksOKB demoSeq [0, 2, 1, 3, 4, 6, 5] = true ∧ Cycle.capDriversB demoSeq [0, 2, 1, 3, 4, 6, 5] = true ∧
    (∀ xs, semL2n BUF1 xs = xs.getD 0 false) := ⟨by decide +kernel, by decide +kernel, semL2n_buf1⟩

/-- (5) lane-wise for every lane count: lane `k` of the bit-parallel result is the per-lane function -/
theorem lanewise2 (w k : Nat) (hk : k < w) (code : Nat) (a b c d : BitVec w) :
    (Gen.sem2n code a b c d).getLsbD k = Gen.sem2n code (a.getLsbD k) (b.getLsbD k) (c.getLsbD k) (d.getLsbD k) :=
  Gen.sem2n_hom (lane w k hk) code a b c d
theorem lanewise2_cb (w k : Nat) (hk : k < w) (code : Nat) (a b c d : BitVec w) :
    (Gen.sem2c code a b c d).getLsbD k = Gen.sem2c code (a.getLsbD k) (b.getLsbD k) (c.getLsbD k) (d.getLsbD k) :=
  Gen.sem2c_hom (lane w k hk) code a b c d

/-- whole programs on `w` lanes: any batch size, lanes independent, padding lanes irrelevant -/
def semLw (w : Nat) (code : Nat) (xs : List (BitVec w)) : BitVec w :=
  Gen.sem2n code (arg xs 0 0) (arg xs 1 0) (arg xs 2 0) (arg xs 3 0)

theorem sim2_lanes (w k : Nat) (hk : k < w) (ops : List Op) (env : Nat → BitVec w) (l : Nat) :
    (exec (semLw w) ops env l).getLsbD k = exec semL2n ops (fun x => (env x).getLsbD k) l := by
  apply exec_rel_on (fun (v : BitVec w) (b : Bool) => v.getLsbD k = b) (semLw w) semL2n ops _ env _ (fun _ => rfl)
  intro op _ xs ys hxy
  have hd : (0 : BitVec w).getLsbD k = false := by simp
  unfold semLw semL2n
  rw [lanewise2 w k hk]
  have h0 := hxy.getD 0 _ _ hd; have h1 := hxy.getD 1 _ _ hd
  have h2 := hxy.getD 2 _ _ hd; have h3 := hxy.getD 3 _ _ hd
  simp only [arg]; rw [h0, h1, h2, h3]

open KV.Cycle in
/-- (9) **lanes through the clock loop**: `cycle(k)` of the bit-parallel simulator (one `BitVec w` per signal / `s` entry, any
    batch size `w`) shows in lane `k` exactly `cycle(k)` of the one-lane simulator on lane `k` of the initial state — for every op
    program, index tables and number of cycles: lanes stay independent over any number of cycles, padding lanes never leak.
    (`Cycle.cycleK_rel`: every relation the ops and `merge` preserve is preserved by the loop.) -/
theorem cycle_lanes (w k : Nat) (hk : k < w) (ops : List Op) (T : Tabs) (n : Nat) (st : St (BitVec w)) :
    let r := cycleK (fun op => semLw w op.code) ops T mergeCopy 0 n st
    let rb := cycleK (fun op => semL2n op.code) ops T mergeCopy false n
      ⟨fun x => (st.env x).getLsbD k, ⟨st.s.s0.map (·.getLsbD k), st.s.s1.map (·.getLsbD k)⟩⟩
    r.s.s0.map (·.getLsbD k) = rb.s.s0 ∧ r.s.s1.map (·.getLsbD k) = rb.s.s1 := by
  intro r rb
  have hd : (0 : BitVec w).getLsbD k = false := by simp
  have hop : ∀ op ∈ ops, ∀ (xs : List (BitVec w)) (ys : List Bool), All2 (fun v b => v.getLsbD k = b) xs ys →
      (semLw w op.code xs).getLsbD k = semL2n op.code ys := by
    intro op _ xs ys hxy
    unfold semLw semL2n
    rw [lanewise2 w k hk]
    have h0 := hxy.getD 0 _ _ hd; have h1 := hxy.getD 1 _ _ hd
    have h2 := hxy.getD 2 _ _ hd; have h3 := hxy.getD 3 _ _ hd
    simp only [arg]; rw [h0, h1, h2, h3]
  have h := cycleK_rel (fun (v : BitVec w) (b : Bool) => v.getLsbD k = b) (fun op => semLw w op.code) (fun op => semL2n op.code)
    ops hop T mergeCopy mergeCopy (fun _ _ _ _ _ h => h) 0 false hd n st
    ⟨fun x => (st.env x).getLsbD k, ⟨st.s.s0.map (·.getLsbD k), st.s.s1.map (·.getLsbD k)⟩⟩
    ⟨fun _ => rfl, All2.of_map _ _, All2.of_map _ _⟩
  exact ⟨h.s0.map_eq, h.s1.map_eq⟩

/-! ### (11) `cycle(k)` against the INDEPENDENT next-state specification (audit-2 finding 7)

`KV.nextStateFromM net merge z v a` (Proofs/CycleSpec.lean; `= KV.nextStateFrom net z v a` of Model/Net.lean for `merge = mergeCopy`, by
`rfl`: `nextStateFrom_is_copy`) is written without op rows, memory or index tables: ports keep their value, a state element takes
`merge old (v of its data line)`, an open data pin reads the constant `z`.  `consistentB net z neg prim asg v` is the specification's
acceptance check (every line carries `lineEq` of its driver, over the documented primitive meanings `prim`).
EVERY restriction is a hypothesis: `Net.wfB`, `orderOKB`, `forksOKB`, `linesDrivenB` (decidable; evaluated per case by `cyclecert` /
`netspeccert` on the real circuit and order), the op semantics `sem` agrees with the documented LUT semantics `spec` on known codes
(`heq`; theorems `semL2n_eq_spec`, `semL2p_eq_spec`, `semL2c_eq_spec`, `semL4_eq_spec`, `semL8_eq_spec` for the five generated
dispatchers), `spec` means `prim`/`neg` (`SemSpec`: `semSpec2/4/8`), and for `strip = true` additionally `capDriversB` and "BUF1
returns its first operand". -/

theorem nextStateFrom_is_copy (net : Net) (z : Bool) (v : Array Bool) (a : List Bool) :
    nextStateFromM net Cycle.mergeCopy z v a = nextStateFrom net z v a := rfl

/-- (11a) **an accepted labelling EXISTS** for every assignment: the labelling of the lines the simulator model computes
(`simLabel`) passes the specification's check `consistentB` — for every well-formed netlist, topological order that schedules every
line, value domain, memory and assignment.  (`consistentB_unique`: it is the only one on the lines.) -/
theorem accepted_labelling_exists {α} [BEq α] [LawfulBEq α] (sem spec : Nat → List α → α)
    (heq : ∀ code, KnownCode code → ∀ xs, sem code xs = spec code xs) (neg : α → α) (prim : String → α → α → α → α → α)
    (hs : SemSpec spec neg prim) (net : Net) (order : List Nat) (hwf : net.wfB = true) (ho : orderOKB net order = true)
    (hfk : forksOKB net order = true) (hall : linesDrivenB Gen.kindPrefixes net order = true)
    (d : α) (env : Nat → α) (a : List α) :
    consistentB net (env net.idx.zero) neg prim (fun p => a.getD p d) (simLabel sem net order d env a) = true :=
  simLabel_accepted sem spec heq neg prim hs net order hwf ho hfk hall d env a

open KV.Cycle in
/-- (11b) **`cycle_iter_spec`, general form**: any value domain `α` (m = 2, 4, 8), any `merge`, `strip_forks` on or off.  For ANY
family `v` of line labellings (one per assignment) that the specification's check accepts at the iterates `0 … k-1`, `s[0]` after
`cycle(k)` IS the k-fold iterate of the specification's next-state function `a ↦ nextStateFromM net merge z (v a) a`, `z` = content
of the constant slot.  By (11a) such a family exists; by (11c) the iterate does not depend on which one is taken. -/
theorem cycle_iter_spec_any {α} [BEq α] [LawfulBEq α] (sem spec : Nat → List α → α)
    (heq : ∀ code, KnownCode code → ∀ xs, sem code xs = spec code xs) (neg : α → α) (prim : String → α → α → α → α → α)
    (hs : SemSpec spec neg prim) (net : Net) (order : List Nat) (strip : Bool)
    (hwf : net.wfB = true) (ho : orderOKB net order = true)
    (hfk : forksOKB net order = true) (hall : linesDrivenB Gen.kindPrefixes net order = true)
    (dflt : α) (hcov : strip = true → capDriversB net order = true)
    (hbuf : strip = true → ∀ xs, sem BUF1 xs = xs.getD 0 dflt)
    (merge : α → α → α) (d : α) (st : St α) (h0 : st.s.s0.length = net.sNodes.length)
    (h1 : st.s.s1.length = net.sNodes.length) (k : Nat) (v : List α → Array α)
    (hv : ∀ j, j < k → consistentB net (st.env net.idx.zero) neg prim
        (fun p => (iter (fun a => nextStateFromM net merge (st.env net.idx.zero) (v a) a) j st.s.s0).getD p d)
        (v (iter (fun a => nextStateFromM net merge (st.env net.idx.zero) (v a) a) j st.s.s0)) = true) :
    (cycleK (fun op => sem op.code) (sigOps Gen.kindPrefixes net order strip) (tabsOf net strip) merge d k st).s.s0 =
      iter (fun a => nextStateFromM net merge (st.env net.idx.zero) (v a) a) k st.s.s0 := by
  have hf := cycleK_spec_gen sem spec heq neg prim hs net order hwf ho hfk hall merge d st h0 h1 k v hv
  cases strip with
  | false => exact hf
  | true =>
    rw [cycleK_strip Gen.kindPrefixes hwf ho hfk (hcov rfl) sem dflt (hbuf rfl) merge d k st st rfl h0 h1 (Agree.refl _ _ _)]
    exact hf

open KV.Cycle in
/-- (11) **`cycle_iter_spec`** (2-valued `LogicSim`, njit path; `strip_forks` on or off): `s[0]` after `cycle(k)` = the k-fold iterate
of the independent `KV.nextStateFrom` under any labelling family the specification accepts at the iterates `0 … k-1`. -/
theorem cycle_iter_spec (net : Net) (order : List Nat) (strip : Bool)
    (hwf : net.wfB = true) (ho : orderOKB net order = true)
    (hfk : forksOKB net order = true) (hall : linesDrivenB Gen.kindPrefixes net order = true)
    (hcov : strip = true → capDriversB net order = true)
    (d : Bool) (st : St Bool) (h0 : st.s.s0.length = net.sNodes.length)
    (h1 : st.s.s1.length = net.sNodes.length) (k : Nat) (v : List Bool → Array Bool)
    (hv : ∀ j, j < k → consistentB net (st.env net.idx.zero) (!·) prim2
        (fun p => (iter (fun a => nextStateFrom net (st.env net.idx.zero) (v a) a) j st.s.s0).getD p d)
        (v (iter (fun a => nextStateFrom net (st.env net.idx.zero) (v a) a) j st.s.s0)) = true) :
    (cycleK (fun op => semL2n op.code) (sigOps Gen.kindPrefixes net order strip) (tabsOf net strip) mergeCopy d k st).s.s0 =
      iter (fun a => nextStateFrom net (st.env net.idx.zero) (v a) a) k st.s.s0 :=
  cycle_iter_spec_any semL2n specL2 (fun _ h xs => semL2n_eq_spec h xs) (!·) prim2 semSpec2 net order strip hwf ho hfk hall false hcov
    (fun _ => semL2n_buf1) mergeCopy d st h0 h1 k v hv

open KV.Cycle in
/-- (11-4) the same for 4-valued `LogicSim` (m = 4, `s_ppo_to_ppi` copies) … -/
theorem cycle_iter_spec_m4 (net : Net) (order : List Nat) (strip : Bool)
    (hwf : net.wfB = true) (ho : orderOKB net order = true)
    (hfk : forksOKB net order = true) (hall : linesDrivenB Gen.kindPrefixes net order = true)
    (hcov : strip = true → capDriversB net order = true)
    (d : V2) (st : St V2) (h0 : st.s.s0.length = net.sNodes.length)
    (h1 : st.s.s1.length = net.sNodes.length) (k : Nat) (v : List V2 → Array V2)
    (hv : ∀ j, j < k → consistentB net (st.env net.idx.zero) spec4Not prim4
        (fun p => (iter (fun a => nextStateFromM net mergeCopy (st.env net.idx.zero) (v a) a) j st.s.s0).getD p d)
        (v (iter (fun a => nextStateFromM net mergeCopy (st.env net.idx.zero) (v a) a) j st.s.s0)) = true) :
    (cycleK (fun op => semL4 op.code) (sigOps Gen.kindPrefixes net order strip) (tabsOf net strip) mergeCopy d k st).s.s0 =
      iter (fun a => nextStateFromM net mergeCopy (st.env net.idx.zero) (v a) a) k st.s.s0 :=
  cycle_iter_spec_any semL4 specL4 (fun _ h xs => semL4_eq_spec h xs) spec4Not prim4 semSpec4 net order strip hwf ho hfk hall default hcov
    (fun _ => semL4_buf1) mergeCopy d st h0 h1 k v hv

open KV.Cycle in
/-- (11-8) … and for 8-valued `LogicSim` (m = 8), any `merge` (the real one is the transition builder `Drv.Cycle.merge8` =
`merge8L`: new value, old value, changed) -/
theorem cycle_iter_spec_m8 (net : Net) (order : List Nat) (strip : Bool)
    (hwf : net.wfB = true) (ho : orderOKB net order = true)
    (hfk : forksOKB net order = true) (hall : linesDrivenB Gen.kindPrefixes net order = true)
    (hcov : strip = true → capDriversB net order = true)
    (merge : V3 → V3 → V3) (d : V3) (st : St V3) (h0 : st.s.s0.length = net.sNodes.length)
    (h1 : st.s.s1.length = net.sNodes.length) (k : Nat) (v : List V3 → Array V3)
    (hv : ∀ j, j < k → consistentB net (st.env net.idx.zero) specNot prim8
        (fun p => (iter (fun a => nextStateFromM net merge (st.env net.idx.zero) (v a) a) j st.s.s0).getD p d)
        (v (iter (fun a => nextStateFromM net merge (st.env net.idx.zero) (v a) a) j st.s.s0)) = true) :
    (cycleK (fun op => semL8 op.code) (sigOps Gen.kindPrefixes net order strip) (tabsOf net strip) merge d k st).s.s0 =
      iter (fun a => nextStateFromM net merge (st.env net.idx.zero) (v a) a) k st.s.s0 :=
  cycle_iter_spec_any semL8 specL8 (fun _ h xs => semL8_eq_spec h xs) specNot prim8 semSpec8 net order strip hwf ho hfk hall default hcov
    (fun _ => semL8_buf1) merge d st h0 h1 k v hv

open KV.Cycle in
/-- (11c) **the run of `cycle` is THE run of the specification** (no labelling family needed).  `SpecStep net neg prim merge z d a a'`:
some labelling accepted by `consistentB` for assignment `a` yields `a' = nextStateFromM …`.  The relation is total and functional
(`specStep_total`, `specStep_functional`); (a) consecutive `s[0]` rows of the simulator are related by it; (b) every sequence of
assignments that starts at `s[0]` and follows it for k steps ends in `s[0]` after `cycle(k)`.  Any value domain, merge. -/
theorem cycle_spec_run {α} [BEq α] [LawfulBEq α] (sem spec : Nat → List α → α)
    (heq : ∀ code, KnownCode code → ∀ xs, sem code xs = spec code xs) (neg : α → α) (prim : String → α → α → α → α → α)
    (hs : SemSpec spec neg prim) (net : Net) (order : List Nat) (hwf : net.wfB = true) (ho : orderOKB net order = true)
    (hfk : forksOKB net order = true) (hall : linesDrivenB Gen.kindPrefixes net order = true)
    (merge : α → α → α) (d : α) (st : St α) (h0 : st.s.s0.length = net.sNodes.length)
    (h1 : st.s.s1.length = net.sNodes.length) :
    let run := fun k => (cycleK (fun op => sem op.code) (sigOps Gen.kindPrefixes net order false) (tabsOf net false) merge d k st).s.s0
    (∀ k, SpecStep net neg prim merge (st.env net.idx.zero) d (run k) (run (k + 1))) ∧
    (∀ (seq : Nat → List α) (k : Nat), seq 0 = st.s.s0 →
      (∀ j, j < k → SpecStep net neg prim merge (st.env net.idx.zero) d (seq j) (seq (j + 1))) → seq k = run k) :=
  cycleK_spec_run sem spec heq neg prim hs net order hwf ho hfk hall merge d st h0 h1

/-- (11c') the specification's step relation is total and functional -/
theorem spec_step_total_functional {α} [BEq α] [LawfulBEq α] (spec : Nat → List α → α) (neg : α → α)
    (prim : String → α → α → α → α → α)
    (hs : SemSpec spec neg prim) (net : Net) (order : List Nat) (hwf : net.wfB = true) (ho : orderOKB net order = true)
    (hfk : forksOKB net order = true) (hall : linesDrivenB Gen.kindPrefixes net order = true)
    (merge : α → α → α) (z d : α) (a : List α) :
    (∃ a', SpecStep net neg prim merge z d a a') ∧
    ∀ a1 a2, SpecStep net neg prim merge z d a a1 → SpecStep net neg prim merge z d a a2 → a1 = a2 :=
  ⟨specStep_total spec neg prim hs net order hwf ho hfk hall merge z d a,
   fun a1 a2 => specStep_functional spec neg prim hs net order hwf ho hfk hall merge z d a a1 a2⟩

open KV.Cycle in
/-- (11d) **`cycle(k)` = `KV.iterState`** — the executable function the driver's `eval2` runs and the oracle of harness/c01.py compares
the real `s[0]` with: position by position, for every k, provided the constant slot holds 0 and the evaluator's labelling `evalAll` is
accepted at the iterates `0 … k-1` — the flag `KV.iterAccepted net (k-1)` that `eval2` now returns (AND over ALL iterates; the harness
skips a lane when it is off: combinational loop). -/
theorem cycle_iter_iterState (net : Net) (order : List Nat) (hwf : net.wfB = true) (ho : orderOKB net order = true)
    (hfk : forksOKB net order = true) (hall : linesDrivenB Gen.kindPrefixes net order = true)
    (d : Bool) (st : St Bool) (h0 : st.s.s0.length = net.sNodes.length) (h1 : st.s.s1.length = net.sNodes.length)
    (hz : st.env net.idx.zero = false) (k : Nat)
    (hacc : k = 0 ∨ iterAccepted net (k - 1) (fun p => st.s.s0.getD p false) = true) (p : Nat) :
    (cycleK (fun op => semL2n op.code) (sigOps Gen.kindPrefixes net order false) (tabsOf net false) mergeCopy d k st).s.s0.getD p false =
      iterState net k (fun p => st.s.s0.getD p false) p :=
  cycleK_iterState semL2n (fun _ h xs => semL2n_eq_spec h xs) net order hwf ho hfk hall d st h0 h1 hz k hacc p

open KV.Cycle in
/-- (11e) **lanes**: lane `k` of the bit-parallel 2-valued simulator (`BitVec w` per entry, any batch size) after `n` cycles = the
`n`-fold iterate of the specification on lane `k` of the initial `s[0]` (composition of (9) `cycle_lanes` and (11)) -/
theorem cycle_iter_spec_lanes (w k : Nat) (hk : k < w) (net : Net) (order : List Nat) (strip : Bool)
    (hwf : net.wfB = true) (ho : orderOKB net order = true)
    (hfk : forksOKB net order = true) (hall : linesDrivenB Gen.kindPrefixes net order = true)
    (hcov : strip = true → capDriversB net order = true)
    (st : St (BitVec w)) (h0 : st.s.s0.length = net.sNodes.length) (h1 : st.s.s1.length = net.sNodes.length) (n : Nat)
    (v : List Bool → Array Bool)
    (hv : ∀ j, j < n → consistentB net ((st.env net.idx.zero).getLsbD k) (!·) prim2
        (fun p => (iter (fun a => nextStateFrom net ((st.env net.idx.zero).getLsbD k) (v a) a) j (st.s.s0.map (·.getLsbD k))).getD p false)
        (v (iter (fun a => nextStateFrom net ((st.env net.idx.zero).getLsbD k) (v a) a) j (st.s.s0.map (·.getLsbD k)))) = true) :
    (cycleK (fun op => semLw w op.code) (sigOps Gen.kindPrefixes net order strip) (tabsOf net strip) mergeCopy 0 n st).s.s0.map
        (·.getLsbD k) =
      iter (fun a => nextStateFrom net ((st.env net.idx.zero).getLsbD k) (v a) a) n (st.s.s0.map (·.getLsbD k)) := by
  rw [(cycle_lanes w k hk _ _ n st).1]
  exact cycle_iter_spec net order strip hwf ho hfk hall hcov false
    ⟨fun x => (st.env x).getLsbD k, ⟨st.s.s0.map (·.getLsbD k), st.s.s1.map (·.getLsbD k)⟩⟩
    (by simpa using h0) (by simpa using h1) n v hv

open KV.Cycle in
/-- (8z) **`zeroCapB` is a theorem for the `SimOps` model tables** (audit-2 finding 7 / C-F3): the table condition of (8), (8') holds
for `simopsMap` — every well-formed netlist, topological order, capacity vector, with or without `c_reuse` / `strip_forks` -/
theorem zeroCap_simopsMap (tbl : List PrefixRow) (net : Net) (order : List Nat) (strip : Bool) (capsIn : Nat → Nat)
    (capsMin : Nat) (reuse : Bool) (hwf : net.wfB = true) (ho : orderOKB net order = true)
    (hf : strip = true → forksOKB net order = true) (hr : readsDrivenB tbl net order = true) (hpos : 0 < capsMin) :
    zeroCapB (simopsMap tbl net order strip capsIn capsMin reuse) = true :=
  zeroCapB_simopsMap tbl net order strip capsIn capsMin reuse hwf ho hf hr hpos

open KV.Cycle in
/-- (8e) **`cycle(k)` on memory, ALL circuits, no per-instance certificate** (`strip_forks` on or off, any allocator capacity vector,
with or without `c_reuse`): for the tables the `SimOps` model builds, the `s` array after k cycles ON MEMORY is the `s` array of the
signal-level loop — the certificate hypotheses of (8) are discharged by `C08.simops_map_accepted` and (8z). -/
theorem cycle_on_memory_all_circuits {α} [Inhabited α] (tbl : List PrefixRow) (net : Net) (order : List Nat) (strip : Bool)
    (capsIn : Nat → Nat) (capsMin : Nat) (reuse : Bool)
    (hwf : net.wfB = true) (ho : orderOKB net order = true) (hf : strip = true → forksOKB net order = true)
    (hr : readsDrivenB tbl net order = true) (hpos : 0 < capsMin)
    (f : Nat → List α → α) (merge : α → α → α) (d : α) (k : Nat) (m0 : Int → α) (env0 : Nat → α) (s : S α)
    (hz : m0 ((simopsMap tbl net order strip capsIn capsMin reuse).loc net.idx.zero) = env0 net.idx.zero) :
    (cycleKM (simopsMap tbl net order strip capsIn capsMin reuse) f (tabsOf net strip) merge d k ⟨m0, s⟩).s =
      (cycleK (fun op => f op.code) (sigOps tbl net order strip) (tabsOf net strip) merge d k ⟨env0, s⟩).s :=
  cycle_on_memory tbl (simopsMap tbl net order strip capsIn capsMin reuse) order rfl
    (simopsMap_accepted tbl net order strip capsIn capsMin reuse hwf ho hf hr hpos) hpos
    (zeroCapB_simopsMap tbl net order strip capsIn capsMin reuse hwf ho hf hr hpos) f merge d k m0 env0 s hz

open KV.Cycle in
/-- (11m) **end to end, sequential, against the independent specification, ALL circuits**: `s[0]` after `cycle(k)` ON MEMORY (the
`SimOps` model tables, `strip_forks` on or off, with or without `c_reuse`; 2-valued njit path) = the k-fold iterate of
`KV.nextStateFrom` under any labelling family accepted at the iterates; `z` = what the row of the constant slot holds. -/
theorem cycle_memory_is_spec (net : Net) (order : List Nat) (strip : Bool)
    (capsIn : Nat → Nat) (capsMin : Nat) (reuse : Bool)
    (hwf : net.wfB = true) (ho : orderOKB net order = true)
    (hfk : forksOKB net order = true) (hall : linesDrivenB Gen.kindPrefixes net order = true)
    (hr : readsDrivenB Gen.kindPrefixes net order = true) (hcov : strip = true → capDriversB net order = true)
    (hpos : 0 < capsMin) (d : Bool) (k : Nat) (m0 : Int → Bool) (s : S Bool)
    (h0 : s.s0.length = net.sNodes.length) (h1 : s.s1.length = net.sNodes.length) (v : List Bool → Array Bool) :
    let z := m0 ((simopsMap Gen.kindPrefixes net order strip capsIn capsMin reuse).loc net.idx.zero)
    (∀ j, j < k → consistentB net z (!·) prim2
        (fun p => (iter (fun a => nextStateFrom net z (v a) a) j s.s0).getD p d)
        (v (iter (fun a => nextStateFrom net z (v a) a) j s.s0)) = true) →
    (cycleKM (simopsMap Gen.kindPrefixes net order strip capsIn capsMin reuse) (fun c => semL2n c) (tabsOf net strip)
        mergeCopy d k ⟨m0, s⟩).s.s0 = iter (fun a => nextStateFrom net z (v a) a) k s.s0 := by
  intro z hv
  rw [cycle_on_memory_all_circuits Gen.kindPrefixes net order strip capsIn capsMin reuse hwf ho (fun _ => hfk) hr hpos
    (fun c => semL2n c) mergeCopy d k m0 (fun _ => z) s rfl]
  exact cycle_iter_spec net order strip hwf ho hfk hall hcov d ⟨fun _ => z, s⟩ h0 h1 k v hv

/-- non-vacuity of (11), (11a), (11d): a 2-bit counter (`q0' = NOT q0`, `q1' = q1 XOR q0`, `q1` observed at an output port), three
cycles from 00: the states are 01, 10, 11 (`s[0] = [port, q0, q1]`).  All hypotheses hold; the labelling family is the evaluator
`evalAll`; the flag `iterAccepted` for the iterates 0, 1, 2 is on; `iterState` and the simulator model give `[0, 1, 1]`. -/
def counterNet : Net :=
  { nodes := #[⟨"DFF", [some 4], [some 0]⟩, ⟨"__fork__", [some 0], [some 1, some 2]⟩, ⟨"INV1", [some 1], [some 3]⟩,
               ⟨"__fork__", [some 3], [some 4]⟩, ⟨"DFF", [some 9], [some 5]⟩, ⟨"__fork__", [some 5], [some 6, some 7]⟩,
               ⟨"XOR2", [some 2, some 6], [some 8]⟩, ⟨"__fork__", [some 8], [some 9]⟩, ⟨"output", [some 7], []⟩],
    lines := #[⟨0, 0, 1, 0⟩, ⟨1, 0, 2, 0⟩, ⟨1, 1, 6, 0⟩, ⟨2, 0, 3, 0⟩, ⟨3, 0, 0, 0⟩, ⟨4, 0, 5, 0⟩, ⟨5, 0, 6, 1⟩, ⟨5, 1, 8, 0⟩,
               ⟨6, 0, 7, 0⟩, ⟨7, 0, 4, 0⟩],
    io := [8] }
def counterOrder : List Nat := [0, 4, 1, 5, 2, 6, 3, 7, 8]
def counterSt : Cycle.St Bool := ⟨fun _ => false, ⟨[false, false, false], [false, false, false]⟩⟩
def counterV (a : List Bool) : Array Bool := evalAll counterNet false (!·) prim2 (fun p => a.getD p false)
example : counterNet.wfB = true ∧ orderOKB counterNet counterOrder = true ∧ forksOKB counterNet counterOrder = true ∧
    linesDrivenB Gen.kindPrefixes counterNet counterOrder = true ∧ Cycle.capDriversB counterNet counterOrder = true ∧
    readsDrivenB Gen.kindPrefixes counterNet counterOrder = true ∧
    counterNet.sNodes = [8, 0, 4] ∧ counterNet.arityOKB = true := by decide +kernel
theorem counter_accepted : ∀ j, j < 3 → consistentB counterNet (counterSt.env counterNet.idx.zero) (!·) prim2
    (fun p => (Cycle.iter (fun a => nextStateFrom counterNet (counterSt.env counterNet.idx.zero) (counterV a) a) j
      counterSt.s.s0).getD p false)
    (counterV (Cycle.iter (fun a => nextStateFrom counterNet (counterSt.env counterNet.idx.zero) (counterV a) a) j
      counterSt.s.s0)) = true := by decide +kernel
example : iterAccepted counterNet 2 (fun p => counterSt.s.s0.getD p false) = true ∧
    (List.range 3).map (iterState counterNet 3 (fun p => counterSt.s.s0.getD p false)) = [false, true, true] ∧
    (List.range 3).map (iterState counterNet 2 (fun p => counterSt.s.s0.getD p false)) = [false, false, true] ∧
    Cycle.iter (fun a => nextStateFrom counterNet false (counterV a) a) 3 [false, false, false] = [false, true, true] := by
  decide +kernel
/-- the theorem instantiated: three cycles of the simulator model (un-stripped and stripped) on the counter give state 11 -/
example (strip : Bool) :
    (Cycle.cycleK (fun op => semL2n op.code) (Cycle.sigOps Gen.kindPrefixes counterNet counterOrder strip)
      (Cycle.tabsOf counterNet strip) Cycle.mergeCopy false 3 counterSt).s.s0 = [false, true, true] := by
  rw [cycle_iter_spec counterNet counterOrder strip (by decide +kernel) (by decide +kernel) (by decide +kernel) (by decide +kernel)
    (fun _ => by decide +kernel) false counterSt (by decide +kernel) (by decide +kernel) 3 counterV counter_accepted]
  decide +kernel

/-- non-vacuity of (4): a two-op program -/
example : exec semL2n [⟨34952, 10, [0, 1, 9, 9]⟩, ⟨21845, 11, [10, 9, 9, 9]⟩] (fun l => l == 0 || l == 1) 11 = false := by
  decide +kernel

end KV.C01
