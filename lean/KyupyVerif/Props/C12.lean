import KyupyVerif.Proofs.MvChk
import KyupyVerif.Gen.Bp
import KyupyVerif.Gen.MvTables
/-! # C12 — multi-valued operators agree across both storage formats and the algebra

`Gen.bp8v_*k` / `Gen.bp4v_*k` are the expressions recorded from the real `logic.bp8v_*` / `logic.bp4v_*`
called with `k` operands; `Gen.mv_*k` are the complete tables of the real `logic._mv_*` (and `Gen.mvpub_*`
of the public wrappers).  All statements quantify over **all** operand values; the lane-wise statements
over every lane count `w` and lane `k < w`. -/
namespace KV.C12
open KV KV.Gen

def specBuf (v : V3) : V3 := if v.unk then V3.unknown else v
def spec4Buf (v : V2) : V2 := V2.ofV3 (specBuf v.toV3)

/-! ## bit-parallel operators (8-valued) equal the documented algebra -/
theorem bp8_not_spec (a : V3) : (bp8v_not1 (.ofV3 a)).toV3 = specNot a :=
  bpAgree1_sound (by decide +kernel) a
theorem bp8_buf_spec (a : V3) : (bp8v_buf1 (.ofV3 a)).toV3 = specBuf a :=
  bpAgree1_sound (by decide +kernel) a
theorem bp8_and1_spec (a : V3) : (bp8v_and1 (.ofV3 a)).toV3 = specAnd [a] :=
  bpAgree1_sound (f := fun a => specAnd [a]) (by decide +kernel) a
theorem bp8_and2_spec (a b : V3) : (bp8v_and2 (.ofV3 a) (.ofV3 b)).toV3 = specAnd [a, b] :=
  bpAgree2_sound (f := fun a b => specAnd [a, b]) (by decide +kernel) a b
theorem bp8_and3_spec (a b c : V3) : (bp8v_and3 (.ofV3 a) (.ofV3 b) (.ofV3 c)).toV3 = specAnd [a, b, c] :=
  bpAgree3_sound (f := fun a b c => specAnd [a, b, c]) (by decide +kernel) a b c
theorem bp8_and4_spec (a b c d : V3) : (bp8v_and4 (.ofV3 a) (.ofV3 b) (.ofV3 c) (.ofV3 d)).toV3 = specAnd [a, b, c, d] :=
  agree8_sound (f := fun a b c d => specAnd [a, b, c, d]) (by decide +kernel) a b c d
theorem bp8_or1_spec (a : V3) : (bp8v_or1 (.ofV3 a)).toV3 = specOr [a] :=
  bpAgree1_sound (f := fun a => specOr [a]) (by decide +kernel) a
theorem bp8_or2_spec (a b : V3) : (bp8v_or2 (.ofV3 a) (.ofV3 b)).toV3 = specOr [a, b] :=
  bpAgree2_sound (f := fun a b => specOr [a, b]) (by decide +kernel) a b
theorem bp8_or3_spec (a b c : V3) : (bp8v_or3 (.ofV3 a) (.ofV3 b) (.ofV3 c)).toV3 = specOr [a, b, c] :=
  bpAgree3_sound (f := fun a b c => specOr [a, b, c]) (by decide +kernel) a b c
theorem bp8_or4_spec (a b c d : V3) : (bp8v_or4 (.ofV3 a) (.ofV3 b) (.ofV3 c) (.ofV3 d)).toV3 = specOr [a, b, c, d] :=
  agree8_sound (f := fun a b c d => specOr [a, b, c, d]) (by decide +kernel) a b c d
theorem bp8_xor1_spec (a : V3) : (bp8v_xor1 (.ofV3 a)).toV3 = specXor [a] :=
  bpAgree1_sound (f := fun a => specXor [a]) (by decide +kernel) a
theorem bp8_xor2_spec (a b : V3) : (bp8v_xor2 (.ofV3 a) (.ofV3 b)).toV3 = specXor [a, b] :=
  bpAgree2_sound (f := fun a b => specXor [a, b]) (by decide +kernel) a b
theorem bp8_xor3_spec (a b c : V3) : (bp8v_xor3 (.ofV3 a) (.ofV3 b) (.ofV3 c)).toV3 = specXor [a, b, c] :=
  bpAgree3_sound (f := fun a b c => specXor [a, b, c]) (by decide +kernel) a b c
theorem bp8_xor4_spec (a b c d : V3) : (bp8v_xor4 (.ofV3 a) (.ofV3 b) (.ofV3 c) (.ofV3 d)).toV3 = specXor [a, b, c, d] :=
  agree8_sound (f := fun a b c d => specXor [a, b, c, d]) (by decide +kernel) a b c d

/-! ## bit-parallel operators (4-valued) equal the 4-valued algebra, all 4^k tuples -/
theorem bp4_not_spec (a : V2) : (bp4v_not1 (.ofV2 a)).toV2 = spec4Not a :=
  bp4Agree1_sound (by decide +kernel) a
theorem bp4_buf_spec (a : V2) : (bp4v_buf1 (.ofV2 a)).toV2 = spec4Buf a :=
  bp4Agree1_sound (by decide +kernel) a
theorem bp4_and1_spec (a : V2) : (bp4v_and1 (.ofV2 a)).toV2 = spec4And [a] :=
  bp4Agree1_sound (f := fun a => spec4And [a]) (by decide +kernel) a
theorem bp4_and2_spec (a b : V2) : (bp4v_and2 (.ofV2 a) (.ofV2 b)).toV2 = spec4And [a, b] :=
  bp4Agree2_sound (f := fun a b => spec4And [a, b]) (by decide +kernel) a b
theorem bp4_and3_spec (a b c : V2) : (bp4v_and3 (.ofV2 a) (.ofV2 b) (.ofV2 c)).toV2 = spec4And [a, b, c] :=
  bp4Agree3_sound (f := fun a b c => spec4And [a, b, c]) (by decide +kernel) a b c
theorem bp4_and4_spec (a b c d : V2) : (bp4v_and4 (.ofV2 a) (.ofV2 b) (.ofV2 c) (.ofV2 d)).toV2 = spec4And [a, b, c, d] :=
  agree4_sound (f := fun a b c d => spec4And [a, b, c, d]) (by decide +kernel) a b c d
theorem bp4_or1_spec (a : V2) : (bp4v_or1 (.ofV2 a)).toV2 = spec4Or [a] :=
  bp4Agree1_sound (f := fun a => spec4Or [a]) (by decide +kernel) a
theorem bp4_or2_spec (a b : V2) : (bp4v_or2 (.ofV2 a) (.ofV2 b)).toV2 = spec4Or [a, b] :=
  bp4Agree2_sound (f := fun a b => spec4Or [a, b]) (by decide +kernel) a b
theorem bp4_or3_spec (a b c : V2) : (bp4v_or3 (.ofV2 a) (.ofV2 b) (.ofV2 c)).toV2 = spec4Or [a, b, c] :=
  bp4Agree3_sound (f := fun a b c => spec4Or [a, b, c]) (by decide +kernel) a b c
theorem bp4_or4_spec (a b c d : V2) : (bp4v_or4 (.ofV2 a) (.ofV2 b) (.ofV2 c) (.ofV2 d)).toV2 = spec4Or [a, b, c, d] :=
  agree4_sound (f := fun a b c d => spec4Or [a, b, c, d]) (by decide +kernel) a b c d
theorem bp4_xor1_spec (a : V2) : (bp4v_xor1 (.ofV2 a)).toV2 = spec4Xor [a] :=
  bp4Agree1_sound (f := fun a => spec4Xor [a]) (by decide +kernel) a
theorem bp4_xor2_spec (a b : V2) : (bp4v_xor2 (.ofV2 a) (.ofV2 b)).toV2 = spec4Xor [a, b] :=
  bp4Agree2_sound (f := fun a b => spec4Xor [a, b]) (by decide +kernel) a b
theorem bp4_xor3_spec (a b c : V2) : (bp4v_xor3 (.ofV2 a) (.ofV2 b) (.ofV2 c)).toV2 = spec4Xor [a, b, c] :=
  bp4Agree3_sound (f := fun a b c => spec4Xor [a, b, c]) (by decide +kernel) a b c
theorem bp4_xor4_spec (a b c d : V2) : (bp4v_xor4 (.ofV2 a) (.ofV2 b) (.ofV2 c) (.ofV2 d)).toV2 = spec4Xor [a, b, c, d] :=
  agree4_sound (f := fun a b c d => spec4Xor [a, b, c, d]) (by decide +kernel) a b c d

/-! ## array operators: the complete tables of the real functions equal the algebra -/
theorem mv_not_spec (a : V3) : tab mv_not1 a.code = (specNot a).code :=
  mvAgree1_sound (by decide +kernel) a
theorem mv_and1_spec (a : V3) : tab mv_and1 a.code = (specAnd [a]).code :=
  mvAgree1_sound (f := fun a => specAnd [a]) (by decide +kernel) a
theorem mv_and2_spec (a b : V3) : tab mv_and2 (a.code + 8 * b.code) = (specAnd [a, b]).code :=
  mvAgree2_sound (f := fun a b => specAnd [a, b]) (by decide +kernel) a b
theorem mv_and3_spec (a b c : V3) : tab mv_and3 (a.code + 8 * b.code + 64 * c.code) = (specAnd [a, b, c]).code :=
  mvAgree3_sound (f := fun a b c => specAnd [a, b, c]) (by decide +kernel) a b c
theorem mv_and4_spec (a b c d : V3) :
    tab mv_and4 (a.code + 8 * b.code + 64 * c.code + 512 * d.code) = (specAnd [a, b, c, d]).code :=
  mvAgree4_sound (f := fun a b c d => specAnd [a, b, c, d]) (by decide +kernel) a b c d
theorem mv_or1_spec (a : V3) : tab mv_or1 a.code = (specOr [a]).code :=
  mvAgree1_sound (f := fun a => specOr [a]) (by decide +kernel) a
theorem mv_or2_spec (a b : V3) : tab mv_or2 (a.code + 8 * b.code) = (specOr [a, b]).code :=
  mvAgree2_sound (f := fun a b => specOr [a, b]) (by decide +kernel) a b
theorem mv_or3_spec (a b c : V3) : tab mv_or3 (a.code + 8 * b.code + 64 * c.code) = (specOr [a, b, c]).code :=
  mvAgree3_sound (f := fun a b c => specOr [a, b, c]) (by decide +kernel) a b c
theorem mv_or4_spec (a b c d : V3) :
    tab mv_or4 (a.code + 8 * b.code + 64 * c.code + 512 * d.code) = (specOr [a, b, c, d]).code :=
  mvAgree4_sound (f := fun a b c d => specOr [a, b, c, d]) (by decide +kernel) a b c d
theorem mv_xor1_spec (a : V3) : tab mv_xor1 a.code = (specXor [a]).code :=
  mvAgree1_sound (f := fun a => specXor [a]) (by decide +kernel) a
theorem mv_xor2_spec (a b : V3) : tab mv_xor2 (a.code + 8 * b.code) = (specXor [a, b]).code :=
  mvAgree2_sound (f := fun a b => specXor [a, b]) (by decide +kernel) a b
theorem mv_xor3_spec (a b c : V3) : tab mv_xor3 (a.code + 8 * b.code + 64 * c.code) = (specXor [a, b, c]).code :=
  mvAgree3_sound (f := fun a b c => specXor [a, b, c]) (by decide +kernel) a b c
theorem mv_xor4_spec (a b c d : V3) :
    tab mv_xor4 (a.code + 8 * b.code + 64 * c.code + 512 * d.code) = (specXor [a, b, c, d]).code :=
  mvAgree4_sound (f := fun a b c d => specXor [a, b, c, d]) (by decide +kernel) a b c d
/-- the public wrappers `mv_not/mv_and/mv_or/mv_xor` (fresh result array) -/
theorem mvpub_not_spec (a : V3) : tab mvpub_not1 a.code = (specNot a).code :=
  mvAgree1_sound (by decide +kernel) a
theorem mvpub_and_spec (a b : V3) : tab mvpub_and2 (a.code + 8 * b.code) = (specAnd [a, b]).code :=
  mvAgree2_sound (f := fun a b => specAnd [a, b]) (by decide +kernel) a b
theorem mvpub_or_spec (a b : V3) : tab mvpub_or2 (a.code + 8 * b.code) = (specOr [a, b]).code :=
  mvAgree2_sound (f := fun a b => specOr [a, b]) (by decide +kernel) a b
theorem mvpub_xor_spec (a b : V3) : tab mvpub_xor2 (a.code + 8 * b.code) = (specXor [a, b]).code :=
  mvAgree2_sound (f := fun a b => specXor [a, b]) (by decide +kernel) a b

/-! ## the two storage formats agree (corollaries) -/
theorem bp8_eq_mv_and2 (a b : V3) :
    ((bp8v_and2 (.ofV3 a) (.ofV3 b)).toV3).code = tab mv_and2 (a.code + 8 * b.code) := by
  rw [bp8_and2_spec, mv_and2_spec]
theorem bp8_eq_mv_and3 (a b c : V3) :
    ((bp8v_and3 (.ofV3 a) (.ofV3 b) (.ofV3 c)).toV3).code = tab mv_and3 (a.code + 8 * b.code + 64 * c.code) := by
  rw [bp8_and3_spec, mv_and3_spec]
theorem bp8_eq_mv_and4 (a b c d : V3) :
    ((bp8v_and4 (.ofV3 a) (.ofV3 b) (.ofV3 c) (.ofV3 d)).toV3).code =
      tab mv_and4 (a.code + 8 * b.code + 64 * c.code + 512 * d.code) := by
  rw [bp8_and4_spec, mv_and4_spec]
theorem bp8_eq_mv_or2 (a b : V3) :
    ((bp8v_or2 (.ofV3 a) (.ofV3 b)).toV3).code = tab mv_or2 (a.code + 8 * b.code) := by
  rw [bp8_or2_spec, mv_or2_spec]
theorem bp8_eq_mv_or3 (a b c : V3) :
    ((bp8v_or3 (.ofV3 a) (.ofV3 b) (.ofV3 c)).toV3).code = tab mv_or3 (a.code + 8 * b.code + 64 * c.code) := by
  rw [bp8_or3_spec, mv_or3_spec]
theorem bp8_eq_mv_or4 (a b c d : V3) :
    ((bp8v_or4 (.ofV3 a) (.ofV3 b) (.ofV3 c) (.ofV3 d)).toV3).code =
      tab mv_or4 (a.code + 8 * b.code + 64 * c.code + 512 * d.code) := by
  rw [bp8_or4_spec, mv_or4_spec]
theorem bp8_eq_mv_xor2 (a b : V3) :
    ((bp8v_xor2 (.ofV3 a) (.ofV3 b)).toV3).code = tab mv_xor2 (a.code + 8 * b.code) := by
  rw [bp8_xor2_spec, mv_xor2_spec]
theorem bp8_eq_mv_xor3 (a b c : V3) :
    ((bp8v_xor3 (.ofV3 a) (.ofV3 b) (.ofV3 c)).toV3).code = tab mv_xor3 (a.code + 8 * b.code + 64 * c.code) := by
  rw [bp8_xor3_spec, mv_xor3_spec]
theorem bp8_eq_mv_xor4 (a b c d : V3) :
    ((bp8v_xor4 (.ofV3 a) (.ofV3 b) (.ofV3 c) (.ofV3 d)).toV3).code =
      tab mv_xor4 (a.code + 8 * b.code + 64 * c.code + 512 * d.code) := by
  rw [bp8_xor4_spec, mv_xor4_spec]
theorem bp8_eq_mv_not (a : V3) : ((bp8v_not1 (.ofV3 a)).toV3).code = tab mv_not1 a.code := by
  rw [bp8_not_spec, mv_not_spec]

/-- 4-valued bit-parallel = array operator on the low two bits -/
theorem bp4_eq_mv_and2 (a b : V2) :
    ((bp4v_and2 (.ofV2 a) (.ofV2 b)).toV2).code = tab mv_and2 (a.toV3.code + 8 * b.toV3.code) % 4 := by
  rw [bp4_and2_spec, mv_and2_spec]; rcases a with ⟨a0,a1⟩; rcases b with ⟨b0,b1⟩
  cases a0 <;> cases a1 <;> cases b0 <;> cases b1 <;> decide
theorem bp4_eq_mv_or2 (a b : V2) :
    ((bp4v_or2 (.ofV2 a) (.ofV2 b)).toV2).code = tab mv_or2 (a.toV3.code + 8 * b.toV3.code) % 4 := by
  rw [bp4_or2_spec, mv_or2_spec]; rcases a with ⟨a0,a1⟩; rcases b with ⟨b0,b1⟩
  cases a0 <;> cases a1 <;> cases b0 <;> cases b1 <;> decide
theorem bp4_eq_mv_xor2 (a b : V2) :
    ((bp4v_xor2 (.ofV2 a) (.ofV2 b)).toV2).code = tab mv_xor2 (a.toV3.code + 8 * b.toV3.code) % 4 := by
  rw [bp4_xor2_spec, mv_xor2_spec]; rcases a with ⟨a0,a1⟩; rcases b with ⟨b0,b1⟩
  cases a0 <;> cases a1 <;> cases b0 <;> cases b1 <;> decide

/-! ## restricted to 0/1 they are the Boolean operators — for operand lists of ANY length -/
theorem bool_not (a : Bool) : specNot (V3.ofBool a) = V3.ofBool (!a) := by cases a <;> rfl

theorem any_isZero_ofBool (xs : List Bool) : (xs.map V3.ofBool).any V3.isZero = xs.any (!·) := by
  induction xs with
  | nil => rfl
  | cons x xs ih => cases x <;> simp_all [V3.ofBool, V3.isZero]
theorem any_isOne_ofBool (xs : List Bool) : (xs.map V3.ofBool).any V3.isOne = xs.any (·) := by
  induction xs with
  | nil => rfl
  | cons x xs ih => cases x <;> simp_all [V3.ofBool, V3.isOne]
theorem any_unk_ofBool (xs : List Bool) : (xs.map V3.ofBool).any V3.unk = false := by
  induction xs with
  | nil => rfl
  | cons x xs ih => cases x <;> simp_all [V3.ofBool, V3.unk]
theorem any_p2_ofBool (xs : List Bool) : (xs.map V3.ofBool).any (·.p2) = false := by
  induction xs with
  | nil => rfl
  | cons x xs ih => cases x <;> simp_all [V3.ofBool]

theorem bool_and (xs : List Bool) : specAnd (xs.map V3.ofBool) = V3.ofBool (xs.all (·)) := by
  unfold specAnd
  rw [any_isZero_ofBool, any_unk_ofBool, any_p2_ofBool]
  by_cases h : xs.any (!·) = true
  · have : xs.all (·) = false := by
      simp only [List.any_eq_true] at h; obtain ⟨x, hx, hx'⟩ := h
      cases hall : xs.all (·) with
      | false => rfl
      | true => simp only [List.all_eq_true] at hall; have := hall x hx; simp_all
    simp [h, this, V3.ofBool, V3.zero]
  · have hall : xs.all (·) = true := by
      simp only [List.all_eq_true]; intro x hx
      cases x with
      | true => rfl
      | false => exact absurd (List.any_eq_true.mpr ⟨false, hx, rfl⟩) h
    have e0 : (xs.map V3.ofBool).all (·.p0) = true := by
      simp only [List.all_eq_true, List.mem_map]; rintro v ⟨x, hx, rfl⟩
      simp only [List.all_eq_true] at hall; simpa [V3.ofBool] using hall x hx
    have e1 : (xs.map V3.ofBool).all (·.p1) = true := by
      simp only [List.all_eq_true, List.mem_map]; rintro v ⟨x, hx, rfl⟩
      simp only [List.all_eq_true] at hall; simpa [V3.ofBool] using hall x hx
    simp only [Bool.not_eq_true] at h
    simp [h, hall, e0, e1, V3.ofBool]

theorem bool_or (xs : List Bool) : specOr (xs.map V3.ofBool) = V3.ofBool (xs.any (·)) := by
  unfold specOr
  rw [any_isOne_ofBool, any_unk_ofBool, any_p2_ofBool]
  by_cases h : xs.any (·) = true
  · simp [h, V3.ofBool, V3.one]
  · simp only [Bool.not_eq_true] at h
    have e0 : (xs.map V3.ofBool).any (·.p0) = false := by
      rw [← h]; induction xs with
      | nil => rfl
      | cons x xs ih => cases x <;> simp_all [V3.ofBool]
    have e1 : (xs.map V3.ofBool).any (·.p1) = false := by
      rw [← h]; induction xs with
      | nil => rfl
      | cons x xs ih => cases x <;> simp_all [V3.ofBool]
    simp [h, e0, e1, V3.ofBool]

theorem foldl_xor_p0 (xs : List Bool) (acc : Bool) :
    (xs.map V3.ofBool).foldl (fun a v => a ^^ v.p0) acc = xs.foldl (· ^^ ·) acc := by
  induction xs generalizing acc with
  | nil => rfl
  | cons x xs ih => simp [List.foldl, ih, V3.ofBool]
theorem foldl_xor_p1 (xs : List Bool) (acc : Bool) :
    (xs.map V3.ofBool).foldl (fun a v => a ^^ v.p1) acc = xs.foldl (· ^^ ·) acc := by
  induction xs generalizing acc with
  | nil => rfl
  | cons x xs ih => simp [List.foldl, ih, V3.ofBool]

theorem bool_xor (xs : List Bool) : specXor (xs.map V3.ofBool) = V3.ofBool (xs.foldl (· ^^ ·) false) := by
  unfold specXor
  rw [any_unk_ofBool, any_p2_ofBool, foldl_xor_p0, foldl_xor_p1]
  simp [V3.ofBool]

/-! ## De Morgan duality between AND and OR under NOT, on all eight values, 1..4 operands -/
theorem de_morgan_and1 (a : V3) :
    specNot (specAnd [a]) = specOr [specNot a] := by
  have h : (V3.all.all fun a => specNot (specAnd [a]) == specOr [specNot a]) = true := by decide +kernel
  simp only [List.all_eq_true, beq_iff_eq] at h
  exact h a (V3.all_complete a)
theorem de_morgan_and2 (a b : V3) :
    specNot (specAnd [a, b]) = specOr [specNot a, specNot b] := by
  have h : (V3.all.all fun a => V3.all.all fun b => specNot (specAnd [a, b]) == specOr [specNot a, specNot b]) = true := by decide +kernel
  simp only [List.all_eq_true, beq_iff_eq] at h
  exact h a (V3.all_complete a) b (V3.all_complete b)
theorem de_morgan_and3 (a b c : V3) :
    specNot (specAnd [a, b, c]) = specOr [specNot a, specNot b, specNot c] := by
  have h : (V3.all.all fun a => V3.all.all fun b => V3.all.all fun c => specNot (specAnd [a, b, c]) == specOr [specNot a, specNot b, specNot c]) = true := by decide +kernel
  simp only [List.all_eq_true, beq_iff_eq] at h
  exact h a (V3.all_complete a) b (V3.all_complete b) c (V3.all_complete c)
theorem de_morgan_or1 (a : V3) :
    specNot (specOr [a]) = specAnd [specNot a] := by
  have h : (V3.all.all fun a => specNot (specOr [a]) == specAnd [specNot a]) = true := by decide +kernel
  simp only [List.all_eq_true, beq_iff_eq] at h
  exact h a (V3.all_complete a)
theorem de_morgan_or2 (a b : V3) :
    specNot (specOr [a, b]) = specAnd [specNot a, specNot b] := by
  have h : (V3.all.all fun a => V3.all.all fun b => specNot (specOr [a, b]) == specAnd [specNot a, specNot b]) = true := by decide +kernel
  simp only [List.all_eq_true, beq_iff_eq] at h
  exact h a (V3.all_complete a) b (V3.all_complete b)
theorem de_morgan_or3 (a b c : V3) :
    specNot (specOr [a, b, c]) = specAnd [specNot a, specNot b, specNot c] := by
  have h : (V3.all.all fun a => V3.all.all fun b => V3.all.all fun c => specNot (specOr [a, b, c]) == specAnd [specNot a, specNot b, specNot c]) = true := by decide +kernel
  simp only [List.all_eq_true, beq_iff_eq] at h
  exact h a (V3.all_complete a) b (V3.all_complete b) c (V3.all_complete c)

def dm4and : Bool := V3.all.all fun a => V3.all.all fun b => V3.all.all fun c => V3.all.all fun d =>
  specNot (specAnd [a, b, c, d]) == specOr [specNot a, specNot b, specNot c, specNot d]
def dm4or : Bool := V3.all.all fun a => V3.all.all fun b => V3.all.all fun c => V3.all.all fun d =>
  specNot (specOr [a, b, c, d]) == specAnd [specNot a, specNot b, specNot c, specNot d]
theorem de_morgan_and4 (a b c d : V3) :
    specNot (specAnd [a, b, c, d]) = specOr [specNot a, specNot b, specNot c, specNot d] := by
  have h : dm4and = true := by decide +kernel
  simp only [dm4and, List.all_eq_true, beq_iff_eq] at h
  exact h a (V3.all_complete a) b (V3.all_complete b) c (V3.all_complete c) d (V3.all_complete d)
theorem de_morgan_or4 (a b c d : V3) :
    specNot (specOr [a, b, c, d]) = specAnd [specNot a, specNot b, specNot c, specNot d] := by
  have h : dm4or = true := by decide +kernel
  simp only [dm4or, List.all_eq_true, beq_iff_eq] at h
  exact h a (V3.all_complete a) b (V3.all_complete b) c (V3.all_complete c) d (V3.all_complete d)

/-- De Morgan for the real bit-parallel code (two operands; the other arities follow the same way) -/
theorem bp8_de_morgan2 (a b : V3) :
    (bp8v_not1 (bp8v_and2 (.ofV3 a) (.ofV3 b))).toV3 =
      (bp8v_or2 (bp8v_not1 (.ofV3 a)) (bp8v_not1 (.ofV3 b))).toV3 := by
  have e1 : bp8v_and2 (.ofV3 a) (.ofV3 b) = P3.ofV3 (specAnd [a, b]) := by
    rw [← bp8_and2_spec]; rfl
  have e2 : bp8v_not1 (.ofV3 a) = P3.ofV3 (specNot a) := by rw [← bp8_not_spec]; rfl
  have e3 : bp8v_not1 (.ofV3 b) = P3.ofV3 (specNot b) := by rw [← bp8_not_spec]; rfl
  rw [e1, e2, e3, bp8_not_spec, bp8_or2_spec, de_morgan_and2]

/-- De Morgan for the real bit-parallel code, three and four operands, and the dual (NOT of OR = AND of NOTs) -/
theorem bp8_de_morgan3 (a b c : V3) :
    (bp8v_not1 (bp8v_and3 (.ofV3 a) (.ofV3 b) (.ofV3 c))).toV3 =
      (bp8v_or3 (bp8v_not1 (.ofV3 a)) (bp8v_not1 (.ofV3 b)) (bp8v_not1 (.ofV3 c))).toV3 := by
  have e1 : bp8v_and3 (.ofV3 a) (.ofV3 b) (.ofV3 c) = P3.ofV3 (specAnd [a, b, c]) := by
    rw [← bp8_and3_spec]; rfl
  have e2 : ∀ x : V3, bp8v_not1 (.ofV3 x) = P3.ofV3 (specNot x) := fun x => by rw [← bp8_not_spec]; rfl
  rw [e1, e2 a, e2 b, e2 c, bp8_not_spec, bp8_or3_spec, de_morgan_and3]

theorem bp8_de_morgan4 (a b c d : V3) :
    (bp8v_not1 (bp8v_and4 (.ofV3 a) (.ofV3 b) (.ofV3 c) (.ofV3 d))).toV3 =
      (bp8v_or4 (bp8v_not1 (.ofV3 a)) (bp8v_not1 (.ofV3 b)) (bp8v_not1 (.ofV3 c)) (bp8v_not1 (.ofV3 d))).toV3 := by
  have e1 : bp8v_and4 (.ofV3 a) (.ofV3 b) (.ofV3 c) (.ofV3 d) = P3.ofV3 (specAnd [a, b, c, d]) := by
    rw [← bp8_and4_spec]; rfl
  have e2 : ∀ x : V3, bp8v_not1 (.ofV3 x) = P3.ofV3 (specNot x) := fun x => by rw [← bp8_not_spec]; rfl
  rw [e1, e2 a, e2 b, e2 c, e2 d, bp8_not_spec, bp8_or4_spec, de_morgan_and4]

theorem bp8_de_morgan_dual2 (a b : V3) :
    (bp8v_not1 (bp8v_or2 (.ofV3 a) (.ofV3 b))).toV3 =
      (bp8v_and2 (bp8v_not1 (.ofV3 a)) (bp8v_not1 (.ofV3 b))).toV3 := by
  have e1 : bp8v_or2 (.ofV3 a) (.ofV3 b) = P3.ofV3 (specOr [a, b]) := by
    rw [← bp8_or2_spec]; rfl
  have e2 : ∀ x : V3, bp8v_not1 (.ofV3 x) = P3.ofV3 (specNot x) := fun x => by rw [← bp8_not_spec]; rfl
  rw [e1, e2 a, e2 b, bp8_not_spec, bp8_and2_spec, de_morgan_or2]

theorem bp8_de_morgan_dual3 (a b c : V3) :
    (bp8v_not1 (bp8v_or3 (.ofV3 a) (.ofV3 b) (.ofV3 c))).toV3 =
      (bp8v_and3 (bp8v_not1 (.ofV3 a)) (bp8v_not1 (.ofV3 b)) (bp8v_not1 (.ofV3 c))).toV3 := by
  have e1 : bp8v_or3 (.ofV3 a) (.ofV3 b) (.ofV3 c) = P3.ofV3 (specOr [a, b, c]) := by
    rw [← bp8_or3_spec]; rfl
  have e2 : ∀ x : V3, bp8v_not1 (.ofV3 x) = P3.ofV3 (specNot x) := fun x => by rw [← bp8_not_spec]; rfl
  rw [e1, e2 a, e2 b, e2 c, bp8_not_spec, bp8_and3_spec, de_morgan_or3]

/-- the dual form for four operands (audit 2, C12 low item): NOT of OR4 = AND4 of the NOTs, for the real bit-parallel code -/
theorem bp8_de_morgan_dual4 (a b c d : V3) :
    (bp8v_not1 (bp8v_or4 (.ofV3 a) (.ofV3 b) (.ofV3 c) (.ofV3 d))).toV3 =
      (bp8v_and4 (bp8v_not1 (.ofV3 a)) (bp8v_not1 (.ofV3 b)) (bp8v_not1 (.ofV3 c)) (bp8v_not1 (.ofV3 d))).toV3 := by
  have e1 : bp8v_or4 (.ofV3 a) (.ofV3 b) (.ofV3 c) (.ofV3 d) = P3.ofV3 (specOr [a, b, c, d]) := by
    rw [← bp8_or4_spec]; rfl
  have e2 : ∀ x : V3, bp8v_not1 (.ofV3 x) = P3.ofV3 (specNot x) := fun x => by rw [← bp8_not_spec]; rfl
  rw [e1, e2 a, e2 b, e2 c, e2 d, bp8_not_spec, bp8_and4_spec, de_morgan_or4]

/-! ## lane-wise: every lane count `w`, every lane `k < w` -/

theorem bp8v_not_lane (w k : Nat) (hk : k < w) (a : P3 (BitVec w)) :
    (lane w k hk).f3 (bp8v_not1 a) = bp8v_not1 ((lane w k hk).f3 a) := bp8v_not1_hom _ a
theorem bp8v_and2_lane (w k : Nat) (hk : k < w) (a b : P3 (BitVec w)) :
    (lane w k hk).f3 (bp8v_and2 a b) = bp8v_and2 ((lane w k hk).f3 a) ((lane w k hk).f3 b) := bp8v_and2_hom _ a b
theorem bp8v_and3_lane (w k : Nat) (hk : k < w) (a b c : P3 (BitVec w)) :
    (lane w k hk).f3 (bp8v_and3 a b c) =
      bp8v_and3 ((lane w k hk).f3 a) ((lane w k hk).f3 b) ((lane w k hk).f3 c) := bp8v_and3_hom _ a b c
theorem bp8v_and4_lane (w k : Nat) (hk : k < w) (a b c d : P3 (BitVec w)) :
    (lane w k hk).f3 (bp8v_and4 a b c d) =
      bp8v_and4 ((lane w k hk).f3 a) ((lane w k hk).f3 b) ((lane w k hk).f3 c) ((lane w k hk).f3 d) :=
  bp8v_and4_hom _ a b c d
theorem bp8v_or2_lane (w k : Nat) (hk : k < w) (a b : P3 (BitVec w)) :
    (lane w k hk).f3 (bp8v_or2 a b) = bp8v_or2 ((lane w k hk).f3 a) ((lane w k hk).f3 b) := bp8v_or2_hom _ a b
theorem bp8v_or3_lane (w k : Nat) (hk : k < w) (a b c : P3 (BitVec w)) :
    (lane w k hk).f3 (bp8v_or3 a b c) =
      bp8v_or3 ((lane w k hk).f3 a) ((lane w k hk).f3 b) ((lane w k hk).f3 c) := bp8v_or3_hom _ a b c
theorem bp8v_or4_lane (w k : Nat) (hk : k < w) (a b c d : P3 (BitVec w)) :
    (lane w k hk).f3 (bp8v_or4 a b c d) =
      bp8v_or4 ((lane w k hk).f3 a) ((lane w k hk).f3 b) ((lane w k hk).f3 c) ((lane w k hk).f3 d) :=
  bp8v_or4_hom _ a b c d
theorem bp8v_xor2_lane (w k : Nat) (hk : k < w) (a b : P3 (BitVec w)) :
    (lane w k hk).f3 (bp8v_xor2 a b) = bp8v_xor2 ((lane w k hk).f3 a) ((lane w k hk).f3 b) := bp8v_xor2_hom _ a b
theorem bp8v_xor3_lane (w k : Nat) (hk : k < w) (a b c : P3 (BitVec w)) :
    (lane w k hk).f3 (bp8v_xor3 a b c) =
      bp8v_xor3 ((lane w k hk).f3 a) ((lane w k hk).f3 b) ((lane w k hk).f3 c) := bp8v_xor3_hom _ a b c
theorem bp8v_xor4_lane (w k : Nat) (hk : k < w) (a b c d : P3 (BitVec w)) :
    (lane w k hk).f3 (bp8v_xor4 a b c d) =
      bp8v_xor4 ((lane w k hk).f3 a) ((lane w k hk).f3 b) ((lane w k hk).f3 c) ((lane w k hk).f3 d) :=
  bp8v_xor4_hom _ a b c d
theorem bp4v_not_lane (w k : Nat) (hk : k < w) (a : P2 (BitVec w)) :
    (lane w k hk).f2 (bp4v_not1 a) = bp4v_not1 ((lane w k hk).f2 a) := bp4v_not1_hom _ a
theorem bp4v_and2_lane (w k : Nat) (hk : k < w) (a b : P2 (BitVec w)) :
    (lane w k hk).f2 (bp4v_and2 a b) = bp4v_and2 ((lane w k hk).f2 a) ((lane w k hk).f2 b) := bp4v_and2_hom _ a b
theorem bp4v_and3_lane (w k : Nat) (hk : k < w) (a b c : P2 (BitVec w)) :
    (lane w k hk).f2 (bp4v_and3 a b c) =
      bp4v_and3 ((lane w k hk).f2 a) ((lane w k hk).f2 b) ((lane w k hk).f2 c) := bp4v_and3_hom _ a b c
theorem bp4v_and4_lane (w k : Nat) (hk : k < w) (a b c d : P2 (BitVec w)) :
    (lane w k hk).f2 (bp4v_and4 a b c d) =
      bp4v_and4 ((lane w k hk).f2 a) ((lane w k hk).f2 b) ((lane w k hk).f2 c) ((lane w k hk).f2 d) :=
  bp4v_and4_hom _ a b c d
theorem bp4v_or2_lane (w k : Nat) (hk : k < w) (a b : P2 (BitVec w)) :
    (lane w k hk).f2 (bp4v_or2 a b) = bp4v_or2 ((lane w k hk).f2 a) ((lane w k hk).f2 b) := bp4v_or2_hom _ a b
theorem bp4v_or3_lane (w k : Nat) (hk : k < w) (a b c : P2 (BitVec w)) :
    (lane w k hk).f2 (bp4v_or3 a b c) =
      bp4v_or3 ((lane w k hk).f2 a) ((lane w k hk).f2 b) ((lane w k hk).f2 c) := bp4v_or3_hom _ a b c
theorem bp4v_or4_lane (w k : Nat) (hk : k < w) (a b c d : P2 (BitVec w)) :
    (lane w k hk).f2 (bp4v_or4 a b c d) =
      bp4v_or4 ((lane w k hk).f2 a) ((lane w k hk).f2 b) ((lane w k hk).f2 c) ((lane w k hk).f2 d) :=
  bp4v_or4_hom _ a b c d
theorem bp4v_xor2_lane (w k : Nat) (hk : k < w) (a b : P2 (BitVec w)) :
    (lane w k hk).f2 (bp4v_xor2 a b) = bp4v_xor2 ((lane w k hk).f2 a) ((lane w k hk).f2 b) := bp4v_xor2_hom _ a b
theorem bp4v_xor3_lane (w k : Nat) (hk : k < w) (a b c : P2 (BitVec w)) :
    (lane w k hk).f2 (bp4v_xor3 a b c) =
      bp4v_xor3 ((lane w k hk).f2 a) ((lane w k hk).f2 b) ((lane w k hk).f2 c) := bp4v_xor3_hom _ a b c
theorem bp4v_xor4_lane (w k : Nat) (hk : k < w) (a b c d : P2 (BitVec w)) :
    (lane w k hk).f2 (bp4v_xor4 a b c d) =
      bp4v_xor4 ((lane w k hk).f2 a) ((lane w k hk).f2 b) ((lane w k hk).f2 c) ((lane w k hk).f2 d) :=
  bp4v_xor4_hom _ a b c d

/-- non-vacuity: a concrete 5-lane instance (lane count not a multiple of 8) -/
example : (lane 5 3 (by decide)).f3 (bp8v_and2 ⟨0b01011#5, 0b01001#5, 0b00100#5⟩ ⟨0b11111#5, 0b11111#5, 0#5⟩)
    = (⟨true, true, false⟩ : P3 Bool) := by decide

end KV.C12
