import KyupyVerif.Proofs.TechFun
/-! # C19 (continued) — datasheet function of every listed family except the adders

See Props/C19.lean for what is generated, specified and proved. -/
namespace KV.C19
open KV KV.TL KV.DS KV.Sig

/-- `family_function` for every listed family except the half/full adders: the cell is purely combinational, its
    pins fit the family, and on EVERY input row the real op program, run with the LUT semantics from the state
    "input k in its (P)PI slot, everything else 0", leaves the datasheet value on the line captured for each output. -/
theorem family_function_except_adders {c : Cell} (hc : c ∈ Tech.cells) {name : Str} (hn : name ∈ c.names)
    {fam : Fam} (hf : classify (baseName name) = some fam) (hna : fam.isAdder = false) :
    c.nSeq = 0 ∧ ∃ fs, datasheet fam c.inNames c.outNames = some fs ∧ fs.length = c.outLines.length ∧
      ∀ k (hk : k < c.outLines.length) (hf : k < fs.length) (vals : List Bool), vals.length = c.inNames.length →
        exec lutSem c.prog (c.env vals) (c.outLines[k]).2 = fs[k] vals :=
  funOK_sound (all_chunks Tech.gates_all hc) hn hf (by simp [hna])

/-- the checker is not trivially true: exchanging the data pins of a multiplexer fails -/
example : famOK
    { lib := 0, tmpl := c!"MX2X1", names := [c!"MX2X1"], nSeq := 0,
      pins := [(c!"A", 0, false), (c!"B", 1, false), (c!"S0", 2, false), (c!"Y", 0, true)],
      ports := [(c!"A", false, 10), (c!"B", false, 11), (c!"S0", false, 12), (c!"Y", true, 0)],
      ops := [[43690, 1, 10, 6, 6, 6], [43690, 2, 11, 6, 6, 6], [43690, 3, 12, 6, 6, 6], [51914, 0, 2, 1, 3, 6]] }
    (.mux 2) = false := by decide +kernel
end KV.C19
