import KyupyVerif.Proofs.Encode
import KyupyVerif.Proofs.EncodeNested
/-! # C15 — logic-value encodings convert losslessly and follow the axis convention (model level)

Statements about the hand-written executable model `Model/Encode.lean` (`KV.Enc`), for **every** leading shape,
pattern count `P`, signal count, bit width `w > 0` and signedness.  An array is `Arr`: `lead` (all axes but the
last), `last` (length of the last axis), `rows` (`lead.prod` last-axis vectors in C order); `wf` says exactly that.

* THEOREM (this file): round trip `bp_to_mv ∘ mv_to_bp`, plane/byte/bit layout, axis arrangement of `mvarray` for a flat list of
  strings (`axes`, …) AND for arguments nested two deep (`mvarray_nested`, `mvarray_nested_block`: groups = new first axis, each
  group arranged as the flat call; audit 2 finding 9), `packbits`/`unpackbits` inverse laws, `cdiv`.  Depth 3 (and the corner
  cases of depth 2: one-string groups, one-character strings, empty and ragged nestings) is MODELLED (`mvarray3`, `stack`,
  `arrange`) and TIED (`enc.mvarrayn`), not stated as a general theorem.  `mv_str` of an array with more than two axes raises
  TypeError in the real code (model `mvStr = none`): rendering is lossless for ≤ 2-D only — recorded as restriction, see harness.
* THEOREM over GENERATED tables (`Props/C15Gen.lean`): render/parse of the eight values, aliases, `mv_str ∘ mvarray`,
  `popcount`, `bit_in`.
* THEOREM, composition with C01/C02/C06 (`Props/C15Sim.lean`): the byte planes of `mv_to_bp` ARE the `BitVec` lanes of the bit-parallel
  simulation theorems; pattern strings → `LogicSim` (m = 2, 4, 8; any `P`) → result strings, `cycle(k)` on bytes.
* CORRESPONDENCE (harness/c15.py): the model functions used here equal the real kyupy functions on random inputs
  (driver commands `enc.*`).  NumPy itself is exercised, not modelled.
* ORACLE (harness/c15.py): the same statements evaluated on the real functions. -/
namespace KV.C15
open KV.Enc

/-! ## mv_to_bp / bp_to_mv -/

/-- shape of `mv_to_bp`: a plane axis of length 3 is inserted before the last axis, which shrinks to
`cdiv P 8` bytes; the result is well-formed. (`a.lead ≠ []`: at least two axes; 1-D see `bp_mv_roundtrip_1d`.) -/
theorem mv_to_bp_shape (a : Arr Nat) (hwf : a.wf = true) (hl : a.lead ≠ []) :
    (mvToBp a).lead = a.lead ++ [3] ∧ (mvToBp a).last = cdiv a.last 8 ∧ (mvToBp a).wf = true := by
  obtain ⟨hlen, _⟩ := (wf_iff a).mp hwf
  refine ⟨by simp [mvToBp, hl], by simp [mvToBp, hl], ?_⟩
  rw [wf_iff]
  simp only [mvToBp, hl, if_false]
  constructor
  · have : ∀ rows : List (List Nat), (rows.flatMap (mvToBpRow (cdiv a.last 8))).length = rows.length * 3 := by
      intro rows; induction rows with
      | nil => rfl
      | cons r rs ih => simp only [List.flatMap_cons, List.length_append, ih, mvToBpRow_length, List.length_cons]; omega
    rw [this, hlen]; simp [List.prod_append]
  · intro r hr
    simp only [List.mem_flatMap, mvToBpRow, List.mem_map] at hr
    obtain ⟨_, _, _, _, rfl⟩ := hr
    simp

/-- **round trip, every shape with ≥ 2 axes and every pattern count `P = a.last`**: `bp_to_mv (mv_to_bp a)` has the
leading shape of `a`, last axis `8 * cdiv P 8`, and each row is the row of `a` masked to three bits followed by
zeros in the padding lanes. -/
theorem bp_mv_roundtrip (a : Arr Nat) (hwf : a.wf = true) (hl : a.lead ≠ []) :
    bpToMv (mvToBp a) = some ⟨a.lead, 8 * cdiv a.last 8,
      a.rows.map fun r => r.map (· &&& 7) ++ List.replicate (8 * cdiv a.last 8 - a.last) 0⟩ :=
  roundtrip_nd a hwf hl

/-- restricted to the first `P` patterns the round trip is `a &&& 7` -/
theorem bp_mv_roundtrip_first (a : Arr Nat) (hwf : a.wf = true) (hl : a.lead ≠ []) :
    ∃ b, bpToMv (mvToBp a) = some b ∧ b.lead = a.lead ∧ a.last ≤ b.last ∧
      b.rows.map (·.take a.last) = a.rows.map (·.map (· &&& 7)) := by
  obtain ⟨_, hrow⟩ := (wf_iff a).mp hwf
  refine ⟨_, bp_mv_roundtrip a hwf hl, rfl, cdiv8_ge a.last, ?_⟩
  simp only [List.map_map]
  apply List.map_congr_left
  intro r hr
  simp only [Function.comp]
  rw [List.take_left' (by simp [hrow r hr])]

/-- the padding lanes `P .. 8*cdiv P 8 - 1` read 0 -/
theorem bp_mv_padding_zero (a : Arr Nat) (hwf : a.wf = true) (hl : a.lead ≠ []) :
    ∃ b, bpToMv (mvToBp a) = some b ∧ b.last = 8 * cdiv a.last 8 ∧
      ∀ r ∈ b.rows, ∀ x ∈ r.drop a.last, x = 0 := by
  obtain ⟨_, hrow⟩ := (wf_iff a).mp hwf
  refine ⟨_, bp_mv_roundtrip a hwf hl, rfl, ?_⟩
  intro r hr x hx
  simp only [List.mem_map] at hr
  obtain ⟨r0, hr0, rfl⟩ := hr
  rw [List.drop_left' (by simp [hrow r0 hr0])] at hx
  exact (List.mem_replicate.mp hx).2

/-- 1-D input (`S` signals, one pattern: `mva[..., np.newaxis]`): result `[S][8]`, lane 0 = value masked -/
theorem bp_mv_roundtrip_1d (v : List Nat) :
    bpToMv (mvToBp ⟨[], v.length, [v]⟩) = some ⟨[v.length], 8, v.map fun x => [x &&& 7, 0, 0, 0, 0, 0, 0, 0]⟩ := by
  have h : mvToBp ⟨[], v.length, [v]⟩ = mvToBp ⟨[v.length], 1, v.map ([·])⟩ := by simp [mvToBp]
  have hwf : (⟨[v.length], 1, v.map ([·])⟩ : Arr Nat).wf = true := by simp [wf_iff]
  rw [h, bp_mv_roundtrip _ hwf (by simp)]
  simp [cdiv, List.replicate]

/-- **layout**: in `mv_to_bp` of a row of `P` values, bit `p % 8` (least significant first) of byte `p / 8` of
plane `b` is bit `b` of pattern `p`; lanes `p ≥ P` of the last byte are 0. -/
theorem bp_layout (row : List Nat) (b p : Nat) (hb : b < 3) (hp : p < 8 * cdiv row.length 8) :
    (((mvToBpRow (cdiv row.length 8) row).getD b []).getD (p / 8) 0 / 2 ^ (p % 8) % 2 == 1)
      = (decide (p < row.length) && (row.getD p 0 / 2 ^ b % 2 == 1)) :=
  plane_bit row b p hb hp

/-- `kyupy.cdiv` is the ceiling of the quotient (number of bytes for `P` patterns: `cdiv P 8`) -/
theorem cdiv_spec (x y : Nat) (hy : 0 < y) : x ≤ cdiv x y * y ∧ cdiv x y * y < x + y := cdiv_ceil x y hy

/-! ## mvarray: axis arrangement -/

/-- **axes**: for `P ≥ 2` pattern strings of common length `S ≠ 1`, `mvarray s₀ … s_{P-1}` is the 2-D array of
shape `(S, P)` — signals on the second-to-last axis, patterns on the last — whose entry `[sig][pat]` is
`interpret s_pat[sig]`. -/
theorem axes (tbl : List (Nat × Nat)) (ss : List (List Nat)) (S : Nat)
    (hu : ∀ s ∈ ss, s.length = S) (hP : 2 ≤ ss.length) (hS : S ≠ 1) :
    ∃ a, mvarray tbl ss = some a ∧ a.lead = [S] ∧ a.last = ss.length ∧ a.wf = true ∧
      ∀ sig pat c : Nat, ss[pat]?.bind (·[sig]?) = some c → a.rows[sig]?.bind (·[pat]?) = some (interpretWith tbl c) := by
  refine ⟨_, mvarray_2d tbl ss S hu hP hS, rfl, rfl, ?_, fun sig pat c hc => mvarray_entry tbl ss S hu sig pat c hc⟩
  simp [wf_iff]

/-- one pattern string: 1-D array along the signals (`mva[..., 0, :]`) -/
theorem axes_single_pattern (tbl : List (Nat × Nat)) (s : List Nat) :
    mvarray tbl [s] = some ⟨[], s.length, [s.map (interpretWith tbl)]⟩ := mvarray_single tbl s

/-- one-character strings are scalars for `interpret`: `P` of them give a 1-D array of length `P` (the reading
`mvarray(1, 0, 1)` = one vector fixed by tests/test_logic.py), NOT shape `(1, P)`. -/
theorem axes_one_signal (tbl : List (Nat × Nat)) (ss : List (List Nat)) (hne : ss ≠ [])
    (hu : ∀ s ∈ ss, s.length = 1) :
    mvarray tbl ss = some ⟨[], ss.length, [ss.map fun s => interpretWith tbl (s.headD 0)]⟩ :=
  mvarray_one_signal tbl ss hne hu

/-- guard: strings of different lengths raise (`np.array` on a ragged list) -/
theorem mvarray_ragged_raises (tbl : List (Nat × Nat)) (s0 : List Nat) (rest : List (List Nat))
    (h : ∃ s ∈ rest, s.length ≠ s0.length) : mvarray tbl (s0 :: rest) = none := mvarray_ragged tbl s0 rest h

/-! ## mvarray with nested arguments (audit 2, finding 9) -/

/-- **nested arguments, depth 2** — `mvarray(['01','1X'], ['--','HL'])`: `G ≥ 1` groups (the arguments), each a list of `P ≥ 2`
pattern strings of common length `S ≠ 1`. The result has shape `(G, S, P)`: the groups form a new FIRST (batch) axis, and inside
group `g` the `(S, P)` block holds, at `(sig, pat)`, the interpreted character `sig` of string `pat` — signals second-to-last,
patterns last, exactly as the flat call arranges that group (`axes`). Model: `mvarray2` = `np.array(interpret(a))` (`stack`,
homogeneous nesting or ValueError) followed by the three lines of `mvarray` (`arrange`); tied by `enc.mvarrayn` for depth 1, 2, 3
(incl. one-string groups → `mva[..., 0, :]`, one-character strings, ragged and empty nestings). -/
theorem mvarray_nested (tbl : List (Nat × Nat)) (gs : List (List (List Nat))) (P S : Nat) (hne : gs ≠ [])
    (hP : ∀ g ∈ gs, g.length = P) (hS : ∀ g ∈ gs, ∀ s ∈ g, s.length = S) (hP2 : 2 ≤ P) (hS1 : S ≠ 1) :
    mvarray2 tbl gs = some ⟨[gs.length, S, P],
      gs.flatMap fun g => (List.range S).flatMap fun sig => g.map fun s => interpretWith tbl (s.getD sig 0)⟩ :=
  mvarray2_spec tbl gs P S hne hP hS hP2 hS1

/-- … and each group's block IS the flat `mvarray` of that group (rows = signals, C order) -/
theorem mvarray_nested_block (tbl : List (Nat × Nat)) (g : List (List Nat)) (S : Nat)
    (hS : ∀ s ∈ g, s.length = S) (hP2 : 2 ≤ g.length) (hS1 : S ≠ 1) :
    (mvarray tbl g).map (·.data) =
      some ((List.range S).flatMap fun sig => g.map fun s => interpretWith tbl (s.getD sig 0)) := by
  rw [mvarray_2d tbl g S hS hP2 hS1]
  simp only [Option.map_some, Arr.data, Option.some.injEq]
  rw [← List.flatMap_def]
  apply flatMap_congr'
  intro j hj
  have hj' := List.mem_range.1 hj
  rw [List.map_map]
  apply List.map_congr_left
  intro s hs
  have := hS s hs
  simp only [Function.comp, List.getD_eq_getElem?_getD, List.getElem?_map]
  rw [List.getElem?_eq_getElem (by omega)]
  simp

/-- hypotheses satisfiable; the auditor's example `mvarray(['01X','10-'],['11R','00F'])` has shape (2,3,2) (real code: same data);
depth 3 (`mvarray3`, no general theorem — tie only): shape (2,2,2,2); one-string groups: `mva[..., 0, :]`; ragged: ValueError -/
example : mvarray2 [(48, 0), (49, 3), (88, 1), (45, 2), (82, 5), (70, 6)] [[[48,49,88],[49,48,45]], [[49,49,82],[48,48,70]]]
    = some ⟨[2, 3, 2], [0, 3, 3, 0, 1, 2, 3, 0, 3, 0, 5, 6]⟩ := by decide +kernel
example : mvarray3 [(48, 0), (49, 3)] [[[[48,49],[49,49]], [[48,48],[49,48]]], [[[48,48],[49,49]], [[49,49],[48,48]]]]
    = some ⟨[2, 2, 2, 2], [0, 3, 3, 3, 0, 3, 0, 0, 0, 3, 0, 3, 3, 0, 3, 0]⟩ := by decide +kernel
example : mvarray2 [(48, 0), (49, 3)] [[[48,49,49]], [[49,49,48]]] = some ⟨[2, 3], [0, 3, 3, 3, 3, 0]⟩
    ∧ mvarray2 [(48, 0), (49, 3)] [[[48,49],[49,49]], [[48,48]]] = none
    ∧ mvarrayN1 [(48, 0), (49, 3)] [[48, 49, 88], [49, 49, 48]] = some ⟨[3, 2], [0, 3, 3, 3, 1, 0]⟩ := by decide +kernel

/-! ## packbits / unpackbits: every width `w > 0`, signed and unsigned -/

/-- the value range of a `w`-bit dtype -/
def inRange (w : Nat) (signed : Bool) (x : Int) : Prop :=
  if signed then -((2 ^ (w - 1) : Nat) : Int) ≤ x ∧ x < ((2 ^ (w - 1) : Nat) : Int)
  else 0 ≤ x ∧ x < ((2 ^ w : Nat) : Int)

instance (w : Nat) (signed : Bool) (x : Int) : Decidable (inRange w signed x) := by
  unfold inRange; exact inferInstance

theorem bits_back (bs : List Bool) : (bs.map fun b => if b then (1 : Int) else 0).map (· != 0) = bs := by
  induction bs with
  | nil => rfl
  | cons b bs ih => cases b <;> simp_all

/-- **pack ∘ unpack = id** for every array shape (incl. 0-d), every width and signedness, on the dtype's range -/
theorem pack_unpack (w : Nat) (signed : Bool) (hw : 0 < w) (f : Flat Int) (h : ∀ x ∈ f.data, inRange w signed x) :
    packbits w signed (unpackbits w f) = some f := by
  have hw' : (w == 0) = false := by simp; omega
  simp only [packbits, unpackbits, hw', Bool.and_false, Bool.false_eq_true, if_false, List.map_map]
  congr 1
  cases f with
  | mk shape data =>
    simp only [Flat.mk.injEq, true_and]
    conv => rhs; rw [← List.map_id data]
    apply List.map_congr_left
    intro x hx
    have hr := h x hx
    simp only [Function.comp, bits_back, id]
    cases signed with
    | false =>
      simp only [inRange, Bool.false_eq_true, if_false] at hr
      exact packElem_unpackElem_u w x hr.1 hr.2
    | true =>
      simp only [inRange, if_true] at hr
      exact packElem_unpackElem_s w x hw hr.1 hr.2

/-- the bit with which `packbits` pads a short last axis: the last given bit for signed dtypes ('edge'), else 0 -/
def fillOf (w : Nat) (signed : Bool) (bs : List Bool) : Bool := if signed then (bs.take w).getLastD false else false

/-- **unpack ∘ pack** = the bits (non-zero ↦ 1) truncated to `w` resp. padded to `w` as documented; shape
`lead ++ [w]`.  (`packbits` raises for a signed dtype on an empty last axis.) -/
theorem unpack_pack (w : Nat) (signed : Bool) (a : Arr Int) (hne : signed = true → a.last ≠ 0) :
    (packbits w signed a).map (unpackbits w) = some ⟨a.lead, w, a.rows.map fun r =>
      (padTo w (fillOf w signed (r.map (· != 0))) (r.map (· != 0))).map fun b => if b then 1 else 0⟩ := by
  have hc : (signed && a.last == 0) = false := by
    cases signed with
    | false => rfl
    | true => simpa using hne rfl
  simp only [packbits, hc, Bool.false_eq_true, if_false, Option.map_some, unpackbits, List.map_map]
  congr 2
  apply List.map_congr_left
  intro r _
  simp only [Function.comp, fillOf]
  cases signed with
  | false => simp only [Bool.false_eq_true, if_false, unpackElem_packElem_u]
  | true => simp only [if_true, unpackElem_packElem_s]

/-- guard: signed dtype and empty last axis raises (`np.pad(…, 'edge')`) -/
theorem pack_signed_empty_raises (w : Nat) (a : Arr Int) (h : a.last = 0) : packbits w true a = none := by
  simp [packbits, h]

/-! ## non-vacuity: a 3-D shape `(2, 2, 13)` (13 patterns, not a multiple of 8), widths 8 and 64 -/
def ex3d : Arr Nat := ⟨[2, 2], 13,
  [[0, 1, 2, 3, 4, 5, 6, 7, 7, 6, 5, 4, 3], [3, 3, 3, 0, 0, 0, 9, 255, 1, 2, 4, 0, 7],
   [7, 7, 7, 7, 7, 7, 7, 7, 7, 7, 7, 7, 7], [0, 0, 0, 0, 0, 0, 0, 0, 0, 0, 0, 0, 1]]⟩
example : ex3d.wf = true ∧ ex3d.lead ≠ [] := by decide
example : (mvToBp ex3d).shape = [2, 2, 3, 2] := by decide +kernel
example : (mvToBp ex3d).rows.take 3 = [[0b10101010, 0b10101], [0b11001100, 0b10011], [0b11110000, 0b01111]] := by
  decide +kernel
example : (bpToMv (mvToBp ex3d)).map (·.rows.getD 1 []) = some [3, 3, 3, 0, 0, 0, 1, 7, 1, 2, 4, 0, 7, 0, 0, 0] := by
  decide +kernel
example : mvarray [(48, 0), (49, 3)] [[48, 49, 88], [49, 49, 48]] = some ⟨[3], 2, [[0, 3], [3, 3], [1, 0]]⟩ := by
  decide +kernel
example : inRange 8 true (-128) ∧ inRange 64 false 18446744073709551615 := by decide
example : packbits 64 true (unpackbits 64 ⟨[], [-9223372036854775808]⟩) = some ⟨[], [-9223372036854775808]⟩ := by
  decide +kernel
example : packbits 8 true ⟨[1], 3, [[1, 0, 5]]⟩ = some ⟨[1], [-3]⟩ := by decide +kernel

end KV.C15
