import KyupyVerif.Props.C10
import KyupyVerif.Proofs.ImplDatasheet2
/-! # C10 (continued) — composition with C19: resolved library cells carry their DATASHEET function

`C10.resolve_sem` (Props/C10.lean) gives every library cell of a circuit the RELATIONAL meaning of its implementation circuit
(`ImplMatches`: there is a consistent labelling of the implementation whose ports carry the values at the instance's pins).
C19 (`family_function`) proves, on the generated tables of the five built-in libraries, that the REAL `SimOps` program of every
implementation of a listed family computes the datasheet function.  This file composes them.

* **Glue (theorem, Proofs/ImplDatasheet.lean, ImplDatasheet2.lean), any netlist:** for a well-formed implementation netlist with a
  topological order in which every line is written by a row (acyclic, known kinds: `wfB`, `orderOKB`, `forksOKB`,
  `linesDrivenB`), the node-indexed consistent labellings `ConsN` of C10 exist and are unique: they are the result of the
  `SimOps` program (`consN_exec`, `consN_unique`, from `C01.all_circuits_solution` via `solves_iff_consistent`).  Hence, for an
  instance with all input pins connected (`pinsFitB`) of a cell whose table row describes that netlist (`describesB`: op rows =
  `genOps` rows, port list = `io_nodes` with names, driven flags, (P)PI slots / captured lines, no state element, distinct
  ports — i.e. the row IS `dump_techlib.describe` of the netlist), `ImplMatches` ⇔ "every connected output pin `k` carries
  `fs[k]` of the values on the input pins" (`implMatches_iff_datasheet`), `fs` = `DS.datasheet` of the row's family and pins,
  which C19's kernel evaluation over ALL rows of the tables (`Tech.gates_all`, `Tech.adders`) identifies with the program.
* **`resolve_datasheet_sem` (this file):** for every well-formed circuit, every library `lib` and result `h'` of
  `resolve_tlib_cells` under `resolveOKB` (as `resolve_sem`), if every library-cell instance has the certificate `InstCert`,
  then the consistent 2-valued labellings of `h'` are EXACTLY the labellings of the original circuit that are consistent outside
  the library cells and give each instance its datasheet function (`CellDatasheet`): (1) restriction, (2) extension.
* **`resolve_datasheet_sem_general`** (audit finding 6): the same along the index maps of `resolve_sem_general` under `resolveGenOKB`
  (substitutions may remove lines, instances, dangling logic; host `wfNoTrail`) — the hypothesis `resolveOKB` of the first form holds
  on few generated cases, the general form raises the coverage (tags `ds-hyp:covered` / `ds-hyp:covered-general`).
* **Which cells are covered:** `InstCert` is decidable clause by clause; the harness (harness/c10.py, stream `ds-cert`, driver
  `dscell` + `netcert` + `netspeccert`) evaluates the cell-level clauses for every key of the five libraries on every run:
  all 656 keys of the listed families (AND/OR/NAND/NOR/XOR/XNOR, buffers, inverters, AO/OA/AOI/OAI, multiplexers, half/full
  adders) pass; the 293 keys outside the listed families (sequential, tri-state, isolation, clock gating, decoders, ties, …) and
  the 77 cells without any line (fillers, antennas, …) are not covered.  The instance-level clause `pinsFitB` (all input pins
  connected, as many as input ports) is evaluated on every generated `resolve` case (tag `ds-hyp`).
* **Not theorem:** that the netlist dump handed to the model is the implementation circuit whose `SimOps` rows were dumped into
  the tables — this is exactly `describesB`, evaluated (not proved) per cell against the real library objects; that the real
  `resolve_tlib_cells` is `resolveCells` (exact correspondence, harness/c10.py). -/
namespace KV.C10
open KV KV.Transform KV.TL KV.DS

/-- **resolve_datasheet_sem.** `resolve_tlib_cells` when every substitution removes nothing (`resolveOKB`) and every library-cell
    instance is certified (`InstCert`: combinational cell of a listed family, implementation acyclic and described by its row
    of the generated library tables, all input pins connected): the result is well-formed with the same ports, and
    **(1)** every consistent 2-valued labelling `v'` of the result is, on the original lines, consistent for the original circuit
    outside the library cells, and every connected output pin `k` of every library-cell instance carries
    `datasheet family pins [k] (values on the instance's input pins)` (`CellDatasheet`);
    **(2)** conversely every labelling of the original circuit that is consistent outside the library cells and gives every
    instance its datasheet function extends to a consistent labelling of the result (same values on the original lines, same
    assignment on the other nodes). -/
theorem resolve_datasheet_sem (lib : Lib) (row : String → Cell) (ord : String → List Nat) (h h' : NNet)
    (hw : h.wf = true) (hok : resolveOKB lib h.keys h = true) (he : resolveCells lib h = some h')
    (hcert : ∀ c, c < h.net.nodes.size → (lib.find (h.net.node c).kind).isSome = true → InstCert lib row ord h c) :
    h'.wf = true ∧ h'.net.io = h.net.io ∧
    (∀ an' v' : Nat → Bool, ConsOff h' (fun _ => False) false (!·) prim2 an' v' →
      ConsOff h (fun x => x < h.net.nodes.size ∧ (lib.find (h.net.node x).kind).isSome = true) false (!·) prim2 an' v' ∧
      ∀ c, c < h.net.nodes.size → (lib.find (h.net.node c).kind).isSome = true → CellDatasheet row h c v') ∧
    (∀ an v : Nat → Bool,
      ConsOff h (fun x => x < h.net.nodes.size ∧ (lib.find (h.net.node x).kind).isSome = true) false (!·) prim2 an v →
      (∀ c, c < h.net.nodes.size → (lib.find (h.net.node c).kind).isSome = true → CellDatasheet row h c v) →
      ∃ an' v', ConsOff h' (fun _ => False) false (!·) prim2 an' v' ∧ (∀ l, l < h.net.lines.size → v' l = v l) ∧
        (∀ d, d < h.net.nodes.size → (lib.find (h.net.node d).kind).isSome = false → an' d = an d)) := by
  obtain ⟨r1, r2, _, _, _, _, fw, bw⟩ := resolve_sem lib h h' hw hok he false (!·) prim2
  refine ⟨r1, r2, ?_, ?_⟩
  · intro an' v' hc
    obtain ⟨g1, g2⟩ := fw an' v' hc
    exact ⟨g1, fun c hc1 hc2 => (cell_datasheet_iff (hcert c hc1 hc2) v').mp (g2 c hc1 hc2)⟩
  · intro an v hc hds
    exact bw an v hc (fun c hc1 hc2 => (cell_datasheet_iff (hcert c hc1 hc2) v).mpr (hds c hc1 hc2))

/-- **resolve_datasheet_sem, general form** (audit finding 6: the first form needs `resolveOKB`, which few real cases satisfy).
    `resolve_tlib_cells` through substitutions that may REMOVE lines, instances and dangling logic (`resolveGenOKB`, as
    `resolve_sem_general`; host well-formed up to trailing `None`s), every library-cell instance certified (`InstCert`): along
    the index maps `ρ` of `resolve_sem_general`, **(1)** every consistent 2-valued labelling of the result is the restriction of a
    labelling of the WHOLE original circuit that is consistent outside the library cells and gives every instance its
    datasheet function (`CellDatasheet`: every connected output pin `k` carries `datasheet family pins [k]` of the values on the
    input pins); **(2)** conversely every such labelling of the original circuit restricts/extends to a consistent labelling of
    the result.  The success of the model (`resolveCells … = some h'`) is CONTAINED in `resolveGenOKB` by its definition (it runs
    `substitute` along the loop; `resolveGenOKB_unfold`, Props/C10Library.lean) and is kept as a hypothesis only to name `h'`. -/
theorem resolve_datasheet_sem_general (lib : Lib) (row : String → Cell) (ord : String → List Nat) (h h' : NNet)
    (hw : h.wfNoTrail = true) (hok : resolveGenOKB lib h.keys h = true) (he : resolveCells lib h = some h')
    (hcert : ∀ c, c < h.net.nodes.size → (lib.find (h.net.node c).kind).isSome = true → InstCert lib row ord h c) :
    h'.wfNoTrail = true ∧ ∃ ρ : Ren,
      h'.net.io.map ρ.node = h.net.io ∧
      (∀ d, d < h.net.nodes.size → (lib.find (h.net.node d).kind).isSome = false →
        ∃ j, j < h'.net.nodes.size ∧ ρ.node j = d ∧ (h'.net.node j).kind = (h.net.node d).kind ∧
          h'.names.getD j "" = h.names.getD d "" ∧ ∀ k, ((h'.net.node j).inPin k).map ρ.line = (h.net.node d).inPin k) ∧
      (∀ an' v' : Nat → Bool, ConsOff h' (fun _ => False) false (!·) prim2 an' v' →
        ∃ an v, ConsOff h (fun x => x < h.net.nodes.size ∧ (lib.find (h.net.node x).kind).isSome = true) false (!·) prim2 an v ∧
          (∀ c, c < h.net.nodes.size → (lib.find (h.net.node c).kind).isSome = true → CellDatasheet row h c v) ∧
          (∀ l', l' < h'.net.lines.size → ρ.line l' < h.net.lines.size → v (ρ.line l') = v' l') ∧
          (∀ j, j < h'.net.nodes.size → ρ.node j < h.net.nodes.size → an (ρ.node j) = an' j)) ∧
      (∀ an v : Nat → Bool,
        ConsOff h (fun x => x < h.net.nodes.size ∧ (lib.find (h.net.node x).kind).isSome = true) false (!·) prim2 an v →
        (∀ c, c < h.net.nodes.size → (lib.find (h.net.node c).kind).isSome = true → CellDatasheet row h c v) →
        ∃ an' v', ConsOff h' (fun _ => False) false (!·) prim2 an' v' ∧
          (∀ l', l' < h'.net.lines.size → ρ.line l' < h.net.lines.size → v' l' = v (ρ.line l')) ∧
          (∀ j, j < h'.net.nodes.size → ρ.node j < h.net.nodes.size → an' j = an (ρ.node j))) := by
  obtain ⟨r1, ρ, r2, _, _, r5, fw, bw⟩ := resolve_sem_general lib h h' hw hok he false (!·) prim2
  refine ⟨r1, ρ, r2, r5, ?_, ?_⟩
  · intro an' v' hc
    obtain ⟨an, v, g1, g2, g3, g4⟩ := fw an' v' hc
    exact ⟨an, v, g1, fun c hc1 hc2 => (cell_datasheet_iff (hcert c hc1 hc2) v).mp (g2 c hc1 hc2), g3, g4⟩
  · intro an v hc hds
    exact bw an v hc (fun c hc1 hc2 => (cell_datasheet_iff (hcert c hc1 hc2) v).mpr (hds c hc1 hc2))

/-! ## non-vacuity: the multiplexer `MX2X1` of GSC180 (pins `A`, `B`, `S0` → `Y`; the select pin is found by NAME)

`dsMux` is the canonical dump of the real implementation circuit `GSC180.cells['MX2X1'][0]` (bench style: port forks `A`, `B`,
`S0`, `Y` and the cell `Y = MUX21(A, B, S0)`), `dsOrder` its real topological order, `dsRow` the row of the generated tables
(chunk 0, row 15); `dsHost` instantiates it between three inputs and an output. -/
deriving instance DecidableEq for NodeD
deriving instance DecidableEq for Net
deriving instance DecidableEq for NNet
deriving instance DecidableEq for Shape

def dsMux : NNet :=
  { net := { nodes := #[⟨"__fork__", [], [some 1]⟩, ⟨"__fork__", [], [some 2]⟩, ⟨"__fork__", [], [some 3]⟩,
                        ⟨"__fork__", [some 0], []⟩, ⟨"MUX21", [some 1, some 2, some 3], [some 0]⟩],
             lines := #[⟨4, 0, 3, 0⟩, ⟨0, 0, 4, 0⟩, ⟨1, 0, 4, 1⟩, ⟨2, 0, 4, 2⟩], io := [0, 1, 2, 3] },
    names := #["A", "B", "S0", "Y", "Y"] }
def dsOrder : List Nat := [0, 1, 2, 4, 3]
def dsHost : NNet :=
  { net := { nodes := #[⟨"input", [], [some 0]⟩, ⟨"input", [], [some 1]⟩, ⟨"input", [], [some 2]⟩,
                        ⟨"MX2X1", [some 0, some 1, some 2], [some 3]⟩, ⟨"output", [some 3], []⟩],
             lines := #[⟨0, 0, 3, 0⟩, ⟨1, 0, 3, 1⟩, ⟨2, 0, 3, 2⟩, ⟨3, 0, 4, 0⟩], io := [0, 1, 2, 4] },
    names := #["a", "b", "s", "u1", "z"] }
def dsLib : Lib := [("MX2X1", dsMux)]
def dsRow : Cell := Gen.techChunk0[15]'(by decide)

example : dsRow.tmpl = c!"MX2X1" ∧ dsRow.inNames = [c!"A", c!"B", c!"S0"] ∧ dsRow.outNames = [c!"Y"] := by decide +kernel

theorem dsRow_mem : dsRow ∈ Tech.cells :=
  List.mem_flatten.mpr ⟨Gen.techChunk0, by rw [Tech.chunks_eq]; exact List.mem_cons_self, List.getElem_mem _⟩

/-- the certificate of the instance `u1` (node 3): every clause by kernel evaluation -/
theorem ds_cert : InstCert dsLib (fun _ => dsRow) (fun _ => dsOrder) dsHost 3 :=
  ⟨dsMux, ⟨[0, 1, 2], [3], [0], some 4⟩, by decide +kernel, by decide +kernel, by decide +kernel, by decide +kernel,
    by decide +kernel, by decide +kernel, by decide +kernel, by decide +kernel, dsRow_mem, by decide +kernel, by decide +kernel⟩

theorem ds_certs : ∀ c, c < dsHost.net.nodes.size → (dsLib.find (dsHost.net.node c).kind).isSome = true →
    InstCert dsLib (fun _ => dsRow) (fun _ => dsOrder) dsHost c := by
  intro c hc hs
  have h5 : c < 5 := hc
  rcases (by omega : c = 0 ∨ c = 1 ∨ c = 2 ∨ c = 3 ∨ c = 4) with rfl | rfl | rfl | rfl | rfl
  · exact absurd hs (by decide +kernel)
  · exact absurd hs (by decide +kernel)
  · exact absurd hs (by decide +kernel)
  · exact ds_cert
  · exact absurd hs (by decide +kernel)

/-- the other hypotheses of `resolve_datasheet_sem` hold, the result exists, and direction (1) is not vacuous: the result has a
    consistent labelling (the evaluator's) for the assignment `a = 1, b = 0, s = 1` -/
example : dsHost.wf = true ∧ resolveOKB dsLib dsHost.keys dsHost = true ∧
    (resolveCells dsLib dsHost).map (fun r => (r.wf, r.net.nodes.size,
      consistentB r.net false (!·) prim2 (fun j => j == 0 || j == 2) (evalAll r.net false (!·) prim2 (fun j => j == 0 || j == 2)))) =
      some (true, 5, true) := by decide +kernel

/-- the theorem applied: for the circuit the model of `resolve_tlib_cells` returns, every consistent labelling gives instance
    `u1` its datasheet meaning -/
example (h' : NNet) (he : resolveCells dsLib dsHost = some h') (an' v' : Nat → Bool)
    (hc : ConsOff h' (fun _ => False) false (!·) prim2 an' v') : CellDatasheet (fun _ => dsRow) dsHost 3 v' :=
  ((resolve_datasheet_sem dsLib (fun _ => dsRow) (fun _ => dsOrder) dsHost h' (by decide +kernel) (by decide +kernel) he
    ds_certs).2.2.1 an' v' hc).2 3 (by decide +kernel) (by decide +kernel)

/-- … which is: family `mux 2`, and the function of the output pin on the rows `(A, B, S0)` = 000, 100, 010, 110, 001, 101,
    011, 111 is `S0 ? B : A`; the value list handed to it is `[v' 0, v' 1, v' 2]`, the output line is line 3 -/
example : classify (baseName (dsHost.net.node 3).kind.toList) = some (.mux 2) ∧
    (datasheet (.mux 2) dsRow.inNames dsRow.outNames).map (fun fs => fs.map fun f => (allRows 3).map f) =
      some [[false, true, false, true, false, false, true, true]] ∧
    instOut dsHost 3 0 = some 3 ∧ (dsHost.net.node 3).ins = [some 0, some 1, some 2] := by decide +kernel

end KV.C10
