import KyupyVerif.Proofs.HeapInv
import KyupyVerif.Proofs.HeapCanon
import KyupyVerif.Proofs.MemRef
import KyupyVerif.Model.MapCert
import KyupyVerif.Proofs.MapSound
import KyupyVerif.Proofs.MemMapAccept
import KyupyVerif.Proofs.MemMapFrees
import KyupyVerif.Gen.Tables
/-! # C08 — signal-memory map and allocator never let live data overlap

**Allocator** (all alloc/free histories INSIDE THE DOMAIN — theorems): `Heap` is an address-ordered list model of `sim.Heap`
(start of a chunk = sum of the sizes before it; tied to the code by exact correspondence of the whole state after
every operation). **Domain (audit follow-up):** positive requests and releases of the START OF A LIVE CHUNK only (`histOkB`:
each operation is checked in the state it is applied to). The real `Heap.free(loc)` does not check this: `Heap.free(0)` twice
raises nothing and corrupts the tables (API misuse, /tmp/audit/v_heap.py) — the model's `free` returns `none` there and the
history runner `runOp` totalises it as a no-op, which says nothing about the code. `allocator_invariant` is therefore stated under
`histOkB` and adds that nothing was totalised (`runStrict` succeeds with the same state); `allocator_invariant_totalised` is the
older model-only statement. `memMap_frees_live`: the scheduler model never leaves the domain — every release `memMap` performs
(per level, with `c_reuse`) is of a non-negative location that is the start of a live chunk at that moment and succeeds, so the
"failing release changes nothing" branch of `freeAll` and `(-1).toNat = 0` are never reached. `hist_hwm`: after a whole history
the reported maximum is the running maximum of the managed size. The real-heap harness keeps releases inside the domain. **Map** (circuits × capacity vectors × options): `MapIn.check` is a certificate checker that is
evaluated on the REAL `ops`, `level_starts`, `c_locs`, `c_caps`, `c_len` of every generated instance, and it is
SOUND (`map_certificate_sound`, `map_certificate_sound_logic`): whenever it accepts, running the real op rows on memory
— operands read through `c_locs/c_caps` of the operand index, results written to the region of the output index, in
program order or any other order that respects `level_starts` — leaves in every observed region (input slots, the zero
slot, every output slot) exactly the value signal-level execution computes, which does not mention the map.
**The scheduler always passes the certificate** (`simops_map_accepted`, theorem for ALL circuits): for every netlist
whose pin tables and line records refer to each other (`Net.wfB`), every topological order (`orderOKB`), both
`strip_forks` settings (with `forksOKB` when stripping), both `c_reuse` settings, every capacity vector and every
`c_caps_min > 0`, the tables computed by the Lean model of `SimOps.__init__` (`genOps`, `stemsOf`, `levelise`, `memMap`
incl. the first-fit allocator; hand model of sim.py:159-333, tied to the real code by exact correspondence of `ops`,
`level_starts`, `c_locs`, `c_caps`, `c_len` on every generated instance) are accepted by `MapIn.check` — under the
domain hypothesis `readsDrivenB`: every line read by a scheduled gate or captured by an interface node is written by
a row of the program (no reader hangs on a cell of unknown kind, on an output pin `SimOps` does not schedule, or on a
node outside the order; `readsDriven_needed` shows the map of such a netlist is rejected, in the model and in the real
code). Consequences without any per-instance certificate: `simops_memory_sound`, `simops_memory_sound_logic`
(and `C01.logic_sim_end_to_end_all_circuits`, `C07.memory_any_schedule_all_circuits`). What stays correspondence: that the
real `SimOps.__init__` computes the tables of the model (compared exactly on every generated instance; the certificate is
still evaluated on the real tables as an independent check); the hypotheses `wfB`, `orderOKB`, `forksOKB`, `readsDrivenB`
are evaluated by the driver on the real circuit and the real topological order (`simopscert`).
`mem_refines` is the older abstract form of the soundness argument. -/
namespace KV.C08
open KV KV.Heap

/-- the invariant holds after **every** history from the empty heap that stays inside the domain (`histOkB`: allocations of
    positive sizes, releases of the start of a chunk that is LIVE at that moment): sizes positive, adjacent free regions
    coalesced (no two adjacent free chunks, no trailing free chunk), reported maximum ≥ current size; and no release of the
    history failed (`runStrict`, which totalises nothing, succeeds with the same state) -/
theorem allocator_invariant (ops : List HOp) (hok : histOkB { cs := [], maxSz := 0 } ops = true) :
    HInv (ops.foldl runOp { cs := [], maxSz := 0 }) ∧
    runStrict { cs := [], maxSz := 0 } ops = some (ops.foldl runOp { cs := [], maxSz := 0 }) :=
  hist_strict ops _ empty_inv hok

/-- a history inside the domain (the third allocation re-uses the released first chunk) and the auditor's misuse history
    (second release of address 0: no live chunk starts there any more) outside it -/
example : histOkB { cs := [], maxSz := 0 } [.alloc 4, .alloc 4, .free 0, .alloc 4, .free 4, .free 0] = true ∧
    histOkB { cs := [], maxSz := 0 } [.alloc 4, .alloc 4, .alloc 4, .free 0, .free 0] = false := by decide

/-- model-only form (older statement): with failing releases TOTALISED as no-ops the invariant holds after every history of
    positive allocations and arbitrary releases. Says nothing about the real `Heap` outside the domain of `allocator_invariant`
    (a release of a dead address corrupts the real tables). -/
theorem allocator_invariant_totalised (ops : List HOp) (hok : ∀ op ∈ ops, OpOk op) :
    HInv (ops.foldl runOp { cs := [], maxSz := 0 }) := hist_inv ops hok

/-- **high-water mark of whole histories**: inside the domain, the reported maximum after the history is the running maximum
    of the managed size over all intermediate states (`peak`) -/
theorem hist_hwm (ops : List HOp) (hok : histOkB { cs := [], maxSz := 0 } ops = true) :
    (ops.foldl runOp { cs := [], maxSz := 0 }).maxSz = peak { cs := [], maxSz := 0 } 0 ops :=
  hist_hwm_gen ops (hist_ok_old ops _ hok) _ empty_inv

example : peak { cs := [], maxSz := 0 } 0 [.alloc 4, .alloc 4, .free 4, .alloc 2, .free 0] = 8 ∧
    ([HOp.alloc 4, .alloc 4, .free 4, .alloc 2, .free 0].foldl runOp { cs := [], maxSz := 0 }).maxSz = 8 ∧
    total ([HOp.alloc 4, .alloc 4, .free 4, .alloc 2, .free 0].foldl runOp { cs := [], maxSz := 0 }).cs = 6 := by decide

/-- an allocation never returns a region overlapping a live one; the region becomes live, nothing else changes,
    and it lies inside the managed range -/
theorem alloc_never_overlaps (h : Heap) (n : Nat) :
    (∀ r, r ∈ (h.alloc n).2.used ↔ r = ((h.alloc n).1, n) ∨ r ∈ h.used) ∧
    (∀ r ∈ h.used, r.1 + r.2 ≤ (h.alloc n).1 ∨ (h.alloc n).1 + n ≤ r.1) ∧
    (h.alloc n).1 + n ≤ total (h.alloc n).2.cs := alloc_spec h n

/-- a release removes exactly the released region from the live set and never grows the managed range -/
theorem free_releases_exactly (h h' : Heap) (loc : Nat) (hi : HInv h) (hf : h.free loc = some h') :
    ∃ n, (loc, n) ∈ h.used ∧ (∀ r, r ∈ h.used ↔ r = (loc, n) ∨ r ∈ h'.used) ∧ total h'.cs ≤ total h.cs :=
  free_spec h h' loc hi hf

/-- exact release, sharpened: after a release the live regions are precisely the former ones that do not start at the
    released address (in particular the released region is gone), and a release fails only when no live region starts there -/
theorem free_removes_exactly (h h' : Heap) (loc : Nat) (hi : HInv h) (hf : h.free loc = some h') :
    ∀ r, r ∈ h'.used ↔ r ∈ h.used ∧ r.1 ≠ loc := free_used_iff h h' loc hi hf

/-- in the model a release fails (`none`) only when no live region starts at the address — i.e. only outside the domain -/
theorem free_fails_only_on_dead (h : Heap) (hi : HInv h) (loc : Nat) (hf : h.free loc = none) : ∀ r ∈ h.used, r.1 ≠ loc :=
  free_none_iff h hi loc hf

/-- canonical form: under the invariant the whole chunk table is a function of the SET of live regions (free chunks are
    exactly the maximal gaps between them) -/
theorem heap_determined_by_live_set (h1 h2 : Heap) (i1 : HInv h1) (i2 : HInv h2) (he : ∀ r, r ∈ h1.used ↔ r ∈ h2.used) :
    h1.cs = h2.cs := cs_of_used h1 h2 i1 i2 he

/-- releasing a collection of locations (as `SimOps` does at the end of a level, iterating a Python `set`): the resulting
    heap — chunk table and high-water mark — depends only on the set of locations, not on the iteration order -/
theorem release_order_irrelevant (h : Heap) (hi : HInv h) (l1 l2 : List Int)
    (he : ∀ x, x ∈ l1.map Int.toNat ↔ x ∈ l2.map Int.toNat) : freeAll h l1 = freeAll h l2 :=
  freeAll_order_irrelevant h hi l1 l2 he

example : let h : Heap := { cs := [⟨2, false⟩, ⟨3, false⟩, ⟨1, false⟩, ⟨4, false⟩, ⟨2, false⟩], maxSz := 12 }
    (freeAll h [2, 6, 5]).cs = [⟨2, false⟩, ⟨8, true⟩, ⟨2, false⟩] ∧ (freeAll h [5, 2, 6]).cs = [⟨2, false⟩, ⟨8, true⟩, ⟨2, false⟩] ∧
    (freeAll h [6, 5, 2, 2, 7]).cs = [⟨2, false⟩, ⟨8, true⟩, ⟨2, false⟩] ∧ (freeAll h [2, 6, 5]).maxSz = 12 := by decide

/-- live regions are pairwise disjoint, ordered, and inside `[0, current size)` — the regions tile the range -/
theorem regions_tile (h : Heap) :
    h.used.Pairwise (fun a b => a.1 + a.2 ≤ b.1) ∧ ∀ r ∈ h.used, r.1 + r.2 ≤ total h.cs := by
  refine ⟨usedFrom_sorted 0 h.cs, ?_⟩
  intro r hr; have := usedFrom_bounds 0 h.cs r hr; omega

/-- the reported maximum is a true high-water mark: never below the current size, and it only changes when an
    allocation extends the range, to exactly the new size or stays -/
theorem high_water_mark (h : Heap) (n : Nat) (hi : HInv h) :
    total (h.alloc n).2.cs ≤ (h.alloc n).2.maxSz ∧ h.maxSz ≤ (h.alloc n).2.maxSz ∧
    ((h.alloc n).2.maxSz = h.maxSz ∨ (h.alloc n).2.maxSz = total (h.alloc n).2.cs) := by
  unfold Heap.alloc
  split
  · rename_i loc cs' ha
    obtain ⟨ht, _⟩ := allocIn_spec n 0 h.cs loc cs' ha
    refine ⟨by simp only; rw [ht]; exact hi.hwm, Nat.le_refl _, Or.inl rfl⟩
  · simp only [total_append]
    have := hi.hwm
    refine ⟨by omega, by omega, ?_⟩
    by_cases hc : h.maxSz ≤ total h.cs + n
    · right; omega
    · left; omega

/-- what a liveness-separated map guarantees (abstract form): level-wise execution on memory agrees with
    signal-level execution at every live signal — see `MemRef.prog_I` for the statement with its hypotheses -/
theorem mem_refines {α C : Type} (L : MemRef.Layout α C) (c : MemRef.Cert L) :
    ∀ (levels : List (List (MemRef.Op α))) (k : Nat) (m : MemRef.Mem C) (env : Nat → α),
    (∀ j (hj : j < levels.length), let ops := levels[j]
        (∀ o ∈ ops, c.dfn o.out = k + j ∧ ∀ i ∈ o.ins, c.dfn i < k + j ∧ k + j ≤ c.last i) ∧
        (ops.map (·.out)).Nodup ∧ (∀ x, c.dfn x = k + j → x ∈ ops.map (·.out))) →
    MemRef.I L c k m env →
    MemRef.I L c (k + levels.length) (levels.foldl (MemRef.runMem L) m) (levels.foldl MemRef.runSig env) :=
  MemRef.prog_I L c

/-- **the certificate is sound** (any value domain, any op semantics, any storage discipline `R` whose reads depend on
    and whose writes change only the signal's region): if `MapIn.check` accepts the tables, then after all op rows have run
    on memory in program order, every observed signal — pinned: zero slot, input slots, captured signals — reads back as
    the value signal-level execution computes, and every output slot reads the value of the signal it captures.
    Hypotheses: each result fits its region (`hfit`; for waveforms: the model value is the stored, capacity-limited
    one), memory and signal environment agree initially on signals no op writes (`h0`, the stimulus). -/
theorem map_certificate_sound {α C : Type} (p : MapIn) (hc : p.check = none) (R : MapSound.RW α C)
    (sem : OpRow → List α → α)
    (hfit : ∀ o ∈ p.ops, ∀ args m,
      R.rd (p.loc o.out) (p.cap o.out) (R.wr (p.loc o.out) (p.cap o.out) (sem o args) m) = sem o args)
    (m0 : Int → C) (env0 : Nat → α)
    (h0 : ∀ x ∈ p.tracked, (∀ o ∈ p.ops, o.out ≠ x) → MapSound.rdS p R x m0 = env0 x) :
    (∀ x ∈ p.tracked, p.pinned x = true →
      MapSound.rdS p R x (MapSound.memRun p R sem p.ops m0) = MapSound.sigRun p sem p.ops env0 x) ∧
    (∀ j s, (j, s) ∈ p.ppoSrcs →
      MapSound.rdS p R j (MapSound.memRun p R sem p.ops m0) = MapSound.sigRun p sem p.ops env0 s) :=
  MapSound.check_sound p hc R sem hfit m0 env0 h0

/-- the same for LogicSim's storage (one row per signal) in terms of the signal-level executor `Sig.exec` the theorems
    of C01/C02 are about: the row of output slot `j` holds what `Sig.exec` computes for the captured signal `s` -/
theorem map_certificate_sound_logic {α : Type} [Inhabited α] (p : MapIn) (hc : p.check = none) (hpos : 0 < p.capsMin)
    (f : Nat → List α → α) (m0 : Int → α) (env0 : Nat → α)
    (h0 : ∀ x ∈ p.tracked, (∀ o ∈ p.ops, o.out ≠ x) → m0 (p.loc x) = env0 x) :
    ∀ j s, (j, s) ∈ p.ppoSrcs →
      MapSound.memRun p (MapSound.rowRW α) (fun o => f o.lut) p.ops m0 (p.loc j)
        = Sig.exec f (p.ops.map (MapSound.sigOp p)) env0 s :=
  MapSound.check_sound_rows p hc hpos f m0 env0 h0

/-- the driver evaluates `checkFast` (derived tables computed once); it is the same function -/
theorem checker_fast_eq (p : MapIn) : p.checkFast = p.check := MapIn.checkFast_eq p

/-- non-vacuity, on REAL tables: the two-input AND with an inverter of `C01.demoNet`, `SimOps(c_reuse=True)`:
    location 5 is used by line 0, then by line 4, and by the output slot; with `strip_forks` lines 2/3 alias lines 0/1 -/
def demoNet : Net :=
  { nodes := #[⟨"input", [], [some 0]⟩, ⟨"__fork__", [some 0], [some 2]⟩, ⟨"input", [], [some 1]⟩, ⟨"__fork__", [some 1], [some 3]⟩,
               ⟨"AND2", [some 2, some 3], [some 4]⟩, ⟨"INV1", [some 4], [some 5]⟩, ⟨"output", [some 5], []⟩],
    lines := #[⟨0, 0, 1, 0⟩, ⟨2, 0, 3, 0⟩, ⟨1, 0, 4, 0⟩, ⟨3, 0, 4, 1⟩, ⟨4, 0, 5, 0⟩, ⟨5, 0, 6, 0⟩],
    io := [0, 2, 6] }
def demoMap : MapIn :=
  { net := demoNet, strip := false,
    ops := [⟨43690, 0, 9, 6, 6, 6⟩, ⟨43690, 1, 10, 6, 6, 6⟩, ⟨43690, 2, 0, 6, 6, 6⟩, ⟨43690, 3, 1, 6, 6, 6⟩,
            ⟨34952, 4, 2, 3, 6, 6⟩, ⟨21845, 5, 4, 6, 6, 6⟩],
    starts := [0, 2, 4, 5], locs := #[5, 6, 7, 8, 5, 6, 0, 1, 2, 3, 4, -1, -1, -1, 6],
    caps := #[1, 1, 1, 1, 1, 1, 1, 1, 1, 1, 1, 0, 0, 0, 1], cLen := 9, capsMin := 1 }
def demoMapStrip : MapIn :=
  { net := demoNet, strip := true,
    ops := [⟨43690, 0, 9, 6, 6, 6⟩, ⟨43690, 1, 10, 6, 6, 6⟩, ⟨34952, 4, 2, 3, 6, 6⟩, ⟨21845, 5, 4, 6, 6, 6⟩],
    starts := [0, 2, 3], locs := #[5, 6, 5, 6, 7, 5, 0, 1, 2, 3, 4, -1, -1, -1, 5],
    caps := #[1, 1, 1, 1, 1, 1, 1, 1, 1, 1, 1, 0, 0, 0, 1], cLen := 8, capsMin := 1 }
example : demoMap.check = none ∧ demoMapStrip.check = none ∧ demoMap.ppoSrcs = [(14, 5)] := by decide +kernel
/-- … and the checker is not trivially accepting: moving line 4 onto the still-live line 2 is rejected -/
example : ({ demoMap with locs := #[5, 6, 7, 8, 7, 6, 0, 1, 2, 3, 4, -1, -1, -1, 6] } : MapIn).check
    = some "live signals overlap" := by decide +kernel


/-! ### the scheduler's map is always accepted -/

/-- **for ALL circuits**: the memory map `SimOps.__init__` builds (Lean model `genOps` / `stemsOf` / `levelise` / `memMap`
    with the first-fit allocator, equal to the real `ops`, `level_starts`, `c_locs`, `c_caps`, `c_len` by exact
    correspondence) passes the map certificate — every well-formed netlist, every topological order, `strip_forks` on or
    off (`forksOKB` when on), `c_reuse` on or off, every capacity vector `capsIn`, every positive `c_caps_min`.
    `readsDrivenB`: every line that is read or captured is written by a row (known cell kinds, scheduled output pins).
    The record is assembled exactly as the harness does from the real tables (`cLen` = the heap's `max_size`). -/
theorem simops_map_accepted (tbl : List PrefixRow) (net : Net) (order : List Nat) (strip : Bool) (capsIn : Nat → Nat)
    (capsMin : Nat) (reuse : Bool) (hwf : net.wfB = true) (ho : orderOKB net order = true)
    (hf : strip = true → forksOKB net order = true) (hr : readsDrivenB tbl net order = true) (hpos : 0 < capsMin) :
    let ops := genOps tbl net order strip
    let st := stemsOf net strip
    let lev := levelise net.idx.len st ops
    let m := memMap net ops st lev capsIn capsMin reuse
    ({ net := net, strip := strip, ops := ops, starts := lev.starts.reverse, locs := m.locs, caps := m.caps,
       cLen := m.heap.maxSz, capsMin := capsMin } : MapIn).check = none :=
  simopsMap_accepted tbl net order strip capsIn capsMin reuse hwf ho hf hr hpos

/-- the case `c_reuse = False` (nothing is ever released: all regions pairwise disjoint) -/
theorem simops_map_accepted_noreuse (tbl : List PrefixRow) (net : Net) (order : List Nat) (strip : Bool)
    (capsIn : Nat → Nat) (capsMin : Nat) (hwf : net.wfB = true) (ho : orderOKB net order = true)
    (hf : strip = true → forksOKB net order = true) (hr : readsDrivenB tbl net order = true) (hpos : 0 < capsMin) :
    (simopsMap tbl net order strip capsIn capsMin false).check = none :=
  simopsMap_accepted tbl net order strip capsIn capsMin false hwf ho hf hr hpos

/-- the facts about the generated program the acceptance proof rests on (`ProgOK`): one writer per line, every operand
    (through stems) is the zero slot, an input slot or a line written by an earlier row in a strictly earlier level,
    `level_starts` begins with 0 and increases, captured signals are written lines, stems are no branches -/
theorem simops_program_facts (tbl : List PrefixRow) (net : Net) (order : List Nat) (strip : Bool) (capsIn : Nat → Nat)
    (capsMin : Nat) (reuse : Bool) (hwf : net.wfB = true) (ho : orderOKB net order = true)
    (hf : strip = true → forksOKB net order = true) (hr : readsDrivenB tbl net order = true) :
    ProgOK (simopsMap tbl net order strip capsIn capsMin reuse) :=
  simops_progOK tbl (simopsMap tbl net order strip capsIn capsMin reuse) order hwf ho hf hr rfl rfl

/-- **`SimOps` stays inside the allocator's domain**: for every well-formed netlist, topological order, `strip_forks` /
    `c_reuse` setting, capacity vector and `c_caps_min > 0`, every release the model `memMap` performs — at the end of every
    level, in the order `freeAll` performs them — is the release of a non-negative location that is the start of a chunk live
    at that moment, and it succeeds (`memMapFreesLiveB`, Proofs/MemMapFrees.lean: the Boolean conjunction of exactly these
    three facts over all releases). -/
theorem memMap_frees_live (tbl : List PrefixRow) (net : Net) (order : List Nat) (strip : Bool) (capsIn : Nat → Nat)
    (capsMin : Nat) (reuse : Bool) (hwf : net.wfB = true) (ho : orderOKB net order = true)
    (hf : strip = true → forksOKB net order = true) (hr : readsDrivenB tbl net order = true) (hpos : 0 < capsMin) :
    memMapFreesLiveB net (genOps tbl net order strip) (stemsOf net strip)
      (levelise net.idx.len (stemsOf net strip) (genOps tbl net order strip)) capsIn capsMin reuse = true :=
  simops_frees_live tbl net order strip capsIn capsMin reuse hwf ho hf hr hpos

/-- **memory-level execution = signal-level execution for the map `SimOps` builds — no per-instance certificate**:
    `map_certificate_sound` with the hypothesis `p.check = none` discharged by `simops_map_accepted` -/
theorem simops_memory_sound {α C : Type} (tbl : List PrefixRow) (net : Net) (order : List Nat) (strip : Bool)
    (capsIn : Nat → Nat) (capsMin : Nat) (reuse : Bool) (hwf : net.wfB = true) (ho : orderOKB net order = true)
    (hf : strip = true → forksOKB net order = true) (hr : readsDrivenB tbl net order = true) (hpos : 0 < capsMin)
    (R : MapSound.RW α C) (sem : OpRow → List α → α)
    (hfit : ∀ o ∈ (simopsMap tbl net order strip capsIn capsMin reuse).ops, ∀ args m,
      R.rd ((simopsMap tbl net order strip capsIn capsMin reuse).loc o.out)
        ((simopsMap tbl net order strip capsIn capsMin reuse).cap o.out)
        (R.wr ((simopsMap tbl net order strip capsIn capsMin reuse).loc o.out)
          ((simopsMap tbl net order strip capsIn capsMin reuse).cap o.out) (sem o args) m) = sem o args)
    (m0 : Int → C) (env0 : Nat → α)
    (h0 : ∀ x ∈ (simopsMap tbl net order strip capsIn capsMin reuse).tracked,
      (∀ o ∈ (simopsMap tbl net order strip capsIn capsMin reuse).ops, o.out ≠ x) →
        MapSound.rdS (simopsMap tbl net order strip capsIn capsMin reuse) R x m0 = env0 x) :
    let p := simopsMap tbl net order strip capsIn capsMin reuse
    (∀ x ∈ p.tracked, p.pinned x = true →
      MapSound.rdS p R x (MapSound.memRun p R sem p.ops m0) = MapSound.sigRun p sem p.ops env0 x) ∧
    (∀ j s, (j, s) ∈ p.ppoSrcs →
      MapSound.rdS p R j (MapSound.memRun p R sem p.ops m0) = MapSound.sigRun p sem p.ops env0 s) :=
  map_certificate_sound _ (simopsMap_accepted tbl net order strip capsIn capsMin reuse hwf ho hf hr hpos) R sem hfit m0 env0 h0

/-- the same for LogicSim's storage (one row per signal): the row of output slot `j` holds what `Sig.exec` computes -/
theorem simops_memory_sound_logic {α : Type} [Inhabited α] (tbl : List PrefixRow) (net : Net) (order : List Nat)
    (strip : Bool) (capsIn : Nat → Nat) (capsMin : Nat) (reuse : Bool) (hwf : net.wfB = true)
    (ho : orderOKB net order = true) (hf : strip = true → forksOKB net order = true)
    (hr : readsDrivenB tbl net order = true) (hpos : 0 < capsMin)
    (f : Nat → List α → α) (m0 : Int → α) (env0 : Nat → α)
    (h0 : ∀ x ∈ (simopsMap tbl net order strip capsIn capsMin reuse).tracked,
      (∀ o ∈ (simopsMap tbl net order strip capsIn capsMin reuse).ops, o.out ≠ x) →
        m0 ((simopsMap tbl net order strip capsIn capsMin reuse).loc x) = env0 x) :
    let p := simopsMap tbl net order strip capsIn capsMin reuse
    ∀ j s, (j, s) ∈ p.ppoSrcs →
      MapSound.memRun p (MapSound.rowRW α) (fun o => f o.lut) p.ops m0 (p.loc j)
        = Sig.exec f (p.ops.map (MapSound.sigOp p)) env0 s :=
  map_certificate_sound_logic _ (simopsMap_accepted tbl net order strip capsIn capsMin reuse hwf ho hf hr hpos) hpos
    f m0 env0 h0

/-- non-vacuity: `demoNet` in its natural order satisfies every hypothesis … -/
def demoOrder : List Nat := [0, 2, 1, 3, 4, 5, 6]
theorem demo_hyps : demoNet.wfB = true ∧ orderOKB demoNet demoOrder = true ∧ forksOKB demoNet demoOrder = true ∧
    readsDrivenB Gen.kindPrefixes demoNet demoOrder = true := by decide +kernel
/-- … the record of the model IS the record of the REAL tables above (`SimOps(c_reuse=True)`, with and without
    `strip_forks`) … -/
example : (simopsMap Gen.kindPrefixes demoNet demoOrder false (fun _ => 1) 1 true).ops = demoMap.ops ∧
   (simopsMap Gen.kindPrefixes demoNet demoOrder false (fun _ => 1) 1 true).starts = demoMap.starts ∧
   (simopsMap Gen.kindPrefixes demoNet demoOrder false (fun _ => 1) 1 true).locs = demoMap.locs ∧
   (simopsMap Gen.kindPrefixes demoNet demoOrder false (fun _ => 1) 1 true).caps = demoMap.caps ∧
   (simopsMap Gen.kindPrefixes demoNet demoOrder false (fun _ => 1) 1 true).cLen = demoMap.cLen ∧
   (simopsMap Gen.kindPrefixes demoNet demoOrder true (fun _ => 1) 1 true).ops = demoMapStrip.ops ∧
   (simopsMap Gen.kindPrefixes demoNet demoOrder true (fun _ => 1) 1 true).starts = demoMapStrip.starts ∧
   (simopsMap Gen.kindPrefixes demoNet demoOrder true (fun _ => 1) 1 true).locs = demoMapStrip.locs ∧
   (simopsMap Gen.kindPrefixes demoNet demoOrder true (fun _ => 1) 1 true).caps = demoMapStrip.caps ∧
   (simopsMap Gen.kindPrefixes demoNet demoOrder true (fun _ => 1) 1 true).cLen = demoMapStrip.cLen := by decide +kernel
/-- … and the theorem applies, for every capacity vector and both options -/
example (strip reuse : Bool) (capsIn : Nat → Nat) :
    (simopsMap Gen.kindPrefixes demoNet demoOrder strip capsIn 4 reuse).check = none :=
  simops_map_accepted Gen.kindPrefixes demoNet demoOrder strip capsIn 4 reuse demo_hyps.1 demo_hyps.2.1
    (fun _ => demo_hyps.2.2.1) demo_hyps.2.2.2 (by decide)

/-- `memMap_frees_live` applies to `demoNet` (every setting); with `c_reuse` releases really happen there: the heap of the
    model ends smaller than without reuse -/
example (strip reuse : Bool) (capsIn : Nat → Nat) := memMap_frees_live Gen.kindPrefixes demoNet demoOrder strip capsIn 4 reuse
  demo_hyps.1 demo_hyps.2.1 (fun _ => demo_hyps.2.2.1) demo_hyps.2.2.2 (by decide)
example : (simopsMap Gen.kindPrefixes demoNet demoOrder false (fun _ => 1) 1 true).cLen <
    (simopsMap Gen.kindPrefixes demoNet demoOrder false (fun _ => 1) 1 false).cLen := by decide +kernel

/-- the hypothesis `readsDrivenB` cannot be dropped: a cell of unknown kind writes nothing (`SimOps` prints
    "unknown cell type" and goes on), the output port captures a line that never gets memory (`c_locs = -1`, the same in the
    real code), and the certificate rejects the map -/
def unknownNet : Net :=
  { nodes := #[⟨"input", [], [some 0]⟩, ⟨"MYSTERY", [some 0], [some 1]⟩, ⟨"output", [some 1], []⟩],
    lines := #[⟨0, 0, 1, 0⟩, ⟨1, 0, 2, 0⟩], io := [0, 2] }
theorem readsDriven_needed : unknownNet.wfB = true ∧ orderOKB unknownNet [0, 1, 2] = true ∧
    forksOKB unknownNet [0, 1, 2] = true ∧ readsDrivenB Gen.kindPrefixes unknownNet [0, 1, 2] = false ∧
    (simopsMap Gen.kindPrefixes unknownNet [0, 1, 2] false (fun _ => 1) 1 false).locs = #[4, -1, 0, 1, 2, 3, -1, -1, -1] ∧
    (simopsMap Gen.kindPrefixes unknownNet [0, 1, 2] false (fun _ => 1) 1 false).check
      = some "output slot alias is not exact" := by decide +kernel

/-- non-vacuity: a heap with two free chunks between used ones satisfies the invariant -/
example : HInv { cs := [⟨2, false⟩, ⟨3, true⟩, ⟨1, false⟩, ⟨4, true⟩, ⟨2, false⟩], maxSz := 12 } :=
  ⟨by intro c hc; simp at hc; rcases hc with rfl | rfl | rfl | rfl | rfl <;> decide, by simp [NoAdj], by decide⟩

end KV.C08
