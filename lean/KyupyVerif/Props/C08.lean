import KyupyVerif.Proofs.HeapInv
import KyupyVerif.Proofs.MemRef
import KyupyVerif.Model.MapCert
/-! # C08 — signal-memory map and allocator never let live data overlap

**Allocator** (all alloc/free histories — theorems): `Heap` is an address-ordered list model of `sim.Heap`
(start of a chunk = sum of the sizes before it; tied to the code by exact correspondence of the whole state after
every operation). **Map** (circuits × capacity vectors × options): `MapIn.check` is a certificate checker that is
evaluated on the REAL `ops`, `level_starts`, `c_locs`, `c_caps`, `c_len` of every generated instance; the
abstract refinement theorem `mem_refines` states what a certificate of this shape guarantees. The link
"`MapIn.check p = none` ⇒ the hypotheses of `mem_refines`" is NOT yet proved (`map_partial`). -/
namespace KV.C08
open KV KV.Heap

/-- the invariant holds after **every** history of allocations (positive sizes) and releases from the empty heap:
    sizes positive, adjacent free regions coalesced (no two adjacent free chunks, no trailing free chunk),
    reported maximum ≥ current size -/
theorem allocator_invariant (ops : List HOp) (hok : ∀ op ∈ ops, OpOk op) :
    HInv (ops.foldl runOp { cs := [], maxSz := 0 }) := hist_inv ops hok

/-- an allocation never returns a region overlapping a live one; the region becomes live, nothing else changes,
    and it lies inside the managed range -/
theorem alloc_never_overlaps (h : Heap) (n : Nat) :
    (∀ r, r ∈ (h.alloc n).2.used ↔ r = ((h.alloc n).1, n) ∨ r ∈ h.used) ∧
    (∀ r ∈ h.used, r.1 + r.2 ≤ (h.alloc n).1 ∨ (h.alloc n).1 + n ≤ r.1) ∧
    (h.alloc n).1 + n ≤ total (h.alloc n).2.cs := alloc_spec h n

/-- a release removes exactly the released region from the live set and never grows the managed range -/
theorem free_releases_exactly (h h' : Heap) (loc : Nat) (hi : HInv h) (hf : h.free loc = some h') :
    ∃ n, (loc, n) ∈ h.used ∧ (∀ r, r ∈ h.used ↔ r = (loc, n) ∨ r ∈ h'.used) ∧ total h'.cs ≤ total h.cs :=
  free_spec h h' loc hi hf

/-- live regions are pairwise disjoint, ordered, and inside `[0, current size)` — the regions tile the range -/
theorem regions_tile (h : Heap) :
    h.used.Pairwise (fun a b => a.1 + a.2 ≤ b.1) ∧ ∀ r ∈ h.used, r.1 + r.2 ≤ total h.cs := by
  refine ⟨usedFrom_sorted 0 h.cs, ?_⟩
  intro r hr; have := usedFrom_bounds 0 h.cs r hr; omega

/-- the reported maximum is a true high-water mark: never below the current size, and it only changes when an
    allocation extends the range, to exactly the new size or stays -/
theorem high_water_mark (h : Heap) (n : Nat) (hi : HInv h) :
    total (h.alloc n).2.cs ≤ (h.alloc n).2.maxSz ∧ h.maxSz ≤ (h.alloc n).2.maxSz ∧
    ((h.alloc n).2.maxSz = h.maxSz ∨ (h.alloc n).2.maxSz = total (h.alloc n).2.cs) := by
  unfold Heap.alloc
  split
  · rename_i loc cs' ha
    obtain ⟨ht, _⟩ := allocIn_spec n 0 h.cs loc cs' ha
    refine ⟨by simp only; rw [ht]; exact hi.hwm, Nat.le_refl _, Or.inl rfl⟩
  · simp only [total_append]
    have := hi.hwm
    refine ⟨by omega, by omega, ?_⟩
    by_cases hc : h.maxSz ≤ total h.cs + n
    · right; omega
    · left; omega

/-- what a liveness-separated map guarantees (abstract form): level-wise execution on memory agrees with
    signal-level execution at every live signal — see `MemRef.prog_I` for the statement with its hypotheses -/
theorem mem_refines {α C : Type} (L : MemRef.Layout α C) (c : MemRef.Cert L) :
    ∀ (levels : List (List (MemRef.Op α))) (k : Nat) (m : MemRef.Mem C) (env : Nat → α),
    (∀ j (hj : j < levels.length), let ops := levels[j]
        (∀ o ∈ ops, c.dfn o.out = k + j ∧ ∀ i ∈ o.ins, c.dfn i < k + j ∧ k + j ≤ c.last i) ∧
        (ops.map (·.out)).Nodup ∧ (∀ x, c.dfn x = k + j → x ∈ ops.map (·.out))) →
    MemRef.I L c k m env →
    MemRef.I L c (k + levels.length) (levels.foldl (MemRef.runMem L) m) (levels.foldl MemRef.runSig env) :=
  MemRef.prog_I L c

/-- non-vacuity: a heap with two free chunks between used ones satisfies the invariant -/
example : HInv { cs := [⟨2, false⟩, ⟨3, true⟩, ⟨1, false⟩, ⟨4, true⟩, ⟨2, false⟩], maxSz := 12 } :=
  ⟨by intro c hc; simp at hc; rcases hc with rfl | rfl | rfl | rfl | rfl <;> decide, by simp [NoAdj], by decide⟩

end KV.C08
