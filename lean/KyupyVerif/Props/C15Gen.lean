import KyupyVerif.Proofs.Encode
import KyupyVerif.Proofs.EncodeNested
import KyupyVerif.Gen.MvTables
import KyupyVerif.Gen.EncTables
/-! # C15 — statements over the GENERATED tables of the real code

`Gen.renderChars` = `mv_str(arange(8))` character by character, `Gen.interpretAscii` = `interpret(ch)` for every
printable ASCII character, `Gen.interpretOther` = `interpret` of `0, 1, False, True, None`, `Gen.valueConsts` = the
eight constants (gen/dump_tables.py); `Gen.popCountLut`, `Gen.bitInLut` = the module tables behind `popcount` and
`bit_in` (gen/dump_encode.py).  They are regenerated from the working tree on every run, so each theorem here
is re-checked by the kernel against what the code does now.  On a tree where `mv_str` raises, `renderChars = []`
and `render_parse` (and everything that renders) does not check: finding D2.

The documented characters and aliases (`docChars`, `docAliases`, below) are transcribed from the docstrings of
logic.py:54-80 and are part of the specification. -/
namespace KV.C15
open KV.Enc KV.Gen

/-- the documented render characters `0X-1PRFN` of the values 0..7 -/
def docChars : List Nat := "0X-1PRFN".toList.map Char.toNat
/-- the documented aliases: character ↦ value (logic.py:54-80) -/
def docAliases : List (Char × Nat) :=
  [('0', 0), ('L', 0), ('l', 0), ('X', 1), ('-', 2), ('Z', 2), ('z', 2), ('1', 3), ('H', 3), ('h', 3),
   ('P', 4), ('p', 4), ('^', 4), ('R', 5), ('r', 5), ('/', 5), ('F', 6), ('f', 6), ('\\', 6),
   ('N', 7), ('n', 7), ('v', 7)]

def interp (c : Nat) : Nat := interpretWith interpretAscii c
def render (v : Nat) : Option Nat := renderChars[v]?

/-- the constants carry their documented codes -/
theorem value_consts : valueConsts = [("ZERO", 0), ("UNKNOWN", 1), ("UNASSIGNED", 2), ("ONE", 3), ("PPULSE", 4),
    ("RISE", 5), ("FALL", 6), ("NPULSE", 7)] := by decide +kernel

/-- **render/parse**: each of the eight values renders to its documented character and that character parses back
to the value; there are exactly eight render characters -/
theorem render_parse : renderChars.length = 8 ∧
    ∀ v, v < 8 → render v = docChars[v]? ∧ (render v).map interp = some v := by decide +kernel

/-- rendering is injective on the eight values -/
theorem render_injective : ∀ u, u < 8 → ∀ v, v < 8 → render u = render v → u = v := by decide +kernel

/-- every documented alias parses to its documented value -/
theorem aliases_parse : ∀ p ∈ docAliases, interp p.1.toNat = p.2 := by decide +kernel

/-- the table covers exactly the printable ASCII characters 32..126, and every one of them that is not a
documented alias parses to UNKNOWN -/
theorem others_unknown : interpretAscii.map (·.1) = (List.range 95).map (· + 32) ∧
    ∀ c, c < 127 → 32 ≤ c → (docAliases.map (·.1.toNat)).contains c = false → interp c = 1 := by decide +kernel

/-- `interpret` of `0`, `1`, `False`, `True`, `None` -/
theorem other_aliases : interpretOther = [("i0", 0), ("i1", 3), ("bF", 0), ("bT", 3), ("none", 2)] := by
  decide +kernel

/-- every value `interpret` returns has a render character -/
theorem tables_ok : tblOK interpretAscii renderChars = true := by decide +kernel

/-- canonical character: `render (interpret c)` -/
def canonCh (c : Nat) : Nat := canon interpretAscii renderChars c

/-- a render character is its own canonical form -/
theorem canon_render : ∀ v, v < 8 → (render v).map canonCh = render v := by decide +kernel

/-- **string round trip** (`P ≥ 2` patterns of common length `S ≠ 1`): `mv_str(mvarray(s₀,…))` is the patterns,
one per line, each character canonicalised -/
theorem str_roundtrip (delim : List Nat) (ss : List (List Nat)) (S : Nat)
    (hu : ∀ s ∈ ss, s.length = S) (hP : 2 ≤ ss.length) (hS : S ≠ 1) :
    (mvarray interpretAscii ss).bind (mvStr renderChars delim) = some (delim.intercalate (ss.map (·.map canonCh))) := by
  rw [mvarray_2d _ ss S hu hP hS]
  exact mvStr_2d interpretAscii renderChars delim tables_ok ss S hu

/-- one pattern string: `mv_str(mvarray(s))` is `s` canonicalised -/
theorem str_roundtrip_single (delim : List Nat) (s : List Nat) :
    (mvarray interpretAscii [s]).bind (mvStr renderChars delim) = some (s.map canonCh) := by
  rw [mvarray_single]
  exact mvStr_1d interpretAscii renderChars delim tables_ok s

/-- **popcount** (table look-up in the real `_pop_count_lut`, summed) = number of one bits, for every `uint8` data -/
theorem popcount_spec (a : List Nat) (ha : ∀ x ∈ a, x < 256) : popcountWith popCountLut a = onesOf a :=
  popcount_eq_ones popCountLut (by decide +kernel) a ha

/-- **popcount on other integer dtypes** (audit 2, F6; the docstring says `uint8`): `_pop_count_lut[a]` is numpy indexing into 256
entries, so for values in `-256 .. 255` (every `int8` array; `uint16`/`int32`/… arrays with small entries) the result is the number
of one bits of the LOW BYTE in two's complement of each element — for `int8` that is the number of one bits of the data, for wider
dtypes it is NOT (an `int32` `-1` counts 8, not 32) … -/
theorem popcount_int_spec (a : List Int) (ha : ∀ x ∈ a, -256 ≤ x ∧ x < 256) :
    popcountInt popCountLut a = some (onesOf (a.map fun x => (x % 256).toNat)) :=
  popcountInt_spec popCountLut (by decide +kernel) a ha

/-- … and any element outside `-256 .. 255` makes the real `popcount` raise IndexError (`popcount(np.uint16([511, 3]))`) -/
theorem popcount_int_raises (a : List Int) (h : ∃ x ∈ a, x < -256 ∨ 256 ≤ x) : popcountInt popCountLut a = none :=
  popcountInt_raises popCountLut a h

example : popcountInt popCountLut [3, -1] = some 10 ∧ popcountInt popCountLut [511, 3] = none := by decide +kernel

/-- `bit_in(a, pos)` masks bit `7 - pos % 8` of byte `pos / 8`: MOST significant bit first (the order of
`np.packbits` default), i.e. not the lane order of `mv_to_bp` (`bp_layout`: least significant first) -/
theorem bit_in_spec (a : List Nat) (pos : Nat) :
    bitInWith bitInLut a pos = a.getD (pos / 8) 0 &&& 2 ^ (7 - pos % 8) :=
  bitIn_eq bitInLut (by decide +kernel) a pos

/-! non-vacuity -/
example : (mvarray interpretAscii ["01X-".toList.map Char.toNat, "hLzZ".toList.map Char.toNat]).bind
    (mvStr renderChars [10]) = some ("01X-\n10--".toList.map Char.toNat) := by decide +kernel
example : popcountWith popCountLut [255, 1, 0, 0x5A] = 13 := by decide +kernel

end KV.C15
