import KyupyVerif.Proofs.WaveCircuit
import KyupyVerif.Proofs.PairExec
import KyupyVerif.Proofs.WaveParity
/-! # C03 — timing simulation settles to the Boolean function for any delays/capacity

Model (M, tied by correspondence with `wave_eval_cpu` and whole `WaveSim` runs): `Wave.waveEval` is a
transcription of `wave_sim._wave_eval` (four cursors, toggle mask, output stack, pulse filtering, overflow
branch, terminator); `Wave.simWave` runs it over an op program with per-line delay tables and per-signal
capacities.  Time is exact integer ticks plus the sentinels `tmin < fin _ < tmax < tovl` (the real code
uses float32; the tie holds on a dyadic grid, see DESIGN.md section 3). -/
namespace KV.C03
open KV KV.Sig KV.Wave

/-- gate level, parity invariant (any LUT, any delays — no sign restriction —, capacity ≥ 2, any waveforms,
    overflow or not): the number of entries on the output stack always has the parity of the LUT value of the
    toggled inputs. -/
theorem gate_parity (lut : Nat) (D : Delays) (terms : Fin 4 → T) (zcap : Nat) (hc : 2 ≤ zcap) (s : St)
    (h : PInv lut s) : PInv lut (step lut D terms zcap s) := step_inv lut D terms zcap hc s h

/-- gate level: final value = LUT of the operands' final values; initial value = LUT of their initial values;
    any delays ≥ 0, any capacity ≥ 4 (also when transitions are discarded by overflow), any operand waveforms -/
theorem gate_settles (cfg : WCfg) (op : Op) (xs : List Wv) (hd : ∀ l p q, 0 ≤ cfg.delay l p q)
    (hc : 4 ≤ cfg.cap op.out) (hx : ∀ x ∈ xs, x.ok) :
    (waveSem cfg op xs).ok ∧
    (waveSem cfg op xs).init = lutBit4 op.code (slot xs 0).init (slot xs 1).init (slot xs 2).init (slot xs 3).init ∧
    (waveSem cfg op xs).final = lutBit4 op.code (slot xs 0).final (slot xs 1).final (slot xs 2).final (slot xs 3).final :=
  ⟨waveSem_ok cfg op xs hd hc hx, waveSem_init_final cfg op xs hd hc hx⟩

def Rel (w : Wv) (p : Bool × Bool) : Prop := w.ok ∧ w.init = p.1 ∧ w.final = p.2

theorem slot_rel {xs : List Wv} {ys : List (Bool × Bool)} (h : All2 Rel xs ys) (i : Fin 4) :
    Rel (slot xs i) (ys.getD i.val (false, false)) :=
  h.getD i.val Wv.empty (false, false) ⟨Wv.empty_ok, rfl, rfl⟩

/-- **every circuit (op program), every delay annotation ≥ 0, every capacity vector ≥ 4, every input
    waveform**: each signal's waveform is well formed, starts at the Boolean (LUT) function of the inputs'
    initial values and — by transition parity — ends at the Boolean function of their final values. -/
theorem wave_settles (cfg : WCfg) (ops : List Op) (hg : cfg.Good ops) (env : Nat → Wv)
    (henv : ∀ l, (env l).ok) (l : Nat) :
    (simWave cfg ops env l).ok ∧
    (simWave cfg ops env l).init = exec lutSem ops (fun x => (env x).init) l ∧
    (simWave cfg ops env l).final = exec lutSem ops (fun x => (env x).final) l := by
  have key := execG_rel_on Rel (waveSem cfg) (fun op ys => lutSemPair op.code ys) ops ?_ env
    (fun x => ((env x).init, (env x).final)) (fun x => ⟨henv x, rfl, rfl⟩) l
  · have e : execG (fun op ys => lutSemPair op.code ys) ops (fun x => ((env x).init, (env x).final)) l =
        exec lutSemPair ops (fun x => ((env x).init, (env x).final)) l := rfl
    rw [e, exec_lutSemPair] at key
    exact key
  · intro op hop xs ys hxy
    have hx : ∀ x ∈ xs, x.ok := by
      intro x hxm
      induction hxy with
      | nil => cases hxm
      | cons h _ ih =>
        rcases List.mem_cons.mp hxm with rfl | hm
        · exact h.1
        · exact ih hm
    obtain ⟨hok, hi, hf⟩ := gate_settles cfg op xs hg.delay_nonneg (hg.cap_ge op hop) hx
    refine ⟨hok, ?_, ?_⟩
    · rw [hi, (slot_rel hxy 0).2.1, (slot_rel hxy 1).2.1, (slot_rel hxy 2).2.1, (slot_rel hxy 3).2.1]
      simp only [lutSemPair, lutSem, getD_map_fst]; rfl
    · rw [hf, (slot_rel hxy 0).2.2, (slot_rel hxy 1).2.2, (slot_rel hxy 2).2.2, (slot_rel hxy 3).2.2]
      simp only [lutSemPair, lutSem, getD_map_snd]; rfl

/-- stimulus waveforms built by `s_to_c` are well formed and encode (initial, final) -/
theorem stim_ok (i f : Bool) (t : Int) : (stimWave i t f).ok ∧ (stimWave i t f).init = i ∧ (stimWave i t f).final = f := by
  cases i <;> cases f <;> simp [stimWave, Wv.ok, WfRem, Wv.init, Wv.final, T.isFin, T.isTerm]

/-- with capacity 2 the initial-value statement is FALSE (the overflow branch drops the leading `tmin`):
    the hypothesis `4 ≤ cap` (kyupy's `c_caps_min`) is needed. A buffer on `[tmin, 5, 9]` (initially 1)
    yields `[9]`, which reads as initially 0. -/
example : (waveEval 0xAAAA (fun _ _ _ => 0) (fun i => if i = 0 then [T.tmin, T.fin 5, T.fin 9] else []) (fun _ => T.tmax) 2).1
    = [T.fin 9] := by decide +kernel

/-- non-vacuity: a NAND2 whose second operand rises at 3 while the first is high from the start; delays 1 -/
example : (waveSem ⟨fun _ _ _ => 1, fun _ => 4⟩ ⟨0x7777, 7, [0, 1, 9, 9]⟩ [⟨[T.tmin], T.tmax⟩, ⟨[T.fin 3], T.tmax⟩, Wv.empty, Wv.empty])
    = ⟨[T.tmin, T.fin 4], T.tmax⟩ := by decide +kernel

end KV.C03
