import KyupyVerif.Proofs.WaveCircuit
import KyupyVerif.Proofs.PairExec
import KyupyVerif.Proofs.WaveParity
import KyupyVerif.Proofs.WaveMemCirc
import KyupyVerif.Proofs.WaveMemDemo
import KyupyVerif.Proofs.Capture
import KyupyVerif.Props.C08
import KyupyVerif.Proofs.WaveBridge
/-! # C03 — timing simulation settles to the Boolean function for any delays/capacity

Model (M, tied by correspondence with `wave_eval_cpu` and whole `WaveSim` runs): `Wave.waveEval` is a
transcription of `wave_sim._wave_eval` (four cursors, toggle mask, output stack, pulse filtering, overflow
branch, terminator); `Wave.simWave` runs it over an op program with per-line delay tables and per-signal
capacities.  Time is exact integer ticks plus the sentinels `tmin < fin _ < tmax < tovl` (the real code
uses float32; the tie holds on a dyadic grid, see DESIGN.md section 3).

**Memory level** (second half of this file). The theorems above speak about signals (`simWave`: an environment
`Nat → Wv`). The real simulator keeps every waveform in the flat array `c` inside the region
`[c_locs[i], c_locs[i] + c_caps[i])` of its signal: entries, one terminator, stale cells behind it; regions are shared by
stripped fork branches and their stems and, with `c_reuse`, re-used once a signal is dead. `Wave.rdWave` reads a region
the way `_wave_eval`, `wave_capture_cpu` and the harness do (up to the first cell `≥ TMAX`, never beyond the capacity),
`Wave.wrWave junk` writes entries + terminator and ANY left-overs `junk` behind it, `Wave.WaveStep` is the contract of
one `_wave_eval` call on memory (only the output region changes; it then reads as `waveEval` of what the four operand
regions — addressed through `c_locs/c_caps` of the operand INDEX, so a stripped branch reads its stem's memory — read
before), `Wave.WaveRun` a sequence of such calls.
THEOREMS: `wave_storage_roundtrip`, `wave_result_fits` (the evaluator's result always fits the capacity of its output:
at most `cap - 1` entries + terminator), `wave_memory_sound` (accepted map certificate ⇒ in every memory reachable by
such calls in any duplicate-free order that respects `level_starts`, every output slot's region reads as the waveform
`simWave` computes for the captured signal), `wave_memory_run_exists` (the deterministic read-evaluate-write run is such a
run, for every choice of left-overs — the statement is not vacuous), `wave_memory_settles`,
`wave_sim_end_to_end_all_circuits` (for the tables of the `SimOps` model — every well-formed netlist, topological order,
`strip_forks`/`c_reuse` setting, capacity vector, `c_caps_min ≥ 4`, delays ≥ 0, well-formed input waveforms — the
certificate is the theorem `C08.simops_map_accepted`, and what `c_to_s` finds in the region of output slot `i` starts /
ends at the value THE solution of the netlist's gate equations gives to the captured line for the initial / final input
values; also the captured `s[3]`, `s[6]`).
STILL CORRESPONDENCE: that the real `_wave_eval` honours `WaveStep` (its result is `waveEval`'s: gate-level and
whole-run correspondence of C03; its writes stay inside the output region: guard cells in the gate-level check), that the
real tables are the model's tables (C08), float32 vs exact time. The harness additionally compares, on every whole run
(also with `c_reuse`), the real memory at every output slot read through `c_locs/c_caps` of the SLOT index with the model's
signal-level waveform of the captured signal. -/
namespace KV.C03
open KV KV.Sig KV.Wave

/-- gate level, parity invariant (any LUT, any delays — no sign restriction —, capacity ≥ 2, any waveforms,
    overflow or not): the number of entries on the output stack always has the parity of the LUT value of the
    toggled inputs. -/
theorem gate_parity (lut : Nat) (D : Delays) (terms : Fin 4 → T) (zcap : Nat) (hc : 2 ≤ zcap) (s : St)
    (h : PInv lut s) : PInv lut (step lut D terms zcap s) := step_inv lut D terms zcap hc s h

/-- gate level: final value = LUT of the operands' final values; initial value = LUT of their initial values;
    any delays ≥ 0, any capacity ≥ 4 (also when transitions are discarded by overflow), any operand waveforms -/
theorem gate_settles (cfg : WCfg) (op : Op) (xs : List Wv) (hd : ∀ l p q, 0 ≤ cfg.delay l p q)
    (hc : 4 ≤ cfg.cap op.out) (hx : ∀ x ∈ xs, x.ok) :
    (waveSem cfg op xs).ok ∧
    (waveSem cfg op xs).init = lutBit4 op.code (slot xs 0).init (slot xs 1).init (slot xs 2).init (slot xs 3).init ∧
    (waveSem cfg op xs).final = lutBit4 op.code (slot xs 0).final (slot xs 1).final (slot xs 2).final (slot xs 3).final :=
  ⟨waveSem_ok cfg op xs hd hc hx, waveSem_init_final cfg op xs hd hc hx⟩

def Rel (w : Wv) (p : Bool × Bool) : Prop := w.ok ∧ w.init = p.1 ∧ w.final = p.2

theorem slot_rel {xs : List Wv} {ys : List (Bool × Bool)} (h : All2 Rel xs ys) (i : Fin 4) :
    Rel (slot xs i) (ys.getD i.val (false, false)) :=
  h.getD i.val Wv.empty (false, false) ⟨Wv.empty_ok, rfl, rfl⟩

/-- **every circuit (op program), every delay annotation ≥ 0, every capacity vector ≥ 4, every input
    waveform**: each signal's waveform is well formed, starts at the Boolean (LUT) function of the inputs'
    initial values and — by transition parity — ends at the Boolean function of their final values. -/
theorem wave_settles (cfg : WCfg) (ops : List Op) (hg : cfg.Good ops) (env : Nat → Wv)
    (henv : ∀ l, (env l).ok) (l : Nat) :
    (simWave cfg ops env l).ok ∧
    (simWave cfg ops env l).init = exec lutSem ops (fun x => (env x).init) l ∧
    (simWave cfg ops env l).final = exec lutSem ops (fun x => (env x).final) l := by
  have key := execG_rel_on Rel (waveSem cfg) (fun op ys => lutSemPair op.code ys) ops ?_ env
    (fun x => ((env x).init, (env x).final)) (fun x => ⟨henv x, rfl, rfl⟩) l
  · have e : execG (fun op ys => lutSemPair op.code ys) ops (fun x => ((env x).init, (env x).final)) l =
        exec lutSemPair ops (fun x => ((env x).init, (env x).final)) l := rfl
    rw [e, exec_lutSemPair] at key
    exact key
  · intro op hop xs ys hxy
    have hx : ∀ x ∈ xs, x.ok := by
      intro x hxm
      induction hxy with
      | nil => cases hxm
      | cons h _ ih =>
        rcases List.mem_cons.mp hxm with rfl | hm
        · exact h.1
        · exact ih hm
    obtain ⟨hok, hi, hf⟩ := gate_settles cfg op xs hg.delay_nonneg (hg.cap_ge op hop) hx
    refine ⟨hok, ?_, ?_⟩
    · rw [hi, (slot_rel hxy 0).2.1, (slot_rel hxy 1).2.1, (slot_rel hxy 2).2.1, (slot_rel hxy 3).2.1]
      simp only [lutSemPair, lutSem, getD_map_fst]; rfl
    · rw [hf, (slot_rel hxy 0).2.2, (slot_rel hxy 1).2.2, (slot_rel hxy 2).2.2, (slot_rel hxy 3).2.2]
      simp only [lutSemPair, lutSem, getD_map_snd]; rfl

/-- stimulus waveforms built by `s_to_c` are well formed and encode (initial, final) -/
theorem stim_ok (i f : Bool) (t : Int) : (stimWave i t f).ok ∧ (stimWave i t f).init = i ∧ (stimWave i t f).final = f := by
  cases i <;> cases f <;> simp [stimWave, Wv.ok, WfRem, Wv.init, Wv.final, T.isFin, T.isTerm]

/-- with capacity 2 the initial-value statement is FALSE (the overflow branch drops the leading `tmin`):
    the hypothesis `4 ≤ cap` (kyupy's `c_caps_min`) is needed. A buffer on `[tmin, 5, 9]` (initially 1)
    yields `[9]`, which reads as initially 0. -/
example : (waveEval 0xAAAA (fun _ _ _ => 0) (fun i => if i = 0 then [T.tmin, T.fin 5, T.fin 9] else []) (fun _ => T.tmax) 2).1
    = [T.fin 9] := by decide +kernel

/-- non-vacuity: a NAND2 whose second operand rises at 3 while the first is high from the start; delays 1 -/
example : (waveSem ⟨fun _ _ _ => 1, fun _ => 4⟩ ⟨0x7777, 7, [0, 1, 9, 9]⟩ [⟨[T.tmin], T.tmax⟩, ⟨[T.fin 3], T.tmax⟩, Wv.empty, Wv.empty])
    = ⟨[T.tmin, T.fin 4], T.tmax⟩ := by decide +kernel

/-! ## memory level -/
open KV.MapSound

/-- storing and reading back: a waveform with fewer than `c` entries, none of them a terminator, and a genuine
    terminator is read back exactly from a region of capacity `c`, whatever is left in the cells behind the terminator
    and whatever the rest of memory holds; nothing outside the region changes -/
theorem wave_storage_roundtrip (junk : Int → T) (l : Int) (c : Nat) (w : Wv) (m : Int → T) (hf : Fits c w) :
    rdWave l c (wrWave junk l c w m) = w ∧
    ∀ a, ¬ (l ≤ a ∧ a < l + (c : Int)) → wrWave junk l c w m a = m a :=
  ⟨rd_wr_fit junk l c w m hf, fun a h => wrWave_frame junk l c w m a h⟩

/-- non-vacuity: a two-entry waveform fits a region of capacity 4 (not one of capacity 2) -/
example : Fits 4 ⟨[T.tmin, T.fin 8], T.tmax⟩ ∧ ¬ Fits 2 ⟨[T.tmin, T.fin 8], T.tmax⟩ := by
  refine ⟨⟨by decide, by decide, rfl⟩, fun h => absurd h.1 (by decide)⟩

/-- **writes stay inside the capacity**: for delays ≥ 0, output capacity ≥ 4 and well-formed operands the evaluator's
    result has at most `cap - 1` entries, none of them a terminator, and a terminator — it fits the output region -/
theorem wave_result_fits (cfg : WCfg) (op : Op) (xs : List Wv) (hd : ∀ l p q, 0 ≤ cfg.delay l p q)
    (hc : 4 ≤ cfg.cap op.out) (hx : ∀ x ∈ xs, x.ok) : Fits (cfg.cap op.out) (waveSem cfg op xs) :=
  waveSem_fits cfg op xs hd hc hx

/-- an input slot as `s_to_c` fills it (three cells) reads as the stimulus waveform; fresh memory reads as constant 0 -/
theorem stimulus_in_memory (l : Int) (c : Nat) (m : Int → T) (i f : Bool) (t : Int)
    (h : (cells l c m).take 3 = stimCells i t f) : rdWave l c m = stimWave i t f := rdWave_stim l c m i f t h

/-- the initial memory of a simulation — `s_to_c` has written its three cells into every input slot (initial value, transition
    time, final value per slot: `stim`), the zero slot still starts with the `TMAX` of the freshly allocated array — satisfies
    the stimulus hypothesis of the theorems below: all these regions read as well-formed waveforms, namely the stimulus
    waveforms `stimWave` and the constant 0 -/
theorem stimulus_memory_ok (p : MapIn) (m0 : Int → T) (stim : Nat → Bool × Int × Bool)
    (hs : ∀ x ∈ p.ppiSlots, (cells (p.loc x) (p.cap x) m0).take 3 = stimCells (stim x).1 (stim x).2.1 (stim x).2.2)
    (hz : (cells (p.loc p.ix.zero) (p.cap p.ix.zero) m0).head? = some T.tmax) :
    (∀ x, x ∈ p.ppiSlots ∨ x = p.ix.zero → (rdWave (p.loc x) (p.cap x) m0).ok) ∧
    (∀ x ∈ p.ppiSlots, inputEnv p m0 x = stimWave (stim x).1 (stim x).2.1 (stim x).2.2) := by
  constructor
  · intro x hx
    by_cases hxp : x ∈ p.ppiSlots
    · rw [rdWave_stim _ _ _ _ _ _ (hs x hxp)]; exact stimWave_ok _ _ _
    · rcases hx with h | h
      · exact absurd h hxp
      · subst h; rw [rdWave_tmax_head _ _ _ hz]; exact Wv.empty_ok
  · intro x hx
    unfold inputEnv
    rw [if_pos (Or.inl hx)]
    exact rdWave_stim _ _ _ _ _ _ (hs x hx)

/-- for an accepted map the region a row writes overlaps the region of none of its operands — so "read the four operand
    waveforms, evaluate, store the result" (the step of the memory model) describes an evaluator that, like `_wave_eval`,
    reads operand cells and writes output cells interleaved -/
theorem operands_disjoint_from_output (p : MapIn) (hc : p.check = none) (k : Nat) (o : OpRow) (hk : p.ops[k]? = some o)
    (i : Nat) (hi : i ∈ o.ins) : p.overlap i o.out = false :=
  operand_output_disjoint (good_of_check p hc) hk hi

/-- **memory level = signal level** (any map the certificate accepts, any implementation of the evaluator calls that
    honours `WaveStep`, any duplicate-free execution order that respects `level_starts`): the region of every output slot
    `j` reads as the waveform `simWave` computes — in program order, without any memory — for the captured signal `s`.
    `env0`: any signal environment that agrees with the initial memory on the signals no row writes (input slots, zero
    slot). No hypothesis on delays or capacities is needed here: a run that honours the contract is given. -/
theorem wave_memory_sound (p : MapIn) (hc : p.check = none) (delay : Nat → Bool → Bool → Int)
    (sched : List Nat) (hsched : p.schedOKB sched = true) (m0 m' : Int → T) (env0 : Nat → Wv)
    (h0 : ∀ x ∈ p.tracked, (∀ o ∈ p.ops, o.out ≠ x) → rdWave (p.loc x) (p.cap x) m0 = env0 x)
    (hrun : WaveRun p (wcfg p delay) (schedOps p sched) m0 m') :
    ∀ j s, (j, s) ∈ p.ppoSrcs → rdWave (p.loc j) (p.cap j) m' = simWave (wcfg p delay) (waveProg p) env0 s :=
  wave_mem_sound p hc delay sched (schedOKB_sound p sched hsched).1 (schedOKB_sound p sched hsched).2 m0 m' env0 h0 hrun

/-- **such runs exist**: with `c_caps_min ≥ 4`, delays ≥ 0 and well-formed input waveforms, reading the four operand
    regions, evaluating `waveEval` and storing the result into the output region (with ANY left-overs `junk` behind the
    terminator) honours the contract at every step: every result fits, the operands stay well formed -/
theorem wave_memory_run_exists (p : MapIn) (hc : p.check = none) (h4 : 4 ≤ p.capsMin) (delay : Nat → Bool → Bool → Int)
    (hd : ∀ l a b, 0 ≤ delay l a b) (junk : Int → Nat → Wv → (Int → T) → Int → T)
    (sched : List Nat) (hsched : p.schedOKB sched = true) (m0 : Int → T) (env0 : Nat → Wv) (henv : ∀ x, (env0 x).ok)
    (h0 : ∀ x ∈ p.tracked, (∀ o ∈ p.ops, o.out ≠ x) → rdWave (p.loc x) (p.cap x) m0 = env0 x) :
    WaveRun p (wcfg p delay) (schedOps p sched) m0
      (memRun p (waveRW junk) (waveRow (wcfg p delay) p) (schedOps p sched) m0) :=
  wave_memRun_ok p hc h4 delay hd junk sched (schedOKB_sound p sched hsched).1 m0 env0 henv h0

/-- `wave_settles` on memory: what the region of output slot `j` holds after the run is a well-formed waveform that
    starts at the Boolean function (2-valued simulation of the rows `LogicSim` runs, operands resolved through the stems)
    of the inputs' initial values and ends at the Boolean function of their final values -/
theorem wave_memory_settles (p : MapIn) (hc : p.check = none) (h4 : 4 ≤ p.capsMin) (delay : Nat → Bool → Bool → Int)
    (hd : ∀ l a b, 0 ≤ delay l a b) (sched : List Nat) (hsched : p.schedOKB sched = true) (m0 m' : Int → T)
    (env0 : Nat → Wv) (henv : ∀ x, (env0 x).ok)
    (h0 : ∀ x ∈ p.tracked, (∀ o ∈ p.ops, o.out ≠ x) → rdWave (p.loc x) (p.cap x) m0 = env0 x)
    (hrun : WaveRun p (wcfg p delay) (schedOps p sched) m0 m') (j s : Nat) (hjs : (j, s) ∈ p.ppoSrcs) :
    (rdWave (p.loc j) (p.cap j) m').ok ∧
    (rdWave (p.loc j) (p.cap j) m').init = exec lutSem (p.ops.map (sigOp p)) (fun x => (env0 x).init) s ∧
    (rdWave (p.loc j) (p.cap j) m').final = exec lutSem (p.ops.map (sigOp p)) (fun x => (env0 x).final) s := by
  rw [wave_memory_sound p hc delay sched hsched m0 m' env0 h0 hrun j s hjs]
  have := wave_settles (wcfg p delay) (waveProg p) (wcfg_good p hc h4 delay hd) env0 henv s
  unfold waveProg at this ⊢
  rw [exec_waveProg lutSem first4_lutSem, exec_waveProg lutSem first4_lutSem] at this
  exact this

/-- **end to end on the real memory layout, ALL circuits, no per-instance certificate.** `p` = the map record the
    `SimOps` model builds (`genOps`, `stemsOf`, `levelise`, `memMap` with the first-fit allocator; equal to the real `ops`,
    `level_starts`, `c_locs`, `c_caps`, `c_len` by exact correspondence) for ANY netlist with `Net.wfB`, topological order,
    `strip_forks` setting (`forksOKB` when on), `c_reuse` setting, capacity vector, `c_caps_min ≥ 4` (WaveSim passes 4);
    delays ≥ 0; initial memory `m0` whose input slots and zero slot hold well-formed waveforms; `m'` ANY memory reached by
    evaluator calls honouring `WaveStep` in ANY order certified by `schedOKB` (program order, or a permutation inside the
    levels). Then for every interface node `n` (output port, flip-flop, latch) at position `i` whose data pin reads line
    `l`, the region of output slot `i` — what `c_to_s` scans — holds a well-formed waveform `w` that IS the signal-level
    waveform of the captured signal, whose initial value is `vi l` and whose final value is `vf l`, where `vi` / `vf` are
    ANY solution of the netlist's gate equations (rows of the un-stripped program, 2-valued LUT semantics) for the
    initial / final values of the input waveforms; and `wave_capture` returns exactly these as `s[3]`, `s[6]` for every
    capture time. -/
theorem wave_sim_end_to_end_all_circuits (tbl : List PrefixRow) (net : Net) (order : List Nat) (strip : Bool)
    (capsIn : Nat → Nat) (capsMin : Nat) (reuse : Bool) (p : MapIn)
    (hp : p = simopsMap tbl net order strip capsIn capsMin reuse)
    (hwf : net.wfB = true) (ho : orderOKB net order = true) (hf : strip = true → forksOKB net order = true)
    (hr : readsDrivenB tbl net order = true) (h4 : 4 ≤ capsMin)
    (delay : Nat → Bool → Bool → Int) (hd : ∀ l a b, 0 ≤ delay l a b)
    (sched : List Nat) (hsched : p.schedOKB sched = true) (m0 m' : Int → T)
    (hin : ∀ x, x ∈ p.ppiSlots ∨ x = p.ix.zero → (rdWave (p.loc x) (p.cap x) m0).ok)
    (hrun : WaveRun p (wcfg p delay) (schedOps p sched) m0 m')
    (vi vf : Nat → Bool)
    (hvi : SolvesJ (Jt net) (fun op => lutSem op.code) ((genOps tbl net order false).map OpRow.toOp)
      (fun x => (inputEnv p m0 x).init) vi)
    (hvf : SolvesJ (Jt net) (fun op => lutSem op.code) ((genOps tbl net order false).map OpRow.toOp)
      (fun x => (inputEnv p m0 x).final) vf)
    (n i l : Nat) (hn : (n, i) ∈ net.sNodes.zipIdx) (hl : (net.node n).inPin 0 = some l) (time : T) :
    let w := rdWave (p.loc (net.idx.ppo + i)) (p.cap (net.idx.ppo + i)) m'
    w = simWave (wcfg p delay) (waveProg p) (inputEnv p m0) (p.src l) ∧
    w.ok ∧ w.init = vi l ∧ w.final = vf l ∧
    (captureWv w time).init = vi l ∧ (captureWv w time).final = vf l := by
  intro w
  have hc : p.check = none := by
    rw [hp]; exact simopsMap_accepted tbl net order strip capsIn capsMin reuse hwf ho hf hr (by omega)
  have hcm : p.capsMin = capsMin := by rw [hp]; rfl
  have hnet : p.net = net := by rw [hp]; rfl
  have hjs : (net.idx.ppo + i, p.src l) ∈ p.ppoSrcs := by
    have := mem_ppoSrcs p (n := n) (i := i) (l := l) (by rw [hnet]; exact hn) (by rw [hnet]; exact hl)
    have hix : p.ix = net.idx := by show p.net.idx = _; rw [hnet]
    rw [hix] at this; exact this
  have hsound := wave_memory_sound p hc delay sched hsched m0 m' (inputEnv p m0) (inputEnv_h0 p m0) hrun _ _ hjs
  obtain ⟨hok, hi, hfin⟩ := wave_memory_settles p hc (by omega) delay hd sched hsched m0 m' (inputEnv p m0)
    (inputEnv_ok p m0 hin) (inputEnv_h0 p m0) hrun _ _ hjs
  have hci : w.init = vi l := by
    show (rdWave _ _ m').init = _
    rw [hi, hp]
    exact captured_logic tbl net order strip capsIn capsMin reuse hwf ho hf hr lutSem false lutSem_buf1 _ vi
      (hp ▸ hvi) n i l hn hl
  have hcf : w.final = vf l := by
    show (rdWave _ _ m').final = _
    rw [hfin, hp]
    exact captured_logic tbl net order strip capsIn capsMin reuse hwf ho hf hr lutSem false lutSem_buf1 _ vf
      (hp ▸ hvf) n i l hn hl
  refine ⟨hsound, hok, hci, hcf, ?_, ?_⟩
  · rw [capture_spec]; exact hci
  · rw [capture_spec]; exact hcf

/-! ### non-vacuity of the memory-level theorems
`Wave.memDemo` (Proofs/WaveMemDemo.lean): `o = INV1(AND2(a, b))` with a fork behind each input as
`WaveSim(c_caps=4, c_reuse=True, strip_forks=True)` lays it out (branches alias their stems, line 5 and the output slot re-use
the region of line 0 at cells 20…23); input `a` rises at 5, `b` is constant 1. -/

/-- every hypothesis of `wave_sim_end_to_end_all_circuits` holds for it — the run is the deterministic one of
    `wave_memory_run_exists`, executed with the two input rows swapped, with arbitrary left-overs behind the terminators —
    and the conclusion is not trivial: the region of the output slot (cells 20…23, first used by line 0) ends up holding
    `[TMIN, 8]`: the output is initially 1 and falls at 5 + 3 gate delays -/
example (junk : Int → Nat → Wv → (Int → T) → Int → T) :
    rdWave 20 4 (memRun memDemo (waveRW junk) (waveRow (wcfg memDemo memDemoDelay) memDemo)
      (schedOps memDemo [1, 0, 2, 3]) memDemoM0) = ⟨[T.tmin, T.fin 8], T.tmax⟩ := by
  have hw := genOps_WOJ Gen.kindPrefixes memDemoNet memDemoOrder false memDemo_hyps.1 memDemo_hyps.2.1
  have key := (wave_sim_end_to_end_all_circuits Gen.kindPrefixes memDemoNet memDemoOrder true (fun _ => 4) 4 true memDemo rfl
    memDemo_hyps.1 memDemo_hyps.2.1 (fun _ => memDemo_hyps.2.2.1) memDemo_hyps.2.2.2 (by decide)
    memDemoDelay memDemoDelay_nonneg [1, 0, 2, 3] memDemo_tables.2.2.2.2.2 memDemoM0 _ memDemo_inputs (memDemo_run junk) _ _
    (execG_solution _ _ _ hw _) (execG_solution _ _ _ hw _) 6 2 5 (by decide +kernel) (by decide +kernel) T.tmax).1
  have hloc : memDemo.loc (memDemoNet.idx.ppo + 2) = 20 ∧ memDemo.cap (memDemoNet.idx.ppo + 2) = 4 := by decide +kernel
  rw [hloc.1, hloc.2] at key
  rw [key]
  exact memDemo_sim

/-- the demo memory is what `s_to_c` leaves for `a = (0, 5, 1)`, `b = (1, ·, 1)` (hypotheses of `stimulus_memory_ok`), and the
    regions written by the rows avoid their operands' regions although line 5 re-uses the region of line 0 -/
example :
    let stim : Nat → Bool × Int × Bool := fun x => if x = 9 then (false, 5, true) else (true, 0, true)
    (∀ x ∈ memDemo.ppiSlots, (cells (memDemo.loc x) (memDemo.cap x) memDemoM0).take 3 =
      stimCells (stim x).1 (stim x).2.1 (stim x).2.2) ∧
    (cells (memDemo.loc memDemo.ix.zero) (memDemo.cap memDemo.ix.zero) memDemoM0).head? = some T.tmax ∧
    memDemo.loc 5 = memDemo.loc 0 ∧
    (memDemo.ops.all fun o => o.ins.all fun i => !memDemo.overlap i o.out) = true := by
  intro stim
  rw [memDemo_tables.2.2.1]
  decide +kernel

/-! ## the code-path model is such a run
The memory-level theorems above speak about ANY run whose evaluator calls honour `WaveStep`. `WaveIO.cpuCProp` / `gpuCProp`
(Model/WaveIO.lean: `WaveSim.c_prop` / `WaveSimCuda.c_prop` as the code has them — nested loops / kernel launches over lanes, the waveform
evaluator `evWave` reading and writing the lane's column; run by the driver on the raw memory, tables, delays and `simctl` of real `WaveSim` / `WaveSimCuda` objects: C06 clause `path-tie-cprop`, driver `wio-cprop` — the waveform every region READS AS and every accumulator, every lane; cells behind a terminator are not compared, the real evaluator leaves popped entries there) is one: -/
open KV.WaveIO in
/-- **a lane of `c_prop` is a propagation in the sense of the memory theorems**: `p` an accepted map record with `c_caps_min ≥ 4`,
    delays ≥ 0, the op / level tables of the run list the rows of `p` in an order certified by `schedOKB` (`hrows`), lane `k < sims`,
    the lane's initial column holds well-formed stimulus waveforms — then the lane's column after `cpuCProp` with the waveform
    evaluator is `Propagated` from its initial column -/
theorem cprop_is_propagation (p : MapIn) (hc : p.check = none) (h4 : 4 ≤ p.capsMin) (delay : Nat → Bool → Bool → Int)
    (hd : ∀ l a b, 0 ≤ delay l a b) (ops : List AOp) (levels : List (Nat × Nat)) (sims : Nat) (S : Nat → LaneSt) (k : Nat)
    (hk : k < sims) (order : List Nat) (horder : p.schedOKB order = true)
    (hrows : (WaveIO.sched ops levels).map (·.op) = schedOps p order)
    (env0 : Nat → Wv) (henv : ∀ x, (env0 x).ok) (h0 : Stimulus p (S k).c env0) :
    Propagated p delay (S k).c (cpuCProp (evWave (fun _ => wcfg p delay) p.loc) ops levels sims S k).c := by
  refine ⟨order, horder, ?_⟩
  rw [cpuCProp_lane _ ops levels sims S k hk, laneRun_c]
  have hcap : ∀ o ∈ WaveIO.sched ops levels, 2 ≤ p.cap o.op.out := by
    intro o ho
    have hmem : o.op ∈ schedOps p order := by rw [← hrows]; exact List.mem_map_of_mem ho
    have := cap_ge_of_check p hc o.op (mem_schedOps hmem)
    omega
  rw [laneMem_eq_memRun p delay k _ _ hcap, hrows]
  exact wave_memory_run_exists p hc h4 delay hd keepJunk order horder (S k).c env0 henv h0

open KV.WaveIO in
/-- **the propagation of the code-path model computes the signal-level waveforms** (both paths, every block shape): under the
    hypotheses of `cprop_is_propagation` the region of every output slot `j` of lane `k` — read as `c_to_s` / `wave_capture` scan it —
    holds the waveform `simWave` assigns to the captured signal -/
theorem cprop_memory_sound (p : MapIn) (hc : p.check = none) (h4 : 4 ≤ p.capsMin) (delay : Nat → Bool → Bool → Int)
    (hd : ∀ l a b, 0 ≤ delay l a b) (ops : List AOp) (levels : List (Nat × Nat)) (sims bx by_ : Nat) (hbx : 0 < bx) (hby : 0 < by_)
    (S : Nat → LaneSt) (k : Nat) (hk : k < sims) (order : List Nat) (horder : p.schedOKB order = true)
    (hrows : (WaveIO.sched ops levels).map (·.op) = schedOps p order)
    (env0 : Nat → Wv) (henv : ∀ x, (env0 x).ok) (h0 : Stimulus p (S k).c env0) (j s : Nat) (hjs : (j, s) ∈ p.ppoSrcs) :
    readWave (rdCells (cpuCProp (evWave (fun _ => wcfg p delay) p.loc) ops levels sims S k).c (p.loc j) (p.cap j)) =
        simWave (wcfg p delay) (waveProg p) env0 s ∧
    gpuCProp (evWave (fun _ => wcfg p delay) p.loc) ops levels sims bx by_ S =
        cpuCProp (evWave (fun _ => wcfg p delay) p.loc) ops levels sims S := by
  refine ⟨?_, gpuCProp_eq_cpuCProp _ ops levels sims bx by_ hbx hby S⟩
  rw [readWave_rdCells_eq]
  exact propagated_eq_sim p hc delay _ _ env0 h0
    (cprop_is_propagation p hc h4 delay hd ops levels sims S k hk order horder hrows env0 henv h0) j s hjs

open KV.WaveIO in
/-- non-vacuity on `Wave.memDemo` (strip + reuse): its four rows as the op table of the code-path model, levels `[0,2) [2,3) [3,4)`,
    two lanes, program order — the hypotheses of `cprop_memory_sound` hold and output slot 14 of lane 0 reads as the signal-level
    waveform of line 5 -/
example :
    let ops : List AOp := memDemo.ops.map fun o => ⟨o, -1, 0, 0⟩
    let S : Nat → LaneSt := fun _ => ⟨memDemoM0, fun _ => 0⟩
    readWave (rdCells (cpuCProp (evWave (fun _ => wcfg memDemo memDemoDelay) memDemo.loc) ops [(0, 2), (2, 3), (3, 4)] 2 S 0).c
        (memDemo.loc 14) (memDemo.cap 14)) =
      simWave (wcfg memDemo memDemoDelay) (waveProg memDemo) (inputEnv memDemo memDemoM0) 5 := by
  intro ops S
  exact (cprop_memory_sound memDemo memDemo_check (by decide) memDemoDelay memDemoDelay_nonneg ops [(0, 2), (2, 3), (3, 4)] 2 1 1
    (by decide) (by decide) S 0 (by decide) [0, 1, 2, 3] (by decide +kernel) (by decide +kernel)
    (inputEnv memDemo memDemoM0) (inputEnv_ok memDemo memDemoM0 memDemo_inputs) (stimulus_inputEnv memDemo memDemoM0) 14 5
    (by rw [memDemo_tables.2.2.2.1]; exact List.mem_singleton.2 rfl)).1

open KV.WaveIO in
/-- **program order, hypotheses on the tables only**: the op table of the run lists the rows of `p` (`ops.map (·.op) = p.ops`), the
    level table is `zip(level_starts, level_stops)` of boundaries `0 = b₀ ≤ b₁ ≤ … ≤ b_m = len(ops)` (what the levelisation produces:
    `C07.levels_contiguous`) — then every output slot of every lane `k < sims` reads, after `c_prop` of either path, as the
    signal-level waveform of the captured signal -/
theorem cprop_program_order_sound (p : MapIn) (hc : p.check = none) (h4 : 4 ≤ p.capsMin) (delay : Nat → Bool → Bool → Int)
    (hd : ∀ l a b, 0 ≤ delay l a b) (ops : List AOp) (hops : ops.map (·.op) = p.ops) (bs : List Nat)
    (hbs : List.Pairwise (· ≤ ·) (0 :: bs)) (hlast : (bs.getLast?).getD 0 = ops.length)
    (sims bx by_ : Nat) (hbx : 0 < bx) (hby : 0 < by_) (S : Nat → LaneSt) (k : Nat) (hk : k < sims)
    (env0 : Nat → Wv) (henv : ∀ x, (env0 x).ok) (h0 : Stimulus p (S k).c env0) (j s : Nat) (hjs : (j, s) ∈ p.ppoSrcs) :
    readWave (rdCells (gpuCProp (evWave (fun _ => wcfg p delay) p.loc) ops (WaveIO.levelPairs 0 bs) sims bx by_ S k).c (p.loc j) (p.cap j)) =
      simWave (wcfg p delay) (waveProg p) env0 s := by
  rw [gpuCProp_eq_cpuCProp _ ops _ sims bx by_ hbx hby, readWave_rdCells_eq, cpuCProp_lane _ ops _ sims S k hk, laneRun_c,
    sched_contiguous ops bs hbs hlast]
  have hcap : ∀ o ∈ ops, 2 ≤ p.cap o.op.out := by
    intro o ho
    have hmem : o.op ∈ p.ops := by rw [← hops]; exact List.mem_map_of_mem ho
    have := cap_ge_of_check p hc o.op hmem
    omega
  rw [laneMem_eq_memRun p delay k ops _ hcap, hops]
  exact propagated_eq_sim p hc delay _ _ env0 h0 (propagated_exists p hc h4 delay hd keepJunk (S k).c env0 henv h0) j s hjs

end KV.C03
