import KyupyVerif.Proofs.WaveExact
/-! # C13 — capture results and switching-activity counts faithfully summarise waveforms

Models (M): `Wave.captureWv` = `wave_capture_cpu` / `wave_capture_gpu` with `sd = 0`; `Wave.waveCounts` = the
`(nrise, nfall)` pair `_wave_eval` returns; `Wave.accumulate` = the `abuf[a_loc, sim] += nrise*a_wr + nfall*a_wf`
updates of `level_eval_cpu` / `wave_eval_gpu`. Tied to the code by correspondence (harness/c13.py). -/
namespace KV.C13
open KV KV.Sig KV.Wave

/-- after capture: initial value, earliest arrival, latest stabilisation, final value, the value just before
    the capture time `T` and the overflow indicator are exactly what the waveform encodes — for every waveform
    and every capture time -/
theorem capture_faithful (w : Wv) (time : T) :
    captureWv w time =
      { init := w.init, eat := specEat w, lst := specLst w, final := w.final,
        val := valueAt w time, ovl := w.term == T.tovl } := capture_spec w time

/-- the transition counts returned by the evaluator are the numbers of rising and falling transitions of the
    waveform it stores (a leading `tmin` is the initial value, not a transition) -/
theorem counts_faithful (cfg : WCfg) (op : Op) (xs : List Wv) (hd : ∀ l p q, 0 ≤ cfg.delay l p q)
    (hc : 4 ≤ cfg.cap op.out) (hx : ∀ x ∈ xs, x.ok) :
    waveCounts cfg op xs = countTrans false (waveSem cfg op xs).ents := by
  have hok := waveSem_ok cfg op xs hd hc hx
  rw [counts_spec _ hok.1]
  unfold waveCounts waveSem waveEval
  simp only []

/-- whenever the overflow indicator of a signal is clear, its waveform is identical to the one computed with
    any larger capacities (in particular unlimited capacity) — for every program, delays ≥ 0, inputs -/
theorem clear_means_exact (cfg cfg' : WCfg) (hdel : cfg'.delay = cfg.delay) (hcap : ∀ i, cfg.cap i ≤ cfg'.cap i)
    (ops : List Op) (hg : cfg.Good ops) (env : Nat → Wv) (henv : ∀ l, (env l).ok) (l : Nat)
    (hclear : (simWave cfg ops env l).term ≠ T.tovl) :
    simWave cfg' ops env l = simWave cfg ops env l :=
  Wave.clear_means_exact cfg cfg' hdel hcap ops hg env henv l hclear

/-- accumulated weighted switching activity: per accumulator the start value plus the weighted counts of all
    contributions addressed to it … -/
theorem abuf_sum (ab : Nat → Int) (cs : List Contrib) (a : Nat) :
    accumulate ab cs a = ab a + totalFor a cs := accumulate_spec ab cs a
/-- … independent of the order in which ops / threads add them -/
theorem abuf_order_independent (ab : Nat → Int) (cs cs' : List Contrib) (h : cs.Perm cs') :
    accumulate ab cs = accumulate ab cs' := accumulate_perm ab cs cs' h

/-- non-vacuity: a waveform that starts high, falls at 4, rises at 9; captured at 6 → value 0 -/
example : captureWv ⟨[T.tmin, T.fin 4, T.fin 9], T.tmax⟩ (T.fin 6) =
    { init := true, eat := T.fin 4, lst := T.fin 9, final := true, val := false, ovl := false } := by decide +kernel
example : countTrans false [T.tmin, T.fin 4, T.fin 9] = (1, 1) := by decide +kernel
example : accumulate (fun _ => 0) [⟨some 1, 3⟩, ⟨none, 5⟩, ⟨some 1, -2⟩, ⟨some 0, 7⟩] 1 = 1 := by decide +kernel

end KV.C13
