import KyupyVerif.Proofs.WaveExact
import KyupyVerif.Proofs.WaveMemCirc
import KyupyVerif.Proofs.WaveMemDemo
import KyupyVerif.Proofs.Activity
import KyupyVerif.Proofs.ActivityCirc
/-! # C13 — capture results and switching-activity counts faithfully summarise waveforms

Models (M): `Wave.captureWv` = `wave_capture_cpu` / `wave_capture_gpu` with `sd = 0`; `Wave.waveCounts` = the
`(nrise, nfall)` pair `_wave_eval` returns; `Wave.accumulate` = the `abuf[a_loc, sim] += nrise*a_wr + nfall*a_wf`
updates of `level_eval_cpu` / `wave_eval_gpu`. Tied to the code by correspondence (harness/c13.py); since the audit (finding 9) the
accumulation itself is RUN by the driver (`accum`: `Wave.accumulate` on the zero row, fed with the model's per-op counts and the real
accumulation-control columns 6..8 of `ops`, once per propagation) and compared with the real `abuf` — the former Python
re-implementation of the sum is gone. `abuf_sum` / `abuf_order_independent` are statements about ANY contribution list; the statement
"after `c_prop` accumulator `a` of lane `x` grew by Σ over the rows with `aLoc = a` of `aWr·nrise + aWf·nfall` of the waveform the row
produced" is the theorem `activity_all_programs` (last section; `activity_all_circuits`: on the real memory layout in terms of signal-level waveforms; over `WaveIO.cpuCProp` / `gpuCProp` with `accAdd`, for EVERY op table,
level table, lane count, block shape and evaluator function — in particular the tables of every circuit), with
`activity_counts_are_transitions` for the evaluator `evWave` built from the waveform model.

**Memory level** (last section; memory model in the header of Props/C03.lean): `wave_capture` scans the region
`c[c_loc : c_loc + c_len]` of an output slot up to the first cell `≥ TMAX` — that is `captureWv (rdWave c_loc c_len m)`.
`capture_faithful_mem`: after ANY propagation on the real layout (accepted map certificate) the record captured at output
slot `j` is the faithful summary of the SIGNAL-LEVEL waveform of the captured signal; `clear_means_exact_mem`: if its overflow
indicator is clear, the stored waveform is the one a simulation with any larger (unlimited) capacities computes;
`counts_faithful_mem`: the counts an evaluator call returns are the transitions of the waveform it left in the output region;
`capture_all_circuits`: for the tables of the `SimOps` model of every circuit. -/
namespace KV.C13
open KV KV.Sig KV.Wave

/-- after capture: initial value, earliest arrival, latest stabilisation, final value, the value just before
    the capture time `T` and the overflow indicator are exactly what the waveform encodes — for every waveform
    and every capture time -/
theorem capture_faithful (w : Wv) (time : T) :
    captureWv w time =
      { init := w.init, eat := specEat w, lst := specLst w, final := w.final,
        val := valueAt w time, ovl := w.term == T.tovl } := capture_spec w time

/-- the transition counts returned by the evaluator are the numbers of rising and falling transitions of the
    waveform it stores (a leading `tmin` is the initial value, not a transition) -/
theorem counts_faithful (cfg : WCfg) (op : Op) (xs : List Wv) (hd : ∀ l p q, 0 ≤ cfg.delay l p q)
    (hc : 4 ≤ cfg.cap op.out) (hx : ∀ x ∈ xs, x.ok) :
    waveCounts cfg op xs = countTrans false (waveSem cfg op xs).ents := by
  have hok := waveSem_ok cfg op xs hd hc hx
  rw [counts_spec _ hok.1]
  unfold waveCounts waveSem waveEval
  simp only []

/-- whenever the overflow indicator of a signal is clear, its waveform is identical to the one computed with
    any larger capacities (in particular unlimited capacity) — for every program, delays ≥ 0, inputs -/
theorem clear_means_exact (cfg cfg' : WCfg) (hdel : cfg'.delay = cfg.delay) (hcap : ∀ i, cfg.cap i ≤ cfg'.cap i)
    (ops : List Op) (hg : cfg.Good ops) (env : Nat → Wv) (henv : ∀ l, (env l).ok) (l : Nat)
    (hclear : (simWave cfg ops env l).term ≠ T.tovl) :
    simWave cfg' ops env l = simWave cfg ops env l :=
  Wave.clear_means_exact cfg cfg' hdel hcap ops hg env henv l hclear

/-- accumulated weighted switching activity: per accumulator the start value plus the weighted counts of all
    contributions addressed to it … -/
theorem abuf_sum (ab : Nat → Int) (cs : List Contrib) (a : Nat) :
    accumulate ab cs a = ab a + totalFor a cs := accumulate_spec ab cs a
/-- … independent of the order in which ops / threads add them -/
theorem abuf_order_independent (ab : Nat → Int) (cs cs' : List Contrib) (h : cs.Perm cs') :
    accumulate ab cs = accumulate ab cs' := accumulate_perm ab cs cs' h

/-- non-vacuity: a waveform that starts high, falls at 4, rises at 9; captured at 6 → value 0 -/
example : captureWv ⟨[T.tmin, T.fin 4, T.fin 9], T.tmax⟩ (T.fin 6) =
    { init := true, eat := T.fin 4, lst := T.fin 9, final := true, val := false, ovl := false } := by decide +kernel
example : countTrans false [T.tmin, T.fin 4, T.fin 9] = (1, 1) := by decide +kernel
example : accumulate (fun _ => 0) [⟨some 1, 3⟩, ⟨none, 5⟩, ⟨some 1, -2⟩, ⟨some 0, 7⟩] 1 = 1 := by decide +kernel

/-! ## memory level -/
open KV.MapSound

/-- **capture on memory is faithful to the signal level**: accepted map; after ANY propagation the record `wave_capture`
    computes from the region of output slot `j` (initial value, earliest arrival, latest stabilisation, final value, value at
    the capture time, overflow indicator) is exactly the summary of the waveform `simWave` computes for the captured signal —
    for every capture time -/
theorem capture_faithful_mem (p : MapIn) (hc : p.check = none) (delay : Nat → Bool → Bool → Int) (m0 m' : Int → T)
    (env0 : Nat → Wv) (hst : Stimulus p m0 env0) (hpr : Propagated p delay m0 m') (j s : Nat) (hjs : (j, s) ∈ p.ppoSrcs)
    (time : T) :
    let w := simWave (wcfg p delay) (waveProg p) env0 s
    captureWv (rdWave (p.loc j) (p.cap j) m') time =
      { init := w.init, eat := specEat w, lst := specLst w, final := w.final, val := valueAt w time,
        ovl := w.term == T.tovl } := by
  intro w
  rw [propagated_eq_sim p hc delay m0 m' env0 hst hpr j s hjs]
  exact capture_spec w time

/-- **clear means exact, on memory**: if the overflow indicator captured at output slot `j` is clear, the waveform stored in
    its region is identical to the one a simulation with ANY larger capacities `cfg'` (same delays; in particular unlimited
    capacity) computes for the captured signal -/
theorem clear_means_exact_mem (p : MapIn) (hc : p.check = none) (h4 : 4 ≤ p.capsMin) (delay : Nat → Bool → Bool → Int)
    (hd : ∀ l a b, 0 ≤ delay l a b) (m0 m' : Int → T) (env0 : Nat → Wv) (henv : ∀ l, (env0 l).ok)
    (hst : Stimulus p m0 env0) (hpr : Propagated p delay m0 m') (j s : Nat) (hjs : (j, s) ∈ p.ppoSrcs) (time : T)
    (cfg' : WCfg) (hdel : cfg'.delay = delay) (hcap : ∀ i, p.cap i ≤ cfg'.cap i)
    (hclear : (captureWv (rdWave (p.loc j) (p.cap j) m') time).ovl = false) :
    rdWave (p.loc j) (p.cap j) m' = simWave cfg' (waveProg p) env0 s := by
  have hsim := propagated_eq_sim p hc delay m0 m' env0 hst hpr j s hjs
  rw [hsim] at hclear ⊢
  have hne : (simWave (wcfg p delay) (waveProg p) env0 s).term ≠ T.tovl := by
    intro e
    simp [captureWv, e] at hclear
  exact (clear_means_exact (wcfg p delay) cfg' hdel hcap (waveProg p) (wcfg_good p hc h4 delay hd) env0 henv s hne).symm

/-- **counts on memory**: for one evaluator call honouring `WaveStep` (delays ≥ 0, output capacity ≥ 4, well-formed
    operand waveforms in memory) the `(nrise, nfall)` it returns for the operands it read are the numbers of rising and
    falling transitions of the waveform it left in the region of its output -/
theorem counts_faithful_mem (p : MapIn) (cfg : WCfg) (o : OpRow) (m m' : Int → T) (hd : ∀ l a b, 0 ≤ cfg.delay l a b)
    (hcap : 4 ≤ cfg.cap o.out) (hstep : WaveStep p cfg o m m')
    (hargs : ∀ i ∈ o.ins, (rdWave (p.loc i) (p.cap i) m).ok) :
    waveCounts cfg (wvOp p o) (o.ins.map fun i => rdWave (p.loc i) (p.cap i) m) =
      countTrans false (rdWave (p.loc o.out) (p.cap o.out) m').ents := by
  rw [hstep.2]
  apply counts_faithful cfg (wvOp p o) _ hd hcap
  intro x hx
  obtain ⟨i, hi, rfl⟩ := List.mem_map.1 hx
  exact hargs i hi

/-- **all circuits**: for the map record of the `SimOps` model of ANY well-formed netlist, topological order, `strip_forks` /
    `c_reuse` setting, capacity vector and `c_caps_min ≥ 4`: what `c_to_s` captures at the output slot of interface node `n`
    (position `i`, data pin on line `l`) after any propagation is the faithful summary of the signal-level waveform of the
    captured signal `src l`, and a clear overflow indicator means that waveform is exact -/
theorem capture_all_circuits (tbl : List PrefixRow) (net : Net) (order : List Nat) (strip : Bool)
    (capsIn : Nat → Nat) (capsMin : Nat) (reuse : Bool) (p : MapIn)
    (hp : p = simopsMap tbl net order strip capsIn capsMin reuse)
    (hwf : net.wfB = true) (ho : orderOKB net order = true) (hf : strip = true → forksOKB net order = true)
    (hr : readsDrivenB tbl net order = true) (h4 : 4 ≤ capsMin)
    (delay : Nat → Bool → Bool → Int) (hd : ∀ l a b, 0 ≤ delay l a b) (m0 m' : Int → T) (env0 : Nat → Wv)
    (henv : ∀ l, (env0 l).ok) (hst : Stimulus p m0 env0) (hpr : Propagated p delay m0 m')
    (n i l : Nat) (hn : (n, i) ∈ net.sNodes.zipIdx) (hl : (net.node n).inPin 0 = some l) (time : T) :
    let w := simWave (wcfg p delay) (waveProg p) env0 (p.src l)
    let r := rdWave (p.loc (net.idx.ppo + i)) (p.cap (net.idx.ppo + i)) m'
    captureWv r time = { init := w.init, eat := specEat w, lst := specLst w, final := w.final, val := valueAt w time,
                         ovl := w.term == T.tovl } ∧
    ((captureWv r time).ovl = false → ∀ cfg' : WCfg, cfg'.delay = delay → (∀ x, p.cap x ≤ cfg'.cap x) →
      r = simWave cfg' (waveProg p) env0 (p.src l)) := by
  intro w r
  have hc : p.check = none := by
    rw [hp]; exact simopsMap_accepted tbl net order strip capsIn capsMin reuse hwf ho hf hr (by omega)
  have hnet : p.net = net := by rw [hp]; rfl
  have hjs : (net.idx.ppo + i, p.src l) ∈ p.ppoSrcs := by
    have := mem_ppoSrcs p (n := n) (i := i) (l := l) (by rw [hnet]; exact hn) (by rw [hnet]; exact hl)
    have hix : p.ix = net.idx := by show p.net.idx = _; rw [hnet]
    rw [hix] at this; exact this
  refine ⟨capture_faithful_mem p hc delay m0 m' env0 hst hpr _ _ hjs time, ?_⟩
  intro hclear cfg' hdel hcap
  exact clear_means_exact_mem p hc (by rw [hp]; exact h4) delay hd m0 m' env0 henv hst hpr _ _ hjs time cfg' hdel hcap hclear

/-- non-vacuity on `Wave.memDemo` (strip + reuse; `a` rises at 5, `b` constant 1): what is captured from cells 20…23 of the
    real layout after the propagation, at capture time 6 -/
example (junk : Int → Nat → Wv → (Int → T) → Int → T) :
    captureWv (rdWave 20 4 (memRun memDemo (waveRW junk) (waveRow (wcfg memDemo memDemoDelay) memDemo)
      (schedOps memDemo [1, 0, 2, 3]) memDemoM0)) (T.fin 6) =
    { init := true, eat := T.fin 8, lst := T.fin 8, final := false, val := true, ovl := false } := by
  have key := capture_faithful_mem memDemo memDemo_check memDemoDelay memDemoM0 _ (inputEnv memDemo memDemoM0)
    (stimulus_inputEnv _ _) (memDemo_propagated junk) 14 5 (by decide +kernel) (T.fin 6)
  have hloc : memDemo.loc 14 = 20 ∧ memDemo.cap 14 = 4 := by decide +kernel
  rw [hloc.1, hloc.2] at key
  rw [key, memDemo_sim]
  decide +kernel

/-- non-vacuity of `counts_faithful_mem`: the first evaluator call of that propagation (row `line 1 := BUF1(input slot 10)`,
    operands well formed in the initial memory) -/
example (junk : Int → Nat → Wv → (Int → T) → Int → T) : ∃ m1,
    waveCounts (wcfg memDemo memDemoDelay) (wvOp memDemo ⟨43690, 1, 10, 6, 6, 6⟩)
        ((OpRow.ins ⟨43690, 1, 10, 6, 6, 6⟩).map fun i => rdWave (memDemo.loc i) (memDemo.cap i) memDemoM0) =
      countTrans false (rdWave (memDemo.loc 1) (memDemo.cap 1) m1).ents := by
  have hrun := memDemo_run junk
  have hso : schedOps memDemo [1, 0, 2, 3] =
      ⟨43690, 1, 10, 6, 6, 6⟩ :: [⟨43690, 0, 9, 6, 6, 6⟩, ⟨34952, 4, 2, 3, 6, 6⟩, ⟨21845, 5, 4, 6, 6, 6⟩] := by decide +kernel
  rw [hso] at hrun
  obtain ⟨m1, hstep, _⟩ := waveRun_head hrun
  refine ⟨m1, counts_faithful_mem memDemo _ _ memDemoM0 m1 memDemoDelay_nonneg (by decide +kernel) hstep ?_⟩
  intro i hi
  simp only [OpRow.ins, List.mem_cons, List.not_mem_nil, or_false] at hi
  have h10 : (10 : Nat) ∈ memDemo.ppiSlots := by rw [memDemo_tables.2.2.1]; decide
  rcases hi with rfl | rfl | rfl | rfl
  · exact memDemo_inputs 10 (Or.inl h10)
  all_goals exact memDemo_inputs 6 (Or.inr rfl)

/-! ## accumulated activity of a whole `c_prop` (both code paths)
`WaveIO.cpuCProp` / `gpuCProp` = `WaveSim.c_prop` / `WaveSimCuda.c_prop` of Model/WaveIO.lean (run by the driver on the raw memory and tables of real objects of both classes: C06 clause `path-tie-cprop`, driver `wio-cprop` — waveform of every region and every accumulator of every lane; the same cases evaluate the hypotheses of `activity_all_circuits`: tags `cprop-hyp:*`);
`WaveIO.sched ops levels` = the rows in the order a lane sees them; `laneMem` / `laneTrace` = the lane's memory column after the rows /
the rows with the `(nrise, nfall)` the evaluator returned for them. -/
open KV.WaveIO in
/-- **accumulated switching activity after a propagation** — every evaluator function `ev`, op table with accumulation control,
    level table, lane count `sims`, lane `k < sims`, accumulator `a`: after `c_prop` the accumulator holds its start value plus
    the sum, over the rows addressed to `a` in schedule order, of `nrise·a_wr + nfall·a_wf` with the counts the evaluation of that
    row returned; rows with `a_loc < 0` contribute nothing, negative indices are never written; the lane's memory is the run of
    the rows alone (accumulation does not feed back); lanes `≥ sims` are untouched -/
theorem activity_all_programs (ev : Ev) (ops : List AOp) (levels : List (Nat × Nat)) (sims : Nat) (S : Nat → LaneSt) (k : Nat)
    (hk : k < sims) :
    (∀ a : Nat, (cpuCProp ev ops levels sims S k).ab (a : Int) =
        (S k).ab (a : Int) + totalFor a ((laneTrace ev k (sched ops levels) (S k).c).map contribOf)) ∧
    (∀ a : Int, a < 0 → (cpuCProp ev ops levels sims S k).ab a = (S k).ab a) ∧
    (cpuCProp ev ops levels sims S k).c = laneMem ev k (sched ops levels) (S k).c ∧
    (∀ j, sims ≤ j → cpuCProp ev ops levels sims S j = S j) := by
  rw [cpuCProp_lane ev ops levels sims S k hk]
  refine ⟨fun a => ?_, fun a ha => laneRun_ab_neg ev k _ _ a ha, laneRun_c ev k _ _, fun j hj => cpuCProp_lane_ge ev ops levels sims S j hj⟩
  rw [laneRun_ab, accumulate_spec]

open KV.WaveIO in
/-- the same for the kernel path (`WaveSimCuda.c_prop`, one launch per level, every block shape) -/
theorem activity_all_programs_gpu (ev : Ev) (ops : List AOp) (levels : List (Nat × Nat)) (sims bx by_ : Nat) (hbx : 0 < bx)
    (hby : 0 < by_) (S : Nat → LaneSt) (k : Nat) (hk : k < sims) (a : Nat) :
    (gpuCProp ev ops levels sims bx by_ S k).ab (a : Int) =
      (S k).ab (a : Int) + totalFor a ((laneTrace ev k (sched ops levels) (S k).c).map contribOf) := by
  rw [gpuCProp_eq_cpuCProp ev ops levels sims bx by_ hbx hby]
  exact (activity_all_programs ev ops levels sims S k hk).1 a

open KV.WaveIO in
/-- which counts enter the sum: entry `i` of the trace is row `i` of the schedule with the counts of ITS evaluation on the
    memory the rows before it left (not on the initial memory, not on the final one) -/
theorem activity_trace_entry (ev : Ev) (sim : Nat) (rows : List AOp) (c : Col) (i : Nat) (hi : i < rows.length) :
    ((laneTrace ev sim rows c).map contribOf)[i]'(by rw [List.length_map, laneTrace_length]; exact hi) =
      contribOf (rows[i], (ev rows[i].op sim (laneMem ev sim (rows.take i) c)).2.1,
        (ev rows[i].op sim (laneMem ev sim (rows.take i) c)).2.2) := by
  rw [List.getElem_map, laneTrace_get ev sim rows c i hi]

open KV.WaveIO in
/-- with the waveform evaluator (`evWave`, one configuration; delays ≥ 0, output capacity ≥ 4, well-formed operand waveforms in
    memory) the counts of an evaluation are the rising / falling transitions of the waveform its output region holds afterwards -/
theorem activity_counts_are_transitions (g : WCfg) (loc : Nat → Int) (o : OpRow) (sim : Nat) (c : Col)
    (hd : ∀ l p q, 0 ≤ g.delay l p q) (hc : 4 ≤ g.cap o.out)
    (hx : ∀ i ∈ o.ins, (readWave (rdCells c (loc i) (g.cap i))).ok) :
    (evWave (fun _ => g) loc o sim c).2 =
      countTrans false (readWave (rdCells (evWave (fun _ => g) loc o sim c).1 (loc o.out) (g.cap o.out))).ents :=
  evWave_counts_transitions g loc o sim c hd hc hx

open KV.WaveIO KV.MapSound in
/-- **accumulated activity on the real memory layout, in terms of signal-level waveforms** — `p` an accepted map record (for the
    tables of the `SimOps` model of EVERY well-formed netlist: `C08.simops_map_accepted`) with `c_caps_min ≥ 4`, delays ≥ 0, the op
    table lists the rows of `p` with any accumulation control, contiguous level boundaries, either code path, any block shape, lane
    `k < sims` whose column holds a well-formed stimulus: accumulator `a` ends at its start value plus the sum over the rows
    addressed to `a` of `a_wr·nrise + a_wf·nfall`, where `(nrise, nfall)` are the numbers of rising / falling transitions of the
    waveform the row produces in SIGNAL-LEVEL execution (`sigTrace`: no memory, no regions, operands = the source signals) —
    although regions are shared by stripped branches and re-used by later signals -/
theorem activity_all_circuits (p : MapIn) (hc : p.check = none) (h4 : 4 ≤ p.capsMin) (delay : Nat → Bool → Bool → Int)
    (hd : ∀ l a b, 0 ≤ delay l a b) (ops : List AOp) (hops : ops.map (·.op) = p.ops) (bs : List Nat)
    (hbs : List.Pairwise (· ≤ ·) (0 :: bs)) (hlast : (bs.getLast?).getD 0 = ops.length)
    (sims bx by_ : Nat) (hbx : 0 < bx) (hby : 0 < by_) (S : Nat → LaneSt) (k : Nat) (hk : k < sims)
    (env0 : Nat → Wv) (henv : ∀ x, (env0 x).ok) (h0 : Stimulus p (S k).c env0) (a : Nat) :
    (gpuCProp (evWave (fun _ => wcfg p delay) p.loc) ops (WaveIO.levelPairs 0 bs) sims bx by_ S k).ab (a : Int) =
      (S k).ab (a : Int) + totalFor a
        (List.zipWith (fun (o : AOp) (e : OpRow × Nat × Nat) => contribOf (o, e.2.1, e.2.2)) ops
          (sigTrace p (waveRow (wcfg p delay) p)
            (fun o args => countTrans false (waveRow (wcfg p delay) p o args).ents) p.ops env0)) := by
  rw [activity_all_programs_gpu _ ops _ sims bx by_ hbx hby S k hk a, sched_contiguous ops bs hbs hlast,
    contribs_zip _ ops (laneTrace_rows _ k ops (S k).c),
    laneTrace_eq_sigTrace p hc h4 delay hd k ops hops (S k).c env0 henv h0, sigTrace_counts p hc h4 delay hd env0 henv]

open KV.WaveIO KV.MapSound in
/-- non-vacuity on `Wave.memDemo` (strip + reuse: line 5 re-uses the region of line 0; `a` rises at 5, `b` constant 1): every row
    feeds accumulator 0 with weights `(2, 3)`; signal-level transitions per row `(1,0) (0,0) (1,0) (0,1)` — lane 0 ends at 7 -/
example :
    let ops : List AOp := memDemo.ops.map fun o => ⟨o, 0, 2, 3⟩
    let S : Nat → LaneSt := fun _ => ⟨memDemoM0, fun _ => 0⟩
    (gpuCProp (evWave (fun _ => wcfg memDemo memDemoDelay) memDemo.loc) ops (WaveIO.levelPairs 0 [2, 3, 4]) 2 1 1 S 0).ab 0 = 7 := by
  intro ops S
  have h := activity_all_circuits memDemo memDemo_check (by decide) memDemoDelay memDemoDelay_nonneg ops
    (by simp [ops, List.map_map, Function.comp_def]) [2, 3, 4] (by decide) (by decide +kernel) 2 1 1 (by decide) (by decide) S 0 (by decide)
    (inputEnv memDemo memDemoM0) (inputEnv_ok memDemo memDemoM0 memDemo_inputs) (stimulus_inputEnv memDemo memDemoM0) 0
  rw [show ((0 : Nat) : Int) = 0 from rfl] at h
  rw [h]
  decide +kernel

open KV.WaveIO in
/-- non-vacuity: two levels, three rows (accumulators 1, none, 1; weights (2,3), (5,7), (1,−1)), an evaluator returning
    `(nrise, nfall) = (out, 1)`: lane 0 of 2, accumulator 1 starts at 10 and ends at 10 + (4·2 + 1·3) + (6·1 − 1·1) = 26 -/
example :
    (cpuCProp (fun o _ c => (c, o.out, 1))
      [⟨⟨0, 4, 0, 0, 0, 0⟩, 1, 2, 3⟩, ⟨⟨0, 5, 0, 0, 0, 0⟩, -1, 5, 7⟩, ⟨⟨0, 6, 0, 0, 0, 0⟩, 1, 1, -1⟩] [(0, 2), (2, 3)] 2
      (fun _ => ⟨fun _ => T.tmax, fun _ => 10⟩) 0).ab 1 = 26 := by decide +kernel

end KV.C13
