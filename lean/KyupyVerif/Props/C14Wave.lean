import KyupyVerif.Props.C14
import KyupyVerif.Props.C04
import KyupyVerif.Proofs.SdfWave1
import KyupyVerif.Proofs.SdfWave2
import KyupyVerif.Proofs.SdfWave3
import KyupyVerif.Proofs.SdfWaveDemo
/-! # C14 ∘ C04/C03 — the timing data path: from an SDF description to WaveSim waveforms

`WaveSim(circuit, delays = df.iopaths(circuit, tlib) + df.interconnects(circuit, tlib))` with `df = sdf.parse(text)`.
The models composed here: `KV.SdfText` (grammar of `sdf.py`), `KV.Sdf` (`sdf.py` after lark: `start`, `iopaths`,
`interconnects` over the pin / fork tables of the circuit), the `SimOps` model (`simopsMap`: op rows, levels, memory map
of EVERY circuit) and the waveform model `KV.Wave` (`_wave_eval`, propagation on the real memory layout).
`Model/SdfWave.lean`: `sdfDelay` = the sum of the two annotated arrays for data set `d` as the delay table
`delays[d, line, inpol, outpol]` of a run (`WCfg.delay`); unit: one tick = one thousandth of the SDF time unit, as
`Model/Sdf.lean` keeps the numbers — no scaling between the models.
`sdfDelay` / `sdfCfg` / `textDelay` are PARTIAL, as `Sdf.interconnects` is: `none` exactly when `interconnects = none`, i.e. for
a file without a block that has no INSTANCE name, where the real `df.interconnects(c, tlib)` raises `TypeError` and the sum is
never formed (`sdf_cfg_none_iff`, `sdf_cfg_raises_iff`). Nothing is totalised: every theorem about a run is stated for a
configuration `cfg` with the explicit hypothesis `sdfCfg … = some cfg` (`sdf_cfg_is_array`: then `cfg.delay = iopaths[d] + ic[d]`
for the array `ic` that `interconnects` answers; `sdf_cfg_exists`: a top-level block suffices).

* **Theorem** (kernel-checked, this file):
  - `sdf_cfg_is_array`, `sdf_cfg_none_iff`, `sdf_cfg_raises_iff`, `sdf_cfg_exists`, `wavesim_reads_line_delays`: there is a
    configuration exactly when `interconnects` answers (⇔ the file has a top-level block) and it is that array; for operand
    slot `i` of op row `o` the evaluator uses the four entries of line `o.ins[i]`;
  - `sdf_delays_are_wave_delays` (IOPATH: entry of block `inst`, input pin `ipin`, qualifier polarities, data set `d` ⇒ the
    WaveSim delay of the line at that pin), `sdf_interconnect_delays_are_wave_delays` (the fork line), `sdf_other_lines_zero`
    — from `iopath_lands_file`, `interconnect_lands_file`, `others_zero_*`; `sdf_delays_nonneg`;
  - `sdf_delays_are_wave_delays_net`, `sdf_interconnect_delays_are_wave_delays_net`, `sdf_untabled_lines_zero_net`: the same with
    the two tables READ OFF THE NETLIST (`netPinLine`, `netIcLine` in Model/SdfWave.lean: `circuit.cells.get(name)`,
    `cell.ins[tlib.pin_index(kind, pin)]`, the fork search of `interconnects`, over the canonical dump `Net`, the node names and
    `pin_index`) for EVERY well-formed netlist: the IOPATH line is the line whose reader is the named cell at the library's pin
    position, the INTERCONNECT line ends at a fork, and the side condition "no line is reached by both loops" is a theorem;
  - `sdf_sta_window`: EVERY well-formed netlist, topological order, `strip_forks` / `c_reuse` setting, capacity vector,
    `c_caps_min ≥ 4` (the hypotheses of `C04.wave_timing_all_circuits`), every block list without negative numbers, every data
    set, every propagation on the real memory layout: the waveform in the region of every output slot has all its transitions
    inside the static-timing window `execG (staSem cfg) (waveProg p) win` computed with the SDF-derived delays;
  - `sdf_path_window` / `sdf_chain_arrival`: along a sensitised path (side inputs without transitions) that window is the
    input window moved by the sums of the smallest / largest of the four entries of each line on the path; when those lines
    have polarity-independent delays and the input has a single transition time `t`, every transition at the output slot
    happens at exactly `t + Σ delay(line)`, each summand being an SDF value by the landing theorems;
  - from the TEXT: `sdf_text_delays` (`sdf_text_roundtrip_raw`: the delays read from the printed text of a block list are
    the delays of the block list), `sdf_text_sta_window`, `sdf_text_chain_arrival` (every text the grammar model reads);
  - non-vacuity: `demo*` — the circuit `z = NAND2_X1(INV_X1(a), b)` as `verilog.parse(…, branchforks=True)` builds it (12 nodes,
    11 lines), an SDF text with distinct IOPATH and INTERCONNECT values, `a` rising at 1.000: the output rises at 4.875 =
    1.000 + 0.125 + 1.000 + 0.250 + 2.000 + 0.500, computed by `decide +kernel`, with every hypothesis discharged.
* **Correspondence** (harness/c14.py, clause `sdf-wave`): on generated circuits and SDF texts with values on the dyadic grid the
  real `WaveSim(c, delays=df.iopaths(c, tlib) + df.interconnects(c, tlib))` (all three data sets, both `strip_forks` settings,
  random multi-transition stimuli) against the composition of the models through the driver — `sdftabs`: `netPinLine` / `netIcLine`
  on the dump of the real circuit == the tables exported from the real circuit by structural search (independent of `sdf.py`);
  `sdfwave`: text → grammar model → block list → `sdfDelay` with these tables → `simWave` on the op rows of the `SimOps` model
  (== the real `ops`, `c_locs`, `c_caps`): the delay array cell by cell, the waveform in the region of EVERY output slot and of
  every written signal; on files without top-level block (every 8th case) the real `df.interconnects()` raises `TypeError` and
  the driver must answer `raise:interconnects` (`sdfDelay = none`) — a Python exception of the two annotation calls agrees with
  that error token only, an exception anywhere else with nothing. A mismatch is a broken tie.
  **Hypotheses evaluated per case (audit-2 finding 10):** for every compared `sdf-wave` case the driver evaluates the hypotheses of
  `sdf_sta_window` / `sdf_path_window` / `sdf_text_sta_window` on the REAL objects: `Net.wfB`, `orderOKB`, `forksOKB` (when
  stripping), `readsDrivenB` on the real circuit and its real topological order (`simopscert`, tag `hyp:sdfwave:net:*`) and
  `rawNonneg` on the model's reading of the real SDF text (`sdfwavehyp`, tag `hyp:sdfwave:nonneg:*`); `4 ≤ capsMin` is fixed by the
  harness (`c_caps_min = 4`). The generator promises scheduled cells and values ≥ 0: a case outside is a broken tie.
* **Restrictions (stated, not proved away):**
  - `huniq` of `sdf_delays_are_wave_delays(_net)` / `sdf_interconnect_delays_are_wave_delays(_net)` — all entries that land on
    the same (line, input polarity) carry the same normalised value lists — EXCLUDES cells where two IOPATH entries name the
    same input pin with DIFFERENT values, in particular multi-output cells (`(IOPATH A Z …) (IOPATH A ZN …)`, a full adder's
    `A → S` and `A → CO`): WaveSim keeps one delay per input LINE, the code lets the LAST entry of the file win, and there is no
    last-writer theorem here — for such files the landing theorems are silent (the tie `sdfwave` still compares the arrays);
  - the STA theorems (`sdf_sta_window`, `sdf_path_window`, `sdf_text_sta_window`) use the SDF data only through `≥ 0`
    (`sdfDelay_nonneg`): they are `C04.wave_timing_all_circuits` at the SDF-derived table; the link "window / arrival =
    sum of the SDF values of the entries naming the path lines" is the conjunction with the landing theorems, carried out only
    in the demo (`decide +kernel`), not as a general corollary;
  - `netPinLine` / `netIcLine` answer `none` both where the code warns-and-skips and where it raises (audit-2 finding 4).
* **Trusted / sampled**: that lark reads the grammar as the model does, that the tables describe the real circuit (exported by
  structural search), that the real `SimOps` / `_wave_eval` compute the model's rows and results (C01/C03/C08 correspondences),
  `float32` exactness on the grid. -/
namespace KV.C14
open KV KV.Sig KV.Sdf KV.SdfText KV.Wave KV.MapSound KV.SdfWave
open KV.C04 (Win Within WRel staSem)

/-! ## (1) the configuration

`interconnects` is PARTIAL (Model/Sdf.lean: `none` = the real `df.interconnects(c, tlib)` raises `TypeError` because the file
has no block without INSTANCE name), so `sdfDelay` / `sdfCfg` are: `none` = the expression `df.iopaths(..) + df.interconnects(..)`
raises and no simulator is built. Every statement about a run below is about a configuration `cfg` with
`sdfCfg … = some cfg`; `sdf_cfg_is_array` / `sdf_cfg_none_iff` / `sdf_cfg_raises_iff` say exactly when there is one and what it is. -/

/-- the delay table of the run is the sum of the two annotated arrays at data set `d`: there is a configuration exactly when
`interconnects` answers an array `ic`, and then it is `delays[d] = iopaths[d] + ic[d]` with the given capacities -/
theorem sdf_cfg_is_array (pinLine : PinTable) (icLine : IcTable) (df : DelayFile) (d : Nat) (cap : Nat → Nat) (cfg : WCfg) :
    sdfCfg pinLine icLine df d cap = some cfg ↔
      ∃ ic, interconnects icLine df = some ic ∧
        cfg = ⟨fun l ip op => iopaths pinLine df d l ip op + ic d l ip op, cap⟩ :=
  sdfCfg_eq_some_iff pinLine icLine df d cap cfg

/-- no silent totalisation: the composition answers `none` exactly when `interconnects` does -/
theorem sdf_cfg_none_iff (pinLine : PinTable) (icLine : IcTable) (df : DelayFile) (d : Nat) (cap : Nat → Nat) :
    (sdfCfg pinLine icLine df d cap = none ↔ interconnects icLine df = none) ∧
    (sdfDelay pinLine icLine df d = none ↔ interconnects icLine df = none) := by
  unfold sdfCfg sdfDelay
  simp only [Option.map_eq_none_iff, and_self]

/-- … i.e. (both readings of `start`) exactly for the files without a block that has no INSTANCE name — where the real
`df.interconnects(c, tlib)` raises `TypeError` (`interconnects_none_iff`); every other file has a configuration -/
theorem sdf_cfg_raises_iff (m : Mode) (pinLine : PinTable) (icLine : IcTable) (B : List RawCell) (d : Nat) (cap : Nat → Nat) :
    sdfCfg pinLine icLine (parse m B) d cap = none ↔ ∀ c ∈ B, c.insts.head? ≠ none := by
  rw [(sdf_cfg_none_iff pinLine icLine (parse m B) d cap).1]
  exact interconnects_none_iff m icLine B

theorem sdf_cfg_exists (m : Mode) (pinLine : PinTable) (icLine : IcTable) (B : List RawCell) (d : Nat) (cap : Nat → Nat)
    (c : RawCell) (hc : c ∈ B) (hn : c.insts.head? = none) : ∃ cfg, sdfCfg pinLine icLine (parse m B) d cap = some cfg := by
  cases h : sdfCfg pinLine icLine (parse m B) d cap with
  | some cfg => exact ⟨cfg, rfl⟩
  | none => exact absurd hn ((sdf_cfg_raises_iff m pinLine icLine B d cap).mp h c hc)

/-- which entries `_wave_eval` reads: for operand slot `i` of op row `o` the four entries `delays[d, o.ins[i], ·, ·]` — the
row's own operand index (with `strip_forks` the fan-out branch, not the stem whose waveform is read) -/
theorem wavesim_reads_line_delays (cfg : WCfg) (p : MapIn) (o : OpRow) (i : Nat) (hi : i < 4) (ip op : Bool) :
    opDelays cfg (wvOp p o) i ip op = cfg.delay (o.ins.getD i 0) ip op := by
  rw [opDelays_wvOp cfg p o i hi]

/-! ## (2) the SDF values are the WaveSim delays -/

/-- **IOPATH.** For every entry `x` of every CELL block `c` (instance name `n`) of the file, every input polarity `ip` its
qualifier selects, output polarity `op` and data set `d < 3`: the delay WaveSim uses on the line `l` at that instance's input
pin is the entry's `d`-th value of its rising (`op = 0`) / falling value list. Hypotheses: `cfg` is the configuration of the run
(`hcfg`: `interconnects` does not raise), entries covering the same (line, input polarity) agree (`huniq`, as in
`iopath_lands_file`: one delay per line by design), and `l` is not a fork line of the INTERCONNECT table (a line has one
reader: a cell pin or a fork). -/
theorem sdf_delays_are_wave_delays (pinLine : PinTable) (icLine : IcTable) (B : List RawCell) (c : RawCell) (n : String)
    (x : RawEntry) (l d : Nat) (ip op : Bool) (cap : Nat → Nat) (cfg : WCfg)
    (hcfg : sdfCfg pinLine icLine (parse .merge B) d cap = some cfg)
    (hc : c ∈ B) (hn : c.insts.head? = some n) (hne : n ≠ "") (hx : x ∈ c.delays.flatten)
    (hline : pinLine (stripBackslash n) (pinOf (sanitize x).a) = some l)
    (hip : ip ∈ polsOf (sanitize x).a) (hd : d < 3)
    (huniq : ∀ c' ∈ B, ∀ n', c'.insts.head? = some n' → ∀ x' ∈ c'.delays.flatten,
      pinLine (stripBackslash n') (pinOf (sanitize x').a) = some l → ip ∈ polsOf (sanitize x').a →
      norm (sanitize x').r = norm (sanitize x).r ∧ norm (sanitize x').f = norm (sanitize x).f)
    (hdisj : ∀ c1 p1 c2 p2, icLine c1 p1 c2 p2 ≠ some l) :
    cfg.delay l ip op = (norm (if op then (sanitize x).f else (sanitize x).r)).getD d 0 := by
  obtain ⟨ic, hic, rfl⟩ := (sdfCfg_eq_some_iff _ _ _ _ _ _).mp hcfg
  show iopaths pinLine (parse .merge B) d l ip op + ic d l ip op = _
  rw [iopath_lands_file pinLine B c n x l d ip op hc hn hne hx hline hip hd huniq,
    interconnects_zero_of_table icLine _ ic hic l d ip op hdisj, Int.add_zero]

/-- **INTERCONNECT.** For every entry of every block without instance name that the loop does not skip (`icSkip`: the
repaired test, skipped only when all values are zero): the delay WaveSim uses on the fork line `l` between the two pins is the
entry's value, for BOTH input polarities. (The block `c` makes `interconnects` answer: `sdf_cfg_exists` gives a `cfg`.) -/
theorem sdf_interconnect_delays_are_wave_delays (pinLine : PinTable) (icLine : IcTable) (B : List RawCell) (c : RawCell)
    (x : RawEntry) (l d : Nat) (ip op : Bool) (cap : Nat → Nat) (cfg : WCfg)
    (hcfg : sdfCfg pinLine icLine (parse .merge B) d cap = some cfg)
    (hc : c ∈ B) (hn : c.insts.head? = none) (hx : x ∈ c.delays.flatten)
    (hskip : icSkip (norm (sanitize x).r) (norm (sanitize x).f) = false)
    (hline : icLine (stripBackslash (splitSlash (sanitize x).a).1) (splitSlash (sanitize x).a).2
                    (stripBackslash (splitSlash (sanitize x).b).1) (splitSlash (sanitize x).b).2 = some l)
    (hd : d < 3)
    (huniq : ∀ c' ∈ B, c'.insts.head? = none → ∀ x' ∈ c'.delays.flatten,
      ∀ w, icWrite icLine (sanitize x') = some w → w.line = l →
      norm (sanitize x').r = norm (sanitize x).r ∧ norm (sanitize x').f = norm (sanitize x).f)
    (hdisj : ∀ c' p', pinLine c' p' ≠ some l) :
    cfg.delay l ip op = (norm (if op then (sanitize x).f else (sanitize x).r)).getD d 0 := by
  obtain ⟨ic, hic, rfl⟩ := (sdfCfg_eq_some_iff _ _ _ _ _ _).mp hcfg
  have key := interconnect_lands_file icLine B c x l d ip op hc hn hx ((icSkip_false_iff _ _).mp hskip) hline hd huniq
  rw [hic] at key
  simp only [Option.map_some, Option.some.injEq] at key
  show iopaths pinLine (parse .merge B) d l ip op + ic d l ip op = _
  rw [key, iopaths_zero_of_table pinLine _ l d ip op hdisj, Int.zero_add]

/-- **every other line has delay 0**: a coordinate that no IOPATH entry and no INTERCONNECT entry of the file names (both
modes of `start`); `es` = the entries of the top-level block(s) as `DelayFile.__init__` keeps them -/
theorem sdf_other_lines_zero (pinLine : PinTable) (icLine : IcTable) (df : DelayFile) (l d : Nat) (ip op : Bool)
    (cap : Nat → Nat) (cfg : WCfg) (hcfg : sdfCfg pinLine icLine df d cap = some cfg)
    (hio : ∀ p ∈ namedEntries df, ∀ w, ioWrite pinLine p.1 p.2 = some w → w.covers l ip = false)
    (es : List Entry) (hes : icEntries df = some es)
    (hic : ∀ e ∈ es, ∀ w, icWrite icLine e = some w → w.line ≠ l) :
    cfg.delay l ip op = 0 := by
  obtain ⟨ic, hic', rfl⟩ := (sdfCfg_eq_some_iff _ _ _ _ _ _).mp hcfg
  have key := others_zero_interconnects icLine df es l d ip op hes hic
  rw [hic'] at key
  simp only [Option.map_some, Option.some.injEq] at key
  show iopaths pinLine df d l ip op + ic d l ip op = 0
  rw [others_zero_iopaths pinLine df l d ip op hio, key]
  rfl

/-- in particular a line outside the range of both tables (e.g. the line from a cell output to its signal fork) -/
theorem sdf_untabled_lines_zero (pinLine : PinTable) (icLine : IcTable) (df : DelayFile) (l d : Nat) (ip op : Bool)
    (cap : Nat → Nat) (cfg : WCfg) (hcfg : sdfCfg pinLine icLine df d cap = some cfg)
    (h1 : ∀ c p, pinLine c p ≠ some l) (h2 : ∀ c1 p1 c2 p2, icLine c1 p1 c2 p2 ≠ some l) :
    cfg.delay l ip op = 0 := by
  obtain ⟨ic, hic, rfl⟩ := (sdfCfg_eq_some_iff _ _ _ _ _ _).mp hcfg
  show iopaths pinLine df d l ip op + ic d l ip op = 0
  rw [iopaths_zero_of_table pinLine df l d ip op h1, interconnects_zero_of_table icLine df ic hic l d ip op h2]
  rfl

/-- a file without negative numbers gives non-negative delays (the hypothesis `delays ≥ 0` of C03/C04/C05), both modes -/
theorem sdf_delays_nonneg (m : Mode) (pinLine : PinTable) (icLine : IcTable) (B : List RawCell) (h : rawNonneg B = true)
    (d : Nat) (cap : Nat → Nat) (cfg : WCfg) (hcfg : sdfCfg pinLine icLine (parse m B) d cap = some cfg) :
    ∀ l ip op, 0 ≤ cfg.delay l ip op := by
  unfold sdfCfg at hcfg
  obtain ⟨del, hdel, rfl⟩ := Option.map_eq_some_iff.mp hcfg
  exact sdfDelay_nonneg m pinLine icLine B h d del hdel

/-! ### the tables read off the netlist

`netPinLine` / `netIcLine` (Model/SdfWave.lean): the pin table and the fork table as `iopaths` / `interconnects` compute them
from the circuit — node names, `tlib.pin_index`, `cell.ins[…]`, the fork search — over the canonical dump `Net` that the
`SimOps` model schedules. For every well-formed netlist the side condition "no line is reached by both loops" is a theorem. -/

/-- **IOPATH, tables of the netlist** (every `Net.wfB` netlist, names, `pin_index`): the value of the entry is the delay WaveSim
uses on line `l`, and `l` IS the line whose reader is the cell named by the block (not a fork) at the pin position the library
gives for the entry's input pin -/
theorem sdf_delays_are_wave_delays_net (net : Net) (hwf : net.wfB = true) (names : Array String) (pinIdx : SdfWave.PinIdx)
    (B : List RawCell) (c : RawCell) (n : String) (x : RawEntry) (l d : Nat) (ip op : Bool) (cap : Nat → Nat) (cfg : WCfg)
    (hcfg : sdfCfg (netPinLine net names pinIdx) (netIcLine net names pinIdx) (parse .merge B) d cap = some cfg)
    (hc : c ∈ B) (hn : c.insts.head? = some n) (hne : n ≠ "") (hx : x ∈ c.delays.flatten)
    (hline : netPinLine net names pinIdx (stripBackslash n) (pinOf (sanitize x).a) = some l)
    (hip : ip ∈ polsOf (sanitize x).a) (hd : d < 3)
    (huniq : ∀ c' ∈ B, ∀ n', c'.insts.head? = some n' → ∀ x' ∈ c'.delays.flatten,
      netPinLine net names pinIdx (stripBackslash n') (pinOf (sanitize x').a) = some l → ip ∈ polsOf (sanitize x').a →
      norm (sanitize x').r = norm (sanitize x).r ∧ norm (sanitize x').f = norm (sanitize x).f) :
    cfg.delay l ip op = (norm (if op then (sanitize x).f else (sanitize x).r)).getD d 0 ∧
    ∃ i k, names.getD i "" = stripBackslash n ∧ (net.node i).isFork = false ∧
      pinIdx (net.node i).kind (pinOf (sanitize x).a) = some k ∧ (net.line l).reader = i ∧ (net.line l).rpin = k := by
  refine ⟨sdf_delays_are_wave_delays _ _ B c n x l d ip op cap cfg hcfg hc hn hne hx hline hip hd huniq
    (net_tables_disjoint hwf names pinIdx hline), ?_⟩
  obtain ⟨i, k, _, h1, h2, h3, _, h4, h5⟩ := netPinLine_spec hwf hline
  exact ⟨i, k, h1, h2, h3, h4, h5⟩

/-- **INTERCONNECT, tables of the netlist**: the value of the entry is the delay WaveSim uses on line `l`, whose reader is a fork -/
theorem sdf_interconnect_delays_are_wave_delays_net (net : Net) (hwf : net.wfB = true) (names : Array String)
    (pinIdx : SdfWave.PinIdx) (B : List RawCell) (c : RawCell) (x : RawEntry) (l d : Nat) (ip op : Bool) (cap : Nat → Nat) (cfg : WCfg)
    (hcfg : sdfCfg (netPinLine net names pinIdx) (netIcLine net names pinIdx) (parse .merge B) d cap = some cfg)
    (hc : c ∈ B) (hn : c.insts.head? = none) (hx : x ∈ c.delays.flatten)
    (hskip : icSkip (norm (sanitize x).r) (norm (sanitize x).f) = false)
    (hline : netIcLine net names pinIdx (stripBackslash (splitSlash (sanitize x).a).1) (splitSlash (sanitize x).a).2
                    (stripBackslash (splitSlash (sanitize x).b).1) (splitSlash (sanitize x).b).2 = some l)
    (hd : d < 3)
    (huniq : ∀ c' ∈ B, c'.insts.head? = none → ∀ x' ∈ c'.delays.flatten,
      ∀ w, icWrite (netIcLine net names pinIdx) (sanitize x') = some w → w.line = l →
      norm (sanitize x').r = norm (sanitize x).r ∧ norm (sanitize x').f = norm (sanitize x).f) :
    cfg.delay l ip op = (norm (if op then (sanitize x).f else (sanitize x).r)).getD d 0 ∧
    (net.node (net.line l).reader).isFork = true :=
  ⟨sdf_interconnect_delays_are_wave_delays _ _ B c x l d ip op cap cfg hcfg hc hn hx hskip hline hd huniq
    (net_tables_disjoint' hwf names pinIdx hline), (netIcLine_reader_fork hwf hline).2⟩

/-- a line whose reader is a cell pin no IOPATH names, or a fork no INTERCONNECT names, … : every line outside the range of both
netlist tables has delay 0 — in particular (well-formed netlist) every line from a cell output to its signal fork when that
fork has fan-out -/
theorem sdf_untabled_lines_zero_net (net : Net) (names : Array String) (pinIdx : SdfWave.PinIdx) (df : DelayFile) (l d : Nat)
    (ip op : Bool) (cap : Nat → Nat) (cfg : WCfg)
    (hcfg : sdfCfg (netPinLine net names pinIdx) (netIcLine net names pinIdx) df d cap = some cfg)
    (h1 : ∀ c p, netPinLine net names pinIdx c p ≠ some l)
    (h2 : ∀ c1 p1 c2 p2, netIcLine net names pinIdx c1 p1 c2 p2 ≠ some l) :
    cfg.delay l ip op = 0 :=
  sdf_untabled_lines_zero _ _ df l d ip op cap cfg hcfg h1 h2

/-! ## (3) the static-timing window with the SDF delays, every circuit -/

/-- **`sdf_sta_window`.** `p` = the map record the `SimOps` model builds for ANY netlist with `Net.wfB`, topological order,
`strip_forks` (`forksOKB` when on) / `c_reuse` setting, capacity vector and `c_caps_min ≥ 4` (what `WaveSim` passes); `B` ANY
block list without negative numbers, `pinLine` / `icLine` ANY tables, `d` any data set; `m1` ANY memory reached from `m0` by a
propagation (`Propagated`: evaluator calls honouring `WaveStep`, any order certified by `schedOKB`) that uses the delays
`cfg.delay`, `cfg` the configuration `sdfCfg … (parse .merge B) d p.cap` (`hcfg`: there is one, `interconnects` does not
raise — `sdf_cfg_raises_iff`); `win` windows for the transitions of the stimulus. Then the waveform found in the region of
output slot `j` has every finite transition between the minimum and the maximum that static timing analysis — the recursion
`staSem` of C04 (hull over the operands of `window + [min, max] of the four entries of the operand's line`) run through the
same program with the SDF-derived delays `cfg` — computes for the captured signal `c`: the earliest / latest, over the
combinational paths from the inputs, of input transition time + sum of the SDF delays of the lines on the path. -/
theorem sdf_sta_window (tbl : List PrefixRow) (net : Net) (order : List Nat) (strip : Bool)
    (capsIn : Nat → Nat) (capsMin : Nat) (reuse : Bool) (p : MapIn)
    (hp : p = simopsMap tbl net order strip capsIn capsMin reuse)
    (hwf : net.wfB = true) (ho : orderOKB net order = true) (hf : strip = true → forksOKB net order = true)
    (hr : readsDrivenB tbl net order = true) (h4 : 4 ≤ capsMin)
    (pinLine : PinTable) (icLine : IcTable) (B : List RawCell) (hnn : rawNonneg B = true) (d : Nat)
    (cfg : WCfg) (hcfg : sdfCfg pinLine icLine (parse .merge B) d p.cap = some cfg)
    (m0 m1 : Int → T) (env0 : Nat → Wv) (hst : Stimulus p m0 env0)
    (hpr : Propagated p cfg.delay m0 m1)
    (win : Nat → Win) (hw : ∀ l, WRel (env0 l) (win l)) (j c : Nat) (hjc : (j, c) ∈ p.ppoSrcs) :
    Within (rdWave (p.loc j) (p.cap j) m1) (execG (staSem cfg) (waveProg p) win c) := by
  unfold sdfCfg at hcfg
  obtain ⟨del, hdel, rfl⟩ := Option.map_eq_some_iff.mp hcfg
  exact (C04.wave_timing_all_circuits tbl net order strip capsIn capsMin reuse p hp hwf ho hf hr h4
    del (sdfDelay_nonneg .merge pinLine icLine B hnn d del hdel) m0 m1 env0 hst hpr j c hjc).1 win hw

/-- the program facts of the `SimOps` model of every circuit (`simops_progOK`) -/
theorem simopsMap_progOK (tbl : List PrefixRow) (net : Net) (order : List Nat) (strip : Bool)
    (capsIn : Nat → Nat) (capsMin : Nat) (reuse : Bool) (hwf : net.wfB = true) (ho : orderOKB net order = true)
    (hf : strip = true → forksOKB net order = true) (hr : readsDrivenB tbl net order = true) :
    ProgOK (simopsMap tbl net order strip capsIn capsMin reuse) :=
  simops_progOK tbl (simopsMap tbl net order strip capsIn capsMin reuse) order hwf ho hf hr rfl rfl

/-- **window equations, every circuit**: the static-timing recursion assigns to the output of every row the hull of its
operands' windows moved by the smallest / largest entry of the operand LINES -/
theorem sta_window_equations (tbl : List PrefixRow) (net : Net) (order : List Nat) (strip : Bool)
    (capsIn : Nat → Nat) (capsMin : Nat) (reuse : Bool) (p : MapIn)
    (hp : p = simopsMap tbl net order strip capsIn capsMin reuse)
    (hwf : net.wfB = true) (ho : orderOKB net order = true) (hf : strip = true → forksOKB net order = true)
    (hr : readsDrivenB tbl net order = true) (cfg : WCfg) (win : Nat → Win) (o : OpRow) (ho' : o ∈ p.ops)
    (hne : o.out ≠ p.ix.tmp) :
    let W := execG (staSem cfg) (waveProg p) win
    W o.out =
      Win.hull (Win.hull ((W (p.src o.i0)).shift (lineDmin cfg.delay o.i0) (lineDmax cfg.delay o.i0))
                         ((W (p.src o.i1)).shift (lineDmin cfg.delay o.i1) (lineDmax cfg.delay o.i1)))
               (Win.hull ((W (p.src o.i2)).shift (lineDmin cfg.delay o.i2) (lineDmax cfg.delay o.i2))
                         ((W (p.src o.i3)).shift (lineDmin cfg.delay o.i3) (lineDmax cfg.delay o.i3))) := by
  intro W
  have hprog : ProgOK p := hp ▸ simopsMap_progOK tbl net order strip capsIn capsMin reuse hwf ho hf hr
  show execG (staSem cfg) (waveProg p) win o.out = _
  rw [sta_equations cfg p hprog win o ho' hne, staSem_wvOp]

/-- **`sdf_path_window`** (every circuit, hypotheses of `sdf_sta_window`). Along a sensitised path `x → … → pathEnd x path`
of op rows (each row reads the signal before it in one operand slot — through the stem when stripped —, its other value sources
have the empty window: constant side inputs, unused slots) ending at the signal output slot `j` captures: every transition
found in that slot's region lies in the window of `x` moved by `Σ min` / `Σ max` over the four entries
`delays[d, l, ·, ·]` (= `cfg.delay l · ·`) of the lines `l` on the path (`pathLines`: the operand indices of the rows). -/
theorem sdf_path_window (tbl : List PrefixRow) (net : Net) (order : List Nat) (strip : Bool)
    (capsIn : Nat → Nat) (capsMin : Nat) (reuse : Bool) (p : MapIn)
    (hp : p = simopsMap tbl net order strip capsIn capsMin reuse)
    (hwf : net.wfB = true) (ho : orderOKB net order = true) (hf : strip = true → forksOKB net order = true)
    (hr : readsDrivenB tbl net order = true) (h4 : 4 ≤ capsMin)
    (pinLine : PinTable) (icLine : IcTable) (B : List RawCell) (hnn : rawNonneg B = true) (d : Nat)
    (cfg : WCfg) (hcfg : sdfCfg pinLine icLine (parse .merge B) d p.cap = some cfg)
    (m0 m1 : Int → T) (env0 : Nat → Wv) (hst : Stimulus p m0 env0)
    (hpr : Propagated p cfg.delay m0 m1)
    (win : Nat → Win) (hw : ∀ l, WRel (env0 l) (win l))
    (x : Nat) (path : List (OpRow × Nat))
    (hpath : PathOK p (execG (staSem cfg) (waveProg p) win) x path)
    (j : Nat) (hj : (j, pathEnd x path) ∈ p.ppoSrcs) :
    Within (rdWave (p.loc j) (p.cap j) m1)
      ((execG (staSem cfg) (waveProg p) win x).shift
        ((pathLines path).map (lineDmin cfg.delay)).sum ((pathLines path).map (lineDmax cfg.delay)).sum) := by
  have hprog : ProgOK p := hp ▸ simopsMap_progOK tbl net order strip capsIn capsMin reuse hwf ho hf hr
  have key := sdf_sta_window tbl net order strip capsIn capsMin reuse p hp hwf ho hf hr h4 pinLine icLine B hnn d cfg hcfg
    m0 m1 env0 hst hpr win hw j _ hj
  rw [sta_path cfg p _ (sta_equations cfg p hprog win) x path hpath] at key
  exact key

/-- **`sdf_chain_arrival`: exact arrival time along a single sensitised path.** As `sdf_path_window`, with the path starting at
an input signal `x` (no row writes it) whose transitions all happen at time `t` (`win x = [t, t]`), and polarity-independent
delays on the lines of the path: every transition WaveSim leaves in the region of the output slot happens at EXACTLY
`t + Σ_{l on the path} delays[d, l, 0, 0]` — input time plus the SDF values of the lines on the path
(`sdf_delays_are_wave_delays`, `sdf_interconnect_delays_are_wave_delays`, 0 elsewhere). -/
theorem sdf_chain_arrival (tbl : List PrefixRow) (net : Net) (order : List Nat) (strip : Bool)
    (capsIn : Nat → Nat) (capsMin : Nat) (reuse : Bool) (p : MapIn)
    (hp : p = simopsMap tbl net order strip capsIn capsMin reuse)
    (hwf : net.wfB = true) (ho : orderOKB net order = true) (hf : strip = true → forksOKB net order = true)
    (hr : readsDrivenB tbl net order = true) (h4 : 4 ≤ capsMin)
    (pinLine : PinTable) (icLine : IcTable) (B : List RawCell) (hnn : rawNonneg B = true) (d : Nat)
    (cfg : WCfg) (hcfg : sdfCfg pinLine icLine (parse .merge B) d p.cap = some cfg)
    (m0 m1 : Int → T) (env0 : Nat → Wv) (hst : Stimulus p m0 env0)
    (hpr : Propagated p cfg.delay m0 m1)
    (win : Nat → Win) (hw : ∀ l, WRel (env0 l) (win l))
    (x : Nat) (path : List (OpRow × Nat))
    (hpath : PathOK p (execG (staSem cfg) (waveProg p) win) x path)
    (j : Nat) (hj : (j, pathEnd x path) ∈ p.ppoSrcs)
    (hx : ∀ o ∈ p.ops, o.out ≠ x) (t : Int) (hwx : win x = some (t, t))
    (hpol : ∀ l ∈ pathLines path, ∀ a b, cfg.delay l a b = cfg.delay l false false) :
    ∀ u, T.fin u ∈ (rdWave (p.loc j) (p.cap j) m1).ents →
      u = t + ((pathLines path).map fun l => cfg.delay l false false).sum := by
  intro u hu
  have key := sdf_path_window tbl net order strip capsIn capsMin reuse p hp hwf ho hf hr h4 pinLine icLine B hnn d cfg hcfg
    m0 m1 env0 hst hpr win hw x path hpath j hj
  have hWx : execG (staSem cfg) (waveProg p) win x = some (t, t) := by
    rw [execG_frame _ _ _ x (fun q hq => by
      obtain ⟨r, hr', rfl⟩ := List.mem_map.mp hq
      exact hx r hr'), hwx]
  have hmin : ((pathLines path).map (lineDmin cfg.delay)).sum =
      ((pathLines path).map fun l => cfg.delay l false false).sum := by
    apply sum_map_congr
    intro l hl
    have h := hpol l hl
    unfold lineDmin
    rw [h false true, h true false, h true true]
    omega
  have hmax : ((pathLines path).map (lineDmax cfg.delay)).sum =
      ((pathLines path).map fun l => cfg.delay l false false).sum := by
    apply sum_map_congr
    intro l hl
    have h := hpol l hl
    unfold lineDmax
    rw [h false true, h true false, h true true]
    omega
  rw [hWx, hmin, hmax] at key
  obtain ⟨lo, hi, hwin, h1, h2⟩ := key u hu
  simp only [Win.shift, Option.map_some, Option.some.injEq, Prod.mk.injEq] at hwin
  omega

/-! ## (4) from the SDF TEXT -/

/-- the delays read from the printed text of a block list are the delays of the block list (`sdf_text_roundtrip_raw`) — as
partial results: both sides are `none` together (no top-level block: `interconnects` raises) -/
theorem sdf_text_delays (pinLine : PinTable) (icLine : IcTable) (B : List RawCell) (hs : rawShapeOK B = true)
    (hv : (ofRaw B).valid = true) (d : Nat) :
    rawOfText (printSdf (ofRaw B)) = some B ∧
    textDelay pinLine icLine (printSdf (ofRaw B)) d = sdfDelay pinLine icLine (parse .merge B) d := by
  have h : rawOfText (printSdf (ofRaw B)) = some B := sdf_text_roundtrip_raw B hs hv
  refine ⟨h, ?_⟩
  unfold textDelay fileOfText
  rw [h]
  rfl

theorem textDelay_of_raw (pinLine : PinTable) (icLine : IcTable) (text : String) (B : List RawCell)
    (hB : rawOfText text = some B) (d : Nat) :
    textDelay pinLine icLine text d = sdfDelay pinLine icLine (parse .merge B) d := by
  unfold textDelay fileOfText
  rw [hB]
  rfl

/-- **from the text, every circuit.** `text`: ANY SDF text that the grammar model reads (scanner, reader, transformer guards)
as a block list `B` without negative numbers — in particular the printed text of every printable block list
(`sdf_text_delays`). With `delay = (sdf.parse(text).iopaths(c, tlib) + sdf.parse(text).interconnects(c, tlib))[d]` (model:
`textDelay`; `hdel`: the text is read and `interconnects` does not raise) as the delay table of the run, every transition in the region of every output slot lies inside the static-timing
window computed with these delays. -/
theorem sdf_text_sta_window (tbl : List PrefixRow) (net : Net) (order : List Nat) (strip : Bool)
    (capsIn : Nat → Nat) (capsMin : Nat) (reuse : Bool) (p : MapIn)
    (hp : p = simopsMap tbl net order strip capsIn capsMin reuse)
    (hwf : net.wfB = true) (ho : orderOKB net order = true) (hf : strip = true → forksOKB net order = true)
    (hr : readsDrivenB tbl net order = true) (h4 : 4 ≤ capsMin)
    (pinLine : PinTable) (icLine : IcTable) (text : String) (B : List RawCell) (hB : rawOfText text = some B)
    (hnn : rawNonneg B = true) (d : Nat) (delay : Nat → Bool → Bool → Int)
    (hdel : textDelay pinLine icLine text d = some delay)
    (m0 m1 : Int → T) (env0 : Nat → Wv) (hst : Stimulus p m0 env0) (hpr : Propagated p delay m0 m1)
    (win : Nat → Win) (hw : ∀ l, WRel (env0 l) (win l)) (j c : Nat) (hjc : (j, c) ∈ p.ppoSrcs) :
    Within (rdWave (p.loc j) (p.cap j) m1) (execG (staSem (wcfg p delay)) (waveProg p) win c) := by
  rw [textDelay_of_raw pinLine icLine text B hB d] at hdel
  exact sdf_sta_window tbl net order strip capsIn capsMin reuse p hp hwf ho hf hr h4 pinLine icLine B hnn d (wcfg p delay)
    (by unfold sdfCfg; rw [hdel]; rfl) m0 m1 env0 hst hpr win hw j c hjc

/-- the same for the exact arrival time along a sensitised path -/
theorem sdf_text_chain_arrival (tbl : List PrefixRow) (net : Net) (order : List Nat) (strip : Bool)
    (capsIn : Nat → Nat) (capsMin : Nat) (reuse : Bool) (p : MapIn)
    (hp : p = simopsMap tbl net order strip capsIn capsMin reuse)
    (hwf : net.wfB = true) (ho : orderOKB net order = true) (hf : strip = true → forksOKB net order = true)
    (hr : readsDrivenB tbl net order = true) (h4 : 4 ≤ capsMin)
    (pinLine : PinTable) (icLine : IcTable) (text : String) (B : List RawCell) (hB : rawOfText text = some B)
    (hnn : rawNonneg B = true) (d : Nat) (delay : Nat → Bool → Bool → Int)
    (hdel : textDelay pinLine icLine text d = some delay)
    (m0 m1 : Int → T) (env0 : Nat → Wv) (hst : Stimulus p m0 env0) (hpr : Propagated p delay m0 m1)
    (win : Nat → Win) (hw : ∀ l, WRel (env0 l) (win l))
    (x : Nat) (path : List (OpRow × Nat))
    (hpath : PathOK p (execG (staSem (wcfg p delay)) (waveProg p) win) x path)
    (j : Nat) (hj : (j, pathEnd x path) ∈ p.ppoSrcs)
    (hx : ∀ o ∈ p.ops, o.out ≠ x) (t : Int) (hwx : win x = some (t, t))
    (hpol : ∀ l ∈ pathLines path, ∀ a b, delay l a b = delay l false false) :
    ∀ u, T.fin u ∈ (rdWave (p.loc j) (p.cap j) m1).ents →
      u = t + ((pathLines path).map fun l => delay l false false).sum := by
  rw [textDelay_of_raw pinLine icLine text B hB d] at hdel
  exact sdf_chain_arrival tbl net order strip capsIn capsMin reuse p hp hwf ho hf hr h4 pinLine icLine B hnn d (wcfg p delay)
    (by unfold sdfCfg; rw [hdel]; rfl) m0 m1 env0 hst hpr win hw x path hpath j hj hx t hwx hpol

/-! ## non-vacuity: `z = NAND2_X1(INV_X1(a), b)` with an SDF text (Proofs/SdfWaveDemo.lean)

The circuit as `verilog.parse(…, branchforks=True)` builds it, `WaveSim(c, delays, c_caps=16)`; the text `demoText`
(`demoText_eq` shows it) gives every IOPATH and INTERCONNECT its own value; `a` rises at 1.000, `b` is constant 1. -/

/-- the demo file has a top-level block, so the composition answers a configuration (`demo_cfg`: it is `demoDelayD d` with the
given capacities) — the hypothesis `sdfCfg … = some cfg` of the theorems above is satisfiable; without the top-level block
(the two instance blocks alone) the composition answers `none`, as the real `interconnects()` raises -/
example : (sdfCfg demoPins demoIc (parse .merge demoB) 1 demo.cap).isSome = true ∧
    sdfCfg demoPins demoIc (parse .merge (demoB.drop 1)) 1 demo.cap = none :=
  ⟨by rw [demo_cfg]; rfl, (sdf_cfg_raises_iff .merge demoPins demoIc _ 1 demo.cap).mpr (by decide +kernel)⟩

example : ∃ cfg, sdfCfg demoPins demoIc (parse .merge demoB) 1 demo.cap = some cfg :=
  sdf_cfg_exists .merge demoPins demoIc demoB 1 demo.cap (demoB[0]) (by decide +kernel) (by decide +kernel)

example (cfg : WCfg) : sdfCfg demoPins demoIc (parse .merge demoB) 1 demo.cap = some cfg ↔ cfg = ⟨demoDelayD 1, demo.cap⟩ := by
  rw [demo_cfg]
  exact ⟨fun h => (Option.some.inj h).symm, fun h => h ▸ rfl⟩

/-- the IOPATH `u2: A1 → ZN (2.000:2.500:3.000)` is the WaveSim delay of line 7 (branch fork → `u2.A1`), data set 1, for both
input polarities — every hypothesis of `sdf_delays_are_wave_delays` holds -/
example : (sdfCfg demoPins demoIc (parse .merge demoB) 1 demo.cap).map (·.delay 7 true false) = some 2500 := by
  rw [demo_cfg 1 demo.cap]
  exact congrArg some (sdf_delays_are_wave_delays demoPins demoIc demoB (demoB[2]) "u2"
    ⟨"A1", "ZN", [[some 2000, some 2500, some 3000]]⟩ 7 1 true false demo.cap _ (demo_cfg 1 demo.cap)
    (by decide +kernel) (by decide +kernel) (by decide +kernel) (by decide +kernel) (by decide +kernel)
    (by decide +kernel) (by decide) (by decide +kernel)
    (fun c1 p1 c2 p2 h => by have := demoIc_range c1 p1 c2 p2 7 h; omega))

/-- the edge-qualified IOPATH `u2: (posedge A2) → ZN (1.5…) (1.75…)` fills input polarity 0 of line 9 only: falling output 1.750 -/
example : (sdfCfg demoPins demoIc (parse .merge demoB) 0 demo.cap).map (·.delay 9 false true) = some 1750 := by
  rw [demo_cfg 0 demo.cap]
  exact congrArg some (sdf_delays_are_wave_delays demoPins demoIc demoB (demoB[2]) "u2"
    ⟨"(posedge A2)", "ZN", [[some 1500, some 1500, some 1500], [some 1750, some 1750, some 1750]]⟩ 9 0 false true
    demo.cap _ (demo_cfg 0 demo.cap)
    (by decide +kernel) (by decide +kernel) (by decide +kernel) (by decide +kernel) (by decide +kernel)
    (by decide +kernel) (by decide) (by decide +kernel)
    (fun c1 p1 c2 p2 h => by have := demoIc_range c1 p1 c2 p2 9 h; omega))

/-- the INTERCONNECT `u1/ZN → u2/A1 (0.250:0.375:0.500)` is the WaveSim delay of line 6 (fork `n1` → branch fork), data set 2 -/
example : (sdfCfg demoPins demoIc (parse .merge demoB) 2 demo.cap).map (·.delay 6 false true) = some 500 := by
  rw [demo_cfg 2 demo.cap]
  exact congrArg some (sdf_interconnect_delays_are_wave_delays demoPins demoIc demoB (demoB[0])
    ⟨"u1/ZN", "u2/A1", [[some 250, some 375, some 500]]⟩
    6 2 false true demo.cap _ (demo_cfg 2 demo.cap) (by decide +kernel) (by decide +kernel) (by decide +kernel) (by decide +kernel)
    (by decide +kernel) (by decide) (by decide +kernel)
    (fun c p h => by have := demoPins_range c p 6 h; omega))

/-- line 0 (`u1.ZN` → fork `n1`) is named by no entry: delay 0 -/
example : (sdfCfg demoPins demoIc (parse .merge demoB) 0 demo.cap).map (·.delay 0 true true) = some 0 := by
  rw [demo_cfg 0 demo.cap]
  exact congrArg some (sdf_untabled_lines_zero demoPins demoIc _ 0 0 true true demo.cap _ (demo_cfg 0 demo.cap)
    (fun c p h => by have := demoPins_range c p 0 h; omega)
    (fun c1 p1 c2 p2 h => by have := demoIc_range c1 p1 c2 p2 0 h; omega))

/-- the netlist tables answer on the demo too (same file: the top-level block is there) -/
theorem demo_cfg_net (d : Nat) (cap : Nat → Nat) :
    ∃ cfg, sdfCfg (netPinLine demoNet demoNames demoPinIdx) (netIcLine demoNet demoNames demoPinIdx) (parse .merge demoB) d cap
      = some cfg :=
  sdf_cfg_exists .merge _ _ demoB d cap (demoB[0]) (by decide +kernel) (by decide +kernel)

/-- the same with the tables READ OFF THE NETLIST (`demo_tables_net`: they are the demo's tables on every name of the file):
line 7 is the line whose reader is `u2` at pin position `pin_index(NAND2_X1, A1) = 0`; line 6 ends at a fork -/
example : (sdfCfg (netPinLine demoNet demoNames demoPinIdx) (netIcLine demoNet demoNames demoPinIdx) (parse .merge demoB) 1
      demo.cap).map (·.delay 7 true false) = some 2500 ∧ (demoNet.line 7).reader = 2 ∧ (demoNet.line 7).rpin = 0 := by
  obtain ⟨cfg, hcfg⟩ := demo_cfg_net 1 demo.cap
  rw [hcfg]
  exact ⟨congrArg some (sdf_delays_are_wave_delays_net demoNet demo_hyps.1 demoNames demoPinIdx demoB (demoB[2]) "u2"
    ⟨"A1", "ZN", [[some 2000, some 2500, some 3000]]⟩ 7 1 true false demo.cap cfg hcfg (by decide +kernel) (by decide +kernel)
    (by decide +kernel) (by decide +kernel) (by decide +kernel) (by decide +kernel) (by decide) (by decide +kernel)).1,
   by decide +kernel, by decide +kernel⟩
example : (sdfCfg (netPinLine demoNet demoNames demoPinIdx) (netIcLine demoNet demoNames demoPinIdx) (parse .merge demoB) 2
      demo.cap).map (·.delay 6 false true) = some 500 ∧ (demoNet.node (demoNet.line 6).reader).isFork = true := by
  obtain ⟨cfg, hcfg⟩ := demo_cfg_net 2 demo.cap
  rw [hcfg]
  have key := sdf_interconnect_delays_are_wave_delays_net demoNet demo_hyps.1 demoNames demoPinIdx demoB (demoB[0])
    ⟨"u1/ZN", "u2/A1", [[some 250, some 375, some 500]]⟩ 6 2 false true demo.cap cfg hcfg (by decide +kernel) (by decide +kernel)
    (by decide +kernel) (by decide +kernel) (by decide +kernel) (by decide) (by decide +kernel)
  exact ⟨congrArg some key.1, key.2⟩

/-- `(posedge A2)` names input polarity 0 of line 9 only: the coordinates with input polarity 1 are named by no entry -/
example : (sdfCfg demoPins demoIc (parse .merge demoB) 0 demo.cap).map (·.delay 9 true false) = some 0 := by
  rw [demo_cfg 0 demo.cap]
  exact congrArg some (sdf_other_lines_zero demoPins demoIc _ 9 0 true false demo.cap _ (demo_cfg 0 demo.cap) (by decide +kernel)
    ((icEntries (parse .merge demoB)).get (by decide +kernel)) (Option.some_get _).symm (by decide +kernel))

/-- line 10 (fork `z` → output port): its reader is the port cell, for which the library has no pin, and it is no fork -/
example : (sdfCfg (netPinLine demoNet demoNames demoPinIdx) (netIcLine demoNet demoNames demoPinIdx) (parse .merge demoB) 0
    demo.cap).map (·.delay 10 false true) = some 0 := by
  obtain ⟨cfg, hcfg⟩ := demo_cfg_net 0 demo.cap
  rw [hcfg]
  refine congrArg some (sdf_untabled_lines_zero_net demoNet demoNames demoPinIdx (parse .merge demoB) 10 0 false true demo.cap cfg hcfg ?_ ?_)
  · intro c p h
    obtain ⟨i, k, _, _, _, hk, _, hr, _⟩ := netPinLine_spec demo_hyps.1 h
    have hi : i = 8 := by rw [← hr]; decide +kernel
    subst hi
    have : (demoNet.node 8).kind = "output" := by decide +kernel
    rw [this] at hk
    simp [demoPinIdx] at hk
  · intro c1 p1 c2 p2 h
    have := (netIcLine_reader_fork demo_hyps.1 h).2
    revert this
    decide +kernel

example : (sdfCfg demoPins demoIc (parse .merge demoB) 2 demo.cap).isSome = true ∧
    ∀ cfg, sdfCfg demoPins demoIc (parse .merge demoB) 2 demo.cap = some cfg → ∀ l ip op, 0 ≤ cfg.delay l ip op :=
  ⟨by rw [demo_cfg]; rfl, fun cfg hcfg => sdf_delays_nonneg .merge demoPins demoIc demoB demoB_ok.2.2 2 demo.cap cfg hcfg⟩

/-- the window equation of the NAND row of the demo: window of line 1 = hull of (window of line 7 + [2000, 2000]) and
(window of line 9 + [0, 1750]) -/
example (win : Nat → Win) :
    let W := execG (staSem (wcfg demo demoDelay)) (waveProg demo) win
    W 1 = Win.hull (Win.hull ((W 7).shift 2000 2000) ((W 9).shift 0 1750)) (Win.hull ((W 11).shift 0 0) ((W 11).shift 0 0)) := by
  intro W
  have key := sta_window_equations Gen.kindPrefixes demoNet demoOrder false (fun _ => 16) 4 false demo rfl demo_hyps.1
    demo_hyps.2.1 (fun h => by cases h) demo_hyps.2.2.2 (wcfg demo demoDelay) win ⟨30583, 1, 7, 9, 11, 11⟩ (by decide +kernel)
    (by decide +kernel)
  have h7 : lineDmin demoDelay 7 = 2000 ∧ lineDmax demoDelay 7 = 2000 ∧ lineDmin demoDelay 9 = 0 ∧ lineDmax demoDelay 9 = 1750
      ∧ lineDmin demoDelay 11 = 0 ∧ lineDmax demoDelay 11 = 0 := by decide +kernel
  have hs : ∀ x, demo.src x = x := fun x => by
    show (simopsMap Gen.kindPrefixes demoNet demoOrder false (fun _ => 16) 4 false).src x = x
    rw [simopsMap_src, viaStem_false]
  have hd : (wcfg demo demoDelay).delay = demoDelay := rfl
  simp only [hs, hd, h7.1, h7.2.1, h7.2.2.1, h7.2.2.2.1, h7.2.2.2.2.1, h7.2.2.2.2.2] at key
  exact key
/-- the delays read from the TEXT are the demo's delay table -/
theorem demo_text_delay : textDelay demoPins demoIc demoText 0 = some demoDelay :=
  (sdf_text_delays demoPins demoIc demoB demoB_ok.1 demoB_ok.2.1 0).2.trans (demo_sdfDelay 0)

/-- **end to end on the demo**: after the propagation with the delays read from the text, the region of the output slot
(cells 180 … 195 of the real layout) holds exactly one transition, the rise at 4.875 = 1.000 + 0.125 (a → u1/I) + 1.000
(u1: I → ZN) + 0.250 (u1/ZN → u2/A1) + 2.000 (u2: A1 → ZN) + 0.500 (u2/ZN → z); the memory-level run is never evaluated:
`C03.wave_memory_sound` reduces it to the signal-level value computed by `decide +kernel` (`demo_sim`) -/
example (junk : Int → Nat → Wv → (Int → T) → Int → T) :
    rdWave 180 16 (memRun demo (waveRW junk) (waveRow (wcfg demo demoDelay) demo) demo.ops demoM0) = ⟨[T.fin 4875], T.tmax⟩ := by
  have h := propagated_eq_sim demo demo_check demoDelay demoM0 _ _ (stimulus_inputEnv _ _) (demo_propagated junk) 19 10
    (by rw [demo_tables.2.1]; exact List.mem_singleton.mpr rfl)
  rw [demo_tables.2.2.2.2.2.2.2.1, demo_tables.2.2.2.2.2.2.2.2.1] at h
  rw [h]
  exact demo_sim

/-- every hypothesis of `sdf_text_sta_window` holds for the demo, and the window static timing analysis computes from the
text's delays for the captured line is the single point 4875 -/
example (junk : Int → Nat → Wv → (Int → T) → Int → T) :
    Within (rdWave 180 16 (memRun demo (waveRW junk) (waveRow (wcfg demo demoDelay) demo) demo.ops demoM0))
      (some (4875, 4875)) := by
  have key := sdf_text_sta_window Gen.kindPrefixes demoNet demoOrder false (fun _ => 16) 4 false demo rfl demo_hyps.1
    demo_hyps.2.1 (fun h => by cases h) demo_hyps.2.2.2 (by decide) demoPins demoIc demoText demoB
    (sdf_text_delays demoPins demoIc demoB demoB_ok.1 demoB_ok.2.1 0).1 demoB_ok.2.2 0 demoDelay demo_text_delay
    demoM0 _ (inputEnv demo demoM0) (stimulus_inputEnv _ _) (demo_propagated junk) demoWin demo_win_ok 19 10
    (by rw [demo_tables.2.1]; exact List.mem_singleton.mpr rfl)
  have hsta : execG (staSem (wcfg demo demoDelay)) (waveProg demo) demoWin 10 = some (4875, 4875) := by decide +kernel
  rw [demo_tables.2.2.2.2.2.2.2.1, demo_tables.2.2.2.2.2.2.2.2.1, hsta] at key
  exact key

/-- every hypothesis of `sdf_text_chain_arrival` holds for the demo (`demoPath`: the eight rows from input slot 14 to the
captured line 10, side input `b` without transition, polarity-independent delays on the path although line 9 is
polarity dependent): any transition in the output region happens at 1000 + 3875 -/
example (junk : Int → Nat → Wv → (Int → T) → Int → T) :
    ∀ u, T.fin u ∈ (rdWave 180 16 (memRun demo (waveRW junk) (waveRow (wcfg demo demoDelay) demo) demo.ops demoM0)).ents →
      u = 1000 + 3875 := by
  have key := sdf_text_chain_arrival Gen.kindPrefixes demoNet demoOrder false (fun _ => 16) 4 false demo rfl demo_hyps.1
    demo_hyps.2.1 (fun h => by cases h) demo_hyps.2.2.2 (by decide) demoPins demoIc demoText demoB
    (sdf_text_delays demoPins demoIc demoB demoB_ok.1 demoB_ok.2.1 0).1 demoB_ok.2.2 0 demoDelay demo_text_delay
    demoM0 _ (inputEnv demo demoM0) (stimulus_inputEnv _ _) (demo_propagated junk) demoWin demo_win_ok 14 demoPath
    (pathOKB_sound _ _ _ _ (by decide +kernel)) 19
    (by rw [demo_tables.2.1]; exact List.mem_singleton.mpr rfl) (by decide +kernel) 1000 rfl (by decide +kernel)
  have hsum : ((pathLines demoPath).map fun l => demoDelay l false false).sum = 3875 := by decide +kernel
  rw [demo_tables.2.2.2.2.2.2.2.1, demo_tables.2.2.2.2.2.2.2.2.1, hsum] at key
  exact key

end KV.C14
