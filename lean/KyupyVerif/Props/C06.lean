import KyupyVerif.Props.C01
import KyupyVerif.Props.C02
import KyupyVerif.Props.C08
import KyupyVerif.Model.WaveCirc
/-! # C06 — results do not depend on performance options, lane position or code path

What is theorem here:
* lanes / batch size / restriction to the first k lanes (LogicSim): the bit-parallel simulator is lane-wise for
  every lane count, so lane `k` of a run depends only on lane `k` of the stimulus (`lane_independent2/4/8`);
* memory reuse: under a liveness-separation certificate memory-level execution equals signal-level execution,
  which does not mention the map (`reuse_irrelevant` = `mem_refines`, abstract; the certificate is evaluated
  per instance, C08);
* code paths of 2-valued propagation agree for every program (`paths_agree`);
* delay data-set selection modes 0 and 1 (`select_mode0`, `select_mode1`).
What is oracle only (harness/c06.py): fork stripping on/off, CPU vs mock-GPU kernels, WaveSim lanes and
`c_prop(sims=k)`. Fork stripping of the timing simulator is FALSE in general for polarity-dependent delays
(non-monotone stem waveforms, known finding D13) — `zero_delay_buffer_not_identity` is a proved witness. -/
namespace KV.C06
open KV KV.Sig KV.Wave

theorem lane_independent2 (w k : Nat) (hk : k < w) (ops : List Op) (env : Nat → BitVec w) (l : Nat) :
    (exec (C01.semLw w) ops env l).getLsbD k = exec semL2n ops (fun x => (env x).getLsbD k) l :=
  C01.sim2_lanes w k hk ops env l

theorem lane_independent8 (w k : Nat) (hk : k < w) (code : Nat) (a b c d : P3 (BitVec w)) :
    (lane w k hk).f3 (Gen.sem8 code a b c d) =
      Gen.sem8 code ((lane w k hk).f3 a) ((lane w k hk).f3 b) ((lane w k hk).f3 c) ((lane w k hk).f3 d) :=
  C02.lanewise8 w k hk code a b c d

theorem lane_independent4 (w k : Nat) (hk : k < w) (code : Nat) (a b c d : P2 (BitVec w)) :
    (lane w k hk).f2 (Gen.sem4 code a b c d) =
      Gen.sem4 code ((lane w k hk).f2 a) ((lane w k hk).f2 b) ((lane w k hk).f2 c) ((lane w k hk).f2 d) :=
  C02.lanewise4 w k hk code a b c d

/-- permuting lanes permutes results; padding lanes and the number of allocated lanes are irrelevant: two runs
    with (possibly different) lane counts agree on lane k/k' whenever their stimuli agree there -/
theorem lane_position_irrelevant (w w' k k' : Nat) (hk : k < w) (hk' : k' < w') (ops : List Op)
    (env : Nat → BitVec w) (env' : Nat → BitVec w') (h : ∀ x, (env x).getLsbD k = (env' x).getLsbD k') (l : Nat) :
    (exec (C01.semLw w) ops env l).getLsbD k = (exec (C01.semLw w') ops env' l).getLsbD k' := by
  rw [lane_independent2 w k hk, lane_independent2 w' k' hk']
  congr 1; funext x; exact h x

theorem paths_agree (ops : List Op) (hk : KnownProg ops) (env : Nat → Bool) (l : Nat) :
    exec semL2n ops env l = exec semL2p ops env l ∧ exec semL2p ops env l = exec semL2c ops env l := by
  obtain ⟨h1, h2, h3⟩ := C01.sim2_paths ops hk env l
  exact ⟨h1.trans h2.symm, h2.trans h3.symm⟩

/-- delay data-set selection (wave_sim.py:165-176), modes 0 and 1 -/
def selectDataset (nsets : Nat) (mode seed simctl0 : Nat) : Option Nat :=
  if nsets > 1 then (if mode = 0 then some seed else if mode = 1 then some simctl0 else none) else some 0

theorem select_mode0 (nsets seed s0 : Nat) (h : 1 < nsets) : selectDataset nsets 0 seed s0 = some seed := by
  simp [selectDataset, h]
theorem select_mode1 (nsets seed s0 : Nat) (h : 1 < nsets) : selectDataset nsets 1 seed s0 = some s0 := by
  simp [selectDataset, h]
/-- with the data set chosen, a run uses that data set's delays alone: same configuration ⇒ same waveforms -/
theorem dataset_alone (delays : Nat → Nat → Bool → Bool → Int) (cap : Nat → Nat) (d : Nat) (ops : List Op) (env : Nat → Wv) :
    simWave ⟨delays d, cap⟩ ops env = simWave ⟨fun l p q => delays d l p q, cap⟩ ops env := rfl

/-- memory reuse: under a liveness-separation certificate the memory-level result at every live signal is the
    signal-level result — which does not depend on the map (see `C08.mem_refines`) -/
theorem reuse_irrelevant {α C : Type} (L : MemRef.Layout α C) (c : MemRef.Cert L)
    (levels : List (List (MemRef.Op α))) (k : Nat) (m : MemRef.Mem C) (env : Nat → α)
    (h : ∀ j (hj : j < levels.length), let ops := levels[j]
        (∀ o ∈ ops, c.dfn o.out = k + j ∧ ∀ i ∈ o.ins, c.dfn i < k + j ∧ k + j ≤ c.last i) ∧
        (ops.map (·.out)).Nodup ∧ (∀ x, c.dfn x = k + j → x ∈ ops.map (·.out)))
    (h0 : MemRef.I L c k m env) :
    MemRef.I L c (k + levels.length) (levels.foldl (MemRef.runMem L) m) (levels.foldl MemRef.runSig env) :=
  C08.mem_refines L c levels k m env h h0

/-- a zero-delay buffer is NOT the identity on a non-monotone waveform: `[51, 44, 57]` becomes `[57]`
    (the two out-of-order edges cancel). This is why stripping forks changes timing results when a stem
    waveform is non-monotone (possible only with polarity-dependent delays, see `C04.mono_timestamps`). -/
theorem zero_delay_buffer_not_identity :
    (waveEval 0xAAAA (fun _ _ _ => 0) (fun i => if i = 0 then [T.fin 51, T.fin 44, T.fin 57] else []) (fun _ => T.tmax) 16).1
      ≠ [T.fin 51, T.fin 44, T.fin 57] := by decide +kernel

end KV.C06
