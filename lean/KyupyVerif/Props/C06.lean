import KyupyVerif.Props.C01
import KyupyVerif.Props.C02
import KyupyVerif.Props.C08
import KyupyVerif.Props.C04
import KyupyVerif.Model.WaveCirc
import KyupyVerif.Proofs.WaveStrip
/-! # C06 — results do not depend on performance options, lane position or code path

What is theorem here:
* lanes / batch size / restriction to the first k lanes (LogicSim): the bit-parallel simulator is lane-wise for
  every lane count, so lane `k` of a run depends only on lane `k` of the stimulus (`lane_independent2/4/8`);
* memory reuse: under a liveness-separation certificate memory-level execution equals signal-level execution,
  which does not mention the map: `reuse_irrelevant_logic` (two accepted maps for the same rows — reuse off / on —
  leave the same values in every output slot; from the soundness theorem of the map certificate, C08; the certificate is
  evaluated on the real tables of every instance) and the older abstract form `reuse_irrelevant` = `mem_refines`;
* code paths of 2-valued propagation agree for every program (`paths_agree`);
* delay data-set selection modes 0 and 1 (`select_mode0`, `select_mode1`).
* fork stripping of the timing simulator (WaveSim, `strip_forks`), in the waveform model `Wave.simWave`:
  - gate level `buf0_identity`: a buffer (LUT `BUF1`) whose operand line has zero delay copies a strictly
    increasing operand waveform exactly — entries, terminator (an overflow marker is passed on), activity
    counts — whenever the waveform and its terminator fit the output capacity (`length + 1 ≤ cap`); the bound is
    sharp: `buf0_overflow` (otherwise the terminator is `tovl` and entries are lost);
  - program level `strip_equiv`: for every op program with fork rows (certificate `stripOkB`, evaluated on the
    real rows) the stripped program `stripOps` (fork rows dropped, readers take the stem as value source and keep
    the branch as delay line — the eight-index rows of `opDelays`) computes the same waveform on every signal that
    is not a removed branch, provided every stem waveform of the UN-STRIPPED run is strictly increasing and fits
    the branch capacity (`ForkIn`) and the lines read by forks have zero delay;
  - `strip_equiv_polind`: the run-time hypothesis follows from checkable ones — polarity-independent delays
    (⇒ all waveforms strictly increasing, `C04.mono_timestamps`), capacity of a stem ≤ capacity of its branches;
  - `zero_delay_buffer_not_identity`: without monotonicity the gate-level statement is FALSE (the proved reason
    for known finding D13: polarity-dependent delays can produce a non-monotone stem waveform).
What is correspondence (harness/c06.py, clause `wave-strip`): the real un-stripped rows satisfy `stripOkB` for the
real branch ↦ stem map (read off `c_locs`), and `stripOps` of the real un-stripped rows equals the real stripped rows;
the numeric hypotheses (zero delay on fork inputs, capacities, polarity independence, monotone stems of the real
un-stripped run) are evaluated per case and, when they hold, the two real runs must agree on every non-branch
waveform. Not covered by a theorem: the scheduler model `genOps … strip` is not proved equal to `stripOps` of
`genOps … (strip := false)` (tied per instance instead).
What is oracle only (harness/c06.py): LogicSim fork stripping, CPU vs mock-GPU kernels, WaveSim lanes and
`c_prop(sims=k)`, fork stripping with non-monotone stems (known finding D13). -/
namespace KV.C06
open KV KV.Sig KV.Wave

theorem lane_independent2 (w k : Nat) (hk : k < w) (ops : List Op) (env : Nat → BitVec w) (l : Nat) :
    (exec (C01.semLw w) ops env l).getLsbD k = exec semL2n ops (fun x => (env x).getLsbD k) l :=
  C01.sim2_lanes w k hk ops env l

theorem lane_independent8 (w k : Nat) (hk : k < w) (code : Nat) (a b c d : P3 (BitVec w)) :
    (lane w k hk).f3 (Gen.sem8 code a b c d) =
      Gen.sem8 code ((lane w k hk).f3 a) ((lane w k hk).f3 b) ((lane w k hk).f3 c) ((lane w k hk).f3 d) :=
  C02.lanewise8 w k hk code a b c d

theorem lane_independent4 (w k : Nat) (hk : k < w) (code : Nat) (a b c d : P2 (BitVec w)) :
    (lane w k hk).f2 (Gen.sem4 code a b c d) =
      Gen.sem4 code ((lane w k hk).f2 a) ((lane w k hk).f2 b) ((lane w k hk).f2 c) ((lane w k hk).f2 d) :=
  C02.lanewise4 w k hk code a b c d

/-- permuting lanes permutes results; padding lanes and the number of allocated lanes are irrelevant: two runs
    with (possibly different) lane counts agree on lane k/k' whenever their stimuli agree there -/
theorem lane_position_irrelevant (w w' k k' : Nat) (hk : k < w) (hk' : k' < w') (ops : List Op)
    (env : Nat → BitVec w) (env' : Nat → BitVec w') (h : ∀ x, (env x).getLsbD k = (env' x).getLsbD k') (l : Nat) :
    (exec (C01.semLw w) ops env l).getLsbD k = (exec (C01.semLw w') ops env' l).getLsbD k' := by
  rw [lane_independent2 w k hk, lane_independent2 w' k' hk']
  congr 1; funext x; exact h x

theorem paths_agree (ops : List Op) (hk : KnownProg ops) (env : Nat → Bool) (l : Nat) :
    exec semL2n ops env l = exec semL2p ops env l ∧ exec semL2p ops env l = exec semL2c ops env l := by
  obtain ⟨h1, h2, h3⟩ := C01.sim2_paths ops hk env l
  exact ⟨h1.trans h2.symm, h2.trans h3.symm⟩

/-- delay data-set selection (wave_sim.py:165-176), modes 0 and 1 -/
def selectDataset (nsets : Nat) (mode seed simctl0 : Nat) : Option Nat :=
  if nsets > 1 then (if mode = 0 then some seed else if mode = 1 then some simctl0 else none) else some 0

theorem select_mode0 (nsets seed s0 : Nat) (h : 1 < nsets) : selectDataset nsets 0 seed s0 = some seed := by
  simp [selectDataset, h]
theorem select_mode1 (nsets seed s0 : Nat) (h : 1 < nsets) : selectDataset nsets 1 seed s0 = some s0 := by
  simp [selectDataset, h]
/-- with the data set chosen, a run uses that data set's delays alone: same configuration ⇒ same waveforms -/
theorem dataset_alone (delays : Nat → Nat → Bool → Bool → Int) (cap : Nat → Nat) (d : Nat) (ops : List Op) (env : Nat → Wv) :
    simWave ⟨delays d, cap⟩ ops env = simWave ⟨fun l p q => delays d l p q, cap⟩ ops env := rfl

/-- memory reuse: under a liveness-separation certificate the memory-level result at every live signal is the
    signal-level result — which does not depend on the map (see `C08.mem_refines`) -/
theorem reuse_irrelevant {α C : Type} (L : MemRef.Layout α C) (c : MemRef.Cert L)
    (levels : List (List (MemRef.Op α))) (k : Nat) (m : MemRef.Mem C) (env : Nat → α)
    (h : ∀ j (hj : j < levels.length), let ops := levels[j]
        (∀ o ∈ ops, c.dfn o.out = k + j ∧ ∀ i ∈ o.ins, c.dfn i < k + j ∧ k + j ≤ c.last i) ∧
        (ops.map (·.out)).Nodup ∧ (∀ x, c.dfn x = k + j → x ∈ ops.map (·.out)))
    (h0 : MemRef.I L c k m env) :
    MemRef.I L c (k + levels.length) (levels.foldl (MemRef.runMem L) m) (levels.foldl MemRef.runSig env) :=
  C08.mem_refines L c levels k m env h h0

/-- memory reuse, concrete: two memory maps for the same circuit, options and op rows (e.g. `c_reuse` off and on, or two
    different allocators) that both pass the map certificate leave the same value in every output slot — each equals
    the signal-level result, which does not mention the map. Tables of the real simulator pass the certificate on every
    generated case (C08). One-row-per-signal storage (LogicSim), any value domain and op semantics. -/
theorem reuse_irrelevant_logic {α : Type} [Inhabited α] (p1 p2 : MapIn)
    (hnet : p1.net = p2.net) (hstrip : p1.strip = p2.strip) (hops : p1.ops = p2.ops)
    (h1 : p1.check = none) (h2 : p2.check = none) (hp1 : 0 < p1.capsMin) (hp2 : 0 < p2.capsMin)
    (f : Nat → List α → α) (m1 m2 : Int → α) (env0 : Nat → α)
    (h01 : ∀ x ∈ p1.tracked, (∀ o ∈ p1.ops, o.out ≠ x) → m1 (p1.loc x) = env0 x)
    (h02 : ∀ x ∈ p2.tracked, (∀ o ∈ p2.ops, o.out ≠ x) → m2 (p2.loc x) = env0 x) :
    ∀ j s, (j, s) ∈ p1.ppoSrcs →
      MapSound.memRun p1 (MapSound.rowRW α) (fun o => f o.lut) p1.ops m1 (p1.loc j)
        = MapSound.memRun p2 (MapSound.rowRW α) (fun o => f o.lut) p2.ops m2 (p2.loc j) := by
  obtain ⟨net1, strip1, ops1, st1, l1, c1, n1, cm1⟩ := p1
  obtain ⟨net2, strip2, ops2, st2, l2, c2, n2, cm2⟩ := p2
  simp only at hnet hstrip hops
  subst hnet hstrip hops
  intro j s hjs
  rw [C08.map_certificate_sound_logic _ h1 hp1 f m1 env0 h01 j s hjs,
      C08.map_certificate_sound_logic _ h2 hp2 f m2 env0 h02 j s hjs]
  rfl

/-- a zero-delay buffer is NOT the identity on a non-monotone waveform: `[51, 44, 57]` becomes `[57]`
    (the two out-of-order edges cancel). This is why stripping forks changes timing results when a stem
    waveform is non-monotone (possible only with polarity-dependent delays, see `C04.mono_timestamps`). -/
theorem zero_delay_buffer_not_identity :
    (waveEval 0xAAAA (fun _ _ _ => 0) (fun i => if i = 0 then [T.fin 51, T.fin 44, T.fin 57] else []) (fun _ => T.tmax) 16).1
      ≠ [T.fin 51, T.fin 44, T.fin 57] := by decide +kernel


/-! ## fork stripping of the timing simulator -/

/-- **zero-delay buffer = identity on strictly increasing waveforms.**
    Any LUT that is a buffer on operand 0 (`IsBuf`, e.g. `sim.BUF1 = 0xAAAA`), non-negative delays, delay 0 for all
    four polarity combinations of operand 0 (hence pulse-filter threshold 0), capacity ≥ 4 (`c_caps_min`), all
    operand waveforms well formed (finite entries, optional leading `tmin`), operand 0 strictly increasing and
    `length + 1 ≤ capacity` (entries plus terminator fit). Operands 1–3 may be anything well formed.
    Then the produced waveform has exactly the entries of operand 0; its terminator is the largest operand
    terminator (so `tovl` on the operand is passed on); `nrise`/`nfall` are those of the copied waveform. -/
theorem buf0_identity (lut : Nat) (hbuf : IsBuf lut) (D : Delays) (hD : ∀ i p q, 0 ≤ D i p q)
    (hz : ∀ p q, D 0 p q = 0) (ws : Fin 4 → List T) (terms : Fin 4 → T) (zcap : Nat) (hcap : 4 ≤ zcap)
    (hwf : ∀ i, WfRem (ws i)) (hterm : ∀ i, (terms i).isTerm = true)
    (hinc : Incr (ws 0)) (hlen : (ws 0).length + 1 ≤ zcap) :
    waveEval lut D ws terms zcap =
      (ws 0, T.max (T.max (terms 0) (terms 1)) (T.max (terms 2) (terms 3)),
       ((ws 0).length + 1) / 2 - startsHigh (ws 0), (ws 0).length / 2) :=
  waveEval_buf0 ⟨lut, D, terms, zcap, hcap, hD, hterm⟩ hbuf hz ws hwf hinc (show (ws 0).length < zcap by omega)

theorem buf1_isBuf : IsBuf 0xAAAA := isBuf_BUF1

/-- the capacity hypothesis of `buf0_identity` is sharp: under the same hypotheses but `capacity ≤ length` (entries plus
    terminator do not fit) the buffer overflows — the terminator becomes `tovl` and entries are lost -/
theorem buf0_overflow (lut : Nat) (hbuf : IsBuf lut) (D : Delays) (hD : ∀ i p q, 0 ≤ D i p q)
    (hz : ∀ p q, D 0 p q = 0) (ws : Fin 4 → List T) (terms : Fin 4 → T) (zcap : Nat) (hcap : 4 ≤ zcap)
    (hwf : ∀ i, WfRem (ws i)) (hterm : ∀ i, (terms i).isTerm = true)
    (hinc : Incr (ws 0)) (hlen : zcap ≤ (ws 0).length) :
    (waveEval lut D ws terms zcap).2.1 = T.tovl ∧ (waveEval lut D ws terms zcap).1.length < (ws 0).length :=
  waveEval_buf0_overflow ⟨lut, D, terms, zcap, hcap, hD, hterm⟩ hbuf hz ws hwf hinc hlen

/-- … for instance four transitions into capacity 4: `[1, 2, 3, 4]` becomes `[1, 2]` with the overflow marker -/
example : waveEval 0xAAAA (fun _ _ _ => 0) (fun i => if i = 0 then [T.fin 1, T.fin 2, T.fin 3, T.fin 4] else []) (fun _ => T.tmax) 4
    = ([T.fin 1, T.fin 2], T.tovl, 1, 1) := by decide +kernel

/-- the row form: a `BUF1` row whose operand line has zero delay and whose other operands carry no overflow marker
    (the `zero` slot) returns operand 0 unchanged -/
theorem fork_row_copies (cfg : WCfg) (op : Op) (xs : List Wv) (hd : ∀ l p q, 0 ≤ cfg.delay l p q)
    (hc : 4 ≤ cfg.cap op.out) (hbuf : IsBuf op.code) (hz : ∀ p q, opDelays cfg op 0 p q = 0)
    (hx : ForkIn cfg op xs) : waveSem cfg op xs = slot xs 0 :=
  waveSem_buf0 cfg op xs hd hc hbuf hz hx

/-- non-vacuity of `buf0_identity`: initially-high operand with two transitions, other operands toggling, capacity 4 -/
example : waveEval 0xAAAA (fun i _ _ => if i = 0 then 0 else 3)
    (fun i => if i = 0 then [T.tmin, T.fin 3, T.fin 7] else if i = 1 then [T.fin 2, T.fin 5] else [])
    (fun i => if i = 2 then T.tovl else T.tmax) 4 = ([T.tmin, T.fin 3, T.fin 7], T.tovl, 1, 1) := by
  have h := buf0_identity 0xAAAA buf1_isBuf (fun i _ _ => if i = 0 then 0 else 3) (by intro i p q; split <;> omega)
    (by intro p q; rfl)
    (fun i => if i = 0 then [T.tmin, T.fin 3, T.fin 7] else if i = 1 then [T.fin 2, T.fin 5] else [])
    (fun i => if i = 2 then T.tovl else T.tmax) 4 (by omega)
    (by intro i; simp only [WfRem]; split <;> (try split) <;> simp [T.isFin])
    (by intro i; split <;> rfl)
    (by simp [Incr, T.lt, T.rank])
    (by simp)
  exact h

/-- the same instance by evaluation of the model -/
example : waveEval 0xAAAA (fun i _ _ => if i = 0 then 0 else 3)
    (fun i => if i = 0 then [T.tmin, T.fin 3, T.fin 7] else if i = 1 then [T.fin 2, T.fin 5] else [])
    (fun i => if i = 2 then T.tovl else T.tmax) 4 = ([T.tmin, T.fin 3, T.fin 7], T.tovl, 1, 1) := by decide +kernel

/-- **fork stripping, every program.** `ops` is a program with fork rows for the branch ↦ stem map `st`
    (`stripOkB`: every row has four operands; a row writing a branch `b ↦ s` is `BUF1(b; x, zero, zero, zero)` with `x`
    the stem `s` or an already written branch of `s`; `s`, `x` and `zero` are not written at or after it; every other
    row reads only branches that are already written). Delays ≥ 0, capacities ≥ 4, delay 0 on every line read by
    a fork row. If in the UN-STRIPPED run every fork row's operands are well formed, its stem waveform is strictly
    increasing and fits the branch capacity and the `zero` slot carries terminator `tmax` (`ForkIn`), then the stripped
    program `stripOps st ops` — fork rows dropped, readers redirected to the stem as value source, keeping the branch
    as delay line — yields the same waveform as `ops` on every signal that is not a branch; and what the un-stripped
    run leaves on a branch (where an output port or flip-flop captures it) is what the stripped run leaves on the stem
    (whose memory the branch shares after stripping). -/
theorem strip_equiv (cfg : WCfg) (st : List (Nat × Nat)) (zidx : Nat) (ops : List Op) (env : Nat → Wv)
    (hg : cfg.Good ops) (hs : stripOkB st zidx [] ops = true)
    (hz : ∀ op ∈ ops, (st.lookup op.out).isSome = true → ∀ p q, cfg.delay (op.ins.getD 0 0) p q = 0)
    (hrun : ∀ op ∈ ops, (st.lookup op.out).isSome = true → ForkIn cfg op (op.ins.map (simWave cfg ops env))) :
    (∀ l, st.lookup l = none → simWave cfg (stripOps st ops) env l = simWave cfg ops env l) ∧
    (∀ b s, st.lookup b = some s → (∃ p ∈ ops, p.out = b) →
      simWave cfg (stripOps st ops) env s = simWave cfg ops env b) := by
  obtain ⟨h1, h2⟩ := strip_final cfg st zidx ops env hg hs hz hrun
  refine ⟨h1, fun b s hb hw => ?_⟩
  obtain ⟨p, hp, hpo⟩ := hw
  rw [h1 s (stripOkB_stem_none hs hp (hpo ▸ hb)), h2 b s hb ⟨p, hp, hpo⟩]

/-- **fork stripping under checkable hypotheses**: polarity-independent delays (⇒ every waveform of the run is
    strictly increasing), strictly increasing well-formed input waveforms, capacity of the line a fork reads ≤ capacity
    of each branch, input waveforms on fork-read lines fit the branch, and the `zero` slot holds terminator `tmax`. -/
theorem strip_equiv_polind (cfg : WCfg) (hpol : C04.PolIndep cfg) (st : List (Nat × Nat)) (zidx : Nat) (ops : List Op)
    (env : Nat → Wv) (hg : cfg.Good ops) (hs : stripOkB st zidx [] ops = true)
    (hz : ∀ op ∈ ops, (st.lookup op.out).isSome = true → ∀ p q, cfg.delay (op.ins.getD 0 0) p q = 0)
    (hcap : ∀ op ∈ ops, (st.lookup op.out).isSome = true → cfg.cap (op.ins.getD 0 0) ≤ cfg.cap op.out)
    (henv : ∀ l, C04.MonoOk (env l))
    (hlen : ∀ op ∈ ops, (st.lookup op.out).isSome = true → (env (op.ins.getD 0 0)).ents.length < cfg.cap op.out)
    (hzero : (env zidx).term = T.tmax) :
    (∀ l, st.lookup l = none → simWave cfg (stripOps st ops) env l = simWave cfg ops env l) ∧
    (∀ b s, st.lookup b = some s → (∃ p ∈ ops, p.out = b) →
      simWave cfg (stripOps st ops) env s = simWave cfg ops env b) := by
  apply strip_equiv cfg st zidx ops env hg hs hz ?_
  intro op hop hb
  -- every waveform of the un-stripped run is well formed and strictly increasing
  have hmono : ∀ x, C04.MonoOk (simWave cfg ops env x) :=
    execG_inv_on C04.MonoOk (waveSem cfg) ops
      (fun o ho xs hx => C04.gate_mono cfg hpol o hg.delay_nonneg (hg.cap_ge o ho) xs hx) env henv
  have hlen4 : op.ins.length = 4 := by
    obtain ⟨pre, post, hsplit⟩ := List.append_of_mem hop
    obtain ⟨w'', hs''⟩ := stripOkB_suffix pre (hsplit ▸ hs)
    exact (stripOkB_cons hs'').1
  have hdrop : op.ins.drop 1 = [zidx, zidx, zidx] := by
    obtain ⟨pre, post, hsplit⟩ := List.append_of_mem hop
    obtain ⟨w'', hs''⟩ := stripOkB_suffix pre (hsplit ▸ hs)
    obtain ⟨s, hlo⟩ := Option.isSome_iff_exists.mp hb
    exact (forkRowB_spec ((stripOkB_cons hs'').2.2.2.1 s hlo)).2.1
  have hins := forkRow_ins hlen4 hdrop
  have hslot : ∀ i : Fin 4, slot (op.ins.map (simWave cfg ops env)) i =
      simWave cfg ops env (if i = 0 then op.ins.getD 0 0 else zidx) := by
    intro i
    rw [hins]
    match i with
    | 0 => rfl
    | 1 => rfl
    | 2 => rfl
    | 3 => rfl
  refine ⟨fun i => ?_, ?_, ?_, ?_⟩
  · rw [hslot i]; exact (hmono _).1
  · rw [hslot 0]; exact (hmono _).2
  · rw [hslot 0]
    simp only [if_true]
    rcases execG_cases (waveSem cfg) ops env (op.ins.getD 0 0) with h | ⟨o, ho, hout, xs, hx⟩
    · show (execG (waveSem cfg) ops env (op.ins.getD 0 0)).ents.length < _
      rw [h]; exact hlen op hop hb
    · show (execG (waveSem cfg) ops env (op.ins.getD 0 0)).ents.length < _
      rw [hx]
      have h1 := waveSem_len cfg o xs (by have := hg.cap_ge o ho; omega)
      have h2 := hcap op hop hb
      rw [hout] at h1
      omega
  · intro i hi
    rw [hslot i, if_neg hi]
    show (execG (waveSem cfg) ops env zidx).term = _
    rw [execG_frame (waveSem cfg) ops env zidx (stripOkB_out_ne hs)]
    exact hzero


/-! ### non-vacuity: `10 = AND(0,1)` is a stem with branches 11, 12 and — through a chained fork reading 12 — 13;
`14 = XOR(11, 2)`, `15 = OR(13, 14)`; slot 9 is the `zero` slot; the lines read by forks (10, 12) have zero delay -/
def exOps : List Op := [⟨0x8888, 10, [0, 1, 9, 9]⟩, ⟨0xAAAA, 11, [10, 9, 9, 9]⟩, ⟨0xAAAA, 12, [10, 9, 9, 9]⟩,
  ⟨0xAAAA, 13, [12, 9, 9, 9]⟩, ⟨0x6666, 14, [11, 2, 9, 9]⟩, ⟨0xEEEE, 15, [13, 14, 9, 9]⟩]
def exSt : List (Nat × Nat) := [(11, 10), (12, 10), (13, 10)]
/-- polarity-independent delays -/
def exCfg : WCfg := ⟨fun l _ _ => if l = 10 ∨ l = 12 then 0 else if l = 13 then 7 else 2, fun _ => 8⟩
/-- polarity-dependent delays -/
def exCfg2 : WCfg := ⟨fun l p q => if l = 10 ∨ l = 12 then 0 else if p then (if q then 4 else 3) else 1, fun _ => 8⟩
def exEnv : Nat → Wv := fun l => if l = 0 then stimWave false 5 true else if l = 1 then stimWave true 40 false
  else if l = 2 then stimWave true 20 false else Wv.empty

theorem ex_ok : stripOkB exSt 9 [] exOps = true := by decide +kernel

example : stripOps exSt exOps =
    [⟨0x8888, 10, [0, 1, 9, 9, 0, 1, 9, 9]⟩, ⟨0x6666, 14, [10, 2, 9, 9, 11, 2, 9, 9]⟩, ⟨0xEEEE, 15, [10, 14, 9, 9, 13, 14, 9, 9]⟩] := rfl

theorem ex_good (c : WCfg) (hd : ∀ l p q, 0 ≤ c.delay l p q) (hc : c.cap = fun _ => 8) : c.Good exOps :=
  ⟨hd, fun op _ => by rw [hc]; show 4 ≤ 8; decide⟩

theorem ex_cfg_nonneg : ∀ l p q, 0 ≤ exCfg.delay l p q := by
  intro l p q
  show (0 : Int) ≤ if l = 10 ∨ l = 12 then 0 else if l = 13 then 7 else 2
  repeat' split
  all_goals omega

theorem ex_cfg2_nonneg : ∀ l p q, 0 ≤ exCfg2.delay l p q := by
  intro l p q
  show (0 : Int) ≤ if l = 10 ∨ l = 12 then 0 else if p then (if q then 4 else 3) else 1
  repeat' split
  all_goals omega

theorem ex_env_mono (l : Nat) : C04.MonoOk (exEnv l) := by
  unfold exEnv
  repeat' split
  all_goals simp [C04.MonoOk, Wv.ok, WfRem, Incr, stimWave, Wv.empty, T.isFin, T.isTerm, T.lt, T.rank]

/-- `strip_equiv_polind` applies: all hypotheses hold for the example -/
example (l : Nat) (hl : exSt.lookup l = none) : simWave exCfg (stripOps exSt exOps) exEnv l = simWave exCfg exOps exEnv l :=
  (strip_equiv_polind exCfg (fun _ _ _ => rfl) exSt 9 exOps exEnv
    (ex_good exCfg ex_cfg_nonneg rfl)
    ex_ok (by decide +kernel) (by decide +kernel) ex_env_mono (by decide +kernel) rfl).1 l hl

/-- … and the common result is not trivial -/
example : simWave exCfg exOps exEnv 15 = ⟨[T.tmin, T.fin 49], T.tmax⟩ ∧
    simWave exCfg (stripOps exSt exOps) exEnv 15 = ⟨[T.tmin, T.fin 49], T.tmax⟩ ∧
    simWave exCfg exOps exEnv 14 = ⟨[T.tmin, T.fin 9, T.fin 22, T.fin 44], T.tmax⟩ := by decide +kernel

/-- `strip_equiv` applies with polarity-DEPENDENT delays: the run-time hypothesis `ForkIn` (stem waveforms of the
    un-stripped run strictly increasing and short enough) is evaluated on the run -/
example (l : Nat) (hl : exSt.lookup l = none) : simWave exCfg2 (stripOps exSt exOps) exEnv l = simWave exCfg2 exOps exEnv l :=
  (strip_equiv exCfg2 exSt 9 exOps exEnv
    (ex_good exCfg2 ex_cfg2_nonneg rfl)
    ex_ok (by decide +kernel) (by simp only [ForkIn, Wv.ok, WfRem, Incr]; decide +kernel)).1 l hl

example : simWave exCfg2 exOps exEnv 15 = ⟨[T.tmin, T.fin 52], T.tmax⟩ ∧
    simWave exCfg2 (stripOps exSt exOps) exEnv 15 = ⟨[T.tmin, T.fin 52], T.tmax⟩ := by decide +kernel

end KV.C06
