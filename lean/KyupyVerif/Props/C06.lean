import KyupyVerif.Props.C01
import KyupyVerif.Props.C02
import KyupyVerif.Props.C08
import KyupyVerif.Props.C04
import KyupyVerif.Props.C03
import KyupyVerif.Model.WaveCirc
import KyupyVerif.Proofs.WaveStrip
import KyupyVerif.Proofs.StripLinkLogic
import KyupyVerif.Proofs.StripLinkMem
import KyupyVerif.Proofs.WaveIOCheck
import KyupyVerif.Proofs.WaveIOOrder
import KyupyVerif.Props.C13
import KyupyVerif.Proofs.LevelMem
/-! # C06 — results do not depend on performance options, lane position or code path

What is theorem here:
* lanes / batch size / restriction to the first k lanes (LogicSim): the bit-parallel simulator is lane-wise for
  every lane count, so lane `k` of a run depends only on lane `k` of the stimulus (`lane_independent2/4/8`);
* memory reuse: under a liveness-separation certificate memory-level execution equals signal-level execution,
  which does not mention the map: `reuse_irrelevant_logic` (two accepted maps for the same rows — reuse off / on —
  leave the same values in every output slot; from the soundness theorem of the map certificate, C08; the certificate is
  evaluated on the real tables of every instance) and the older abstract form `reuse_irrelevant` = `mem_refines`;
* code paths of 2-valued propagation agree for every program (`paths_agree`);
* delay data-set selection (audit finding 8): `WaveIO.selectDataset` models `_wave_eval` lines 165-176 per lane (modes 0 and 1 with
  bounds; `none` = index out of range, empty table, mode ≥ 2 — outside), tied to the code by the driver command `wio-dataset`
  (the index the real `_wave_eval` applies to `delays`, per lane, mixed modes, out-of-range values); `select_mode0/1`,
  `select_in_bounds`; connected to the propagation through `cfgSel`: `dataset_lane` (lane `k` of a run with per-lane configurations =
  lane `k` of the run with `cfg k` alone), `dataset_lane_select` (… = the run with the data set `selectDataset` gives for lane `k`),
  `dataset_alone` (mode 0 on all lanes: the whole run is the run with data set `seed`; replaces the former eta-`rfl`);
* WaveSim lanes (model `cpuCProp` of `Model/WaveIO.lean`, EVERY evaluator function): `cprop_lane_position` (lane `j` of `k` lanes =
  lane `j'` of `k'` lanes when the two lanes start equal and are evaluated alike), `cprop_first_k` (`c_prop(sims=k)` = the first `k`
  lanes of the full run), `cprop_lane_permutation`;
* WaveSim memory reuse: `wave_reuse_irrelevant` (corollary of `C03.wave_memory_sound`: two accepted maps for the same rows and
  capacities, any contract-honouring runs in any level-respecting orders, leave the same waveform in every output slot).
* fork stripping of the timing simulator (WaveSim, `strip_forks`), in the waveform model `Wave.simWave`:
  - gate level `buf0_identity`: a buffer (LUT `BUF1`) whose operand line has zero delay copies a strictly
    increasing operand waveform exactly — entries, terminator (an overflow marker is passed on), activity
    counts — whenever the waveform and its terminator fit the output capacity (`length + 1 ≤ cap`); the bound is
    sharp: `buf0_overflow` (otherwise the terminator is `tovl` and entries are lost);
  - program level `strip_equiv`: for every op program with fork rows (certificate `stripOkB`, evaluated on the
    real rows) the stripped program `stripOps` (fork rows dropped, readers take the stem as value source and keep
    the branch as delay line — the eight-index rows of `opDelays`) computes the same waveform on every signal that
    is not a removed branch, provided every stem waveform of the UN-STRIPPED run is strictly increasing and fits
    the branch capacity (`ForkIn`) and the lines read by forks have zero delay;
  - `strip_equiv_polind`: the run-time hypothesis follows from checkable ones — polarity-independent delays
    (⇒ all waveforms strictly increasing, `C04.mono_timestamps`), capacity of a stem ≤ capacity of its branches;
  - `zero_delay_buffer_not_identity`: without monotonicity the gate-level statement is FALSE (the proved reason
    for known finding D13: polarity-dependent delays can produce a non-monotone stem waveform).
* fork stripping for ALL circuits — the link between the scheduler model and the program transformation, for every
  netlist whose pin tables and line records refer to each other (`Net.wfB`), every topological order (`orderOKB`) and
  `forksOKB` (every node scheduled as a fork has kind exactly `__fork__`, nothing on input pins 1–3, and reads a line listed
  on its driver's output pin or is an undriven interface node):
  - `stems_characterised`: what the `stems` array of `SimOps` (`stemsOf net true`) holds, chained forks included
    (`stemWalk` ends, within the fuel `SimOps` uses, at the first driver that is not a driven fork; it stands earlier);
  - `genOps_strip_link`: the rows scheduled with `strip_forks=True`, as eight-index rows (value sources = operands
    resolved through the stems, delay lines = the operands), ARE `stripOps` of the rows scheduled with
    `strip_forks=False`, and the un-stripped rows carry the certificate `stripOkB` for `stemList net` — the structural
    hypothesis of `strip_equiv(_polind)` holds for all circuits; `genOps_strip_rows` (stripped rows = un-stripped rows
    minus the branch writers), `genOps_strip_link_sig` (the same in terms of `MapSound.sigOp`, for C08);
  - `strip_irrelevant_logic` (LogicSim): for any value domain and op semantics in which `BUF1` returns its first operand
    (`buf1_first_operand`: the generated 2-, 4-, 8-valued dispatchers do), signal-level execution of the stripped and
    of the un-stripped schedule agree on every non-branch signal and branch(un-stripped) = stem(stripped);
    instances `strip_irrelevant_logic2/4/8`; `strip_irrelevant_logic_mem`: composed with the soundness of the map certificate
    (C08) — two accepted map records, one of the un-stripped and one of the stripped simulator, leave the same value in every
    output slot after memory-level execution (LogicSim storage, model rows);
  - `strip_equiv_all_circuits` (WaveSim): `strip_equiv_polind` with the structural hypotheses proved and the numeric ones
    stated on the netlist (zero delay on lines read by forks, capacity of that line ≤ capacity of each branch, …);
    `strip_equiv_all_circuits_run` likewise from `strip_equiv` (run-time hypothesis `ForkIn`);
  - `forksOKB` cannot be dropped: `badForkNet` (a node of kind `__FORK__` is scheduled as a fork but gets no stems:
    with `strip_forks=True` its rows vanish and its readers are not redirected — reproduced on the real code).
* CPU vs GPU-kernel code path of the timing simulator (section "code paths"; models `Model/WaveIO.lean`, state kept lane by lane
  because every array access of the modelled functions has the lane as last index):
  - `s_to_c`: `assign_thresholds` (the CPU tests `!= 0`, the kernel `>= 0.5`: they agree iff the value is 0 or ≥ 1/2),
    `assign_cells_agree` (same flags ⇒ the same three raw cells at offsets 0, 1, 2, closed form; no other cell is written by
    either path), `read_stale_irrelevant` (reading a region stops at the first cell ≥ TMAX: stale cells behind it are
    irrelevant), `assign_paths_agree` (one (s_node, lane) item, ANY previous contents of the two memories: same waveform read
    back, raw cells 0–2 equal, cells ≥ 3 keep the old — stale — content), `assign_reads_stimulus` (= `Wave.stimWave`, the
    stimulus of the waveform model), `s_to_c_gpu_lane` (what the launch does, no hypotheses), `s_to_c_paths_agree` (whole
    array `c`, every block shape; hypotheses: disjoint (P)PI regions, values 0 or ≥ 1/2); state elements without connected
    outputs (`c_locs = -1`, `orphanTab`) are skipped by both paths — the CPU path stored through the −1 at `c[-1]`, `c[0]`,
    `c[1]` until the repair "state elements without connected outputs are not assigned in s_to_c" (found by this model: D31);
  - `s_ppo_to_ppi`: `ppo_to_ppi_rows` (exactly which rows each path transfers, no hypotheses), `ppo_to_ppi_paths_agree` (equal
    when the rows with both slots are the state-element rows), `ppo_to_ppi_keeps_domain`; `inoutTab`: the hypothesis is needed;
  - propagation: `eval_thread_eq` (kernel thread = guarded CPU loop body, for EVERY evaluator function — both paths call the
    same `_wave_eval`), `level_paths_agree` (a kernel launch = `level_eval_cpu` on all of `c` and `abuf`, every block shape, no
    independence assumption: the launcher keeps the op order inside a lane), `c_prop_paths_agree` (induction over the levels),
    `level_any_thread_order` (every permutation of the threads of a level, under footprint independence of its ops; accumulation
    commutes) with the instance `level_any_thread_order_wave` for the evaluator `evWave` built from `Wave.waveSem` (audit-2 finding 3: equal accumulators and equal memory OUTSIDE the scratch regions, under footprint conditions modulo scratch that follow from the map certificate — `C07.level_threads_any_order`; the whole-memory form under `opsIndepB`, false for two scratch writers in a level, is `level_any_thread_order_wave_exact`);
    `eval_reads_back` (one `evWave` evaluation: the output region reads back as `Wave.waveSem` of the operand waveforms read
    from memory, counts = `Wave.waveCounts`, nothing outside the output region changes);
  - capture (`sd = 0`): `capture_paths_agree` (index loop = slice scan = `captureWv` of the waveform the region encodes, i.e. the
    model of C13), `c_to_s_paths_agree` (same rows, same records);
  - `simulate_paths_agree`: `s_to_c; c_prop; c_to_s` of `WaveSimCuda` = of `WaveSim` on all arrays.
What is correspondence (harness/pathtie.py, clause `path-tie`): the models of BOTH paths of `s_to_c`, `s_ppo_to_ppi`, of the capture
scan and of the whole `c_to_s` (`cpuCToS` / `gpuCToS`, driver `wio-ctos`: captured records of every row and lane on random raw memory)
against the real `WaveSim` / `WaveSimCuda` (kernels under `MockCuda`, random block shapes): raw arrays equal cell by cell,
on random tables (incl. `c_locs = -1` rows), values off {0, 1}, random previous memory contents; the table hypotheses of
the whole-array theorems (`regionsDisjointB`, `flagsOKB`, `transferRowsB`, `stateRowsCapturedB`, `capsPositiveB`) are evaluated BY THE
DRIVER (`wio-hyp`) on the real tables and the real `s` and, where they hold, the two real arrays must be equal.
Since the second audit (finding 2) ALSO tied: a whole `c_prop` — clause `path-tie-cprop`, driver `wio-cprop` runs `cpuCProp` / `gpuCProp
(evWave cfgSel loc)` with `accAdd` on the raw memory, `ops` (incl. the accumulation columns), `level_starts/stops`, `c_locs`, `c_caps`, all
delay data sets and `simctl_int` of real objects of both classes (objects with a history, `c_prop(sims=k)`, mixed per-lane modes, zero /
negative weights): the waveform every region READS AS and every accumulator of every lane are equal (cells behind a terminator are not
compared — the real evaluator leaves popped entries there, the instance `evWave` leaves them unchanged), lanes `≥ k` untouched; the two real
paths are compared on the same cases as an oracle (class `config-code-path-cprop`). The kernel
launch is tied in C07 (`grid`), `_wave_eval` in C03 (gate calls and whole runs of both classes), accumulation in C13.
Not covered by a theorem: that the shared Python function `_wave_eval` is a function of the lane's memory with footprints inside
the regions of its op (it is the parameter `ev` of the propagation theorems; its waveform-level model `Wave.waveEval` is tied by
C03); the raw cells `_wave_eval` leaves behind the terminator of its output (the instance `evWave` leaves them unchanged);
the composition of `eval_reads_back` over a whole program under the map certificate (memory-level `c_prop` of WaveSim = signal-level
`simWave`; for LogicSim storage this is `C08.map_certificate_sound_logic`); `sd > 0` (the two capture paths seed the sampling
differently: `c_loc` vs `2 y`); NaN / infinite values in `s`.
What is correspondence (harness/c06.py, clause `wave-strip`): `genOps`, `stemsOf` = the real `ops` / `c_locs` (C01, exact);
per case additionally: the real un-stripped rows satisfy `stripOkB` for the real branch ↦ stem map (read off `c_locs`),
`stripOps` of the real un-stripped rows equals the real stripped rows, `Net.wfB` / `orderOKB` / `forksOKB` hold for the real
circuit and the real topological order and `stemList` of the model equals the real branch ↦ stem map (driver command
`forkcert`); the numeric hypotheses (zero delay on fork inputs, capacities, polarity independence, monotone stems of the real
un-stripped run) are evaluated per case and, when they hold, the two real runs must agree on every non-branch waveform.
Not covered by a theorem: memory-level execution of the stripped WaveSim (the stripped rows read the stem's memory
through `c_locs`; for LogicSim this step is proved: `strip_irrelevant_logic_mem`).
What is oracle only (harness/c06.py): LogicSim fork stripping on the real code (the theorem `strip_irrelevant_logic` is about
the model), whole CPU vs mock-GPU runs on the same simulator objects incl. a second assignment after a first one (kept as it was;
the path theorems above are about the models), WaveSim lanes / `c_prop(sims=k)` / data sets / reuse ON THE REAL CODE (the theorems
`cprop_first_k`, `cprop_lane_permutation`, `dataset_lane_select`, `wave_reuse_irrelevant` are about the models), fork stripping with
non-monotone stems (known finding D13). -/
namespace KV.C06
open KV KV.Sig KV.Wave

theorem lane_independent2 (w k : Nat) (hk : k < w) (ops : List Op) (env : Nat → BitVec w) (l : Nat) :
    (exec (C01.semLw w) ops env l).getLsbD k = exec semL2n ops (fun x => (env x).getLsbD k) l :=
  C01.sim2_lanes w k hk ops env l

theorem lane_independent8 (w k : Nat) (hk : k < w) (code : Nat) (a b c d : P3 (BitVec w)) :
    (lane w k hk).f3 (Gen.sem8 code a b c d) =
      Gen.sem8 code ((lane w k hk).f3 a) ((lane w k hk).f3 b) ((lane w k hk).f3 c) ((lane w k hk).f3 d) :=
  C02.lanewise8 w k hk code a b c d

theorem lane_independent4 (w k : Nat) (hk : k < w) (code : Nat) (a b c d : P2 (BitVec w)) :
    (lane w k hk).f2 (Gen.sem4 code a b c d) =
      Gen.sem4 code ((lane w k hk).f2 a) ((lane w k hk).f2 b) ((lane w k hk).f2 c) ((lane w k hk).f2 d) :=
  C02.lanewise4 w k hk code a b c d

/-- permuting lanes permutes results; padding lanes and the number of allocated lanes are irrelevant: two runs
    with (possibly different) lane counts agree on lane k/k' whenever their stimuli agree there -/
theorem lane_position_irrelevant (w w' k k' : Nat) (hk : k < w) (hk' : k' < w') (ops : List Op)
    (env : Nat → BitVec w) (env' : Nat → BitVec w') (h : ∀ x, (env x).getLsbD k = (env' x).getLsbD k') (l : Nat) :
    (exec (C01.semLw w) ops env l).getLsbD k = (exec (C01.semLw w') ops env' l).getLsbD k' := by
  rw [lane_independent2 w k hk, lane_independent2 w' k' hk']
  congr 1; funext x; exact h x

theorem paths_agree (ops : List Op) (hk : KnownProg ops) (env : Nat → Bool) (l : Nat) :
    exec semL2n ops env l = exec semL2p ops env l ∧ exec semL2p ops env l = exec semL2c ops env l := by
  obtain ⟨h1, h2, h3⟩ := C01.sim2_paths ops hk env l
  exact ⟨h1.trans h2.symm, h2.trans h3.symm⟩

open KV.WaveIO (selectDataset)

theorem select_mode0 (nsets seed s0 : Nat) (h : 1 < nsets) (hs : seed < nsets) : selectDataset nsets 0 seed s0 = some seed := by
  simp [selectDataset, hs]; omega
theorem select_mode1 (nsets seed s0 : Nat) (h : 1 < nsets) (hs : s0 < nsets) : selectDataset nsets 1 seed s0 = some s0 := by
  simp [selectDataset, hs]; omega
/-- a selected index is in bounds -/
theorem select_in_bounds (nsets mode seed s0 d : Nat) (h : selectDataset nsets mode seed s0 = some d) : d < nsets := by
  unfold selectDataset at h
  split at h
  · cases h
  · split at h
    · cases h; omega
    · split at h
      · split at h
        · cases h; assumption
        · cases h
      · split at h
        · split at h
          · cases h; assumption
          · cases h
        · cases h
example : selectDataset 3 0 17 0 = none ∧ selectDataset 3 2 1 1 = none ∧ selectDataset 3 1 17 2 = some 2 ∧ selectDataset 1 1 17 9 = some 0 := by decide

/-- memory reuse: under a liveness-separation certificate the memory-level result at every live signal is the
    signal-level result — which does not depend on the map (see `C08.mem_refines`) -/
theorem reuse_irrelevant {α C : Type} (L : MemRef.Layout α C) (c : MemRef.Cert L)
    (levels : List (List (MemRef.Op α))) (k : Nat) (m : MemRef.Mem C) (env : Nat → α)
    (h : ∀ j (hj : j < levels.length), let ops := levels[j]
        (∀ o ∈ ops, c.dfn o.out = k + j ∧ ∀ i ∈ o.ins, c.dfn i < k + j ∧ k + j ≤ c.last i) ∧
        (ops.map (·.out)).Nodup ∧ (∀ x, c.dfn x = k + j → x ∈ ops.map (·.out)))
    (h0 : MemRef.I L c k m env) :
    MemRef.I L c (k + levels.length) (levels.foldl (MemRef.runMem L) m) (levels.foldl MemRef.runSig env) :=
  C08.mem_refines L c levels k m env h h0

/-- memory reuse, concrete: two memory maps for the same circuit, options and op rows (e.g. `c_reuse` off and on, or two
    different allocators) that both pass the map certificate leave the same value in every output slot — each equals
    the signal-level result, which does not mention the map. Tables of the real simulator pass the certificate on every
    generated case (C08). One-row-per-signal storage (LogicSim), any value domain and op semantics. -/
theorem reuse_irrelevant_logic {α : Type} [Inhabited α] (p1 p2 : MapIn)
    (hnet : p1.net = p2.net) (hstrip : p1.strip = p2.strip) (hops : p1.ops = p2.ops)
    (h1 : p1.check = none) (h2 : p2.check = none) (hp1 : 0 < p1.capsMin) (hp2 : 0 < p2.capsMin)
    (f : Nat → List α → α) (m1 m2 : Int → α) (env0 : Nat → α)
    (h01 : ∀ x ∈ p1.tracked, (∀ o ∈ p1.ops, o.out ≠ x) → m1 (p1.loc x) = env0 x)
    (h02 : ∀ x ∈ p2.tracked, (∀ o ∈ p2.ops, o.out ≠ x) → m2 (p2.loc x) = env0 x) :
    ∀ j s, (j, s) ∈ p1.ppoSrcs →
      MapSound.memRun p1 (MapSound.rowRW α) (fun o => f o.lut) p1.ops m1 (p1.loc j)
        = MapSound.memRun p2 (MapSound.rowRW α) (fun o => f o.lut) p2.ops m2 (p2.loc j) := by
  obtain ⟨net1, strip1, ops1, st1, l1, c1, n1, cm1⟩ := p1
  obtain ⟨net2, strip2, ops2, st2, l2, c2, n2, cm2⟩ := p2
  simp only at hnet hstrip hops
  subst hnet hstrip hops
  intro j s hjs
  rw [C08.map_certificate_sound_logic _ h1 hp1 f m1 env0 h01 j s hjs,
      C08.map_certificate_sound_logic _ h2 hp2 f m2 env0 h02 j s hjs]
  rfl

/-- a zero-delay buffer is NOT the identity on a non-monotone waveform: `[51, 44, 57]` becomes `[57]`
    (the two out-of-order edges cancel). This is why stripping forks changes timing results when a stem
    waveform is non-monotone (possible only with polarity-dependent delays, see `C04.mono_timestamps`). -/
theorem zero_delay_buffer_not_identity :
    (waveEval 0xAAAA (fun _ _ _ => 0) (fun i => if i = 0 then [T.fin 51, T.fin 44, T.fin 57] else []) (fun _ => T.tmax) 16).1
      ≠ [T.fin 51, T.fin 44, T.fin 57] := by decide +kernel


/-! ## fork stripping of the timing simulator -/

/-- **zero-delay buffer = identity on strictly increasing waveforms.**
    Any LUT that is a buffer on operand 0 (`IsBuf`, e.g. `sim.BUF1 = 0xAAAA`), non-negative delays, delay 0 for all
    four polarity combinations of operand 0 (hence pulse-filter threshold 0), capacity ≥ 4 (`c_caps_min`), all
    operand waveforms well formed (finite entries, optional leading `tmin`), operand 0 strictly increasing and
    `length + 1 ≤ capacity` (entries plus terminator fit). Operands 1–3 may be anything well formed.
    Then the produced waveform has exactly the entries of operand 0; its terminator is the largest operand
    terminator (so `tovl` on the operand is passed on); `nrise`/`nfall` are those of the copied waveform. -/
theorem buf0_identity (lut : Nat) (hbuf : IsBuf lut) (D : Delays) (hD : ∀ i p q, 0 ≤ D i p q)
    (hz : ∀ p q, D 0 p q = 0) (ws : Fin 4 → List T) (terms : Fin 4 → T) (zcap : Nat) (hcap : 4 ≤ zcap)
    (hwf : ∀ i, WfRem (ws i)) (hterm : ∀ i, (terms i).isTerm = true)
    (hinc : Incr (ws 0)) (hlen : (ws 0).length + 1 ≤ zcap) :
    waveEval lut D ws terms zcap =
      (ws 0, T.max (T.max (terms 0) (terms 1)) (T.max (terms 2) (terms 3)),
       ((ws 0).length + 1) / 2 - startsHigh (ws 0), (ws 0).length / 2) :=
  waveEval_buf0 ⟨lut, D, terms, zcap, hcap, hD, hterm⟩ hbuf hz ws hwf hinc (show (ws 0).length < zcap by omega)

theorem buf1_isBuf : IsBuf 0xAAAA := isBuf_BUF1

/-- the capacity hypothesis of `buf0_identity` is sharp: under the same hypotheses but `capacity ≤ length` (entries plus
    terminator do not fit) the buffer overflows — the terminator becomes `tovl` and entries are lost -/
theorem buf0_overflow (lut : Nat) (hbuf : IsBuf lut) (D : Delays) (hD : ∀ i p q, 0 ≤ D i p q)
    (hz : ∀ p q, D 0 p q = 0) (ws : Fin 4 → List T) (terms : Fin 4 → T) (zcap : Nat) (hcap : 4 ≤ zcap)
    (hwf : ∀ i, WfRem (ws i)) (hterm : ∀ i, (terms i).isTerm = true)
    (hinc : Incr (ws 0)) (hlen : zcap ≤ (ws 0).length) :
    (waveEval lut D ws terms zcap).2.1 = T.tovl ∧ (waveEval lut D ws terms zcap).1.length < (ws 0).length :=
  waveEval_buf0_overflow ⟨lut, D, terms, zcap, hcap, hD, hterm⟩ hbuf hz ws hwf hinc hlen

/-- … for instance four transitions into capacity 4: `[1, 2, 3, 4]` becomes `[1, 2]` with the overflow marker -/
example : waveEval 0xAAAA (fun _ _ _ => 0) (fun i => if i = 0 then [T.fin 1, T.fin 2, T.fin 3, T.fin 4] else []) (fun _ => T.tmax) 4
    = ([T.fin 1, T.fin 2], T.tovl, 1, 1) := by decide +kernel

/-- the row form: a `BUF1` row whose operand line has zero delay and whose other operands carry no overflow marker
    (the `zero` slot) returns operand 0 unchanged -/
theorem fork_row_copies (cfg : WCfg) (op : Op) (xs : List Wv) (hd : ∀ l p q, 0 ≤ cfg.delay l p q)
    (hc : 4 ≤ cfg.cap op.out) (hbuf : IsBuf op.code) (hz : ∀ p q, opDelays cfg op 0 p q = 0)
    (hx : ForkIn cfg op xs) : waveSem cfg op xs = slot xs 0 :=
  waveSem_buf0 cfg op xs hd hc hbuf hz hx

/-- non-vacuity of `buf0_identity`: initially-high operand with two transitions, other operands toggling, capacity 4 -/
example : waveEval 0xAAAA (fun i _ _ => if i = 0 then 0 else 3)
    (fun i => if i = 0 then [T.tmin, T.fin 3, T.fin 7] else if i = 1 then [T.fin 2, T.fin 5] else [])
    (fun i => if i = 2 then T.tovl else T.tmax) 4 = ([T.tmin, T.fin 3, T.fin 7], T.tovl, 1, 1) := by
  have h := buf0_identity 0xAAAA buf1_isBuf (fun i _ _ => if i = 0 then 0 else 3) (by intro i p q; split <;> omega)
    (by intro p q; rfl)
    (fun i => if i = 0 then [T.tmin, T.fin 3, T.fin 7] else if i = 1 then [T.fin 2, T.fin 5] else [])
    (fun i => if i = 2 then T.tovl else T.tmax) 4 (by omega)
    (by intro i; simp only [WfRem]; split <;> (try split) <;> simp [T.isFin])
    (by intro i; split <;> rfl)
    (by simp [Incr, T.lt, T.rank])
    (by simp)
  exact h

/-- the same instance by evaluation of the model -/
example : waveEval 0xAAAA (fun i _ _ => if i = 0 then 0 else 3)
    (fun i => if i = 0 then [T.tmin, T.fin 3, T.fin 7] else if i = 1 then [T.fin 2, T.fin 5] else [])
    (fun i => if i = 2 then T.tovl else T.tmax) 4 = ([T.tmin, T.fin 3, T.fin 7], T.tovl, 1, 1) := by decide +kernel

/-- **fork stripping, every program.** `ops` is a program with fork rows for the branch ↦ stem map `st`
    (`stripOkB`: every row has four operands; a row writing a branch `b ↦ s` is `BUF1(b; x, zero, zero, zero)` with `x`
    the stem `s` or an already written branch of `s`; `s`, `x` and `zero` are not written at or after it; every other
    row reads only branches that are already written). Delays ≥ 0, capacities ≥ 4, delay 0 on every line read by
    a fork row. If in the UN-STRIPPED run every fork row's operands are well formed, its stem waveform is strictly
    increasing and fits the branch capacity and the `zero` slot carries terminator `tmax` (`ForkIn`), then the stripped
    program `stripOps st ops` — fork rows dropped, readers redirected to the stem as value source, keeping the branch
    as delay line — yields the same waveform as `ops` on every signal that is not a branch; and what the un-stripped
    run leaves on a branch (where an output port or flip-flop captures it) is what the stripped run leaves on the stem
    (whose memory the branch shares after stripping). -/
theorem strip_equiv (cfg : WCfg) (st : List (Nat × Nat)) (zidx : Nat) (ops : List Op) (env : Nat → Wv)
    (hg : cfg.Good ops) (hs : stripOkB st zidx [] ops = true)
    (hz : ∀ op ∈ ops, (st.lookup op.out).isSome = true → ∀ p q, cfg.delay (op.ins.getD 0 0) p q = 0)
    (hrun : ∀ op ∈ ops, (st.lookup op.out).isSome = true → ForkIn cfg op (op.ins.map (simWave cfg ops env))) :
    (∀ l, st.lookup l = none → simWave cfg (stripOps st ops) env l = simWave cfg ops env l) ∧
    (∀ b s, st.lookup b = some s → (∃ p ∈ ops, p.out = b) →
      simWave cfg (stripOps st ops) env s = simWave cfg ops env b) := by
  obtain ⟨h1, h2⟩ := strip_final cfg st zidx ops env hg hs hz hrun
  refine ⟨h1, fun b s hb hw => ?_⟩
  obtain ⟨p, hp, hpo⟩ := hw
  rw [h1 s (stripOkB_stem_none hs hp (hpo ▸ hb)), h2 b s hb ⟨p, hp, hpo⟩]

/-- **fork stripping under checkable hypotheses**: polarity-independent delays (⇒ every waveform of the run is
    strictly increasing), strictly increasing well-formed input waveforms, capacity of the line a fork reads ≤ capacity
    of each branch, input waveforms on fork-read lines fit the branch, and the `zero` slot holds terminator `tmax`. -/
theorem strip_equiv_polind (cfg : WCfg) (hpol : C04.PolIndep cfg) (st : List (Nat × Nat)) (zidx : Nat) (ops : List Op)
    (env : Nat → Wv) (hg : cfg.Good ops) (hs : stripOkB st zidx [] ops = true)
    (hz : ∀ op ∈ ops, (st.lookup op.out).isSome = true → ∀ p q, cfg.delay (op.ins.getD 0 0) p q = 0)
    (hcap : ∀ op ∈ ops, (st.lookup op.out).isSome = true → cfg.cap (op.ins.getD 0 0) ≤ cfg.cap op.out)
    (henv : ∀ l, C04.MonoOk (env l))
    (hlen : ∀ op ∈ ops, (st.lookup op.out).isSome = true → (env (op.ins.getD 0 0)).ents.length < cfg.cap op.out)
    (hzero : (env zidx).term = T.tmax) :
    (∀ l, st.lookup l = none → simWave cfg (stripOps st ops) env l = simWave cfg ops env l) ∧
    (∀ b s, st.lookup b = some s → (∃ p ∈ ops, p.out = b) →
      simWave cfg (stripOps st ops) env s = simWave cfg ops env b) := by
  apply strip_equiv cfg st zidx ops env hg hs hz ?_
  intro op hop hb
  -- every waveform of the un-stripped run is well formed and strictly increasing
  have hmono : ∀ x, C04.MonoOk (simWave cfg ops env x) :=
    execG_inv_on C04.MonoOk (waveSem cfg) ops
      (fun o ho xs hx => C04.gate_mono cfg hpol o hg.delay_nonneg (hg.cap_ge o ho) xs hx) env henv
  have hlen4 : op.ins.length = 4 := by
    obtain ⟨pre, post, hsplit⟩ := List.append_of_mem hop
    obtain ⟨w'', hs''⟩ := stripOkB_suffix pre (hsplit ▸ hs)
    exact (stripOkB_cons hs'').1
  have hdrop : op.ins.drop 1 = [zidx, zidx, zidx] := by
    obtain ⟨pre, post, hsplit⟩ := List.append_of_mem hop
    obtain ⟨w'', hs''⟩ := stripOkB_suffix pre (hsplit ▸ hs)
    obtain ⟨s, hlo⟩ := Option.isSome_iff_exists.mp hb
    exact (forkRowB_spec ((stripOkB_cons hs'').2.2.2.1 s hlo)).2.1
  have hins := forkRow_ins hlen4 hdrop
  have hslot : ∀ i : Fin 4, slot (op.ins.map (simWave cfg ops env)) i =
      simWave cfg ops env (if i = 0 then op.ins.getD 0 0 else zidx) := by
    intro i
    rw [hins]
    match i with
    | 0 => rfl
    | 1 => rfl
    | 2 => rfl
    | 3 => rfl
  refine ⟨fun i => ?_, ?_, ?_, ?_⟩
  · rw [hslot i]; exact (hmono _).1
  · rw [hslot 0]; exact (hmono _).2
  · rw [hslot 0]
    simp only [if_true]
    rcases execG_cases (waveSem cfg) ops env (op.ins.getD 0 0) with h | ⟨o, ho, hout, xs, hx⟩
    · show (execG (waveSem cfg) ops env (op.ins.getD 0 0)).ents.length < _
      rw [h]; exact hlen op hop hb
    · show (execG (waveSem cfg) ops env (op.ins.getD 0 0)).ents.length < _
      rw [hx]
      have h1 := waveSem_len cfg o xs (by have := hg.cap_ge o ho; omega)
      have h2 := hcap op hop hb
      rw [hout] at h1
      omega
  · intro i hi
    rw [hslot i, if_neg hi]
    show (execG (waveSem cfg) ops env zidx).term = _
    rw [execG_frame (waveSem cfg) ops env zidx (stripOkB_out_ne hs)]
    exact hzero


/-! ### non-vacuity: `10 = AND(0,1)` is a stem with branches 11, 12 and — through a chained fork reading 12 — 13;
`14 = XOR(11, 2)`, `15 = OR(13, 14)`; slot 9 is the `zero` slot; the lines read by forks (10, 12) have zero delay -/
def exOps : List Op := [⟨0x8888, 10, [0, 1, 9, 9]⟩, ⟨0xAAAA, 11, [10, 9, 9, 9]⟩, ⟨0xAAAA, 12, [10, 9, 9, 9]⟩,
  ⟨0xAAAA, 13, [12, 9, 9, 9]⟩, ⟨0x6666, 14, [11, 2, 9, 9]⟩, ⟨0xEEEE, 15, [13, 14, 9, 9]⟩]
def exSt : List (Nat × Nat) := [(11, 10), (12, 10), (13, 10)]
/-- polarity-independent delays -/
def exCfg : WCfg := ⟨fun l _ _ => if l = 10 ∨ l = 12 then 0 else if l = 13 then 7 else 2, fun _ => 8⟩
/-- polarity-dependent delays -/
def exCfg2 : WCfg := ⟨fun l p q => if l = 10 ∨ l = 12 then 0 else if p then (if q then 4 else 3) else 1, fun _ => 8⟩
def exEnv : Nat → Wv := fun l => if l = 0 then stimWave false 5 true else if l = 1 then stimWave true 40 false
  else if l = 2 then stimWave true 20 false else Wv.empty

theorem ex_ok : stripOkB exSt 9 [] exOps = true := by decide +kernel

example : stripOps exSt exOps =
    [⟨0x8888, 10, [0, 1, 9, 9, 0, 1, 9, 9]⟩, ⟨0x6666, 14, [10, 2, 9, 9, 11, 2, 9, 9]⟩, ⟨0xEEEE, 15, [10, 14, 9, 9, 13, 14, 9, 9]⟩] := rfl

theorem ex_good (c : WCfg) (hd : ∀ l p q, 0 ≤ c.delay l p q) (hc : c.cap = fun _ => 8) : c.Good exOps :=
  ⟨hd, fun op _ => by rw [hc]; show 4 ≤ 8; decide⟩

theorem ex_cfg_nonneg : ∀ l p q, 0 ≤ exCfg.delay l p q := by
  intro l p q
  show (0 : Int) ≤ if l = 10 ∨ l = 12 then 0 else if l = 13 then 7 else 2
  repeat' split
  all_goals omega

theorem ex_cfg2_nonneg : ∀ l p q, 0 ≤ exCfg2.delay l p q := by
  intro l p q
  show (0 : Int) ≤ if l = 10 ∨ l = 12 then 0 else if p then (if q then 4 else 3) else 1
  repeat' split
  all_goals omega

theorem ex_env_mono (l : Nat) : C04.MonoOk (exEnv l) := by
  unfold exEnv
  repeat' split
  all_goals simp [C04.MonoOk, Wv.ok, WfRem, Incr, stimWave, Wv.empty, T.isFin, T.isTerm, T.lt, T.rank]

/-- `strip_equiv_polind` applies: all hypotheses hold for the example -/
example (l : Nat) (hl : exSt.lookup l = none) : simWave exCfg (stripOps exSt exOps) exEnv l = simWave exCfg exOps exEnv l :=
  (strip_equiv_polind exCfg (fun _ _ _ => rfl) exSt 9 exOps exEnv
    (ex_good exCfg ex_cfg_nonneg rfl)
    ex_ok (by decide +kernel) (by decide +kernel) ex_env_mono (by decide +kernel) rfl).1 l hl

/-- … and the common result is not trivial -/
example : simWave exCfg exOps exEnv 15 = ⟨[T.tmin, T.fin 49], T.tmax⟩ ∧
    simWave exCfg (stripOps exSt exOps) exEnv 15 = ⟨[T.tmin, T.fin 49], T.tmax⟩ ∧
    simWave exCfg exOps exEnv 14 = ⟨[T.tmin, T.fin 9, T.fin 22, T.fin 44], T.tmax⟩ := by decide +kernel

/-- `strip_equiv` applies with polarity-DEPENDENT delays: the run-time hypothesis `ForkIn` (stem waveforms of the
    un-stripped run strictly increasing and short enough) is evaluated on the run -/
example (l : Nat) (hl : exSt.lookup l = none) : simWave exCfg2 (stripOps exSt exOps) exEnv l = simWave exCfg2 exOps exEnv l :=
  (strip_equiv exCfg2 exSt 9 exOps exEnv
    (ex_good exCfg2 ex_cfg2_nonneg rfl)
    ex_ok (by decide +kernel) (by simp only [ForkIn, Wv.ok, WfRem, Incr]; decide +kernel)).1 l hl

example : simWave exCfg2 exOps exEnv 15 = ⟨[T.tmin, T.fin 52], T.tmax⟩ ∧
    simWave exCfg2 (stripOps exSt exOps) exEnv 15 = ⟨[T.tmin, T.fin 52], T.tmax⟩ := by decide +kernel


/-! ## fork stripping for ALL circuits: the scheduler model and the program transformation

`stemList net` is the branch ↦ stem association list read off the `stems` array of `SimOps` (`stemsOf net true`);
`forksOKB net order` says that every node of the order that `SimOps` schedules as a fork (lower-cased kind `__fork__`) is a
fork for `Circuit.forks` too (kind exactly `__fork__`), has nothing connected to input pins 1–3, and either reads a line
that is listed on the output pin of that line's driver or — undriven — is an interface node. -/

/-- what `stemList` is: its lookup is the `stems` array, its value-source function is `viaStem` (the resolution used by
    levelisation, the memory map and the map certificate `MapIn.src`) -/
theorem stemList_spec (net : Net) :
    (∀ b, (stemList net).lookup b = (stemsOf net true).getD b none) ∧
    (∀ x, Wave.src (stemList net) x = viaStem (stemsOf net true) x) :=
  ⟨stemList_lookup net, src_stemList net⟩

/-- what the `stems` array is, for every well-formed netlist: index `x` carries a stem iff `x` is an output line of a
    `__fork__` node with connected input pin 0 (then that node is the line's driver), and the stem is `stemWalk` from the
    line the fork reads; along a topological order the walk ends at the first line whose driver is not such a fork
    (chained forks), that driver stands before the fork, and the stem is not itself a branch -/
theorem stems_characterised (net : Net) (order : List Nat) (hwf : net.wfB = true) (ho : orderOKB net order = true)
    (hf : forksOKB net order = true) :
    (∀ x s, (stemsOf net true).getD x none = some s →
      ∃ l0, drivenFork net (net.line x).driver = true ∧ (net.node (net.line x).driver).inPin 0 = some l0 ∧
        some x ∈ (net.node (net.line x).driver).outs ∧ s = stemWalk net net.nodes.size l0) ∧
    (∀ n l0 x, n < net.nodes.size → drivenFork net n = true → (net.node n).inPin 0 = some l0 →
      some x ∈ (net.node n).outs → (stemsOf net true).getD x none = some (stemWalk net net.nodes.size l0)) ∧
    (∀ n l0, n ∈ order → drivenFork net n = true → (net.node n).inPin 0 = some l0 →
      drivenFork net (net.line (stemWalk net net.nodes.size l0)).driver = false ∧
      order.idxOf (net.line (stemWalk net net.nodes.size l0)).driver < order.idxOf n ∧
      (stemsOf net true).getD (stemWalk net net.nodes.size l0) none = none ∧
      viaStem (stemsOf net true) l0 = stemWalk net net.nodes.size l0) := by
  refine ⟨?_, ?_, ?_⟩
  · intro x s h
    obtain ⟨l0, _, hfk, hp, hout, hs, _⟩ := stems_some hwf h
    exact ⟨l0, by simp [drivenFork, hfk, hp], hp, hout, hs⟩
  · intro n l0 x hn hdf hp hx
    exact stems_of_fork hwf hn (drivenFork_spec hdf).1 hp hx
  · intro n l0 hn hdf hp
    obtain ⟨h1, _, h3, h4⟩ := stem_facts hwf ho hf hn hdf hp
    obtain ⟨_, _, hdrv⟩ := orderOK_spec ho
    have hlt0 := hdrv n hn (drivenFork_not_src hdf) 0 l0 (inPin_some hp)
    have hidx : order.idxOf n ≤ order.length := List.idxOf_le_length
    have hlen := order_length_le ho
    exact ⟨(stemWalk_spec hwf ho net.nodes.size l0 (mem_of_idxOf_lt hlt0) (by omega)).1, h1, h3, h4⟩

/-- **(1) scheduler ↔ program transformation, every well-formed netlist, every topological order.**
    The rows `SimOps` schedules with `strip_forks=True` (`genOps … true`), written as eight-index rows — value sources =
    operands resolved through the stems (`viaStem (stemsOf net true)`), delay lines = the operands themselves (the
    branches) — ARE `stripOps` of the rows scheduled with `strip_forks=False`; and the un-stripped rows carry the
    certificate `stripOkB` for the same branch ↦ stem list (chained forks included), i.e. the structural hypothesis of
    `strip_equiv` / `strip_equiv_polind` holds for all circuits. -/
theorem genOps_strip_link (tbl : List PrefixRow) (net : Net) (order : List Nat) (hwf : net.wfB = true)
    (ho : orderOKB net order = true) (hf : forksOKB net order = true) :
    (genOps tbl net order true).map (fun r => redirect (stemList net) r.toOp) =
      stripOps (stemList net) ((genOps tbl net order false).map OpRow.toOp) ∧
    stripOkB (stemList net) net.idx.zero [] ((genOps tbl net order false).map OpRow.toOp) = true :=
  ⟨genOps_strip_eq_stripOps tbl hwf ho hf, genOps_stripOk tbl hwf ho hf⟩

/-- the same at the level of the raw rows: the stripped schedule is the un-stripped schedule without the rows that write a
    branch (nothing else changes: same rows, same order, same operand indices) -/
theorem genOps_strip_rows (tbl : List PrefixRow) (net : Net) (order : List Nat) (hwf : net.wfB = true)
    (ho : orderOKB net order = true) (hf : forksOKB net order = true) :
    genOps tbl net order true =
      (genOps tbl net order false).filter (fun r => ((stemsOf net true).getD r.out none).isNone) := by
  rw [genOps_strip_filter tbl net order hwf ho hf]
  congr 1
  funext r
  unfold isBranchRow
  cases (stemsOf net true).getD r.out none <;> rfl

/-- … and in terms of the signal-level rows of the memory-map theorems (`MapSound.sigOp`: operands resolved through
    `MapIn.src`): for a map record of the stripped simulator, the signal-level program `C08.map_certificate_sound_logic`
    speaks about is the four-index stripped program of the un-stripped schedule -/
theorem genOps_strip_link_sig (tbl : List PrefixRow) (p : MapIn) (order : List Nat) (hstrip : p.strip = true)
    (hwf : p.net.wfB = true) (ho : orderOKB p.net order = true) (hf : forksOKB p.net order = true) :
    (genOps tbl p.net order true).map (MapSound.sigOp p) =
      stripOps4 (stemList p.net) ((genOps tbl p.net order false).map OpRow.toOp) := by
  rw [← genOps_strip_eq_stripOps4 tbl hwf ho hf]
  apply List.map_congr_left
  intro r _
  unfold MapSound.sigOp MapIn.src MapIn.stems
  rw [hstrip]

/-- **(2) LogicSim: results do not depend on `strip_forks`, every well-formed netlist, every topological order.**
    Any value domain and any code-indexed op semantics `f` in which `BUF1` returns its first operand. Signal-level
    execution of the stripped schedule (operands resolved through the stems — the signals whose memory they share) and of
    the un-stripped schedule agree on every signal that is not a stripped branch; and what the un-stripped run leaves
    on a written branch (where an output port or flip-flop captures it) is what the stripped run leaves on its stem. -/
theorem strip_irrelevant_logic {α : Type} (tbl : List PrefixRow) (net : Net) (order : List Nat) (hwf : net.wfB = true)
    (ho : orderOKB net order = true) (hf : forksOKB net order = true)
    (f : Nat → List α → α) (dflt : α) (hbuf : ∀ xs, f BUF1 xs = xs.getD 0 dflt) (env : Nat → α) :
    let st := stemsOf net true
    let un := (genOps tbl net order false).map OpRow.toOp
    let sp := (genOps tbl net order true).map (fun r => (⟨r.lut, r.out, r.ins.map (viaStem st)⟩ : Op))
    (∀ x, st.getD x none = none → exec f sp env x = exec f un env x) ∧
    (∀ b s, st.getD b none = some s → (∃ p ∈ un, p.out = b) → exec f un env b = exec f sp env s) := by
  intro st un sp
  have hsp : sp = stripOps4 (stemList net) un := genOps_strip_eq_stripOps4 tbl hwf ho hf
  obtain ⟨h1, h2⟩ := strip_logic f dflt hbuf (stemList net) net.idx.zero un env (genOps_stripOk tbl hwf ho hf)
  rw [hsp]
  refine ⟨fun x hx => h1 x ?_, fun b s hb hw => h2 b s ?_ hw⟩
  · rw [stemList_lookup]; exact hx
  · rw [stemList_lookup]; exact hb

/-- the three logics of `LogicSim` (generated dispatchers): `BUF1` returns its first operand -/
theorem buf1_first_operand :
    (∀ xs, semL2n BUF1 xs = xs.getD 0 false) ∧ (∀ xs, semL4 BUF1 xs = xs.getD 0 default) ∧
    (∀ xs, semL8 BUF1 xs = xs.getD 0 default) := ⟨semL2n_buf1, semL4_buf1, semL8_buf1⟩

/-- (2) for 8-valued `LogicSim` (the 2- and 4-valued instances are obtained the same way from `buf1_first_operand`) -/
theorem strip_irrelevant_logic8 (net : Net) (order : List Nat) (hwf : net.wfB = true)
    (ho : orderOKB net order = true) (hf : forksOKB net order = true) (env : Nat → V3) (x : Nat)
    (hx : (stemsOf net true).getD x none = none) :
    exec semL8 ((genOps Gen.kindPrefixes net order true).map
        (fun r => (⟨r.lut, r.out, r.ins.map (viaStem (stemsOf net true))⟩ : Op))) env x =
      exec semL8 ((genOps Gen.kindPrefixes net order false).map OpRow.toOp) env x :=
  (strip_irrelevant_logic Gen.kindPrefixes net order hwf ho hf semL8 default semL8_buf1 env).1 x hx

theorem strip_irrelevant_logic2 (net : Net) (order : List Nat) (hwf : net.wfB = true)
    (ho : orderOKB net order = true) (hf : forksOKB net order = true) (env : Nat → Bool) (x : Nat)
    (hx : (stemsOf net true).getD x none = none) :
    exec semL2n ((genOps Gen.kindPrefixes net order true).map
        (fun r => (⟨r.lut, r.out, r.ins.map (viaStem (stemsOf net true))⟩ : Op))) env x =
      exec semL2n ((genOps Gen.kindPrefixes net order false).map OpRow.toOp) env x :=
  (strip_irrelevant_logic Gen.kindPrefixes net order hwf ho hf semL2n false semL2n_buf1 env).1 x hx

theorem strip_irrelevant_logic4 (net : Net) (order : List Nat) (hwf : net.wfB = true)
    (ho : orderOKB net order = true) (hf : forksOKB net order = true) (env : Nat → V2) (x : Nat)
    (hx : (stemsOf net true).getD x none = none) :
    exec semL4 ((genOps Gen.kindPrefixes net order true).map
        (fun r => (⟨r.lut, r.out, r.ins.map (viaStem (stemsOf net true))⟩ : Op))) env x =
      exec semL4 ((genOps Gen.kindPrefixes net order false).map OpRow.toOp) env x :=
  (strip_irrelevant_logic Gen.kindPrefixes net order hwf ho hf semL4 default semL4_buf1 env).1 x hx

/-- **(2') LogicSim at memory level.** Two map records for the same well-formed netlist and topological order — `p1` of the
    un-stripped simulator (`strip = false`, rows `genOps … false`), `p2` of the stripped one (`strip = true`, rows
    `genOps … true`, branches aliased to their stems) — that both pass the map certificate (`MapIn.check`, evaluated on the
    real tables of every instance, C08): after the rows have run on memory, the output slot of every interface node holds
    the same value in both, provided the captured line is not a branch or is written by the un-stripped schedule (it is
    when its fork belongs to the order). Any value domain, any op semantics in which `BUF1` returns its first operand. -/
theorem strip_irrelevant_logic_mem {α : Type} [Inhabited α] (tbl : List PrefixRow) (p1 p2 : MapIn) (order : List Nat)
    (hnet : p2.net = p1.net) (hs1 : p1.strip = false) (hs2 : p2.strip = true)
    (hops1 : p1.ops = genOps tbl p1.net order false) (hops2 : p2.ops = genOps tbl p1.net order true)
    (hwf : p1.net.wfB = true) (ho : orderOKB p1.net order = true) (hf : forksOKB p1.net order = true)
    (h1 : p1.check = none) (h2 : p2.check = none) (hp1 : 0 < p1.capsMin) (hp2 : 0 < p2.capsMin)
    (f : Nat → List α → α) (dflt : α) (hbuf : ∀ xs, f BUF1 xs = xs.getD 0 dflt) (m1 m2 : Int → α) (env0 : Nat → α)
    (h01 : ∀ x ∈ p1.tracked, (∀ o ∈ p1.ops, o.out ≠ x) → m1 (p1.loc x) = env0 x)
    (h02 : ∀ x ∈ p2.tracked, (∀ o ∈ p2.ops, o.out ≠ x) → m2 (p2.loc x) = env0 x)
    (n i l : Nat) (hn : (n, i) ∈ p1.net.sNodes.zipIdx) (hp : (p1.net.node n).inPin 0 = some l)
    (hwr : (stemsOf p1.net true).getD l none = none ∨ ∃ o ∈ p1.ops, o.out = l) :
    MapSound.memRun p1 (MapSound.rowRW α) (fun o => f o.lut) p1.ops m1 (p1.loc (p1.net.idx.ppo + i))
      = MapSound.memRun p2 (MapSound.rowRW α) (fun o => f o.lut) p2.ops m2 (p2.loc (p1.net.idx.ppo + i)) := by
  have e1 := C08.map_certificate_sound_logic p1 h1 hp1 f m1 env0 h01 _ _ (mem_ppoSrcs p1 hn hp)
  have e2 := C08.map_certificate_sound_logic p2 h2 hp2 f m2 env0 h02 _ _
    (mem_ppoSrcs p2 (by rw [hnet]; exact hn) (by rw [hnet]; exact hp))
  have hix1 : p1.ix = p1.net.idx := rfl
  have hix2 : p2.ix = p1.net.idx := by show p2.net.idx = _; rw [hnet]
  rw [hix1] at e1
  rw [hix2] at e2
  rw [e1, e2]
  have hsrc1 : p1.src l = l := by
    show viaStem (stemsOf p1.net p1.strip) l = l
    rw [hs1]; exact viaStem_false _ _
  have hsrc2 : p2.src l = viaStem (stemsOf p1.net true) l := by
    show viaStem (stemsOf p2.net p2.strip) l = _
    rw [hs2, hnet]
  have hun : p1.ops.map (MapSound.sigOp p1) = (genOps tbl p1.net order false).map OpRow.toOp := by
    rw [hops1]
    exact List.map_congr_left (fun r _ => sigOp_unstripped p1 hs1 r)
  have hsp : p2.ops.map (MapSound.sigOp p2) = (genOps tbl p1.net order true).map
      (fun r => (⟨r.lut, r.out, r.ins.map (viaStem (stemsOf p1.net true))⟩ : Op)) := by
    rw [hops2]
    apply List.map_congr_left
    intro r _
    unfold MapSound.sigOp MapIn.src MapIn.stems
    rw [hs2, hnet]
  rw [hsrc1, hsrc2, hun, hsp]
  obtain ⟨g1, g2⟩ := strip_irrelevant_logic tbl p1.net order hwf ho hf f dflt hbuf env0
  cases hst : (stemsOf p1.net true).getD l none with
  | none =>
    have : viaStem (stemsOf p1.net true) l = l := by unfold viaStem; rw [hst]; rfl
    rw [this]
    exact (g1 l hst).symm
  | some s =>
    have : viaStem (stemsOf p1.net true) l = s := by unfold viaStem; rw [hst]; rfl
    rw [this]
    rcases hwr with h | ⟨o, ho', hoo⟩
    · rw [hst] at h; cases h
    · exact g2 l s hst ⟨o.toOp, List.mem_map_of_mem (hops1 ▸ ho'), hoo⟩

/-- **(3) WaveSim: fork stripping for ALL circuits.** Every well-formed netlist, every topological order; the structural
    hypotheses of `strip_equiv_polind` are proved (`genOps_strip_link`), the numeric ones are stated on the netlist:
    delays ≥ 0 and capacities ≥ 4 (`cfg.Good`), polarity-independent delays, zero delay on every line read by a driven fork,
    capacity of that line ≤ capacity of each branch, strictly increasing well-formed input waveforms that fit the
    branches where a fork reads an input slot directly, terminator `tmax` in the `zero` slot. Then the waveform model of the
    stripped simulator (eight-index rows: stems as value sources, branches as delay lines) and of the un-stripped
    simulator agree on every signal that is not a stripped branch, and a written branch of the un-stripped run carries the
    waveform the stripped run leaves on its stem. -/
theorem strip_equiv_all_circuits (tbl : List PrefixRow) (net : Net) (order : List Nat) (hwf : net.wfB = true)
    (ho : orderOKB net order = true) (hf : forksOKB net order = true)
    (cfg : WCfg) (hpol : C04.PolIndep cfg) (env : Nat → Wv)
    (hg : cfg.Good ((genOps tbl net order false).map OpRow.toOp))
    (hz : ∀ n ∈ order, drivenFork net n = true → ∀ l0, (net.node n).inPin 0 = some l0 → ∀ p q, cfg.delay l0 p q = 0)
    (hcap : ∀ n ∈ order, drivenFork net n = true → ∀ l0, (net.node n).inPin 0 = some l0 →
      ∀ b, some b ∈ (net.node n).outs → cfg.cap l0 ≤ cfg.cap b)
    (henv : ∀ l, C04.MonoOk (env l))
    (hlen : ∀ n ∈ order, drivenFork net n = true → ∀ l0, (net.node n).inPin 0 = some l0 →
      ∀ b, some b ∈ (net.node n).outs → (env l0).ents.length < cfg.cap b)
    (hzero : (env net.idx.zero).term = T.tmax) :
    let st := stemList net
    let un := (genOps tbl net order false).map OpRow.toOp
    let sp := (genOps tbl net order true).map (fun r => redirect st r.toOp)
    (∀ l, st.lookup l = none → simWave cfg sp env l = simWave cfg un env l) ∧
    (∀ b s, st.lookup b = some s → (∃ p ∈ un, p.out = b) → simWave cfg sp env s = simWave cfg un env b) := by
  intro st un sp
  obtain ⟨hlink, hok⟩ := genOps_strip_link tbl net order hwf ho hf
  have hsp : sp = stripOps st un := hlink
  rw [hsp]
  apply strip_equiv_polind cfg hpol st net.idx.zero un env hg hok
  · intro op hop hb
    obtain ⟨n, hn, hdf, l0, hp, hi0, _⟩ := fork_row_of_branch tbl hwf ho hop hb
    rw [hi0]; exact hz n hn hdf l0 hp
  · intro op hop hb
    obtain ⟨n, hn, hdf, l0, hp, hi0, hout⟩ := fork_row_of_branch tbl hwf ho hop hb
    rw [hi0]; exact hcap n hn hdf l0 hp _ hout
  · exact henv
  · intro op hop hb
    obtain ⟨n, hn, hdf, l0, hp, hi0, hout⟩ := fork_row_of_branch tbl hwf ho hop hb
    rw [hi0]; exact hlen n hn hdf l0 hp _ hout
  · exact hzero

/-- (3) with the run-time hypothesis of `strip_equiv` instead of polarity independence: every fork row of the UN-STRIPPED
    run reads a well-formed, strictly increasing waveform that fits the branch (`ForkIn`) -/
theorem strip_equiv_all_circuits_run (tbl : List PrefixRow) (net : Net) (order : List Nat) (hwf : net.wfB = true)
    (ho : orderOKB net order = true) (hf : forksOKB net order = true) (cfg : WCfg) (env : Nat → Wv)
    (hg : cfg.Good ((genOps tbl net order false).map OpRow.toOp))
    (hz : ∀ n ∈ order, drivenFork net n = true → ∀ l0, (net.node n).inPin 0 = some l0 → ∀ p q, cfg.delay l0 p q = 0)
    (hrun : ∀ op ∈ (genOps tbl net order false).map OpRow.toOp, ((stemList net).lookup op.out).isSome = true →
      ForkIn cfg op (op.ins.map (simWave cfg ((genOps tbl net order false).map OpRow.toOp) env))) :
    let st := stemList net
    let un := (genOps tbl net order false).map OpRow.toOp
    let sp := (genOps tbl net order true).map (fun r => redirect st r.toOp)
    (∀ l, st.lookup l = none → simWave cfg sp env l = simWave cfg un env l) ∧
    (∀ b s, st.lookup b = some s → (∃ p ∈ un, p.out = b) → simWave cfg sp env s = simWave cfg un env b) := by
  intro st un sp
  obtain ⟨hlink, hok⟩ := genOps_strip_link tbl net order hwf ho hf
  have hsp : sp = stripOps st un := hlink
  rw [hsp]
  apply strip_equiv cfg st net.idx.zero un env hg hok ?_ hrun
  intro op hop hb
  obtain ⟨n, hn, hdf, l0, hp, hi0, _⟩ := fork_row_of_branch tbl hwf ho hop hb
  rw [hi0]; exact hz n hn hdf l0 hp

/-! ### non-vacuity: a netlist with a two-branch fork and a chained fork
`a` (node 0) drives line 0, read by fork 1 with branches 1 and 2; branch 2 is read by the chained fork 2 with branch 3;
`b` (node 3) drives line 4, fork 4 has branch 5; `6 = AND2(1, 5)`, `7 = OR2(3, 6)`, fork 7 with branch 8 feeds the output. -/
def forkNet : Net :=
  { nodes := #[⟨"input", [], [some 0]⟩, ⟨"__fork__", [some 0], [some 1, some 2]⟩, ⟨"__fork__", [some 2], [some 3]⟩,
               ⟨"input", [], [some 4]⟩, ⟨"__fork__", [some 4], [some 5]⟩, ⟨"AND2", [some 1, some 5], [some 6]⟩,
               ⟨"OR2", [some 3, some 6], [some 7]⟩, ⟨"__fork__", [some 7], [some 8]⟩, ⟨"output", [some 8], []⟩],
    lines := #[⟨0, 0, 1, 0⟩, ⟨1, 0, 5, 0⟩, ⟨1, 1, 2, 0⟩, ⟨2, 0, 6, 0⟩, ⟨3, 0, 4, 0⟩, ⟨4, 0, 5, 1⟩, ⟨5, 0, 6, 1⟩,
               ⟨6, 0, 7, 0⟩, ⟨7, 0, 8, 0⟩],
    io := [0, 3, 8] }
def forkOrder : List Nat := [0, 3, 1, 4, 2, 5, 6, 7, 8]

theorem forkNet_ok : forkNet.wfB = true ∧ orderOKB forkNet forkOrder = true ∧ forksOKB forkNet forkOrder = true := by
  decide +kernel

/-- the stems: branches 1, 2 and — through the chained fork — 3 share line 0; 5 ↦ 4; 8 ↦ 7 -/
example : stemList forkNet = [(1, 0), (2, 0), (3, 0), (5, 4), (8, 7)] := by decide +kernel

/-- the two schedules of the example (`zero` = 9, input slots 12 and 13) -/
example : genOps Gen.kindPrefixes forkNet forkOrder false =
    [⟨0xAAAA, 0, 12, 9, 9, 9⟩, ⟨0xAAAA, 4, 13, 9, 9, 9⟩, ⟨0xAAAA, 1, 0, 9, 9, 9⟩, ⟨0xAAAA, 2, 0, 9, 9, 9⟩,
     ⟨0xAAAA, 5, 4, 9, 9, 9⟩, ⟨0xAAAA, 3, 2, 9, 9, 9⟩, ⟨0x8888, 6, 1, 5, 9, 9⟩, ⟨0xEEEE, 7, 3, 6, 9, 9⟩,
     ⟨0xAAAA, 8, 7, 9, 9, 9⟩] ∧
    genOps Gen.kindPrefixes forkNet forkOrder true =
    [⟨0xAAAA, 0, 12, 9, 9, 9⟩, ⟨0xAAAA, 4, 13, 9, 9, 9⟩, ⟨0x8888, 6, 1, 5, 9, 9⟩, ⟨0xEEEE, 7, 3, 6, 9, 9⟩] := by
  decide +kernel

/-- `genOps_strip_link` applies to it -/
example : stripOkB (stemList forkNet) 9 [] ((genOps Gen.kindPrefixes forkNet forkOrder false).map OpRow.toOp) = true :=
  (genOps_strip_link Gen.kindPrefixes forkNet forkOrder forkNet_ok.1 forkNet_ok.2.1 forkNet_ok.2.2).2

/-- `strip_irrelevant_logic` applies to it (8-valued): the OR output, line 7, is the same with and without stripping -/
example (env : Nat → V3) :
    exec semL8 ((genOps Gen.kindPrefixes forkNet forkOrder true).map
        (fun r => (⟨r.lut, r.out, r.ins.map (viaStem (stemsOf forkNet true))⟩ : Op))) env 7 =
      exec semL8 ((genOps Gen.kindPrefixes forkNet forkOrder false).map OpRow.toOp) env 7 :=
  strip_irrelevant_logic8 forkNet forkOrder forkNet_ok.1 forkNet_ok.2.1 forkNet_ok.2.2 env 7 (by decide +kernel)

/-- … and the captured branch 8 of the un-stripped run is the stem 7 of the stripped run -/
example (env : Nat → Bool) :
    exec semL2n ((genOps Gen.kindPrefixes forkNet forkOrder false).map OpRow.toOp) env 8 =
      exec semL2n ((genOps Gen.kindPrefixes forkNet forkOrder true).map
        (fun r => (⟨r.lut, r.out, r.ins.map (viaStem (stemsOf forkNet true))⟩ : Op))) env 7 :=
  (strip_irrelevant_logic Gen.kindPrefixes forkNet forkOrder forkNet_ok.1 forkNet_ok.2.1 forkNet_ok.2.2
    semL2n false semL2n_buf1 env).2 8 7 (by decide +kernel)
    ⟨OpRow.toOp ⟨0xAAAA, 8, 7, 9, 9, 9⟩, List.mem_map_of_mem (by decide +kernel), rfl⟩

/-- map records of the example as the `SimOps` model builds them (levelisation + memory map, `c_reuse` on) -/
def forkMap (strip : Bool) : MapIn :=
  let ops := genOps Gen.kindPrefixes forkNet forkOrder strip
  let stems := stemsOf forkNet strip
  let lev := levelise forkNet.idx.len stems ops
  let m := memMap forkNet ops stems lev (fun _ => 1) 1 true
  { net := forkNet, strip := strip, ops := ops, starts := lev.starts.reverse, locs := m.locs, caps := m.caps,
    cLen := m.heap.maxSz, capsMin := 1 }

/-- both pass the map certificate; the stripped one aliases the branches 1, 2, 3 to line 0, and needs less memory -/
theorem forkMap_ok : (forkMap false).check = none ∧ (forkMap true).check = none := by decide +kernel
example : (forkMap false).cLen = 10 ∧ (forkMap true).cLen = 8 ∧
    [0, 1, 2, 3].map (forkMap true).loc = [5, 5, 5, 5] ∧ forkNet.idx.ppo = 15 := by decide +kernel

/-- `strip_irrelevant_logic_mem` applies: the output slot (interface position 2, node 8, captured branch 8) -/
example (m1 m2 : Int → V3) (env0 : Nat → V3)
    (h01 : ∀ x ∈ (forkMap false).tracked, (∀ o ∈ (forkMap false).ops, o.out ≠ x) → m1 ((forkMap false).loc x) = env0 x)
    (h02 : ∀ x ∈ (forkMap true).tracked, (∀ o ∈ (forkMap true).ops, o.out ≠ x) → m2 ((forkMap true).loc x) = env0 x) :
    MapSound.memRun (forkMap false) (MapSound.rowRW V3) (fun o => semL8 o.lut) (forkMap false).ops m1 ((forkMap false).loc (forkNet.idx.ppo + 2))
      = MapSound.memRun (forkMap true) (MapSound.rowRW V3) (fun o => semL8 o.lut) (forkMap true).ops m2 ((forkMap true).loc (forkNet.idx.ppo + 2)) :=
  strip_irrelevant_logic_mem Gen.kindPrefixes (forkMap false) (forkMap true) forkOrder rfl rfl rfl rfl rfl
    forkNet_ok.1 forkNet_ok.2.1 forkNet_ok.2.2 forkMap_ok.1 forkMap_ok.2 (by decide) (by decide)
    semL8 default semL8_buf1 m1 m2 env0 h01 h02 8 2 8 (by decide +kernel) (by decide +kernel)
    (Or.inr ⟨⟨0xAAAA, 8, 7, 9, 9, 9⟩, by decide +kernel, rfl⟩)

/-- polarity-independent delays, zero on the lines read by forks (0, 2, 4, 7) -/
def forkCfg : WCfg := ⟨fun l _ _ => if l = 0 ∨ l = 2 ∨ l = 4 ∨ l = 7 then 0 else if l = 3 then 7 else 2, fun _ => 8⟩
def forkEnv : Nat → Wv := fun l => if l = 12 then stimWave false 5 true else if l = 13 then stimWave true 40 false else Wv.empty

theorem forkEnv_mono (l : Nat) : C04.MonoOk (forkEnv l) := by
  unfold forkEnv
  repeat' split
  all_goals simp [C04.MonoOk, Wv.ok, WfRem, Incr, stimWave, Wv.empty, T.isFin, T.isTerm, T.lt, T.rank]

theorem forkEnv_len (l : Nat) : (forkEnv l).ents.length < 8 := by
  unfold forkEnv
  repeat' split
  all_goals simp [stimWave, Wv.empty]

theorem forkCfg_nonneg : ∀ l p q, 0 ≤ forkCfg.delay l p q := by
  intro l p q
  show (0 : Int) ≤ if l = 0 ∨ l = 2 ∨ l = 4 ∨ l = 7 then 0 else if l = 3 then 7 else 2
  repeat' split
  all_goals omega

/-- `strip_equiv_all_circuits` applies to it: all hypotheses hold -/
example (l : Nat) (hl : (stemList forkNet).lookup l = none) :
    simWave forkCfg ((genOps Gen.kindPrefixes forkNet forkOrder true).map (fun r => redirect (stemList forkNet) r.toOp)) forkEnv l =
      simWave forkCfg ((genOps Gen.kindPrefixes forkNet forkOrder false).map OpRow.toOp) forkEnv l :=
  (strip_equiv_all_circuits Gen.kindPrefixes forkNet forkOrder forkNet_ok.1 forkNet_ok.2.1 forkNet_ok.2.2
    forkCfg (fun _ _ _ => rfl) forkEnv ⟨forkCfg_nonneg, fun _ _ => by show 4 ≤ 8; decide⟩
    (by decide +kernel) (fun _ _ _ _ _ _ _ => Nat.le_refl _) forkEnv_mono (fun _ _ _ l0 _ _ _ => forkEnv_len l0) rfl).1 l hl

/-- … and the common result is not trivial: the AND output (line 6) rises at 5 + 2 + 2 and falls at 40 + 2 + 2, the OR output
    rises two units later and stays high (branch 3, with its own delay 7, has risen at 14) -/
example : simWave forkCfg ((genOps Gen.kindPrefixes forkNet forkOrder false).map OpRow.toOp) forkEnv 7 = ⟨[T.fin 11], T.tmax⟩ ∧
    simWave forkCfg ((genOps Gen.kindPrefixes forkNet forkOrder false).map OpRow.toOp) forkEnv 6 = ⟨[T.fin 9, T.fin 44], T.tmax⟩ ∧
    simWave forkCfg ((genOps Gen.kindPrefixes forkNet forkOrder true).map (fun r => redirect (stemList forkNet) r.toOp)) forkEnv 7
      = ⟨[T.fin 11], T.tmax⟩ := by decide +kernel

/-- the hypothesis `forksOKB` cannot be dropped: a node whose kind is `__FORK__` is scheduled as a fork (the kind is
    lower-cased) but gets no stems (`Circuit.forks` holds nodes of kind exactly `__fork__`): with `strip_forks=True` its rows
    are dropped and its readers are NOT redirected — they read a signal nobody writes (reproduced on the real code: LogicSim output 3333… instead of 0303…) -/
def badForkNet : Net :=
  { nodes := #[⟨"input", [], [some 0]⟩, ⟨"INV1", [some 0], [some 1]⟩, ⟨"__FORK__", [some 1], [some 2]⟩,
               ⟨"INV1", [some 2], [some 3]⟩, ⟨"output", [some 3], []⟩],
    lines := #[⟨0, 0, 1, 0⟩, ⟨1, 0, 2, 0⟩, ⟨2, 0, 3, 0⟩, ⟨3, 0, 4, 0⟩],
    io := [0, 4] }
example : badForkNet.wfB = true ∧ orderOKB badForkNet [0, 1, 2, 3, 4] = true ∧ forksOKB badForkNet [0, 1, 2, 3, 4] = false ∧
    stemList badForkNet = [] ∧
    (genOps Gen.kindPrefixes badForkNet [0, 1, 2, 3, 4] true).map (·.out) = [0, 1, 3] ∧
    (genOps Gen.kindPrefixes badForkNet [0, 1, 2, 3, 4] false).map (·.out) = [0, 1, 2, 3] := by decide +kernel


/-! ## code paths: `WaveSim` (NumPy statements, `njit` loops) vs `WaveSimCuda` (`cuda.jit` kernels under the launcher)

Models: `Model/WaveIO.lean` (both paths of `s_to_c`, `s_ppo_to_ppi`, a level and `c_prop`, the capture scan), tied to the real
`WaveSim` and `WaveSimCuda` by exact correspondence of the raw arrays (harness clause `path-tie`); the kernel launch is
`Grid.launch` (C07). The state is kept lane by lane (`Nat → Col`, `Nat → LaneSt`): every array access of these functions has
the lane as its last index. -/
section CodePaths
open KV.WaveIO KV.Grid

/-! ### `s_to_c`: waveform construction from (initial, time, final) -/

/-- the thresholds: the CPU path tests `!= 0`, the kernel `>= 0.5`; on a value `v / den` they agree iff `v = 0` or `v / den ≥ 1/2`
    (in particular on `0` and `1`) -/
theorem assign_thresholds (den : Nat) (hden : 0 < den) (v : Int) : cpuFlag v = gpuFlag den v ↔ FlagOK den v :=
  flags_agree_iff den hden v

/-- … and they do NOT agree in between: `0.25` is a `1` for `WaveSim` and a `0` for `WaveSimCuda` (reproduced on the real code) -/
example : cpuFlag 1 = true ∧ gpuFlag 4 1 = false ∧ FlagOK 4 0 ∧ FlagOK 4 4 ∧ FlagOK 4 2 ∧ ¬ FlagOK 4 1 ∧ ¬ FlagOK 4 (-4) := by decide

/-- the raw cells: with the same flags both paths store the same three cells at offsets 0, 1, 2 — in closed form
    `[TMIN if initial else (t if final else TMAX), t if initial and not final else TMAX, TMAX]`; no other cell is written -/
theorem assign_cells_agree (i f : Bool) (t : T) :
    gpuCells i f t = cpuCells i f t ∧
    gpuCells i f t = [if i then T.tmin else if f then t else T.tmax, if i && !f then t else T.tmax, T.tmax] := by
  refine ⟨(cpuCells_eq_gpuCells i f t).symm, ?_⟩
  cases i <;> cases f <;> rfl

/-- **reading is insensitive to stale cells behind the terminator**: entries (no cell `≥ TMAX`), a terminator cell, then
    anything — e.g. what an earlier, longer waveform left there -/
theorem read_stale_irrelevant (pre : List T) (e : T) (s1 s2 : List T) (hpre : ∀ x ∈ pre, isEnd x = false)
    (he : isEnd e = true) : readWave (pre ++ e :: s1) = readWave (pre ++ e :: s2) ∧ readWave (pre ++ e :: s1) = ⟨pre, e⟩ :=
  ⟨WaveIO.read_stale_irrelevant pre e s1 s2 hpre he, readWave_prefix pre e s1 hpre he⟩

example : readWave [T.tmin, T.fin 7, T.tmax, T.fin 3, T.tovl] = ⟨[T.tmin, T.fin 7], T.tmax⟩ ∧
    readWave [T.tmin, T.fin 7, T.tmax, T.tmax, T.fin 99] = ⟨[T.tmin, T.fin 7], T.tmax⟩ := by decide

/-- **`assign_paths_agree`, one (s_node, lane) work item.** Logic values `v / den` that are `0` or at least one half
    (`FlagOK`), any time, any region capacity ≥ 3 (`c_caps_min = 4` in `WaveSim`), ANY previous contents `c1`, `c2` of the
    two memories: the waveform read back from the region the kernel thread has written equals the one read back from the
    region the CPU statements have written. Raw cells: the three written cells are equal; every other cell (offset 3 and
    beyond: stale) keeps what the respective memory held, so with the same history the two memories are identical. -/
theorem assign_paths_agree (den : Nat) (hden : 0 < den) (r : SRow) (hi : FlagOK den r.ini) (hf : FlagOK den r.fin)
    (c1 c2 : Col) (loc : Int) (cap : Nat) (hcap : 3 ≤ cap) :
    readWave (rdCells (write3 c1 loc (gpuCells (gpuFlag den r.ini) (gpuFlag den r.fin) r.time)) loc cap) =
      readWave (rdCells (write3 c2 loc (cpuCells (cpuFlag r.ini) (cpuFlag r.fin) r.time)) loc cap) ∧
    write3 c1 loc (gpuCells (gpuFlag den r.ini) (gpuFlag den r.fin) r.time) =
      write3 c1 loc (cpuCells (cpuFlag r.ini) (cpuFlag r.fin) r.time) ∧
    ∀ a, ¬ (loc ≤ a ∧ a < loc + 3) → write3 c1 loc (gpuCells (gpuFlag den r.ini) (gpuFlag den r.fin) r.time) a = c1 a := by
  rw [(flags_agree_iff den hden _).mpr hi, (flags_agree_iff den hden _).mpr hf]
  exact ⟨assign_item_read c1 c2 loc cap hcap _ _ _, (assign_item_raw c1 loc _ _ _).1, (assign_item_raw c1 loc _ _ _).2⟩

/-- what is read back, for a finite time: the stimulus waveform `Wave.stimWave` of the waveform model (C03) -/
theorem assign_reads_stimulus (c : Col) (loc : Int) (cap : Nat) (hcap : 3 ≤ cap) (i f : Bool) (τ : Int) :
    readWave (rdCells (write3 c loc (gpuCells i f (T.fin τ))) loc cap) = stimWave i τ f := by
  obtain ⟨n, rfl⟩ : ∃ n, cap = 3 + n := ⟨cap - 3, by omega⟩
  rw [gpuCells_getD, rdCells_write3, ← gpuCells_getD, read_assign]

/-- non-vacuity: initial 1, final 0, falling at 7 over a region that held a longer waveform: `[TMIN, 7, TMAX | 9, TMAX_OVL]` -/
example : rdCells (write3 (fun a => if a = 24 then T.tovl else T.fin a) 20 (gpuCells (gpuFlag 4 4) (gpuFlag 4 0) (T.fin 7))) 20 5
      = [T.tmin, T.fin 7, T.tmax, T.fin 23, T.tovl] ∧
    readWave (rdCells (write3 (fun a => if a = 24 then T.tovl else T.fin a) 20 (cpuCells (cpuFlag 4) (cpuFlag 0) (T.fin 7))) 20 5)
      = stimWave true 7 false := by decide +kernel

/-- **`s_to_c`, the kernel launch, lane by lane — no hypotheses**: for every block shape, lane `k < sims` receives the three
    cells of every row `y < s_len` whose (P)PI slot has memory (`c_locs[ppi_offset + y] ≥ 0`), in increasing row order; lanes
    `≥ sims` are untouched -/
theorem s_to_c_gpu_lane (tb : Tab) (den sims bx by_ : Nat) (hbx : 0 < bx) (hby : 0 < by_) (s : Nat → Nat → SRow)
    (c : Nat → Col) (k : Nat) :
    gpuSToC tb den sims bx by_ s c k =
      if k < sims then (List.range tb.sLen).foldl (fun col y => assignWork tb den s k y col) (c k) else c k :=
  gpuSToC_lane tb den sims bx by_ hbx hby s c k

/-- **`s_to_c`, whole arrays.** Tables whose (P)PI regions are pairwise disjoint (`regionsDisjointB`), logic values `0` or `≥ 1/2`
    on every used row and lane (`flagsOKB`): the kernel launch (every block shape) and the three NumPy statements leave the
    same array `c` — every cell of every lane. State elements without (P)PI memory (no connected output, `c_locs = -1`) are
    skipped by both paths (the CPU path since the repair "state elements without connected outputs are not assigned in s_to_c";
    before it stored through the −1, see `orphanTab`). -/
theorem s_to_c_paths_agree (tb : Tab) (den sims bx by_ : Nat) (hbx : 0 < bx) (hby : 0 < by_) (hden : 0 < den)
    (s : Nat → Nat → SRow) (c : Nat → Col) (hio : tb.nIo ≤ tb.sLen)
    (hdisj : regionsDisjointB tb = true) (hflags : flagsOKB tb den sims s = true) :
    gpuSToC tb den sims bx by_ s c = cpuSToCAll tb sims s c :=
  sToC_paths_agree tb den sims bx by_ hbx hby hden s c hio (regionsDisjointB_sound hdisj)
    (flagsOKB_sound hflags)

/-! non-vacuity: rows 0 (input), 1 (output), 2, 3 (flip-flops); three lanes; blocks of 2 × 3 threads -/
def pathTab : Tab :=
  { sLen := 4, nIo := 2, cLen := 40, ppiLoc := fun y => [12, -1, 16, 20].getD y (-1), ppoLoc := fun y => [-1, 24, 28, 32].getD y (-1),
    ppoCap := fun _ => 4 }
def pathS : Nat → Nat → SRow := fun x y =>
  let v := ([[(0, 4), (4, 4), (4, 0), (4, 0)], [(4, 0), (0, 0), (0, 4), (4, 4)], [(4, 4), (4, 0), (0, 0), (0, 4)]].getD x []).getD y (0, 0)
  ⟨v.1, T.fin (3 * x + y), v.2, if (x + y) % 2 = 0 then 4 else 0⟩
def pathC : Nat → Col := fun x a => T.fin (100 * x + a)

example : gpuSToC pathTab 4 3 2 3 pathS pathC = cpuSToCAll pathTab 3 pathS pathC :=
  s_to_c_paths_agree pathTab 4 3 2 3 (by decide) (by decide) (by decide) pathS pathC (by decide) (by decide) (by decide)

example : rdCells (gpuSToC pathTab 4 3 2 3 pathS pathC 1) 12 12 =
    [T.tmin, T.fin 3, T.tmax, T.fin 115, T.fin 5, T.tmax, T.tmax, T.fin 119, T.tmin, T.tmax, T.tmax, T.fin 123] := by decide +kernel

/-- a flip-flop without connected outputs has `c_locs[ppi_offset + y] = -1`: both paths skip the row (before the repair the
    NumPy statements stored at `c[-1]`, `c[0]`, `c[1]` — the last cell of the array and the memory of the constant-0 signal;
    reproduced on the real code at that time: a falling stimulus on such a row made the constant rise, on the CPU path only) -/
def orphanTab : Tab := { pathTab with ppiLoc := fun y => [12, -1, 16, -1].getD y (-1) }
example : stateRowsAllocatedB orphanTab = false ∧
    rdCells (cpuSToCAll orphanTab 3 pathS pathC 0) 0 2 = [T.fin 0, T.fin 1] ∧ cpuSToCAll orphanTab 3 pathS pathC 0 39 = T.fin 39 ∧
    rdCells (gpuSToC orphanTab 4 3 2 3 pathS pathC 0) 0 2 = [T.fin 0, T.fin 1] ∧ gpuSToC orphanTab 4 3 2 3 pathS pathC 0 39 = T.fin 39 := by
  decide +kernel
example : gpuSToC orphanTab 4 3 2 3 pathS pathC = cpuSToCAll orphanTab 3 pathS pathC :=
  s_to_c_paths_agree orphanTab 4 3 2 3 (by decide) (by decide) (by decide) pathS pathC (by decide) (by decide) (by decide)

/-! ### `s_ppo_to_ppi` -/

/-- **which rows are transferred — no hypotheses.** The kernel transfers row `y` of lane `x` (`s[0] ← s[2]`, `s[1] ← time`,
    `s[2] ← s[8]`) iff `x < sims`, `y < s_len` and BOTH `c_locs[ppi_offset + y] ≥ 0` and `c_locs[ppo_offset + y] ≥ 0`; the CPU
    method transfers exactly the state-element rows `len(io_nodes) ≤ y < s_len`. -/
theorem ppo_to_ppi_rows (tb : Tab) (time : T) (sims bx by_ : Nat) (hbx : 0 < bx) (hby : 0 < by_) (s : Nat → Nat → SRow)
    (x y : Nat) :
    gpuPpoToPpi tb time sims bx by_ s x y =
      (if x < sims ∧ y < tb.sLen ∧ 0 ≤ tb.ppiLoc y ∧ 0 ≤ tb.ppoLoc y then ppoToPpiRow time (s x y) else s x y) ∧
    cpuPpoToPpiAll tb time sims s x y =
      (if x < sims ∧ tb.nIo ≤ y ∧ y < tb.sLen then ppoToPpiRow time (s x y) else s x y) :=
  ⟨gpuPpoToPpi_spec tb time sims bx by_ hbx hby s x y, cpuPpoToPpi_spec tb time sims s x y⟩

/-- **`ppo_to_ppi_paths_agree`.** When the rows with both slots are exactly the state-element rows (`transferRowsB`: no port
    has both a (P)PI and a (P)PO slot, every state element has both), the two paths leave the same `s[0]`, `s[1]`, `s[2]` (and
    touch nothing else) — every row, every lane, every block shape, every time. -/
theorem ppo_to_ppi_paths_agree (tb : Tab) (time : T) (sims bx by_ : Nat) (hbx : 0 < bx) (hby : 0 < by_)
    (s : Nat → Nat → SRow) (hrows : transferRowsB tb = true) :
    gpuPpoToPpi tb time sims bx by_ s = cpuPpoToPpiAll tb time sims s :=
  ppoToPpi_paths_agree tb time sims bx by_ hbx hby s (transferRowsB_sound hrows)

/-- the transfer keeps the logic values in the domain where the assignment paths agree, provided the captured value does -/
theorem ppo_to_ppi_keeps_domain (den : Nat) (time : T) (r : SRow) (h2 : FlagOK den r.fin) (h8 : FlagOK den r.cap) :
    FlagOK den (ppoToPpiRow time r).ini ∧ FlagOK den (ppoToPpiRow time r).fin := ppoToPpiRow_flags den time r h2 h8

example : gpuPpoToPpi pathTab (T.fin 0) 3 2 3 pathS = cpuPpoToPpiAll pathTab (T.fin 0) 3 pathS :=
  ppo_to_ppi_paths_agree pathTab (T.fin 0) 3 2 3 (by decide) (by decide) pathS (by decide)
example : gpuPpoToPpi pathTab (T.fin 0) 3 2 3 pathS 1 2 = ⟨4, T.fin 0, 0, 0⟩ ∧ pathS 1 2 = ⟨0, T.fin 5, 4, 0⟩ ∧
    gpuPpoToPpi pathTab (T.fin 0) 3 2 3 pathS 2 3 = ⟨4, T.fin 0, 0, 0⟩ ∧ pathS 2 3 = ⟨0, T.fin 9, 4, 0⟩ ∧
    gpuPpoToPpi pathTab (T.fin 0) 3 2 3 pathS 2 0 = pathS 2 0 := by decide +kernel

/-- the hypothesis cannot be dropped, in both directions: a port with both slots (a driven port fork, e.g. a bench output
    that is read inside the circuit) is transferred by the kernel only; a state element without (P)PI memory by the CPU only -/
def inoutTab : Tab := { pathTab with ppiLoc := fun y => [12, 36, 16, -1].getD y (-1) }
example : transferRowsB inoutTab = false ∧
    gpuPpoToPpi inoutTab (T.fin 0) 3 2 3 pathS 0 1 ≠ cpuPpoToPpiAll inoutTab (T.fin 0) 3 pathS 0 1 ∧
    gpuPpoToPpi inoutTab (T.fin 0) 3 2 3 pathS 0 3 ≠ cpuPpoToPpiAll inoutTab (T.fin 0) 3 pathS 0 3 := by decide +kernel

/-! ### propagation: thread, level, `c_prop` -/

/-- **`eval_thread_eq`.** For every evaluator function `ev` (the shared `_wave_eval`), op table and bounds: thread `(x, y)` of
    `wave_eval_gpu` does nothing if `sim_start + x ≥ sim_stop` or `op_start + y ≥ op_stop`; otherwise it performs exactly the
    body of the two CPU loops for `sim = sim_start + x`, `op_idx = op_start + y` — the same evaluation on lane `sim`, the same
    addition to `abuf[a_loc, sim]` when `a_loc ≥ 0` — and touches no other lane. -/
theorem eval_thread_eq (ev : Ev) (ops : List AOp) (opStart opStop simStart simStop x y : Nat) (S : Nat → LaneSt) :
    gpuEvalThread ev ops opStart opStop simStart simStop x y S =
      if simStart + x < simStop ∧ opStart + y < opStop then
        onLane S (simStart + x) (cpuBody ev (ops.getD (opStart + y) default) (simStart + x))
      else S := gpuEvalThread_eq ev ops opStart opStop simStart simStop x y S

/-- **`level_paths_agree`.** One kernel launch of `WaveSimCuda.c_prop` (grid `_grid_dim(sims, op_stop - op_start)`, every block
    shape) leaves the same `c` and `abuf` as `level_eval_cpu` — all lanes, all cells, stale ones and scratch slots included —
    for every evaluator function, op table, level range and lane count. No independence of the ops of the level is needed for
    the launcher modelled here: it keeps the op order inside every lane (`Grid.launch_sorted`), and lanes do not interact.
    (For an arbitrary thread order see `level_any_thread_order`.) Lane `k` sees the ops `op_start … op_stop - 1` in order. -/
theorem level_paths_agree (ev : Ev) (ops : List AOp) (opStart opStop sims bx by_ : Nat) (hbx : 0 < bx) (hby : 0 < by_)
    (S : Nat → LaneSt) :
    gpuLevel ev ops opStart opStop sims bx by_ S = cpuLevel ev ops opStart opStop 0 sims S ∧
    ∀ k, cpuLevel ev ops opStart opStop 0 sims S k =
      if k < sims then (List.range (opStop - opStart)).foldl (fun st y => cpuBody ev (ops.getD (opStart + y) default) k st) (S k)
      else S k :=
  ⟨gpuLevel_eq_cpuLevel ev ops opStart opStop sims bx by_ hbx hby S, cpuLevel_lane ev ops opStart opStop sims S⟩

/-- **whole `c_prop`**, by induction over `zip(level_starts, level_stops)`; lanes `≥ sims` (the `k` of `c_prop(sims=k)`) stay untouched -/
theorem c_prop_paths_agree (ev : Ev) (ops : List AOp) (levels : List (Nat × Nat)) (sims bx by_ : Nat)
    (hbx : 0 < bx) (hby : 0 < by_) (S : Nat → LaneSt) :
    gpuCProp ev ops levels sims bx by_ S = cpuCProp ev ops levels sims S ∧
    ∀ k, sims ≤ k → cpuCProp ev ops levels sims S k = S k :=
  ⟨gpuCProp_eq_cpuCProp ev ops levels sims bx by_ hbx hby S, fun k hk => cpuCProp_lane_ge ev ops levels sims S k hk⟩

/-! ### lanes, `c_prop(sims=k)` and data sets of WaveSim (audit finding 8) -/

/-- **lane position**: lane `j` of a propagation over `k` lanes and lane `j'` of a propagation over `k'` lanes (same rows and
    levels) agree when the two lanes start from the same memory and the evaluator treats them alike — whatever the other lanes
    hold, wherever the lane sits, however many lanes there are -/
theorem cprop_lane_position (ev ev' : Ev) (ops : List AOp) (levels : List (Nat × Nat)) (k k' j j' : Nat) (hj : j < k) (hj' : j' < k')
    (hev : ∀ o c, ev o j c = ev' o j' c) (S S' : Nat → LaneSt) (h : S j = S' j') :
    cpuCProp ev ops levels k S j = cpuCProp ev' ops levels k' S' j' := by
  unfold cpuCProp
  induction levels generalizing S S' with
  | nil => exact h
  | cons lv r ih =>
    simp only [List.foldl_cons]
    apply ih
    rw [cpuLevel_lane, cpuLevel_lane, if_pos hj, if_pos hj', h]
    generalize S' j' = st
    induction (List.range (lv.2 - lv.1)) generalizing st with
    | nil => rfl
    | cons y ys ihy =>
      simp only [List.foldl_cons]
      have : evalWork ev ops lv.1 j y st = evalWork ev' ops lv.1 j' y st := by
        simp only [evalWork, cpuBody, hev]
      rw [this]
      exact ihy _

/-- **`c_prop(sims=k)` = the first `k` lanes of the full run** (auditor's `cprop_first_k`): lane `j < k` of `c_prop(sims=k)`
    equals lane `j` of `c_prop(sims=k')` for every `k' > j`, and depends only on lane `j` of the state -/
theorem cprop_first_k (ev : Ev) (ops : List AOp) (levels : List (Nat × Nat)) (k k' j : Nat) (hj : j < k) (hj' : j < k')
    (S S' : Nat → LaneSt) (h : S j = S' j) :
    cpuCProp ev ops levels k S j = cpuCProp ev ops levels k' S' j :=
  cprop_lane_position ev ev ops levels k k' j j hj hj' (fun _ _ => rfl) S S' h

/-- **lane permutation** (WaveSim, an evaluator that does not look at the lane number — `evWave` with one configuration for
    all lanes): running on a state whose lanes are rearranged by `π` rearranges the results by `π` -/
theorem cprop_lane_permutation (ev : Ev) (hev : ∀ o x x' c, ev o x c = ev o x' c) (ops : List AOp) (levels : List (Nat × Nat))
    (sims : Nat) (π : Nat → Nat) (hπ : ∀ j, j < sims → π j < sims) (S : Nat → LaneSt) (j : Nat) (hj : j < sims) :
    cpuCProp ev ops levels sims (fun x => S (π x)) j = cpuCProp ev ops levels sims S (π j) :=
  cprop_lane_position ev ev ops levels sims sims j (π j) hj (hπ j hj) (fun o c => hev o j (π j) c) _ S rfl

/-- **data set per lane** (auditor's `dataset_lane`): lane `k` of a propagation in which every lane has its own configuration
    (`cfg sim` = delays of the data set selected for lane `sim`) = lane `k` of a propagation with that configuration on all lanes -/
theorem dataset_lane (cfg : Nat → WCfg) (loc : Nat → Int) (ops : List AOp) (levels : List (Nat × Nat)) (sims k : Nat)
    (S : Nat → LaneSt) :
    cpuCProp (evWave cfg loc) ops levels sims S k = cpuCProp (evWave (fun _ => cfg k) loc) ops levels sims S k := by
  by_cases hk : k < sims
  · exact cprop_lane_position (evWave cfg loc) (evWave (fun _ => cfg k) loc) ops levels sims sims k k hk hk (fun _ _ => rfl) S S rfl
  · rw [(c_prop_paths_agree _ ops levels sims 1 1 (by decide) (by decide) S).2 k (by omega),
      (c_prop_paths_agree _ ops levels sims 1 1 (by decide) (by decide) S).2 k (by omega)]

/-- the per-lane configuration `_wave_eval` uses: data set `selectDataset …` of lane `sim` (index 0 where the selection is
    outside the model) -/
def cfgSel (sets : Nat → WCfg) (nsets : Nat) (mode simctl0 : Nat → Nat) (seed : Nat) : Nat → WCfg :=
  fun sim => sets ((selectDataset nsets (mode sim) seed (simctl0 sim)).getD 0)

/-- **selection connected to the propagation**: with per-lane modes and choices (mixed modes allowed), lane `k` of the
    propagation equals lane `k` of the propagation that uses the data set `d` selected for lane `k` ALONE on all lanes -/
theorem dataset_lane_select (sets : Nat → WCfg) (nsets : Nat) (mode simctl0 : Nat → Nat) (seed : Nat) (loc : Nat → Int)
    (ops : List AOp) (levels : List (Nat × Nat)) (sims k d : Nat) (S : Nat → LaneSt)
    (hsel : selectDataset nsets (mode k) seed (simctl0 k) = some d) :
    cpuCProp (evWave (cfgSel sets nsets mode simctl0 seed) loc) ops levels sims S k =
      cpuCProp (evWave (fun _ => sets d) loc) ops levels sims S k := by
  rw [dataset_lane]
  simp only [cfgSel, hsel, Option.getD_some]

/-- mode 0 on all lanes: the whole run IS the run with data set `seed` alone (replaces the former eta-`rfl` statement) -/
theorem dataset_alone (sets : Nat → WCfg) (nsets seed : Nat) (h1 : 1 < nsets) (hs : seed < nsets) (simctl0 : Nat → Nat)
    (loc : Nat → Int) (ops : List AOp) (levels : List (Nat × Nat)) (sims : Nat) (S : Nat → LaneSt) :
    cpuCProp (evWave (cfgSel sets nsets (fun _ => 0) simctl0 seed) loc) ops levels sims S =
      cpuCProp (evWave (fun _ => sets seed) loc) ops levels sims S := by
  have : cfgSel sets nsets (fun _ => 0) simctl0 seed = fun _ => sets seed := by
    funext sim; simp only [cfgSel, select_mode0 nsets seed _ h1 hs, Option.getD_some]
  rw [this]

/-- **memory reuse of WaveSim** (corollary of `C03.wave_memory_sound`): two accepted map records for the same netlist, `strip_forks`
    setting, rows and capacities (`c_reuse` off and on, or any two allocators), ANY two runs honouring the evaluator contract in
    ANY level-respecting orders: the region of every output slot reads as the same waveform — the results at the output slots do
    not depend on `c_reuse` -/
theorem wave_reuse_irrelevant (p1 p2 : MapIn) (hnet : p1.net = p2.net) (hstrip : p1.strip = p2.strip) (hops : p1.ops = p2.ops)
    (hcaps : p1.caps = p2.caps) (h1 : p1.check = none) (h2 : p2.check = none) (delay : Nat → Bool → Bool → Int)
    (sched1 sched2 : List Nat) (hs1 : p1.schedOKB sched1 = true) (hs2 : p2.schedOKB sched2 = true)
    (m1 m1' m2 m2' : Int → T) (env0 : Nat → Wv)
    (h01 : ∀ x ∈ p1.tracked, (∀ o ∈ p1.ops, o.out ≠ x) → rdWave (p1.loc x) (p1.cap x) m1 = env0 x)
    (h02 : ∀ x ∈ p2.tracked, (∀ o ∈ p2.ops, o.out ≠ x) → rdWave (p2.loc x) (p2.cap x) m2 = env0 x)
    (hr1 : WaveRun p1 (wcfg p1 delay) (MapSound.schedOps p1 sched1) m1 m1')
    (hr2 : WaveRun p2 (wcfg p2 delay) (MapSound.schedOps p2 sched2) m2 m2') :
    ∀ j s, (j, s) ∈ p1.ppoSrcs → rdWave (p1.loc j) (p1.cap j) m1' = rdWave (p2.loc j) (p2.cap j) m2' := by
  obtain ⟨net1, strip1, ops1, st1, l1, c1, n1, cm1⟩ := p1
  obtain ⟨net2, strip2, ops2, st2, l2, c2, n2, cm2⟩ := p2
  simp only at hnet hstrip hops hcaps
  subst hnet hstrip hops hcaps
  intro j s hjs
  rw [C03.wave_memory_sound _ h1 delay sched1 hs1 m1 m1' env0 h01 hr1 j s hjs,
      C03.wave_memory_sound _ h2 delay sched2 hs2 m2 m2' env0 h02 hr2 j s hjs]
  rfl

/-! non-vacuity with the evaluator built from the waveform model (`evWave`): `10 = AND(0, 1)`, `11 = XOR(1, 2)` (level 1),
`12 = OR(10, 11)` (level 2); signal `i` lives at address `8 i` with capacity 8, slot 9 is the constant 0; activity of 10 and 12
is accumulated in `abuf[0]` with weights (1, 1) and (2, 3); three lanes with different stimuli; 2 × 2 blocks -/
def pathOps : List AOp := [⟨⟨0x8888, 10, 0, 1, 9, 9⟩, 0, 1, 1⟩, ⟨⟨0x6666, 11, 1, 2, 9, 9⟩, -1, 0, 0⟩, ⟨⟨0xEEEE, 12, 10, 11, 9, 9⟩, 0, 2, 3⟩]
def pathCfg : WCfg := ⟨fun l _ _ => if l = 1 then 3 else 2, fun _ => 8⟩
def pathEv : Ev := evWave (fun _ => pathCfg) (fun i => 8 * i)
def pathS0 : Nat → LaneSt := fun x =>
  ⟨write3 (write3 (write3 (fun _ => T.tmax) 0 (gpuCells false true (T.fin (5 + x)))) 8 (gpuCells (x == 1) (x != 1) (T.fin 20)))
      16 (gpuCells true false (T.fin (9 + 2 * x))), fun _ => 0⟩

example : gpuCProp pathEv pathOps [(0, 2), (2, 3)] 3 2 2 pathS0 = cpuCProp pathEv pathOps [(0, 2), (2, 3)] 3 pathS0 :=
  (c_prop_paths_agree pathEv pathOps [(0, 2), (2, 3)] 3 2 2 (by decide) (by decide) pathS0).1

example : readWave (rdCells (gpuCProp pathEv pathOps [(0, 2), (2, 3)] 3 2 2 pathS0 0).c 96 8) = ⟨[T.tmin, T.fin 13, T.fin 25], T.tmax⟩ ∧
    (gpuCProp pathEv pathOps [(0, 2), (2, 3)] 3 2 2 pathS0 0).ab 0 = 6 ∧
    readWave (rdCells (cpuCProp pathEv pathOps [(0, 2), (2, 3)] 3 pathS0 1).c 96 8) = ⟨[T.fin 10, T.fin 25], T.tmax⟩ ∧
    (cpuCProp pathEv pathOps [(0, 2), (2, 3)] 3 pathS0 1).ab 0 = 7 := by decide +kernel

/-- **what one evaluation leaves in memory, for the evaluator built from the waveform model**: delays ≥ 0, output capacity ≥ 4
    (`c_caps_min`), well-formed operand waveforms in the operand regions — the output region then reads back as `Wave.waveSem` of
    the operand waveforms read from memory (the op semantics all signal-level theorems of C03–C05 and C13 are about), the
    returned `(nrise, nfall)` is `Wave.waveCounts`, and no cell outside the output region has changed -/
theorem eval_reads_back (g : WCfg) (loc : Nat → Int) (o : OpRow) (sim : Nat) (c : Col)
    (hd : ∀ l p q, 0 ≤ g.delay l p q) (hc : 4 ≤ g.cap o.out)
    (hx : ∀ i ∈ o.ins, (readWave (rdCells c (loc i) (g.cap i))).ok) :
    readWave (rdCells (evWave (fun _ => g) loc o sim c).1 (loc o.out) (g.cap o.out)) =
      waveSem g ⟨o.lut, o.out, o.ins⟩ (o.ins.map fun i => readWave (rdCells c (loc i) (g.cap i))) ∧
    (evWave (fun _ => g) loc o sim c).2 =
      waveCounts g ⟨o.lut, o.out, o.ins⟩ (o.ins.map fun i => readWave (rdCells c (loc i) (g.cap i))) ∧
    ∀ a, ¬ inRegion loc g.cap o.out a → (evWave (fun _ => g) loc o sim c).1 a = c a :=
  evWave_reads_back g loc o sim c hd hc hx

/-- non-vacuity: the AND of the example on lane 0 (inputs rise at 5 and at 20, delays 2 and 3) -/
example : readWave (rdCells (pathEv ⟨0x8888, 10, 0, 1, 9, 9⟩ 0 (pathS0 0).c).1 80 8) =
    waveSem pathCfg ⟨0x8888, 10, [0, 1, 9, 9]⟩ ([0, 1, 9, 9].map fun i => readWave (rdCells (pathS0 0).c (8 * (i : Int)) 8)) :=
  (eval_reads_back pathCfg (fun i => 8 * i) ⟨0x8888, 10, 0, 1, 9, 9⟩ 0 (pathS0 0).c
    (by intro l p q; show (0 : Int) ≤ if l = 1 then 3 else 2; split <;> omega) (by decide)
    (by
      intro i hi
      simp only [OpRow.ins, List.mem_cons, List.not_mem_nil, or_false] at hi
      rcases hi with rfl | rfl | rfl | rfl <;> (simp only [Wv.ok, WfRem]; decide +kernel))).1
example : readWave (rdCells (pathEv ⟨0x8888, 10, 0, 1, 9, 9⟩ 0 (pathS0 0).c).1 80 8) = ⟨[T.fin 23], T.tmax⟩ := by decide +kernel

/-- **`level_any_thread_order`: a level under an ARBITRARY thread order** (a real GPU gives none). Every list of threads that is
    a permutation of the work items `(sim, op)` of the level leaves the same `c` and `abuf` as `level_eval_cpu`, for every
    evaluator whose reads are confined to `rd o` and whose writes to `wr o` (`EvLocal`), provided the ops of the level are
    pairwise footprint-independent (`OpsIndep`: the write set of each is disjoint from the read and write sets of the other —
    what the level partition and the memory map guarantee, C07/C08). Work items of different lanes always commute;
    accumulation into a shared `abuf` cell commutes because it is an addition. -/
theorem level_any_thread_order (ev : Ev) (rd wr : OpRow → Int → Prop) (hev : EvLocal ev rd wr) (ops : List AOp)
    (opStart opStop sims : Nat)
    (hind : ∀ y y', y < opStop - opStart → y' < opStop - opStart → y ≠ y' →
      OpsIndep rd wr (ops.getD (opStart + y) default).op (ops.getD (opStart + y') default).op)
    (l : List (Nat × Nat)) (hl : l.Perm (cpuLoop sims (opStop - opStart))) (S : Nat → LaneSt) :
    runLanes (evalWork ev ops opStart) l S = cpuLevel ev ops opStart opStop 0 sims S :=
  level_any_order ev rd wr hev ops opStart opStop sims hind l hl S

/-- **… instantiated with the evaluator built from the waveform model, on tables as `SimOps` builds them (audit-2 finding 3).**
    Footprints of a row: the regions `c_locs[i] … + c_caps[i]` of the operand indices (read) and of the output index (written;
    cells behind the stored waveform are kept). Several rows of one level may write the scratch slot `t1 = tmp_idx` (every gate
    with an unconnected output, sim.py:198; `t2 = tmp2_idx`), so the whole memory is NOT order independent; the statement is
    about everything else. Hypotheses, all Boolean on `c_locs` / `c_caps` (`Model/LevelMem.lean`): output capacities ≥ 2;
    no row of the level reads a scratch region (`rowScrFreeB`); two different rows are independent modulo scratch
    (`pairIndepJB`: unless a row writes scratch, its output region is disjoint from the operand regions and — unless that one
    writes scratch — the output region of the other). Conclusion: every permutation of the (sim, op) work items leaves on every
    lane the same accumulators and the same memory cell at every address OUTSIDE the two scratch regions as `level_eval_cpu`.
    The hypotheses are consequences of the map certificate (`C07.level_conditions_of_certificate`; `C07.level_threads_any_order`
    is this theorem with `MapIn.check = none` in their place) and are evaluated on the real tables (driver `opsindep`). -/
theorem level_any_thread_order_wave (g : WCfg) (loc : Nat → Int) (t1 t2 : Nat) (ops : List AOp) (opStart opStop sims : Nat)
    (hcap : ∀ y, y < opStop - opStart → 2 ≤ g.cap (ops.getD (opStart + y) default).op.out)
    (hscr : ∀ y, y < opStop - opStart → rowScrFreeB loc g.cap t1 t2 (ops.getD (opStart + y) default).op = true)
    (hind : ∀ y y', y < opStop - opStart → y' < opStop - opStart → y ≠ y' →
      pairIndepJB loc g.cap t1 t2 (ops.getD (opStart + y) default).op (ops.getD (opStart + y') default).op = true)
    (l : List (Nat × Nat)) (hl : l.Perm (cpuLoop sims (opStop - opStart))) (S : Nat → LaneSt) (k : Nat) :
    (runLanes (evalWork (evWave (fun _ => g) loc) ops opStart) l S k).ab =
      (cpuLevel (evWave (fun _ => g) loc) ops opStart opStop 0 sims S k).ab ∧
    ∀ a, ¬ scrAddr loc g.cap t1 t2 a →
      (runLanes (evalWork (evWave (fun _ => g) loc) ops opStart) l S k).c a =
        (cpuLevel (evWave (fun _ => g) loc) ops opStart opStop 0 sims S k).c a :=
  level_any_order_wave_modscratch g loc t1 t2 ops opStart opStop sims hcap hscr hind l hl S k

/-- the WHOLE memory (scratch regions included), under the stronger footprint condition `opsIndepB` (output region of each row
    disjoint from the output AND operand regions of the other): holds for levels with at most one scratch writer and is FALSE
    for two rows writing the scratch slot (`example` below, and `C07.scrMap`) — the former `level_any_thread_order_wave` -/
theorem level_any_thread_order_wave_exact (g : WCfg) (loc : Nat → Int) (hcap : ∀ i, 2 ≤ g.cap i) (ops : List AOp)
    (opStart opStop sims : Nat)
    (hind : ∀ y y', y < opStop - opStart → y' < opStop - opStart → y ≠ y' →
      opsIndepB loc g.cap (ops.getD (opStart + y) default).op (ops.getD (opStart + y') default).op = true)
    (l : List (Nat × Nat)) (hl : l.Perm (cpuLoop sims (opStop - opStart))) (S : Nat → LaneSt) :
    runLanes (evalWork (evWave (fun _ => g) loc) ops opStart) l S = cpuLevel (evWave (fun _ => g) loc) ops opStart opStop 0 sims S :=
  level_any_order _ _ _ (evWave_local g loc hcap) ops opStart opStop sims
    (fun y y' hy hy' hne => opsIndepB_sound (hind y y' hy hy' hne)) l hl S

/-- two rows writing the scratch slot 7: `opsIndepB` fails, `pairIndepJB` holds -/
example : opsIndepB (fun i => 8 * i) (fun _ => 8) ⟨0x8888, 7, 0, 1, 9, 9⟩ ⟨0x6666, 7, 1, 2, 9, 9⟩ = false ∧
    pairIndepJB (fun i => 8 * i) (fun _ => 8) 7 8 ⟨0x8888, 7, 0, 1, 9, 9⟩ ⟨0x6666, 7, 1, 2, 9, 9⟩ = true ∧
    rowScrFreeB (fun i => 8 * i) (fun _ => 8) 7 8 ⟨0x8888, 7, 0, 1, 9, 9⟩ = true := by decide

/-- non-vacuity: level 1 of the example (`10 = AND(0,1)`, `11 = XOR(1,2)`, regions of 8 cells, scratch slots 13, 14) with its six
    threads in a scrambled order -/
example : runLanes (evalWork pathEv pathOps 0) [(2, 1), (0, 0), (1, 1), (2, 0), (0, 1), (1, 0)] pathS0 =
    cpuLevel pathEv pathOps 0 2 0 3 pathS0 :=
  level_any_thread_order_wave_exact pathCfg (fun i => 8 * i) (fun _ => (by decide : 2 ≤ 8)) pathOps 0 2 3
    (by
      intro y y' hy hy' hne
      have h1 : y = 0 ∨ y = 1 := by omega
      have h2 : y' = 0 ∨ y' = 1 := by omega
      rcases h1 with rfl | rfl <;> rcases h2 with rfl | rfl
      · exact absurd rfl hne
      · decide
      · decide
      · exact absurd rfl hne)
    _ (by decide) pathS0

/-- non-vacuity of the restated theorem: a level whose two rows BOTH write the scratch slot 13 (`pathOps` with the outputs
    renamed), six threads in a scrambled order -/
def scrOps : List AOp := [⟨⟨0x8888, 13, 0, 1, 9, 9⟩, 0, 1, 1⟩, ⟨⟨0x6666, 13, 1, 2, 9, 9⟩, -1, 0, 0⟩]
example (k : Nat) := level_any_thread_order_wave pathCfg (fun i => 8 * i) 13 14 scrOps 0 2 3 (fun _ _ => (by decide : 2 ≤ 8))
    (by
      intro y hy
      have h1 : y = 0 ∨ y = 1 := by omega
      rcases h1 with rfl | rfl <;> decide)
    (by
      intro y y' hy hy' hne
      have h1 : y = 0 ∨ y = 1 := by omega
      have h2 : y' = 0 ∨ y' = 1 := by omega
      rcases h1 with rfl | rfl <;> rcases h2 with rfl | rfl
      · exact absurd rfl hne
      · decide
      · decide
      · exact absurd rfl hne)
    [(2, 1), (0, 0), (1, 1), (2, 0), (0, 1), (1, 0)] (by decide) pathS0 k

/-! ### capture (`c_to_s`, `sd = 0`) -/

/-- **`capture_paths_agree`, one work item.** For every memory, region (`c_caps ≥ 1`) and capture time the index loop of
    `wave_capture_gpu` and the slice scan of `wave_capture_cpu` return the same record (initial value, earliest arrival, latest
    stabilisation, final value, captured value, overflow flag), and it is the capture record `captureWv` of the waveform the
    region encodes (entries before the first cell `≥ TMAX`; cells behind it are not looked at) — whose meaning is
    `C13.capture_faithful`. -/
theorem capture_paths_agree (c : Col) (loc : Int) (len : Nat) (hlen : 0 < len) (time : T) :
    gpuCapture c loc len time = cpuCapture c loc len time ∧
    cpuCapture c loc len time = captureWv (readWave (rdCells c loc len)) time :=
  ⟨capture_paths c loc len hlen time, cpuCapture_eq_captureWv c loc len time⟩

/-- whole arrays: tables in which every state-element row has (P)PO memory and captured regions are not empty — the kernel
    launch writes, on every lane `x < sims`, exactly the rows and records the CPU loops write -/
theorem c_to_s_paths_agree (tb : Tab) (time : T) (sims bx by_ : Nat) (hbx : 0 < bx) (hby : 0 < by_) (c : Nat → Col)
    (res : Nat → Nat → Option Cap) (hio : tb.nIo ≤ tb.sLen) (hrows : stateRowsCapturedB tb = true)
    (hcap : capsPositiveB tb = true) (x : Nat) (hx : x < sims) :
    gpuCToS tb time sims bx by_ c res x = cpuCToS tb time (c x) (res x) :=
  cToS_paths_agree tb time sims bx by_ hbx hby c res (stateRowsCapturedB_sound hrows) (capsPositiveB_sound hcap) hio x hx

/-- non-vacuity: a region `[TMIN, 4, 9, TMAX_OVL]` captured at 6, and the captured rows of `pathTab` -/
example : gpuCapture (fun a => [T.tmin, T.fin 4, T.fin 9, T.tovl].getD (a - 24).toNat T.tmax) 24 4 (T.fin 6) =
    { init := true, eat := T.fin 4, lst := T.fin 9, final := true, val := false, ovl := true } := by decide +kernel
example : stateRowsCapturedB pathTab = true ∧ capsPositiveB pathTab = true ∧
    (List.range 5).map (fun y => (gpuCToS pathTab T.tmax 3 2 3 pathC (fun _ _ => none) 1 y).isSome) = [false, true, true, true, false] := by
  decide +kernel

/-! ### one simulation: `s_to_c`, `c_prop`, `c_to_s` on each class -/

/-- `WaveSim`: assignment, propagation, capture; returns the final lanes of `c` / `abuf` and the captured records -/
def cpuSimulate (tb : Tab) (sims : Nat) (ev : Ev) (ops : List AOp) (levels : List (Nat × Nat)) (time : T)
    (s : Nat → Nat → SRow) (c : Nat → Col) (ab : Nat → Int → Int) (res : Nat → Nat → Option Cap) :
    (Nat → LaneSt) × (Nat → Nat → Option Cap) :=
  let c1 := cpuSToCAll tb sims s c
  let S := cpuCProp ev ops levels sims (fun x => ⟨c1 x, ab x⟩)
  (S, fun x => if x < sims then cpuCToS tb time (S x).c (res x) else res x)

/-- `WaveSimCuda`: the same three steps through the kernels -/
def gpuSimulate (tb : Tab) (den sims bx by_ : Nat) (ev : Ev) (ops : List AOp) (levels : List (Nat × Nat)) (time : T)
    (s : Nat → Nat → SRow) (c : Nat → Col) (ab : Nat → Int → Int) (res : Nat → Nat → Option Cap) :
    (Nat → LaneSt) × (Nat → Nat → Option Cap) :=
  let c1 := gpuSToC tb den sims bx by_ s c
  let S := gpuCProp ev ops levels sims bx by_ (fun x => ⟨c1 x, ab x⟩)
  (S, gpuCToS tb time sims bx by_ (fun x => (S x).c) res)

/-- **one whole simulation on the two classes**: under the table hypotheses of the three steps and logic values `0` or
    `≥ 1/2`, `WaveSimCuda` (every block shape) ends with the same `c`, the same `abuf` and the same captured records on
    every row and lane as `WaveSim` — for every evaluator function, op table, level table, capture time and previous
    contents of all arrays -/
theorem simulate_paths_agree (tb : Tab) (den sims bx by_ : Nat) (hbx : 0 < bx) (hby : 0 < by_) (hden : 0 < den)
    (ev : Ev) (ops : List AOp) (levels : List (Nat × Nat)) (time : T)
    (s : Nat → Nat → SRow) (c : Nat → Col) (ab : Nat → Int → Int) (res : Nat → Nat → Option Cap) (hio : tb.nIo ≤ tb.sLen)
    (hdisj : regionsDisjointB tb = true) (hflags : flagsOKB tb den sims s = true)
    (hrows' : stateRowsCapturedB tb = true) (hcap : capsPositiveB tb = true) :
    gpuSimulate tb den sims bx by_ ev ops levels time s c ab res = cpuSimulate tb sims ev ops levels time s c ab res := by
  unfold gpuSimulate cpuSimulate
  simp only
  rw [s_to_c_paths_agree tb den sims bx by_ hbx hby hden s c hio hdisj hflags,
    (c_prop_paths_agree ev ops levels sims bx by_ hbx hby _).1]
  congr 1
  funext x
  by_cases hx : x < sims
  · rw [if_pos hx]
    exact c_to_s_paths_agree tb time sims bx by_ hbx hby _ res hio hrows' hcap x hx
  · rw [if_neg hx]
    funext y
    rw [gpuCToS_spec tb time sims bx by_ hbx hby]
    exact if_neg (fun h => hx h.1)

/-! non-vacuity: index 0 = constant 0, 1 = (P)PI slot of the input (row 0), 2 = (P)PI slot of the flip-flop (row 2),
`3 = AND(1, 2)`, captured by the output (row 1) and by the flip-flop; regions of 8 cells at `8 i`; the memory holds stale data
everywhere except in the constant's region; two lanes, capture at time 9 -/
def simTab : Tab :=
  { sLen := 3, nIo := 2, cLen := 32, ppiLoc := fun y => [8, -1, 16].getD y (-1), ppoLoc := fun y => [-1, 24, 24].getD y (-1), ppoCap := fun _ => 8 }
def simEv : Ev := evWave (fun _ => ⟨fun _ _ _ => 2, fun _ => 8⟩) (fun i => 8 * i)
def simOps : List AOp := [⟨⟨0x8888, 3, 1, 2, 0, 0⟩, 0, 1, 1⟩]
def simS : Nat → Nat → SRow := fun x y => ⟨if y = 0 then 0 else 4, T.fin (5 + x + 3 * y), if y = 0 then 4 else if x = 1 then 4 else 0, 0⟩
def simC : Nat → Col := fun x a => if a < 8 then T.tmax else T.fin (100 * x + a)

example : gpuSimulate simTab 4 2 2 2 simEv simOps [(0, 1)] (T.fin 9) simS simC (fun _ _ => 0) (fun _ _ => none) =
    cpuSimulate simTab 2 simEv simOps [(0, 1)] (T.fin 9) simS simC (fun _ _ => 0) (fun _ _ => none) :=
  simulate_paths_agree simTab 4 2 2 2 (by decide) (by decide) (by decide) simEv simOps [(0, 1)] (T.fin 9) simS simC _ _
    (by decide) (by decide) (by decide) (by decide) (by decide)

/-- … lane 0: the AND output rises at 7 and falls at 13 (captured value at 9: 1, one rise + one fall accumulated); behind the
    terminator the stale cells are still there -/
example : (gpuSimulate simTab 4 2 2 2 simEv simOps [(0, 1)] (T.fin 9) simS simC (fun _ _ => 0) (fun _ _ => none)).2 0 1 =
      some { init := false, eat := T.fin 7, lst := T.fin 13, final := false, val := true, ovl := false } ∧
    ((gpuSimulate simTab 4 2 2 2 simEv simOps [(0, 1)] (T.fin 9) simS simC (fun _ _ => 0) (fun _ _ => none)).1 0).ab 0 = 2 ∧
    rdCells ((gpuSimulate simTab 4 2 2 2 simEv simOps [(0, 1)] (T.fin 9) simS simC (fun _ _ => 0) (fun _ _ => none)).1 0).c 24 5 =
      [T.fin 7, T.fin 13, T.tmax, T.fin 27, T.fin 28] := by decide +kernel

end CodePaths

end KV.C06
