import KyupyVerif.Proofs.Sdf
import KyupyVerif.Proofs.SdfText
import KyupyVerif.Proofs.SdfTextRaw
import KyupyVerif.Proofs.SdfCirc
import KyupyVerif.Proofs.SdfCircComplete
/-! # C14 — every SDF delay lands on the right line, polarity and data set — none is lost

Object of the theorems: the hand-written model `KV.Sdf` (Model/Sdf.lean) of `kyupy/sdf.py` *after* lark:
`triple`, `sanitize`, `cell`, `start`, `DelayFile.__init__`, `iopaths`, `interconnects`, first over an abstract circuit
given by two tables (`pinLine`, `icLine`: theorems for ALL block lists / delay files and ALL tables), then (section
`circuit`, Model/SdfCirc.lean) with the look-ups the real code performs over the named circuit dump `NNet` and the library's
pin table: `pinLook` (`circuit.cells.get`, `cell.ins[tlib.pin_index(kind, pin)]`) and `icLook` (both cells, pin indices, the
two warn exits, fork asserts, branch fork / sole reader / warn).

* **Theorem** (kernel-checked, this file): where every assignment of the two annotation loops lands
  (`iopath_lands`, `interconnect_lands`), that nothing else is touched (`others_zero_*`), the value conventions
  (`edge_qualified_*`, `unqualified`), the skip test of the INTERCONNECT loop: `icSkip_iff`, `icSkip_iff_all_zero`,
  `icSkip_false_iff` — an entry is skipped EXACTLY when all its values are zero, negative values included (repaired code, D34;
  `icSkipOld_drops_nonzero` = what the lexicographic `max(max(delvals)) == 0` of the tree before D34 dropped,
  `icSkipOld_eq_of_nonneg` = why it stayed unseen); the landing theorems take "the entry is not all-zero" (`hnz`) where they
  took the opaque `hskip : icSkip … = false` before (audit finding 3: strictly stronger, same names).
  What `start` keeps of a file: `Mode.merge` (repaired code) keeps every entry of every block (`none_lost`, `none_lost_mem`,
  `none_lost_top`, `regroup_split`, `none_lost_result`, end-to-end `iopath_lands_file`, `interconnect_lands_file`);
  `Mode.lastWins` (the `dict(...)` of the tree before D6) keeps only the last block of a name
  (`lastWins_keeps_last_only`), so the full statement is FALSE for it (`none_lost_false_lastWins`,
  `none_lost_top_false_lastWins`) and only `none_lost_partial` (pairwise different block names) holds.
  `interconnects` is PARTIAL: `none` = the real code raises `TypeError` because the file has no block without INSTANCE name
  (`interconnects_none_iff`); statements about its result have the form `(interconnects …).map (fun A => A d l ip op) = some v`.
* **Theorem, look-ups** (section `circuit`, audit finding 7): `pin_lookup_spec` — on a well-formed dump (`NNet.wf`, decidable, the
  predicate of C10) the IOPATH look-up answers `l` iff `l` is THE line whose reader is pin `pin_index(kind, pin)` of the cell of
  that name; `cell_lookup_spec`, `pin_lookup_skip`; `interconnect_lookup_spec` — the answered line enters pin 0 of the fork that
  drives the destination pin, that fork has one reader, and it is the signal fork itself (sole line) or a branch fork fed by the
  signal fork of the origin pin; `iopath_lands_lookup`, `interconnect_lands_lookup` — the landing theorems with the TABLES of
  these look-ups in place of free tables (the auditor's witness "a table that sends every pin to line 0" is no instance any more).
  REAL RESULT (second audit, item C14): the tables `pinLineOf` / `icLineOf` read `raise` and `skip` both as "no line", so the
  table-level arrays exist where the real call raises.  `iopath_lands_circuit`, `interconnect_lands_circuit` are therefore stated
  about `iopathsC` / `interconnectsC` (the functions the driver `sdfc` ties; `none` = the real call raises, no array at all):
  `iopathsC … = some A → A d l ip op = …`; `iopaths_raises_iff`, `interconnects_raises_iff` say exactly when there is no array;
  `pin_lookup_raise` (third outcome of `pinLook`, next to `pin_lookup_spec` / `pin_lookup_skip`), `interconnect_lookup_raise`,
  `interconnect_lookup_skip` (the outcomes of `icLook` in terms of the exits below).
  COMPLETENESS (Proofs/SdfCircComplete.lean): `interconnect_lookup_complete` — on a well-formed dump, whenever the place that
  description names exists, `icLook` answers it; `interconnect_lookup_iff` (`icLook … = .line l ↔ IcPlace … l`: exactly the
  entries that have a place land, none is lost silently), `interconnect_place_unique`, `interconnect_place_no_warn`.
  EVERY EXIT: `icLookX` = `icLook` with the two kinds of warning kept apart (`interconnect_exit_refines`, every dump);
  `interconnect_lookup_exits` — under `NNet.wf` and the decidable structural hypothesis `icStructOKB` (every fork has exactly one,
  connected, input pin; lines at pins of cells come from / go to forks) four iff's: answer `l` ⇔ one-reader fork `f2` at the
  destination and (a) it is the signal fork of the origin pin and `l` is the line leaving that pin, or (b) it is another fork
  whose input line `l` is driven by that signal fork; warn "No branchfork" ⇔ one fork between the pins, with fan-out; warn
  "No line to annotate pin" ⇔ an open pin; raise ⇔ a name does not resolve or the two forks differ and `f2` is not a one-reader
  branch of `f1`.  `interconnect_lookup_exits_any`: the same for every dump, in terms of the fork decision `icFork`.
  Array level: `interconnect_not_lost_circuit`, `interconnect_not_lost_circuitC` — an entry that is not all-zero and has a place
  stands in the result of `interconnects` (`interconnectsC`) on that line.
  Not proved: that `verilog.parse` builds dumps satisfying `NNet.wf` and `icStructOKB` (C11's subject) — both are evaluated by the
  check on the dump of EVERY parsed circuit (driver `sdfc … icx`, tags `c14-hyp:wf:*`, `c14-hyp:icStruct:*`; a generated
  well-formed netlist outside is a broken tie).
* **Lemmas, not property theorems** (Proofs/Sdf.lean, `rfl` restatements of definitions, formerly listed here):
  `triple_empty_fields`, `triple_unit`, `norm_full`, `sanitize_single`, `sanitize_pair`.
* **Theorem, text level** (section `text`, model `KV.SdfText` in Model/SdfText.lean = the grammar of `sdf.py` read as lark reads
  it: contextual scanner with the per-state terminal order of the real `Lark` object, keywords as prefixes, `ID` /
  `ID_OR_EDGE` tried before the ignored terminals, `_NOB`, balanced TIMINGCHECK skip; then `SdfFile.ok` = what
  `SdfTransformer` raises on): `sdf_text_roundtrip` — `parseSdf (printSdf f) = some f` for every tree with valid name
  tokens and number fields (`SdfFile.valid`); `sdf_text_roundtrip_tree` (grammar alone), `sdf_text_valid_ok`;
  `sdf_text_roundtrip_raw` — the same at the level of the block lists the theorems above are about (`SdfFile.toRaw` /
  `ofRaw`: numbers in thousandths printed as `[-]i.fff`, `sdf_text_number_roundtrip`).
* **Correspondence** (harness/c14.py, differential, not proof): (a) text level: the model reader (driver `sdfparse`) against the
  real lark grammar (parse tree, token texts verbatim) and the real `sdf.parse` (accept / raise) on every generated text, on
  hand-written corner cases and on mutated texts (one or two edits: character deleted / inserted / replaced, fragment
  inserted); the generated text must read back as the generator's block list; for accepted mutants the delay arrays of the
  post-parse model fed with the MODEL's block list equal the real arrays; (b) the post-parse model — in the mode that a probe
  of the real `sdf.parse` selects — against the real `sdf.parse(text).iopaths/.interconnects` on generated circuits and texts,
  twice: with tables exported from the real circuit by structural search (driver `sdf`), and with the concrete look-ups fed
  with the circuit dump and `tlib.cells` (driver `sdfc`, which also answers `NNet.wf` of the dump — the hypothesis of every
  look-up theorem — checked per case, tag `c14-hyp:sdfc-wf:*`): whole arrays, the raise of `interconnects()` on a file without
  top-level block, and PER ENTRY the line index (or warn / raise) that the real loop picks, observed by running each entry alone
  through the real `iopaths()` / `interconnects()`; and the EXIT per INTERCONNECT entry with the kind of warning read from
  kyupy's log (line / "No line to annotate pin" / "No branchfork" / raise) against `icLookX` (driver `sdfc … icx`, tags
  `c14-hyp:ic-exit:*`), incl. hand-written fan-out cases with and without branch forks, a connection the circuit does not
  have, a port as destination.
  What remains trusted at the text level: that lark implements the grammar as the hand-written reader does (LALR tables,
  `re` semantics of the terminals) — checked by (a), not proved; `float`, NumPy assignment and the Verilog reader are
  exercised, not modelled.
* **Oracle** (harness/c14.py): the generator's ground-truth array (it placed every value itself; negative IOPATH and
  INTERCONNECT values, all-zero entries and entries that are not all-zero although `max(max(delvals)) == 0` included) against
  the real result; this, not the model, decides violations (classes `interconnect-lexmax-skip` = D34, `repeated-cell-block` = D6,
  `sdf-annotation`).
* **Composition with C04/C03** (timing data path, from the SDF text to the WaveSim waveforms): Props/C14Wave.lean. -/
namespace KV.C14
open KV.Sdf

/-! ## values: qualifiers and the skip test
(the `rfl` restatements of the value conventions — `triple_empty_fields`, `triple_unit`, `norm_full`, `sanitize_single`,
`sanitize_pair` — are lemmas of Proofs/Sdf.lean, not property theorems: audit finding 7) -/
/-- `(posedge P)` selects input polarity 0 only and names pin `P` -/
theorem edge_qualified_pos (p : String) (h1 : p.toList ≠ []) (h2 : ')' ∉ p.toList) :
    polsOf ("(posedge " ++ p ++ ")") = [false] ∧ pinOf ("(posedge " ++ p ++ ")") = p :=
  edge_qualified _ _ false posPrefix_eq (Or.inl ⟨rfl, rfl⟩) p h1 h2

/-- `(negedge P)` selects input polarity 1 only and names pin `P` -/
theorem edge_qualified_neg (p : String) (h1 : p.toList ≠ []) (h2 : ')' ∉ p.toList) :
    polsOf ("(negedge " ++ p ++ ")") = [true] ∧ pinOf ("(negedge " ++ p ++ ")") = p :=
  edge_qualified _ _ true negPrefix_eq (Or.inr ⟨rfl, rfl⟩) p h1 h2

/-- an unqualified pin affects both input polarities -/
theorem unqualified (s : String) (h : s.toList.head? ≠ some '(') : polsOf s = [false, true] ∧ pinOf s = s := by
  have h1 := not_prefix_of_head posPrefix s.toList rfl h
  have h2 := not_prefix_of_head negPrefix s.toList rfl h
  constructor
  · unfold polsOf; rw [h1, h2]; rfl
  · unfold pinOf; simp [h1, h2]

example : polsOf "(posedge CLK)" = [false] ∧ pinOf "(posedge CLK)" = "CLK" := by decide +kernel
example : polsOf "(negedge RSTB)" = [true] ∧ pinOf "(negedge RSTB)" = "RSTB" := by decide +kernel
example : polsOf "A1" = [false, true] ∧ pinOf "A1" = "A1" := by decide +kernel
example : stripBackslash "u3\\[0\\]" = "u3[0]" ∧ splitSlash "u3\\[0\\]/A1" = ("u3\\[0\\]", some "A1")
    ∧ splitSlash "clk" = ("clk", none) := by decide +kernel

/-- the INTERCONNECT loop (repaired code, D34: `not any(any(d) for d in delvals)`) skips an entry exactly when all
its values are zero — for ALL value lists, negative values included -/
theorem icSkip_iff (r f : Triple) : icSkip r f = true ↔ (∀ v ∈ r, v = 0) ∧ (∀ v ∈ f, v = 0) := by
  simp [icSkip]

/-- … in the shape of the six values of an entry (no sign hypothesis any more) -/
theorem icSkip_iff_all_zero (a b c x y z : Int) :
    icSkip [a, b, c] [x, y, z] = true ↔ (a = 0 ∧ b = 0 ∧ c = 0 ∧ x = 0 ∧ y = 0 ∧ z = 0) := by
  simp [icSkip, and_assoc]

/-- an entry is kept exactly when one of its values is non-zero: the form the landing theorems use -/
theorem icSkip_false_iff (r f : Triple) : icSkip r f = false ↔ ∃ v ∈ r ++ f, v ≠ 0 := by
  have h := icSkip_iff r f
  rw [← Bool.not_eq_true, h]
  simp only [List.mem_append]
  constructor
  · intro hn
    apply Classical.byContradiction
    intro hc
    apply hn
    constructor
    · intro v hv; apply Classical.byContradiction; intro hv0; exact hc ⟨v, Or.inl hv, hv0⟩
    · intro v hv; apply Classical.byContradiction; intro hv0; exact hc ⟨v, Or.inr hv, hv0⟩
  · rintro ⟨v, hv | hv, h0⟩ ⟨h1, h2⟩
    · exact h0 (h1 v hv)
    · exact h0 (h2 v hv)

/-- negative delays are kept by the repaired test … -/
theorem icSkip_negative_kept : icSkip [0, 0, 0] [-1, -1, -1] = false ∧ icSkip [0, 0, 0] [-1, 5, 5] = false
    ∧ icSkip [-1, 0, -2] [-1, 0, -2] = false := by decide
/-- … whereas the test of the tree before D34 (`max(max(delvals)) == 0`, a lexicographic list maximum) dropped entries
that are not all-zero: the auditor's witness `(0:0:0) (-1:5:5)`, a single list `(-1:0:-2)`, a purely negative list -/
theorem icSkipOld_drops_nonzero : icSkipOld [0, 0, 0] [-1, 5, 5] = true ∧ icSkipOld [-1, 0, -2] [-1, 0, -2] = true
    ∧ icSkipOld [0, 0, 0] [-1, -1, -1] = true := by decide
/-- on non-negative values the two tests agree (why the defect stayed unseen) -/
theorem icSkipOld_eq_of_nonneg (a b c x y z : Int) (h : 0 ≤ a ∧ 0 ≤ b ∧ 0 ≤ c ∧ 0 ≤ x ∧ 0 ≤ y ∧ 0 ≤ z) :
    icSkipOld [a, b, c] [x, y, z] = icSkip [a, b, c] [x, y, z] := by
  obtain ⟨ha, hb, hc, hx, hy, hz⟩ := h
  have listMax3 : ∀ p q r : Int, 0 ≤ p → 0 ≤ q → 0 ≤ r → (listMax [p, q, r] = 0 ↔ p = 0 ∧ q = 0 ∧ r = 0) := by
    intro p q r hp hq hr
    simp only [listMax, List.foldl]
    omega
  rw [Bool.eq_iff_iff, icSkip_iff_all_zero]
  unfold icSkipOld lexMax
  simp only [beq_iff_eq]
  split
  · rename_i hlt
    rw [listMax3 x y z hx hy hz]
    simp only [lexLt] at hlt
    constructor
    · rintro ⟨rfl, rfl, rfl⟩
      repeat' split at hlt
      all_goals first | omega | cases hlt
    · rintro ⟨_, _, _, h1, h2, h3⟩; exact ⟨h1, h2, h3⟩
  · rename_i hlt
    rw [listMax3 a b c ha hb hc]
    simp only [lexLt] at hlt
    constructor
    · rintro ⟨rfl, rfl, rfl⟩
      repeat' split at hlt
      all_goals first | omega | simp at hlt
    · rintro ⟨h1, h2, h3, _⟩; exact ⟨h1, h2, h3⟩

/-! ## where the assignments land -/
/-- Each entry of a named block: its d-th value stands at `[d, line(inst, ipin), inpol, outpol]` for every input
polarity its qualifier selects, provided no later assignment of the loop covers the same (line, inpol).
`namedEntries df` is the sequence of (block name, entry) pairs in the order `iopaths` visits them. -/
theorem iopath_lands (pinLine : PinTable) (df : DelayFile) (pre post : List (String × Entry)) (n : String)
    (e : Entry) (l d : Nat) (ip op : Bool)
    (hsplit : namedEntries df = pre ++ (n, e) :: post)
    (hline : pinLine (stripBackslash n) (pinOf e.a) = some l)
    (hip : ip ∈ polsOf e.a) (hd : d < 3)
    (hpost : ∀ p ∈ post, ∀ w, ioWrite pinLine p.1 p.2 = some w → w.covers l ip = false) :
    iopaths pinLine df d l ip op = (norm (if op then e.f else e.r)).getD d 0 := by
  unfold iopaths iopathWrites applyAll
  rw [hsplit, List.filterMap_append, List.filterMap_cons]
  have hw : ioWrite pinLine n e = some ⟨l, polsOf e.a, norm e.r, norm e.f⟩ := by simp [ioWrite, hline]
  simp only [hw]
  rw [foldl_apply_lands]
  · cases op <;> simp [W.val]
  · simp [W.covers, hip]
  · exact hd
  · intro w' hw'
    rcases List.mem_filterMap.mp hw' with ⟨p, hp, hpw⟩
    exact hpost p hp w' hpw

/-- Each entry of the top-level block that is not all-zero (`hnz`: the exact condition under which the repaired loop
keeps it, `icSkip_false_iff`; an all-zero entry has nothing to annotate): its values stand at
`[d, icLine(orig, dest), both input polarities, outpol]`, provided no later assignment goes to the same line. -/
theorem interconnect_lands (icLine : IcTable) (df : DelayFile) (pre post : List Entry) (e : Entry)
    (l d : Nat) (ip op : Bool)
    (hsplit : icEntries df = some (pre ++ e :: post))
    (hnz : ∃ v ∈ norm e.r ++ norm e.f, v ≠ 0)
    (hline : icLine (stripBackslash (splitSlash e.a).1) (splitSlash e.a).2
                    (stripBackslash (splitSlash e.b).1) (splitSlash e.b).2 = some l)
    (hd : d < 3)
    (hpost : ∀ e' ∈ post, ∀ w, icWrite icLine e' = some w → w.line ≠ l) :
    (interconnects icLine df).map (fun A => A d l ip op) = some ((norm (if op then e.f else e.r)).getD d 0) := by
  have hskip := (icSkip_false_iff _ _).mpr hnz
  unfold interconnects icWritesOf applyAll
  rw [hsplit]
  simp only [Option.map_some, Option.some.injEq]
  rw [List.filterMap_append, List.filterMap_cons]
  have hw : icWrite icLine e = some ⟨l, [false, true], norm e.r, norm e.f⟩ := by
    simp [icWrite, hskip, hline]
  simp only [hw]
  rw [foldl_apply_lands]
  · cases op <;> simp [W.val]
  · cases ip <;> simp [W.covers]
  · exact hd
  · intro w' hw'
    rcases List.mem_filterMap.mp hw' with ⟨p, hp, hpw⟩
    have := hpost p hp w' hpw
    simp only [W.covers, Bool.and_eq_false_imp, beq_iff_eq]
    intro hl; exact absurd hl.symm this

/-- coordinates that no entry names stay 0 (IOPATH array) -/
theorem others_zero_iopaths (pinLine : PinTable) (df : DelayFile) (l d : Nat) (ip op : Bool)
    (h : ∀ p ∈ namedEntries df, ∀ w, ioWrite pinLine p.1 p.2 = some w → w.covers l ip = false) :
    iopaths pinLine df d l ip op = 0 := by
  unfold iopaths
  apply applyAll_zero_of_not_covered
  intro w hw
  rcases List.mem_filterMap.mp hw with ⟨p, hp, hpw⟩
  exact h p hp w hpw

/-- coordinates that no entry names stay 0 (INTERCONNECT array) -/
theorem others_zero_interconnects (icLine : IcTable) (df : DelayFile) (es : List Entry) (l d : Nat) (ip op : Bool)
    (hes : icEntries df = some es)
    (h : ∀ e ∈ es, ∀ w, icWrite icLine e = some w → w.line ≠ l) :
    (interconnects icLine df).map (fun A => A d l ip op) = some 0 := by
  unfold interconnects
  rw [hes]
  simp only [Option.map_some, Option.some.injEq]
  apply applyAll_zero_of_not_covered
  intro w hw
  rcases List.mem_filterMap.mp hw with ⟨p, hp, hpw⟩
  have := h p hp w hpw
  simp only [W.covers, Bool.and_eq_false_imp, beq_iff_eq]
  intro hl; exact absurd hl.symm this

/-- there are only three data sets -/
theorem others_zero_datasets (pinLine : PinTable) (icLine : IcTable) (df : DelayFile) (l d : Nat) (ip op : Bool)
    (hd : 3 ≤ d) : iopaths pinLine df d l ip op = 0 ∧ ∀ A, interconnects icLine df = some A → A d l ip op = 0 := by
  refine ⟨applyAll_high _ d l ip op hd, ?_⟩
  intro A hA
  unfold interconnects at hA
  rcases Option.map_eq_some_iff.mp hA with ⟨es, _, rfl⟩
  exact applyAll_high _ d l ip op hd

/-- a file without a block that has no INSTANCE name: `interconnects()` raises (`TypeError`: `for .. in None`) — the
model answers `none`, for both readings of `start`; with such a block it returns an array -/
theorem interconnects_none_iff (m : Mode) (icLine : IcTable) (B : List RawCell) :
    interconnects icLine (parse m B) = none ↔ ∀ c ∈ B, c.insts.head? ≠ none := by
  have key : icEntries (parse m B) = none ↔ ∀ c ∈ B, c.insts.head? ≠ none := by
    cases m with
    | merge =>
      rw [icEntries_merge]
      simp only [List.map_map, List.mem_map, Function.comp, cell, ite_eq_right_iff, reduceCtorEq, imp_false, not_exists, not_and]
    | lastWins =>
      rw [icEntries_lastWins]
      simp only [Option.map_eq_none_iff, List.find?_eq_none, List.mem_reverse, List.mem_map, beq_iff_eq, forall_exists_index, and_imp,
        forall_apply_eq_imp_iff₂, cell]
  unfold interconnects
  rw [Option.map_eq_none_iff]
  exact key

/-! ## none is lost: what `start` keeps of the file -/
/-- `none_lost` for the repaired `start` (`Mode.merge`): under every block name the dictionary holds exactly the
entries the file lists under that name, in file order — a function of the flat (name, entry) sequence `flatRaw B`
alone, i.e. independent of how the file groups entries into CELL blocks. -/
theorem none_lost (B : List RawCell) (k : Option String) :
    dictGet (start .merge B) k =
      if k ∈ (B.map cell).map (·.1) then some (((flatRaw B).filter (·.1 == k)).map (·.2)) else none := by
  rw [dictGet_start_merge, entriesOfKey_eq_flat]; rfl

/-- … hence every entry of every named block reaches the IOPATH loop (`Mode.merge`) … -/
theorem none_lost_mem (B : List RawCell) (c : RawCell) (n : String) (x : RawEntry)
    (hc : c ∈ B) (hn : c.insts.head? = some n) (hne : n ≠ "") (hx : x ∈ c.delays.flatten) :
    (n, sanitize x) ∈ namedEntries (parse .merge B) :=
  mem_namedEntries_merge B c n (sanitize x) hc hn hne (List.mem_map.mpr ⟨x, hx, rfl⟩)

/-- … and the INTERCONNECT loop sees all entries of all top-level blocks in file order (`Mode.merge`); without any
top-level block there is no list at all (the real code raises). -/
theorem none_lost_top (B : List RawCell) :
    icEntries (parse .merge B) =
      if none ∈ (B.map cell).map (·.1) then some (((flatRaw B).filter (·.1 == none)).map (·.2)) else none := by
  rw [icEntries_merge, entriesOfKey_eq_flat]; rfl

/-- nothing is invented (both modes): whatever the IOPATH loop sees stands in a block of that name -/
theorem nothing_invented (m : Mode) (B : List RawCell) (n : String) (e : Entry)
    (h : (n, e) ∈ namedEntries (parse m B)) :
    ∃ c ∈ B, c.insts.head? = some n ∧ ∃ x ∈ c.delays.flatten, e = sanitize x := by
  rcases mem_namedEntries_origin m B n e h with ⟨c, hc, hn, he⟩
  rcases List.mem_map.mp he with ⟨x, hx, rfl⟩
  exact ⟨c, hc, hn, x, hx, rfl⟩

/-- regrouping step (`Mode.merge`): splitting a CELL block into two adjacent blocks of the same instance changes
neither the parsed file nor, therefore, any annotation result -/
theorem regroup_split (B1 B2 : List RawCell) (insts : List String) (ds1 ds2 : List (List RawEntry)) :
    start .merge (B1 ++ ⟨insts, ds1 ++ ds2⟩ :: B2) = start .merge (B1 ++ ⟨insts, ds1⟩ :: ⟨insts, ds2⟩ :: B2) := by
  unfold start
  simp only [List.map_append, List.map_cons, List.foldl_append, List.foldl_cons]
  have h := dictPut_merge_split (List.foldl (dictPut .merge) [] (B1.map cell)) insts.head?
    (ds1.flatten.map sanitize) (ds2.flatten.map sanitize)
  simp only [cell, List.flatten_append, List.map_append]
  rw [← h]

/-- … so the two annotation results do not depend on that grouping either (`Mode.merge`) -/
theorem none_lost_result (pinLine : PinTable) (icLine : IcTable) (B1 B2 : List RawCell) (insts : List String)
    (ds1 ds2 : List (List RawEntry)) :
    iopaths pinLine (parse .merge (B1 ++ ⟨insts, ds1 ++ ds2⟩ :: B2))
      = iopaths pinLine (parse .merge (B1 ++ ⟨insts, ds1⟩ :: ⟨insts, ds2⟩ :: B2))
    ∧ interconnects icLine (parse .merge (B1 ++ ⟨insts, ds1 ++ ds2⟩ :: B2))
      = interconnects icLine (parse .merge (B1 ++ ⟨insts, ds1⟩ :: ⟨insts, ds2⟩ :: B2)) := by
  unfold parse
  rw [regroup_split]
  exact ⟨rfl, rfl⟩

/-- FULL statement, false on the current tree:
`∀ m B c n x, c ∈ B → c.insts.head? = some n → n ≠ "" → x ∈ c.delays.flatten → (n, sanitize x) ∈ namedEntries (parse m B)`.
Proved part, both modes: when all block names of the file differ, the dictionary is the block list itself, so every
entry is kept in file order. -/
theorem none_lost_partial (m : Mode) (B : List RawCell) (h : ((B.map cell).map (·.1)).Nodup) :
    start m B = B.map cell ∧ flatDict (start m B) = flatRaw B := by
  have : start m B = B.map cell := by
    unfold start
    rw [foldl_dictPut_nodup m (B.map cell) [] (by simpa [keys] using h)]
    simp
  exact ⟨this, by rw [this]; rfl⟩

/-- what the `dict(...)` of the current tree keeps: for every name the LAST block only -/
theorem lastWins_keeps_last_only (B : List RawCell) (k : Option String) :
    dictGet (start .lastWins B) k = ((B.map cell).reverse.find? (·.1 == k)).map (·.2) :=
  dictGet_start_lastWins B k

/-! ### the counterexample on the current tree
Two CELL blocks for instance `u1`: `(IOPATH A1 ZN (1:2:3))` in the first, `(IOPATH A2 ZN (4:5:6))` in the second;
`A1` is fed by line 5, `A2` by line 6. -/
def cexCells : List RawCell :=
  [⟨["u1"], [[⟨"A1", "ZN", [[some 1, some 2, some 3]]⟩]]⟩,
   ⟨["u1"], [[⟨"A2", "ZN", [[some 4, some 5, some 6]]⟩]]⟩]
def cexPins : PinTable := fun c p =>
  if c = "u1" ∧ p = "A1" then some 5 else if c = "u1" ∧ p = "A2" then some 6 else none

/-- `dict(...)` loses the first block: its entry never reaches the loop and line 5 stays 0 in every data set,
whereas the repaired `start` annotates 1, 2, 3. -/
theorem none_lost_false_lastWins :
    ("u1", sanitize ⟨"A1", "ZN", [[some 1, some 2, some 3]]⟩) ∉ namedEntries (parse .lastWins cexCells)
    ∧ (List.range 3).map (fun d => iopaths cexPins (parse .lastWins cexCells) d 5 false false) = [0, 0, 0]
    ∧ (List.range 3).map (fun d => iopaths cexPins (parse .merge cexCells) d 5 false false) = [1, 2, 3]
    ∧ (List.range 3).map (fun d => iopaths cexPins (parse .lastWins cexCells) d 6 true true) = [4, 5, 6] := by
  decide +kernel

/-- the same for two top-level INTERCONNECT blocks -/
def cexTop : List RawCell :=
  [⟨[], [[⟨"a", "u1/A1", [[some 1, some 1, some 1]]⟩]]⟩,
   ⟨[], [[⟨"b", "u1/A2", [[some 2, some 2, some 2]]⟩]]⟩]
def cexIc : IcTable := fun c1 _ c2 p2 =>
  if c1 = "a" ∧ c2 = "u1" ∧ p2 = some "A1" then some 3 else
  if c1 = "b" ∧ c2 = "u1" ∧ p2 = some "A2" then some 4 else none

theorem none_lost_top_false_lastWins :
    (icEntries (parse .lastWins cexTop)).map List.length = some 1 ∧ (icEntries (parse .merge cexTop)).map List.length = some 2
    ∧ (interconnects cexIc (parse .lastWins cexTop)).map (fun A => A 0 3 false false) = some 0
    ∧ (interconnects cexIc (parse .merge cexTop)).map (fun A => A 0 3 false false) = some 1
    ∧ (interconnects cexIc (parse .lastWins cexTop)).map (fun A => A 0 4 false false) = some 2 := by
  decide +kernel

/-! ## end to end, from the blocks of the file -/
/-- Repaired `start`: EVERY entry of EVERY named block of the file lands, whatever the grouping, as long as the
entries that cover the same (line, input polarity) agree on their values (the generator's regime: one entry per
coordinate; kyupy stores one delay per line by design). -/
theorem iopath_lands_file (pinLine : PinTable) (B : List RawCell) (c : RawCell) (n : String) (x : RawEntry)
    (l d : Nat) (ip op : Bool)
    (hc : c ∈ B) (hn : c.insts.head? = some n) (hne : n ≠ "") (hx : x ∈ c.delays.flatten)
    (hline : pinLine (stripBackslash n) (pinOf (sanitize x).a) = some l)
    (hip : ip ∈ polsOf (sanitize x).a) (hd : d < 3)
    (huniq : ∀ c' ∈ B, ∀ n', c'.insts.head? = some n' → ∀ x' ∈ c'.delays.flatten,
      pinLine (stripBackslash n') (pinOf (sanitize x').a) = some l → ip ∈ polsOf (sanitize x').a →
      norm (sanitize x').r = norm (sanitize x).r ∧ norm (sanitize x').f = norm (sanitize x).f) :
    iopaths pinLine (parse .merge B) d l ip op
      = (norm (if op then (sanitize x).f else (sanitize x).r)).getD d 0 := by
  unfold iopaths applyAll
  apply foldl_apply_agree _ _ _ _ _ _ _ hd
  · right
    refine ⟨⟨l, polsOf (sanitize x).a, norm (sanitize x).r, norm (sanitize x).f⟩, ?_, ?_⟩
    · unfold iopathWrites
      rw [List.mem_filterMap]
      exact ⟨(n, sanitize x), none_lost_mem B c n x hc hn hne hx, by simp [ioWrite, hline]⟩
    · simp [W.covers, hip]
  · intro w hw hcov
    unfold iopathWrites at hw
    rcases List.mem_filterMap.mp hw with ⟨⟨n', e'⟩, hmem, hw'⟩
    rcases nothing_invented .merge B n' e' hmem with ⟨c', hc', hn', x', hx', rfl⟩
    simp only [ioWrite, Option.map_eq_some_iff] at hw'
    rcases hw' with ⟨l', hl', rfl⟩
    simp only [W.covers, Bool.and_eq_true, beq_iff_eq, List.contains_iff_mem] at hcov
    rcases hcov with ⟨rfl, hip'⟩
    have := huniq c' hc' n' hn' x' hx' hl' hip'
    cases op <;> simp [W.val, this.1, this.2]

/-- Current tree: the same holds for the entries of a block that is the LAST one of its instance name. -/
theorem iopath_lands_file_lastWins (pinLine : PinTable) (B1 B2 : List RawCell) (c : RawCell) (n : String)
    (x : RawEntry) (l d : Nat) (ip op : Bool)
    (hn : c.insts.head? = some n) (hne : n ≠ "") (hx : x ∈ c.delays.flatten)
    (hlast : ∀ c' ∈ B2, c'.insts.head? ≠ some n)
    (hline : pinLine (stripBackslash n) (pinOf (sanitize x).a) = some l)
    (hip : ip ∈ polsOf (sanitize x).a) (hd : d < 3)
    (huniq : ∀ c' ∈ B1 ++ c :: B2, ∀ n', c'.insts.head? = some n' → ∀ x' ∈ c'.delays.flatten,
      pinLine (stripBackslash n') (pinOf (sanitize x').a) = some l → ip ∈ polsOf (sanitize x').a →
      norm (sanitize x').r = norm (sanitize x).r ∧ norm (sanitize x').f = norm (sanitize x).f) :
    iopaths pinLine (parse .lastWins (B1 ++ c :: B2)) d l ip op
      = (norm (if op then (sanitize x).f else (sanitize x).r)).getD d 0 := by
  unfold iopaths applyAll
  apply foldl_apply_agree _ _ _ _ _ _ _ hd
  · right
    refine ⟨⟨l, polsOf (sanitize x).a, norm (sanitize x).r, norm (sanitize x).f⟩, ?_, ?_⟩
    · unfold iopathWrites
      rw [List.mem_filterMap]
      exact ⟨(n, sanitize x),
        mem_namedEntries_lastWins B1 B2 c n (sanitize x) hn hne (List.mem_map.mpr ⟨x, hx, rfl⟩) hlast,
        by simp [ioWrite, hline]⟩
    · simp [W.covers, hip]
  · intro w hw hcov
    unfold iopathWrites at hw
    rcases List.mem_filterMap.mp hw with ⟨⟨n', e'⟩, hmem, hw'⟩
    rcases nothing_invented .lastWins _ n' e' hmem with ⟨c', hc', hn', x', hx', rfl⟩
    simp only [ioWrite, Option.map_eq_some_iff] at hw'
    rcases hw' with ⟨l', hl', rfl⟩
    simp only [W.covers, Bool.and_eq_true, beq_iff_eq, List.contains_iff_mem] at hcov
    rcases hcov with ⟨rfl, hip'⟩
    have := huniq c' hc' n' hn' x' hx' hl' hip'
    cases op <;> simp [W.val, this.1, this.2]

/-- Repaired `start`: every INTERCONNECT entry of every top-level block that is not all-zero lands on its
fork line, for both input polarities, as long as the entries going to the same line agree on their values. -/
theorem interconnect_lands_file (icLine : IcTable) (B : List RawCell) (c : RawCell) (x : RawEntry)
    (l d : Nat) (ip op : Bool)
    (hc : c ∈ B) (hn : c.insts.head? = none) (hx : x ∈ c.delays.flatten)
    (hnz : ∃ v ∈ norm (sanitize x).r ++ norm (sanitize x).f, v ≠ 0)
    (hline : icLine (stripBackslash (splitSlash (sanitize x).a).1) (splitSlash (sanitize x).a).2
                    (stripBackslash (splitSlash (sanitize x).b).1) (splitSlash (sanitize x).b).2 = some l)
    (hd : d < 3)
    (huniq : ∀ c' ∈ B, c'.insts.head? = none → ∀ x' ∈ c'.delays.flatten,
      ∀ w, icWrite icLine (sanitize x') = some w → w.line = l →
      norm (sanitize x').r = norm (sanitize x).r ∧ norm (sanitize x').f = norm (sanitize x).f) :
    (interconnects icLine (parse .merge B)).map (fun A => A d l ip op)
      = some ((norm (if op then (sanitize x).f else (sanitize x).r)).getD d 0) := by
  have hskip := (icSkip_false_iff _ _).mpr hnz
  have htop : none ∈ (B.map cell).map (·.1) := by
    simp only [List.map_map, List.mem_map, Function.comp, cell]
    exact ⟨c, hc, hn⟩
  unfold interconnects
  rw [icEntries_merge, if_pos htop]
  simp only [Option.map_some, Option.some.injEq]
  unfold applyAll
  have hmemAll : ∀ e, e ∈ entriesOfKey (B.map cell) none ↔
      ∃ c' ∈ B, c'.insts.head? = none ∧ ∃ x' ∈ c'.delays.flatten, e = sanitize x' := by
    intro e
    rw [mem_entriesOfKey]
    constructor
    · rintro ⟨p, hp, hk, he⟩
      rcases List.mem_map.mp hp with ⟨c', hc', rfl⟩
      rcases List.mem_map.mp he with ⟨x', hx', rfl⟩
      exact ⟨c', hc', hk, x', hx', rfl⟩
    · rintro ⟨c', hc', hk, x', hx', rfl⟩
      exact ⟨cell c', List.mem_map.mpr ⟨c', hc', rfl⟩, hk, List.mem_map.mpr ⟨x', hx', rfl⟩⟩
  apply foldl_apply_agree _ _ _ _ _ _ _ hd
  · right
    refine ⟨⟨l, [false, true], norm (sanitize x).r, norm (sanitize x).f⟩, ?_, ?_⟩
    · unfold icWritesOf
      rw [List.mem_filterMap]
      exact ⟨sanitize x, (hmemAll _).mpr ⟨c, hc, hn, x, hx, rfl⟩, by simp [icWrite, hskip, hline]⟩
    · cases ip <;> simp [W.covers]
  · intro w hw hcov
    unfold icWritesOf at hw
    rcases List.mem_filterMap.mp hw with ⟨e', hmem, hw'⟩
    rcases (hmemAll e').mp hmem with ⟨c', hc', hk', x', hx', rfl⟩
    simp only [W.covers, Bool.and_eq_true, beq_iff_eq] at hcov
    have := huniq c' hc' hk' x' hx' w hw' hcov.1.symm
    have hwv : w.r = norm (sanitize x').r ∧ w.f = norm (sanitize x').f := by
      unfold icWrite at hw'
      simp only at hw'
      split at hw'
      · cases hw'
      · simp only [Option.map_eq_some_iff] at hw'
        rcases hw' with ⟨_, _, rfl⟩
        exact ⟨rfl, rfl⟩
    cases op <;> simp [W.val, hwv.1, hwv.2, this.1, this.2]

/-! ## non-vacuity: a file with a repeated block, qualifiers, `()`, an escaped name and two top-level blocks -/
def exCells : List RawCell :=
  [⟨[], [[⟨"a", "u\\3\\[0\\]/A1", [[some 7, none, none]]⟩]]⟩,
   ⟨["u\\3\\[0\\]"], [[⟨"(posedge A1)", "ZN", [[some 1, some 2, some 3], []]⟩],
                       [⟨"(negedge A1)", "ZN", [[none, none, some 9]]⟩]]⟩,
   ⟨["u2"], [[⟨"I", "ZN", [[some 4, some 5, some 6], [some 1, some 1, some 1]]⟩]]⟩,
   ⟨["u\\3\\[0\\]"], [[⟨"A2", "ZN", [[], [some 8, some 8, some 8]]⟩]]⟩,
   ⟨[], [[⟨"u\\3\\[0\\]/ZN", "u2/I", [[some 2, some 2, some 2], [some 3, some 3, some 3]]⟩]]⟩]
def exPins : PinTable := fun c p =>
  if c = "u3[0]" ∧ p = "A1" then some 5 else if c = "u3[0]" ∧ p = "A2" then some 6
  else if c = "u2" ∧ p = "I" then some 7 else none
def exIc : IcTable := fun c1 p1 c2 p2 =>
  if c1 = "a" ∧ p1 = none ∧ c2 = "u3[0]" ∧ p2 = some "A1" then some 3
  else if c1 = "u3[0]" ∧ p1 = some "ZN" ∧ c2 = "u2" ∧ p2 = some "I" then some 9 else none

example : exCells.all RawCell.ok = true := by decide +kernel
/-- repaired `start`: all seven IOPATH coordinates groups and both interconnects are there -/
example :
    (List.range 3).map (fun d => iopaths exPins (parse .merge exCells) d 5 false false) = [1, 2, 3]
    ∧ (List.range 3).map (fun d => iopaths exPins (parse .merge exCells) d 5 false true) = [0, 0, 0]
    ∧ (List.range 3).map (fun d => iopaths exPins (parse .merge exCells) d 5 true true) = [0, 0, 9]
    ∧ (List.range 3).map (fun d => iopaths exPins (parse .merge exCells) d 6 true true) = [8, 8, 8]
    ∧ (List.range 3).map (fun d => iopaths exPins (parse .merge exCells) d 6 false false) = [0, 0, 0]
    ∧ (List.range 3).map (fun d => iopaths exPins (parse .merge exCells) d 7 true false) = [4, 5, 6]
    ∧ (interconnects exIc (parse .merge exCells)).map (fun A => (List.range 3).map (fun d => A d 3 true true)) = some [7, 0, 0]
    ∧ (interconnects exIc (parse .merge exCells)).map (fun A => (List.range 3).map (fun d => A d 9 false true)) = some [3, 3, 3] := by
  decide +kernel
/-- current tree on the same file: the first block of `u3[0]` and the first top-level block are gone -/
example :
    (List.range 3).map (fun d => iopaths exPins (parse .lastWins exCells) d 5 false false) = [0, 0, 0]
    ∧ (List.range 3).map (fun d => iopaths exPins (parse .lastWins exCells) d 6 true true) = [8, 8, 8]
    ∧ (interconnects exIc (parse .lastWins exCells)).map (fun A => (List.range 3).map (fun d => A d 3 true true)) = some [0, 0, 0] := by
  decide +kernel
/-- the hypotheses of `iopath_lands_file` are satisfiable by a non-trivial object (first block of the repeated
instance, posedge entry, data set 1) -/
example : iopaths exPins (parse .merge exCells) 1 5 false false = 2 :=
  iopath_lands_file exPins exCells (exCells[1]) "u\\3\\[0\\]" ⟨"(posedge A1)", "ZN", [[some 1, some 2, some 3], []]⟩
    5 1 false false (by decide +kernel) (by decide +kernel) (by decide +kernel) (by decide +kernel)
    (by decide +kernel) (by decide +kernel) (by decide) (by decide +kernel)
/-- `none_lost_partial` has non-trivial instances -/
example : ((([exCells[0], exCells[1], exCells[2]] : List RawCell).map cell).map (·.1)).Nodup := by decide +kernel

/-! ## the look-ups as the real code performs them, over the circuit dump (audit finding 7; Model/SdfCirc.lean) -/
section circuit
open KV.Transform

/-- IOPATH look-up = "the line whose reader is pin `tlib.pin_index(kind, pin)` of the cell of that name": on a well-formed
circuit dump `pinLook` answers `l` exactly for that line (unique: a pin holds one line). -/
theorem pin_lookup_spec (C : NNet) (hwf : C.wf = true) (tl : PinIdx) (name pin : String) (l : Nat) :
    pinLook C tl name pin = .line l ↔
      ∃ i idx, cellOf C name = some i ∧ tl (C.net.node i).kind pin = some idx ∧
        l < C.net.lines.size ∧ (C.net.line l).reader = i ∧ (C.net.line l).rpin = idx :=
  pinLook_line_iff C (WF.of_wf hwf) tl name pin l

/-- the cell found under a name is a non-fork node of that name, and every such node is found (well-formed dump) -/
theorem cell_lookup_spec (C : NNet) (hwf : C.wf = true) (name : String) (i : Nat) :
    cellOf C name = some i ↔ i < C.net.nodes.size ∧ C.names.getD i "" = name ∧ (C.net.node i).isFork = false :=
  ⟨cellOf_spec, fun h => cellOf_complete (WF.of_wf hwf) h.1 h.2.1 h.2.2⟩

/-- the IOPATH loop warns and skips exactly when the cell is unknown or the named pin is open -/
theorem pin_lookup_skip (C : NNet) (tl : PinIdx) (name pin : String) :
    pinLook C tl name pin = .skip ↔
      cellOf C name = none ∨ ∃ i idx, cellOf C name = some i ∧ tl (C.net.node i).kind pin = some idx ∧
        idx < (C.net.node i).ins.length ∧ (C.net.node i).inPin idx = none :=
  pinLook_skip_iff C tl name pin

/-- INTERCONNECT look-up (soundness): the answered line enters pin 0 of the fork `f2` that drives the named input pin of `c2`,
`f2` has one reader, the line leaving the named output pin of `c1` enters a fork `f1`, and either `f1 = f2` (sole line, no
fan-out) or `f2` is a branch fork fed by `f1`. -/
theorem interconnect_lookup_spec (C : NNet) (hwf : C.wf = true) (tl : PinIdx) (c1 : String) (p1 : Option String) (c2 : String)
    (p2 : Option String) (l : Nat) (h : icLook C tl c1 p1 c2 p2 = .line l) :
    ∃ i1 i2 q1 q2 lo li, cellOf C c1 = some i1 ∧ cellOf C c2 = some i2 ∧
      endPin tl (C.net.node i1).kind p1 = some q1 ∧ endPin tl (C.net.node i2).kind p2 = some q2 ∧
      (C.net.node i1).outPin q1 = some lo ∧ (C.net.node i2).inPin q2 = some li ∧
      (C.net.node (C.net.line lo).reader).isFork = true ∧ (C.net.node (C.net.line li).driver).isFork = true ∧
      (C.net.node (C.net.line li).driver).outs.length = 1 ∧
      l < C.net.lines.size ∧ (C.net.line l).reader = (C.net.line li).driver ∧ (C.net.line l).rpin = 0 ∧
      ((C.net.line lo).reader = (C.net.line li).driver ∨
       ((C.net.line lo).reader ≠ (C.net.line li).driver ∧ (C.net.line l).driver = (C.net.line lo).reader)) :=
  icLook_line_spec C (WF.of_wf hwf) tl c1 p1 c2 p2 l h

/-- `iopath_lands` with the TABLE of the look-up the real code performs (`pinLineOf`: `raise` and `skip` both read as "no line"):
the values of the entry stand on THE line that feeds pin `tlib.pin_index(kind, pin)` of the instance (`hcell`, `hpin`, `hreader`:
the declarative description of that line).  This array is defined also where the real call raises (second audit, C14): the
statement about the REAL result is `iopath_lands_circuit` below. -/
theorem iopath_lands_lookup (C : NNet) (hwf : C.wf = true) (tl : PinIdx) (df : DelayFile) (pre post : List (String × Entry))
    (n : String) (e : Entry) (i idx l d : Nat) (ip op : Bool)
    (hsplit : namedEntries df = pre ++ (n, e) :: post)
    (hcell : cellOf C (stripBackslash n) = some i) (hpin : tl (C.net.node i).kind (pinOf e.a) = some idx)
    (hl : l < C.net.lines.size) (hreader : (C.net.line l).reader = i ∧ (C.net.line l).rpin = idx)
    (hip : ip ∈ polsOf e.a) (hd : d < 3)
    (hpost : ∀ p ∈ post, ∀ w, ioWrite (pinLineOf C tl) p.1 p.2 = some w → w.covers l ip = false) :
    iopaths (pinLineOf C tl) df d l ip op = (norm (if op then e.f else e.r)).getD d 0 := by
  apply iopath_lands (pinLineOf C tl) df pre post n e l d ip op hsplit _ hip hd hpost
  have := (pin_lookup_spec C hwf tl (stripBackslash n) (pinOf e.a) l).mpr ⟨i, idx, hcell, hpin, hl, hreader.1, hreader.2⟩
  simp [pinLineOf, this, Look.toOpt]

/-- `interconnect_lands` with the TABLE of the look-up the real code performs (`icLineOf` of `icLookE`: names split at `/`,
backslashes removed, the fork decision of `icLook`, described by `interconnect_lookup_spec`; `raise` and `skip` both read as
"no line").  The statement about the REAL result (no array when a look-up raises) is `interconnect_lands_circuit` below. -/
theorem interconnect_lands_lookup (C : NNet) (tl : PinIdx) (df : DelayFile) (pre post : List Entry) (e : Entry)
    (l d : Nat) (ip op : Bool)
    (hsplit : icEntries df = some (pre ++ e :: post))
    (hnz : ∃ v ∈ norm e.r ++ norm e.f, v ≠ 0)
    (hlook : icLookE C tl e = .line l) (hd : d < 3)
    (hpost : ∀ e' ∈ post, ∀ w, icWrite (icLineOf C tl) e' = some w → w.line ≠ l) :
    (interconnects (icLineOf C tl) df).map (fun A => A d l ip op) = some ((norm (if op then e.f else e.r)).getD d 0) := by
  apply interconnect_lands (icLineOf C tl) df pre post e l d ip op hsplit hnz _ hd hpost
  unfold icLookE at hlook
  simp only at hlook
  simp [icLineOf, hlook, Look.toOpt]

/-! ### the result of the REAL calls: `iopathsC` / `interconnectsC` (`none` = the call raises; second audit, item C14) -/

/-- IOPATH look-up, third outcome: it RAISES exactly when the cell exists and the pin name is not in the library
(`AssertionError` of `pin_index`) or its index lies beyond `cell.ins` (`IndexError`).  With `pin_lookup_spec` (answer) and
`pin_lookup_skip` (warn) every exit of `pinLook` is characterised. -/
theorem pin_lookup_raise (C : NNet) (tl : PinIdx) (name pin : String) :
    pinLook C tl name pin = .raise ↔
      ∃ i, cellOf C name = some i ∧
        (tl (C.net.node i).kind pin = none ∨ ∃ idx, tl (C.net.node i).kind pin = some idx ∧ (C.net.node i).ins.length ≤ idx) :=
  pinLook_raise_iff C tl name pin

/-- `iopaths(circuit, tlib)` raises (no array at all) exactly when the look-up of SOME entry of the file raises -/
theorem iopaths_raises_iff (C : NNet) (tl : PinIdx) (df : DelayFile) :
    iopathsC C tl df = none ↔ ∃ p ∈ namedEntries df, ioLook C tl p.1 p.2 = .raise :=
  iopathsC_none_iff C tl df

/-- `interconnects(circuit, tlib)` raises exactly when the file has no top-level block, or an entry that is not all-zero
(`icSkip_false_iff`) has a name with two `/` or a look-up that raises (`interconnect_lookup_exits`: which ones) -/
theorem interconnects_raises_iff (C : NNet) (tl : PinIdx) (df : DelayFile) :
    interconnectsC C tl df = none ↔
      icEntries df = none ∨ ∃ es, icEntries df = some es ∧ ∃ e ∈ es, icSkip (norm e.r) (norm e.f) = false ∧
        (slashOK e.a = false ∨ slashOK e.b = false ∨ icLookE C tl e = .raise) :=
  interconnectsC_none_iff C tl df

/-- **IOPATH landing, real result**: WHEN `iopaths(circuit, tlib)` returns an array `A` (`iopathsC … = some A`: no look-up of the
file raises), the values of the entry stand in `A` on THE line that feeds pin `tlib.pin_index(kind, pin)` of the instance.
Where the real call raises there is no array and the theorem says nothing (the auditor's witness — a block with a second
entry for a pin `Q` that does not exist — is no instance any more: `hA` fails there). -/
theorem iopath_lands_circuit (C : NNet) (hwf : C.wf = true) (tl : PinIdx) (df : DelayFile) (A : Arr)
    (hA : iopathsC C tl df = some A) (pre post : List (String × Entry))
    (n : String) (e : Entry) (i idx l d : Nat) (ip op : Bool)
    (hsplit : namedEntries df = pre ++ (n, e) :: post)
    (hcell : cellOf C (stripBackslash n) = some i) (hpin : tl (C.net.node i).kind (pinOf e.a) = some idx)
    (hl : l < C.net.lines.size) (hreader : (C.net.line l).reader = i ∧ (C.net.line l).rpin = idx)
    (hip : ip ∈ polsOf e.a) (hd : d < 3)
    (hpost : ∀ p ∈ post, ∀ w, ioWrite (pinLineOf C tl) p.1 p.2 = some w → w.covers l ip = false) :
    A d l ip op = (norm (if op then e.f else e.r)).getD d 0 := by
  rw [iopathsC_eq hA]
  exact iopath_lands_lookup C hwf tl df pre post n e i idx l d ip op hsplit hcell hpin hl hreader hip hd hpost

/-- **INTERCONNECT landing, real result**: WHEN `interconnects(circuit, tlib)` returns an array `A` (`interconnectsC … = some A`:
top-level block present, no kept entry with two `/`, no look-up of a kept entry raises), the values of an entry that is not
all-zero and whose look-up answers `l` stand in `A` on line `l`. -/
theorem interconnect_lands_circuit (C : NNet) (tl : PinIdx) (df : DelayFile) (A : Arr)
    (hA : interconnectsC C tl df = some A) (pre post : List Entry) (e : Entry)
    (l d : Nat) (ip op : Bool)
    (hsplit : icEntries df = some (pre ++ e :: post))
    (hnz : ∃ v ∈ norm e.r ++ norm e.f, v ≠ 0)
    (hlook : icLookE C tl e = .line l) (hd : d < 3)
    (hpost : ∀ e' ∈ post, ∀ w, icWrite (icLineOf C tl) e' = some w → w.line ≠ l) :
    A d l ip op = (norm (if op then e.f else e.r)).getD d 0 := by
  have h := interconnect_lands_lookup C tl df pre post e l d ip op hsplit hnz hlook hd hpost
  rw [interconnectsC_eq hA] at h
  simpa using h

/-! ### completeness of the INTERCONNECT look-up and every exit (audit finding 7, open item) -/

/-- INTERCONNECT look-up (COMPLETENESS): on a well-formed dump, whenever the place the declarative description of
`interconnect_lookup_spec` names exists — both ends resolve, `lo` leaves the origin pin and enters fork `f1`, `li` enters the
destination pin and leaves fork `f2`, `f2` has one reader, `l` enters pin 0 of `f2`, and `f1 = f2` (sole line) or `l` is driven by
`f1` (branch fork) — the look-up answers `l`: no entry that has a place is warned about, skipped or raised on. -/
theorem interconnect_lookup_complete (C : NNet) (hwf : C.wf = true) (tl : PinIdx) (c1 : String) (p1 : Option String) (c2 : String)
    (p2 : Option String) (l : Nat)
    (h : ∃ i1 i2 q1 q2 lo li, cellOf C c1 = some i1 ∧ cellOf C c2 = some i2 ∧
      endPin tl (C.net.node i1).kind p1 = some q1 ∧ endPin tl (C.net.node i2).kind p2 = some q2 ∧
      (C.net.node i1).outPin q1 = some lo ∧ (C.net.node i2).inPin q2 = some li ∧
      (C.net.node (C.net.line lo).reader).isFork = true ∧ (C.net.node (C.net.line li).driver).isFork = true ∧
      (C.net.node (C.net.line li).driver).outs.length = 1 ∧
      l < C.net.lines.size ∧ (C.net.line l).reader = (C.net.line li).driver ∧ (C.net.line l).rpin = 0 ∧
      ((C.net.line lo).reader = (C.net.line li).driver ∨
       ((C.net.line lo).reader ≠ (C.net.line li).driver ∧ (C.net.line l).driver = (C.net.line lo).reader))) :
    icLook C tl c1 p1 c2 p2 = .line l :=
  icLook_complete C (WF.of_wf hwf) tl c1 p1 c2 p2 l h

/-- soundness and completeness together (`IcPlace` = the description above, Proofs/SdfCircComplete.lean): the look-up answers
`l` EXACTLY when `l` is the place of the entry; and the place is unique -/
theorem interconnect_lookup_iff (C : NNet) (hwf : C.wf = true) (tl : PinIdx) (c1 : String) (p1 : Option String) (c2 : String)
    (p2 : Option String) (l : Nat) : icLook C tl c1 p1 c2 p2 = .line l ↔ IcPlace C tl c1 p1 c2 p2 l :=
  icLook_line_iff C (WF.of_wf hwf) tl c1 p1 c2 p2 l

theorem interconnect_place_unique (C : NNet) (hwf : C.wf = true) (tl : PinIdx) (c1 : String) (p1 : Option String) (c2 : String)
    (p2 : Option String) (l l' : Nat) (h : IcPlace C tl c1 p1 c2 p2 l) (h' : IcPlace C tl c1 p1 c2 p2 l') : l = l' :=
  IcPlace.unique (WF.of_wf hwf) h h'

/-- `icLookX` = the look-up with the two kinds of warning kept apart (`warnPin`: "No line to annotate pin", `warnNoBranch`:
"No branchfork to annotate interconnect delay"); forgetting the kind gives `icLook`, for every dump -/
theorem interconnect_exit_refines (C : NNet) (tl : PinIdx) (c1 : String) (p1 : Option String) (c2 : String) (p2 : Option String) :
    (icLookX C tl c1 p1 c2 p2).toLook = icLook C tl c1 p1 c2 p2 :=
  icLookX_toLook C tl c1 p1 c2 p2

/-- **Every exit of the INTERCONNECT look-up** on a well-formed dump with the structure `verilog.parse` builds (`icStructOKB`,
decidable: every fork has exactly one, connected, input pin; lines at pins of cells come from / go to forks; evaluated by the
check on every parsed circuit, tag `c14-hyp:icStruct:*`).  With `IcEnds … i1 q1 i2 q2` = "both cell names are in `circuit.cells`
(nodes `i1`, `i2`) and both pin names are in the library (indices `q1`, `q2`; 0 for a name without `/pin`)", `lo` = the line at
output pin `q1` of `i1`, `li` = the line at input pin `q2` of `i2`, `f1` = reader of `lo`, `f2` = driver of `li`:
* **answer `l`** ⇔ `f2` has one reader and (a) `f1 = f2` and `l = lo` (the signal fork of the origin pin feeds the destination
  pin alone) or (b) `f1 ≠ f2`, `l` is THE input line of `f2` and is driven by `f1` (branch fork of the signal fork);
* **warn "No branchfork"** ⇔ both pins connected, `f1 = f2`, and `f2` does not have exactly one reader slot (fan-out);
* **warn "No line to annotate pin"** ⇔ both ends resolve and one of the two pins is open;
* **raise** ⇔ an end does not resolve (`KeyError` / `AssertionError` of `pin_index`), or both pins are connected, `f1 ≠ f2`, and
  `f2` is not a one-reader fork whose input line is driven by `f1` (the file names a connection the circuit does not have).
The four right-hand sides are exhaustive and exclusive because they describe the value of one function. -/
theorem interconnect_lookup_exits (C : NNet) (hwf : C.wf = true) (hst : icStructOKB C = true) (tl : PinIdx) (c1 : String)
    (p1 : Option String) (c2 : String) (p2 : Option String) :
    (∀ l, icLookX C tl c1 p1 c2 p2 = .line l ↔
      ∃ i1 q1 i2 q2 lo li, IcEnds C tl c1 p1 c2 p2 i1 q1 i2 q2 ∧
        (C.net.node i1).outPin q1 = some lo ∧ (C.net.node i2).inPin q2 = some li ∧
        (C.net.node (C.net.line li).driver).outs.length = 1 ∧
        (((C.net.line lo).reader = (C.net.line li).driver ∧ l = lo) ∨
         ((C.net.line lo).reader ≠ (C.net.line li).driver ∧ FeedsFork C l (C.net.line li).driver ∧
            (C.net.line l).driver = (C.net.line lo).reader))) ∧
    (icLookX C tl c1 p1 c2 p2 = .warnNoBranch ↔
      ∃ i1 q1 i2 q2 lo li, IcEnds C tl c1 p1 c2 p2 i1 q1 i2 q2 ∧
        (C.net.node i1).outPin q1 = some lo ∧ (C.net.node i2).inPin q2 = some li ∧
        (C.net.line lo).reader = (C.net.line li).driver ∧ (C.net.node (C.net.line li).driver).outs.length ≠ 1) ∧
    (icLookX C tl c1 p1 c2 p2 = .warnPin ↔
      ∃ i1 q1 i2 q2, IcEnds C tl c1 p1 c2 p2 i1 q1 i2 q2 ∧
        ((C.net.node i1).outPin q1 = none ∨ (C.net.node i2).inPin q2 = none)) ∧
    (icLookX C tl c1 p1 c2 p2 = .raise ↔
      IcUnresolved C tl c1 p1 c2 p2 ∨
      ∃ i1 q1 i2 q2 lo li, IcEnds C tl c1 p1 c2 p2 i1 q1 i2 q2 ∧
        (C.net.node i1).outPin q1 = some lo ∧ (C.net.node i2).inPin q2 = some li ∧
        (C.net.line lo).reader ≠ (C.net.line li).driver ∧
        ¬ ((C.net.node (C.net.line li).driver).outs.length = 1 ∧
            ∃ l, FeedsFork C l (C.net.line li).driver ∧ (C.net.line l).driver = (C.net.line lo).reader)) :=
  ⟨icLookX_line_struct C (WF.of_wf hwf) hst tl c1 p1 c2 p2, icLookX_noBranch_struct C (WF.of_wf hwf) hst tl c1 p1 c2 p2,
   icLookX_warnPin_iff C tl c1 p1 c2 p2, icLookX_raise_struct C (WF.of_wf hwf) hst tl c1 p1 c2 p2⟩

/-- the raise exit at the level of `icLook` (the three outcomes answer / skip / raise of `Look`): same condition -/
theorem interconnect_lookup_raise (C : NNet) (hwf : C.wf = true) (hst : icStructOKB C = true) (tl : PinIdx) (c1 : String)
    (p1 : Option String) (c2 : String) (p2 : Option String) :
    icLook C tl c1 p1 c2 p2 = .raise ↔
      IcUnresolved C tl c1 p1 c2 p2 ∨
      ∃ i1 q1 i2 q2 lo li, IcEnds C tl c1 p1 c2 p2 i1 q1 i2 q2 ∧
        (C.net.node i1).outPin q1 = some lo ∧ (C.net.node i2).inPin q2 = some li ∧
        (C.net.line lo).reader ≠ (C.net.line li).driver ∧
        ¬ ((C.net.node (C.net.line li).driver).outs.length = 1 ∧
            ∃ l, FeedsFork C l (C.net.line li).driver ∧ (C.net.line l).driver = (C.net.line lo).reader) := by
  rw [← icLookX_raise_iff_look]
  exact (interconnect_lookup_exits C hwf hst tl c1 p1 c2 p2).2.2.2

/-- … and the skip of `icLook` is one of the two warnings -/
theorem interconnect_lookup_skip (C : NNet) (tl : PinIdx) (c1 : String) (p1 : Option String) (c2 : String) (p2 : Option String) :
    icLook C tl c1 p1 c2 p2 = .skip ↔ icLookX C tl c1 p1 c2 p2 = .warnPin ∨ icLookX C tl c1 p1 c2 p2 = .warnNoBranch :=
  icLookX_skip_iff_look C tl c1 p1 c2 p2

/-- the exits WITHOUT the structural hypothesis (every dump, in terms of the fork decision `icFork` of the two lines): what
`icStructOKB` removes from the list are the raises "a neighbour of a cell is not a fork" and "the fork has no first input". -/
theorem interconnect_lookup_exits_any (C : NNet) (tl : PinIdx) (c1 : String) (p1 : Option String) (c2 : String) (p2 : Option String) :
    (∀ x, x ≠ IcExit.raise → x ≠ IcExit.warnPin → (icLookX C tl c1 p1 c2 p2 = x ↔
      ∃ i1 q1 i2 q2 lo li, IcEnds C tl c1 p1 c2 p2 i1 q1 i2 q2 ∧
        (C.net.node i1).outPin q1 = some lo ∧ (C.net.node i2).inPin q2 = some li ∧ icFork C lo li = x)) ∧
    (icLookX C tl c1 p1 c2 p2 = .raise ↔
      IcUnresolved C tl c1 p1 c2 p2 ∨
      ∃ i1 q1 i2 q2 lo li, IcEnds C tl c1 p1 c2 p2 i1 q1 i2 q2 ∧
        (C.net.node i1).outPin q1 = some lo ∧ (C.net.node i2).inPin q2 = some li ∧
        (¬ ((C.net.node (C.net.line lo).reader).isFork = true ∧ (C.net.node (C.net.line li).driver).isFork = true) ∨
         ((C.net.line lo).reader ≠ (C.net.line li).driver ∧
            ¬ ∃ l, BranchOK C (C.net.line lo).reader (C.net.line li).driver l) ∨
         ((C.net.line lo).reader = (C.net.line li).driver ∧ (C.net.node (C.net.line li).driver).outs.length = 1 ∧
            forkIn (C.net.node (C.net.line li).driver) = none))) := by
  refine ⟨fun x hx hx' => ?_, ?_⟩
  · rw [icLookX_eq_iff _ _ _ _ _ _ _ hx]
    simp only [icPins_ne_warnPin_iff C _ _ _ _ x hx']
    constructor
    · rintro ⟨i1, q1, i2, q2, he, lo, li, h⟩; exact ⟨i1, q1, i2, q2, lo, li, he, h⟩
    · rintro ⟨i1, q1, i2, q2, lo, li, he, h⟩; exact ⟨i1, q1, i2, q2, he, lo, li, h⟩
  · rw [icLookX_raise_iff]
    simp only [icPins_ne_warnPin_iff C _ _ _ _ IcExit.raise (by simp), icFork_raise_iff]
    constructor
    · rintro (h | ⟨i1, q1, i2, q2, he, lo, li, h⟩)
      · exact Or.inl h
      · exact Or.inr ⟨i1, q1, i2, q2, lo, li, he, h⟩
    · rintro (h | ⟨i1, q1, i2, q2, lo, li, he, h⟩)
      · exact Or.inl h
      · exact Or.inr ⟨i1, q1, i2, q2, he, lo, li, h⟩

/-- **none is lost, array level**: an INTERCONNECT entry of the file whose values are not all zero and that HAS a place in the
circuit (`IcPlace`, for the names as the loop prepares them: split at `/`, backslashes removed) stands in the result of
`interconnects` on that line (`hpost`: no later entry annotates the same line — the last one wins, by design). -/
theorem interconnect_not_lost_circuit (C : NNet) (hwf : C.wf = true) (tl : PinIdx) (df : DelayFile) (pre post : List Entry)
    (e : Entry) (l d : Nat) (ip op : Bool)
    (hsplit : icEntries df = some (pre ++ e :: post))
    (hnz : ∃ v ∈ norm e.r ++ norm e.f, v ≠ 0)
    (hplace : IcPlace C tl (stripBackslash (splitSlash e.a).1) (splitSlash e.a).2
                (stripBackslash (splitSlash e.b).1) (splitSlash e.b).2 l)
    (hd : d < 3)
    (hpost : ∀ e' ∈ post, ∀ w, icWrite (icLineOf C tl) e' = some w → w.line ≠ l) :
    (interconnects (icLineOf C tl) df).map (fun A => A d l ip op) = some ((norm (if op then e.f else e.r)).getD d 0) :=
  interconnect_lands_lookup C tl df pre post e l d ip op hsplit hnz
    ((interconnect_lookup_iff C hwf tl _ _ _ _ l).mpr hplace) hd hpost

/-- … and in the result of the function with its raises (`interconnectsC`), whenever that is an array -/
theorem interconnect_not_lost_circuitC (C : NNet) (hwf : C.wf = true) (tl : PinIdx) (df : DelayFile) (pre post : List Entry)
    (e : Entry) (l d : Nat) (ip op : Bool) (A : Arr)
    (hA : interconnectsC C tl df = some A)
    (hsplit : icEntries df = some (pre ++ e :: post))
    (hnz : ∃ v ∈ norm e.r ++ norm e.f, v ≠ 0)
    (hplace : IcPlace C tl (stripBackslash (splitSlash e.a).1) (splitSlash e.a).2
                (stripBackslash (splitSlash e.b).1) (splitSlash e.b).2 l)
    (hd : d < 3)
    (hpost : ∀ e' ∈ post, ∀ w, icWrite (icLineOf C tl) e' = some w → w.line ≠ l) :
    A d l ip op = (norm (if op then e.f else e.r)).getD d 0 := by
  have h := interconnect_not_lost_circuit C hwf tl df pre post e l d ip op hsplit hnz hplace hd hpost
  rw [interconnectsC_eq hA] at h
  simpa using h

/-- a place can only be missed by raising or warning: with the place, neither happens -/
theorem interconnect_place_no_warn (C : NNet) (hwf : C.wf = true) (tl : PinIdx) (c1 : String) (p1 : Option String) (c2 : String)
    (p2 : Option String) (l : Nat) (h : IcPlace C tl c1 p1 c2 p2 l) :
    icLookX C tl c1 p1 c2 p2 = .line l :=
  (icLookX_line_iff C tl c1 p1 c2 p2 l).mpr ((interconnect_lookup_iff C hwf tl c1 p1 c2 p2 l).mpr h)

/-- a circuit `a -> u1 (INV_X1) -> n -> u2 (INV_X1) -> z` with signal forks (no branch forks), as `dump_net` exports it -/
def exCirc : NNet :=
  { net := { nodes := #[⟨"input", [], [some 0]⟩, ⟨"__fork__", [some 0], [some 1]⟩, ⟨"INV_X1", [some 1], [some 2]⟩,
                        ⟨"__fork__", [some 2], [some 3]⟩, ⟨"INV_X1", [some 3], [some 4]⟩, ⟨"__fork__", [some 4], [some 5]⟩,
                        ⟨"output", [some 5], []⟩],
             lines := #[⟨0, 0, 1, 0⟩, ⟨1, 0, 2, 0⟩, ⟨2, 0, 3, 0⟩, ⟨3, 0, 4, 0⟩, ⟨4, 0, 5, 0⟩, ⟨5, 0, 6, 0⟩],
             io := [0, 6] },
    names := #["a", "a", "u1", "n", "u2", "z", "z"] }
def exTl : PinIdx := fun k p => if k = "INV_X1" ∧ (p = "I" ∨ p = "ZN") then some 0 else none

example : exCirc.wf = true := by decide +kernel
example : pinLook exCirc exTl "u2" "I" = .line 3 ∧ pinLook exCirc exTl "u9" "I" = .skip
    ∧ pinLook exCirc exTl "u2" "Q" = .raise := by decide +kernel
example : icLook exCirc exTl "u1" (some "ZN") "u2" (some "I") = .line 2 ∧ icLook exCirc exTl "a" none "u1" (some "I") = .line 0
    ∧ icLook exCirc exTl "u7" none "u1" (some "I") = .raise := by decide +kernel
/-- the hypotheses of `iopath_lands_circuit` / `interconnect_lands_circuit` hold for the auditor's witness file on this circuit;
the negative INTERCONNECT value lands (repaired skip test) -/
example : iopaths (pinLineOf exCirc exTl) (parse .merge [⟨["u2"], [[⟨"I", "ZN", [[some 1, some 2, some 3]]⟩]]⟩]) 1 3 true false = 2 :=
  iopath_lands_lookup exCirc (by decide +kernel) exTl _ [] [] "u2" ⟨"I", "ZN", [1, 2, 3], [1, 2, 3]⟩ 4 0 3 1 true false
    (by decide +kernel) (by decide +kernel) (by decide +kernel) (by decide +kernel) (by decide +kernel) (by decide +kernel)
    (by decide) (by simp)
example : (interconnects (icLineOf exCirc exTl)
      (parse .merge [⟨[], [[⟨"u1/ZN", "u2/I", [[some 0, some 0, some 0], [some (-1), some 5, some 5]]⟩]]⟩])).map
        (fun A => A 0 2 false true) = some (-1) :=
  interconnect_lands_lookup exCirc exTl _ [] [] ⟨"u1/ZN", "u2/I", [0, 0, 0], [-1, 5, 5]⟩ 2 0 false true
    (by decide +kernel) ⟨-1, by decide, by decide⟩ (by decide +kernel) (by decide) (by simp)
/-- the real-result theorems: the hypothesis `iopathsC … = some A` / `interconnectsC … = some A` is satisfiable (a file whose
look-ups all succeed or warn) … -/
example : (iopathsC exCirc exTl (parse .merge [⟨["u2"], [[⟨"I", "ZN", [[some 1, some 2, some 3]]⟩]]⟩, ⟨["ghost"], [[⟨"I", "ZN", [[some 1, some 2, some 3]]⟩]]⟩])).isSome = true
    ∧ (interconnectsC exCirc exTl (parse .merge [⟨[], [[⟨"u1/ZN", "u2/I", [[some 0, some 0, some 0], [some (-1), some 5, some 5]]⟩]]⟩])).isSome = true := by
  decide +kernel
/-- … and fails on the second audit's witness: a block with an entry for pin `Q`, which `INV_X1` does not have — the real
`iopaths()` raises `AssertionError`, there is no array, `iopath_lands_circuit` has no instance; an INTERCONNECT naming a
connection the circuit does not have (`exFan`: `u2/ZN -> u3/I`) makes `interconnects()` raise -/
example : iopathsC exCirc exTl (parse .merge [⟨["u2"], [[⟨"I", "ZN", [[some 1, some 2, some 3]]⟩, ⟨"Q", "ZN", [[some 4, some 5, some 6]]⟩]]⟩]) = none := by
  decide +kernel
example : pinLook exCirc exTl "u2" "Q" = .raise := by decide +kernel
example (A : Arr) (hA : iopathsC exCirc exTl (parse .merge [⟨["u2"], [[⟨"I", "ZN", [[some 1, some 2, some 3]]⟩]]⟩]) = some A) :
    A 1 3 true false = 2 :=
  iopath_lands_circuit exCirc (by decide +kernel) exTl _ A hA [] [] "u2" ⟨"I", "ZN", [1, 2, 3], [1, 2, 3]⟩ 4 0 3 1 true false
    (by decide +kernel) (by decide +kernel) (by decide +kernel) (by decide +kernel) (by decide +kernel) (by decide +kernel)
    (by decide) (by simp)
example (A : Arr) (hA : interconnectsC exCirc exTl
      (parse .merge [⟨[], [[⟨"u1/ZN", "u2/I", [[some 0, some 0, some 0], [some (-1), some 5, some 5]]⟩]]⟩]) = some A) :
    A 0 2 false true = -1 :=
  interconnect_lands_circuit exCirc exTl _ A hA [] [] ⟨"u1/ZN", "u2/I", [0, 0, 0], [-1, 5, 5]⟩ 2 0 false true
    (by decide +kernel) ⟨-1, by decide, by decide⟩ (by decide +kernel) (by decide) (by simp)
/-- fan-out with branch forks (`verilog.parse(branchforks=True)`): `a -> u1 -> n -> {u2 -> z1, u3 -> z2}`; node 3 is the
signal fork of `n`, nodes 4 and 5 its branch forks -/
def exFan : NNet :=
  { net := { nodes := #[⟨"input", [], [some 0]⟩, ⟨"__fork__", [some 0], [some 1]⟩, ⟨"INV_X1", [some 1], [some 2]⟩,
                        ⟨"__fork__", [some 2], [some 3, some 4]⟩, ⟨"__fork__", [some 3], [some 5]⟩, ⟨"__fork__", [some 4], [some 6]⟩,
                        ⟨"INV_X1", [some 5], [some 7]⟩, ⟨"INV_X1", [some 6], [some 8]⟩,
                        ⟨"__fork__", [some 7], [some 9]⟩, ⟨"__fork__", [some 8], [some 10]⟩,
                        ⟨"output", [some 9], []⟩, ⟨"output", [some 10], []⟩],
             lines := #[⟨0, 0, 1, 0⟩, ⟨1, 0, 2, 0⟩, ⟨2, 0, 3, 0⟩, ⟨3, 0, 4, 0⟩, ⟨3, 1, 5, 0⟩, ⟨4, 0, 6, 0⟩, ⟨5, 0, 7, 0⟩,
                        ⟨6, 0, 8, 0⟩, ⟨7, 0, 9, 0⟩, ⟨8, 0, 10, 0⟩, ⟨9, 0, 11, 0⟩],
             io := [0, 10, 11] },
    names := #["a", "a", "u1", "n", "n~0", "n~1", "u2", "u3", "z1", "z2", "z1", "z2"] }
/-- the same netlist without branch forks (`branchforks=False`): the signal fork of `n` has two readers -/
def exFanNB : NNet :=
  { net := { nodes := #[⟨"input", [], [some 0]⟩, ⟨"__fork__", [some 0], [some 1]⟩, ⟨"INV_X1", [some 1], [some 2]⟩,
                        ⟨"__fork__", [some 2], [some 3, some 4]⟩,
                        ⟨"INV_X1", [some 3], [some 5]⟩, ⟨"INV_X1", [some 4], [some 6]⟩,
                        ⟨"__fork__", [some 5], [some 7]⟩, ⟨"__fork__", [some 6], [some 8]⟩,
                        ⟨"output", [some 7], []⟩, ⟨"output", [some 8], []⟩],
             lines := #[⟨0, 0, 1, 0⟩, ⟨1, 0, 2, 0⟩, ⟨2, 0, 3, 0⟩, ⟨3, 0, 4, 0⟩, ⟨3, 1, 5, 0⟩, ⟨4, 0, 6, 0⟩, ⟨5, 0, 7, 0⟩,
                        ⟨6, 0, 8, 0⟩, ⟨7, 0, 9, 0⟩],
             io := [0, 8, 9] },
    names := #["a", "a", "u1", "n", "u2", "u3", "z1", "z2", "z1", "z2"] }

/-- the hypotheses of `interconnect_lookup_exits` hold for all three example circuits -/
example : exCirc.wf = true ∧ icStructOKB exCirc = true ∧ exFan.wf = true ∧ icStructOKB exFan = true
    ∧ exFanNB.wf = true ∧ icStructOKB exFanNB = true := by decide +kernel
/-- all four exits occur: branch-fork answers (lines 3 and 4), sole-line answer (line 0), "No branchfork" on the netlist without
branch forks, open pin (the port `a` as destination: an `input` node has no input pin), raise for a connection that does not exist, for an
unknown cell and for an unknown pin -/
example : icLookX exFan exTl "u1" (some "ZN") "u2" (some "I") = .line 3 ∧ icLookX exFan exTl "u1" (some "ZN") "u3" (some "I") = .line 4
    ∧ icLookX exFan exTl "a" none "u1" (some "I") = .line 0
    ∧ icLookX exFanNB exTl "u1" (some "ZN") "u2" (some "I") = .warnNoBranch
    ∧ icLookX exFan exTl "u1" (some "ZN") "a" none = .warnPin
    ∧ icLookX exFan exTl "u2" (some "ZN") "u3" (some "I") = .raise
    ∧ icLookX exFan exTl "u9" none "u3" (some "I") = .raise
    ∧ icLookX exFan exTl "u1" (some "Q") "u3" (some "I") = .raise := by decide +kernel
example : interconnectsC exFan exTl (parse .merge [⟨[], [[⟨"u2/ZN", "u3/I", [[some 1, some 2, some 3]]⟩]]⟩]) = none
    ∧ interconnectsC exFan exTl (parse .merge [⟨["u1"], []⟩]) = none := by decide +kernel
/-- the place of `u1/ZN -> u3/I` in `exFan` is line 4 (hypothesis of `interconnect_lookup_complete`, stated directly) -/
example : IcPlace exFan exTl "u1" (some "ZN") "u3" (some "I") 4 :=
  ⟨2, 7, 0, 0, 2, 6, by decide +kernel, by decide +kernel, by decide +kernel, by decide +kernel, by decide +kernel,
    by decide +kernel, by decide +kernel, by decide +kernel, by decide +kernel, by decide +kernel, by decide +kernel,
    by decide +kernel, Or.inr ⟨by decide +kernel, by decide +kernel⟩⟩
/-- `interconnect_not_lost_circuit` on the fan-out circuit: the negative value of the entry for the second branch lands on line 4 -/
example : (interconnects (icLineOf exFan exTl)
      (parse .merge [⟨[], [[⟨"u1/ZN", "u3/I", [[some 0, some 0, some 0], [some (-1), some 5, some 5]]⟩]]⟩])).map
        (fun A => A 0 4 false true) = some (-1) :=
  interconnect_not_lost_circuit exFan (by decide +kernel) exTl _ [] [] ⟨"u1/ZN", "u3/I", [0, 0, 0], [-1, 5, 5]⟩ 4 0 false true
    (by decide +kernel) ⟨-1, by decide, by decide⟩
    ((interconnect_lookup_iff exFan (by decide +kernel) exTl _ _ _ _ 4).mp (by decide +kernel)) (by decide) (by simp)
end circuit

/-! ## text level: the grammar of `sdf.py` (Model/SdfText.lean) -/
section text
open KV.SdfText

/-- Print/parse round trip of the SDF text model: for every parse tree `f` (DESIGN names, CELL blocks with INSTANCE
names and DELAY sections of IOPATH / INTERCONNECT entries with `()` or three-field value lists) whose name tokens
are tokens of the grammar (`validId`, `validIoe`, `validDesign`: plain or quoted / parenthesised form) and whose
number fields are empty or decimal numbers `float()` accepts, and whose entries have one or two value lists,
reading the canonical text gives back exactly `f` — through the scanner with lark's per-state terminal order, the
reader for the grammar, and the transformer's raise conditions (`SdfFile.ok`). -/
theorem sdf_text_roundtrip (f : SdfFile) (h : f.valid = true) : parseSdf (printSdf f) = some f :=
  parseSdf_print f h

/-- the same at the grammar level alone (what lark's parse tree contains, no transformer) -/
theorem sdf_text_roundtrip_tree (f : SdfFile) (h : f.valid = true) : parseTree (printSdfL f) = some f :=
  parseTree_print f h

/-- Through the text and back at the level of the block lists that the landing theorems above are about: print a block
list (IOPATH entries in blocks with an INSTANCE name, INTERCONNECT entries in blocks without; numbers in thousandths as
`[-]i.fff`), read the text with the grammar model, hand the tree over (`SdfFile.toRaw`) — the same block list comes back.
Hypotheses (decidable): value lists are `()` or have three fields (`rawShapeOK`), and the tree is printable
(`SdfFile.valid`: name tokens of the grammar, one or two value lists per entry). -/
theorem sdf_text_roundtrip_raw (B : List RawCell) (hs : rawShapeOK B = true) (hv : (ofRaw B).valid = true) :
    (parseSdf (printSdf (ofRaw B))).bind SdfFile.toRaw = some B := raw_roundtrip B hs hv

/-- thousandths print and read back exactly; the printed field is a number `float()` accepts -/
theorem sdf_text_number_roundtrip (v : Int) : milli (showMilli v) = some v ∧ validField (showMilli v) = true :=
  ⟨(showMilli_spec v).2, (showMilli_spec v).1⟩

/-- a valid tree never makes the transformer raise -/
theorem sdf_text_valid_ok (f : SdfFile) (h : f.valid = true) : f.ok = true := SdfFile.ok_of_valid f h

/-- a file with a DESIGN entry, an escaped instance name, an edge-qualified pin, `()`, partially empty value lists,
a negative number, two DELAY sections, a quoted name with a blank, and a block without INSTANCE -/
def exText : SdfFile :=
  { designs := ["top".toList],
    cells := [⟨["u\\3\\[0\\]".toList],
                [[⟨true, "(posedge A1)".toList, "ZN".toList, [some ("1.5".toList, "2".toList, "-.25".toList), none]⟩],
                 [⟨true, "A2".toList, "ZN".toList, [some ([], [], "9".toList)]⟩]]⟩,
              ⟨[], [[⟨false, "\"a b\"".toList, "u2/I".toList, [some ("0.1".toList, [], [])]⟩]]⟩] }

example : exText.valid = true := by decide +kernel
example : printSdf exText = "(DELAYFILE (DESIGN \"top\") (CELL (INSTANCE u\\3\\[0\\]) (DELAY (ABSOLUTE (IOPATH (posedge A1) ZN (1.5:2:-.25) ()))) (DELAY (ABSOLUTE (IOPATH A2 ZN (::9))))) (CELL (DELAY (ABSOLUTE (INTERCONNECT \"a b\" u2/I (0.1::))))))\n" := by
  decide +kernel
example : parseSdf (printSdf exText) = some exText := sdf_text_roundtrip exText (by decide +kernel)

/-- the reader on a text the printer does not produce: header entries, comment, tabs and line breaks, CELLTYPE,
`( )`, a TIMINGCHECK block with nested parentheses -/
example : parseSdf ("(DELAYFILE (SDFVERSION \"2.1\") // c\n (CELL (CELLTYPE \"INV\")\n\t(INSTANCE u1) (DELAY (ABSOLUTE\n " ++
      "(IOPATH A ZN (1:2:3) ( )))) (TIMINGCHECK (WIDTH (posedge A) (1:1:1)) x)))")
    = some ⟨[], [⟨["u1".toList], [[⟨true, "A".toList, "ZN".toList, [some ("1".toList, "2".toList, "3".toList), none]⟩]]⟩]⟩ := by
  decide +kernel
/-- lark's terminal order: a line break after `(INSTANCE` belongs to the name -/
example : parseSdf "(DELAYFILE (CELL (INSTANCE\nu1)))" = some ⟨[], [⟨["\nu1".toList], []⟩]⟩ := by decide +kernel
/-- `float("-")` raises in the transformer; three value lists make `IOPath(*args)` raise -/
example : parseSdf "(DELAYFILE (CELL (INSTANCE u1) (DELAY (ABSOLUTE (IOPATH A ZN (1:-:3))))))" = none := by decide +kernel
example : parseSdf "(DELAYFILE (CELL (INSTANCE u1) (DELAY (ABSOLUTE (IOPATH A ZN () () ())))))" = none
    ∧ (parseTree "(DELAYFILE (CELL (INSTANCE u1) (DELAY (ABSOLUTE (IOPATH A ZN () () ())))))".toList).isSome = true := by
  decide +kernel
/-- the block list `exCells` of the non-vacuity section above satisfies the hypotheses of `sdf_text_roundtrip_raw` -/
example : rawShapeOK exCells = true ∧ (ofRaw exCells).valid = true := by decide +kernel
example : (parseSdf (printSdf (ofRaw exCells))).bind SdfFile.toRaw = some exCells :=
  sdf_text_roundtrip_raw exCells (by decide +kernel) (by decide +kernel)
example : showMilli (-1250) = "-1.250".toList ∧ showMilli 7 = "0.007".toList ∧ milli "12.5".toList = some 12500
    ∧ milli "-.25".toList = some (-250) ∧ milli "1.0004".toList = none ∧ milli "3.".toList = some 3000 := by decide +kernel
end text

end KV.C14
