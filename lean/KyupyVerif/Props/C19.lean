import KyupyVerif.Proofs.TechPins
/-! # C19 — built-in library cells have consistent pins and datasheet Boolean functions

**Generated** from the working tree on every run (gen/dump_techlib.py): `Gen.techChunks` — one `TL.Cell` row per
distinct implementation circuit of GSC180, NANGATE, NANGATE_ZN, SAED32, SAED90: the template name, the keys of
`TechLib.cells` that map to it, their pin table in dictionary order, the circuit's ports (`io_nodes`) with the
(P)PI slot / captured line of each, and the REAL `SimOps(circuit).ops` rows.
**Specification** (hand-written, Model/Datasheet.lean + Model/Techlib.lean): `baseName`, `classify`, `datasheet`,
`outside`, `expand`.
**Theorems** here are kernel evaluations (`decide +kernel`, Proofs/TechPins, TechFun0…7, TechAdd) of decidable checkers on
those tables, lifted by the soundness lemmas of Proofs/TechChk.lean to the for-all statements below.  They hold
for the tables, i.e. for the library objects and op programs the imported package produced; that the LUT
semantics of an op row is what the simulator's code paths execute is C01 (`real_code_paths` restates it for
these programs).  **Oracle** (harness/c19.py): the same comparison on the real `LogicSim` truth tables.
**Composition with C10** (Props/C10Datasheet.lean `resolve_datasheet_sem`, glue Proofs/ImplDatasheet2.lean
`implMatches_iff_datasheet`): `family_function` is about the op rows in the tables; for an implementation NETLIST that a row
describes (`Transform.describesB`, evaluated by the driver for every key of the five libraries: all 656 listed-family keys
pass) the relational meaning C10 gives a resolved instance is therefore the datasheet function of the values on its pins.

This file: cardinality (`cells_count`), pins and partition.  Props/C19Gates.lean: `family_function_except_adders`.  Props/C19Fun.lean: the full
statement `family_function` (adders included).  Separate modules, so that a defect in the function of one family
does not hide the theorems about pins, and a defect in the adders does not hide the other families. -/
namespace KV.C19
open KV KV.TL KV.DS KV.Sig

/-- all implementation rows of the five libraries -/
abbrev cells : List Cell := Tech.cells

/-- **Cardinality** (audit 2, F10): the generated table lists, per library (`Gen.libNames` = GSC180, NANGATE, NANGATE_ZN, SAED32,
SAED90), exactly 38 / 133 / 133 / 189 / 533 keys (1026 in all) on 28 / 49 / 49 / 70 / 67 implementation rows (263), no key twice
within a library, and no row outside the five libraries — so the `∀ c ∈ cells` theorems below range over exactly that many
definitions. The numbers are those of the library objects of the tree the table was generated from: the harness compares the
driver's `techcount` (the same `Tech.libKeys` / `Tech.libRows`) with `len(tlib.cells)` and the number of distinct implementation
circuits of the five REAL `TechLib` objects, so a dump that silently drops entries fails here (kernel) and there (tie). A
deliberate change of a library changes these literals. -/
theorem cells_count :
    (List.range 5).map (fun l => (Tech.libKeys l).length) = [38, 133, 133, 189, 533] ∧
    (List.range 5).map (fun l => (Tech.libRows l).length) = [28, 49, 49, 70, 67] ∧
    (∀ l, l < 5 → (Tech.libKeys l).Nodup) ∧
    cells.all (fun c => decide (c.lib < 5)) = true ∧
    (cells.flatMap (·.names)).length = 1026 ∧ cells.length = 263 := by decide +kernel

/-- Every cell lists each pin exactly once; inputs and outputs are numbered 0..n-1 in declaration order; names,
    order and directions agree with the ports of the implementation circuit; and the keys that carry this
    definition are exactly the names its template stands for (every expanded name has a definition). -/
theorem pins_consistent {c : Cell} (hc : c ∈ cells) :
    (c.pins.map (·.1)).Nodup ∧ (c.ports.map (·.1)).Nodup ∧
    c.inputs.map (·.2.1) = List.range c.inputs.length ∧
    c.outputs.map (·.2.1) = List.range c.outputs.length ∧
    c.pins.map (fun p => (p.1, p.2.2)) = c.ports.map (fun p => (p.1, p.2.1)) ∧
    c.names = expand c.tmpl ∧ c.names ≠ [] := by
  have h := pinsOK_sound (all_chunks Tech.pins_all hc)
  exact ⟨h.pins_nodup, h.ports_nodup, h.inputs_numbered, h.outputs_numbered, h.ports_agree,
         h.names_expand, h.names_nonempty⟩

/-- The partition is explicit: a cell name either belongs to a listed family (`classify`) or its family is in the
    hand-written list `DS.outside` (sequential, tri-state, isolation, clock gating, decoder, tie, power switch,
    filler) — never both, never neither. -/
theorem partition {c : Cell} (hc : c ∈ cells) {name : Str} (hn : name ∈ c.names) :
    (classify (baseName name)).isSome = !outsideBases.contains (baseName name) :=
  partOK_sound (all_chunks Tech.part_all hc) hn

/-- The three 2-valued code paths of the simulator (`_prop_cpu`, `c_prop` plain, `c_prop` with callback — the
    generated dispatchers of C01) compute exactly the LUT semantics on every library cell's program. -/
theorem real_code_paths {c : Cell} (hc : c ∈ cells) (env : Nat → Bool) (l : Nat) :
    exec semL2n c.prog env l = exec lutSem c.prog env l ∧ exec semL2p c.prog env l = exec lutSem c.prog env l ∧
    exec semL2c c.prog env l = exec lutSem c.prog env l :=
  ⟨Tech.paths_eq_lut hc _ (fun _ h xs => semL2n_eq_spec h xs) env l,
   Tech.paths_eq_lut hc _ (fun _ h xs => semL2p_eq_spec h xs) env l,
   Tech.paths_eq_lut hc _ (fun _ h xs => semL2c_eq_spec h xs) env l⟩

/-! ### the hypotheses are satisfiable by non-trivial objects -/

/-- the notation `c!"…"` is the character list of the string -/
example : c!"AOI221X1_RVT" = "AOI221X1_RVT".toList := by decide +kernel

/-- an AOI221 with letter groups (NANGATE) and one with sequential pins (SAED32), a MUX41 -/
example : ∃ c ∈ cells, c.lib = 1 ∧ c!"AOI221_X2" ∈ c.names ∧
    classify (baseName c!"AOI221_X2") = some (.aoi true true [2, 2, 1]) ∧
    c.inNames = [c!"A", c!"B1", c!"B2", c!"C1", c!"C2"] ∧
    groupsOf [2, 2, 1] c.inNames = some [[0], [1, 2], [3, 4]] ∧ c.prog.length = 7 := by decide +kernel
example : ∃ c ∈ cells, c.lib = 3 ∧ c!"AOI221X1_RVT" ∈ c.names ∧
    classify (baseName c!"AOI221X1_RVT") = some (.aoi true true [2, 2, 1]) ∧
    groupsOf [2, 2, 1] c.inNames = some [[0, 1], [2, 3], [4]] := by decide +kernel
example : ∃ c ∈ cells, c!"MUX41X2_HVT" ∈ c.names ∧ classify (baseName c!"MUX41X2_HVT") = some (.mux 4) ∧
    (datasheet (.mux 4) c.inNames c.outNames).isSome ∧ c.inNames.length = 6 := by decide +kernel
/-- template expansion, with an empty alternative -/
example : expand c!"ISOLAND{,AO}X{1,2}_RVT" =
    [c!"ISOLANDX1_RVT", c!"ISOLANDX2_RVT", c!"ISOLANDAOX1_RVT", c!"ISOLANDAOX2_RVT"] := by decide +kernel
/-- the checker is not trivially true: numbering the pins from 1 fails -/
example : Cell.pinsOK
    { lib := 0, tmpl := c!"BUFX{1,3}", names := [c!"BUFX1", c!"BUFX3"], nSeq := 0,
      pins := [(c!"A", 1, false), (c!"Y", 1, true)], ports := [(c!"A", false, 5), (c!"Y", true, 0)],
      ops := [] } = false := by decide +kernel

end KV.C19
