import KyupyVerif.Proofs.PermExec
import KyupyVerif.Proofs.Perm
import KyupyVerif.Proofs.Levelise
import KyupyVerif.Proofs.Capture
import KyupyVerif.Proofs.MapSound
import KyupyVerif.Props.C08
import KyupyVerif.Proofs.Grid
import KyupyVerif.Proofs.LevelMem
/-! # C07 — the published level partition is a valid parallel schedule

Signal level (all op programs — theorems): ops that are pairwise independent may run in any order
(`levels_perm`), and the Boolean certificate `levelIndepB` — evaluated on the REAL ops of every level of every generated
circuit — implies the independence hypothesis. **Levelisation (audit finding 9):** the statement about the code's levelisation
is `writer_before_reader_simops`: for `level_starts` as `levelise` of the `SimOps` model computes it (`Model/SimOps.lean:
levStep`, reads operands THROUGH THE STEMS; tied to the real `level_starts` by exact correspondence, C01/C08) — every
well-formed netlist, topological order, `strip_forks` on and off — the table starts with 0 and increases, the row writing a
line sits in a STRICTLY earlier level than every later row reading it (through stems), and every line operand has such an
earlier writer; `levels_contiguous_simops`: the level number read off `level_starts` never decreases along the rows.
`writer_before_reader` / `levels_contiguous` are the same two facts for a stand-alone abstract fold (`Proofs/Levelise.lean:
lstep`, operands read directly, no stems) that NO driver command runs and that is not the model of `SimOps`; they are kept as
the signal-level lemma, not as a statement about the code. Memory level: `threads_any_order` (footprint-disjoint threads commute, whole
memory incl. stale cells) is proved generically; `memory_any_schedule`: when the map certificate of C08 accepts the
REAL tables, every duplicate-free execution order that respects `level_starts` leaves the same values in every observed
memory region (whatever the value domain and storage discipline) — and `memory_any_schedule_all_circuits`: for the tables the `SimOps` model builds
the certificate is a theorem (`C08.simops_map_accepted`), so nothing is per instance except the tie model = code. Accumulated activity is order independent (`abuf_any_order`).
**(sim, op) threads of a level in any order, on memory (audit-2 finding 3):** `level_threads_any_order` — for a table accepted by
the map certificate, `c_caps_min ≥ 2`, a row range inside one level (`oneLevelB`, decidable; `oneLevelB_of_starts`): every
permutation of the work items of the level leaves, on every lane, the same accumulators and the same memory OUTSIDE the two
scratch regions as `level_eval_cpu` (model `WaveIO.cpuLevel` with the evaluator `evWave` built from the waveform model —
NOT yet run against the raw arrays by a driver command, audit-2 finding 2; the oracle of this check compares the real `c`
outside the scratch rows, `s` and `abuf` under really permuted thread orders). Inside the scratch regions the orders differ
(several gates with unconnected outputs of one level write `tmp_idx`): nothing is claimed there, and `no_row_reads_scratch`
shows no row reads them. The footprint conditions (`MapIn.levelsIndepB`) are a THEOREM from the certificate
(`level_conditions_of_certificate`) and are additionally evaluated on the real tables of every case (driver `opsindep`, tag
`hyp:opsIndep:*`); `level_threads_any_order_all_circuits` discharges the certificate for the `SimOps` model's tables, and
`level_threads_any_order_every_level` states it for level `i` of the model's `level_starts` with no row-range hypothesis left. The former
`C06.level_any_thread_order_wave` (whole memory, hypothesis `opsIndepB`, false for two scratch writers in a level) is kept as
`C06.level_any_thread_order_wave_exact` for levels with at most one scratch writer. -/
namespace KV.C07
open KV KV.Sig

theorem nodupB_sound : ∀ l : List Nat, nodupB l = true → l.Nodup
  | [], _ => List.nodup_nil
  | x :: r, h => by
    simp only [nodupB, Bool.and_eq_true, Bool.not_eq_true', List.contains_eq_mem, decide_eq_false_iff_not] at h
    exact List.nodup_cons.mpr ⟨h.1, nodupB_sound r h.2⟩

theorem map_inj_of_nodup {α} (f : α → Nat) : ∀ (l : List α), (l.map f).Nodup → ∀ a ∈ l, ∀ b ∈ l, f a = f b → a = b
  | [], _, a, ha, _, _, _ => by cases ha
  | x :: r, h, a, ha, b, hb, hab => by
    simp only [List.map_cons, List.nodup_cons, List.mem_map, not_exists, not_and] at h
    rcases List.mem_cons.mp ha with rfl | ha' <;> rcases List.mem_cons.mp hb with rfl | hb'
    · rfl
    · exact absurd hab.symm (h.1 b hb')
    · exact absurd hab (h.1 a ha')
    · exact map_inj_of_nodup f r h.2 a ha' b hb' hab

theorem levelIndepB_sound (lv : List Op) (h : levelIndepB lv = true) :
    ∀ a ∈ lv, ∀ b ∈ lv, a = b ∨ Indep a b := by
  simp only [levelIndepB, Bool.and_eq_true, List.all_eq_true, Bool.not_eq_true'] at h
  obtain ⟨hd, hr⟩ := h
  have hnd := nodupB_sound _ hd
  intro a ha b hb
  by_cases hab : a = b
  · exact Or.inl hab
  · right
    refine ⟨?_, ?_, ?_⟩
    · intro ho
      exact hab (map_inj_of_nodup (·.out) lv hnd a ha b hb ho)
    · intro hin
      have := hr b hb a.out hin
      simp only [List.contains_eq_mem, List.mem_map, decide_eq_false_iff_not] at this
      exact this ⟨a, ha, rfl⟩
    · intro hin
      have := hr a ha b.out hin
      simp only [List.contains_eq_mem, List.mem_map, decide_eq_false_iff_not] at this
      exact this ⟨b, hb, rfl⟩

/-- **every permutation of the operations inside every level** gives identical signal values — for any value
    domain and op semantics (2/4/8-valued logic, waveforms) -/
theorem levels_any_order {α} (sem : Op → List α → α) (ls ls' : List (List Op))
    (hlen : ls.length = ls'.length)
    (hp : ∀ k (h : k < ls.length), (ls[k]).Perm (ls'[k]'(hlen ▸ h)))
    (hc : ∀ lv ∈ ls, levelIndepB lv = true) (env : Nat → α) :
    ls.foldl (fun e lv => execG sem lv e) env = ls'.foldl (fun e lv => execG sem lv e) env :=
  levels_perm sem ls ls' hlen hp (fun lv hl => levelIndepB_sound lv (hc lv hl)) env

/-- **memory level**: with an accepted map certificate (C08, evaluated on the real `ops`, `level_starts`, `c_locs`,
    `c_caps`), any two execution orders `s1 s2` of the op rows that contain every op once and never run an op of a
    later level before one of an earlier level (`schedOKB`: e.g. program order, or the ops of each level in any thread
    interleaving) leave the same value in every output slot — although memory regions are shared between signals with
    disjoint life times and stale data differ. Any value domain, op semantics and storage discipline. -/
theorem memory_any_schedule {α C : Type} (p : MapIn) (hc : p.check = none) (R : MapSound.RW α C)
    (sem : OpRow → List α → α) (s1 s2 : List Nat) (h1 : p.schedOKB s1 = true) (h2 : p.schedOKB s2 = true)
    (hfit : ∀ o ∈ p.ops, ∀ args m,
      R.rd (p.loc o.out) (p.cap o.out) (R.wr (p.loc o.out) (p.cap o.out) (sem o args) m) = sem o args)
    (m0 : Int → C) (env0 : Nat → α)
    (h0 : ∀ x ∈ p.tracked, (∀ o ∈ p.ops, o.out ≠ x) → MapSound.rdS p R x m0 = env0 x) :
    ∀ j s, (j, s) ∈ p.ppoSrcs →
      MapSound.rdS p R j (MapSound.memRun p R sem (MapSound.schedOps p s1) m0)
        = MapSound.rdS p R j (MapSound.memRun p R sem (MapSound.schedOps p s2) m0) :=
  MapSound.check_sound_any_order p hc R sem s1 s2 (MapSound.schedOKB_sound p s1 h1).1 (MapSound.schedOKB_sound p s2 h2).1
    (MapSound.schedOKB_sound p s1 h1).2 (MapSound.schedOKB_sound p s2 h2).2 hfit m0 env0 h0

example : C08.demoMap.schedOKB [0, 1, 2, 3, 4, 5] = true ∧ C08.demoMap.schedOKB [1, 0, 3, 2, 4, 5] = true ∧
    C08.demoMap.schedOKB [0, 2, 1, 3, 4, 5] = false := by decide +kernel

/-- **memory level, ALL circuits, no per-instance certificate**: `memory_any_schedule` for the tables the `SimOps` model
    builds (`simopsMap`) — the map certificate is discharged by `C08.simops_map_accepted`; the remaining hypotheses are
    the domain predicates on the netlist and its order and the schedule certificates `schedOKB`. -/
theorem memory_any_schedule_all_circuits {α C : Type} (tbl : List PrefixRow) (net : Net) (order : List Nat) (strip : Bool)
    (capsIn : Nat → Nat) (capsMin : Nat) (reuse : Bool) (hwf : net.wfB = true) (ho : orderOKB net order = true)
    (hf : strip = true → forksOKB net order = true) (hr : readsDrivenB tbl net order = true) (hpos : 0 < capsMin)
    (R : MapSound.RW α C) (sem : OpRow → List α → α) (s1 s2 : List Nat)
    (h1 : (simopsMap tbl net order strip capsIn capsMin reuse).schedOKB s1 = true)
    (h2 : (simopsMap tbl net order strip capsIn capsMin reuse).schedOKB s2 = true)
    (hfit : ∀ o ∈ (simopsMap tbl net order strip capsIn capsMin reuse).ops, ∀ args m,
      R.rd ((simopsMap tbl net order strip capsIn capsMin reuse).loc o.out)
        ((simopsMap tbl net order strip capsIn capsMin reuse).cap o.out)
        (R.wr ((simopsMap tbl net order strip capsIn capsMin reuse).loc o.out)
          ((simopsMap tbl net order strip capsIn capsMin reuse).cap o.out) (sem o args) m) = sem o args)
    (m0 : Int → C) (env0 : Nat → α)
    (h0 : ∀ x ∈ (simopsMap tbl net order strip capsIn capsMin reuse).tracked,
      (∀ o ∈ (simopsMap tbl net order strip capsIn capsMin reuse).ops, o.out ≠ x) →
        MapSound.rdS (simopsMap tbl net order strip capsIn capsMin reuse) R x m0 = env0 x) :
    let p := simopsMap tbl net order strip capsIn capsMin reuse
    ∀ j s, (j, s) ∈ p.ppoSrcs →
      MapSound.rdS p R j (MapSound.memRun p R sem (MapSound.schedOps p s1) m0)
        = MapSound.rdS p R j (MapSound.memRun p R sem (MapSound.schedOps p s2) m0) :=
  memory_any_schedule _ (simopsMap_accepted tbl net order strip capsIn capsMin reuse hwf ho hf hr hpos) R sem s1 s2 h1 h2
    hfit m0 env0 h0

/-- non-vacuity: the model's record of `C08.demoNet` has the schedules of the example above -/
example : (simopsMap Gen.kindPrefixes C08.demoNet C08.demoOrder false (fun _ => 1) 1 true).schedOKB [1, 0, 3, 2, 4, 5] = true := by
  decide +kernel

/-- **levelisation of the `SimOps` model** (`levelise`, `strip_forks` on or off; the fact is `ProgOK.lev`/`.opnd`/`.starts` inside
    `C08.simops_program_facts`): with `starts` = the model's `level_starts` and `levelOfS starts k` = the level of row `k`:
    (a) `starts` begins with 0, strictly increases and stays inside the program; (b) **writer before reader**: a row `k'` writing a
    line sits in a strictly earlier level than every later row `k` that reads this line — directly or, under `strip_forks`,
    as the stem of one of its operand branches; (c) every operand (through stems) is the constant-0 slot, an input slot or a line
    written by an EARLIER row — so with (b) no row reads a signal produced in its own or a later level. -/
theorem writer_before_reader_simops (tbl : List PrefixRow) (net : Net) (order : List Nat) (strip : Bool)
    (hwf : net.wfB = true) (ho : orderOKB net order = true)
    (hf : strip = true → forksOKB net order = true) (hr : readsDrivenB tbl net order = true) :
    let ops := genOps tbl net order strip
    let st := stemsOf net strip
    let starts := (levelise net.idx.len st ops).starts.reverse
    StartsOK starts ops.length ∧
    (∀ (k' k : Nat) (o' o : OpRow), k' < k → ops[k']? = some o' → ops[k]? = some o → o'.out ≠ net.idx.tmp →
      o'.out ∈ opSrcs st o → levelOfS starts k' < levelOfS starts k) ∧
    (∀ (k : Nat) (o : OpRow), ops[k]? = some o → ∀ x ∈ opSrcs st o,
      x = net.idx.zero ∨ x ∈ (simopsMap tbl net order strip (fun _ => 1) 1 false).ppiSlots ∨
        (x < net.idx.zero ∧ ∃ k' o', k' < k ∧ ops[k']? = some o' ∧ o'.out = x)) :=
  let h := C08.simops_program_facts tbl net order strip (fun _ => 1) 1 false hwf ho hf hr
  ⟨h.starts, h.lev, h.opnd⟩

/-- the level read off `level_starts` never decreases along the rows: each level is the contiguous range of rows the table
    records (any table) -/
theorem levels_contiguous_simops (starts : List Nat) (k' k : Nat) (h : k' ≤ k) :
    levelOfS starts k' ≤ levelOfS starts k := by
  unfold levelOfS
  induction starts with
  | nil => simp
  | cons t r ih =>
    simp only [List.filter_cons]
    by_cases h1 : t ≤ k'
    · have h2 : t ≤ k := by omega
      simp only [h1, h2, decide_true, if_true, List.length_cons]; omega
    · by_cases h2 : t ≤ k
      · simp only [h1, h2, decide_true, decide_false, if_true, List.length_cons]; simp; omega
      · simp only [h1, h2, decide_false]; simpa using ih

/-- non-vacuity: `C08.demoNet` (AND + inverter behind forks) satisfies the hypotheses with and without stripping; its
    un-stripped table is `[0, 2, 4, 5, 6]` — five levels — the stripped one `[0, 2, 3]` -/
example := writer_before_reader_simops Gen.kindPrefixes C08.demoNet C08.demoOrder true C08.demo_hyps.1 C08.demo_hyps.2.1
  (fun _ => C08.demo_hyps.2.2.1) C08.demo_hyps.2.2.2
example := writer_before_reader_simops Gen.kindPrefixes C08.demoNet C08.demoOrder false C08.demo_hyps.1 C08.demo_hyps.2.1
  (fun h => nomatch h) C08.demo_hyps.2.2.2
example : (levelise C08.demoNet.idx.len (stemsOf C08.demoNet false)
      (genOps Gen.kindPrefixes C08.demoNet C08.demoOrder false)).starts.reverse = C08.demoMap.starts ∧
    (levelise C08.demoNet.idx.len (stemsOf C08.demoNet true)
      (genOps Gen.kindPrefixes C08.demoNet C08.demoOrder true)).starts.reverse = C08.demoMapStrip.starts := by decide +kernel

/-- the same fact for a stand-alone abstract levelisation fold (`Proofs/Levelise.lean: lstep`; operands read directly, no
    stems; NOT the model of `SimOps` and run by no driver command — see `writer_before_reader_simops` for the tied statement):
    an op that writes a signal is placed in a strictly earlier level than every
    later op that reads it (no op reads a signal produced in its own or a later level) — every op list -/
theorem writer_before_reader (st0 : LSt) (h0 : LInv st0) (a b : List Op) (w o : Op)
    (hread : w.out ∈ o.ins) (hnowrite : ∀ p ∈ b, p.out ≠ w.out) :
    levelOf st0 a w < levelOf st0 (a ++ w :: b) o := levelise_valid st0 h0 a b w o hread hnowrite

/-- (abstract fold `lstep`, see above) levels never decrease along the op list -/
theorem levels_contiguous (st0 : LSt) (h0 : LInv st0) (a b : List Op) (w o : Op) :
    levelOf st0 a w ≤ levelOf st0 (a ++ w :: b) o := levelise_mono st0 h0 a b w o

/-- memory level, generic: threads with pairwise disjoint footprints (nothing outside the write set changes;
    what is written depends only on the read set) yield the same WHOLE memory in every order — this is the
    (simulation, operation) thread picture of a GPU level -/
theorem threads_any_order {C} (l l' : List (Perm.Th C)) (hp : l.Perm l')
    (hi : ∀ s ∈ l, ∀ t ∈ l, s ≠ t → Perm.indep s t) (hn : l.Nodup) (m : Perm.Mem C) :
    Perm.runL l m = Perm.runL l' m := Perm.runL_perm l l' hp hi hn m

/-! ## (simulation, operation) threads of a level in ANY order, on memory (audit-2 finding 3)

Several rows of one level may write the scratch slot (`tmp_idx`: every gate with an unconnected output, sim.py:198), so the
threads of a level do not commute on the scratch regions and the footprint condition `opsIndepB` of the former
`C06.level_any_thread_order_wave` is false on such levels. The statements below are about everything EXCEPT the scratch
regions, and their footprint conditions are CONSEQUENCES of the map certificate. -/
section Threads
open KV.WaveIO

/-- **what the map certificate says about the rows of one level** (`MapIn.levelsIndepB`, `Model/LevelMem.lean`; also evaluated
    by the driver command `opsindep` on the real `ops`, `level_starts`, `c_locs`, `c_caps` of every generated case): whenever
    `MapIn.check` accepts a table, (a) no operand region of any row meets a scratch region — no row reads scratch memory —,
    (b) for two different rows `a`, `b` of the same level: unless `a` writes a scratch slot, its output region is disjoint from
    every operand region of `b` and, unless `b` writes a scratch slot, from the output region of `b`. -/
theorem level_conditions_of_certificate (p : MapIn) (hc : p.check = none) : p.levelsIndepB = true :=
  MapSound.levelsIndepB_of_check p hc

/-- … in particular **no row reads a scratch region**: an address inside an operand region of any row of an accepted table lies
    in neither scratch region (the regions of operands are signal regions, `MapSound.Good.junkSep`) -/
theorem no_row_reads_scratch (p : MapIn) (hc : p.check = none) (k : Nat) (o : OpRow) (hk : p.ops[k]? = some o) (x : Int)
    (hx : ∃ i ∈ o.ins, inRegion p.loc p.cap i x) : ¬ scrAddr p.loc p.cap p.ix.tmp p.ix.tmp2 x :=
  rowScrFreeB_sound (MapSound.rowScrFree_of_good (MapSound.good_of_check p hc) hk) x hx

/-- **`level_threads_any_order`: a level of an accepted table under an ARBITRARY order of its (sim, op) threads.** Table `p`
    accepted by the map certificate (C08; evaluated on the real tables), `c_caps_min ≥ 2` (WaveSim: 4), rows `op_start … op_stop - 1`
    inside the program and inside ONE level of `level_starts` (`oneLevelB`; holds for every pair `(level_starts[i], level_stops[i])`,
    `oneLevelB_of_starts`), accumulation controls arbitrary, the evaluator built from the waveform model with the table's
    `c_locs` / `c_caps` and any delays: EVERY list of threads that is a permutation of the work items — every SERIAL order of whole evaluator
    calls: a thread is one atomic `cpuBody` step (what MockCuda and the CPU loop execute; a real GPU may interleave the instructions of
    two threads, which this statement covers only for threads with disjoint footprints — all pairs except two SCRATCH writers of one
    level and lane: the real `_wave_eval` reads back its own output region (`previous_t`, wave_sim.py:243-261), so with truly concurrent
    scratch writers the `nrise/nfall` of a scratch row with `a_loc ≥ 0` is outside this theorem; third audit, finding 1) — leaves on every lane `k` (1) the same accumulators `abuf[:, k]` and (2) the same memory cell `c[a, k]` for
    every address `a` OUTSIDE the two scratch regions as `level_eval_cpu`. (Inside the scratch regions the last writer wins: the
    orders differ there, and no row reads them — `no_row_reads_scratch`.) No per-level footprint hypothesis remains. -/
theorem level_threads_any_order (p : MapIn) (hc : p.check = none) (hmin : 2 ≤ p.capsMin)
    (delay : Nat → Bool → Bool → Int) (ops : List AOp) (hops : ops.map (·.op) = p.ops)
    (opStart opStop sims : Nat) (hstop : opStop ≤ p.ops.length) (hlev : p.oneLevelB opStart opStop = true)
    (l : List (Nat × Nat)) (hl : l.Perm (Grid.cpuLoop sims (opStop - opStart))) (S : Nat → LaneSt) (k : Nat) :
    (Grid.runLanes (evalWork (evWave (fun _ => ⟨delay, p.cap⟩) p.loc) ops opStart) l S k).ab =
      (cpuLevel (evWave (fun _ => ⟨delay, p.cap⟩) p.loc) ops opStart opStop 0 sims S k).ab ∧
    ∀ a, ¬ scrAddr p.loc p.cap p.ix.tmp p.ix.tmp2 a →
      (Grid.runLanes (evalWork (evWave (fun _ => ⟨delay, p.cap⟩) p.loc) ops opStart) l S k).c a =
        (cpuLevel (evWave (fun _ => ⟨delay, p.cap⟩) p.loc) ops opStart opStop 0 sims S k).c a :=
  MapSound.level_any_order_of_check p hc hmin delay ops hops opStart opStop sims hstop hlev l hl S k

/-- the rows between two neighbouring entries `a < b` of `level_starts` (no entry strictly between `a` and `b`: e.g.
    `(level_starts[i], level_stops[i])`) lie in one level -/
theorem oneLevelB_of_starts (p : MapIn) (a b : Nat) (h : ∀ t ∈ p.starts, t ≤ a ∨ b ≤ t) : p.oneLevelB a b = true :=
  MapSound.oneLevelB_of_gap p a b h

/-- **… ALL circuits, no per-instance certificate**: the same for the tables the `SimOps` model builds (`simopsMap`, tied to the
    real `ops` / `level_starts` / `c_locs` / `c_caps` by exact correspondence) — the certificate is `C08.simops_map_accepted`;
    what remains are the domain predicates on the netlist and its order -/
theorem level_threads_any_order_all_circuits (tbl : List PrefixRow) (net : Net) (order : List Nat) (strip : Bool)
    (capsIn : Nat → Nat) (capsMin : Nat) (reuse : Bool) (hwf : net.wfB = true) (ho : orderOKB net order = true)
    (hf : strip = true → forksOKB net order = true) (hr : readsDrivenB tbl net order = true) (hmin : 2 ≤ capsMin)
    (delay : Nat → Bool → Bool → Int) (ops : List AOp)
    (hops : ops.map (·.op) = (simopsMap tbl net order strip capsIn capsMin reuse).ops)
    (opStart opStop sims : Nat) (hstop : opStop ≤ (simopsMap tbl net order strip capsIn capsMin reuse).ops.length)
    (hlev : (simopsMap tbl net order strip capsIn capsMin reuse).oneLevelB opStart opStop = true)
    (l : List (Nat × Nat)) (hl : l.Perm (Grid.cpuLoop sims (opStop - opStart))) (S : Nat → LaneSt) (k : Nat) :
    let p := simopsMap tbl net order strip capsIn capsMin reuse
    (Grid.runLanes (evalWork (evWave (fun _ => ⟨delay, p.cap⟩) p.loc) ops opStart) l S k).ab =
      (cpuLevel (evWave (fun _ => ⟨delay, p.cap⟩) p.loc) ops opStart opStop 0 sims S k).ab ∧
    ∀ a, ¬ scrAddr p.loc p.cap p.ix.tmp p.ix.tmp2 a →
      (Grid.runLanes (evalWork (evWave (fun _ => ⟨delay, p.cap⟩) p.loc) ops opStart) l S k).c a =
        (cpuLevel (evWave (fun _ => ⟨delay, p.cap⟩) p.loc) ops opStart opStop 0 sims S k).c a :=
  level_threads_any_order _ (simopsMap_accepted tbl net order strip capsIn capsMin reuse hwf ho hf hr (by omega)) hmin delay ops hops
    opStart opStop sims hstop hlev l hl S k

/-- **… EVERY level of EVERY circuit**: level `i` of the model's `level_starts` — rows `level_starts[i] … level_stops[i] - 1`
    (`level_stops[i]` = the next entry, or the number of rows for the last level): no hypothesis about the row range remains
    (`StartsOK` of the model's table is part of `C08.simops_program_facts`) -/
theorem level_threads_any_order_every_level (tbl : List PrefixRow) (net : Net) (order : List Nat) (strip : Bool)
    (capsIn : Nat → Nat) (capsMin : Nat) (reuse : Bool) (hwf : net.wfB = true) (ho : orderOKB net order = true)
    (hf : strip = true → forksOKB net order = true) (hr : readsDrivenB tbl net order = true) (hmin : 2 ≤ capsMin)
    (delay : Nat → Bool → Bool → Int) (ops : List AOp)
    (hops : ops.map (·.op) = (simopsMap tbl net order strip capsIn capsMin reuse).ops)
    (i : Nat) (hi : i < (simopsMap tbl net order strip capsIn capsMin reuse).starts.length) (sims : Nat)
    (l : List (Nat × Nat)) (S : Nat → LaneSt) (k : Nat) :
    let p := simopsMap tbl net order strip capsIn capsMin reuse
    let opStart := p.starts[i]
    let opStop := p.starts.getD (i + 1) p.ops.length
    l.Perm (Grid.cpuLoop sims (opStop - opStart)) →
    (Grid.runLanes (evalWork (evWave (fun _ => ⟨delay, p.cap⟩) p.loc) ops opStart) l S k).ab =
      (cpuLevel (evWave (fun _ => ⟨delay, p.cap⟩) p.loc) ops opStart opStop 0 sims S k).ab ∧
    ∀ a, ¬ scrAddr p.loc p.cap p.ix.tmp p.ix.tmp2 a →
      (Grid.runLanes (evalWork (evWave (fun _ => ⟨delay, p.cap⟩) p.loc) ops opStart) l S k).c a =
        (cpuLevel (evWave (fun _ => ⟨delay, p.cap⟩) p.loc) ops opStart opStop 0 sims S k).c a := by
  intro p opStart opStop hl
  have hs := MapSound.oneLevel_of_startsOK p (C08.simops_program_facts tbl net order strip capsIn capsMin reuse hwf ho hf hr).starts i hi
  exact level_threads_any_order_all_circuits tbl net order strip capsIn capsMin reuse hwf ho hf hr hmin delay ops hops
    opStart opStop sims hs.2 hs.1 l hl S k

/-! non-vacuity: two inputs behind three-way forks, `AND2` and `OR2` with UNCONNECTED outputs (both write the scratch slot 10)
and `XOR2` driving the output — one level (rows 8, 9, 10 without `strip_forks`, rows 2, 3, 4 with it) holds two scratch writers -/
def scrNet : Net :=
  { nodes := #[⟨"input", [], [some 0]⟩, ⟨"input", [], [some 1]⟩, ⟨"__fork__", [some 0], [some 2, some 3, some 4]⟩,
               ⟨"__fork__", [some 1], [some 5, some 6, some 7]⟩, ⟨"AND2", [some 2, some 5], []⟩, ⟨"OR2", [some 3, some 6], []⟩,
               ⟨"XOR2", [some 4, some 7], [some 8]⟩, ⟨"output", [some 8], []⟩],
    lines := #[⟨0, 0, 2, 0⟩, ⟨1, 0, 3, 0⟩, ⟨2, 0, 4, 0⟩, ⟨2, 1, 5, 0⟩, ⟨2, 2, 6, 0⟩, ⟨3, 0, 4, 1⟩, ⟨3, 1, 5, 1⟩, ⟨3, 2, 6, 1⟩, ⟨6, 0, 7, 0⟩],
    io := [0, 1, 7] }
def scrOrder : List Nat := [0, 1, 2, 3, 4, 5, 6, 7]
def scrMap (strip : Bool) : MapIn := simopsMap Gen.kindPrefixes scrNet scrOrder strip (fun _ => 4) 4 true
theorem scr_hyps : scrNet.wfB = true ∧ orderOKB scrNet scrOrder = true ∧ forksOKB scrNet scrOrder = true ∧
    readsDrivenB Gen.kindPrefixes scrNet scrOrder = true := by decide +kernel

example : ((scrMap false).ops.drop 8).map (·.out) = [10, 10, 8] ∧ scrNet.idx.tmp = 10 ∧ (scrMap false).starts = [0, 2, 8] ∧
    (scrMap false).oneLevelB 8 11 = true ∧ (scrMap false).ops.length = 11 ∧ (scrMap false).scratchClashLevels = 1 ∧
    (scrMap false).levelsIndepB = true ∧
    -- the condition of the former theorem fails on the two scratch writers
    opsIndepB (scrMap false).loc (scrMap false).cap ((scrMap false).ops.getD 8 default) ((scrMap false).ops.getD 9 default) = false ∧
    ((scrMap true).ops.drop 2).map (·.out) = [10, 10, 8] ∧ (scrMap true).starts = [0, 2] ∧ (scrMap true).oneLevelB 2 5 = true ∧
    (scrMap true).levelsIndepB = true := by decide +kernel

/-- the nine threads (3 lanes × rows 8, 9, 10) of that level in a scrambled order, any accumulation controls -/
example (delay : Nat → Bool → Bool → Int) (ctl : OpRow → AOp) (hctl : ∀ o, (ctl o).op = o) (S : Nat → LaneSt) (k : Nat) :=
  level_threads_any_order_all_circuits Gen.kindPrefixes scrNet scrOrder false (fun _ => 4) 4 true scr_hyps.1 scr_hyps.2.1
    (fun _ => scr_hyps.2.2.1) scr_hyps.2.2.2 (by decide) delay ((scrMap false).ops.map ctl)
    (by rw [List.map_map]; conv => rhs; rw [← List.map_id (simopsMap _ _ _ _ _ _ _).ops]
        exact List.map_congr_left (fun o _ => hctl o))
    8 11 3 (by decide +kernel) (by decide +kernel)
    [(2, 1), (0, 0), (1, 2), (2, 0), (0, 2), (1, 0), (0, 1), (2, 2), (1, 1)] (by decide) S k

/-- … and as level 2 (the third) of the model's table, no row-range hypotheses -/
example (delay : Nat → Bool → Bool → Int) (ctl : OpRow → AOp) (hctl : ∀ o, (ctl o).op = o) (sims : Nat) (l : List (Nat × Nat))
    (S : Nat → LaneSt) (k : Nat) :=
  level_threads_any_order_every_level Gen.kindPrefixes scrNet scrOrder false (fun _ => 4) 4 true scr_hyps.1 scr_hyps.2.1
    (fun _ => scr_hyps.2.2.1) scr_hyps.2.2.2 (by decide) delay ((scrMap false).ops.map ctl)
    (by rw [List.map_map]; conv => rhs; rw [← List.map_id (simopsMap _ _ _ _ _ _ _).ops]
        exact List.map_congr_left (fun o _ => hctl o))
    2 (by decide +kernel) sims l S k

end Threads

/-- accumulated switching activity is the same for every thread order (addition commutes) -/
theorem abuf_any_order (ab : Nat → Int) (cs cs' : List Wave.Contrib) (h : cs.Perm cs') :
    Wave.accumulate ab cs = Wave.accumulate ab cs' := Wave.accumulate_perm ab cs cs' h

/-- GPU code path, kernel launch (model `Grid.launch` of the mock launcher's four nested loops with `_grid_dim` blocks,
    tied to `MockCuda.jit` / `cdiv` / `_grid_dim` by exact correspondence of the launch order): for EVERY item count and
    EVERY block shape the threads that pass the kernel guards are exactly the work items `(x, y)`, `x < n`, `y < m`, each
    exactly once — no item is skipped, none is evaluated twice, no surplus thread does any work — and the grid is tight. -/
theorem gpu_launch_covers (n m bx by_ : Nat) (hbx : 0 < bx) (hby : 0 < by_) :
    (Grid.kernelThreads n m bx by_).Nodup ∧ (∀ p, p ∈ Grid.kernelThreads n m bx by_ ↔ p.1 < n ∧ p.2 < m) ∧
    (Grid.kernelThreads n m bx by_).Perm (Grid.cpuLoop n m) ∧
    (0 < n → (Grid.cdiv n bx - 1) * bx < n) ∧ (0 < m → (Grid.cdiv m by_ - 1) * by_ < m) :=
  ⟨Grid.kernelThreads_nodup n m bx by_, fun _ => Grid.mem_kernelThreads hbx hby, Grid.kernelThreads_perm n m bx by_ hbx hby,
   Grid.grid_tight n bx hbx, Grid.grid_tight m by_ hby⟩

/-- … hence a kernel whose work items have pairwise disjoint footprints leaves the SAME whole memory as the CPU double
    loop over the same items, for every block shape (and, by `threads_any_order`, for every order of the threads) -/
theorem gpu_kernel_eq_cpu_loop {C} (th : Nat × Nat → Perm.Th C) (n m bx by_ : Nat) (hbx : 0 < bx) (hby : 0 < by_)
    (hinj : ∀ p ∈ Grid.cpuLoop n m, ∀ q ∈ Grid.cpuLoop n m, th p = th q → p = q)
    (hi : ∀ p ∈ Grid.cpuLoop n m, ∀ q ∈ Grid.cpuLoop n m, p ≠ q → Perm.indep (th p) (th q)) (mem : Perm.Mem C) :
    Perm.runL ((Grid.kernelThreads n m bx by_).map th) mem = Perm.runL ((Grid.cpuLoop n m).map th) mem := by
  have hp := Grid.kernelThreads_perm n m bx by_ hbx hby
  have hmem : ∀ p, p ∈ Grid.kernelThreads n m bx by_ ↔ p ∈ Grid.cpuLoop n m := fun p => hp.mem_iff
  refine Perm.runL_perm _ _ (hp.map th) ?_ ?_ mem
  · intro s hs t ht hne
    obtain ⟨p, hp1, rfl⟩ := List.mem_map.mp hs
    obtain ⟨q, hq1, rfl⟩ := List.mem_map.mp ht
    exact hi p ((hmem p).mp hp1) q ((hmem q).mp hq1) (fun e => hne (e ▸ rfl))
  · rw [List.Nodup, List.pairwise_map]
    refine List.Pairwise.imp_of_mem ?_ (Grid.kernelThreads_nodup n m bx by_)
    intro p q hp1 hq1 hne e
    exact hne (hinj p ((hmem p).mp hp1) q ((hmem q).mp hq1) e)

/-- non-vacuity: 3 × 2 items with 2 × 2 blocks: 2 × 1 blocks = 8 launched threads, 6 of them active, in launch order -/
example : Grid.kernelThreads 3 2 2 2 = [(0, 0), (0, 1), (1, 0), (1, 1), (2, 0), (2, 1)] ∧
    (Grid.launch (Grid.cdiv 3 2) (Grid.cdiv 2 2) 2 2).length = 8 := by decide

/-- non-vacuity: a level with three independent ops -/
example : levelIndepB [⟨34952, 10, [0, 1, 9, 9]⟩, ⟨61166, 11, [0, 2, 9, 9]⟩, ⟨21845, 12, [3, 9, 9, 9]⟩] = true := by decide

end KV.C07
