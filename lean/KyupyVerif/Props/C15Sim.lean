import KyupyVerif.Props.C01
import KyupyVerif.Props.C02
import KyupyVerif.Props.C15Gen
import KyupyVerif.Proofs.DataPathLanes
import KyupyVerif.Proofs.DataPathStr
import KyupyVerif.Proofs.DataPathVal
import KyupyVerif.Proofs.DataPathCycle
import KyupyVerif.Drv.DataPath
/-! # C15 × C01/C02/C06 — the data path: from PATTERN STRINGS to RESULT STRINGS through `LogicSim`

What a user does:

    sim = LogicSim(circuit, sims=P, m=m)                         # fresh: c = 0, s rows = (0, 255, 0)
    sim.s[0] = mv_to_bp(mvarray(*strings))                         # = logic.bparray(*strings)
    sim.s_to_c(); sim.c_prop(); sim.c_to_s()
    mv_str(bp_to_mv(sim.s[1])[..., :P])

Model: `DP.simStrings` / `DP.simArr` (Model/DataPath.lean) = `mvarray`, `mvToBp`, `bpToMv`, `mvStr` of Model/Encode.lean (C15)
around the BYTE-level `s_to_c; c_prop; c_to_s` (`DP.captureB`): an `s` row is three planes of `nbytes` bytes; a plane is read as ONE
`BitVec (8 * nbytes)` (`DP.ofBytes`: lane `8j + i` = bit `i` of byte `j`, as `np.packbits(bitorder='little')` packs); the arity
decides which planes are read and written (`DP.codec2/4/8`); the memory holds `BitVec` (m = 2), `P2 BitVec` (m = 4), `P3 BitVec`
(m = 8) values and the op rows run the GENERATED bit-parallel dispatchers (`C01.semLw`, `C02.semLw4`, `C02.semLw8` over `Gen.sem2n`,
`Gen.sem4`, `Gen.sem8`) — the domains and semantics of the lane theorems `C01.sim2_lanes`, `C02.sim4_lanes`, `C02.sim8_lanes`.

THEOREM (this file), for every well-formed netlist (`Net.wfB`), every topological order (`orderOKB`), m ∈ {2, 4, 8}, every number of
patterns `P` (not only multiples of 8) and every array / list of patterns:
* (1) bridge — `mv_to_bp_planes_are_lanes`, `bp_to_mv_reads_lanes`, `plane_bytes_roundtrip`, `plane_lane_is_byte_bit`: the byte layout
  of C15 and the `BitVec` lanes of C01/C02/C06 are the same thing;
* (2a) `logic_sim_lane2/4/8` — ANY lane (padding lanes too), ANY simulator state (any `s[0]`, `s[1]` left by earlier runs, any memory):
  pattern `p` of `bp_to_mv(s[1])` at a captured position is the code of the ONE-LANE simulation of lane `p` of `s[0]` (plus, for
  m = 2, 4, four times the old plane-2 bit that `c_to_s` does not overwrite): lanes never influence one another;
* (2b) `logic_sim_patterns_end_to_end2/4/8` — array level, fresh simulator: entry `[q][p]` of the result is the code of the value that
  ANY (= the unique, C02 `sim*_all_circuits`) solution of the netlist's gate equations in that logic's documented algebra, for
  stimulus pattern `p`, gives the line on data pin 0 of `s_nodes[q]`; `0` for a state element with open data pin (it captures the
  constant slot); UNASSIGNED (`2`, rendered `-`) at a port nothing is captured into;
* (2c) `pattern_result_independent2/4/8` — the result of a pattern depends on that pattern only: not on the other patterns, not on
  its position in the batch, not on `P`;
* (2d) `logic_sim_strings_end_to_end2/4/8` + `lane_run_is_the_solution2/4/8` — string level (`P ≥ 2` strings of length
  `S = len(s_nodes) ≠ 1`; GENERATED `interpret` and render tables): the result text is, line `p` / column `q`, the render character of
  the code of `laneRun` of string `p` at the captured signal, and `laneRun` is THE solution of the gate equations;
  `logic_sim_string_single8/4/2`: one string (`P = 1`);
* (2e) `strip_forks_irrelevant_patterns2/4/8` — the result array of a simulator built with `strip_forks=True` is the one of the un-stripped
  simulator (hypotheses `forksOKB`, `capDriversB` of C06 / C01), so (2b) holds for both settings;
* (3) `cycle(k)` at byte level: `cycle_byte_level_is_value_level` — the byte-level loop seen through the planes `:mdim` IS `Cycle.cycleK` of C01
  (m = 2, 4: `s_ppo_to_ppi` copies the row; m = 8: the transition builder `merge8W`), so C01 `cycle_step`, `cycle_iter`, `cycle_end_to_end`,
  `cycle_strip_irrelevant` speak about the bytes; `cycle_patterns2/4/8` — lane `p` (padding lanes too) of the planes of `s[0]`, `s[1]` after
  `k` cycles = the one-lane `Cycle.cycleK` on lane `p`; `cycle_patterns_end_to_end2` — composition with C01 `cycle_iter` (k-fold next-state
  iterate, port rows untouched, `s[1]` = capture of the previous labelling);
* `driver_runs_the_model`, `driver_array_form` — the bit-parallel semantics and the array form (`cycle1BA`, `cycleKBA`) the driver command
  `dp.run` evaluates are / leave the same `s` as the functions of these theorems.
CORRESPONDENCE (harness/c15.py `datapath_tie`, driver command `dp.run`): on generated circuits (C01's generator, incl. state elements,
open data pins, ports without data pin), m ∈ {2, 4, 8}, `strip_forks` ∈ {0, 1}, random pattern strings over alphabet + aliases, `P` =
1..23, `k` = 0..3 cycles, `c_reuse` ∈ {0, 1}: EVERY BYTE of `s[0]`, `s[1]` after the real run (all three planes, padding lanes included) =
`DP.cycleKBA` / `DP.cycle1BA`, and the real `mv_str(bp_to_mv(s[1])[..., :P])` = `mvStr ∘ takeLast P ∘ bpToMv` of the model rows;
hypotheses `wfB`, `orderOKB` evaluated per case on the real circuit and the real `topological_order()`.  Still correspondence, not
theorem: that the real `SimOps` tables are the model's (`genOps`, `tabsOf`: C01 `cycle_tie`, C08), that the real memory-level run
equals the signal-level one (theorem under the map certificate: C01 `cycle_on_memory`), NumPy itself.
NOT modelled: NumPy broadcasting of an `s[0]` assignment whose byte count differs from the simulator's (`sims` must give
`cdiv P 8` bytes; the model returns `none` when the shape is not `(S, 3, nbytes)`); `inject_cb`. -/
namespace KV.C15
open KV KV.Sig KV.Cycle KV.Enc KV.DP

/-! ## (1) the bridge: bytes of C15 ↔ `BitVec` lanes of C01/C02/C06 -/

/-- lane `p` of a plane of `nb` bytes read as `BitVec (8 * nb)` is bit `p % 8` (least significant first) of byte `p / 8` -/
theorem plane_lane_is_byte_bit (nb : Nat) (bytes : List Nat) (p : Nat) :
    (ofBytes nb bytes).getLsbD p = (decide (p < 8 * nb) && (bytes.getD (p / 8) 0 / 2 ^ (p % 8) % 2 == 1)) :=
  getLsbD_ofBytes_byte nb bytes p

/-- bytes ↔ bit vector: `toBytes` produces `nb` bytes that read back as the same vector, lane by lane -/
theorem plane_bytes_roundtrip (nb : Nat) (v : BitVec (8 * nb)) :
    (toBytes nb v).length = nb ∧ ofBytes nb (toBytes nb v) = v ∧
    ∀ p, (unpackBytes (toBytes nb v)).getD p false = v.getLsbD p :=
  ⟨toBytes_length nb v, ofBytes_toBytes nb v, unpack_toBytes nb v⟩

/-- **`mv_to_bp`, planes as lanes**: plane `b` of the row `mv_to_bp` makes of `P` values, read as a bit vector of `8 * cdiv P 8`
    lanes: lane `p < P` is bit `b` of pattern `p`, every padding lane is 0 -/
theorem mv_to_bp_planes_are_lanes (row : List Nat) (b p : Nat) (hb : b < 3) :
    (plane (cdiv row.length 8) (mvToBpRow (cdiv row.length 8) row) b).getLsbD p
      = (decide (p < row.length) && (row.getD p 0 / 2 ^ b % 2 == 1)) :=
  plane_mvToBpRow row b p hb

/-- **`bp_to_mv`, lanes as codes**: pattern `p` of `bp_to_mv` of three planes of `nb` bytes is
    `lane p of plane 0 + 2 * lane p of plane 1 + 4 * lane p of plane 2` -/
theorem bp_to_mv_reads_lanes (nb : Nat) (x0 x1 x2 : List Nat) (p : Nat) (hp : p < 8 * nb) :
    (bpToMvRow nb [x0, x1, x2]).getD p 0 =
      b2n ((ofBytes nb x0).getLsbD p) + 2 * b2n ((ofBytes nb x1).getLsbD p) + 4 * b2n ((ofBytes nb x2).getLsbD p) :=
  bpToMvRow_lanes nb x0 x1 x2 p hp

example : ofBytes 2 [0b10101010, 0b10101] = 0b1010110101010#16 ∧ toBytes 2 0b1010110101010#16 = [0b10101010, 0b10101] ∧
    (plane 2 (mvToBpRow 2 [0, 1, 2, 3, 4, 5, 6, 7, 7, 6, 5, 4, 3]) 0) = 0b1010110101010#16 := by decide +kernel

/-! ## the simulators of the three arities -/

/-- the bit-parallel op semantics on `8 * nb` lanes: the generated dispatchers of C01 / C02 -/
def semW2 (nb : Nat) : Nat → List (BitVec (8 * nb)) → BitVec (8 * nb) := C01.semLw (8 * nb)
def semW4 (nb : Nat) : Nat → List (P2 (BitVec (8 * nb))) → P2 (BitVec (8 * nb)) := C02.semLw4 (8 * nb)
def semW8 (nb : Nat) : Nat → List (P3 (BitVec (8 * nb))) → P3 (BitVec (8 * nb)) := C02.semLw8 (8 * nb)

/-- array level: `bp_to_mv(s[1])[..., :P]` of a fresh `LogicSim(m)` after `s[0] = mv_to_bp(a); s_to_c; c_prop; c_to_s` -/
def sim2 := simArr codec2 (fun nb op => semW2 nb op.code) Gen.kindPrefixes
def sim4 := simArr codec4 (fun nb op => semW4 nb op.code) Gen.kindPrefixes
def sim8 := simArr codec8 (fun nb op => semW8 nb op.code) Gen.kindPrefixes

/-- string level, generated `interpret` / render tables -/
def simStr2 (delim : List Nat) :=
  simStrings codec2 (fun nb op => semW2 nb op.code) Gen.interpretAscii Gen.renderChars delim Gen.kindPrefixes
def simStr4 (delim : List Nat) :=
  simStrings codec4 (fun nb op => semW4 nb op.code) Gen.interpretAscii Gen.renderChars delim Gen.kindPrefixes
def simStr8 (delim : List Nat) :=
  simStrings codec8 (fun nb op => semW8 nb op.code) Gen.interpretAscii Gen.renderChars delim Gen.kindPrefixes

theorem lanes2 (nb p : Nat) (hp : p < 8 * nb) (ops : List Op) (env : Nat → BitVec (8 * nb)) (l : Nat) :
    ln2 nb p (exec (semW2 nb) ops env l) = exec semL2n ops (fun x => ln2 nb p (env x)) l :=
  C01.sim2_lanes (8 * nb) p hp ops env l
theorem lanes4 (nb p : Nat) (hp : p < 8 * nb) (ops : List Op) (env : Nat → P2 (BitVec (8 * nb))) (l : Nat) :
    ln4 nb p (exec (semW4 nb) ops env l) = exec semL4 ops (fun x => ln4 nb p (env x)) l :=
  C02.sim4_lanes (8 * nb) p hp ops env l
theorem lanes8 (nb p : Nat) (hp : p < 8 * nb) (ops : List Op) (env : Nat → P3 (BitVec (8 * nb))) (l : Nat) :
    ln8 nb p (exec (semW8 nb) ops env l) = exec semL8 ops (fun x => ln8 nb p (env x)) l :=
  C02.sim8_lanes (8 * nb) p hp ops env l

/-! ## (2a) one lane of the byte-level run: any lane, any state

`captureB C sem ops T env0 s0 s1` is `s[1]` after `s_to_c(); c_prop(); c_to_s()` on the byte-level state (`s0`, `s1` = the rows of
`s[0]`, `s[1]` before, `env0` the memory before). Position `q` is captured (`isPoppo`: every state element, a port iff its data pin 0
is connected); `capSig` is the signal it captures. -/

/-- **m = 8** -/
theorem logic_sim_lane8 (nb : Nat) (ops : List Op) (net : Net) (strip : Bool) (env0 : Nat → P3 (BitVec (8 * nb)))
    (s0 s1 : List SRow) (q p : Nat) (hp : p < 8 * nb) (hq : q < s1.length) (hcap : isPoppo net q = true) :
    (bpToMvRow nb ((captureB (codec8 nb) (fun op => semW8 nb op.code) ops (tabsOf net strip) env0 s0 s1).getD q [])).getD p 0 =
      (exec semL8 ops (sToC (tabsOf net strip) V3.zero (s0.map fun r => ln8 nb p ((codec8 nb).dec r)) (fun x => ln8 nb p (env0 x)))
        (capSig net strip q)).code := by
  have := captureB_lane (codec8 nb) nb (ln8 nb) V3.ofCode V3.code 0 (semW8 nb) semL8 (lv8 nb) (lanes8 nb) ops net strip env0 s0 s1
    q p hp hq hcap
  rw [Nat.zero_mul, Nat.add_zero] at this
  exact this

/-- **m = 4**: plus four times the plane-2 bit `s[1]` held before (`c_to_s` writes planes 0, 1 only) -/
theorem logic_sim_lane4 (nb : Nat) (ops : List Op) (net : Net) (strip : Bool) (env0 : Nat → P2 (BitVec (8 * nb)))
    (s0 s1 : List SRow) (q p : Nat) (hp : p < 8 * nb) (hq : q < s1.length) (hcap : isPoppo net q = true) :
    (bpToMvRow nb ((captureB (codec4 nb) (fun op => semW4 nb op.code) ops (tabsOf net strip) env0 s0 s1).getD q [])).getD p 0 =
      (exec semL4 ops (sToC (tabsOf net strip) (ofCode4 0) (s0.map fun r => ln4 nb p ((codec4 nb).dec r))
        (fun x => ln4 nb p (env0 x))) (capSig net strip q)).code + 4 * b2n ((plane nb (s1.getD q []) 2).getLsbD p) :=
  captureB_lane (codec4 nb) nb (ln4 nb) ofCode4 V2.code 4 (semW4 nb) semL4 (lv4 nb) (lanes4 nb) ops net strip env0 s0 s1 q p hp hq hcap

/-- **m = 2**: the captured bit shows in planes 0 and 1 (`0` or `1`), plus four times the old plane-2 bit -/
theorem logic_sim_lane2 (nb : Nat) (ops : List Op) (net : Net) (strip : Bool) (env0 : Nat → BitVec (8 * nb))
    (s0 s1 : List SRow) (q p : Nat) (hp : p < 8 * nb) (hq : q < s1.length) (hcap : isPoppo net q = true) :
    (bpToMvRow nb ((captureB (codec2 nb) (fun op => semW2 nb op.code) ops (tabsOf net strip) env0 s0 s1).getD q [])).getD p 0 =
      code2 (exec semL2n ops (sToC (tabsOf net strip) false (s0.map fun r => ln2 nb p ((codec2 nb).dec r))
        (fun x => ln2 nb p (env0 x))) (capSig net strip q)) + 4 * b2n ((plane nb (s1.getD q []) 2).getLsbD p) :=
  captureB_lane (codec2 nb) nb (ln2 nb) ofCode2 code2 4 (semW2 nb) semL2n (lv2 nb) (lanes2 nb) ops net strip env0 s0 s1 q p hp hq hcap

/-! ## (2b) array level: every netlist, order, `P`, pattern array — against ANY solution of the gate equations

`column ofCode a p` = pattern `p` of the array `a` (shape `(S, P)`, `S = len(s_nodes)`) as lane values, one per `s_nodes` position;
`sToC (tabsOf net false) zero (column …) (fun _ => zero)` = the stimulus: the pattern on the (P)PI slots, zero elsewhere (fresh memory).
`SolvesJ (Jt net) (fun op => specL op.code) ops stim val`: `val` keeps the stimulus on every signal no row writes and satisfies the
gate equation of every row, in the documented algebra (`specL8`/`specL4`: `comp8`/`comp4` compositions; `specL2`: truth tables =
documented formulas). Such a `val` exists and is unique (C02 `sim*_all_circuits`); (N) `C02.gate_equations_are_netlist` restates it as
consistency with the netlist. -/

/-- **m = 8.** Entry `[q][p]` of the result = code of the value the solution for pattern `p` gives the line on data pin 0 of
    `s_nodes[q]`; 0 for a state element with open data pin; UNASSIGNED at a port without data pin. -/
theorem logic_sim_patterns_end_to_end8 (net : Net) (order : List Nat) (hwf : net.wfB = true) (ho : orderOKB net order = true)
    (a : Arr Nat) (ha : a.wf = true) (hS : a.lead = [net.sNodes.length]) :
    ∃ r, sim8 net order false a = some r ∧ r.lead = [net.sNodes.length] ∧ r.last = a.last ∧ r.wf = true ∧
      ∀ p, p < a.last → ∀ val : Nat → V3,
        SolvesJ (Jt net) (fun op => specL8 op.code) ((genOps Gen.kindPrefixes net order false).map OpRow.toOp)
          (sToC (tabsOf net false) V3.zero (column V3.ofCode a p) (fun _ => V3.zero)) val →
        (∀ q l, q < net.sNodes.length → (sNodeAt net q).inPin 0 = some l → (r.rows.getD q []).getD p 0 = (val l).code) ∧
        (∀ q, net.io.length ≤ q → q < net.sNodes.length → (sNodeAt net q).inPin 0 = none → (r.rows.getD q []).getD p 0 = 0) ∧
        (∀ q, q < net.io.length → (sNodeAt net q).inPin 0 = none → (r.rows.getD q []).getD p 0 = 2) :=
  simArr_val codec8 ln8 V3.ofCode V3.code 0 semW8 semL8 lv8 lanes8 Gen.kindPrefixes net order hwf ho specL8
    (fun env val hv => (C02.sim8_all_circuits net order hwf ho env).2 val hv) a ha hS

/-- **m = 4** (lane value of an entry: planes 0, 1 — `ofCode4`) -/
theorem logic_sim_patterns_end_to_end4 (net : Net) (order : List Nat) (hwf : net.wfB = true) (ho : orderOKB net order = true)
    (a : Arr Nat) (ha : a.wf = true) (hS : a.lead = [net.sNodes.length]) :
    ∃ r, sim4 net order false a = some r ∧ r.lead = [net.sNodes.length] ∧ r.last = a.last ∧ r.wf = true ∧
      ∀ p, p < a.last → ∀ val : Nat → V2,
        SolvesJ (Jt net) (fun op => specL4 op.code) ((genOps Gen.kindPrefixes net order false).map OpRow.toOp)
          (sToC (tabsOf net false) (ofCode4 0) (column ofCode4 a p) (fun _ => ofCode4 0)) val →
        (∀ q l, q < net.sNodes.length → (sNodeAt net q).inPin 0 = some l → (r.rows.getD q []).getD p 0 = (val l).code) ∧
        (∀ q, net.io.length ≤ q → q < net.sNodes.length → (sNodeAt net q).inPin 0 = none → (r.rows.getD q []).getD p 0 = 0) ∧
        (∀ q, q < net.io.length → (sNodeAt net q).inPin 0 = none → (r.rows.getD q []).getD p 0 = 2) :=
  simArr_val codec4 ln4 ofCode4 V2.code 4 semW4 semL4 lv4 lanes4 Gen.kindPrefixes net order hwf ho specL4
    (fun env val hv => (C02.sim4_all_circuits net order hwf ho env).2 val hv) a ha hS

/-- **m = 2** (lane value of an entry: plane 0 — `ofCode2`; a captured `true` shows as `1` = code 3, `false` as `0`) -/
theorem logic_sim_patterns_end_to_end2 (net : Net) (order : List Nat) (hwf : net.wfB = true) (ho : orderOKB net order = true)
    (a : Arr Nat) (ha : a.wf = true) (hS : a.lead = [net.sNodes.length]) :
    ∃ r, sim2 net order false a = some r ∧ r.lead = [net.sNodes.length] ∧ r.last = a.last ∧ r.wf = true ∧
      ∀ p, p < a.last → ∀ val : Nat → Bool,
        SolvesJ (Jt net) (fun op => specL2 op.code) ((genOps Gen.kindPrefixes net order false).map OpRow.toOp)
          (sToC (tabsOf net false) false (column ofCode2 a p) (fun _ => false)) val →
        (∀ q l, q < net.sNodes.length → (sNodeAt net q).inPin 0 = some l → (r.rows.getD q []).getD p 0 = code2 (val l)) ∧
        (∀ q, net.io.length ≤ q → q < net.sNodes.length → (sNodeAt net q).inPin 0 = none → (r.rows.getD q []).getD p 0 = 0) ∧
        (∀ q, q < net.io.length → (sNodeAt net q).inPin 0 = none → (r.rows.getD q []).getD p 0 = 2) :=
  simArr_val codec2 ln2 ofCode2 code2 4 semW2 semL2n lv2 lanes2 Gen.kindPrefixes net order hwf ho specL2
    (fun env val hv => (C02.sim2_all_circuits net order hwf ho env).2 val hv) a ha hS

/-! ## (2c) a pattern's result depends on that pattern only -/

theorem pattern_result_independent8 (net : Net) (order : List Nat) (strip : Bool) (a a' : Arr Nat)
    (hwf : a.wf = true) (hS : a.lead = [net.sNodes.length]) (hwf' : a'.wf = true) (hS' : a'.lead = [net.sNodes.length])
    (p p' : Nat) (hp : p < a.last) (hp' : p' < a'.last) (hcol : a.rows.map (·.getD p 0) = a'.rows.map (·.getD p' 0)) :
    ∃ r r', sim8 net order strip a = some r ∧ sim8 net order strip a' = some r' ∧
      ∀ q, q < net.sNodes.length → (r.rows.getD q []).getD p 0 = (r'.rows.getD q []).getD p' 0 :=
  simArr_indep codec8 ln8 V3.ofCode V3.code 0 semW8 semL8 lv8 lanes8 Gen.kindPrefixes net order strip a a' hwf hS hwf' hS' p p' hp hp' hcol

theorem pattern_result_independent4 (net : Net) (order : List Nat) (strip : Bool) (a a' : Arr Nat)
    (hwf : a.wf = true) (hS : a.lead = [net.sNodes.length]) (hwf' : a'.wf = true) (hS' : a'.lead = [net.sNodes.length])
    (p p' : Nat) (hp : p < a.last) (hp' : p' < a'.last) (hcol : a.rows.map (·.getD p 0) = a'.rows.map (·.getD p' 0)) :
    ∃ r r', sim4 net order strip a = some r ∧ sim4 net order strip a' = some r' ∧
      ∀ q, q < net.sNodes.length → (r.rows.getD q []).getD p 0 = (r'.rows.getD q []).getD p' 0 :=
  simArr_indep codec4 ln4 ofCode4 V2.code 4 semW4 semL4 lv4 lanes4 Gen.kindPrefixes net order strip a a' hwf hS hwf' hS' p p' hp hp' hcol

theorem pattern_result_independent2 (net : Net) (order : List Nat) (strip : Bool) (a a' : Arr Nat)
    (hwf : a.wf = true) (hS : a.lead = [net.sNodes.length]) (hwf' : a'.wf = true) (hS' : a'.lead = [net.sNodes.length])
    (p p' : Nat) (hp : p < a.last) (hp' : p' < a'.last) (hcol : a.rows.map (·.getD p 0) = a'.rows.map (·.getD p' 0)) :
    ∃ r r', sim2 net order strip a = some r ∧ sim2 net order strip a' = some r' ∧
      ∀ q, q < net.sNodes.length → (r.rows.getD q []).getD p 0 = (r'.rows.getD q []).getD p' 0 :=
  simArr_indep codec2 ln2 ofCode2 code2 4 semW2 semL2n lv2 lanes2 Gen.kindPrefixes net order strip a a' hwf hS hwf' hS' p p' hp hp' hcol

/-! ## (2e) `strip_forks` does not change the result (C06 through the data path)

Domain hypotheses as in C06 / C01 `cycle_strip_irrelevant`: `forksOKB` (fork conventions of the order), `capDriversB` (the order contains
the driver of every captured line; `topological_order()` lists every node) — both evaluated on every generated circuit (C01 `cycle_tie`).
With this, (2b) holds verbatim for the simulator built with `strip_forks=True`. -/

theorem strip_forks_irrelevant_patterns8 (net : Net) (order : List Nat) (hwf : net.wfB = true) (ho : orderOKB net order = true)
    (hf : forksOKB net order = true) (hcov : capDriversB net order = true)
    (a : Arr Nat) (ha : a.wf = true) (hS : a.lead = [net.sNodes.length]) : sim8 net order true a = sim8 net order false a :=
  simArr_strip codec8 ln8 V3.ofCode V3.code 0 semW8 semL8 lv8 lanes8 Gen.kindPrefixes net order hwf ho hf hcov default semL8_buf1 a ha hS

theorem strip_forks_irrelevant_patterns4 (net : Net) (order : List Nat) (hwf : net.wfB = true) (ho : orderOKB net order = true)
    (hf : forksOKB net order = true) (hcov : capDriversB net order = true)
    (a : Arr Nat) (ha : a.wf = true) (hS : a.lead = [net.sNodes.length]) : sim4 net order true a = sim4 net order false a :=
  simArr_strip codec4 ln4 ofCode4 V2.code 4 semW4 semL4 lv4 lanes4 Gen.kindPrefixes net order hwf ho hf hcov default semL4_buf1 a ha hS

theorem strip_forks_irrelevant_patterns2 (net : Net) (order : List Nat) (hwf : net.wfB = true) (ho : orderOKB net order = true)
    (hf : forksOKB net order = true) (hcov : capDriversB net order = true)
    (a : Arr Nat) (ha : a.wf = true) (hS : a.lead = [net.sNodes.length]) : sim2 net order true a = sim2 net order false a :=
  simArr_strip codec2 ln2 ofCode2 code2 4 semW2 semL2n lv2 lanes2 Gen.kindPrefixes net order hwf ho hf hcov false semL2n_buf1 a ha hS

/-! ## (2d) string level: pattern strings in, result strings out (generated `interpret` and render tables)

`laneRun ofCode semL tbl net order strip stim` = the ONE-LANE simulation of one stimulus pattern (`stim[q]` = lane value at `s_nodes`
position `q`; fresh memory: zero). `lane_run_is_the_solution*`: it is THE solution of the netlist's gate equations in the documented
algebra — so column `q` of result line `p` renders the value the unique consistent labelling for string `p` gives the captured line. -/

theorem render_chars_8 : 8 ≤ Gen.renderChars.length := Nat.le_of_eq render_parse.1.symm

/-- **m = 8, strings**: `P ≥ 2` strings of length `S = len(s_nodes) ≠ 1` -/
theorem logic_sim_strings_end_to_end8 (delim : List Nat) (net : Net) (order : List Nat) (strip : Bool) (ss : List (List Nat))
    (hu : ∀ s ∈ ss, s.length = net.sNodes.length) (hP : 2 ≤ ss.length) (hS1 : net.sNodes.length ≠ 1) :
    simStr8 delim net order strip ss =
      some (delim.intercalate ((List.range ss.length).map fun p => (List.range net.sNodes.length).map fun q =>
        Gen.renderChars.getD (if isPoppo net q then
          (laneRun V3.ofCode semL8 Gen.kindPrefixes net order strip ((ss.getD p []).map fun c => V3.ofCode (interp c))
            (capSig net strip q)).code else 2) 0)) :=
  simStrings_eq codec8 ln8 V3.ofCode V3.code 0 semW8 semL8 lv8 lanes8 V3.code_lt Gen.interpretAscii Gen.renderChars delim
    render_chars_8 Gen.kindPrefixes net order strip ss hu hP hS1

theorem logic_sim_strings_end_to_end4 (delim : List Nat) (net : Net) (order : List Nat) (strip : Bool) (ss : List (List Nat))
    (hu : ∀ s ∈ ss, s.length = net.sNodes.length) (hP : 2 ≤ ss.length) (hS1 : net.sNodes.length ≠ 1) :
    simStr4 delim net order strip ss =
      some (delim.intercalate ((List.range ss.length).map fun p => (List.range net.sNodes.length).map fun q =>
        Gen.renderChars.getD (if isPoppo net q then
          (laneRun ofCode4 semL4 Gen.kindPrefixes net order strip ((ss.getD p []).map fun c => ofCode4 (interp c))
            (capSig net strip q)).code else 2) 0)) :=
  simStrings_eq codec4 ln4 ofCode4 V2.code 4 semW4 semL4 lv4 lanes4 V2.code_lt Gen.interpretAscii Gen.renderChars delim
    render_chars_8 Gen.kindPrefixes net order strip ss hu hP hS1

theorem logic_sim_strings_end_to_end2 (delim : List Nat) (net : Net) (order : List Nat) (strip : Bool) (ss : List (List Nat))
    (hu : ∀ s ∈ ss, s.length = net.sNodes.length) (hP : 2 ≤ ss.length) (hS1 : net.sNodes.length ≠ 1) :
    simStr2 delim net order strip ss =
      some (delim.intercalate ((List.range ss.length).map fun p => (List.range net.sNodes.length).map fun q =>
        Gen.renderChars.getD (if isPoppo net q then
          code2 (laneRun ofCode2 semL2n Gen.kindPrefixes net order strip ((ss.getD p []).map fun c => ofCode2 (interp c))
            (capSig net strip q)) else 2) 0)) :=
  simStrings_eq codec2 ln2 ofCode2 code2 4 semW2 semL2n lv2 lanes2 code2_lt Gen.interpretAscii Gen.renderChars delim
    render_chars_8 Gen.kindPrefixes net order strip ss hu hP hS1

/-- one pattern string (`P = 1`; any `S`) -/
theorem logic_sim_string_single8 (delim : List Nat) (net : Net) (order : List Nat) (strip : Bool) (s : List Nat)
    (hu : s.length = net.sNodes.length) :
    simStr8 delim net order strip [s] =
      some ((List.range net.sNodes.length).map fun q =>
        Gen.renderChars.getD (if isPoppo net q then
          (laneRun V3.ofCode semL8 Gen.kindPrefixes net order strip (s.map fun c => V3.ofCode (interp c)) (capSig net strip q)).code
          else 2) 0) :=
  simStrings_single codec8 ln8 V3.ofCode V3.code 0 semW8 semL8 lv8 lanes8 V3.code_lt Gen.interpretAscii Gen.renderChars delim
    render_chars_8 Gen.kindPrefixes net order strip s hu

theorem logic_sim_string_single4 (delim : List Nat) (net : Net) (order : List Nat) (strip : Bool) (s : List Nat)
    (hu : s.length = net.sNodes.length) :
    simStr4 delim net order strip [s] =
      some ((List.range net.sNodes.length).map fun q =>
        Gen.renderChars.getD (if isPoppo net q then
          (laneRun ofCode4 semL4 Gen.kindPrefixes net order strip (s.map fun c => ofCode4 (interp c)) (capSig net strip q)).code
          else 2) 0) :=
  simStrings_single codec4 ln4 ofCode4 V2.code 4 semW4 semL4 lv4 lanes4 V2.code_lt Gen.interpretAscii Gen.renderChars delim
    render_chars_8 Gen.kindPrefixes net order strip s hu

theorem logic_sim_string_single2 (delim : List Nat) (net : Net) (order : List Nat) (strip : Bool) (s : List Nat)
    (hu : s.length = net.sNodes.length) :
    simStr2 delim net order strip [s] =
      some ((List.range net.sNodes.length).map fun q =>
        Gen.renderChars.getD (if isPoppo net q then
          code2 (laneRun ofCode2 semL2n Gen.kindPrefixes net order strip (s.map fun c => ofCode2 (interp c)) (capSig net strip q))
          else 2) 0) :=
  simStrings_single codec2 ln2 ofCode2 code2 4 semW2 semL2n lv2 lanes2 code2_lt Gen.interpretAscii Gen.renderChars delim
    render_chars_8 Gen.kindPrefixes net order strip s hu

/-- the one-lane run IS the netlist's unique consistent labelling (8-valued documented algebra), for every well-formed netlist,
    topological order and stimulus pattern -/
theorem lane_run_is_the_solution8 (net : Net) (order : List Nat) (hwf : net.wfB = true) (ho : orderOKB net order = true)
    (stim : List V3) :
    let ops := (genOps Gen.kindPrefixes net order false).map OpRow.toOp
    let env := sToC (tabsOf net false) V3.zero stim (fun _ => V3.zero)
    SolvesJ (Jt net) (fun op => specL8 op.code) ops env (laneRun V3.ofCode semL8 Gen.kindPrefixes net order false stim) ∧
    ∀ val, SolvesJ (Jt net) (fun op => specL8 op.code) ops env val → ∀ x, Jt net x = false →
      val x = laneRun V3.ofCode semL8 Gen.kindPrefixes net order false stim x := by
  intro ops env
  have h := C02.sim8_all_circuits net order hwf ho env
  unfold laneRun
  rw [sigOps_false]
  exact h

theorem lane_run_is_the_solution4 (net : Net) (order : List Nat) (hwf : net.wfB = true) (ho : orderOKB net order = true)
    (stim : List V2) :
    let ops := (genOps Gen.kindPrefixes net order false).map OpRow.toOp
    let env := sToC (tabsOf net false) (ofCode4 0) stim (fun _ => ofCode4 0)
    SolvesJ (Jt net) (fun op => specL4 op.code) ops env (laneRun ofCode4 semL4 Gen.kindPrefixes net order false stim) ∧
    ∀ val, SolvesJ (Jt net) (fun op => specL4 op.code) ops env val → ∀ x, Jt net x = false →
      val x = laneRun ofCode4 semL4 Gen.kindPrefixes net order false stim x := by
  intro ops env
  have h := C02.sim4_all_circuits net order hwf ho env
  unfold laneRun
  rw [sigOps_false]
  exact h

theorem lane_run_is_the_solution2 (net : Net) (order : List Nat) (hwf : net.wfB = true) (ho : orderOKB net order = true)
    (stim : List Bool) :
    let ops := (genOps Gen.kindPrefixes net order false).map OpRow.toOp
    let env := sToC (tabsOf net false) false stim (fun _ => false)
    SolvesJ (Jt net) (fun op => specL2 op.code) ops env (laneRun ofCode2 semL2n Gen.kindPrefixes net order false stim) ∧
    ∀ val, SolvesJ (Jt net) (fun op => specL2 op.code) ops env val → ∀ x, Jt net x = false →
      val x = laneRun ofCode2 semL2n Gen.kindPrefixes net order false stim x := by
  intro ops env
  have h := C02.sim2_all_circuits net order hwf ho env
  unfold laneRun
  rw [sigOps_false]
  exact h

/-! ## non-vacuity: `P = 11` patterns (not a multiple of 8: two bytes per plane, five padding lanes) on `C01.demoNet`

`demoNet`: ports `a`, `b` (positions 0, 1), `out = NOT (a AND b)` (position 2); the third character of a pattern is assigned to the
output port's row of `s[0]` and never read. Expected texts = what the real `LogicSim` prints (harness/c15.py `datapath_tie`). -/
def demoPats : List (List Nat) :=
  ["00-", "01-", "10-", "11-", "X1-", "0X-", "R1-", "RF-", "N1-", "P1X", "-1-"].map fun s => s.toList.map Char.toNat
def demoOrder : List Nat := [0, 2, 1, 3, 4, 5, 6]
example : C01.demoNet.wfB = true ∧ orderOKB C01.demoNet demoOrder = true ∧ C01.demoNet.sNodes.length = 3 ∧
    demoPats.length = 11 ∧ (∀ s ∈ demoPats, s.length = C01.demoNet.sNodes.length) := by decide +kernel
example : simStr8 [10] C01.demoNet demoOrder false demoPats =
    some ("--1\n--1\n--1\n--0\n--X\n--1\n--F\n--N\n--P\n--N\n--X".toList.map Char.toNat) := by decide +kernel
example : simStr4 [10] C01.demoNet demoOrder false demoPats =
    some ("--1\n--1\n--1\n--0\n--X\n--1\n--X\n--X\n--0\n--1\n--X".toList.map Char.toNat) := by decide +kernel
example : simStr2 [10] C01.demoNet demoOrder false demoPats =
    some ("--1\n--1\n--1\n--0\n--0\n--1\n--0\n--1\n--0\n--1\n--1".toList.map Char.toNat) := by decide +kernel
/-- hypotheses of (2a)–(2e) on the demo objects: the array the strings denote is well-formed of shape `(S, 11)`; position 2 (the output
    port) is captured, positions 0, 1 (input ports) are not; pattern 6 of the 11-pattern array = pattern 0 of the one-pattern array;
    fork conventions and capture drivers hold -/
def demoArr : Arr Nat := ⟨[3], 11, [[0, 0, 3, 3, 1, 0, 5, 5, 7, 4, 2], [0, 3, 0, 3, 3, 1, 3, 6, 3, 3, 3], [2, 2, 2, 2, 2, 2, 2, 2, 2, 1, 2]]⟩
example : mvarray Gen.interpretAscii demoPats = some demoArr ∧ demoArr.wf = true ∧ demoArr.lead = [C01.demoNet.sNodes.length] ∧
    2 ≤ demoPats.length ∧ C01.demoNet.sNodes.length ≠ 1 ∧
    isPoppo C01.demoNet 2 = true ∧ isPoppo C01.demoNet 0 = false ∧ (sNodeAt C01.demoNet 2).inPin 0 = some 5 ∧
    demoArr.rows.map (·.getD 6 0) = (⟨[3], 1, [[5], [3], [2]]⟩ : Arr Nat).rows.map (·.getD 0 0) ∧
    forksOKB C01.demoNet demoOrder = true ∧ capDriversB C01.demoNet demoOrder = true := by decide +kernel
example : sim8 C01.demoNet demoOrder false demoArr = some ⟨[3], 11,
    [[2, 2, 2, 2, 2, 2, 2, 2, 2, 2, 2], [2, 2, 2, 2, 2, 2, 2, 2, 2, 2, 2], [3, 3, 3, 0, 1, 3, 6, 7, 4, 7, 1]]⟩ ∧
    sim8 C01.demoNet demoOrder true demoArr = sim8 C01.demoNet demoOrder false demoArr := by decide +kernel
/-- the array the eleven strings denote, and the bytes assigned to `s[0]` (three rows of three planes of two bytes) -/
example : (mvarray Gen.interpretAscii demoPats).map mvToBp = some ⟨[3, 3], 2,
    [[0xdc, 0x01], [0x0c, 0x05], [0xc0, 0x03], [0x7a, 0x07], [0xda, 0x07], [0x80, 0x00],
     [0x00, 0x02], [0xff, 0x05], [0x00, 0x00]]⟩ := by decide +kernel
example : simStr8 [10] C01.demoNet demoOrder false [demoPats.getD 6 []] = some ("--F".toList.map Char.toNat) := by decide +kernel

/-! ## (3) `cycle(k)` at byte level (m = 2; the byte ↔ value step also for m = 4)

`cycleKB C sem ops T k st` = `LogicSim.cycle(k)` on the byte-level state (`s_to_c; c_prop; c_to_s; s_ppo_to_ppi`, k times; for m = 2, 4
`s_ppo_to_ppi` copies the whole row `s[1, p]` to `s[0, p]`, all three planes). -/

/-- the byte-level loop, seen through the planes each arity reads, IS the value-level loop `Cycle.cycleK` of C01 (m = 2, 4: `merge` = copy; m = 8: the transition builder `merge8W`): every
    statement of C01 about `cycleK` over `BitVec` / `P2 BitVec` values (`cycle_step`, `cycle_iter`, `cycle_end_to_end`,
    `cycle_strip_irrelevant`) is a statement about the planes `:mdim` of the byte-level `s` -/
theorem cycle_byte_level_is_value_level (nb : Nat) (ops : List Op) (T : Tabs) (k : Nat) :
    (∀ (sem : Op → List (BitVec (8 * nb)) → BitVec (8 * nb)) (st : StB (BitVec (8 * nb))),
      decSt (codec2 nb) (cycleKB (codec2 nb) sem ops T k st) = cycleK sem ops T mergeCopy 0 k (decSt (codec2 nb) st)) ∧
    (∀ (sem : Op → List (P2 (BitVec (8 * nb))) → P2 (BitVec (8 * nb))) (st : StB (P2 (BitVec (8 * nb)))),
      decSt (codec4 nb) (cycleKB (codec4 nb) sem ops T k st) = cycleK sem ops T mergeCopy ⟨0, 0⟩ k (decSt (codec4 nb) st)) ∧
    (∀ (sem : Op → List (P3 (BitVec (8 * nb))) → P3 (BitVec (8 * nb))) (st : StB (P3 (BitVec (8 * nb)))),
      decSt (codec8 nb) (cycleKB (codec8 nb) sem ops T k st) = cycleK sem ops T merge8W ⟨0, 0, 0⟩ k (decSt (codec8 nb) st)) := by
  refine ⟨?_, ?_, ?_⟩
  · intro sem st
    have h := cycleKB_dec (codec2 nb) mergeCopy (codec2_lawful nb) sem ops T k st
    have hd : (codec2 nb).dec [] = 0 := by simp [codec2, plane]
    rw [hd] at h; exact h
  · intro sem st
    have h := cycleKB_dec (codec4 nb) mergeCopy (codec4_lawful nb) sem ops T k st
    have hd : (codec4 nb).dec [] = ⟨0, 0⟩ := by simp [codec4, plane]
    rw [hd] at h; exact h
  · intro sem st
    have h := cycleKB_dec (codec8 nb) merge8W (codec8_lawful nb) sem ops T k st
    have hd : (codec8 nb).dec [] = ⟨0, 0, 0⟩ := by simp [codec8, plane]
    rw [hd] at h; exact h

/-- lane `p` of plane 0 of every row of `s[i]` -/
def lanes0 (nb p : Nat) (rows : List SRow) : List Bool := rows.map fun r => (plane nb r 0).getLsbD p

/-- **`cycle(k)`, m = 2, lanes**: for every op program, index tables, `k`, byte-level state and lane `p` (padding lanes too): lane `p` of
    plane 0 of `s[0]`, `s[1]` after `cycle(k)` on bytes = the ONE-LANE `Cycle.cycleK` started on lane `p` of plane 0 — patterns never
    influence one another over any number of clock cycles -/
theorem cycle_patterns2 (nb : Nat) (ops : List Op) (T : Tabs) (k : Nat) (st : StB (BitVec (8 * nb))) (p : Nat) (hp : p < 8 * nb) :
    let r := cycleKB (codec2 nb) (fun op => semW2 nb op.code) ops T k st
    let rb := cycleK (fun op => semL2n op.code) ops T mergeCopy false k
      ⟨fun x => (st.env x).getLsbD p, ⟨lanes0 nb p st.s0, lanes0 nb p st.s1⟩⟩
    lanes0 nb p r.s0 = rb.s.s0 ∧ lanes0 nb p r.s1 = rb.s.s1 := by
  intro r rb
  have hd := (cycle_byte_level_is_value_level nb ops T k).1 (fun op => semW2 nb op.code) st
  have hl := C01.cycle_lanes (8 * nb) p hp ops T k (decSt (codec2 nb) st)
  simp only at hl
  have e0 : lanes0 nb p r.s0 = (decSt (codec2 nb) r).s.s0.map (·.getLsbD p) := by
    simp [lanes0, decSt, codec2, List.map_map, Function.comp_def]
  have e1 : lanes0 nb p r.s1 = (decSt (codec2 nb) r).s.s1.map (·.getLsbD p) := by
    simp [lanes0, decSt, codec2, List.map_map, Function.comp_def]
  rw [e0, e1, hd]
  have ei : (⟨fun x => (st.env x).getLsbD p, ⟨lanes0 nb p st.s0, lanes0 nb p st.s1⟩⟩ : St Bool) =
      ⟨fun x => ((decSt (codec2 nb) st).env x).getLsbD p,
        ⟨(decSt (codec2 nb) st).s.s0.map (·.getLsbD p), (decSt (codec2 nb) st).s.s1.map (·.getLsbD p)⟩⟩ := by
    simp [lanes0, decSt, codec2, List.map_map, Function.comp_def]
  show _ = (cycleK _ ops T mergeCopy false k _).s.s0 ∧ _ = (cycleK _ ops T mergeCopy false k _).s.s1
  rw [ei]
  exact hl

/-- one op row is lane-wise (m = 8, m = 4): the step of `C02.sim8_lanes` / `sim4_lanes`, in the form the clock loop needs -/
theorem op_lanes8 (nb p : Nat) (hp : p < 8 * nb) (code : Nat) (xs : List (P3 (BitVec (8 * nb)))) (ys : List V3)
    (hxy : All2 (fun v b => ln8 nb p v = b) xs ys) : ln8 nb p (semW8 nb code xs) = semL8 code ys := by
  have hd : ln8 nb p (⟨0, 0, 0⟩ : P3 (BitVec (8 * nb))) = (default : V3) := by
    have hz : (0 : BitVec (8 * nb)).getLsbD p = false := by simp
    show (⟨(0 : BitVec (8 * nb)).getLsbD p, (0 : BitVec (8 * nb)).getLsbD p, (0 : BitVec (8 * nb)).getLsbD p⟩ : V3) = _
    rw [hz]; rfl
  have h0 := hxy.getD 0 _ _ hd; have h1 := hxy.getD 1 _ _ hd
  have h2 := hxy.getD 2 _ _ hd; have h3 := hxy.getD 3 _ _ hd
  unfold semW8 C02.semLw8 semL8
  show ((lane (8 * nb) p hp).f3 (Gen.sem8 code _ _ _ _)).toV3 = _
  rw [C02.lanewise8 (8 * nb) p hp]
  simp only [arg]
  rw [← h0, ← h1, ← h2, ← h3]
  rfl

theorem op_lanes4 (nb p : Nat) (hp : p < 8 * nb) (code : Nat) (xs : List (P2 (BitVec (8 * nb)))) (ys : List V2)
    (hxy : All2 (fun v b => ln4 nb p v = b) xs ys) : ln4 nb p (semW4 nb code xs) = semL4 code ys := by
  have hd : ln4 nb p (⟨0, 0⟩ : P2 (BitVec (8 * nb))) = (default : V2) := by
    have hz : (0 : BitVec (8 * nb)).getLsbD p = false := by simp
    show (⟨(0 : BitVec (8 * nb)).getLsbD p, (0 : BitVec (8 * nb)).getLsbD p⟩ : V2) = _
    rw [hz]; rfl
  have h0 := hxy.getD 0 _ _ hd; have h1 := hxy.getD 1 _ _ hd
  have h2 := hxy.getD 2 _ _ hd; have h3 := hxy.getD 3 _ _ hd
  unfold semW4 C02.semLw4 semL4
  show ((lane (8 * nb) p hp).f2 (Gen.sem4 code _ _ _ _)).toV2 = _
  rw [C02.lanewise4 (8 * nb) p hp]
  simp only [arg]
  rw [← h0, ← h1, ← h2, ← h3]
  rfl

/-- **`cycle(k)`, m = 8, lanes** (`s_ppo_to_ppi` builds the transition `merge8L`: initial := assigned final, final := captured final,
    activity := their difference): the three planes of `s[0]`, `s[1]` after `cycle(k)` on bytes show in lane `p` the ONE-LANE
    `Cycle.cycleK` over `V3` started on lane `p` — to which C01 `cycle_step` / `cycle_iter` apply with `merge := merge8L` -/
theorem cycle_patterns8 (nb : Nat) (ops : List Op) (T : Tabs) (k : Nat) (st : StB (P3 (BitVec (8 * nb)))) (p : Nat) (hp : p < 8 * nb) :
    let r := cycleKB (codec8 nb) (fun op => semW8 nb op.code) ops T k st
    let rb := cycleK (fun op => semL8 op.code) ops T merge8L V3.zero k
      ⟨fun x => ln8 nb p (st.env x), ⟨st.s0.map fun row => ln8 nb p ((codec8 nb).dec row), st.s1.map fun row => ln8 nb p ((codec8 nb).dec row)⟩⟩
    (r.s0.map fun row => ln8 nb p ((codec8 nb).dec row)) = rb.s.s0 ∧ (r.s1.map fun row => ln8 nb p ((codec8 nb).dec row)) = rb.s.s1 := by
  have h := cycleKB_lanes (codec8 nb) merge8W (codec8_lawful nb) (ln8 nb p) (semW8 nb) semL8 merge8L ops
    (fun op _ xs ys hxy => op_lanes8 nb p hp op.code xs ys hxy) (ln8_merge nb p) T k st
  have hz : ln8 nb p ((codec8 nb).dec []) = V3.zero := by simp [ln8, codec8, plane]; rfl
  rw [hz] at h
  exact h

/-- **`cycle(k)`, m = 4, lanes** -/
theorem cycle_patterns4 (nb : Nat) (ops : List Op) (T : Tabs) (k : Nat) (st : StB (P2 (BitVec (8 * nb)))) (p : Nat) (hp : p < 8 * nb) :
    let r := cycleKB (codec4 nb) (fun op => semW4 nb op.code) ops T k st
    let rb := cycleK (fun op => semL4 op.code) ops T mergeCopy (ofCode4 0) k
      ⟨fun x => ln4 nb p (st.env x), ⟨st.s0.map fun row => ln4 nb p ((codec4 nb).dec row), st.s1.map fun row => ln4 nb p ((codec4 nb).dec row)⟩⟩
    (r.s0.map fun row => ln4 nb p ((codec4 nb).dec row)) = rb.s.s0 ∧ (r.s1.map fun row => ln4 nb p ((codec4 nb).dec row)) = rb.s.s1 := by
  have h := cycleKB_lanes (codec4 nb) mergeCopy (codec4_lawful nb) (ln4 nb p) (semW4 nb) semL4 mergeCopy ops
    (fun op _ xs ys hxy => op_lanes4 nb p hp op.code xs ys hxy) (fun _ _ => rfl) T k st
  have hz : ln4 nb p ((codec4 nb).dec []) = ofCode4 0 := by simp [ln4, codec4, plane]; rfl
  rw [hz] at h
  exact h

open KV.Cycle in
/-- **`cycle(k)`, m = 2, end to end**: for every well-formed netlist, topological order, `k`, byte-level state (rows for every
    `s_nodes` position) and lane `p`: lane `p` of plane 0 of `s[0]` after `cycle(k)` is the k-fold iterate of the next-state function
    `N` (defined by THE solution of the gate equations, C01 `nextState_unique`) on lane `p` of the initial `s[0]`; port rows keep
    their lane; `s[1]` after `j + 1` cycles holds the capture of the labelling of `N^j` — C01 `cycle_iter` through the bytes. -/
theorem cycle_patterns_end_to_end2 (nb : Nat) (net : Net) (order : List Nat) (hwf : net.wfB = true)
    (ho : orderOKB net order = true) (k : Nat) (st : StB (BitVec (8 * nb)))
    (h0 : st.s0.length = net.sNodes.length) (h1 : st.s1.length = net.sNodes.length) (p : Nat) (hp : p < 8 * nb) :
    let ops := sigOps Gen.kindPrefixes net order false
    let sem : Op → List Bool → Bool := fun op => semL2n op.code
    let envp : Nat → Bool := fun x => (st.env x).getLsbD p
    let N := Cycle.nextState sem ops net false mergeCopy false envp
    let r := cycleKB (codec2 nb) (fun op => semW2 nb op.code) ops (tabsOf net false) k st
    lanes0 nb p r.s0 = iter N k (lanes0 nb p st.s0) ∧
    (∀ q, q < net.io.length → (lanes0 nb p r.s0)[q]? = (lanes0 nb p st.s0)[q]?) ∧
    (∀ j, k = j + 1 → lanes0 nb p r.s1 =
      captureRow net false (solOf sem ops (tabsOf net false) false envp (iter N j (lanes0 nb p st.s0))) (lanes0 nb p st.s1)) := by
  intro ops sem envp N r
  obtain ⟨e0, e1⟩ := cycle_patterns2 nb ops (tabsOf net false) k st p hp
  have hi := C01.cycle_iter Gen.kindPrefixes net order hwf ho sem mergeCopy false
    ⟨envp, ⟨lanes0 nb p st.s0, lanes0 nb p st.s1⟩⟩ (by simp [lanes0, h0]) (by simp [lanes0, h1]) k
  simp only at hi e0 e1
  show lanes0 nb p r.s0 = _ ∧ (∀ q, _ → (lanes0 nb p r.s0)[q]? = _) ∧ (∀ j, _ → lanes0 nb p r.s1 = _)
  rw [e0, e1]
  exact hi

/-- non-vacuity of (3): the toggle flip-flop `C01.demoSeq` (`q' = q XOR en`), 11 lanes in two bytes: enable pattern
    `0b101_0101_0101` in plane 0 of the port row, state 0; after 1, 2, 3 cycles the state row toggles in the enabled lanes only, all
    three planes of `s[0]`'s state row are the copied `s[1]` row (plane 1 = plane 0, plane 2 as the constructor left it) -/
def demoSeqSt : StB (BitVec (8 * 2)) :=
  ⟨fun _ => 0, [[[0x55, 0x05], [0x55, 0x05], [0, 0]], freshRow 2, [[0, 0], [0, 0], [0, 0]]], List.replicate 3 (freshRow 2)⟩
example : C01.demoSeq.wfB = true ∧ orderOKB C01.demoSeq [0, 1, 2, 3, 4, 5, 6] = true ∧
    demoSeqSt.s0.length = C01.demoSeq.sNodes.length ∧ demoSeqSt.s1.length = C01.demoSeq.sNodes.length := by decide +kernel
def demoSeqRun (k : Nat) : StB (BitVec (8 * 2)) :=
  cycleKB (codec2 2) (fun op => semW2 2 op.code) (sigOps Gen.kindPrefixes C01.demoSeq [0, 1, 2, 3, 4, 5, 6] false)
    (tabsOf C01.demoSeq false) k demoSeqSt
example : (demoSeqRun 1).s0.getD 2 [] = [[0x55, 0x05], [0x55, 0x05], [0, 0]] ∧
    (demoSeqRun 2).s0.getD 2 [] = [[0, 0], [0, 0], [0, 0]] ∧ (demoSeqRun 3).s0.getD 2 [] = [[0x55, 0x05], [0x55, 0x05], [0, 0]] ∧
    (demoSeqRun 3).s1.getD 1 [] = [[0, 0], [0, 0], [0, 0]] ∧ (demoSeqRun 3).s0.getD 0 [] = [[0x55, 0x05], [0x55, 0x05], [0, 0]] := by
  decide +kernel

/-! ## what the driver evaluates -/

/-- the bit-parallel op semantics the driver command `dp.run` evaluates (Drv/DataPath.lean) are the ones of the theorems above;
    for `k = 0` the driver's text is `simStr2/4/8` itself, its bytes `captureB`, for `k ≥ 1` `cycleKB` (the functions of (2), (3)) -/
theorem envOf_replicate {α} (n : Nat) (d : α) : envOf d (Array.replicate n d) = fun _ => d := by
  funext i
  simp only [envOf, Array.getD_eq_getD_getElem?, Array.getElem?_replicate]
  split <;> rfl

/-- the array form the driver runs (`cycle1BA`, `cycleKBA`: memory = an array of `c_locs_len` entries, fresh: all `dec []` = zero) leaves
    the same `s[0]`, `s[1]` as the function forms `captureB`, `cycleKB` of the theorems — every well-formed netlist, order, `strip_forks`,
    arity, op semantics, `k` -/
theorem driver_array_form {α} (C : Codec α) (sem : Op → List α → α) (net : Net) (order : List Nat) (strip : Bool)
    (hwf : net.wfB = true) (ho : orderOKB net order = true) (k : Nat) (s0 s1 : List SRow) :
    let ops := sigOps Gen.kindPrefixes net order strip
    let T := tabsOf net strip
    let st0 : StBA α := ⟨Array.replicate net.idx.len (C.dec []), s0, s1⟩
    (cycle1BA C sem ops T st0).s1 = captureB C sem ops T (fun _ => C.dec []) s0 s1 ∧
    (cycleKBA C sem ops T k st0).s0 = (cycleKB C sem ops T k ⟨fun _ => C.dec [], s0, s1⟩).s0 ∧
    (cycleKBA C sem ops T k st0).s1 = (cycleKB C sem ops T k ⟨fun _ => C.dec [], s0, s1⟩).s1 := by
  intro ops T st0
  have hb : ∀ op ∈ ops, op.out < net.idx.len := sigOps_out Gen.kindPrefixes net order strip hwf (orderOK_lt ho)
  have hp : ∀ px ∈ T.pippi, px.2 < net.idx.len := pippi_lt net strip
  have h0 : toStB C st0 = ⟨fun _ => C.dec [], s0, s1⟩ := by
    show (⟨envOf (C.dec []) (Array.replicate net.idx.len (C.dec [])), s0, s1⟩ : StB α) = _
    rw [envOf_replicate]
  have hsz : st0.env.size = net.idx.len := by simp [st0]
  have h1 := (cycle1BA_eq C sem ops T st0 (fun op h => hsz ▸ hb op h) (fun px h => hsz ▸ hp px h)).1
  have hk := cycleKBA_eq C sem ops T net.idx.len hb hp k st0 hsz
  rw [h0] at h1 hk
  refine ⟨?_, ?_, ?_⟩
  · have := congrArg StB.s1 h1
    exact this
  · exact congrArg StB.s0 hk
  · exact congrArg StB.s1 hk

theorem driver_runs_the_model (nb : Nat) :
    Drv.DataPath.semW2 nb = semW2 nb ∧ Drv.DataPath.semW4 nb = semW4 nb ∧ Drv.DataPath.semW8 nb = semW8 nb :=
  ⟨rfl, rfl, rfl⟩

end KV.C15
