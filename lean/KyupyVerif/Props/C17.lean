import KyupyVerif.Proofs.Traverse
import KyupyVerif.Proofs.Locs
/-! # C17 — graph traversals and name lookups are complete and correctly ordered

Object of the theorems: the hand-written models of `kyupy/circuit.py`
* `KV.Kahn.kahn` (`topological_order`), `KV.Trav.levels` (`topological_order_with_level`), `KV.Trav.lineOrder`
  (`topological_line_order`), `KV.Trav.revKahn` (`reversed_topological_order`, own literal deque loop),
  `KV.Trav.fanin late` (`fanin`; `late = false` the code as it is, `late = true` the repaired code) over a graph
  `G` = readers / drivers of the *connected* pins of every node in pin order + the dff/latch flag;
* `KV.Locs.locsL` (`_locs` = `io_locs`/`s_locs` as it is) and `KV.Locs.locsLF` (the repaired insertion) over lists of names.

* **Theorem** (kernel-checked, this file; for ALL graphs / ALL name lists satisfying the stated hypotheses):
  - `topo_sound` (every consistent graph, cyclic or not: no node twice, every driver of a connected pin before its reader),
    `topo_nodup_sound_complete` (if the graph cut at state elements has a rank function: every node exactly once —
    nodes with unconnected pins are nodes like all others, only connected pins are lines —, drivers first, and all
    sources = nodes without connected input and state elements, in index order, in front of everything else);
  - `level_longest` (reported level = length of the longest path from a source in the cut graph);
  - `line_order_cover` (every connected line exactly once);
  - `rev_is_kahn_transpose`, `rev_mirror` (the literal reversed traversal IS `kahn` of the transposed graph; hence no node
    twice, every reader before its driver except across state elements, complete, sinks and state elements first);
  - `fanin_sound` (every yielded node has a path to an origin — both variants, every graph), `fanin_nodup`,
    `fanin_exact` (repaired code: every node with a combinational path is yielded),
    `fanin_exact_partial` (code as it is: … every such node that is not a state element, or is an origin),
    `fanin_exact_combinational` (no state elements: yielded = exactly the transitive fan-in, both variants),
    `fanin_source_ff_omitted` (the full statement is FALSE for the code as it is: witness `q=dff(d) d=and(a,b) z=not(q)`);
  - `locs_sorted` (every name list whose matching paths are pairwise prefix-free: no exception, the nested result is the
    recursively key-sorted trie of exactly the matching positions, flattened = ascending by (stem, indices); the repaired
    code returns the same), `locs_flat_ascending`, `locs_bus_sorted` (names `p[i]`, `p_i`, `p_i_`, any dimension, any
    finite index set in any order, styles mixed: positions by ascending numeric index vector, nested per dimension),
    `locs_bus_1d`, `locs_bus_2d` (readings for one and two dimensions), `locs_stems_sorted`,
    `locs_prefix_collision` (D15: what the code as it is does on `data1[0]`/`data10[0]` and `data`/`data[0]`,
    and what the repaired code returns).
* **Correspondence** (harness/c17.py, differential, not proof): each model, through the compiled driver, against the real
  generators / `io_locs` / `s_locs` on random circuits (unconnected pins, flip-flops, latches, sequential loops,
  dangling outputs) and random name lists; exact sequences, levels and nested results. Which `fanin` / `_locs`
  variant the code under test follows is decided by a probe. `Python re`, `int`, `dict`, `sorted`, NumPy are exercised
  there, not modelled (`\d` = ASCII digit, names without line break, literal prefix).
* **Oracle** (harness/c17.py): the property statements evaluated directly on the real output with an independent
  reachability / longest-path / name-key computation; this, not the model, decides violations.
* `G.Consistent` and the bounds are decidable for graphs given by arrays (`wf_graph`: `GA.wfB`); the driver evaluates
  `wfB` on every exported circuit. The rank functions are hypotheses (existence = no combinational cycle). -/
namespace KV.C17
open KV.Kahn KV.Trav

/-! ## graphs given by arrays satisfy the hypotheses when the decidable checks say so -/
theorem wf_graph (a : GA) (h : a.wfB = true) :
    a.toG.Consistent ∧ (∀ v r, r ∈ a.toG.succs v → r < a.toG.n) ∧ (∀ r v, v ∈ a.toG.preds r → v < a.toG.n) :=
  wfB_sound a h

/-- the array checks give every hypothesis of the traversal theorems -/
theorem wf_graph_rev (a : GA) (rank : Nat → Nat) (h : a.wfB = true) (hr : a.rrankOKB rank = true) :
    RevOK a.toG rank :=
  ⟨(wfB_sound a h).1, (wfB_sound a h).2.1, (wfB_sound a h).2.2, rrankOKB_sound a rank hr⟩

/-! ## topological_order -/
/-- every consistent graph — even with combinational cycles: no node twice, and every node that is not a source comes
after the drivers of all its connected pins -/
theorem topo_sound (g : G) (hc : g.Consistent) : (kahn g).Nodup ∧ Ordered g (kahn g) := kahn_sound g hc

/-- every node exactly once (a node with unconnected pins is a node like any other; a node with NO connected input is a
source), drivers before readers, sources (no connected input, or state element) first in index order.
`rank` witnesses that the graph cut at state elements is acyclic. -/
theorem topo_nodup_sound_complete (g : G) (hc : g.Consistent)
    (hb : ∀ v r, r ∈ g.succs v → r < g.n) (hpb : ∀ r v, v ∈ g.preds r → v < g.n)
    (rank : Nat → Nat) (hrank : ∀ r v, g.isSrc r = false → v ∈ g.preds r → rank v < rank r) :
    (kahn g).Perm (List.range g.n) ∧ (kahn g).Nodup ∧ (∀ r, r ∈ kahn g ↔ r < g.n) ∧
    Ordered g (kahn g) ∧
    ∃ X, kahn g = (List.range g.n).filter g.isSrc ++ X ∧ ∀ x ∈ X, g.isSrc x = false := by
  have hs := kahn_sound g hc
  have hcpl := kahn_complete g hc hb hpb rank hrank
  have hbd := kahn_bound g hb
  exact ⟨perm_range_of_nodup_complete _ _ hs.1 hbd hcpl, hs.1, fun r => ⟨hbd r, hcpl r⟩, hs.2,
    kahn_sources_first g hc hb⟩

/-! ## topological_order_with_level -/
/-- the generator yields the nodes of `topological_order()` in that order, each with the length of the longest path
from a source (node without connected input / state element) in the graph cut at state elements -/
theorem level_longest (g : G) (hc : g.Consistent) :
    (levels g).map Prod.fst = kahn g ∧
    ∀ x ∈ levels g, ∃ k : Nat, x.2 = (k : Int) ∧ SrcPath g x.1 k ∧ ∀ k', SrcPath g x.1 k' → k' ≤ k := by
  have hs := kahn_sound g hc
  refine ⟨levelsLoop_fst g _ _, ?_⟩
  exact levelsLoop_longest g [] (kahn g) _ (by simpa using hs.1) (by simpa using hs.2) (by intro j hj; simp at hj)

/-! ## topological_line_order -/
/-- every connected line exactly once (`outLines v` = connected out-lines of node `v`; `lineTableB` = every line index
`< m` occurs exactly once among them) -/
theorem line_order_cover (g : G) (m : Nat) (outLines : Nat → List Nat) (hc : g.Consistent)
    (hb : ∀ v r, r ∈ g.succs v → r < g.n) (hpb : ∀ r v, v ∈ g.preds r → v < g.n)
    (rank : Nat → Nat) (hrank : ∀ r v, g.isSrc r = false → v ∈ g.preds r → rank v < rank r)
    (ht : lineTableB g.n m outLines = true) :
    (lineOrder g outLines).Nodup ∧ ∀ l, l ∈ lineOrder g outLines ↔ l < m := by
  have hperm := (topo_nodup_sound_complete g hc hb hpb rank hrank).1
  have hp : (lineOrder g outLines).Perm ((List.range g.n).flatMap outLines) := hperm.flatMap_right outLines
  simp only [lineTableB, Bool.and_eq_true, List.all_eq_true, List.mem_range, List.contains_iff_mem,
    decide_eq_true_eq] at ht
  obtain ⟨⟨hall, hlt⟩, hnd⟩ := ht
  refine ⟨hp.nodup_iff.mpr hnd, ?_⟩
  intro l
  rw [hp.mem_iff]
  exact ⟨fun h => hlt l h, fun h => hall l h⟩

/-! ## reversed_topological_order -/
/-- the literal model of the reversed traversal (own deque loop, counters over connected output pins) is `kahn` of the
transposed graph -/
theorem rev_is_kahn_transpose (g : G) : revKahn g = kahn g.transpose := revKahn_eq g

/-- mirror image: the reversed order is a topological order of the reversed graph, cut at state elements on the other
side: every node exactly once; a node that is not a state element and has a connected output comes after ALL its readers;
nodes without connected output and state elements come first, in index order -/
theorem rev_mirror (g : G) (rank : Nat → Nat) (h : RevOK g rank) :
    (revKahn g).Perm (List.range g.n) ∧ (revKahn g).Nodup ∧ (∀ r, r ∈ revKahn g ↔ r < g.n) ∧
    (∀ A v B, revKahn g = A ++ v :: B → g.isSink v = false → ∀ r ∈ g.succs v, r ∈ A) ∧
    ∃ X, revKahn g = (List.range g.n).filter g.isSink ++ X ∧ ∀ x ∈ X, g.isSink x = false := by
  have := topo_nodup_sound_complete g.transpose (transpose_consistent g h.cons) (fun v r hr => h.pb v r hr)
    (fun r v hv => h.sb r v hv) rank h.rank
  rw [← revKahn_eq] at this
  exact this

/-- without any acyclicity assumption: no node twice, readers before drivers -/
theorem rev_sound (g : G) (hc : g.Consistent) :
    (revKahn g).Nodup ∧ ∀ A v B, revKahn g = A ++ v :: B → g.isSink v = false → ∀ r ∈ g.succs v, r ∈ A :=
  revKahn_ordered g hc

/-! ## fanin -/
/-- both variants, every graph: a yielded node is a node and has a path to an origin
("no node without any path is yielded") -/
theorem fanin_sound (late : Bool) (g : G) (O : List Nat) (hc : g.Consistent) (hpb : ∀ r v, v ∈ g.preds r → v < g.n) :
    ∀ x ∈ fanin late g O, x < g.n ∧ AnyReach g O x := by
  intro x hx
  refine ⟨?_, fanin_sound_any late g O x hx⟩
  have := fanin_sub late g O x hx
  rw [revKahn_eq] at this
  exact kahn_bound g.transpose (fun v r hr => hpb v r hr) x this

/-- both variants, every consistent graph: no node is yielded twice -/
theorem fanin_nodup (late : Bool) (g : G) (O : List Nat) (hc : g.Consistent) : (fanin late g O).Nodup :=
  KV.Trav.fanin_nodup late g O hc

/-- FULL STATEMENT, proved for the repaired code (`late = true`): every node with a combinational path to an origin is
yielded, and no node without any path is yielded -/
theorem fanin_exact (g : G) (O : List Nat) (rank : Nat → Nat) (h : RevOK g rank) :
    (∀ x, x < g.n → CombReach g O x → x ∈ fanin true g O) ∧
    (∀ x ∈ fanin true g O, x < g.n ∧ AnyReach g O x) :=
  ⟨fun x hx hr => fanin_complete_late g O rank h x hx hr, fanin_sound true g O h.cons h.pb⟩

/- fanin_exact for the code as it is (`late = false`) would read
     (∀ x, x < g.n → CombReach g O x → x ∈ fanin false g O) ∧ (∀ x ∈ fanin false g O, x < g.n ∧ AnyReach g O x)
   and is FALSE (`fanin_source_ff_omitted`). Proved part: the first half for nodes that are not state elements
   (or are origins themselves). Missing piece: state elements that are sources of the cone. -/
theorem fanin_exact_partial (g : G) (O : List Nat) (rank : Nat → Nat) (h : RevOK g rank) :
    (∀ x, x < g.n → CombReach g O x → (g.seq x = false ∨ x ∈ O) → x ∈ fanin false g O) ∧
    (∀ x ∈ fanin false g O, x < g.n ∧ AnyReach g O x) :=
  ⟨fun x hx hr hns => fanin_complete_ns false g O rank h x hx ⟨hr, hns⟩, fanin_sound false g O h.cons h.pb⟩

/-- circuits without state elements, both variants: the yielded nodes are exactly the transitive fan-in -/
theorem fanin_exact_combinational (late : Bool) (g : G) (O : List Nat) (rank : Nat → Nat) (h : RevOK g rank)
    (hseq : ∀ v, g.seq v = false) :
    ∀ x, x ∈ fanin late g O ↔ (x < g.n ∧ AnyReach g O x) := by
  intro x
  constructor
  · exact fanin_sound late g O h.cons h.pb x
  · rintro ⟨hx, hr⟩
    exact fanin_complete_ns late g O rank h x hx ⟨anyReach_comb g O hseq x hr, Or.inl (hseq x)⟩

/-! ### non-vacuity and the witness of D17 -/
/-- `input(a,b) output(z)  q=dff(d)  d=and(a,b)  z=not(q)` as kyupy's bench reader builds it:
0 a, 1 b, 2 z, 3 d (forks), 4 q (dff), 5 q (fork), 6 d (and), 7 z (not) -/
def ex17 : GA :=
  { succs := #[[6], [6], [], [4], [5], [7], [3], [2]],
    preds := #[[], [], [7], [6], [3], [4], [0, 1], [5]],
    seq := #[false, false, false, false, true, false, false, false] }
def ex17Rank : Nat → Nat := fun v => [0, 0, 3, 2, 0, 1, 1, 2].getD v 0
def ex17RRank : Nat → Nat := fun v => [3, 3, 0, 1, 0, 2, 2, 1].getD v 0

/-- a flip-flop in a loop `q → fork → inv → fork → q`, and a gate (node 4) whose only pin is unconnected -/
def exLoop : GA :=
  { succs := #[[1], [2], [3], [0], []], preds := #[[3], [0], [1], [2], []], seq := #[true, false, false, false, false] }

example : ex17.wfB = true ∧ ex17.rankOKB ex17Rank = true ∧ ex17.rrankOKB ex17RRank = true := by decide +kernel
example : exLoop.wfB = true ∧ exLoop.rankOKB (fun v => v) = true ∧ exLoop.rrankOKB (fun v => (5 - v) % 5) = true := by
  decide +kernel
example : kahn ex17.toG = [0, 1, 4, 6, 5, 3, 7, 2] ∧ revKahn ex17.toG = [2, 4, 7, 3, 5, 6, 0, 1] := by decide +kernel
example : levels ex17.toG = [(0, 0), (1, 0), (4, 0), (6, 1), (5, 1), (3, 2), (7, 2), (2, 3)] := by decide +kernel
example : kahn exLoop.toG = [0, 4, 1, 2, 3] ∧ revKahn exLoop.toG = [0, 4, 3, 2, 1] := by decide +kernel
example : lineTableB 8 7 (fun v => [[0], [1], [], [3], [4], [5], [2], [6]].getD v []) = true ∧
    lineOrder ex17.toG (fun v => [[0], [1], [], [3], [4], [5], [2], [6]].getD v []) = [0, 1, 4, 2, 5, 3, 6] := by
  decide +kernel

/-- D17: in `q=dff(d) d=and(a,b) z=not(q)` the flip-flop `q` (node 4) has the combinational path `q → fork → not → z`
to the origin `z` (node 2), but the code as it is yields only `[z, not, fork q]`; the repaired code adds `q` -/
theorem fanin_source_ff_omitted :
    CombReach ex17.toG [2] 4 ∧ fanin false ex17.toG [2] = [2, 7, 5] ∧ 4 ∉ fanin false ex17.toG [2] ∧
    fanin true ex17.toG [2] = [2, 7, 5, 4] := by
  refine ⟨?_, by decide +kernel, by decide +kernel, by decide +kernel⟩
  have h2 : CombReach ex17.toG [2] 2 := CombReach.orig 2 (by simp)
  have h7 : CombReach ex17.toG [2] 7 := CombReach.step 7 2 (by decide +kernel) (Or.inr (by simp)) h2
  have h5 : CombReach ex17.toG [2] 5 := CombReach.step 5 7 (by decide +kernel) (Or.inl (by decide +kernel)) h7
  exact CombReach.step 4 5 (by decide +kernel) (Or.inl (by decide +kernel)) h5

/-- the hypotheses of the theorems above are satisfiable by circuits with a flip-flop (and a loop through it):
each theorem instantiated -/
example : (kahn ex17.toG).Perm (List.range 8) :=
  (topo_nodup_sound_complete ex17.toG (wf_graph ex17 (by decide +kernel)).1 (wf_graph ex17 (by decide +kernel)).2.1
    (wf_graph ex17 (by decide +kernel)).2.2 ex17Rank (rankOKB_sound ex17 (by decide +kernel) ex17Rank (by decide +kernel))).1
example : (revKahn exLoop.toG).Perm (List.range 5) :=
  (rev_mirror exLoop.toG _ (wf_graph_rev exLoop (fun v => (5 - v) % 5) (by decide +kernel) (by decide +kernel))).1
example : ∀ x, x < 8 → CombReach ex17.toG [2] x → x ∈ fanin true ex17.toG [2] :=
  (fanin_exact ex17.toG [2] ex17RRank (wf_graph_rev ex17 ex17RRank (by decide +kernel) (by decide +kernel))).1
example : (lineOrder ex17.toG (fun v => [[0], [1], [], [3], [4], [5], [2], [6]].getD v [])).Nodup :=
  (line_order_cover ex17.toG 7 _ (wf_graph ex17 (by decide +kernel)).1 (wf_graph ex17 (by decide +kernel)).2.1
    (wf_graph ex17 (by decide +kernel)).2.2 ex17Rank (rankOKB_sound ex17 (by decide +kernel) ex17Rank (by decide +kernel))
    (by decide +kernel)).1
/-- a purely combinational circuit `z = and(a, not(a))`, node 4 (a gate with an unconnected pin only) is outside the cone -/
def exComb : GA :=
  { succs := #[[1, 2], [2], [3], [], []], preds := #[[], [0], [0, 1], [2], []], seq := #[false, false, false, false, false] }
example : ∀ x, x ∈ fanin false exComb.toG [2] ↔ (x < 5 ∧ AnyReach exComb.toG [2] x) :=
  fanin_exact_combinational false exComb.toG [2] (fun v => 4 - v)
    (wf_graph_rev exComb (fun v => 4 - v) (by decide +kernel) (by decide +kernel)) (by intro v; simp only [exComb, GA.toG]; rcases v with _ | _ | _ | _ | _ | v <;> simp)
example : fanin false exComb.toG [2] = [2, 1, 0] ∧ kahn exComb.toG = [0, 4, 1, 2, 3] := by decide +kernel

/-- an origin that is a flip-flop pulls in the cone of its data pin (both variants): `fanin([q])` -/
example : fanin false ex17.toG [4] = [4, 3, 6, 0, 1] ∧ fanin true ex17.toG [4] = [4, 3, 6, 0, 1] := by decide +kernel

/-! ## io_locs / s_locs -/
section Locs
open KV.Locs

/-- ALL name lists and prefixes such that the paths (stem, indices…) of the matching names are pairwise prefix-free
(`CompatP`: no path equals or extends another one): the lookup does not raise; its result is `unwrap` (strip levels
with a single entry, `None` for no match) of a nested dictionary `s` that
* is sorted by key at every level (`Sorted`: stems by code point, indices by numeric value),
* contains exactly the matching names, each at its path with its position (`entries` is a permutation of the matches),
* hence lists the positions by strictly ascending path, and unwrapping keeps that list;
and the repaired code returns the same result. -/
theorem locs_sorted (pre : List Char) (names : List (List Char))
    (hc : (matchesFrom pre names 0).Pairwise CompatP) :
    ∃ s : D, locsL pre names = unwrap s ∧ locsLF pre names = unwrap s ∧ locsL pre names ≠ .raises ∧
      s.Sorted ∧ s.entries.Perm (matchesFrom pre names 0) ∧
      s.entries.Pairwise (fun a b => pathLt a.1 b.1 = true) ∧
      (locsL pre names).flat = s.entries.map Prod.snd := by
  have hne := matchesFrom_ne_nil pre names 0
  have hd0 : ∀ e ∈ matchesFrom pre names 0, Compat e.1 D.nil.entries := by
    intro e _ x hx; simp [D.entries] at hx
  obtain ⟨d, hb, hw, hp⟩ := buildPaths_spec (matchesFrom pre names 0) .nil trivial hne hc hd0
  have hbF := buildPathsF_eq (matchesFrom pre names 0) .nil trivial hne hc hd0
  have h1 : locsL pre names = unwrap (sortRec d) := by simp [locsL, insertAll_eq, hb]
  have h2 : locsLF pre names = unwrap (sortRec d) := by simp [locsLF, insertAllF_eq, hbF, hb]
  have hsorted := sortRec_sorted d hw
  have hperm : (sortRec d).entries.Perm (matchesFrom pre names 0) :=
    (entries_sortRec d).trans (by simpa [D.entries] using hp)
  refine ⟨sortRec d, h1, h2, by rw [h1]; exact unwrap_ne_raises _, hsorted, hperm,
    sorted_entries_pairwise _ hsorted, ?_⟩
  rw [h1]
  exact unwrap_flat _

/-- the flat reading: the positions of all matching names, each once, in ascending order of their paths -/
theorem locs_flat_ascending (pre : List Char) (names : List (List Char))
    (hc : (matchesFrom pre names 0).Pairwise CompatP) :
    ∃ L, (locsL pre names).flat = L ∧ L.Perm ((matchesFrom pre names 0).map Prod.snd) ∧
      L.Pairwise (fun a b => ∀ pa pb, (pa, a) ∈ matchesFrom pre names 0 → (pb, b) ∈ matchesFrom pre names 0 →
        pathLt pa pb = true) := by
  obtain ⟨s, _, _, _, _, hperm, hpw, hflat⟩ := locs_sorted pre names hc
  refine ⟨s.entries.map Prod.snd, hflat, hperm.map _, ?_⟩
  apply List.pairwise_map.mpr
  refine hpw.imp_of_mem ?_
  intro a b ha hb hab pa pb hpa hpb
  have e1 := matchesFrom_functional pre names 0 a.2 pa a.1 hpa (hperm.subset ha)
  have e2 := matchesFrom_functional pre names 0 b.2 pb b.1 hpb (hperm.subset hb)
  rw [e1, e2]; exact hab

/-- bus names under their stem `p`: every name is `p` followed by one formatted index per dimension, each in one of the
styles `[i]`, `_i`, `_i_` (mixed freely), `i` any number; the index vectors are pairwise prefix-free (e.g. pairwise
different vectors of one dimension: any finite set, gaps allowed), names in any order.  Then `io_locs(p)`
is the unwrapped nested list `s` in which the position of the name with index vector `v` sits at path `p, v₁, v₂, …`
(nested per dimension), every level sorted by numeric index, so that the positions read in ascending lexicographic
numeric order of the index vectors (LSB to MSB). -/
theorem locs_bus_sorted (p : List Char) (rows : List (List (Style × Nat)))
    (hc : (rows.map vecOf).Pairwise VecCompat) :
    ∃ (s : D) (E : List (List Nat × Nat)),
      locsL p (rows.map fun r => busName p (numRow r)) = unwrap s ∧
      locsLF p (rows.map fun r => busName p (numRow r)) = unwrap s ∧
      s.Sorted ∧ s.entries = E.map (fun e => (busPath p e.1, e.2)) ∧
      E.Perm (vecEntries rows 0) ∧ E.Pairwise (fun a b => vecLt a.1 b.1 = true) ∧
      (locsL p (rows.map fun r => busName p (numRow r))).flat = E.map Prod.snd := by
  have hnames : (rows.map fun r => busName p (numRow r)) = (rows.map numRow).map (busName p) := by
    simp [List.map_map, Function.comp_def]
  have hdig : ∀ r ∈ rows.map numRow, ∀ it ∈ r, digitsOK it.2 = true := by
    intro r hr
    obtain ⟨r0, _, rfl⟩ := List.mem_map.mp hr
    exact numRow_digits r0
  have hM : matchesFrom p (rows.map fun r => busName p (numRow r)) 0
      = (vecEntries rows 0).map (fun e => (busPath p e.1, e.2)) := by
    rw [hnames, matchesFrom_rows p _ hdig 0, rowEntries_num]
  have hcompat : (matchesFrom p (rows.map fun r => busName p (numRow r)) 0).Pairwise CompatP := by
    rw [hnames, matchesFrom_rows p _ hdig 0]
    apply rowEntries_compat
    rw [List.map_map]
    have : (idxVec ∘ numRow) = vecOf := by funext r; exact idxVec_numRow r
    rw [this]; exact hc
  obtain ⟨s, h1, h2, _, hsorted, hperm, hpw, hflat⟩ := locs_sorted p _ hcompat
  rw [hM] at hperm
  -- every entry of s is the path of an index vector
  have hform : ∀ e ∈ s.entries, e.1 = busPath p (unkey e.1) := by
    intro e he
    obtain ⟨x, _, hx⟩ := List.mem_map.mp (hperm.subset he)
    rw [← hx, unkey_busPath]
  refine ⟨s, s.entries.map (fun e => (unkey e.1, e.2)), h1, h2, hsorted, ?_, ?_, ?_, ?_⟩
  · rw [List.map_map]
    symm
    calc s.entries.map ((fun e : List Nat × Nat => (busPath p e.1, e.2)) ∘ fun e => (unkey e.1, e.2))
        = s.entries.map id := List.map_congr_left (fun e he => by simp [← hform e he])
      _ = s.entries := List.map_id _
  · have := hperm.map (fun e : List Key × Nat => (unkey e.1, e.2))
    simpa [List.map_map, Function.comp_def, unkey_busPath] using this
  · apply List.pairwise_map.mpr
    refine hpw.imp_of_mem ?_
    intro a b ha hb hab
    rw [hform a ha, hform b hb] at hab
    simpa [busPath, pathLt_stem, vecLt] using hab
  · rw [hflat]; simp [List.map_map, Function.comp_def]

/-- one dimension: `p[i]`, `p_i`, `p_i_` for `i` in any finite set (any order, gaps allowed, styles mixed):
the positions are listed by strictly ascending numeric `i` -/
theorem locs_bus_1d (p : List Char) (items : List (Style × Nat)) (hnd : (items.map Prod.snd).Nodup) :
    ∃ E : List (Nat × Nat),
      E.Perm (items.zipIdx.map fun x => (x.1.2, x.2)) ∧ E.Pairwise (fun a b => a.1 < b.1) ∧
      (locsL p (items.map fun it => busName p (numRow [it]))).flat = E.map Prod.snd := by
  have hc : ((items.map fun it => [it]).map vecOf).Pairwise VecCompat := by
    rw [List.map_map]
    apply List.pairwise_map.mpr
    have := List.pairwise_map.mp hnd
    refine this.imp ?_
    intro a b hab
    simp only [Function.comp, vecOf, List.map_cons, List.map_nil, VecCompat, List.cons_prefix_cons,
      List.nil_prefix, and_true]
    exact ⟨hab, fun e => hab e.symm⟩
  obtain ⟨s, E, _, _, _, _, hperm, hpw, hflat⟩ := locs_bus_sorted p (items.map fun it => [it]) hc
  have hnames : ((items.map fun it => [it]).map fun r => busName p (numRow r)) =
      items.map fun it => busName p (numRow [it]) := by simp [List.map_map, Function.comp_def]
  rw [hnames] at hflat
  have hve : ∀ (its : List (Style × Nat)) (i : Nat), vecEntries (its.map fun it => [it]) i =
      (its.zipIdx i).map fun x => ([x.1.2], x.2) := by
    intro its
    induction its with
    | nil => intro i; rfl
    | cons a as ih => intro i; simp [vecEntries, vecOf, List.zipIdx_cons, ih (i + 1)]
  have hform : ∀ e ∈ E, e.1 = [e.1.headD 0] := by
    intro e he
    have := hperm.subset he
    rw [hve] at this
    obtain ⟨x, _, hx⟩ := List.mem_map.mp this
    rw [← hx]; rfl
  refine ⟨E.map (fun e => (e.1.headD 0, e.2)), ?_, ?_, ?_⟩
  · have := hperm.map (fun e : List Nat × Nat => (e.1.headD 0, e.2))
    rw [hve] at this
    simpa [List.map_map, Function.comp_def] using this
  · apply List.pairwise_map.mpr
    refine hpw.imp_of_mem ?_
    intro a b ha hb hab
    rw [hform a ha, hform b hb] at hab
    simpa [vecLt, pathLt_idx1] using hab
  · rw [hflat]; simp [List.map_map, Function.comp_def]

/-- two dimensions `p[i][j]` (or any mix of the styles): ascending `i`, then ascending `j`, is how `vecLt` reads -/
theorem locs_bus_2d (i1 j1 i2 j2 : Nat) : vecLt [i1, j1] [i2, j2] = decide (i1 < i2 ∨ (i1 = i2 ∧ j1 < j2)) := by
  simp [vecLt, pathLt_idx2]

/-- several stems under one prefix: the stem is compared first (by code point), e.g. `addr…` before `data…` -/
theorem locs_stems_sorted (s1 s2 : Key) (a b : List Key) (h : lexLe s2 s1 = false) :
    pathLt (s1 :: a) (s2 :: b) = true := by simp [pathLt, h]

/-- D15 (prefix collisions). Code as it is: `io_locs('data1')` with ports `data1[0]`, `data10[0]` raises (the regular
expression reads `data10[0]` as stem `data1`, indices 0, 0, below the integer stored for `data1[0]`); with the ports in
the other order the position of `data10[0]` is silently overwritten; `io_locs('data')` with ports `data`, `data[0]` raises.
Repaired code: nothing raises, nothing is lost, a name that is also the stem of longer names is listed first. -/
theorem locs_prefix_collision :
    locs "data1" ["data1[0]", "data10[0]"] = .raises ∧
    locs "data1" ["data10[0]", "data1[0]"] = .int 1 ∧
    locs "data" ["data", "data[0]"] = .raises ∧
    (locsF "data1" ["data1[0]", "data10[0]"]).show = "[0,1]" ∧
    (locsF "data1" ["data10[0]", "data1[0]"]).show = "[1,0]" ∧
    (locsF "data" ["data[1]", "data", "data[0]"]).show = "[1,2,0]" := by decide +kernel

/-! ### non-vacuity: the hypotheses hold for ordinary port lists, and the results are the expected ones -/
example : (matchesFrom "d".toList (["d[3]", "q", "d_1", "d_10_", "d2"].map String.toList) 0).Pairwise CompatP := by
  decide +kernel
example : (locs "d" ["d[3]", "q", "d_1", "d_10_", "d2"]).show = "[2,4,0,3]" := by decide +kernel
example : (locs "m" ["m[1][0]", "m[0][1]", "m[0][0]", "m[1][1]"]).show = "[[2,1],[0,3]]" := by decide +kernel
example : (locs "data" ["data0[0]", "data0[1]", "data1[0]", "data1[1]"]).show = "[[0,1],[2,3]]" := by decide +kernel
example : (locs "" ["data[1]", "addr[0]", "data[0]", "clk"]).show = "[[1],3,[2,0]]" := by decide +kernel
example : (locs "data" ["data1[0]", "data10[0]", "data2[0]"]).show = "[[0],[2],[1]]" := by decide +kernel
example : (locs "x" ["data[1]"]).show = "None" ∧ (locs "clk" ["a", "clk"]).show = "1" := by decide +kernel
example : ([[3], [1], [10]].map id : List (List Nat)).Pairwise VecCompat := by decide +kernel
example : ([[1, 0], [0, 1], [0, 0]] : List (List Nat)).Pairwise VecCompat := by decide +kernel
example : busName "d".toList (numRow [(Style.br, 3), (Style.ust, 12)]) = "d[3]_12_".toList := by decide +kernel

end Locs

end KV.C17
